/-
C18 helper lemmas, part G: records with dictionaries inside dictionaries (chapters with
sub-chapters, any depth).  A `Shape` is the tree of chapter names that every record of a history
carries; `record`, `pop`, `del` keep a logbook aligned at every depth with respect to it.
-/
import DeapModel.Lemmas.C18Deep

set_option linter.unusedSimpArgs false
set_option linter.unusedVariables false

namespace C18L
open Logbook

/-- the tree of chapter names: which dictionaries a record carries, and which dictionaries those
carry in turn -/
inductive Shape where
  | mk (kids : List (Name × Shape))

def Shape.kids : Shape → List (Name × Shape) | .mk k => k

/-- the dict-valued items that are still dictionaries after `chapter_infos.update(apply_to_all)`:
an inherited scalar of the same name replaces the dictionary -/
def effDicts (inh : Row) (dicts : List (Name × Entry)) : List (Name × Entry) :=
  dicts.filter fun q => !dictHas inh q.1

mutual
/-- the record `e`, entered into a logbook that inherits the scalars `inh` from the enclosing
record, carries exactly the chapter tree `sh`: its effective dictionaries have distinct names,
these are the names of `sh`, and each dictionary carries the corresponding sub-tree -/
def Fits (inh : Row) : Shape → Entry → Prop
  | sh, .mk sc dicts =>
      ((effDicts inh dicts).map (·.1)).Nodup ∧
      (∀ c, c ∈ (effDicts inh dicts).map (·.1) ↔ c ∈ sh.kids.map (·.1)) ∧
      FitsAll (dictUpdate sc inh) inh sh.kids dicts
def FitsAll (all inh : Row) (kids : List (Name × Shape)) : List (Name × Entry) → Prop
  | [] => True
  | (k, sub) :: rest =>
      (dictHas inh k = false → ∀ shk, (k, shk) ∈ kids → Fits all shk sub) ∧ FitsAll all inh kids rest
end

theorem fitsAll_iff (all inh : Row) (kids : List (Name × Shape)) (dicts : List (Name × Entry)) :
    FitsAll all inh kids dicts ↔
      ∀ q ∈ dicts, dictHas inh q.1 = false → ∀ shk, (q.1, shk) ∈ kids → Fits all shk q.2 := by
  induction dicts with
  | nil => simp [FitsAll]
  | cons q qs ih => obtain ⟨k, sub⟩ := q; simp [FitsAll, ih]

theorem fits_iff (inh : Row) (sh : Shape) (e : Entry) :
    Fits inh sh e ↔ ((effDicts inh e.dicts).map (·.1)).Nodup ∧
      (∀ c, c ∈ (effDicts inh e.dicts).map (·.1) ↔ c ∈ sh.kids.map (·.1)) ∧
      FitsAll (dictUpdate e.scalars inh) inh sh.kids e.dicts := by
  cases e; simp [Fits, Entry.dicts, Entry.scalars]

mutual
/-- aligned at every depth with respect to the chapter tree `sh`: stream position in range, the
chapters are (some of) those of the tree, and every chapter of the tree — counted as empty while
it does not exist yet — has as many rows as the logbook and is itself aligned w.r.t. its sub-tree -/
def ShapedAligned : Shape → LB → Prop
  | .mk kids, lb => lb.buffindex ≤ lb.rows.length ∧ (lb.chapters.map (·.1)).Nodup ∧
      (∀ c ∈ lb.chapters.map (·.1), c ∈ kids.map (·.1)) ∧ KidsAligned lb.rows.length lb.chapters kids
def KidsAligned (n : Nat) (chs : List (Name × LB)) : List (Name × Shape) → Prop
  | [] => True
  | (c, sh) :: rest =>
      (match getChapter c chs with
       | none => n = 0
       | some ch => ch.rows.length = n ∧ ShapedAligned sh ch) ∧ KidsAligned n chs rest
end

theorem shapedAligned_iff (sh : Shape) (lb : LB) :
    ShapedAligned sh lb ↔ lb.buffindex ≤ lb.rows.length ∧ (lb.chapters.map (·.1)).Nodup ∧
      (∀ c ∈ lb.chapters.map (·.1), c ∈ sh.kids.map (·.1)) ∧
      KidsAligned lb.rows.length lb.chapters sh.kids := by
  cases sh; simp [ShapedAligned, Shape.kids]

/-- a logbook without chapters and rows is aligned w.r.t. every tree -/
theorem kidsAligned_nil (ks : List (Name × Shape)) : KidsAligned 0 [] ks := by
  induction ks with
  | nil => trivial
  | cons q qs ih => obtain ⟨c, sh⟩ := q; simp [KidsAligned, getChapter, ih]

theorem shaped_empty (sh : Shape) : ShapedAligned sh LB.empty := by
  rw [shapedAligned_iff]
  simp [LB.empty, kidsAligned_nil]

theorem mem_keys_getChapter (chs : List (Name × LB)) (c : Name) (h : c ∈ chs.map (·.1)) :
    ∃ ch, getChapter c chs = some ch := by
  induction chs with
  | nil => simp at h
  | cons q qs ih =>
    obtain ⟨k, ch⟩ := q
    by_cases hck : c = k
    · subst hck; exact ⟨ch, by simp [getChapter, List.lookup]⟩
    · have hb : (c == k) = false := by simpa using hck
      simp only [List.map_cons, List.mem_cons, hck, false_or] at h
      obtain ⟨ch', hc'⟩ := ih h
      exact ⟨ch', by simpa [getChapter, List.lookup, hb] using hc'⟩

mutual
/-- alignment w.r.t. a tree is alignment at every depth -/
theorem shaped_deep : ∀ (sh : Shape) (lb : LB), ShapedAligned sh lb → DeepAligned lb
  | .mk kids, lb, h => by
    have h' : lb.buffindex ≤ lb.rows.length ∧ (lb.chapters.map (·.1)).Nodup ∧
        (∀ c ∈ lb.chapters.map (·.1), c ∈ kids.map (·.1)) ∧
        KidsAligned lb.rows.length lb.chapters kids := by simpa [ShapedAligned] using h
    rw [deepAligned_iff]
    refine ⟨h'.1, fun q hq => ?_⟩
    exact kids_deep kids lb.rows.length lb.chapters h'.2.2.2 h'.2.1 q hq
      (h'.2.2.1 q.1 (List.mem_map_of_mem hq))
theorem kids_deep : ∀ (ks : List (Name × Shape)) (n : Nat) (chs : List (Name × LB)),
    KidsAligned n chs ks → (chs.map (·.1)).Nodup → ∀ q ∈ chs, q.1 ∈ ks.map (·.1) →
      q.2.rows.length = n ∧ DeepAligned q.2
  | [], _, _, _, _, _, _, hk => by simp at hk
  | (c, sh) :: rest, n, chs, ha, hn, q, hq, hk => by
    have ha' : (match getChapter c chs with
       | none => n = 0
       | some ch => ch.rows.length = n ∧ ShapedAligned sh ch) ∧ KidsAligned n chs rest := by
      simpa [KidsAligned] using ha
    by_cases hqc : q.1 = c
    · have hg := getChapter_of_mem chs hn q hq
      rw [hqc] at hg
      have h1 := ha'.1
      rw [hg] at h1
      exact ⟨h1.1, shaped_deep sh q.2 h1.2⟩
    · have hk' : q.1 ∈ rest.map (·.1) := by
        simp only [List.map_cons, List.mem_cons, hqc, false_or] at hk; exact hk
      exact kids_deep rest n chs ha'.2 hn q hq hk'
end

theorem kidsAligned_iff (n : Nat) (chs : List (Name × LB)) (ks : List (Name × Shape)) :
    KidsAligned n chs ks ↔ ∀ q ∈ ks, (match getChapter q.1 chs with
       | none => n = 0
       | some ch => ch.rows.length = n ∧ ShapedAligned q.2 ch) := by
  induction ks with
  | nil => simp [KidsAligned]
  | cons q qs ih => obtain ⟨c, sh⟩ := q; simp [KidsAligned, ih]

/-! ### `pop` / `del` keep the alignment w.r.t. the tree -/

mutual
theorem erase_shaped : ∀ (sh : Shape) (lb : LB) (p : Nat), ShapedAligned sh lb →
    ShapedAligned sh (eraseDeep p lb)
  | .mk kids, lb, p, h => by
    have h' : lb.buffindex ≤ lb.rows.length ∧ (lb.chapters.map (·.1)).Nodup ∧
        (∀ c ∈ lb.chapters.map (·.1), c ∈ kids.map (·.1)) ∧
        KidsAligned lb.rows.length lb.chapters kids := by simpa [ShapedAligned] using h
    have hk := erase_kids kids lb.rows.length lb.chapters p h'.2.2.2
    simp only [ShapedAligned, eraseDeep_rows, eraseDeep_chapters, eraseDeep_buffindex,
      List.map_map, Function.comp_def, List.length_eraseIdx]
    refine ⟨?_, h'.2.1, h'.2.2.1, hk⟩
    have := h'.1
    split <;> split <;> omega
theorem erase_kids : ∀ (ks : List (Name × Shape)) (n : Nat) (chs : List (Name × LB)) (p : Nat),
    KidsAligned n chs ks →
      KidsAligned (if p < n then n - 1 else n) (chs.map fun q => (q.1, eraseDeep p q.2)) ks
  | [], _, _, _, _ => by simp [KidsAligned]
  | (c, sh) :: rest, n, chs, p, ha => by
    have ha' : (match getChapter c chs with
       | none => n = 0
       | some ch => ch.rows.length = n ∧ ShapedAligned sh ch) ∧ KidsAligned n chs rest := by
      simpa [KidsAligned] using ha
    have hr := erase_kids rest n chs p ha'.2
    have hgm : getChapter c (List.map (fun q => (q.1, eraseDeep p q.2)) chs) =
        (getChapter c chs).map (fun ch => eraseDeep p ch) :=
      getChapter_map (fun ch => eraseDeep p ch) c chs
    simp only [KidsAligned]
    refine ⟨?_, hr⟩
    rw [hgm]
    cases hg : getChapter c chs with
    | none =>
      have h1 := ha'.1; rw [hg] at h1
      simp only [Option.map_none]; subst h1; simp
    | some ch =>
      have h1 := ha'.1; rw [hg] at h1
      simp only [Option.map_some]
      exact ⟨by rw [eraseDeep_rows, List.length_eraseIdx, h1.1], erase_shaped sh ch p h1.2⟩
end

theorem eraseAll_shaped (sh : Shape) (ds : List Nat) : ∀ (lb : LB), ShapedAligned sh lb →
    ShapedAligned sh (eraseAllDeep ds lb) := by
  induction ds with
  | nil => intro lb h; exact h
  | cons i is ih => intro lb h; exact ih _ (erase_shaped sh lb i h)

/-- `ShapedAligned` only looks at the number of rows, the chapters and the stream position -/
theorem ShapedAligned.congr {sh : Shape} {lb lb' : LB} (h : ShapedAligned sh lb)
    (hr : lb'.rows.length = lb.rows.length) (hc : lb'.chapters = lb.chapters)
    (hb : lb'.buffindex ≤ lb'.rows.length) : ShapedAligned sh lb' := by
  rw [shapedAligned_iff] at h ⊢
  rw [hc, hr]
  exact ⟨hr ▸ hb, h.2⟩

/-! ### `record` keeps the alignment w.r.t. the tree -/

theorem recordDicts_eff (all inh : Row) (dicts : List (Name × Entry)) : ∀ (chs : List (Name × LB)),
    recordDicts all inh dicts chs = recordDicts all [] (effDicts inh dicts) chs := by
  induction dicts with
  | nil => intro chs; rfl
  | cons q qs ih =>
    intro chs
    obtain ⟨k, sub⟩ := q
    by_cases hk : dictHas inh k = true
    · simp [recordDicts, effDicts, hk] at ih ⊢; exact ih chs
    · have hk' : dictHas inh k = false := by simpa using hk
      simp only [recordDicts, effDicts, hk', List.filter_cons, Bool.not_false, if_true,
        Bool.false_eq_true, if_false] at ih ⊢
      have hnil : dictHas ([] : Row) k = false := by simp [dictHas]
      simp only [hnil, Bool.false_eq_true, if_false]
      exact ih _

mutual
theorem record_shaped : ∀ (sh : Shape) (e : Entry) (inh : Row) (lb : LB), Fits inh sh e →
    ShapedAligned sh lb → ShapedAligned sh (recordAux inh e lb)
  | .mk kids, e, inh, lb, hf, h => by
    have h' : lb.buffindex ≤ lb.rows.length ∧ (lb.chapters.map (·.1)).Nodup ∧
        (∀ c ∈ lb.chapters.map (·.1), c ∈ kids.map (·.1)) ∧
        KidsAligned lb.rows.length lb.chapters kids := by simpa [ShapedAligned] using h
    obtain ⟨f1, f2, f3⟩ := (fits_iff inh (.mk kids) e).1 hf
    simp only [Shape.kids] at f2 f3
    obtain ⟨g1, g2, g3⟩ := recordDicts_top (dictUpdate e.scalars inh) (effDicts inh e.dicts)
      lb.chapters f1 h'.2.1
    have hfit : ∀ q ∈ kids, ∃ sub, (effDicts inh e.dicts).lookup q.1 = some sub ∧
        Fits (dictUpdate e.scalars inh) q.2 sub := by
      intro q hq
      have hmem : q.1 ∈ (effDicts inh e.dicts).map (·.1) := (f2 q.1).2 (List.mem_map_of_mem hq)
      obtain ⟨sub, hsub⟩ := lookup_isSome_of_mem _ _ hmem
      refine ⟨sub, hsub, ?_⟩
      have hm : (q.1, sub) ∈ effDicts inh e.dicts := List.mem_of_lookup_eq_some' _ _ _ hsub
      simp only [effDicts, List.mem_filter, Bool.not_eq_true'] at hm
      exact (fitsAll_iff _ _ _ _).1 f3 (q.1, sub) hm.1 hm.2 q.2 hq
    have hk := record_kids kids (dictUpdate e.scalars inh) (effDicts inh e.dicts) lb.rows.length
      lb.chapters _ g1 hfit h'.2.2.2
    have hch : (recordAux inh e lb).chapters =
        recordDicts (dictUpdate e.scalars inh) [] (effDicts inh e.dicts) lb.chapters := by
      rw [recordAux_chapters, recordDicts_eff]
    rw [shapedAligned_iff]
    simp only [Shape.kids, recordAux_rows, hch, (recordAux_buffindex inh e lb).1,
      List.length_append, List.length_singleton]
    refine ⟨by have := h'.1; omega, g2, ?_, hk⟩
    intro c hc
    rcases (g3 c).1 hc with hc | hc
    · exact h'.2.2.1 c hc
    · exact (f2 c).1 hc
theorem record_kids : ∀ (ks : List (Name × Shape)) (all : Row) (eff : List (Name × Entry)) (n : Nat)
    (chs chs' : List (Name × LB)),
    (∀ c, getChapter c chs' = match eff.lookup c with
      | some sub => some (recordAux all sub ((getChapter c chs).getD LB.empty))
      | none => getChapter c chs) →
    (∀ q ∈ ks, ∃ sub, eff.lookup q.1 = some sub ∧ Fits all q.2 sub) →
    KidsAligned n chs ks → KidsAligned (n + 1) chs' ks
  | [], _, _, _, _, _, _, _, _ => by simp [KidsAligned]
  | (c, sh) :: rest, all, eff, n, chs, chs', hget, hfit, ha => by
    have ha' : (match getChapter c chs with
       | none => n = 0
       | some ch => ch.rows.length = n ∧ ShapedAligned sh ch) ∧ KidsAligned n chs rest := by
      simpa [KidsAligned] using ha
    have hr := record_kids rest all eff n chs chs' hget (fun q hq => hfit q (by simp [hq])) ha'.2
    obtain ⟨sub, hsub, hfs⟩ := hfit (c, sh) (by simp)
    simp only [KidsAligned]
    refine ⟨?_, hr⟩
    rw [hget c]
    simp only at hsub
    rw [hsub]
    cases hg : getChapter c chs with
    | none =>
      have h1 := ha'.1; rw [hg] at h1
      simp only [Option.getD_none]
      exact ⟨by simp [recordAux_rows, LB.empty, h1], record_shaped sh sub all LB.empty hfs (shaped_empty sh)⟩
    | some ch =>
      have h1 := ha'.1; rw [hg] at h1
      simp only [Option.getD_some]
      exact ⟨by simp [recordAux_rows, h1.1], record_shaped sh sub all ch hfs h1.2⟩
end

/-- in a deep-aligned logbook the chapter at every path has as many rows as the logbook -/
theorem deep_path_length (path : List Name) : ∀ (lb ch : LB), DeepAligned lb →
    chapterAt path lb = some ch → ch.rows.length = lb.rows.length := by
  induction path with
  | nil => intro lb ch _ h; simp [chapterAt] at h; rw [h]
  | cons n rest ih =>
    intro lb ch hd h
    simp only [chapterAt] at h
    cases hg : getChapter n lb.chapters with
    | none => simp [hg] at h
    | some c1 =>
      simp only [hg] at h
      have hm : (n, c1) ∈ lb.chapters := List.mem_of_lookup_eq_some' _ _ _ hg
      have := ((deepAligned_iff lb).1 hd).2 (n, c1) hm
      rw [ih c1 ch this.2 h, this.1]

end C18L
