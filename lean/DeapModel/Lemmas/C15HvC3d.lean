import DeapModel.Lemmas.C15HvCStair
/-!
C15 — the 3-D base case of `_hv.c` (`hv_recursive` with `dim == 2`, l.825-992) entered with `bound[2] = -DBL_MAX`
(what `fpli_hv` does for three objectives): the sweep along the third coordinate with the staircase of the first two
coordinates kept in the AVL tree (here: the abstract ordered sequence `St.tree`).
-/
namespace HvC
set_option linter.unusedVariables false
open Hypervolume
open HvSweep (Shape DL Seg Link DimEq ids)

/-- the fields the tree operations of the 3-D sweep never write -/
def Frame (S S' : St) : Prop :=
  S'.next = S.next ∧ S'.prev = S.prev ∧ S'.ignore = S.ignore ∧ S'.bound = S.bound ∧ S'.calls = S.calls

theorem Frame.refl (S : St) : Frame S S := ⟨rfl, rfl, rfl, rfl, rfl⟩
theorem Frame.trans {S T U : St} (h₁ : Frame S T) (h₂ : Frame T U) : Frame S U := by
  obtain ⟨a1, a2, a3, a4, a5⟩ := h₁
  obtain ⟨b1, b2, b3, b4, b5⟩ := h₂
  exact ⟨b1.trans a1, b2.trans a2, b3.trans a3, b4.trans a4, b5.trans a5⟩

theorem tpv_mid (S : St) (A X : List ℕ) (a : ℕ) (hT : S.tree = A ++ a :: X) (hnd : S.tree.Nodup) :
    tpv S a = (A.getLast?).getD 0 := by
  unfold tpv
  rw [hT] at hnd ⊢
  have h1 := List.nodup_append.mp hnd
  have h2 := List.nodup_cons.mp h1.2.1
  exact listPrev_mid a X h2.1 A (fun hm => h1.2.2 a hm a (by simp) rfl)

theorem tnx_mid (S : St) (A X : List ℕ) (a : ℕ) (hT : S.tree = A ++ a :: X) (hnd : S.tree.Nodup) :
    tnx S a = (X.head?).getD 0 := by
  unfold tnx
  rw [hT] at hnd ⊢
  have h1 := List.nodup_append.mp hnd
  exact listNext_mid a X A (fun hm => h1.2.2 a hm a (by simp) rfl)

/-- **the loop l.955-968**, on a tree `A ++ D' ++ tnode :: X` whose run `D' ++ [tnode]` is dominated by the new point:
it unlinks all of the run but its first member `d1`, and subtracts the strips of the run -/
theorem chainLoop_spec (C : Cargo) (nxt0 px0 px2 ya : ℚ) (A X : List ℕ) (d1 : ℕ) : ∀ (D' : List ℕ) (fuel tnode : ℕ)
    (cur prv : ℚ × ℚ) (hypera : ℚ) (S : St),
    S.tree = A ++ D' ++ tnode :: X → S.tree.Nodup → 0 ∉ S.tree →
    (∀ e ∈ D', px0 ≤ (item C e).1) → (∀ A' a, A = A' ++ [a] → (item C a).1 < px0 ∧ ya = (item C a).2) →
    (A = [] → ya = (item C d1).2) → (D' ++ [tnode]).head? = some d1 →
    cur = item C tnode → D'.length < fuel →
    ∃ prv' S', chainLoop C nxt0 px0 px2 fuel tnode cur prv hypera S
        = some (d1, item C d1, prv', hypera - hArea nxt0 ya ((D' ++ [tnode]).map (item C)), S') ∧
      S'.tree = A ++ d1 :: X ∧ Frame S S' ∧ (∀ A' a, A = A' ++ [a] → prv' = item C a) := by
  intro D'
  induction D' using List.reverseRecOn with
  | nil =>
    intro fuel tnode cur prv hypera S hT hnd h0 hD hA hA0 hd1 hcur hf
    obtain ⟨f, rfl⟩ : ∃ f, fuel = f + 1 := ⟨fuel - 1, by simp at hf; omega⟩
    simp only [List.nil_append, List.head?_cons, Option.some.injEq] at hd1
    subst hd1
    simp only [List.append_nil] at hT
    have htpv := tpv_mid S A X tnode hT hnd
    rcases List.eq_nil_or_concat A with hAn | ⟨A', a, hAa⟩
    · -- the run starts at the head of the tree
      subst hAn
      simp only [List.getLast?_nil, Option.getD_none] at htpv
      refine ⟨prv, S, ?_, hT, Frame.refl S, fun A' a h => by simp at h⟩
      unfold chainLoop
      rw [if_pos htpv]
      simp only [List.nil_append, List.map_cons, List.map_nil, hArea, hA0 rfl, hcur]
      simp
    · have hAa' : A = A' ++ [a] := by rw [hAa]; simp
      have htpv' : tpv S tnode = a := by rw [htpv, hAa']; simp
      have ha0 : a ≠ 0 := fun e => h0 (by rw [hT, hAa', e]; simp)
      obtain ⟨hlt, hya⟩ := hA A' a hAa'
      refine ⟨item C a, S, ?_, hT, Frame.refl S, fun A'' a' h => ?_⟩
      · unfold chainLoop
        rw [if_neg (by rw [htpv']; exact ha0)]
        simp only [htpv']
        rw [if_pos hlt]
        simp only [List.nil_append, List.map_cons, List.map_nil, hArea, hya, hcur]
        simp
      · have := List.append_inj' (hAa'.symm.trans h) rfl
        simp at this
        rw [this.2]
  | append_singleton D'' e ih =>
    intro fuel tnode cur prv hypera S hT hnd h0 hD hA hA0 hd1 hcur hf
    obtain ⟨f, rfl⟩ : ∃ f, fuel = f + 1 := ⟨fuel - 1, by simp at hf; omega⟩
    have hT' : S.tree = (A ++ D'' ++ [e]) ++ tnode :: X := by rw [hT]; simp
    have htpv : tpv S tnode = e := by
      rw [tpv_mid S (A ++ D'' ++ [e]) X tnode hT' hnd]; simp
    have he0 : e ≠ 0 := fun h => h0 (by rw [hT, h]; simp)
    have hex : px0 ≤ (item C e).1 := hD e (by simp)
    -- the state after unlinking tnode
    set S1 := setDr (avlUnlinkNode S tnode) tnode px2 with hS1
    have hT1 : S1.tree = A ++ D'' ++ e :: X := by
      show S.tree.erase tnode = _
      rw [hT']
      have hnotin : tnode ∉ A ++ D'' ++ [e] := by
        rw [hT'] at hnd
        intro hm
        exact (List.nodup_append.mp hnd).2.2 tnode hm tnode (by simp) rfl
      rw [erase_mid tnode _ X hnotin]; simp
    have hnd1 : S1.tree.Nodup := by
      show (S.tree.erase tnode).Nodup
      exact hnd.erase _
    have h01 : 0 ∉ S1.tree := fun hm => h0 (List.mem_of_mem_erase hm)
    have hd1' : (D'' ++ [e]).head? = some d1 := by
      rw [← hd1, List.append_assoc]
      cases D'' <;> rfl
    obtain ⟨prv', S', hrun, hT2, hF, hprv⟩ := ih f e (item C e) (item C e)
      (hypera - ((item C e).2 - cur.2) * (nxt0 - cur.1)) S1 hT1 hnd1 h01
      (fun x hx => hD x (by simp [hx])) hA hA0 hd1' rfl (by simp at hf; omega)
    refine ⟨prv', S', ?_, hT2, Frame.trans ⟨rfl, rfl, rfl, rfl, rfl⟩ hF, hprv⟩
    unfold chainLoop
    rw [if_neg (by rw [htpv]; exact he0)]
    simp only [htpv]
    rw [if_neg (not_lt.mpr hex)]
    rw [← hS1, hrun]
    simp only [Option.some.injEq, Prod.mk.injEq, and_true, true_and]
    have hsum : hArea nxt0 ya ((D'' ++ [e] ++ [tnode]).map (item C))
        = hArea nxt0 ya ((D'' ++ [e]).map (item C)) + ((item C e).2 - (item C tnode).2) * (nxt0 - (item C tnode).1) := by
      rw [List.map_append (l₁ := D'' ++ [e]), List.map_cons, List.map_nil, hArea_snoc, List.map_append, List.map_cons,
        List.map_nil, lastY_append_singleton]
    rw [hsum, hcur]; ring

theorem ite_height (h v x : ℚ) (hh : 0 ≤ h) : (if 0 < h then v + x * h else v) = v + x * h := by
  rcases lt_or_eq_of_le hh with h1 | h1
  · rw [if_pos h1]
  · rw [← h1]; simp

theorem lastY_map_concat (yp : ℚ) (C : Cargo) (A' : List ℕ) (a : ℕ) :
    lastY yp ((A' ++ [a]).map (item C)) = (item C a).2 := by
  rw [List.map_append, List.map_cons, List.map_nil, lastY_append_singleton]

/-- **l.944-987**: `pp` has been linked into the tree between `As` (its predecessors) and `B`; the run `D` of
predecessors with `x ≥ pp.x` is unlinked and the area becomes the strip sum of the new staircase -/
theorem sweepTail_spec (C : Cargo) (R : List ℚ) (tfuel pp : ℕ) (hyperv hypera height : ℚ) (nxt : ℚ × ℚ) (tnode : ℕ)
    (S : St) (As B : List ℕ)
    (hT : S.tree = As ++ pp :: B) (hnd : S.tree.Nodup) (h0 : 0 ∉ S.tree)
    (hst : Stair ((As ++ B).map (item C)))
    (harea : hypera = hArea (rf R 0) (rf R 1) ((As ++ B).map (item C)))
    (htn : tnode = (As.getLast?).getD 0)
    (hnxt : nxt.1 = headX (rf R 0) (B.map (item C)))
    (hfuel : As.length < tfuel) (hh : 0 ≤ height) :
    ∃ A D, As = A ++ D ∧ (∀ e ∈ D, (item C pp).1 ≤ (item C e).1) ∧ (∀ a ∈ A, (item C a).1 < (item C pp).1) ∧
      ∃ r, sweepTail C R tfuel pp hyperv hypera height nxt tnode S = some r ∧
        r.1 = hyperv + r.2.1 * height ∧
        r.2.1 = hArea (rf R 0) (rf R 1) ((A ++ pp :: B).map (item C)) ∧
        r.2.2.tree = A ++ pp :: B ∧ Frame S r.2.2 := by
  obtain ⟨A, D, hAD, hD, hA⟩ := suffix_split (fun e => (item C pp).1 ≤ (item C e).1) As
  have hAlt : ∀ a ∈ A, (item C a).1 < (item C pp).1 := by
    intro a ha
    rcases List.eq_nil_or_concat A with hAn | ⟨A', l, hAl⟩
    · rw [hAn] at ha; exact absurd ha (List.not_mem_nil)
    · have hAl' : A = A' ++ [l] := by rw [hAl]; simp
      have hl : (item C l).1 < (item C pp).1 := not_le.mp (hA A' l hAl')
      rw [hAl'] at ha
      rcases List.mem_append.mp ha with h | h
      · have hst' : Stair ((A' ++ [l]).map (item C)) := by
          have : ((As ++ B).map (item C)) = (A' ++ [l]).map (item C) ++ (D ++ B).map (item C) := by
            rw [hAD, hAl']; simp
          rw [this] at hst
          exact (List.pairwise_append.mp hst).1
        have := List.pairwise_map.mp hst'
        have := (List.pairwise_append.mp this).2.2 a h l (by simp)
        exact lt_trans this.1 hl
      · simp at h; rw [h]; exact hl
  -- the area bookkeeping, independent of the case
  have hmap1 : (As ++ B).map (item C) = A.map (item C) ++ D.map (item C) ++ B.map (item C) := by rw [hAD]; simp
  have hmap2 : (A ++ pp :: B).map (item C) = A.map (item C) ++ item C pp :: B.map (item C) := by simp
  have hupd := area_update (rf R 0) (rf R 1) (A.map (item C)) (D.map (item C)) (B.map (item C)) (item C pp)
  rw [← hmap1, ← hmap2, ← harea, ← hnxt] at hupd
  have hitem : (item C pp) = (cg C pp 0, cg C pp 1) := rfl
  refine ⟨A, D, hAD, hD, hAlt, ?_⟩
  unfold sweepTail
  simp only
  set S2 := setDr S pp (rf R 2) with hS2
  have hT2 : S2.tree = As ++ pp :: B := hT
  rcases List.eq_nil_or_concat D with hDn | ⟨D', t, hDt⟩
  · -- no predecessor is dominated
    subst hDn
    simp only [List.append_nil] at hAD
    subst hAD
    rcases List.eq_nil_or_concat As with hAn | ⟨A', a, hAa⟩
    · subst hAn
      have htn0 : tnode = 0 := by rw [htn]; rfl
      rw [if_neg (by rw [htn0]; simp)]
      simp only
      rw [ite_height _ _ _ hh]
      refine ⟨_, rfl, rfl, ?_, hT, ⟨rfl, rfl, rfl, rfl, rfl⟩⟩
      rw [hupd]
      simp [hArea, hitem]
    · have hAa' : As = A' ++ [a] := by rw [hAa]; simp
      have htna : tnode = a := by rw [htn, hAa']; simp
      have ha0 : a ≠ 0 := fun e => h0 (by rw [hT, hAa', e]; simp)
      have hnot : ¬ (item C tnode).1 ≥ cg C pp 0 := by
        rw [htna]; exact hA A' a hAa'
      rw [if_pos (by rw [htna]; exact ha0), if_neg hnot]
      simp only
      rw [ite_height _ _ _ hh]
      refine ⟨_, rfl, rfl, ?_, hT, ⟨rfl, rfl, rfl, rfl, rfl⟩⟩
      rw [hupd, hAa', lastY_map_concat, htna]
      simp [hArea, hitem]
  · -- the run D = D' ++ [t] is dominated by pp
    have hDt' : D = D' ++ [t] := by rw [hDt]; simp
    have htnt : tnode = t := by rw [htn, hAD, hDt']; simp
    have ht0 : t ≠ 0 := fun e => h0 (by rw [hT, hAD, hDt', e]; simp)
    have hge : (item C tnode).1 ≥ cg C pp 0 := by rw [htnt]; exact hD t (by rw [hDt']; simp)
    rw [if_pos (by rw [htnt]; exact ht0), if_pos hge]
    have hT2' : S2.tree = A ++ D' ++ t :: (pp :: B) := by rw [hT2, hAD, hDt']; simp
    have hnd2 : S2.tree.Nodup := hnd
    have h02 : 0 ∉ S2.tree := h0
    have htpv : tpv S2 pp = t := by
      rw [tpv_mid S2 (A ++ D' ++ [t]) B pp (by rw [hT2', List.append_assoc (A ++ D')]; rfl) hnd2]; simp
    rw [htpv]
    obtain ⟨d1, hd1⟩ : ∃ d1, (D' ++ [t]).head? = some d1 := by
      cases D' <;> simp
    have hlenD : D'.length < tfuel := by
      have : As.length = A.length + (D'.length + 1) := by rw [hAD, hDt']; simp
      omega
    rcases List.eq_nil_or_concat A with hAn | ⟨A', a, hAa⟩
    · -- the run reaches the head of the tree
      subst hAn
      obtain ⟨prv', S3, hrun, hT3, hF3, _⟩ := chainLoop_spec C nxt.1 (cg C pp 0) (cg C pp 2) (item C d1).2 [] (pp :: B) d1 D'
        tfuel t (item C t) (item C tnode) hypera S2 (by rw [hT2']) hnd2 h02
        (fun e he => hD e (by rw [hDt']; simp [he])) (fun A' a h => by simp at h) (fun _ => rfl) hd1 rfl hlenD
      rw [hrun]
      simp only
      have hT3' : S3.tree = [] ++ d1 :: (pp :: B) := hT3
      have hnd3 : S3.tree.Nodup := by
        rw [hT3]
        have hsub : ([] ++ d1 :: (pp :: B)).Sublist S2.tree := by
          rw [hT2']
          have hd1m : [d1].Sublist (D' ++ [t]) := by
            have : d1 ∈ D' ++ [t] := List.mem_of_mem_head? hd1
            exact List.singleton_sublist.mpr this
          simpa using (hd1m.append (List.Sublist.refl (pp :: B)))
        exact hsub.nodup hnd2
      have htpv3 : tpv S3 d1 = 0 := by rw [tpv_mid S3 [] (pp :: B) d1 hT3' hnd3]; rfl
      rw [htpv3, if_pos rfl]
      simp only
      rw [ite_height _ _ _ hh]
      refine ⟨_, rfl, rfl, ?_, ?_, ?_⟩
      rotate_left
      · show (S3.tree.erase d1) = [] ++ pp :: B
        rw [hT3']; exact erase_mid d1 [] (pp :: B) (by simp)
      · exact Frame.trans ⟨rfl, rfl, rfl, rfl, rfl⟩ (Frame.trans hF3 ⟨rfl, rfl, rfl, rfl, rfl⟩)
      · rw [hupd, hDt']
        simp only [List.map_nil, lastY_nil]
        -- the strip of d1 up to the reference, taken after the loop (l.975)
        obtain ⟨rest, hrest⟩ : ∃ rest, D' ++ [t] = d1 :: rest := by
          cases hD' : D' ++ [t] with
          | nil => simp at hD'
          | cons x rest => rw [hD'] at hd1; simp at hd1; exact ⟨rest, by rw [hd1]⟩
        rw [hrest]
        simp only [List.map_cons, hArea, hitem]
        ring
    · have hAa' : A = A' ++ [a] := by rw [hAa]; simp
      have hal : (item C a).1 < cg C pp 0 := not_le.mp (hA A' a hAa')
      obtain ⟨prv', S3, hrun, hT3, hF3, hprv⟩ := chainLoop_spec C nxt.1 (cg C pp 0) (cg C pp 2) (item C a).2 A (pp :: B) d1 D'
        tfuel t (item C t) (item C tnode) hypera S2 (by rw [hT2']) hnd2 h02
        (fun e he => hD e (by rw [hDt']; simp [he]))
        (fun A'' a' h => by
          have := List.append_inj' (hAa'.symm.trans h) rfl
          simp at this
          rw [← this.2]; exact ⟨hal, rfl⟩)
        (fun h => by rw [hAa'] at h; simp at h) hd1 rfl hlenD
      rw [hrun]
      simp only
      have hnd3 : S3.tree.Nodup := by
        rw [hT3]
        have hsub : (A ++ d1 :: (pp :: B)).Sublist S2.tree := by
          rw [hT2']
          have hd1m : [d1].Sublist (D' ++ [t]) := by
            have : d1 ∈ D' ++ [t] := List.mem_of_mem_head? hd1
            exact List.singleton_sublist.mpr this
          have := (List.Sublist.refl A).append (hd1m.append (List.Sublist.refl (pp :: B)))
          simpa [List.append_assoc] using this
        exact hsub.nodup hnd2
      have ha0 : a ≠ 0 := fun e => h0 (by rw [hT, hAD, hAa', e]; simp)
      have htpv3 : tpv S3 d1 = a := by rw [tpv_mid S3 A (pp :: B) d1 hT3 hnd3, hAa']; simp
      rw [htpv3, if_neg ha0]
      simp only
      rw [ite_height _ _ _ hh]
      have hd1A : d1 ∉ A := by
        rw [hT3] at hnd3
        intro hm
        exact (List.nodup_append.mp hnd3).2.2 d1 hm d1 (by simp) rfl
      refine ⟨_, rfl, rfl, ?_, ?_, ?_⟩
      rotate_left
      · show (S3.tree.erase d1) = A ++ pp :: B
        rw [hT3]; exact erase_mid d1 A (pp :: B) hd1A
      · exact Frame.trans ⟨rfl, rfl, rfl, rfl, rfl⟩ (Frame.trans hF3 ⟨rfl, rfl, rfl, rfl, rfl⟩)
      · rw [hupd, hprv A' a hAa', hAa', lastY_map_concat, ← hDt']
        simp [hitem]

/-! ### one iteration of the main loop (l.899-989) -/

theorem cmpNeg_false_iff (p e : ℚ × ℚ) :
    cmpTreeAscNeg p e = false ↔ (p.2 ≤ e.2 ∧ (p.2 = e.2 → p.1 < e.1)) := by
  unfold cmpTreeAscNeg
  by_cases h1 : p.2 > e.2
  · rw [if_pos h1]
    constructor
    · intro h; cases h
    · intro h; exact absurd h.1 (not_le.mpr h1)
  · rw [if_neg h1]
    by_cases h2 : p.2 < e.2
    · rw [if_pos h2]
      exact ⟨fun _ => ⟨le_of_lt h2, fun e' => absurd e' (ne_of_lt h2)⟩, fun _ => rfl⟩
    · rw [if_neg h2]
      have heq : p.2 = e.2 := le_antisymm (not_lt.mp h1) (not_lt.mp h2)
      simp only [decide_eq_false_iff_not, ge_iff_le, not_le]
      exact ⟨fun h => ⟨le_of_eq heq, fun _ => h⟩, fun h => h.2 heq⟩

theorem cmpNeg_true_iff (p e : ℚ × ℚ) :
    cmpTreeAscNeg p e = true ↔ (e.2 < p.2 ∨ (e.2 = p.2 ∧ e.1 ≤ p.1)) := by
  constructor
  · intro h
    by_contra hne
    have : cmpTreeAscNeg p e = false := by
      rw [cmpNeg_false_iff]
      have h1 : ¬ e.2 < p.2 := fun h => hne (Or.inl h)
      have h2 : ¬ (e.2 = p.2 ∧ e.1 ≤ p.1) := fun h => hne (Or.inr h)
      exact ⟨not_lt.mp h1, fun heq => not_le.mp (fun hle => h2 ⟨heq.symm, hle⟩)⟩
    rw [this] at h; cases h
  · intro h
    by_contra hne
    have hf : cmpTreeAscNeg p e = false := by simpa using hne
    rw [cmpNeg_false_iff] at hf
    rcases h with h | ⟨h1, h2⟩
    · exact absurd hf.1 (not_le.mpr h)
    · exact absurd (hf.2 h1.symm) (not_lt.mpr h2)

/-- `height` of l.907-909 -/
def hgt (C : Cargo) (R : List ℚ) (S : St) (pp : ℕ) : ℚ :=
  if pp = pv S 2 0 then rf R 2 - cg C pp 2 else cg C (nx S 2 pp) 2 - cg C pp 2

/-- the fields the main loop of the 3-D sweep never writes -/
def PtrFrame (S S' : St) : Prop := S'.next = S.next ∧ S'.prev = S.prev ∧ S'.bound = S.bound ∧ S'.calls = S.calls

theorem ign_setIgn_ne (S : St) (a b : ℕ) (v : ℤ) (h : b ≠ a) : ign (setIgn S a v) b = ign S b := by
  unfold ign setIgn
  exact HvSweep.getD_set_ne _ _ _ _ _ h

theorem nodup_insert_mid {A D B : List ℕ} {pp : ℕ} (hnd : (A ++ D ++ B).Nodup) (hpp : pp ∉ A ++ D ++ B) :
    (A ++ pp :: B).Nodup := by
  have hAB : (A ++ B).Nodup := by
    have : (A ++ B).Sublist (A ++ D ++ B) := by
      rw [List.append_assoc]
      exact (List.Sublist.refl A).append (List.sublist_append_right D B)
    exact this.nodup hnd
  have h1 := List.nodup_append.mp hAB
  refine List.nodup_append.mpr ⟨h1.1, List.nodup_cons.mpr ⟨fun hm => hpp (by simp [hm]), h1.2.1⟩, ?_⟩
  intro a ha b hb
  rcases List.mem_cons.mp hb with rfl | hb
  · intro e; exact hpp (by rw [← e]; simp [ha])
  · exact h1.2.2 a ha b hb

theorem sweepBody_spec (C : Cargo) (R : List ℚ) (tfuel pp : ℕ) (hyperv hypera : ℚ) (S : St)
    (hne : S.tree ≠ []) (hnd : S.tree.Nodup) (h0 : 0 ∉ S.tree) (hppT : pp ∉ S.tree) (hpp0 : pp ≠ 0)
    (hst : Stair (S.tree.map (item C)))
    (hpplt : (item C pp).1 < rf R 0)
    (hign : ¬ (2 : ℤ) ≤ ign S pp)
    (harea : hypera = hArea (rf R 0) (rf R 1) (S.tree.map (item C)))
    (hfuel : S.tree.length < tfuel)
    (hh : 0 ≤ hgt C R S pp) :
    ∃ r, sweepBody C R tfuel pp hyperv hypera S = some r ∧
      r.1 = hyperv + r.2.1 * hgt C R S pp ∧
      r.2.1 = hArea (rf R 0) (rf R 1) (r.2.2.tree.map (item C)) ∧
      PtrFrame S r.2.2 ∧ (∀ a, a ≠ pp → ign r.2.2 a = ign S a) ∧
      r.2.2.tree ≠ [] ∧ r.2.2.tree.Nodup ∧ (∀ t ∈ r.2.2.tree, t = pp ∨ t ∈ S.tree) ∧
      Stair (r.2.2.tree.map (item C)) ∧
      (∀ q, (q = pp ∨ q ∈ S.tree) → ∃ t ∈ r.2.2.tree, (item C t).1 ≤ (item C q).1 ∧ (item C t).2 ≤ (item C q).2) := by
  unfold sweepBody sweepBodyWith
  simp only
  set S0 := setVl S pp 2 hyperv with hS0
  have hT0 : S0.tree = S.tree := rfl
  have hign' : ¬ (2 : ℤ) ≤ ign S0 pp := hign
  rw [if_neg hign']
  have hsc : searchClosest C S0 (item C pp) = searchList C (item C pp) S.tree := rfl
  obtain ⟨As, B, hAB, hAs, hres⟩ := searchList_spec C (item C pp) S.tree hne
  have hheight : (if pp = pv S0 2 0 then rf R 2 - cg C pp 2 else cg C (nx S0 2 pp) 2 - cg C pp 2) = hgt C R S pp := rfl
  rw [hheight]
  have hitem : ∀ a, item C a = (cg C a 0, cg C a 1) := fun _ => rfl
  -- facts about the predecessors: they lie at or above pp, strictly above or strictly to the right
  have hAsfacts : ∀ e ∈ As, (item C pp).2 ≤ (item C e).2 ∧ ((item C pp).2 = (item C e).2 → (item C pp).1 < (item C e).1) :=
    fun e he => (cmpNeg_false_iff _ _).mp (hAs e he)
  -- the common continuation after `pp` has been linked between As and B
  have cont : ∀ (S1 : St) (nxt : ℚ × ℚ) (tnode : ℕ), S1.tree = As ++ pp :: B → Frame S0 S1 →
      tnode = (As.getLast?).getD 0 → nxt.1 = headX (rf R 0) (B.map (item C)) →
      (∀ b ∈ B, (item C pp).1 < (item C b).1 ∧ (item C b).2 < (item C pp).2) →
      ∃ r, sweepTail C R tfuel pp hyperv hypera (hgt C R S pp) nxt tnode S1 = some r ∧
        r.1 = hyperv + r.2.1 * hgt C R S pp ∧
        r.2.1 = hArea (rf R 0) (rf R 1) (r.2.2.tree.map (item C)) ∧
        PtrFrame S r.2.2 ∧ (∀ a, a ≠ pp → ign r.2.2 a = ign S a) ∧
        r.2.2.tree ≠ [] ∧ r.2.2.tree.Nodup ∧ (∀ t ∈ r.2.2.tree, t = pp ∨ t ∈ S.tree) ∧
        Stair (r.2.2.tree.map (item C)) ∧
        (∀ q, (q = pp ∨ q ∈ S.tree) → ∃ t ∈ r.2.2.tree, (item C t).1 ≤ (item C q).1 ∧ (item C t).2 ≤ (item C q).2) := by
    intro S1 nxt tnode hT1 hF1 htn hnxt hBfacts
    have hnd1 : S1.tree.Nodup := by
      rw [hT1]
      have := nodup_insert_mid (A := As) (D := []) (B := B) (pp := pp) (by simpa [← hAB] using hnd) (by simpa [← hAB] using hppT)
      exact this
    have h01 : 0 ∉ S1.tree := by
      rw [hT1]
      intro hm
      rcases List.mem_append.mp hm with h | h
      · exact h0 (by rw [hAB]; exact List.mem_append_left _ h)
      · rcases List.mem_cons.mp h with h | h
        · exact hpp0 h.symm
        · exact h0 (by rw [hAB]; exact List.mem_append_right _ h)
    obtain ⟨A, D, hAD, hD, hAlt, r, hrun, hr1, hr2, hrT, hrF⟩ := sweepTail_spec C R tfuel pp hyperv hypera (hgt C R S pp) nxt tnode
      S1 As B hT1 hnd1 h01 (by rw [← hAB]; exact hst) (by rw [← hAB]; exact harea) htn hnxt
      (by have : As.length ≤ S.tree.length := by rw [hAB]; simp
          omega) hh
    have hTsplit : S.tree = A ++ D ++ B := by rw [hAB, hAD]
    refine ⟨r, hrun, hr1, by rw [hrT]; exact hr2, ?_, ?_, ?_, ?_, ?_, ?_, ?_⟩
    · obtain ⟨a1, a2, a3, a4, a5⟩ := Frame.trans hF1 hrF
      exact ⟨a1, a2, a4, a5⟩
    · intro a _
      have := (Frame.trans hF1 hrF).2.2.1
      unfold ign; rw [this]; rfl
    · rw [hrT]; simp
    · rw [hrT]; exact nodup_insert_mid (by rw [← hTsplit]; exact hnd) (by rw [← hTsplit]; exact hppT)
    · intro t ht
      rw [hrT] at ht
      rcases List.mem_append.mp ht with h | h
      · exact Or.inr (by rw [hTsplit]; simp [h])
      · rcases List.mem_cons.mp h with h | h
        · exact Or.inl h
        · exact Or.inr (by rw [hTsplit]; simp [h])
    · -- the new tree is a staircase
      rw [hrT]
      have hstAB : Stair ((A ++ B).map (item C)) := by
        have hsub : ((A ++ B).map (item C)).Sublist (S.tree.map (item C)) := by
          rw [hTsplit, List.append_assoc]
          exact ((List.Sublist.refl A).append (List.sublist_append_right D B)).map _
        exact List.Pairwise.sublist hsub hst
      have hpw := List.pairwise_map.mp hstAB
      have hpw' := List.pairwise_append.mp hpw
      unfold Stair
      rw [List.pairwise_map]
      refine List.pairwise_append.mpr ⟨hpw'.1, List.pairwise_cons.mpr ⟨fun b hb => hBfacts b hb, hpw'.2.1⟩, ?_⟩
      intro a ha b hb
      rcases List.mem_cons.mp hb with rfl | hb
      · have hx := hAlt a ha
        have hf := hAsfacts a (by rw [hAD]; exact List.mem_append_left _ ha)
        refine ⟨hx, ?_⟩
        rcases lt_or_eq_of_le hf.1 with h | h
        · exact h
        · exact absurd (hf.2 h) (not_lt.mpr (le_of_lt hx))
      · exact hpw'.2.2 a ha b hb
    · intro q hq
      rw [hrT]
      rcases hq with rfl | hq
      · exact ⟨q, by simp, le_refl _, le_refl _⟩
      · rw [hTsplit] at hq
        rcases List.mem_append.mp hq with h | h
        · rcases List.mem_append.mp h with h | h
          · exact ⟨q, by simp [h], le_refl _, le_refl _⟩
          · exact ⟨pp, by simp, hD q h, (hAsfacts q (by rw [hAD]; exact List.mem_append_right _ h)).1⟩
        · exact ⟨q, by simp [h], le_refl _, le_refl _⟩
  rcases hres with ⟨hB, A', a, hA', hr⟩ | ⟨b, B', hB, hcb, hr⟩
  · -- pp goes to the end of the tree
    subst hB
    simp only [List.append_nil] at hAB
    have hsc' : searchClosest C S0 (item C pp) = (a, 1) := hsc.trans hr
    rw [hsc']
    simp only
    have h10 : ¬ ((1 : ℤ) ≤ 0) := by decide
    simp only [if_neg h10]
    have hT0' : S0.tree = A' ++ a :: [] := by rw [hT0, hAB, hA']
    have htnx : tnx S0 a = 0 := by rw [tnx_mid S0 A' [] a hT0' (by rw [hT0]; exact hnd)]; rfl
    simp only [htnx, ne_eq, not_true_eq_false, if_false]
    have hpplt' : ¬ rf R 0 ≤ cg C pp 0 := not_le.mpr hpplt
    rw [if_neg hpplt']
    have haA' : a ∉ A' := by
      have := hnd
      rw [hAB, hA'] at this
      intro hm
      exact (List.nodup_append.mp this).2.2 a hm a (by simp) rfl
    have hT1 : (avlInsertAfter S0 a pp).tree = As ++ pp :: [] := by
      show insertAfter a pp S0.tree = _
      rw [hT0', insertAfter_mid a pp [] A' haA', hA']; simp
    exact cont (avlInsertAfter S0 a pp) (rf R 0, rf R 1) a hT1 ⟨rfl, rfl, rfl, rfl, rfl⟩ (by rw [hA']; simp) rfl
      (fun b hb => absurd hb (List.not_mem_nil))
  · have hsc' : searchClosest C S0 (item C pp) = (b, -1) := hsc.trans hr
    rw [hsc']
    simp only
    have hm10 : ((-1 : ℤ) ≤ 0) := by decide
    simp only [if_pos hm10]
    have hcb' := (cmpNeg_true_iff _ _).mp hcb
    by_cases hdom : (item C b).1 ≤ cg C pp 0
    · -- pp is dominated by its successor
      rw [if_pos hdom]
      rw [ite_height _ _ _ hh]
      refine ⟨_, rfl, rfl, harea, ⟨rfl, rfl, rfl, rfl⟩, ?_, hne, hnd, fun t ht => Or.inr ht, hst, ?_⟩
      · intro a ha
        exact ign_setIgn_ne S0 pp a 2 ha
      · intro q hq
        rcases hq with rfl | hq
        · refine ⟨b, by show b ∈ S.tree; rw [hAB, hB]; simp, hdom, ?_⟩
          rcases hcb' with h | ⟨h, _⟩
          · exact le_of_lt h
          · exact le_of_eq h
        · exact ⟨q, hq, le_refl _, le_refl _⟩
    · rw [if_neg hdom]
      have hbx : (item C pp).1 < (item C b).1 := not_le.mp hdom
      have hby : (item C b).2 < (item C pp).2 := by
        rcases hcb' with h | ⟨_, h⟩
        · exact h
        · exact absurd h (not_le.mpr hbx)
      have hbAs : b ∉ As := by
        have := hnd
        rw [hAB, hB] at this
        intro hm
        exact (List.nodup_append.mp this).2.2 b hm b (by simp) rfl
      have hT1 : (avlInsertBefore S0 b pp).tree = As ++ pp :: B := by
        show insertBefore b pp S0.tree = _
        rw [hT0, hAB, hB, insertBefore_mid b pp B' As hbAs]
      have hnd1 : (avlInsertBefore S0 b pp).tree.Nodup := by
        rw [hT1]
        exact nodup_insert_mid (A := As) (D := []) (B := B) (by simpa [← hAB] using hnd) (by simpa [← hAB] using hppT)
      have htpv : tpv (avlInsertBefore S0 b pp) pp = (As.getLast?).getD 0 := tpv_mid _ As B pp hT1 hnd1
      rw [htpv]
      refine cont (avlInsertBefore S0 b pp) (item C b) _ hT1 ⟨rfl, rfl, rfl, rfl, rfl⟩ rfl (by rw [hB]; rfl) ?_
      intro b' hb'
      rw [hB] at hb'
      rcases List.mem_cons.mp hb' with rfl | hb'
      · exact ⟨hbx, hby⟩
      · have hpw := List.pairwise_map.mp hst
        rw [hAB, hB] at hpw
        have := (List.pairwise_cons.mp (List.pairwise_append.mp hpw).2.1).1 b' hb'
        exact ⟨lt_trans hbx this.1, lt_trans this.2 hby⟩

end HvC
