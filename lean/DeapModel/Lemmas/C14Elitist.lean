/-
C14 helper lemmas: the selection logic of the (1+λ) strategies (sort, success count, parent
replacement) over an abstract fitness order.  Core Lean only.
-/
import DeapModel.Core.CmaElitist

set_option linter.unusedSectionVars false
set_option linter.unusedVariables false
set_option linter.unusedSimpArgs false

namespace C14Elitist
open CmaElitist

/-- The fitness comparison is a total preorder and `<` is the strict part of `≤`
(true of `Fitness.__le__`/`__lt__`: lexicographic order of the weighted values, no NaN). -/
structure TotalPre {φ : Type} (ord : FitOrd φ) : Prop where
  total : ∀ a b, ord.le a b = true ∨ ord.le b a = true
  trans : ∀ a b c, ord.le a b = true → ord.le b c = true → ord.le a c = true
  lt_iff : ∀ a b, ord.lt a b = !ord.le b a

variable {φ α : Type}

theorem TotalPre.refl {ord : FitOrd φ} (h : TotalPre ord) (a : φ) : ord.le a a = true := by
  rcases h.total a a with h | h <;> exact h

/-- The head of a stable descending merge sort is a maximal element of the input. -/
theorem mergeSort_head {β : Type} (key : β → φ) {ord : FitOrd φ} (h : TotalPre ord) (l : List β)
    (best : β) (rest : List β)
    (hs : l.mergeSort (fun a b => !ord.lt (key a) (key b)) = best :: rest) :
    best ∈ l ∧ ∀ i ∈ l, ord.le (key i) (key best) = true := by
  have hperm := List.mergeSort_perm l (fun a b => !ord.lt (key a) (key b))
  have hpw := List.pairwise_mergeSort (le := fun a b => !ord.lt (key a) (key b))
    (by intro a b c h1 h2
        simp only [h.lt_iff, Bool.not_not] at h1 h2 ⊢
        exact h.trans _ _ _ h2 h1)
    (by intro a b
        simp only [h.lt_iff, Bool.not_not, Bool.or_eq_true]
        exact (h.total (key b) (key a)))
    l
  rw [hs] at hperm hpw
  refine ⟨hperm.subset (List.mem_cons_self), ?_⟩
  intro i hi
  have hi' : i ∈ best :: rest := hperm.symm.subset hi
  rcases List.mem_cons.1 hi' with rfl | hi'
  · exact h.refl _
  · have := (List.pairwise_cons.1 hpw).1 i hi'
    simpa [h.lt_iff] using this

theorem sortDesc_head {ord : FitOrd φ} (h : TotalPre ord) (pop : List (Ind φ α)) (best : Ind φ α)
    (rest : List (Ind φ α)) (hs : sortDesc ord pop = best :: rest) :
    best ∈ pop ∧ ∀ i ∈ pop, ord.le i.fit best.fit = true :=
  mergeSort_head (fun i : Ind φ α => i.fit) h pop best rest hs

theorem sortDesc_ne_nil (ord : FitOrd φ) (pop : List (Ind φ α)) (hne : pop ≠ []) :
    sortDesc ord pop ≠ [] := by
  intro h
  have := (List.mergeSort_perm pop (fun a b => !ord.lt a.fit b.fit)).length_eq
  unfold sortDesc at h
  rw [h] at this
  exact hne (List.length_eq_zero_iff.1 this.symm)

theorem sortDesc_length (ord : FitOrd φ) (pop : List (Ind φ α)) :
    (sortDesc ord pop).length = pop.length :=
  (List.mergeSort_perm pop _).length_eq

theorem countSucc_le (ord : FitOrd φ) (pf : φ) (pop : List (Ind φ α)) :
    countSucc ord pf pop ≤ pop.length := by
  unfold countSucc; exact List.length_filter_le _ _

/-! ### `StrategyOnePlusLambda.update` -/
section OnePlus
variable [RealLike α]
open OnePlus

/-- What one `update` does to the parent, for a non-empty evaluated population. -/
theorem update_parent {ord : FitOrd φ} (h : TotalPre ord) (chol : List (List α) → List (List α))
    (s : State φ α) (pop : List (Ind φ α)) (hne : pop ≠ []) :
    ∃ o, update ord chol s pop = some o ∧
      -- the new parent is at least as good as the old one and as every offspring
      ord.le s.parent.fit o.st.parent.fit = true ∧
      (∀ i ∈ pop, ord.le i.fit o.st.parent.fit = true) ∧
      -- it is replaced only by an offspring that is at least as good, and kept only when
      -- every offspring is strictly worse
      (o.replaced = true → o.st.parent ∈ pop) ∧
      (o.replaced = false → o.st.parent = s.parent ∧ ∀ i ∈ pop, ord.le s.parent.fit i.fit = false) ∧
      o.st.prm = s.prm ∧ o.lambdaSucc ≤ pop.length := by
  unfold update
  cases hs : sortDesc ord pop with
  | nil => exact absurd hs (sortDesc_ne_nil ord pop hne)
  | cons best rest =>
    obtain ⟨hmem, hmax⟩ := sortDesc_head h pop best rest hs
    have hcnt : countSucc ord s.parent.fit (best :: rest) ≤ pop.length := by
      rw [← hs]; exact Nat.le_trans (countSucc_le _ _ _) (Nat.le_of_eq (sortDesc_length ord pop))
    by_cases hle : ord.le s.parent.fit best.fit = true
    · simp only [hle, ↓reduceIte]
      exact ⟨_, rfl, hle, hmax, fun _ => hmem, fun hc => by simp at hc, rfl, hcnt⟩
    · simp only [hle]
      have hlt : ord.le best.fit s.parent.fit = true := by
        rcases h.total best.fit s.parent.fit with h1 | h1
        · exact h1
        · exact absurd h1 hle
      refine ⟨_, rfl, h.refl _, fun i hi => h.trans _ _ _ (hmax i hi) hlt, fun hc => by simp at hc,
        fun _ => ⟨rfl, fun i hi => ?_⟩, rfl, hcnt⟩
      cases hc : ord.le s.parent.fit i.fit with
      | false => rfl
      | true => exact absurd (h.trans _ _ _ hc (hmax i hi)) hle

/-- Invariant over any history of `update` calls. -/
theorem run_invariant {ord : FitOrd φ} (h : TotalPre ord) (chol : List (List α) → List (List α))
    (s : State φ α) (rounds : List (List (Ind φ α))) (hne : ∀ p ∈ rounds, p ≠ []) :
    ∃ s', run ord chol s rounds = some s' ∧
      ord.le s.parent.fit s'.parent.fit = true ∧
      (∀ p ∈ rounds, ∀ i ∈ p, ord.le i.fit s'.parent.fit = true) ∧
      (s'.parent = s.parent ∨ ∃ p ∈ rounds, s'.parent ∈ p) ∧ s'.prm = s.prm := by
  induction rounds generalizing s with
  | nil => exact ⟨s, rfl, h.refl _, by simp, Or.inl rfl, rfl⟩
  | cons pop rest ih =>
    obtain ⟨o, ho, h1, h2, h3, h4, h5, _⟩ := update_parent h chol s pop (hne pop (by simp))
    obtain ⟨s', hs', g1, g2, g3, g4⟩ := ih o.st (fun p hp => hne p (by simp [hp]))
    refine ⟨s', by simp [run, ho, hs'], h.trans _ _ _ h1 g1, ?_, ?_, g4.trans h5⟩
    · intro p hp i hi
      rcases List.mem_cons.1 hp with rfl | hp
      · exact h.trans _ _ _ (h2 i hi) g1
      · exact g2 p hp i hi
    · rcases g3 with g3 | ⟨p, hp, g3⟩
      · cases hr : o.replaced with
        | true => exact Or.inr ⟨pop, by simp, g3 ▸ h3 hr⟩
        | false => exact Or.inl (g3.trans (h4 hr).1)
      · exact Or.inr ⟨p, by simp [hp], g3⟩

/-- The numeric side of one `update`: the smoothed success rate and the step size. -/
theorem update_numeric (ord : FitOrd φ) (chol : List (List α) → List (List α))
    (s : State φ α) (pop : List (Ind φ α)) (o : UpdOut φ α) (h : update ord chol s pop = some o) :
    o.st.psucc = psuccUpdate s.prm s.psucc o.lambdaSucc ∧
    o.st.sigma = sigmaUpdate s.prm s.sigma o.st.psucc ∧
    o.lambdaSucc ≤ pop.length ∧ o.st.prm = s.prm ∧ pop ≠ [] := by
  unfold update at h
  cases hs : sortDesc ord pop with
  | nil => rw [hs] at h; cases h
  | cons best rest =>
    have hcnt : countSucc ord s.parent.fit (best :: rest) ≤ pop.length := by
      rw [← hs]; exact Nat.le_trans (countSucc_le _ _ _) (Nat.le_of_eq (sortDesc_length ord pop))
    have hne : pop ≠ [] := by
      intro e; subst e; simp [sortDesc] at hs
    rw [hs] at h
    simp only at h
    split at h
    · cases h; exact ⟨rfl, rfl, hcnt, rfl, hne⟩
    · cases h; exact ⟨rfl, rfl, hcnt, rfl, hne⟩

end OnePlus

/-! ### `StrategyActiveOnePlusLambda.update` -/
section Act
variable [RealLike α]
open Active

/-- The parent as an evaluated individual: id, genome, fitness. -/
def triple (s : State φ α) : Nat × List α × Option φ := (s.parentId, s.parentX, s.parentFit)

theorem infeasible_keeps (inv : List (List α) → Option (List (List α))) (s : State φ α) (ind : AInd φ α) :
    triple (infeasibleUpdate inv s ind) = triple s ∧ (infeasibleUpdate inv s ind).psucc = s.psucc ∧
    (infeasibleUpdate inv s ind).sigma = s.sigma ∧ (infeasibleUpdate inv s ind).prm = s.prm ∧
    (infeasibleUpdate inv s ind).dim = s.dim := by
  unfold infeasibleUpdate triple
  simp only
  split
  · exact ⟨rfl, rfl, rfl, rfl, rfl⟩
  · split
    · exact ⟨rfl, rfl, rfl, rfl, rfl⟩
    · split <;> exact ⟨rfl, rfl, rfl, rfl, rfl⟩

theorem infeasible_fold_keeps (inv : Nat → List (List α) → Option (List (List α)))
    (l : List (AInd φ α × Nat)) (s : State φ α) :
    let s' := l.foldl (fun st ik => infeasibleUpdate (inv ik.2) st ik.1) s
    triple s' = triple s ∧ s'.psucc = s.psucc ∧ s'.sigma = s.sigma ∧ s'.prm = s.prm ∧ s'.dim = s.dim := by
  induction l generalizing s with
  | nil => exact ⟨rfl, rfl, rfl, rfl, rfl⟩
  | cons x xs ih =>
    obtain ⟨a1, a2, a3, a4, a5⟩ := infeasible_keeps (inv x.2) s x.1
    obtain ⟨b1, b2, b3, b4, b5⟩ := ih (infeasibleUpdate (inv x.2) s x.1)
    exact ⟨b1.trans a1, b2.trans a2, b3.trans a3, b4.trans a4, b5.trans a5⟩

theorem mem_validOf {pop : List (AInd φ α)} {i : AInd φ α} {f : φ} :
    (i, f) ∈ validOf pop ↔ i ∈ pop ∧ i.fit = some f := by
  unfold validOf
  simp only [List.mem_filterMap, Option.map_eq_some_iff, Prod.mk.injEq]
  constructor
  · rintro ⟨j, hj, g, hg, rfl, rfl⟩; exact ⟨hj, hg⟩
  · rintro ⟨hi, hf⟩; exact ⟨i, hi, f, hf, rfl, rfl⟩

theorem rank1update_triple (ord : FitOrd φ) (s : State φ α) (ind : AInd φ α) (fit : φ) (pSucc : α) :
    let succ := match s.parentFit with
      | none => true
      | some pf => ord.le pf fit
    triple (rank1update ord s ind fit pSucc) =
      if succ then (ind.id, ind.x, some fit) else triple s := by
  unfold rank1update triple
  cases hp : s.parentFit with
  | none => simp
  | some pf =>
    cases hle : ord.le pf fit with
    | true => simp [hle]
    | false =>
      simp only [hle, Bool.false_eq_true, ↓reduceIte]
      split
      · simp [hp]
      · split <;> simp [hp]

theorem update_keeps (ord : FitOrd φ) (inv : Nat → List (List α) → Option (List (List α)))
    (s : State φ α) (pop : List (AInd φ α)) :
    let s' := (update ord inv s pop).st
    let s1 := (rankStep ord s pop).1
    triple s' = triple s1 ∧ s'.psucc = s1.psucc ∧ s'.sigma = s1.sigma ∧ s'.prm = s1.prm := by
  obtain ⟨h1, h2, h3, h4, _⟩ := infeasible_fold_keeps inv
    (List.zipIdx (pop.filter (fun i => i.fit.isNone))) (rankStep ord s pop).1
  exact ⟨h1, h2, h3, h4⟩

/-- What the rank step does to the parent. -/
theorem rankStep_parent {ord : FitOrd φ} (h : TotalPre ord) (s : State φ α) (pop : List (AInd φ α)) :
    let s' := (rankStep ord s pop).1
    (validOf pop = [] → s' = s) ∧
    (validOf pop ≠ [] → ∃ f, s'.parentFit = some f ∧
      (∀ i fi, (i, fi) ∈ validOf pop → ord.le fi f = true) ∧
      (∀ pf, s.parentFit = some pf → ord.le pf f = true) ∧
      (triple s' = triple s ∨ ∃ i ∈ pop, i.fit = some f ∧ triple s' = (i.id, i.x, i.fit))) := by
  unfold rankStep
  cases hs : (validOf pop).mergeSort (fun a b => !ord.lt a.2 b.2) with
  | nil =>
    have hv : validOf pop = [] := by
      have := (List.mergeSort_perm (validOf pop) (fun a b => !ord.lt a.2 b.2)).length_eq
      rw [hs] at this; exact List.length_eq_zero_iff.1 this.symm
    exact ⟨fun _ => rfl, fun hne => absurd hv hne⟩
  | cons best rest =>
    obtain ⟨hmem, hmax⟩ := mergeSort_head (fun p : AInd φ α × φ => p.2) h (validOf pop) best rest hs
    have hne : validOf pop ≠ [] := List.ne_nil_of_mem hmem
    refine ⟨fun hv => absurd hv hne, fun _ => ?_⟩
    have hbest := (mem_validOf (i := best.1) (f := best.2)).1 hmem
    simp only
    generalize (RealLike.ofNat (match s.parentFit with
        | none => (best :: rest).length
        | some pf => ((best :: rest).filter (fun i => ord.le pf i.2)).length) /
      RealLike.ofNat (best :: rest).length : α) = pS
    have key := rank1update_triple ord s best.1 best.2 pS
    cases hp : s.parentFit with
    | none =>
      simp only [hp, ↓reduceIte] at key
      refine ⟨best.2, by simpa [triple] using congrArg (·.2.2) key, fun i fi hi => hmax (i, fi) hi,
        fun pf hpf => by simp at hpf, Or.inr ⟨best.1, hbest.1, hbest.2, by rw [key, hbest.2]⟩⟩
    | some pf =>
      simp only [hp] at key
      cases hle : ord.le pf best.2 with
      | true =>
        simp only [hle, ↓reduceIte] at key
        refine ⟨best.2, by simpa [triple] using congrArg (·.2.2) key, fun i fi hi => hmax (i, fi) hi,
          fun pf' hpf' => by cases hpf'; exact hle, Or.inr ⟨best.1, hbest.1, hbest.2, by rw [key, hbest.2]⟩⟩
      | false =>
        simp only [hle, Bool.false_eq_true, ↓reduceIte] at key
        have hlt : ord.le best.2 pf = true := by
          rcases h.total best.2 pf with h1 | h1
          · exact h1
          · rw [hle] at h1; cases h1
        refine ⟨pf, by have := congrArg (·.2.2) key; simpa [triple, hp] using this,
          fun i fi hi => h.trans _ _ _ (hmax (i, fi) hi) hlt,
          fun pf' hpf' => by cases hpf'; exact h.refl _, Or.inl key⟩

theorem rank1update_numeric (ord : FitOrd φ) (s : State φ α) (ind : AInd φ α) (fit : φ) (pSucc : α) :
    (rank1update ord s ind fit pSucc).psucc = (1 - s.prm.cp) * s.psucc + s.prm.cp * pSucc ∧
    (rank1update ord s ind fit pSucc).sigma
      = s.sigma * RealLike.exp (1 / s.prm.d
          * (((1 - s.prm.cp) * s.psucc + s.prm.cp * pSucc - s.prm.ptarg) / (1 - s.prm.ptarg))) ∧
    (rank1update ord s ind fit pSucc).prm = s.prm := by
  unfold rank1update
  cases hp : s.parentFit with
  | none => simp
  | some pf =>
    cases hle : ord.le pf fit with
    | true => simp [hle]
    | false =>
      simp only [hle, Bool.false_eq_true, ↓reduceIte]
      split
      · simp
      · split <;> simp

theorem rank1update_cvecs (ord : FitOrd φ) (s : State φ α) (ind : AInd φ α) (fit : φ) (pSucc : α) :
    (rank1update ord s ind fit pSucc).constraintVecs = s.constraintVecs := by
  unfold rank1update
  cases hp : s.parentFit with
  | none => simp
  | some pf =>
    cases hle : ord.le pf fit with
    | true => simp [hle]
    | false =>
      simp only [hle, Bool.false_eq_true, ↓reduceIte]
      split
      · simp
      · split <;> simp

theorem rank1update_dim (ord : FitOrd φ) (s : State φ α) (ind : AInd φ α) (fit : φ) (pSucc : α) :
    (rank1update ord s ind fit pSucc).dim = s.dim := by
  unfold rank1update
  cases hp : s.parentFit with
  | none => simp
  | some pf =>
    cases hle : ord.le pf fit with
    | true => simp [hle]
    | false =>
      simp only [hle, Bool.false_eq_true, ↓reduceIte]
      split
      · simp
      · split <;> simp

/-- The numeric side of the rank step: untouched without valid individuals, otherwise smoothed with
`lambda_succ / len(valid)`. -/
theorem rankStep_numeric (ord : FitOrd φ) (s : State φ α) (pop : List (AInd φ α)) :
    (validOf pop = [] → (rankStep ord s pop).1 = s) ∧
    (validOf pop ≠ [] → ∃ k m : Nat, k ≤ m ∧ 0 < m ∧
      (rankStep ord s pop).1.psucc
        = (1 - s.prm.cp) * s.psucc + s.prm.cp * (RealLike.ofNat k / RealLike.ofNat m) ∧
      (rankStep ord s pop).1.sigma
        = s.sigma * RealLike.exp (1 / s.prm.d
            * (((1 - s.prm.cp) * s.psucc + s.prm.cp * (RealLike.ofNat k / RealLike.ofNat m) - s.prm.ptarg)
                / (1 - s.prm.ptarg))) ∧
      (rankStep ord s pop).1.prm = s.prm) := by
  unfold rankStep
  cases hs : (validOf pop).mergeSort (fun a b => !ord.lt a.2 b.2) with
  | nil =>
    have hv : validOf pop = [] := by
      have := (List.mergeSort_perm (validOf pop) (fun a b => !ord.lt a.2 b.2)).length_eq
      rw [hs] at this; exact List.length_eq_zero_iff.1 this.symm
    exact ⟨fun _ => rfl, fun hne => absurd hv hne⟩
  | cons best rest =>
    refine ⟨fun hv => ?_, fun _ => ?_⟩
    · have := (List.mergeSort_perm (validOf pop) (fun a b => !ord.lt a.2 b.2)).length_eq
      rw [hs, hv] at this; simp at this
    · simp only
      obtain ⟨n1, n2, n3⟩ := rank1update_numeric ord s best.1 best.2
        (RealLike.ofNat (match s.parentFit with
          | none => (best :: rest).length
          | some pf => ((best :: rest).filter (fun i => ord.le pf i.2)).length) /
        RealLike.ofNat (best :: rest).length)
      refine ⟨_, (best :: rest).length, ?_, by simp, n1, n2, n3⟩
      cases s.parentFit with
      | none => exact Nat.le_refl _
      | some pf => exact List.length_filter_le _ _

/-- What one `update` of the active strategy does to the parent. -/
theorem active_update_parent {ord : FitOrd φ} (h : TotalPre ord)
    (inv : Nat → List (List α) → Option (List (List α))) (s : State φ α) (pop : List (AInd φ α)) :
    let s' := (update ord inv s pop).st
    (validOf pop = [] → triple s' = triple s) ∧
    (validOf pop ≠ [] → ∃ f, s'.parentFit = some f ∧
      (∀ i fi, (i, fi) ∈ validOf pop → ord.le fi f = true) ∧
      (∀ pf, s.parentFit = some pf → ord.le pf f = true) ∧
      (triple s' = triple s ∨ ∃ i ∈ pop, i.fit = some f ∧ triple s' = (i.id, i.x, i.fit))) := by
  intro s'
  obtain ⟨k1, _, _, _⟩ := update_keeps ord inv s pop
  obtain ⟨r1, r2⟩ := rankStep_parent h s pop
  have k1' : triple s' = triple (rankStep ord s pop).1 := k1
  have kf : s'.parentFit = (rankStep ord s pop).1.parentFit := congrArg (·.2.2) k1'
  refine ⟨fun hv => by rw [k1', r1 hv], fun hv => ?_⟩
  obtain ⟨f, g1, g2, g3, g4⟩ := r2 hv
  exact ⟨f, kf.trans g1, g2, g3, by rw [k1']; exact g4⟩

/-- Invariant over any history of `update` calls of the active strategy. -/
theorem active_run_invariant {ord : FitOrd φ} (h : TotalPre ord)
    (inv : Nat → List (List α) → Option (List (List α))) (s : State φ α)
    (rounds : List (List (AInd φ α))) :
    let s' := run ord inv s rounds
    (∀ pf, s.parentFit = some pf → ∃ f, s'.parentFit = some f ∧ ord.le pf f = true) ∧
    (∀ p ∈ rounds, ∀ i ∈ p, ∀ fi, i.fit = some fi → ∃ f, s'.parentFit = some f ∧ ord.le fi f = true) ∧
    (triple s' = triple s ∨ ∃ p ∈ rounds, ∃ i ∈ p, i.fit.isSome = true ∧ triple s' = (i.id, i.x, i.fit)) := by
  induction rounds generalizing s with
  | nil => exact ⟨fun pf hpf => ⟨pf, hpf, h.refl _⟩, by simp, Or.inl rfl⟩
  | cons pop rest ih =>
    obtain ⟨u1, u2⟩ := active_update_parent h inv s pop
    obtain ⟨g1, g2, g3⟩ := ih (update ord inv s pop).st
    show (∀ pf, s.parentFit = some pf → ∃ f, (run ord inv (update ord inv s pop).st rest).parentFit = some f ∧ _) ∧
      (∀ p ∈ pop :: rest, ∀ i ∈ p, ∀ fi, i.fit = some fi →
        ∃ f, (run ord inv (update ord inv s pop).st rest).parentFit = some f ∧ _) ∧
      (triple (run ord inv (update ord inv s pop).st rest) = triple s ∨ _)
    by_cases hv : validOf pop = []
    · have ht := u1 hv
      have hf : (update ord inv s pop).st.parentFit = s.parentFit := congrArg (·.2.2) ht
      refine ⟨fun pf hpf => g1 pf (hf.trans hpf), ?_, ?_⟩
      · intro p hp i hi fi hfi
        rcases List.mem_cons.1 hp with rfl | hp
        · have : (i, fi) ∈ validOf p := mem_validOf.2 ⟨hi, hfi⟩
          rw [hv] at this; cases this
        · exact g2 p hp i hi fi hfi
      · rcases g3 with g3 | ⟨p, hp, i, hi, hs, g3⟩
        · exact Or.inl (g3.trans ht)
        · exact Or.inr ⟨p, by simp [hp], i, hi, hs, g3⟩
    · obtain ⟨f, f1, f2, f3, f4⟩ := u2 hv
      obtain ⟨f', f1', f2'⟩ := g1 f f1
      refine ⟨fun pf hpf => ⟨f', f1', h.trans _ _ _ (f3 pf hpf) f2'⟩, ?_, ?_⟩
      · intro p hp i hi fi hfi
        rcases List.mem_cons.1 hp with rfl | hp
        · exact ⟨f', f1', h.trans _ _ _ (f2 i fi (mem_validOf.2 ⟨hi, hfi⟩)) f2'⟩
        · exact g2 p hp i hi fi hfi
      · rcases g3 with g3 | ⟨p, hp, i, hi, hs, g3⟩
        · rcases f4 with f4 | ⟨i, hi, hif, f4⟩
          · exact Or.inl (g3.trans f4)
          · exact Or.inr ⟨pop, by simp, i, hi, by simp [hif], g3.trans f4⟩
        · exact Or.inr ⟨p, by simp [hp], i, hi, hs, g3⟩

end Act

end C14Elitist
