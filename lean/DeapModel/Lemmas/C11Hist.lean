/-
Helper lemmas for C11: `searchSubtree` at a Python (possibly negative) index, totality of the `staticLimit`
loop, and the bookkeeping of histories (`fetch` / `writeBack` on a population of tree objects).
-/
import DeapModel.Lemmas.C11TotalOps

namespace GpTree

/-! ### `searchSubtree` over an `Int` index -/

/-- once the index normalises to a position `j ≥ 0`, the method is the arity walk from `j` -/
theorem searchSubtreePy_of_nat (l : List Prim) (i : Int) (j : Nat) (hj : (j : Int) = pyIndex l.length i) :
    searchSubtreePy l i = (searchSubtree l j).map (fun be => ((be.1 : Int), (be.2 : Int))) := by
  unfold searchSubtreePy
  simp only
  rw [← hj]
  simp

/-- `-len ≤ i < len` is exactly "the index normalises to a position of the list" -/
theorem pyIndex_range (n : Nat) (i : Int) (hlo : -(n : Int) ≤ i) (hhi : i < n) :
    ∃ j : Nat, (j : Int) = pyIndex n i ∧ j < n := by
  unfold pyIndex
  split
  · exact ⟨(i + n).toNat, by omega, by omega⟩
  · exact ⟨i.toNat, by omega, by omega⟩

/-! ### the `staticLimit` loop never raises -/

/-- With a non-empty pool of kept parents (needed only when there is a child at all) and a measurable `key`, the
loop returns, or the tape is ill-typed, or it is shorter than one `choice` per child; it consumes at most one draw
per child. -/
theorem staticLimitLoop_benign {key : List Prim → Option Nat} {maxv : Nat} {keep : List (List Prim)} :
    ∀ (new : List (List Prim)) (tp : Tape), (new ≠ [] → keep ≠ []) → (∀ n ∈ new, ∃ k, key n = some k) →
      Benign new.length tp (staticLimitLoop key maxv keep new tp) ∧
      ∀ outs tp', staticLimitLoop key maxv keep new tp = .ok (outs, tp') →
        tp'.length ≤ tp.length ∧ tp.length ≤ tp'.length + new.length
  | [], tp, _, _ => by
    refine ⟨by simp [staticLimitLoop, Benign], ?_⟩
    intro outs tp' h
    simp [staticLimitLoop] at h
    obtain ⟨_, rfl⟩ := h
    simp
  | ind :: rest, tp, hkeep, hkey => by
    obtain ⟨k, hk⟩ := hkey ind (by simp)
    have hne : keep ≠ [] := hkeep (by simp)
    have hkey' : ∀ n ∈ rest, ∃ k, key n = some k := fun n hn => hkey n (by simp [hn])
    simp only [staticLimitLoop, hk]
    split
    · cases hch : popChoice keep tp with
      | error e =>
        exact ⟨(popChoice_err hne hch).benign (by simp), by intro outs tp' h; simp at h⟩
      | ok v =>
        obtain ⟨r, tp1⟩ := v
        have hl := (popChoice_ok hch).2
        obtain ⟨ih1, ih2⟩ := staticLimitLoop_benign (key := key) (maxv := maxv) (keep := keep) rest tp1
          (fun _ => hne) hkey'
        simp only
        cases hrec : staticLimitLoop key maxv keep rest tp1 with
        | error e =>
          rw [hrec] at ih1
          refine ⟨?_, by intro outs tp' h; simp at h⟩
          cases e <;> simp [Benign] at ih1 ⊢ <;> omega
        | ok v =>
          obtain ⟨o, tp2⟩ := v
          refine ⟨by simp [Benign], ?_⟩
          intro outs tp' h
          simp at h
          obtain ⟨_, rfl⟩ := h
          have := ih2 o tp2 hrec
          simp; omega
    · obtain ⟨ih1, ih2⟩ := staticLimitLoop_benign (key := key) (maxv := maxv) (keep := keep) rest tp
        (fun _ => hne) hkey'
      cases hrec : staticLimitLoop key maxv keep rest tp with
      | error e =>
        rw [hrec] at ih1
        refine ⟨?_, by intro outs tp' h; simp at h⟩
        cases e <;> simp [Benign] at ih1 ⊢ <;> omega
      | ok v =>
        obtain ⟨o, tp2⟩ := v
        refine ⟨by simp [Benign], ?_⟩
        intro outs tp' h
        simp at h
        obtain ⟨_, rfl⟩ := h
        have := ih2 o tp2 hrec
        simp; omega

/-! ### populations -/

theorem lift1_ok {r : R (List Prim × Tape)} {outs : List (List Prim)} {tp' : Tape} (h : lift1 r = .ok (outs, tp')) :
    ∃ o, r = .ok (o, tp') ∧ outs = [o] := by
  cases r with
  | error e => simp [lift1] at h
  | ok v => obtain ⟨o, tp1⟩ := v; simp [lift1] at h; obtain ⟨rfl, rfl⟩ := h; exact ⟨o, rfl, rfl⟩

theorem lift2_ok {r : R (List Prim × List Prim × Tape)} {outs : List (List Prim)} {tp' : Tape}
    (h : lift2 r = .ok (outs, tp')) : ∃ o1 o2, r = .ok (o1, o2, tp') ∧ outs = [o1, o2] := by
  cases r with
  | error e => simp [lift2] at h
  | ok v => obtain ⟨o1, o2, tp1⟩ := v; simp [lift2] at h; obtain ⟨rfl, rfl⟩ := h; exact ⟨o1, o2, rfl, rfl⟩


theorem fetch_spec {pop : List (List Prim)} : ∀ {is : List Nat} {args : List (List Prim)},
    fetch pop is = some args → args.length = is.length ∧ ∀ a ∈ args, a ∈ pop
  | [], args, h => by simp [fetch] at h; subst h; simp
  | i :: is, args, h => by
    simp only [fetch] at h
    split at h
    · rename_i x r hx hr
      simp at h; subst h
      obtain ⟨h1, h2⟩ := fetch_spec hr
      refine ⟨by simp [h1], ?_⟩
      intro a ha
      rcases List.mem_cons.1 ha with rfl | ha
      · exact List.mem_of_getElem? hx
      · exact h2 a ha
    · simp at h

theorem writeBack_length : ∀ (pop : List (List Prim)) (is : List Nat) (os : List (List Prim)),
    (writeBack pop is os).length = pop.length
  | pop, [], _ => by simp [writeBack]
  | pop, _ :: _, [] => by simp [writeBack]
  | pop, i :: is, o :: os => by simp [writeBack, writeBack_length (pop.set i o) is os]

theorem writeBack_mem : ∀ (pop : List (List Prim)) (is : List Nat) (os : List (List Prim)) (t : List Prim),
    t ∈ writeBack pop is os → t ∈ pop ∨ t ∈ os
  | pop, [], _, t, h => by simp [writeBack] at h; exact Or.inl h
  | pop, _ :: _, [], t, h => by simp [writeBack] at h; exact Or.inl h
  | pop, i :: is, o :: os, t, h => by
    simp only [writeBack] at h
    rcases writeBack_mem (pop.set i o) is os t h with h | h
    · rcases List.mem_or_eq_of_mem_set h with h | h
      · exact Or.inl h
      · exact Or.inr (by simp [h])
    · exact Or.inr (by simp [h])

/-- an invariant of every tree object is an invariant of the step if the operator's results have it -/
theorem stepState_inv (Q : List Prim → Prop) {ps : Pset} {s : Step} {pop pop' : List (List Prim)} {tp tp' : Tape}
    (hpop : ∀ t ∈ pop, Q t)
    (hrun : ∀ args outs tp1, (∀ a ∈ args, a ∈ pop) →
      (match s.lim with
        | none => applyOp ps s.op args tp
        | some L => staticLimit L.key L.maxv L.npos (applyOp ps s.op) args tp) = .ok (outs, tp1) → ∀ o ∈ outs, Q o)
    (h : stepState ps s pop tp = .ok (pop', tp')) :
    pop'.length = pop.length ∧ ∀ t ∈ pop', Q t := by
  unfold stepState at h
  split at h
  · simp at h
  · split at h
    · simp at h
    · rename_i args hf
      split at h
      · simp at h
      · rename_i outs tp1 hr
        simp at h
        obtain ⟨rfl, _⟩ := h
        refine ⟨writeBack_length _ _ _, ?_⟩
        intro t ht
        rcases writeBack_mem _ _ _ _ ht with ht | ht
        · exact hpop t ht
        · exact hrun args outs tp1 (fetch_spec hf).2 hr t ht

/-- induction over the operator list -/
theorem runHistory_inv (Q : List Prim → Prop) {ps : Pset} :
    ∀ (steps : List Step) (pop pop' : List (List Prim)) (tp tp' : Tape),
      (∀ t ∈ pop, Q t) →
      (∀ s ∈ steps, ∀ (pop : List (List Prim)) (tp : Tape) (pop' : List (List Prim)) (tp' : Tape),
        (∀ t ∈ pop, Q t) → stepState ps s pop tp = .ok (pop', tp') → pop'.length = pop.length ∧ ∀ t ∈ pop', Q t) →
      runHistory ps steps pop tp = .ok (pop', tp') → pop'.length = pop.length ∧ ∀ t ∈ pop', Q t
  | [], pop, pop', tp, tp', hpop, _, h => by
    simp [runHistory] at h; obtain ⟨rfl, _⟩ := h; exact ⟨rfl, hpop⟩
  | s :: ss, pop, pop', tp, tp', hpop, hstep, h => by
    simp only [runHistory] at h
    split at h
    · simp at h
    · rename_i pop1 tp1 hs
      obtain ⟨hl, hq⟩ := hstep s (by simp) pop tp pop1 tp1 hpop hs
      obtain ⟨hl', hq'⟩ := runHistory_inv Q ss pop1 pop' tp1 tp' hq
        (fun s' hs' => hstep s' (by simp [hs'])) h
      exact ⟨by omega, hq'⟩

end GpTree
