/-
C16 — vocabulary of the theorems: reachability, closed heaps, well-founded class tables, and the
side conditions under which the copy hooks of DEAP reproduce an object ("what the real code
assumes"), stated per object and required of everything reachable from the copied value.
-/
import DeapModel.Core.Heap

namespace Heap

/-- Everything an object refers to: its items and the values of its `__dict__`. -/
def Obj.children (o : Obj) : List Val := o.items ++ o.attrs.map (·.2)

def Val.isAtom : Val → Bool
  | .atom _ => true
  | .ref _ => false

/-- `Reach objs v y`: the object `y` is reachable from the value `v` (reflexive for references). -/
inductive Reach (objs : Oid → Option Obj) : Val → Oid → Prop where
  | here (x : Oid) : Reach objs (.ref x) x
  | step (x : Oid) (o : Obj) (c : Val) (y : Oid) :
      objs x = some o → c ∈ o.children → Reach objs c y → Reach objs (.ref x) y

/-- A heap as an interpreter can hold it: nothing is allocated at or beyond `next`, and no defined
object has a dangling reference. -/
structure Closed (objs : Oid → Option Obj) (next : Nat) : Prop where
  bound : ∀ x, next ≤ x → objs x = none
  refs : ∀ x o, objs x = some o → ∀ y, Val.ref y ∈ o.children → (objs y).isSome = true

/-- Classes mention only classes created before them (`creator.create` evaluates its keyword
arguments before the new class exists). -/
def CTOk (ct : ClassTable) : Prop :=
  ∀ (c : Nat) (ci : ClassInfo), ct[c]? = some ci → ∀ p ∈ ci.dictInst, p.2 < c

/-- `dict_inst` is a Python dict: its keys (attribute names) are unique. -/
def DictNodup (ct : ClassTable) : Prop :=
  ∀ (c : Nat) (ci : ClassInfo), ct[c]? = some ci → (ci.dictInst.map (·.1)).Nodup

/-- An immutable leaf: what a GP node object is (name, arity, return type … are atoms). -/
def ImmLeaf (objs : Oid → Option Obj) (v : Val) : Prop :=
  match v with
  | .atom _ => True
  | .ref y => ∃ o, objs y = some o ∧ o.mutable = false ∧ ∀ c ∈ o.children, c.isAtom = true

/-- `Within ct P objs n v`: the graph under `v` is finite of depth ≤ `n` (so it denotes a pure
value), every object in it belongs to a class of `ct` and satisfies `P`. -/
def Within (ct : ClassTable) (P : (Oid → Option Obj) → ClassInfo → Obj → Prop)
    (objs : Oid → Option Obj) : Nat → Val → Prop
  | _, .atom _ => True
  | 0, .ref _ => False
  | n + 1, .ref x => ∃ o ci, objs x = some o ∧ ct[o.cls]? = some ci ∧ P objs ci o ∧
      ∀ c ∈ o.children, Within ct P objs n c

/-- Side conditions of the *copy* hooks, per object:
* a class whose hook calls the class again (`set`, `PrimitiveTree`, fitnesses) re-instantiates the
  `dict_inst` attributes; the copied state overwrites them only if the original still *has* all of
  them (true unless the user deleted one);
* `Fitness.__deepcopy__` copies `wvalues` only — "assumes … the fitness does not contain any other
  object" (base.py:255-257): no `dict_inst`, no instance attributes, numeric `wvalues`;
  `ConstrainedFitness` additionally `constraint_violation` and nothing else;
* `array.array` buffers hold numbers (numpy individuals may hold anything: their elements are deep-copied); a tree's items are immutable leaf node objects. -/
def CopyOK (objs : Oid → Option Obj) (ci : ClassInfo) (o : Obj) : Prop :=
  (ci.kind.initOnCopy = true → ∀ p ∈ ci.dictInst, (lookup p.1 o.attrs).isSome = true) ∧
  (ci.kind = .fitness → ci.dictInst = [] ∧ (∀ k, lookup k o.attrs = none) ∧
      ∀ c ∈ o.items, c.isAtom = true) ∧
  (ci.kind = .cfitness → ci.dictInst = [] ∧ (lookup cvName o.attrs).isSome = true ∧
      (∀ k, k ≠ cvName → lookup k o.attrs = none) ∧ ∀ c ∈ o.items, c.isAtom = true) ∧
  (ci.kind = .pyarr → ∀ c ∈ o.items, c.isAtom = true) ∧
  (ci.kind = .tree → ∀ c ∈ o.items, ImmLeaf objs c)

/-- `InstOf ct c c'`: instantiating the class `c` instantiates the class `c'` — `c` itself, or a
class named in the `dict_inst` of such a class (`init_type` calls it). -/
inductive InstOf (ct : ClassTable) : ClsId → ClsId → Prop where
  | self (c : ClsId) : InstOf ct c c
  | step (c : ClsId) (ci : ClassInfo) (p : Name × ClsId) (c' : ClsId) :
      ct[c]? = some ci → p ∈ ci.dictInst → InstOf ct p.2 c' → InstOf ct c c'

/-- Side condition under which a *freshly created* instance of `c` (with atom items) satisfies
`CopyOK` throughout: the fitness classes it instantiates were created without `dict_inst`
attributes ("assumes … the fitness does not contain any other object", base.py:255-257).  Nothing
is required of the other kinds: a new instance has all its `dict_inst` attributes, a new
`ConstrainedFitness` has `constraint_violation` (set by `base.__init__`), and the nested instances
have no items. -/
def CreateOK (ct : ClassTable) (c : ClsId) : Prop :=
  ∀ c' ci, InstOf ct c c' → ct[c']? = some ci →
    (ci.kind = .fitness ∨ ci.kind = .cfitness) → ci.dictInst = []

/-- Side condition of the *pickle* hooks: only the kinds whose reduce tuple calls the class need
the original to still have its `dict_inst` attributes. -/
def PickleOK (_objs : Oid → Option Obj) (ci : ClassInfo) (o : Obj) : Prop :=
  ci.kind.initOnPickle = true → ∀ p ∈ ci.dictInst, (lookup p.1 o.attrs).isSome = true

/-- An object that exists in the old heap `objs` and is immutable there. -/
def ImmutableIn (objs : Oid → Option Obj) (y : Oid) : Prop :=
  ∃ o, objs y = some o ∧ o.mutable = false

end Heap
