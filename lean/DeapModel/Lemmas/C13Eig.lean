/-
C13 helper lemmas (3): the eigen-decomposition post-processing of cma.py:167-174 (re-ordering by
`argsort`, square root, `BD = B * diagD`) under the `eigh` contract.
-/
import DeapModel.Lemmas.C13Basic
import Mathlib.Tactic.Ring
import Mathlib.Tactic.Linarith
import Mathlib.Analysis.SpecialFunctions.Pow.Real
import Mathlib.Analysis.SpecialFunctions.Sqrt
import Mathlib.LinearAlgebra.Matrix.NonsingularInverse

set_option linter.unusedSectionVars false
set_option linter.unusedSimpArgs false

open Cma C13L

namespace C13L

theorem fin_sum_eq_list (n : Nat) (f : Nat → ℝ) : ∑ i : Fin n, f i.val = ((List.range n).map f).sum := by
  rw [← sumTo_real]; unfold sumTo tab; rw [sum_real]

theorem map_getD_range (l : List Nat) : (List.range l.length).map (fun k => l.getD k 0) = l := by
  apply List.ext_getElem
  · simp
  · intro i h1 h2
    simp at h1
    simp [List.getD_eq_getElem?_getD, h1]

/-- re-indexing a finite sum by a permutation `indx` of `0..n-1` -/
theorem sum_reindex {n : Nat} {indx : List Nat} (hp : indx.Perm (List.range n)) (g : Nat → ℝ) :
    ∑ k : Fin n, g (indx.getD k.val 0) = ∑ k : Fin n, g k.val := by
  have hl : indx.length = n := by simpa using hp.length_eq
  rw [fin_sum_eq_list n (fun k => g (indx.getD k 0)), fin_sum_eq_list n g]
  have : (List.range n).map (fun k => g (indx.getD k 0)) = indx.map g := by
    conv_rhs => rw [← map_getD_range indx]
    rw [List.map_map, hl]; rfl
  rw [this]
  exact (hp.map g).sum_eq

theorem perm_getD_lt {n : Nat} {indx : List Nat} (hp : indx.Perm (List.range n)) (k : Fin n) :
    indx.getD k.val 0 < n := by
  have hl : indx.length = n := by simpa using hp.length_eq
  have hk : k.val < indx.length := hl ▸ k.isLt
  have : indx.getD k.val 0 ∈ indx := by
    simp [List.getD_eq_getElem?_getD, hk]
  exact List.mem_range.mp (hp.subset this)

theorem perm_getD_inj {n : Nat} {indx : List Nat} (hp : indx.Perm (List.range n)) (k l : Fin n) :
    indx.getD k.val 0 = indx.getD l.val 0 ↔ k = l := by
  have hl : indx.length = n := by simpa using hp.length_eq
  have hk : k.val < indx.length := hl ▸ k.isLt
  have hl' : l.val < indx.length := hl ▸ l.isLt
  have hnd : indx.Nodup := hp.nodup_iff.mpr List.nodup_range
  simp only [List.getD_eq_getElem?_getD, hk, hl', List.getElem?_eq_getElem, Option.getD_some]
  rw [hnd.getElem_inj_iff, Fin.ext_iff]

end C13L

namespace C13L

/-- The contract of `numpy.linalg.eigh` on the symmetric `n × n` matrix `C`: the columns of `V` are
orthonormal (`VᵀV = I`) and `C = V · diag(w) · Vᵀ`. -/
structure EighContract (n : Nat) (C : List (List ℝ)) (w : List ℝ) (V : List (List ℝ)) : Prop where
  cols : ∀ k l : Fin n, ∑ a : Fin n, mget V a.val k.val * mget V a.val l.val = if k = l then 1 else 0
  recon : ∀ a b : Fin n, mget C a.val b.val = ∑ k : Fin n, mget V a.val k.val * vget w k.val * mget V b.val k.val

/-- a square matrix with orthonormal columns has orthonormal rows (`VᵀV = I → V Vᵀ = I`) -/
theorem rows_of_cols {n : Nat} (V : List (List ℝ))
    (cols : ∀ k l : Fin n, ∑ a : Fin n, mget V a.val k.val * mget V a.val l.val = if k = l then 1 else 0)
    (a b : Fin n) : ∑ k : Fin n, mget V a.val k.val * mget V b.val k.val = if a = b then 1 else 0 := by
  let M : Matrix (Fin n) (Fin n) ℝ := fun a k => mget V a.val k.val
  have h1 : M.transpose * M = 1 := by
    ext k l
    rw [Matrix.mul_apply, Matrix.one_apply]
    exact cols k l
  have h2 : M * M.transpose = 1 := mul_eq_one_comm.mp h1
  have := congrFun (congrFun h2 a) b
  rw [Matrix.mul_apply, Matrix.one_apply] at this
  exact this

theorem EighContract.rows {n : Nat} {C : List (List ℝ)} {w : List ℝ} {V : List (List ℝ)}
    (hc : EighContract n C w V) (a b : Fin n) :
    ∑ k : Fin n, mget V a.val k.val * mget V b.val k.val = if a = b then 1 else 0 :=
  rows_of_cols V hc.cols a b

section
variable {n : Nat} {C : List (List ℝ)} {w : List ℝ} {V : List (List ℝ)} {indx : List Nat}

theorem eigSorted_diagD (k : Fin n) :
    vget (eigSorted n w V indx).diagD k.val = Real.sqrt (vget w (indx.getD k.val 0)) := by
  simp only [eigSorted]
  real_bridge
  rw [Real.sqrt_eq_rpow]

theorem eigSorted_B (a k : Fin n) : mget (eigSorted n w V indx).B a.val k.val = mget V a.val (indx.getD k.val 0) := by
  simp only [eigSorted, mget_tab2_fin]

theorem eigSorted_BD (a k : Fin n) :
    mget (eigSorted n w V indx).BD a.val k.val
      = mget (eigSorted n w V indx).B a.val k.val * vget (eigSorted n w V indx).diagD k.val := by
  simp only [eigSorted]
  real_bridge

/-- `BD · BDᵀ = C` -/
theorem eigSorted_BD_BDT (hc : EighContract n C w V) (hp : indx.Perm (List.range n))
    (hw : ∀ k : Fin n, 0 ≤ vget w k.val) (a b : Fin n) :
    ∑ k : Fin n, mget (eigSorted n w V indx).BD a.val k.val * mget (eigSorted n w V indx).BD b.val k.val
      = mget C a.val b.val := by
  simp only [eigSorted_BD, eigSorted_B, eigSorted_diagD]
  rw [sum_reindex hp (fun j => mget V a.val j * Real.sqrt (vget w j) * (mget V b.val j * Real.sqrt (vget w j))),
    hc.recon]
  refine Finset.sum_congr rfl (fun k _ => ?_)
  have := Real.mul_self_sqrt (hw k)
  calc mget V a.val k.val * √(vget w k.val) * (mget V b.val k.val * √(vget w k.val))
      = mget V a.val k.val * (√(vget w k.val) * √(vget w k.val)) * mget V b.val k.val := by ring
    _ = _ := by rw [this]

/-- `B · diag(diagD²) · Bᵀ = C` -/
theorem eigSorted_B_D2_BT (hc : EighContract n C w V) (hp : indx.Perm (List.range n))
    (hw : ∀ k : Fin n, 0 ≤ vget w k.val) (a b : Fin n) :
    ∑ k : Fin n, mget (eigSorted n w V indx).B a.val k.val
        * (vget (eigSorted n w V indx).diagD k.val * vget (eigSorted n w V indx).diagD k.val)
        * mget (eigSorted n w V indx).B b.val k.val
      = mget C a.val b.val := by
  rw [← eigSorted_BD_BDT hc hp hw a b]
  refine Finset.sum_congr rfl (fun k _ => ?_)
  rw [eigSorted_BD, eigSorted_BD]; ring

/-- `B Bᵀ = I` -/
theorem eigSorted_B_rows (hc : EighContract n C w V) (hp : indx.Perm (List.range n)) (a b : Fin n) :
    ∑ k : Fin n, mget (eigSorted n w V indx).B a.val k.val * mget (eigSorted n w V indx).B b.val k.val
      = if a = b then 1 else 0 := by
  simp only [eigSorted_B]
  rw [sum_reindex hp (fun j => mget V a.val j * mget V b.val j), hc.rows]

/-- `Bᵀ B = I` -/
theorem eigSorted_B_cols (hc : EighContract n C w V) (hp : indx.Perm (List.range n)) (k l : Fin n) :
    ∑ a : Fin n, mget (eigSorted n w V indx).B a.val k.val * mget (eigSorted n w V indx).B a.val l.val
      = if k = l then 1 else 0 := by
  simp only [eigSorted_B]
  have := hc.cols ⟨_, perm_getD_lt hp k⟩ ⟨_, perm_getD_lt hp l⟩
  simp only [Fin.mk.injEq, perm_getD_inj hp] at this
  exact this

end
end C13L
