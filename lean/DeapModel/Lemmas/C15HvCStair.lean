import DeapModel.Lemmas.C15HvCBase
/-!
C15 — the 2-D staircase kept in the AVL tree by the 3-D base case of `_hv.c` (`dim == 2`): its area as a sum of
horizontal strips, the update formula of l.955-982 (remove the points dominated by the new one, add one rectangle),
and the list operations of the abstract ordered sequence `St.tree`.
-/
namespace HvC
set_option linter.unusedVariables false
open Hypervolume

/-! ### the ordered sequence -/

theorem listPrev_absent (a : ℕ) : ∀ (l : List ℕ), a ∉ l.tail → listPrev l a = 0
  | [], _ => rfl
  | [_], _ => rfl
  | x :: y :: l, h => by
    have hy : y ≠ a := fun e => h (by simp [e])
    simp only [listPrev, if_neg hy]
    exact listPrev_absent a (y :: l) (fun hm => h (by simp at hm ⊢; exact Or.inr hm))

theorem listPrev_mid (a : ℕ) (X : List ℕ) (hX : a ∉ X) : ∀ (A : List ℕ), a ∉ A →
    listPrev (A ++ a :: X) a = (A.getLast?).getD 0
  | [], _ => by
    simp only [List.nil_append, List.getLast?_nil, Option.getD_none]
    exact listPrev_absent a (a :: X) (by simpa using hX)
  | [b], _ => by simp [listPrev]
  | b :: c :: A, h => by
    have hca : c ≠ a := fun e => h (by simp [e])
    have ih := listPrev_mid a X hX (c :: A) (fun hm => h (List.mem_cons_of_mem _ hm))
    simp only [List.cons_append, listPrev, if_neg hca]
    simp only [List.cons_append] at ih
    rw [ih, List.getLast?_cons_cons]

theorem listNext_mid (a : ℕ) (X : List ℕ) : ∀ (A : List ℕ), a ∉ A →
    listNext (A ++ a :: X) a = (X.head?).getD 0
  | [], _ => by
    cases X with
    | nil => rfl
    | cons y Y => simp [listNext]
  | b :: A, h => by
    have hba : b ≠ a := fun e => h (by simp [e])
    have ih := listNext_mid a X A (fun hm => h (List.mem_cons_of_mem _ hm))
    cases hA : A ++ a :: X with
    | nil => simp at hA
    | cons z rest =>
      rw [hA] at ih
      simp only [List.cons_append, hA, listNext, if_neg hba]
      exact ih

theorem erase_mid (a : ℕ) (A X : List ℕ) (h : a ∉ A) : (A ++ a :: X).erase a = A ++ X := by
  rw [List.erase_append_right _ h, List.erase_cons_head]

theorem insertBefore_mid (b p : ℕ) (B : List ℕ) : ∀ (A : List ℕ), b ∉ A →
    insertBefore b p (A ++ b :: B) = A ++ p :: b :: B
  | [], _ => by simp [insertBefore]
  | x :: A, h => by
    have hx : x ≠ b := fun e => h (by simp [e])
    simp only [List.cons_append, insertBefore, if_neg hx]
    rw [insertBefore_mid b p B A (fun hm => h (List.mem_cons_of_mem _ hm))]

theorem insertAfter_mid (a p : ℕ) (X : List ℕ) : ∀ (A : List ℕ), a ∉ A →
    insertAfter a p (A ++ a :: X) = A ++ a :: p :: X
  | [], _ => by simp [insertAfter]
  | x :: A, h => by
    have hx : x ≠ a := fun e => h (by simp [e])
    simp only [List.cons_append, insertAfter, if_neg hx]
    rw [insertAfter_mid a p X A (fun hm => h (List.mem_cons_of_mem _ hm))]

/-- what the walk of `avl_search_closest` answers: the tree splits into the members that compare `+1` and the
rest, which starts with a member that compares `-1` (or is empty) -/
theorem searchList_spec (C : Cargo) (it : ℚ × ℚ) : ∀ (T : List ℕ), T ≠ [] →
    ∃ A B, T = A ++ B ∧ (∀ e ∈ A, cmpTreeAscNeg it (item C e) = false) ∧
      ((B = [] ∧ ∃ A' a, A = A' ++ [a] ∧ searchList C it T = (a, 1)) ∨
       (∃ b B', B = b :: B' ∧ cmpTreeAscNeg it (item C b) = true ∧ searchList C it T = (b, -1)))
  | [], h => absurd rfl h
  | [e], _ => by
    by_cases hc : cmpTreeAscNeg it (item C e) = true
    · exact ⟨[], [e], rfl, by simp, Or.inr ⟨e, [], rfl, hc, by simp [searchList, hc]⟩⟩
    · have hc' : cmpTreeAscNeg it (item C e) = false := by simpa using hc
      exact ⟨[e], [], by simp, by simp [hc'], Or.inl ⟨rfl, [], e, rfl, by simp [searchList, hc']⟩⟩
  | e :: e' :: l, _ => by
    by_cases hc : cmpTreeAscNeg it (item C e) = true
    · exact ⟨[], e :: e' :: l, rfl, by simp, Or.inr ⟨e, e' :: l, rfl, hc, by simp [searchList, hc]⟩⟩
    · have hc' : cmpTreeAscNeg it (item C e) = false := by simpa using hc
      obtain ⟨A, B, hAB, hA, hres⟩ := searchList_spec C it (e' :: l) (by simp)
      refine ⟨e :: A, B, by rw [hAB]; rfl, ?_, ?_⟩
      · intro x hx
        rcases List.mem_cons.mp hx with rfl | hx
        · exact hc'
        · exact hA x hx
      · have hs : searchList C it (e :: e' :: l) = searchList C it (e' :: l) := by simp [searchList, hc']
        rcases hres with ⟨hB, A', a, hA', hr⟩ | ⟨b, B', hB, hcb, hr⟩
        · exact Or.inl ⟨hB, e :: A', a, by rw [hA']; rfl, hs.trans hr⟩
        · exact Or.inr ⟨b, B', hB, hcb, hs.trans hr⟩

/-- split a list into a part whose last member fails `P` and a suffix all of whose members satisfy `P` -/
theorem suffix_split {α : Type} (P : α → Prop) [DecidablePred P] (l : List α) :
    ∃ A D, l = A ++ D ∧ (∀ e ∈ D, P e) ∧ (∀ A' a, A = A' ++ [a] → ¬ P a) := by
  induction l using List.reverseRecOn with
  | nil => exact ⟨[], [], rfl, by simp, by simp⟩
  | append_singleton l e ih =>
    obtain ⟨A, D, hl, hD, hA⟩ := ih
    by_cases he : P e
    · refine ⟨A, D ++ [e], by rw [hl, List.append_assoc], ?_, hA⟩
      intro x hx
      rcases List.mem_append.mp hx with h | h
      · exact hD x h
      · simp at h; rw [h]; exact he
    · refine ⟨l ++ [e], [], by simp, by simp, ?_⟩
      intro A' a h
      have := List.append_inj' h rfl
      simp at this
      rw [← this.2]; exact he

/-! ### the area of a staircase as a sum of horizontal strips -/

/-- `Σ (y_prev − y_t)(r − x_t)` over the members, `y_prev` starting at `yp` -/
def hArea (r : ℚ) : ℚ → List (ℚ × ℚ) → ℚ
  | _, [] => 0
  | yp, t :: l => (yp - t.2) * (r - t.1) + hArea r t.2 l

/-- abscissa of the first member, or `r` -/
def headX (r : ℚ) (l : List (ℚ × ℚ)) : ℚ := (l.head?.map Prod.fst).getD r
/-- ordinate of the last member, or `yp` -/
def lastY (yp : ℚ) (l : List (ℚ × ℚ)) : ℚ := (l.getLast?.map Prod.snd).getD yp

@[simp] theorem headX_nil (r : ℚ) : headX r [] = r := rfl
@[simp] theorem headX_cons (r : ℚ) (t : ℚ × ℚ) (l : List (ℚ × ℚ)) : headX r (t :: l) = t.1 := rfl
@[simp] theorem lastY_nil (yp : ℚ) : lastY yp [] = yp := rfl
theorem lastY_cons (yp : ℚ) (t : ℚ × ℚ) (l : List (ℚ × ℚ)) : lastY yp (t :: l) = lastY t.2 l := by
  cases l with
  | nil => rfl
  | cons u l =>
    unfold lastY
    rw [List.getLast?_cons_cons]
    cases h : (u :: l).getLast? with
    | none => simp at h
    | some v => rfl
theorem lastY_append_singleton (yp : ℚ) (l : List (ℚ × ℚ)) (t : ℚ × ℚ) : lastY yp (l ++ [t]) = t.2 := by
  simp [lastY]

theorem hArea_shift (r : ℚ) (y y' : ℚ) : ∀ (l : List (ℚ × ℚ)), hArea r y l = hArea r y' l - (y' - y) * (r - headX r l)
  | [] => by simp [hArea]
  | t :: l => by simp only [hArea, headX_cons]; ring

theorem hArea_append (r : ℚ) : ∀ (A : List (ℚ × ℚ)) (yp : ℚ) (X : List (ℚ × ℚ)),
    hArea r yp (A ++ X) = hArea r yp A + hArea r (lastY yp A) X
  | [], yp, X => by simp [hArea]
  | t :: A, yp, X => by
    simp only [List.cons_append, hArea, lastY_cons]
    rw [hArea_append r A t.2 X]; ring

theorem hArea_snoc (r : ℚ) (yp : ℚ) (l : List (ℚ × ℚ)) (t : ℚ × ℚ) :
    hArea r yp (l ++ [t]) = hArea r yp l + (lastY yp l - t.2) * (r - t.1) := by
  rw [hArea_append]; simp [hArea]

theorem hArea_change_r (r r' : ℚ) : ∀ (l : List (ℚ × ℚ)) (yp : ℚ),
    hArea r' yp l = hArea r yp l - (yp - lastY yp l) * (r - r')
  | [], yp => by simp [hArea]
  | t :: l, yp => by
    simp only [hArea, lastY_cons]
    rw [hArea_change_r r r' l t.2]; ring

/-- a staircase: abscissae strictly ascending, ordinates strictly descending -/
def Stair (T : List (ℚ × ℚ)) : Prop := T.Pairwise (fun a b => a.1 < b.1 ∧ b.2 < a.2)

theorem foldr_min_stair (r : ℚ) (T : List (ℚ × ℚ)) (hs : Stair T) (hle : ∀ t ∈ T, t.1 ≤ r) :
    (T.map Prod.fst).foldr min r = headX r T := by
  cases T with
  | nil => rfl
  | cons t l =>
    rw [List.map_cons, headX_cons]
    apply foldr_min_head r t.1 (l.map Prod.fst) _ (hle t (by simp))
    have : ((t :: l).map Prod.fst).Pairwise (· ≤ ·) :=
      List.pairwise_map.mpr (hs.imp (fun h => le_of_lt h.1))
    simpa using this

/-- **the strip sum of a staircase is the area it dominates** -/
theorem stair_area (r₀ r₁ : ℚ) : ∀ (T : List (ℚ × ℚ)), Stair T → (∀ t ∈ T, t.1 ≤ r₀ ∧ t.2 ≤ r₁) →
    hArea r₀ r₁ T = hvCells [r₀, r₁] (T.map toPt)
  | [], _, _ => by simp [hArea, hvCells_nil_pts]
  | t :: l, hs, hle => by
    have hs' := List.pairwise_cons.mp hs
    have ih := stair_area r₀ r₁ l hs'.2 (fun x hx => hle x (by simp [hx]))
    have key := hvCells_add_top r₀ r₁ l t.1 t.2 (fun p hp => le_of_lt (hs'.1 p hp).2) (hle t (by simp)).2
    have ht : toPt (t.1, t.2) = toPt t := rfl
    rw [List.map_cons, ← ht, key, ← ih, foldr_min_stair r₀ l hs'.2 (fun x hx => (hle x (by simp [hx])).1)]
    have hmin : min (headX r₀ l) t.1 = t.1 := by
      apply min_eq_right
      cases l with
      | nil => exact (hle t (by simp)).1
      | cons u l => exact le_of_lt (hs'.1 u (by simp)).1
    rw [hmin]
    simp only [hArea]
    rw [hArea_shift r₀ t.2 r₁ l]
    ring

/-- **the update of l.955-982**: replacing the run `D` of dominated members by the new point `p` changes the area
by `−Σ_D (y_prev − y_e)(x_next − x_e) + (y_prev(p) − y_p)(x_next − x_p)`, `x_next` the abscissa of the successor -/
theorem area_update (r₀ r₁ : ℚ) (A D B : List (ℚ × ℚ)) (p : ℚ × ℚ) :
    hArea r₀ r₁ (A ++ p :: B)
      = hArea r₀ r₁ (A ++ D ++ B) - hArea (headX r₀ B) (lastY r₁ A) D
        + (lastY r₁ A - p.2) * (headX r₀ B - p.1) := by
  rw [hArea_append, List.append_assoc, hArea_append, hArea_append]
  simp only [hArea]
  rw [hArea_shift r₀ p.2 (lastY (lastY r₁ A) D) B, hArea_change_r r₀ (headX r₀ B) D (lastY r₁ A)]
  ring

/-- the points weakly dominated by a member of `T` contribute nothing more -/
theorem hvCells_cover (ref : List ℚ) (T : List Pt) : ∀ (P : List Pt), (∀ p ∈ P, ∃ t ∈ T, Dom ref t p) →
    hvCells ref (P ++ T) = hvCells ref T
  | [], _ => rfl
  | p :: P, h => by
    obtain ⟨t, ht, hd⟩ := h p (by simp)
    rw [List.cons_append, hvCells_dominated' ref (P ++ T) t p (List.mem_append_right _ ht) hd]
    exact hvCells_cover ref T P (fun q hq => h q (by simp [hq]))

theorem hvCells_eq_of_cover (ref : List ℚ) (T P : List Pt) (hsub : ∀ t ∈ T, t ∈ P)
    (hcov : ∀ p ∈ P, ∃ t ∈ T, Dom ref t p) : hvCells ref P = hvCells ref T := by
  rw [← hvCells_cover ref T P hcov]
  apply hvCells_of_mem_iff
  intro q
  simp only [List.mem_append]
  constructor
  · exact Or.inl
  · rintro (h | h)
    · exact h
    · exact hsub q h

end HvC
