/-
C14 helper lemmas: shape invariants (lengths of vectors, `n × n` matrices) through the constraint
update of the active strategy and through one MO realignment; membership lemmas for `_select`.
-/
import DeapModel.Lemmas.C14Bridge
import DeapModel.Lemmas.C14Select
import DeapModel.Lemmas.C14Elitist

set_option linter.unusedSectionVars false
set_option linter.unusedVariables false
set_option linter.unusedSimpArgs false

namespace C14Shapes
open CmaElitist CmaElitist.LA C14Bridge

/-! ### active strategy: `_infeasible_update` -/
section Act
open Active
variable {φ : Type}

theorem length_vzero (n : Nat) : (vzero n : List ℝ).length = n := by simp [vzero]

/-- The updated constraint vectors all have length `n`. -/
theorem cvecs_shape (s : State φ ℝ) (ind : AInd φ ℝ) (n : Nat) (hdim : s.dim = n)
    (hy : ind.y.length = n) (hcv : ∀ vs, s.constraintVecs = some vs → ∀ v ∈ vs, v.length = n) :
    ∀ v ∈ constraintVecsUpdate s ind, v.length = n := by
  unfold constraintVecsUpdate
  have key : ∀ (c : ℝ) (vecs0 : List (List ℝ)), (∀ v ∈ vecs0, v.length = n) →
      ∀ v ∈ (List.zip vecs0 ind.cv).map (fun vc =>
        if vc.2 then vadd (vscale c vc.1) (vscale s.prm.cconst ind.y) else vc.1),
        v.length = n := by
    intro c vecs0 h0 v hv
    simp only [List.mem_map] at hv
    obtain ⟨vc, hvc, rfl⟩ := hv
    have h1 := h0 vc.1 (List.of_mem_zip hvc).1
    split
    · simp [h1, hy]
    · exact h1
  cases hc : s.constraintVecs with
  | none =>
    simp only
    apply key _
    intro v hv
    simp only [List.mem_replicate] at hv
    rw [hv.2, hdim]; exact length_vzero n
  | some vs => simp only; exact key _ vs (hcv vs hc)

theorem isMat_foldl_madd (n : Nat) (ts : List (List (List ℝ))) (t0 : List (List ℝ))
    (h0 : IsMat n t0) (hts : ∀ t ∈ ts, IsMat n t) : IsMat n (ts.foldl madd t0) := by
  induction ts generalizing t0 with
  | nil => exact h0
  | cons t ts ih =>
    simp only [List.foldl_cons]
    exact ih _ (isMat_madd h0 (hts t (by simp))) (fun t' ht' => hts t' (by simp [ht']))

/-- `A_prime` keeps the `n × n` shape. -/
theorem aPrime_shape (beta : ℝ) (A invA : List (List ℝ)) (vecs : List (List ℝ)) (cv : List Bool)
    (n : Nat) (hA : IsMat n A) (hI : IsMat n invA) (hv : ∀ v ∈ vecs, v.length = n)
    (A' : List (List ℝ)) (h : aPrime beta A invA vecs cv = some A') : IsMat n A' := by
  unfold aPrime at h
  simp only at h
  have hterm : ∀ t ∈ ((List.zip (List.zip vecs (vecs.map (fun v => matVec invA v))) cv).filter (·.2)).map
      (fun t => mdivs (outer t.1.1 t.1.2) (dot t.1.2 t.1.2)), IsMat n t := by
    intro t ht
    simp only [List.mem_map, List.mem_filter] at ht
    obtain ⟨x, ⟨hx, _⟩, rfl⟩ := ht
    have hx1 := (List.of_mem_zip hx).1
    have hx11 := (List.of_mem_zip hx1).1
    have hx12 := (List.of_mem_zip hx1).2
    simp only [List.mem_map] at hx12
    obtain ⟨v, _, hv2⟩ := hx12
    apply isMat_mdivs
    apply isMat_outer (hv _ hx11)
    rw [← hv2]; simp [hI.1]
  split at h
  · cases h
  · next t0 ts heq =>
    simp only [Option.some.injEq] at h
    subst h
    rw [heq] at hterm
    exact isMat_msub hA (isMat_mscale _ (isMat_foldl_madd n ts t0 (hterm t0 (by simp))
      (fun t ht => hterm t (by simp [ht]))))

end Act

/-! ### `_select` only returns individuals it was given -/
section Sel
open MO
variable {ι : Type}

theorem fill_mem (mu : Nat) : ∀ (fs : List (List ι)) (c : List ι) (m : Option (List ι)) (nc : List ι)
    (full : Bool),
    (∀ x ∈ (fillFronts mu fs c m nc full).1, x ∈ c ∨ x ∈ fs.flatten) ∧
    (∀ m', (fillFronts mu fs c m nc full).2.1 = some m' → m = some m' ∨ m' ∈ fs)
  | [], c, m, nc, full => by simp [fillFronts]
  | f :: fs, c, m, nc, full => by
    simp only [fillFronts]
    split
    · obtain ⟨a, b⟩ := fill_mem mu fs (c ++ f) m nc full
      refine ⟨fun x hx => ?_, fun m' hm => ?_⟩
      · rcases a x hx with h | h
        · rcases List.mem_append.1 h with h | h
          · exact Or.inl h
          · exact Or.inr (by simp [h])
        · exact Or.inr (by simp [h])
      · rcases b m' hm with h | h
        · exact Or.inl h
        · exact Or.inr (by simp [h])
    · split
      · obtain ⟨a, b⟩ := fill_mem mu fs c (some f) nc true
        refine ⟨fun x hx => ?_, fun m' hm => ?_⟩
        · rcases a x hx with h | h
          · exact Or.inl h
          · exact Or.inr (by simp [h])
        · rcases b m' hm with h | h
          · cases h; exact Or.inr (by simp)
          · exact Or.inr (by simp [h])
      · obtain ⟨a, b⟩ := fill_mem mu fs c m (nc ++ f) full
        refine ⟨fun x hx => ?_, fun m' hm => ?_⟩
        · rcases a x hx with h | h
          · exact Or.inl h
          · exact Or.inr (by simp [h])
        · rcases b m' hm with h | h
          · exact Or.inl h
          · exact Or.inr (by simp [h])

theorem dropLeast_mem (indicator : List ι → Nat) : ∀ (cnt : Nat) (mid nc mid' nc' : List ι),
    dropLeast indicator cnt mid nc = some (mid', nc') → ∀ x ∈ mid', x ∈ mid
  | 0, mid, nc, mid', nc', h => by
    simp only [dropLeast, Option.some.injEq, Prod.mk.injEq] at h
    obtain ⟨rfl, _⟩ := h; exact fun x hx => hx
  | cnt + 1, mid, nc, mid', nc', h => by
    simp only [dropLeast] at h
    cases hg : mid[indicator mid]? with
    | none => rw [hg] at h; cases h
    | some y =>
      rw [hg] at h
      intro x hx
      have := dropLeast_mem indicator cnt _ _ mid' nc' h x hx
      exact (List.eraseIdx_sublist _ _).subset this

/-- Everything `_select` chooses is a candidate or an element of the fronts it was handed. -/
theorem selectFronts_mem (mu : Nat) (fronts : List (List ι)) (indicator : List ι → Nat)
    (cands c nc : List ι) (h : selectFronts mu fronts indicator cands = some (c, nc)) :
    ∀ x ∈ c, x ∈ cands ∨ x ∈ fronts.flatten := by
  unfold selectFronts at h
  split at h
  · simp only [Option.some.injEq, Prod.mk.injEq] at h
    obtain ⟨rfl, _⟩ := h; exact fun x hx => Or.inl hx
  · obtain ⟨a, b⟩ := fill_mem mu fronts [] none [] false
    simp only at h
    split at h
    · cases hm : (fillFronts mu fronts [] none [] false).2.1 with
      | none => rw [hm] at h; cases h
      | some mid =>
        rw [hm] at h
        simp only at h
        cases hd : dropLeast indicator (mid.length - (mu - (fillFronts mu fronts [] none [] false).1.length)) mid
            (fillFronts mu fronts [] none [] false).2.2 with
        | none => rw [hd] at h; cases h
        | some r =>
          obtain ⟨mid', nc'⟩ := r
          rw [hd] at h
          simp only [Option.some.injEq, Prod.mk.injEq] at h
          obtain ⟨rfl, _⟩ := h
          intro x hx
          rcases List.mem_append.1 hx with hx | hx
          · rcases a x hx with h1 | h1
            · simp at h1
            · exact Or.inr h1
          · have hxm := dropLeast_mem indicator _ _ _ _ _ hd x hx
            rcases b mid hm with h1 | h1
            · cases h1
            · exact Or.inr (List.mem_flatten.2 ⟨mid, h1, hxm⟩)
    · simp only [Option.some.injEq, Prod.mk.injEq] at h
      obtain ⟨rfl, _⟩ := h
      intro x hx
      rcases a x hx with h1 | h1
      · simp at h1
      · exact Or.inr h1

end Sel

end C14Shapes
