import DeapModel.Lemmas.C15HvCReA2
import DeapModel.Lemmas.C15HvCReA4
/-!
C15 — the re-entered 3-D base case of `_hv.c`: **the main loop l.899-989 keeps the full invariant `SLInv`**.
-/
namespace HvC

/-- the main loop l.899-989 keeps `SLInv` up to the end of the list, and writes nothing but `tree`, `domr`, `ignore`
(of swept nodes), `area[·][2]` and `vol[·][2]` (of swept nodes) -/
theorem sweepLoopRe : SweepLoopRe_Statement := sweepLoopRe_of sweepBody_re

end HvC
