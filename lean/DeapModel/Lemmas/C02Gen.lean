/-
C02 — translator tie, helper lemmas (built by lake because Props/C02.lean imports this file).

The translator `harness/py2lean_c02.py` renders `deap/algorithms.py` `varAnd` / `varOr` as state-passing actions over the prelude
`Core/GenPreludeC02.lean`.  Here: the CANONICAL renderings (`varAndCanon`, `varOrCanon`: what the translator produces from the
source as it is, with the loop bodies named) and the proofs that they are the hand-written model of `Core/Variation.lean` composed
with its own decoders of the recorded draws (`decodeAnd`, `decodeOr`) — the index loops of the source against the structural
recursions of the model (`forPairs_mateBody`, `forEach_mutBody`, `repeatM_orBody`).  The committed theorems of
`GenEq/C02.lean.tmpl` show `Gen.<f> = <f>Canon` for the regenerated text (tactic `genv_eq`) and transfer.
-/
import DeapModel.Core.GenPreludeC02

namespace GenVL
open Variation GenV

variable {σ β γ : Type}

@[simp] theorem bind_apply (m : M σ β) (k : β → M σ γ) (g : GSt σ) :
    GenV.bind m k g = match m g with | none => none | some (x, g1) => k x g1 := rfl
@[simp] theorem pure_apply (x : β) (g : GSt σ) : (GenV.pure x : M σ β) g = some (x, g) := rfl
@[simp] theorem fail_apply (g : GSt σ) : (GenV.fail : M σ β) g = none := rfl
theorem bind_pure_id (m : M σ β) : GenV.bind m (fun x => GenV.pure x) = m := by
  funext g; simp only [bind_apply]; cases m g with
  | none => rfl
  | some p => rfl

/-- the list comprehension over `toolbox.clone` is the model's `cloneAll` -/
theorem mapM_clone (l : List Nat) (g : GSt σ) :
    GenV.mapM (fun v => GenV.clone v) l g = some ((cloneAll g.st l).2, { g with st := (cloneAll g.st l).1 }) := by
  induction l generalizing g with
  | nil => rfl
  | cons p ps ih =>
    simp only [GenV.mapM, bind_apply, GenV.clone, ih, cloneAll, pure_apply]

def rnds (fl : List Float) : List Draw := fl.map Draw.rnd


/-- canonical body of varAnd's crossover loop (lines 71-75) -/
def mateBody (ops : Ops σ) (cxpb : Float) (a b : Nat) : M σ (Nat × Nat) :=
  GenV.bind GenV.random fun r =>
  if r < cxpb then
    GenV.bind (GenV.mate ops a b) fun p =>
    GenV.bind (GenV.delFit p.1) fun _ =>
    GenV.bind (GenV.delFit p.2) fun _ =>
    GenV.pure (p.1, p.2)
  else GenV.pure (a, b)

/-- canonical body of varAnd's mutation loop (lines 77-80) -/
def mutBody (ops : Ops σ) (mutpb : Float) (a : Nat) : M σ Nat :=
  GenV.bind GenV.random fun r =>
  if r < mutpb then
    GenV.bind (GenV.mutate ops a) fun p =>
    GenV.bind (GenV.delFit p) fun _ =>
    GenV.pure p
  else GenV.pure a

def resOut (rest : List Draw) (r : Res σ) : List Nat × GSt σ := (r.off, ⟨r.tape, r.st, rest⟩)

theorem forPairs_mateBody (ops : Ops σ) (cxpb : Float) :
    ∀ (l : List Nat) (ds : List Float) (rest : List Draw) (t : σ) (s : St), ds.length = l.length / 2 →
      GenV.forPairs (mateBody ops cxpb) l ⟨t, s, ds.map Draw.rnd ++ rest⟩ =
        (mateLoop ops t s l (ds.map fun r => decide (r < cxpb))).map (resOut rest)
  | [], ds, rest, t, s, h => by
    cases ds with
    | nil => simp [GenV.forPairs, mateLoop, resOut]
    | cons d ds => simp at h
  | [a], ds, rest, t, s, h => by
    cases ds with
    | nil => simp [GenV.forPairs, mateLoop, resOut]
    | cons d ds => simp at h
  | a :: b :: l, ds, rest, t, s, h => by
    cases ds with
    | nil => exfalso; simp at h; omega
    | cons d ds =>
      have h' : ds.length = l.length / 2 := by simp at h; omega
      by_cases hd : d < cxpb
      · simp only [GenV.forPairs, bind_apply, mateBody, GenV.random, List.map_cons, List.cons_append, hd, if_true,
          GenV.mate, GenV.delFit, pure_apply, mateLoop, decide_true]
        rw [forPairs_mateBody ops cxpb l ds rest _ _ h']
        simp only [Variation.delFit]
        cases mateLoop ops _ _ l (ds.map fun r => decide (r < cxpb)) <;> simp [resOut]
      · simp only [GenV.forPairs, bind_apply, mateBody, GenV.random, List.map_cons, List.cons_append, hd, if_false,
          pure_apply, mateLoop, decide_false]
        rw [forPairs_mateBody ops cxpb l ds rest _ _ h']
        cases mateLoop ops _ _ l (ds.map fun r => decide (r < cxpb)) <;> simp [resOut]


theorem forEach_mutBody (ops : Ops σ) (mutpb : Float) :
    ∀ (l : List Nat) (ds : List Float) (rest : List Draw) (t : σ) (s : St), ds.length = l.length →
      GenV.forEach (mutBody ops mutpb) l ⟨t, s, ds.map Draw.rnd ++ rest⟩ =
        (mutLoop ops t s l (ds.map fun r => decide (r < mutpb))).map (resOut rest)
  | [], ds, rest, t, s, h => by
    cases ds with
    | nil => simp [GenV.forEach, mutLoop, resOut]
    | cons d ds => simp at h
  | a :: l, ds, rest, t, s, h => by
    cases ds with
    | nil => simp at h
    | cons d ds =>
      have h' : ds.length = l.length := by simpa using h
      by_cases hd : d < mutpb
      · simp only [GenV.forEach, bind_apply, mutBody, GenV.random, List.map_cons, List.cons_append, hd, if_true,
          GenV.mutate, GenV.delFit, pure_apply, mutLoop, decide_true]
        rw [forEach_mutBody ops mutpb l ds rest _ _ h']
        cases mutLoop ops _ _ l (ds.map fun r => decide (r < mutpb)) <;> simp [resOut]
      · simp only [GenV.forEach, bind_apply, mutBody, GenV.random, List.map_cons, List.cons_append, hd, if_false,
          pure_apply, mutLoop, decide_false]
        rw [forEach_mutBody ops mutpb l ds rest _ _ h']
        cases mutLoop ops _ _ l (ds.map fun r => decide (r < mutpb)) <;> simp [resOut]

theorem cloneAll_length : ∀ (s : St) (l : List Nat), (cloneAll s l).2.length = l.length
  | _, [] => rfl
  | s, p :: ps => by simp [cloneAll, cloneAll_length _ ps]

theorem mateLoop_length (ops : Ops σ) : ∀ (l : List Nat) (t : σ) (s : St) (ds : List Bool) (r : Res σ),
    mateLoop ops t s l ds = some r → r.off.length = l.length
  | [], t, s, ds, r, h => by cases ds <;> (simp [mateLoop] at h; subst h; rfl)
  | [a], t, s, ds, r, h => by cases ds <;> (simp [mateLoop] at h; subst h; rfl)
  | a :: b :: l, t, s, [], r, h => by simp [mateLoop] at h
  | a :: b :: l, t, s, d :: ds, r, h => by
    cases d
    · simp only [mateLoop, Bool.false_eq_true, if_false] at h
      cases hm : mateLoop ops t s l ds with
      | none => simp [hm] at h
      | some x => simp [hm] at h; subst h; simp [mateLoop_length ops l _ _ _ x hm]
    · simp only [mateLoop, if_true] at h
      split at h
      · simp at h
      · rename_i x hm; simp at h; subst h; simp [mateLoop_length ops l _ _ _ x hm]

/-- the canonical rendering of `varAnd` (what the translator produces from the source as it is) -/
def varAndCanon (ops : Ops σ) (population : List Nat) (cxpb mutpb : Float) : M σ (List Nat) :=
  GenV.bind (GenV.mapM (fun v => GenV.clone v) population) fun off =>
  GenV.bind (GenV.forPairs (mateBody ops cxpb) off) fun off =>
  GenV.bind (GenV.forEach (mutBody ops mutpb) off) fun off =>
  GenV.pure off

/-- On every tape that starts with the `len/2 + len` results of `random()` the call consumes: the regenerated `varAnd` is the
model's `varAnd` on the decisions `decodeAnd` reads off those results, and hands the rest of the tape on. -/
theorem varAndCanon_eq_model (ops : Ops σ) (population : List Nat) (cxpb mutpb : Float) (t : σ) (s : St)
    (fl : List Float) (rest : List Draw) (h : fl.length = population.length / 2 + population.length) :
    varAndCanon ops population cxpb mutpb ⟨t, s, fl.map Draw.rnd ++ rest⟩ =
      ((decodeAnd cxpb mutpb population.length fl).bind fun d =>
        Variation.varAnd ops t s population d.1 d.2).map (resOut rest) := by
  have hsplit : fl = fl.take (population.length / 2) ++ fl.drop (population.length / 2) := (List.take_append_drop _ _).symm
  have h1 : (fl.take (population.length / 2)).length = (cloneAll s population).2.length / 2 := by
    rw [cloneAll_length]; simp; omega
  simp only [varAndCanon, bind_apply, mapM_clone, decodeAnd, h, if_true, Option.bind_some, Variation.varAnd]
  conv => lhs; rw [hsplit, List.map_append, List.append_assoc]
  rw [forPairs_mateBody ops cxpb _ _ _ _ _ h1]
  cases hm : mateLoop ops t (cloneAll s population).1 (cloneAll s population).2
      ((fl.take (population.length / 2)).map fun r => decide (r < cxpb)) with
  | none => simp
  | some m =>
    have h2 : (fl.drop (population.length / 2)).length = m.off.length := by
      rw [mateLoop_length ops _ _ _ _ m hm, cloneAll_length]; simp; omega
    simp only [Option.map_some, resOut]
    rw [forEach_mutBody ops mutpb _ _ _ _ _ h2]
    cases mutLoop ops m.tape m.st m.off ((fl.drop (population.length / 2)).map fun r => decide (r < mutpb)) <;> simp [resOut]


/-- canonical body of varOr's loop (lines 231-243): the element appended to `offspring` -/
def orBody (ops : Ops σ) (population : List Nat) (cxpb mutpb : Float) : M σ Nat :=
  GenV.bind GenV.random fun r =>
  if r < cxpb then
    GenV.bind (GenV.sample2 population) fun smp =>
    GenV.bind (GenV.mapM (fun v => GenV.clone v) smp) fun cl =>
    GenV.bind (GenV.unpack2 cl) fun i =>
    GenV.bind (GenV.mate ops i.1 i.2) fun p =>
    GenV.bind (GenV.delFit p.1) fun _ =>
    GenV.pure p.1
  else if r < cxpb + mutpb then
    GenV.bind (GenV.choice population) fun c =>
    GenV.bind (GenV.clone c) fun i =>
    GenV.bind (GenV.mutate ops i) fun m =>
    GenV.bind (GenV.delFit m) fun _ =>
    GenV.pure m
  else
    GenV.bind (GenV.choice population) fun c =>
    GenV.clone c

def varOrCanon (ops : Ops σ) (population : List Nat) (lambda_ : Nat) (cxpb mutpb : Float) : M σ (List Nat) :=
  if cxpb + mutpb <= 1.0 then GenV.repeatM (orBody ops population cxpb mutpb) lambda_ else GenV.fail

/-- what is kept of a finished call: the returned list, the operators' state, the heap -/
def resExact (r : Res σ) : List Nat × σ × St := (r.off, r.tape, r.st)

def exactK (x : List Nat × GSt σ) : Option (List Nat × σ × St) :=
  if x.2.draws.isEmpty then some (x.1, x.2.tape, x.2.st) else none

theorem bind_const_none {α β : Type} (x : Option α) : (x.bind fun _ => (none : Option β)) = none := by
  cases x <;> rfl

def consOut (o : Nat) (r : List Nat × σ × St) : List Nat × σ × St := (o :: r.1, r.2)

theorem repeatM_succ_exact (body : M σ Nat) (n : Nat) (g : GSt σ) :
    (GenV.repeatM body (n + 1) g).bind exactK =
      match body g with
      | none => none
      | some (o, g1) => ((GenV.repeatM body n g1).bind exactK).map (consOut o) := by
  simp only [GenV.repeatM, bind_apply, pure_apply]
  cases body g with
  | none => rfl
  | some p =>
    obtain ⟨o, g1⟩ := p
    simp only []
    cases GenV.repeatM body n g1 with
    | none => rfl
    | some q =>
      obtain ⟨os, g2⟩ := q
      simp only [Option.bind_some, exactK]; split <;> rfl

theorem decode_cons_model (ops : Ops σ) (population : List Nat) (t : σ) (s : St) (c : Choice) (d : Option (List Choice)) :
    ((d.map (c :: ·)).bind fun ch => (varOrLoop ops population t s ch).map resExact) =
      match varOrStep ops population t s c with
      | none => none
      | some (t1, s1, o) => (d.bind fun ch => (varOrLoop ops population t1 s1 ch).map resExact).map (consOut o) := by
  cases d with
  | none => cases varOrStep ops population t s c <;> rfl
  | some ch =>
    simp only [Option.map_some, Option.bind_some, varOrLoop]
    cases varOrStep ops population t s c with
    | none => rfl
    | some x =>
      obtain ⟨t1, s1, o⟩ := x
      simp only []
      cases varOrLoop ops population t1 s1 ch <;> simp [resExact, consOut]

theorem orBody_cx (ops : Ops σ) (population : List Nat) (cxpb mutpb r : Float) (h1 : r < cxpb) (i j p q : Nat) (hij : ¬ i = j)
    (hp : population[i]? = some p) (hq : population[j]? = some q) (t : σ) (s : St) (rest : List Draw) :
    orBody ops population cxpb mutpb ⟨t, s, Draw.rnd r :: Draw.sample i j :: rest⟩ =
      (let c1 := Variation.clone s p
       let c2 := Variation.clone c1.1 q
       let r := ops.mate t c2.1.heap c2.1.next c1.2 c2.2
       some (r.fst, ⟨r.tape, { heap := Variation.delFit r.heap r.fst, next := r.next, log := c2.1.log ++ [Ev.mate c1.2 c2.2] }, rest⟩)) := by
  simp only [orBody, bind_apply, GenV.random, h1, if_true, GenV.sample2, hij, if_false, hp, hq,
    mapM_clone, cloneAll, GenV.unpack2, GenV.mate, GenV.delFit, pure_apply]

theorem orBody_mut (ops : Ops σ) (population : List Nat) (cxpb mutpb r : Float) (h1 : ¬ r < cxpb) (h2 : r < cxpb + mutpb) (i p : Nat)
    (hp : population[i]? = some p) (t : σ) (s : St) (rest : List Draw) :
    orBody ops population cxpb mutpb ⟨t, s, Draw.rnd r :: Draw.choice i :: rest⟩ =
      (let c := Variation.clone s p
       let r := ops.mutate t c.1.heap c.1.next c.2
       some (r.ret, ⟨r.tape, { heap := Variation.delFit r.heap r.ret, next := r.next, log := c.1.log ++ [Ev.mutate c.2] }, rest⟩)) := by
  simp only [orBody, bind_apply, GenV.random, h1, h2, if_true, if_false, GenV.choice, hp,
    GenV.clone, GenV.mutate, GenV.delFit, pure_apply]

theorem orBody_rep (ops : Ops σ) (population : List Nat) (cxpb mutpb r : Float) (h1 : ¬ r < cxpb) (h2 : ¬ r < cxpb + mutpb) (i p : Nat)
    (hp : population[i]? = some p) (t : σ) (s : St) (rest : List Draw) :
    orBody ops population cxpb mutpb ⟨t, s, Draw.rnd r :: Draw.choice i :: rest⟩ =
      some ((Variation.clone s p).2, ⟨t, (Variation.clone s p).1, rest⟩) := by
  simp only [orBody, bind_apply, GenV.random, h1, h2, if_false, GenV.choice, hp, GenV.clone]

theorem repeatM_orBody (ops : Ops σ) (population : List Nat) (cxpb mutpb : Float) :
    ∀ (n : Nat) (t : σ) (s : St) (draws : List Draw),
      (GenV.repeatM (orBody ops population cxpb mutpb) n ⟨t, s, draws⟩).bind exactK =
        (decodeOr cxpb mutpb n draws).bind fun ch => (varOrLoop ops population t s ch).map resExact
  | 0, t, s, draws => by
    cases draws <;> simp [GenV.repeatM, decodeOr, exactK, varOrLoop, resExact]
  | n + 1, t, s, draws => by
    have ih := repeatM_orBody ops population cxpb mutpb n
    rw [repeatM_succ_exact]
    cases draws with
    | nil => simp [orBody, GenV.random, decodeOr]
    | cons d rest =>
      cases d with
      | sample i j => simp [orBody, GenV.random, decodeOr]
      | choice i => simp [orBody, GenV.random, decodeOr]
      | rnd r =>
        by_cases h1 : r < cxpb
        · cases rest with
          | nil => simp [orBody, GenV.random, decodeOr, branch, h1, GenV.sample2]
          | cons d2 rest2 =>
            cases d2 with
            | rnd _ => simp [orBody, GenV.random, decodeOr, branch, h1, GenV.sample2]
            | choice _ => simp [orBody, GenV.random, decodeOr, branch, h1, GenV.sample2]
            | sample i j =>
              by_cases hij : i = j
              · simp [orBody, GenV.random, decodeOr, branch, h1, GenV.sample2, hij]
              · simp only [decodeOr, branch, h1, if_true, hij, if_false, decode_cons_model, varOrStep]
                cases hp : population[i]? with
                | none => simp [orBody, GenV.random, h1, GenV.sample2, hij, hp]
                | some p =>
                  cases hq : population[j]? with
                  | none => simp [orBody, GenV.random, h1, GenV.sample2, hij, hp, hq]
                  | some q =>
                    rw [orBody_cx ops population cxpb mutpb r h1 i j p q hij hp hq]
                    simp only [ih]
        · by_cases h2 : r < cxpb + mutpb
          · cases rest with
            | nil => simp [orBody, GenV.random, decodeOr, branch, h1, h2, GenV.choice]
            | cons d2 rest2 =>
              cases d2 with
              | rnd _ => simp [orBody, GenV.random, decodeOr, branch, h1, h2, GenV.choice]
              | sample _ _ => simp [orBody, GenV.random, decodeOr, branch, h1, h2, GenV.choice]
              | choice i =>
                simp only [decodeOr, branch, h1, h2, if_true, if_false, decode_cons_model, varOrStep]
                cases hp : population[i]? with
                | none => simp [orBody, GenV.random, h1, h2, GenV.choice, hp]
                | some p =>
                  rw [orBody_mut ops population cxpb mutpb r h1 h2 i p hp]
                  simp only [ih]
          · cases rest with
            | nil => simp [orBody, GenV.random, decodeOr, branch, h1, h2, GenV.choice]
            | cons d2 rest2 =>
              cases d2 with
              | rnd _ => simp [orBody, GenV.random, decodeOr, branch, h1, h2, GenV.choice]
              | sample _ _ => simp [orBody, GenV.random, decodeOr, branch, h1, h2, GenV.choice]
              | choice i =>
                simp only [decodeOr, branch, h1, h2, if_false, decode_cons_model, varOrStep]
                cases hp : population[i]? with
                | none => simp [orBody, GenV.random, h1, h2, GenV.choice, hp]
                | some p =>
                  rw [orBody_rep ops population cxpb mutpb r h1 h2 i p hp]
                  simp only [ih]

theorem decodeOr_length (cxpb mutpb : Float) : ∀ (n : Nat) (draws : List Draw) (ch : List Choice),
    decodeOr cxpb mutpb n draws = some ch → ch.length = n
  | 0, [], ch, h => by simp [decodeOr] at h; subst h; rfl
  | 0, _ :: _, ch, h => by simp [decodeOr] at h
  | n + 1, [], ch, h => by simp [decodeOr] at h
  | n + 1, Draw.sample _ _ :: _, ch, h => by simp [decodeOr] at h
  | n + 1, Draw.choice _ :: _, ch, h => by simp [decodeOr] at h
  | n + 1, Draw.rnd r :: rest, ch, h => by
    have ih := decodeOr_length cxpb mutpb n
    simp only [decodeOr] at h
    split at h
    · split at h
      · simp at h
      · simp only [Option.map_eq_some_iff] at h
        obtain ⟨a, ha, rfl⟩ := h; simp [ih _ _ ha]
    · simp only [Option.map_eq_some_iff] at h
      obtain ⟨a, ha, rfl⟩ := h; simp [ih _ _ ha]
    · simp only [Option.map_eq_some_iff] at h
      obtain ⟨a, ha, rfl⟩ := h; simp [ih _ _ ha]
    · simp at h

/-- The regenerated `varOr`, run on a tape that holds exactly the draws the call consumes, is the model's `varOr` on the
choices `decodeOr` reads off that tape (`none` on both sides: the assertion fails, the tape does not fit, a drawn position is
outside the population). -/
theorem varOrCanon_eq_model (ops : Ops σ) (population : List Nat) (lambda_ : Nat) (cxpb mutpb : Float) (t : σ) (s : St)
    (draws : List Draw) :
    GenV.runExact (varOrCanon ops population lambda_ cxpb mutpb) t s draws =
      if orAssert cxpb mutpb then
        (decodeOr cxpb mutpb lambda_ draws).bind fun ch => (Variation.varOr ops t s population lambda_ ch).map resExact
      else none := by
  have hrun : ∀ (m : M σ (List Nat)), GenV.runExact m t s draws = (m ⟨t, s, draws⟩).bind exactK := by
    intro m; simp only [GenV.runExact]; cases m ⟨t, s, draws⟩ <;> rfl
  rw [hrun]
  by_cases ha : cxpb + mutpb <= 1.0
  · simp only [varOrCanon, ha, if_true, orAssert, decide_true, repeatM_orBody, Variation.varOr]
    cases hd : decodeOr cxpb mutpb lambda_ draws with
    | none => rfl
    | some ch => simp [decodeOr_length cxpb mutpb _ _ _ hd]
  · simp [varOrCanon, ha, orAssert]


/-- monad laws used to bring a regenerated definition to the canonical shape -/
theorem bind_assoc (m : M σ β) (k : β → M σ γ) {δ : Type} (k2 : γ → M σ δ) :
    GenV.bind (GenV.bind m k) k2 = GenV.bind m (fun x => GenV.bind (k x) k2) := by
  funext g; simp only [bind_apply]; cases m g <;> rfl

theorem pure_bind (x : β) (k : β → M σ γ) : GenV.bind (GenV.pure x) k = k x := rfl

end GenVL

/-- `Gen.<f> = <f>Canon`: definitional when the source is as the canon was transcribed; otherwise the monad laws, then
pointwise on the state. -/
macro "genv_eq" : tactic => `(tactic| first
  | with_reducible rfl
  | (simp only [GenVL.bind_pure_id, GenVL.pure_bind, GenVL.bind_assoc, List.nil_append]; with_reducible rfl)
  | (funext g; simp [GenVL.bind_pure_id, GenVL.pure_bind, GenVL.bind_assoc, GenVL.mateBody, GenVL.mutBody, GenVL.orBody,
      GenV.clone, GenV.mate, GenV.mutate, GenV.delFit, GenV.random, GenV.sample2, GenV.choice]))
