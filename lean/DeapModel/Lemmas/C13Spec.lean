/-
C13 helper lemmas (2): every assignment of the code form of `Strategy.update` equals the corresponding
published equation (over ℝ).
-/
import DeapModel.Lemmas.C13Basic
import Mathlib.Tactic.Ring
import Mathlib.Tactic.FieldSimp
import Mathlib.Tactic.Linarith

open Cma C13L

namespace C13L

theorem cdiff_eq_sigma_yw (s : State ℝ) (xs : List (List ℝ)) (hσ : s.sigma ≠ 0)
    (hw : ∑ i : Fin s.par.mu, vget s.par.weights i.val = 1) (j : Fin s.dim) :
    vget (cDiff s (newCentroid s xs)) j.val = s.sigma * vget (specYw s xs) j.val := by
  simp only [cDiff, newCentroid, specYw, specY, vget_tab_fin, sumTo_real, RealLike.real_sub,
    RealLike.real_mul, RealLike.real_div]
  rw [Finset.mul_sum]
  have : ∀ i : Fin s.par.mu, s.sigma * (vget s.par.weights i.val * ((mget xs i.val j.val - vget s.centroid j.val) / s.sigma))
      = vget s.par.weights i.val * mget xs i.val j.val - vget s.par.weights i.val * vget s.centroid j.val := by
    intro i; field_simp
  simp only [this, Finset.sum_sub_distrib, ← Finset.sum_mul, hw, one_mul]

theorem newPs_eq_spec (s : State ℝ) (cdiff yw : List ℝ) (hσ : s.sigma ≠ 0)
    (h : ∀ j : Fin s.dim, vget cdiff j.val = s.sigma * vget yw j.val) :
    newPs s cdiff = specPs s yw := by
  unfold newPs specPs
  apply tab_congr
  intro a
  simp only [specInvSqrtC]
  real_bridge
  simp only [h]
  congr 1
  rw [div_mul_eq_mul_div, mul_div_assoc]
  congr 1
  simp only [Finset.mul_sum, Finset.sum_mul, Finset.sum_div]
  rw [Finset.sum_comm]
  refine Finset.sum_congr rfl (fun b _ => Finset.sum_congr rfl (fun k _ => ?_))
  field_simp

theorem hsig_eq_spec (s : State ℝ) (ps : List ℝ) (hchi : 0 < s.chiN) : hsigOf s ps = specHsig s ps := by
  unfold hsigOf specHsig
  have hp : ((2 : ℝ) * ((s.updateCount : ℝ) + 1)) = ((2 * (s.updateCount + 1) : ℕ) : ℝ) := by push_cast; ring
  real_bridge
  simp only [hp, div_lt_iff₀ hchi]

theorem newPc_eq_spec (s : State ℝ) (hsig : ℝ) (cdiff yw : List ℝ) (hσ : s.sigma ≠ 0)
    (h : ∀ j : Fin s.dim, vget cdiff j.val = s.sigma * vget yw j.val) :
    newPc s hsig cdiff = specPc s hsig yw := by
  unfold newPc specPc
  apply tab_congr
  intro a
  real_bridge
  simp only [h]
  field_simp

theorem newC_eq_spec (s : State ℝ) (hsig : ℝ) (pc : List ℝ) (xs : List (List ℝ)) :
    newC s hsig pc (artmpOf s xs) = specC s hsig pc xs := by
  unfold newC specC artmpOf
  apply tab2_congr
  intro a b
  simp only [specY]
  real_bridge
  rw [mul_div_assoc, Finset.sum_div]
  have : ∀ i : Fin s.par.mu,
      vget s.par.weights i.val * (mget xs i.val a.val - vget s.centroid a.val) * (mget xs i.val b.val - vget s.centroid b.val) / s.sigma ^ 2
      = vget s.par.weights i.val * ((mget xs i.val a.val - vget s.centroid a.val) / s.sigma * ((mget xs i.val b.val - vget s.centroid b.val) / s.sigma)) := by
    intro i; ring
  simp only [this]
  ring

theorem newSigma_eq_spec (s : State ℝ) (ps : List ℝ) : newSigma s ps = specSigma s ps := by
  unfold newSigma specSigma
  real_bridge
  congr 2
  ring

theorem updateCore_eq_spec (s : State ℝ) (xs : List (List ℝ)) (hσ : s.sigma ≠ 0) (hchi : 0 < s.chiN)
    (hw : ∑ i : Fin s.par.mu, vget s.par.weights i.val = 1) :
    updateCore s xs = updateSpec s xs := by
  have hcd := cdiff_eq_sigma_yw s xs hσ hw
  unfold updateCore updateSpec
  simp only [newPs_eq_spec s _ _ hσ hcd, newPc_eq_spec s _ _ _ hσ hcd, hsig_eq_spec s _ hchi, newC_eq_spec,
    newSigma_eq_spec]
  rfl

end C13L
