/-
C03 composed: the caller's list object (`population[:] = …`) and the ask/tell protocol of `eaGenerateUpdate`.
-/
import DeapModel.Lemmas.C03Compose

set_option linter.unusedSectionVars false
set_option linter.unusedSimpArgs false
set_option linter.unusedVariables false

namespace LoopsC
open Variation Loops Archive C08L

/-! ### `population[:] = …` -/

/-- One generation that stores the next population with a slice assignment: the variable `population` still
refers to the same list object, that object now holds the new population, and no other list object that
existed has been written. -/
theorem cgeneration_slice {σ : Type} {ev : List Int → List Int} {stp : Step σ} {g : Nat} {t t' : σ}
    {c c' : CState} (hlt : c.popRef < c.nextL) (h : cgeneration ev stp .slice g t c = some (t', c')) :
    c'.popRef = c.popRef ∧ c'.lists c.popRef = c'.ls.pop ∧ c.nextL ≤ c'.nextL ∧
    ∀ i, i < c.nextL → i ≠ c.popRef → c'.lists i = c.lists i := by
  obtain ⟨ls', c1, hg, hu, rfl⟩ := cgeneration_unfold h
  obtain ⟨_, _, _, hlists, hnextL, hpopRef, _⟩ := hofUpdate_spec hu
  refine ⟨hpopRef, ?_, ?_, ?_⟩
  · show (if c.popRef = c1.popRef then c1.ls.pop else _) = c1.ls.pop
    rw [hpopRef]; simp
  · show c.nextL ≤ c1.nextL + 1
    omega
  · intro i hi hne
    show (if i = c1.popRef then c1.ls.pop else if i = c1.nextL then c1.ls.pop else c1.lists i) = c.lists i
    rw [hpopRef, hnextL, hlists, if_neg hne, if_neg (by omega)]

/-- … whereas a plain assignment `population = …` leaves the caller's list object as it was and makes the
variable refer to another object. -/
theorem cgeneration_rebind {σ : Type} {ev : List Int → List Int} {stp : Step σ} {g : Nat} {t t' : σ}
    {c c' : CState} (hlt : c.popRef < c.nextL) (h : cgeneration ev stp .rebind g t c = some (t', c')) :
    c'.popRef ≠ c.popRef ∧ c'.lists c.popRef = c.lists c.popRef := by
  obtain ⟨ls', c1, hg, hu, rfl⟩ := cgeneration_unfold h
  obtain ⟨_, _, _, hlists, hnextL, hpopRef, _⟩ := hofUpdate_spec hu
  refine ⟨?_, ?_⟩
  · show c1.nextL ≠ c.popRef
    omega
  · show (if c.popRef = c1.nextL then c1.ls.pop else c1.lists c.popRef) = c.lists c.popRef
    rw [hnextL, hlists, if_neg (by omega)]

theorem crunGens_inPlace {σ : Type} {ev : List Int → List Int} :
    ∀ (steps : List (Step σ)) (g : Nat) (t t' : σ) (c c' : CState), c.popRef < c.nextL →
      crunGens ev (inPlace steps) g t c = some (t', c') →
      c'.popRef = c.popRef ∧ c.nextL ≤ c'.nextL ∧ ∀ i, i < c.nextL → i ≠ c.popRef → c'.lists i = c.lists i
  | [], g, t, t', c, c', _, h => by
    simp only [inPlace, List.map_nil, crunGens, Option.some.injEq, Prod.mk.injEq] at h
    obtain ⟨_, rfl⟩ := h
    exact ⟨rfl, Nat.le_refl _, fun _ _ _ => rfl⟩
  | stp :: rest, g, t, t', c, c', hlt, h => by
    simp only [inPlace, List.map_cons, crunGens] at h
    split at h
    · simp at h
    next t1 c1 hgen =>
      obtain ⟨hp, _, hn, hf⟩ := cgeneration_slice hlt hgen
      obtain ⟨hp2, hn2, hf2⟩ := crunGens_inPlace rest (g + 1) t1 t' c1 c' (by omega) h
      refine ⟨by rw [hp2, hp], by omega, ?_⟩
      intro i hi hne
      have hne1 : i ≠ c1.popRef := by rw [hp]; exact hne
      rw [hf2 i (by omega) hne1, hf i hi hne]

/-! ### eaGenerateUpdate: the statement-by-statement generation is the generic one plus the protocol ghost -/

theorem hofUpdate_ls_congr (c : CState) (a b : LState) (h : a.shownObj = b.shownObj) :
    hofUpdate c b = (hofUpdate c a).map (fun c1 => { c1 with ls := b }) := by
  simp only [hofUpdate, newShown, h]
  split <;> rfl

theorem guGeneration_eq {σ : Type} (ev : List Int → List Int) (objs : List (Nat × Obj)) (order : List Nat)
    (g : Nat) (t : σ) (c : CState) :
    guGeneration ev objs order g t c =
      (cgeneration ev (guStep objs order) .rebind g t c).map (fun x =>
        (x.1, { x.2 with strat := ((c.strat.ask g (objs.map (·.1))).tell g
          ((objs.map (·.1)).map (fun o => (o, x.2.ls.st.heap o)))) })) := by
  simp only [guGeneration, cgeneration, generation, guStep]
  by_cases hnd : (objs.map (·.1)).Nodup
  · simp only [hnd, decide_true, ↓reduceIte]
    generalize evalPhase ev true g { c.ls with st := writeAll c.ls.st objs } (objs.map (·.1)) = e
    by_cases hperm : isPerm order (objs.map (·.1)).length = true
    · simp only [hperm, ↓reduceIte]
      cases hpick : pickAll (objs.map (·.1)) order with
      | none =>
        simp only [Option.map_none]
        split <;> rfl
      | some np =>
        simp only []
        have hcg := hofUpdate_ls_congr c e.1 { e.1 with pop := np, log := e.1.log ++ [(g, e.2)] } rfl
        rw [hcg]
        cases hofUpdate c e.1 with
        | none => rfl
        | some c1 => rfl
    · simp only [hperm, Bool.false_eq_true, ↓reduceIte, Option.map_none]
      split <;> rfl
  · simp [hnd]

theorem guGeneration_unfold {σ : Type} {ev : List Int → List Int} {objs : List (Nat × Obj)} {order : List Nat}
    {g : Nat} {t t' : σ} {c c' : CState} (h : guGeneration ev objs order g t c = some (t', c')) :
    ∃ c2, cgeneration ev (guStep objs order) .rebind g t c = some (t', c2) ∧
      c'.ls = c2.ls ∧ c'.hof = c2.hof ∧ c'.hist = c2.hist ∧ c'.lists = c2.lists ∧ c'.nextL = c2.nextL ∧
      c'.popRef = c2.popRef ∧
      c'.strat = (c.strat.ask g (objs.map (·.1))).tell g ((objs.map (·.1)).map (fun o => (o, c2.ls.st.heap o))) := by
  rw [guGeneration_eq] at h
  cases hc : cgeneration ev (guStep objs order) .rebind g t c with
  | none => rw [hc] at h; simp at h
  | some x =>
    rw [hc] at h
    simp only [Option.map_some, Option.some.injEq, Prod.mk.injEq] at h
    obtain ⟨rfl, rfl⟩ := h
    exact ⟨x.2, rfl, rfl, rfl, rfl, rfl, rfl, rfl, rfl⟩

theorem guGeneration_inv {σ : Type} {ev : List Int → List Int} {objs : List (Nat × Obj)} {order : List Nat}
    {m base g : Nat} {t t' : σ} {c c' : CState} (hi : CInv ev m base g c)
    (h : guGeneration ev objs order g t c = some (t', c')) : CInv ev m base (g + 1) c' := by
  obtain ⟨c2, hc, hls, hhof, hhist, hlists, hnextL, hpopRef, _⟩ := guGeneration_unfold h
  have h2 := cgeneration_inv (guStep_contract objs order) hi hc
  exact ⟨by rw [hls]; exact h2.inv, by rw [hls]; exact h2.shownOk, by rw [hhist, hhof]; exact h2.hofRun,
    by rw [hhist, hls]; exact h2.flat, by rw [hls]; exact h2.popCur, by rw [hpopRef, hnextL]; exact h2.refLt,
    by rw [hlists, hpopRef, hls]; exact h2.listPop⟩

/-- what one `toolbox.update` call received is what the preceding `toolbox.generate` handed out, evaluated,
each individual exactly once -/
structure TellOk (ev : List Int → List Int) (ls : LState) (x : Nat × Option (List Nat) × List (Nat × Obj)) :
    Prop where
  /-- the strategy was waiting for exactly these objects, in this order -/
  pending : x.2.1 = some (x.2.2.map (·.1))
  /-- every one carries the fitness `evaluate` gives for the genotype it has -/
  evaluated : ∀ e ∈ x.2.2, e.2.fit = some (ev e.2.genome)
  /-- the `evaluate` calls of that generation are exactly these individuals, in order -/
  once : ls.evals.filter (fun e => e.1 == x.1) = (x.2.2.map (·.1)).map (fun o => (x.1, o))
  /-- … pairwise different objects: each is evaluated once -/
  nodup : (x.2.2.map (·.1)).Nodup

/-- protocol invariant at the boundary before generation `g` -/
structure ProtoInv (ev : List Int → List Int) (g : Nat) (c : CState) : Prop where
  idle : c.strat.pending = none
  tellsOk : ∀ x ∈ c.strat.tells, TellOk ev c.ls x
  tellsGen : c.strat.tells.map (·.1) = List.range g
  asks : c.strat.asks = c.strat.tells.map (fun x => (x.1, x.2.2.map (·.1)))

theorem filter_gen_append_other (evals : List (Nat × Nat)) (l : List Nat) (g g' : Nat) (hne : g ≠ g') :
    (evals ++ l.map (fun o => (g, o))).filter (fun e => e.1 == g') = evals.filter (fun e => e.1 == g') := by
  rw [List.filter_append]
  have : (l.map (fun o => (g, o))).filter (fun e => e.1 == g') = [] := by
    rw [List.filter_eq_nil_iff]
    intro x hx
    obtain ⟨o, _, rfl⟩ := List.mem_map.1 hx
    simpa using hne
  rw [this, List.append_nil]

theorem filter_gen_append_same (evals : List (Nat × Nat)) (l : List Nat) (g : Nat)
    (hlt : ∀ e ∈ evals, e.1 < g) :
    (evals ++ l.map (fun o => (g, o))).filter (fun e => e.1 == g) = l.map (fun o => (g, o)) := by
  rw [List.filter_append]
  have h1 : evals.filter (fun e => e.1 == g) = [] := by
    rw [List.filter_eq_nil_iff]
    intro x hx
    have := hlt x hx
    simp; omega
  have h2 : (l.map (fun o => (g, o))).filter (fun e => e.1 == g) = l.map (fun o => (g, o)) := by
    rw [List.filter_eq_self]
    intro x hx
    obtain ⟨o, _, rfl⟩ := List.mem_map.1 hx
    simp
  rw [h1, h2, List.nil_append]

theorem guGeneration_proto {σ : Type} {ev : List Int → List Int} {objs : List (Nat × Obj)} {order : List Nat}
    {m base g : Nat} {t t' : σ} {c c' : CState} (hi : CInv ev m base g c) (hp : ProtoInv ev g c)
    (h : guGeneration ev objs order g t c = some (t', c')) : ProtoInv ev (g + 1) c' := by
  obtain ⟨c2, hc, hls, _, _, _, _, _, hstrat⟩ := guGeneration_unfold h
  obtain ⟨ls', c1, hg, hu, rfl⟩ := cgeneration_unfold hc
  have hls2 : c'.ls = ls' := by rw [hls, (assignPop_ls _ c1).1, (hofUpdate_spec hu).1]
  obtain ⟨r, np, hr, hnp, _, hpop, hheap, hnext, hevals, hlog, hshown⟩ := generation_unfold hg
  obtain ⟨hnd, hst, hoff⟩ := gu_produce hr
  have hes : evalSet (guStep (σ := σ) objs order) r = objs.map (·.1) := by
    simp [evalSet, guStep, hoff]
  rw [hes] at hevals hheap
  have hheap2 : (assignPop Assign.rebind c1).ls.st.heap = ls'.st.heap := by
    rw [(assignPop_ls _ c1).1, (hofUpdate_spec hu).1]
  have hstrat' : c'.strat = (c.strat.ask g (objs.map (·.1))).tell g
      ((objs.map (·.1)).map (fun o => (o, ls'.st.heap o))) := by
    rw [hstrat, hheap2]
  have htells : c'.strat.tells = c.strat.tells ++
      [(g, some (objs.map (·.1)), (objs.map (·.1)).map (fun o => (o, ls'.st.heap o)))] := by
    rw [hstrat']; rfl
  have hmapfst : ((objs.map (·.1)).map (fun o => (o, ls'.st.heap o))).map (·.1) = objs.map (·.1) := by
    rw [List.map_map]; exact List.map_id'' (fun _ => rfl) _
  refine ⟨by rw [hstrat']; rfl, ?_, ?_, ?_⟩
  · intro x hx
    rw [htells] at hx
    rw [hls2]
    rcases List.mem_append.1 hx with h1 | h1
    · have hold := hp.tellsOk x h1
      have hxg : x.1 < g := by
        have : x.1 ∈ c.strat.tells.map (·.1) := List.mem_map.2 ⟨x, h1, rfl⟩
        rw [hp.tellsGen] at this
        exact List.mem_range.1 this
      refine ⟨hold.pending, hold.evaluated, ?_, hold.nodup⟩
      rw [hevals, filter_gen_append_other _ _ _ _ (by omega)]
      exact hold.once
    · simp only [List.mem_singleton] at h1
      subst h1
      refine ⟨by simp only [hmapfst], ?_, ?_, by simp only [hmapfst]; exact hnd⟩
      · intro e he
        obtain ⟨o, ho, rfl⟩ := List.mem_map.1 he
        show (ls'.st.heap o).fit = some (ev (ls'.st.heap o).genome)
        rw [hheap, assignFits_mem _ _ _ _ ho, assignFits_genome]
      · simp only [hmapfst]
        rw [hevals]
        exact filter_gen_append_same _ _ _ hi.inv.evalsLt
  · rw [htells, List.map_append, hp.tellsGen, List.range_succ]; rfl
  · rw [htells, List.map_append, ← hp.asks, hstrat']
    simp only [List.map_cons, List.map_nil, hmapfst]
    rfl

theorem crunGU_inv {σ : Type} {ev : List Int → List Int} {m base : Nat} :
    ∀ (gens : List (List (Nat × Obj) × List Nat)) (g : Nat) (t t' : σ) (c c' : CState),
      CInv ev m base g c → ProtoInv ev g c → crunGU ev gens g t c = some (t', c') →
      CInv ev m base (g + gens.length) c' ∧ ProtoInv ev (g + gens.length) c'
  | [], g, t, t', c, c', hi, hp, h => by
    simp only [crunGU, Option.some.injEq, Prod.mk.injEq] at h
    obtain ⟨_, rfl⟩ := h
    exact ⟨by simpa using hi, by simpa using hp⟩
  | x :: rest, g, t, t', c, c', hi, hp, h => by
    simp only [crunGU] at h
    split at h
    · simp at h
    next t1 c1 hgen =>
      have h1 := guGeneration_inv hi hgen
      have h2 := guGeneration_proto hi hp hgen
      have := crunGU_inv rest (g + 1) t1 t' c1 c' h1 h2 h
      simpa [Nat.add_assoc, Nat.add_comm 1] using this

/-- the state `eaGenerateUpdate` starts from satisfies both invariants -/
theorem initState_inv (ev : List Int → List Int) (st : St) (m base : Nat) :
    CInv ev m base 0 (initState st [] m base) ∧ ProtoInv ev 0 (initState st [] m base) := by
  refine ⟨⟨?_, ⟨by simp [initState], rfl⟩, rfl, rfl, by intro p hp; simp [initState] at hp, by simp [initState],
    by simp [initState]⟩, ⟨rfl, by simp [initState], rfl, rfl⟩⟩
  exact ⟨by simp [initState], by simp [initState], by simp [initState], by simp [initState], by simp [initState],
    by simp [initState], by simp [initState], by simp [initState]⟩

end LoopsC
