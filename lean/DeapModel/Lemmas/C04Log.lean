/-
C04 lemmas, part 4: what is proved about the model of `sortLogNondominated` in general:
the helpers never remove a key of the `front` dictionary, hence every distinct fitness lands in
exactly one front (the fronts partition the population, equal fitnesses share a front), and the
truncation loop returns the leading fronts needed to reach `k`.
-/
import DeapModel.Lemmas.C04Dict

set_option linter.unusedSectionVars false
set_option linter.unusedSimpArgs false
set_option linter.unusedVariables false

namespace C04L
open NDSort

variable {α : Type} [LinearOrder α] [Add α] [Neg α] [Inhabited α]

/-- the second dictionary has all keys of the first -/
def Ext (a b : FrontDict α) : Prop := ∀ f ∈ dkeys a, f ∈ dkeys b

theorem Ext.refl (a : FrontDict α) : Ext a a := fun _ h => h
theorem Ext.trans {a b c : FrontDict α} (h1 : Ext a b) (h2 : Ext b c) : Ext a c := fun f h => h2 f (h1 f h)

theorem ext_bump (front : FrontDict α) (a b : List α) : Ext front (bump front a b) := by
  intro f hf; rw [bump, mem_dkeys_dset]; exact Or.inr hf

theorem ext_foldl {γ : Type} (step : FrontDict α → γ → FrontDict α)
    (h : ∀ fr x, Ext fr (step fr x)) : ∀ (l : List γ) (fr : FrontDict α), Ext fr (l.foldl step fr)
  | [], fr => Ext.refl fr
  | x :: l, fr => (h fr x).trans (ext_foldl step h l _)

theorem ext_sweepAStep (st : Stairs α × FrontDict α) (fit : List α) : Ext st.2 (sweepAStep st fit).2 := by
  obtain ⟨s, front⟩ := st
  simp only [sweepAStep]
  split
  · split
    · exact ext_bump _ _ _
    · exact Ext.refl _
  · exact Ext.refl _

theorem ext_sweepA (fits : List (List α)) (front : FrontDict α) : Ext front (sweepA fits front) := by
  cases fits with
  | nil => exact Ext.refl _
  | cons f0 rest =>
    simp only [sweepA]
    generalize ({ stairs := [-(nth f0 1)], fstairs := [f0] } : Stairs α) = s0
    induction rest generalizing s0 front with
    | nil => exact Ext.refl _
    | cons x rest ih =>
      simp only [List.foldl_cons]
      have h1 := ext_sweepAStep (s0, front) x
      have h2 := ih (s0 := (sweepAStep (s0, front) x).1) (front := (sweepAStep (s0, front) x).2)
      exact h1.trans h2

theorem ext_sweepB (best worst : List (List α)) (front : FrontDict α) : Ext front (sweepB best worst front) := by
  simp only [sweepB]
  generalize (({ stairs := [], fstairs := [] } : Stairs α), best) = sb
  induction worst generalizing sb front with
  | nil => exact Ext.refl _
  | cons h worst ih =>
    simp only [List.foldl_cons]
    refine Ext.trans ?_ (ih _ _)
    obtain ⟨s, bs⟩ := sb
    simp only []
    split
    · split
      · exact ext_bump _ _ _
      · exact Ext.refl _
    · exact Ext.refl _

theorem ext_helperBDirect (best worst : List (List α)) (obj : Nat) (front : FrontDict α) :
    Ext front (helperBDirect best worst obj front) := by
  simp only [helperBDirect]
  apply ext_foldl
  intro fr hi
  apply ext_foldl
  intro fr li
  split
  · exact ext_bump _ _ _
  · exact Ext.refl _

theorem ext_helperB (best worst : List (List α)) (obj : Nat) (front : FrontDict α) :
    ∀ front', helperB best worst obj front = some front' → Ext front front' := by
  fun_induction helperB best worst obj front
  case case1 => intro f h; cases h; exact Ext.refl _
  case case2 => intro f h; cases h; exact ext_helperBDirect _ _ _ _
  case case3 => intro f h; cases h; exact ext_sweepB _ _ _
  case case4 => intro f h; cases h
  case case5 ih => exact ih
  case case6 ih3 ih2 ih1 =>
    intro f h
    simp only [Option.bind_eq_some_iff] at h
    obtain ⟨f1, h1, f2, h2, h3⟩ := h
    exact ((ih3 f1 h1).trans (ih2 f1 f2 h2)).trans (ih1 f2 f h3)
  case case7 => intro f h; cases h
  case case8 => intro f h; cases h; exact Ext.refl _

theorem ext_helperA (fits : List (List α)) (obj : Nat) (front : FrontDict α) :
    ∀ front', helperA fits obj front = some front' → Ext front front' := by
  fun_induction helperA fits obj front
  case case1 => intro f h; cases h; exact Ext.refl _
  case case2 => intro f h; cases h; exact ext_bump _ _ _
  case case3 => intro f h; cases h; exact Ext.refl _
  case case4 => intro f h; cases h; exact ext_sweepA _ _
  case case5 => intro f h; cases h
  case case6 ih => exact ih
  case case7 ih2 ih1 =>
    intro f h
    simp only [Option.bind_eq_some_iff] at h
    obtain ⟨f1, h1, f2, h2, h3⟩ := h
    exact ((ih2 f1 h1).trans (ext_helperB _ _ _ _ f2 h2)).trans (ih1 f2 f h3)
  case case8 => intro f h; cases h

/-! ### the extraction of the fronts -/

theorem dget_le_foldl_max (front : FrontDict α) (f : List α) (hf : f ∈ dkeys front) :
    dget front 0 f ≤ (dvalues front).foldl max 0 := by
  have hmono : ∀ (l : List Nat) (a : Nat), a ≤ l.foldl max a := by
    intro l; induction l with
    | nil => intro a; exact Nat.le_refl a
    | cons x l ih => intro a; exact Nat.le_trans (Nat.le_max_left a x) (ih _)
  have gen : ∀ (d : FrontDict α) (a : Nat), f ∈ dkeys d → dget d 0 f ≤ (dvalues d).foldl max a := by
    intro d
    induction d with
    | nil => intro a h; simp [dkeys] at h
    | cons p r ih =>
      intro a h
      obtain ⟨k, v⟩ := p
      simp only [dget, dvalues, List.map_cons, List.foldl_cons]
      by_cases hk : k = f
      · simp only [hk, ↓reduceIte]
        exact Nat.le_trans (Nat.le_max_right a v) (hmono _ _)
      · simp only [hk, ↓reduceIte]
        apply ih
        simp only [dkeys, List.map_cons, List.mem_cons] at h
        rcases h with h | h
        · exact absurd h.symm hk
        · exact h
  exact gen front 0 hf

theorem flatten_modify_perm {γ : Type} (t : List γ) : ∀ (pf : List (List γ)) (i : Nat), i < pf.length →
    (pf.modify i (· ++ t)).flatten.Perm (pf.flatten ++ t)
  | [], i, h => by simp at h
  | p :: ps, 0, _ => by
    simp only [List.modify_zero_cons, List.flatten_cons, List.append_assoc]
    exact List.Perm.append_left p List.perm_append_comm
  | p :: ps, i + 1, h => by
    simp only [List.modify_succ_cons, List.flatten_cons, List.append_assoc]
    exact List.Perm.append_left p (flatten_modify_perm t ps i (by simpa using h))

theorem forall_mem_modify {γ : Type} (P : List γ → Prop) (g : List γ → List γ) (hg : ∀ F, P F → P (g F)) :
    ∀ (pf : List (List γ)) (i : Nat), (∀ F ∈ pf, P F) → ∀ F ∈ pf.modify i g, P F
  | [], i, _ => by simp
  | p :: ps, 0, h => by
    intro F hF
    simp only [List.modify_zero_cons, List.mem_cons] at hF
    rcases hF with rfl | hF
    · exact hg p (h p (by simp))
    · exact h F (by simp [hF])
  | p :: ps, i + 1, h => by
    intro F hF
    simp only [List.modify_succ_cons, List.mem_cons] at hF
    rcases hF with rfl | hF
    · exact h F (by simp)
    · exact forall_mem_modify P g hg ps i (fun G hG => h G (by simp [hG])) F hF

theorem logFronts_fold (front : FrontDict α) (uf : List (List α × List (Ind α)))
    (P : List (Ind α) → Prop) (hP : ∀ F f, P F → P (F ++ dget uf [] f)) :
    ∀ (fs : List (List α)) (pf : List (List (Ind α))),
      (∀ f ∈ fs, dget front 0 f < pf.length) → (∀ F ∈ pf, P F) →
      ((fs.foldl (fun pf fit => pf.modify (dget front 0 fit) (· ++ dget uf [] fit)) pf).flatten.Perm
        (pf.flatten ++ fs.flatMap (dget uf []))) ∧
      (∀ F ∈ fs.foldl (fun pf fit => pf.modify (dget front 0 fit) (· ++ dget uf [] fit)) pf, P F)
  | [], pf, _, hp => ⟨by simp, hp⟩
  | a :: fs, pf, hidx, hp => by
    simp only [List.foldl_cons, List.flatMap_cons]
    have hi := hidx a (by simp)
    obtain ⟨ih1, ih2⟩ := logFronts_fold front uf P hP fs (pf.modify (dget front 0 a) (· ++ dget uf [] a))
      (by intro f hf; rw [List.length_modify]; exact hidx f (by simp [hf]))
      (forall_mem_modify P _ (fun F hF => hP F a hF) pf _ hp)
    refine ⟨?_, ih2⟩
    refine ih1.trans ?_
    rw [← List.append_assoc]
    exact List.Perm.append_right _ (flatten_modify_perm _ pf _ hi)

/-- The fronts built by model B partition the population (as a permutation), whatever ranks the
helpers computed, and every front is closed under "same weighted values". -/
theorem logRanks_partition (pop : List (Ind α)) (fs : List (List α)) (front : FrontDict α)
    (uf : List (List α × List (Ind α))) (h : logRanks pop = some (fs, front, uf)) :
    (logFronts fs front uf).flatten.Perm pop ∧
    (∀ F ∈ logFronts fs front uf, ∀ x ∈ pop, ∀ y ∈ pop, x.w = y.w → (x ∈ F ↔ y ∈ F)) := by
  cases pop with
  | nil => simp [logRanks] at h
  | cons ind0 rest =>
    simp only [logRanks, Option.map_eq_some_iff, Prod.mk.injEq] at h
    obtain ⟨fr, hA, rfl, rfl, rfl⟩ := h
    have huf : (ind0 :: rest).foldl (fun d ind => dset d ind.w (dget d [] ind.w ++ [ind])) [] =
        mapFitInd (ind0 :: rest) := rfl
    rw [huf] at hA ⊢
    have hperm := List.mergeSort_perm (dkeys (mapFitInd (ind0 :: rest))) (fun a b => !Py.tupleLt a b)
    have hext := ext_helperA _ _ _ _ hA
    have hkeys : ∀ f ∈ (dkeys (mapFitInd (ind0 :: rest))).mergeSort (fun a b => !Py.tupleLt a b),
        f ∈ dkeys fr := by
      intro f hf
      apply hext
      have := hperm.mem_iff.1 hf
      simp only [dkeys, List.map_map]
      simpa [dkeys] using this
    have hP : ∀ (F : List (Ind α)) (f : List α),
        (∀ x ∈ ind0 :: rest, ∀ y ∈ ind0 :: rest, x.w = y.w → (x ∈ F ↔ y ∈ F)) →
        (∀ x ∈ ind0 :: rest, ∀ y ∈ ind0 :: rest, x.w = y.w →
          (x ∈ F ++ dget (mapFitInd (ind0 :: rest)) [] f ↔ y ∈ F ++ dget (mapFitInd (ind0 :: rest)) [] f)) := by
      intro F f hF x hx y hy hxy
      rw [mapFitInd_get]
      simp only [List.mem_append, List.mem_filter, decide_eq_true_eq, hF x hx y hy hxy, hx, hy, hxy, true_and]
    obtain ⟨p1, p2⟩ := logFronts_fold fr (mapFitInd (ind0 :: rest)) _ hP
      ((dkeys (mapFitInd (ind0 :: rest))).mergeSort (fun a b => !Py.tupleLt a b))
      (List.replicate ((dvalues fr).foldl max 0 + 1) [])
      (by
        intro f hf
        have := dget_le_foldl_max fr f (hkeys f hf)
        simp only [List.length_replicate]; omega)
      (by
        intro F hF
        rw [List.eq_of_mem_replicate hF]; simp)
    refine ⟨?_, p2⟩
    simp only [logFronts]
    refine p1.trans ?_
    have hz : (List.replicate ((dvalues fr).foldl max 0 + 1) ([] : List (Ind α))).flatten = [] := by
      simp
    rw [hz, List.nil_append]
    refine (hperm.flatMap_right _).trans ?_
    rw [grp_get_eq']
    refine (flatMap_group_perm _ _ (mapFitInd_nodup _)).trans ?_
    rw [List.filter_eq_self.2]
    intro x hx
    simpa using (mem_mapFitInd_keys _ x.w).2 ⟨x, hx, rfl⟩
where
  grp_get_eq' {pop : List (Ind α)} :
      dget (mapFitInd pop) [] = fun f => pop.filter (fun x => decide (x.w = f)) :=
    funext (mapFitInd_get pop)

/-- The truncation loop of `sortLogNondominated` returns the leading fronts needed to reach `k`. -/
theorem logTruncate_eq_leading (fronts : List (List (Ind α))) (k : Nat) (hk : k ≠ 0) :
    logTruncate fronts k = leading fronts k := by
  have gen : ∀ (fs : List (List (Ind α))) (count : Nat), count < k →
      logTruncate.go k fs count = leading fs (k - count) := by
    intro fs
    induction fs with
    | nil => intro c _; simp [logTruncate.go, leading]
    | cons f fs ih =>
      intro c hc
      rw [leading, if_neg (by omega), logTruncate.go]
      by_cases hge : c + f.length ≥ k
      · rw [if_pos hge]
        have : k - c - f.length = 0 := by omega
        rw [this, leading_zero]
      · rw [if_neg hge, ih (c + f.length) (by omega)]
        have : k - (c + f.length) = k - c - f.length := by omega
        rw [this]
  have := gen fronts 0 (by omega)
  simpa [logTruncate] using this

end C04L
