import DeapModel.Lemmas.C15Grid
import Mathlib.MeasureTheory.Measure.Lebesgue.Basic
/-!
C15 — the grid specification `hvCells` is the Lebesgue measure of the union of the boxes `[p, ref)`,
in every dimension.  Route: `hvCells` satisfies the inclusion–exclusion recursion (`hvCells_eq_hvIE`),
and so does the measure (`μ(A ∪ B) + μ(A ∩ B) = μ A + μ B`, `[p,ref) ∩ [q,ref) = [max p q, ref)`).
-/
open MeasureTheory

namespace Hypervolume

/-- coordinate `j` of a point as a real number (missing coordinates read as 0, as in the model) -/
noncomputable def coordR (p : Pt) (j : ℕ) : ℝ := ((p.getD j 0 : ℚ) : ℝ)

/-- the box `∏ⱼ [pⱼ, refⱼ)` in `ℝ^d`, `d = ref.length` -/
def box (ref : List ℚ) (p : Pt) : Set (Fin ref.length → ℝ) :=
  Set.pi Set.univ (fun j => Set.Ico (coordR p j) (coordR ref j))

/-- the union of the boxes of the points -/
def unionBoxes (ref : List ℚ) (S : List Pt) : Set (Fin ref.length → ℝ) := ⋃ p ∈ S, box ref p

theorem getD_succ_eq (p : Pt) (j : ℕ) : p.getD (j + 1) 0 = p.tail.getD j 0 := by
  cases p <;> simp

theorem getD_zero_eq (p : Pt) : p.getD 0 0 = p.headD 0 := by
  cases p <;> simp

theorem prod_boxVol : ∀ (ref : List ℚ) (p : Pt),
    (∏ j : Fin ref.length, ENNReal.ofReal (coordR ref j - coordR p j)) = ENNReal.ofReal ((boxVol ref p : ℚ) : ℝ)
  | [], p => by simp [boxVol]
  | r :: ref, p => by
    have ih := prod_boxVol ref p.tail
    show (∏ j : Fin (ref.length + 1), ENNReal.ofReal (coordR (r :: ref) j - coordR p j)) = _
    rw [Fin.prod_univ_succ]
    have h1 : ∀ j : Fin ref.length, coordR (r :: ref) (j.succ : ℕ) - coordR p (j.succ : ℕ)
        = coordR ref j - coordR p.tail j := by
      intro j
      simp only [coordR, Fin.val_succ, getD_succ_eq, List.tail_cons]
    simp only [h1, ih]
    simp only [coordR, Fin.val_zero, getD_zero_eq, List.headD_cons, boxVol]
    by_cases h : p.headD 0 < r
    · rw [if_pos h]
      push_cast
      rw [ENNReal.ofReal_mul]
      have : ((p.headD 0 : ℚ) : ℝ) < (r : ℝ) := by exact_mod_cast h
      linarith
    · rw [if_neg h, zero_mul]
      have : (r : ℝ) ≤ ((p.headD 0 : ℚ) : ℝ) := by exact_mod_cast not_lt.mp h
      rw [ENNReal.ofReal_of_nonpos (by linarith)]
      simp

theorem volume_box (ref : List ℚ) (p : Pt) : volume (box ref p) = ENNReal.ofReal ((boxVol ref p : ℚ) : ℝ) := by
  unfold box
  rw [Real.volume_pi_Ico, prod_boxVol]

theorem measurableSet_box (ref : List ℚ) (p : Pt) : MeasurableSet (box ref p) :=
  MeasurableSet.univ_pi (fun _ => measurableSet_Ico)

theorem getD_pmax : ∀ (ref : List ℚ) (p q : Pt) (j : ℕ), j < ref.length →
    (pmax ref p q).getD j 0 = max (p.getD j 0) (q.getD j 0)
  | [], _, _, _, h => by simp at h
  | r :: ref, p, q, 0, _ => by
    simp only [pmax, List.getD_cons_zero, getD_zero_eq]
    split
    · rename_i h; exact (max_eq_right h).symm
    · rename_i h; exact (max_eq_left (le_of_lt (not_le.mp h))).symm
  | r :: ref, p, q, j + 1, h => by
    simp only [pmax, List.getD_cons_succ, getD_succ_eq]
    exact getD_pmax ref p.tail q.tail j (by simpa using h)

theorem box_inter (ref : List ℚ) (p q : Pt) : box ref p ∩ box ref q = box ref (pmax ref p q) := by
  ext x
  simp only [box, Set.mem_inter_iff, Set.mem_pi, Set.mem_univ, forall_true_left, Set.mem_Ico]
  constructor
  · rintro ⟨h1, h2⟩ j
    refine ⟨?_, (h1 j).2⟩
    unfold coordR
    rw [getD_pmax ref p q j j.isLt]
    push_cast
    exact max_le (h1 j).1 (h2 j).1
  · intro h
    have key : ∀ j : Fin ref.length, coordR p j ≤ x j ∧ coordR q j ≤ x j := by
      intro j
      have := (h j).1
      unfold coordR at this ⊢
      rw [getD_pmax ref p q j j.isLt] at this
      push_cast at this
      exact max_le_iff.mp this
    exact ⟨fun j => ⟨(key j).1, (h j).2⟩, fun j => ⟨(key j).2, (h j).2⟩⟩

theorem unionBoxes_nil (ref : List ℚ) : unionBoxes ref [] = ∅ := by
  simp [unionBoxes]

theorem unionBoxes_cons (ref : List ℚ) (q : Pt) (S : List Pt) :
    unionBoxes ref (q :: S) = unionBoxes ref S ∪ box ref q := by
  ext x
  simp only [unionBoxes, List.mem_cons, Set.mem_iUnion, Set.mem_union, exists_prop]
  constructor
  · rintro ⟨p, rfl | hp, hx⟩
    · exact Or.inr hx
    · exact Or.inl ⟨p, hp, hx⟩
  · rintro (⟨p, hp, hx⟩ | hx)
    · exact ⟨p, Or.inr hp, hx⟩
    · exact ⟨q, Or.inl rfl, hx⟩

theorem unionBoxes_inter (ref : List ℚ) (q : Pt) (S : List Pt) :
    unionBoxes ref S ∩ box ref q = unionBoxes ref (S.map (fun p => pmax ref p q)) := by
  ext x
  simp only [unionBoxes, Set.mem_inter_iff, Set.mem_iUnion, exists_prop, List.mem_map]
  constructor
  · rintro ⟨⟨p, hp, hx⟩, hq⟩
    refine ⟨_, ⟨p, hp, rfl⟩, ?_⟩
    rw [← box_inter]; exact ⟨hx, hq⟩
  · rintro ⟨_, ⟨p, hp, rfl⟩, hx⟩
    rw [← box_inter] at hx
    exact ⟨⟨p, hp, hx.1⟩, hx.2⟩

/-- The Lebesgue measure of the union of the boxes is the inclusion–exclusion value, hence `hvCells`. -/
theorem volume_unionBoxes (ref : List ℚ) : ∀ (n : ℕ) (S : List Pt), S.length ≤ n →
    volume (unionBoxes ref S) = ENNReal.ofReal ((hvCells ref S : ℚ) : ℝ) := by
  intro n
  induction n with
  | zero =>
    intro S h
    have : S = [] := List.length_eq_zero_iff.mp (Nat.le_zero.mp h)
    subst this
    simp [unionBoxes_nil, hvCells_nil_pts]
  | succ n ih =>
    intro S h
    cases S with
    | nil => simp [unionBoxes_nil, hvCells_nil_pts]
    | cons q S =>
      have h' : S.length ≤ n := by simpa using h
      have e := measure_union_add_inter (μ := volume) (unionBoxes ref S) (measurableSet_box ref q)
      have e1 := ih S h'
      have e2 := ih (S.map (fun p => pmax ref p q)) (by simpa using h')
      rw [unionBoxes_inter, ← unionBoxes_cons, e1, e2, volume_box] at e
      have hx : (0 : ℝ) ≤ ((hvCells ref (q :: S) : ℚ) : ℝ) := by exact_mod_cast hvCells_nonneg ref (q :: S)
      have ha : (0 : ℝ) ≤ ((hvCells ref S : ℚ) : ℝ) := by exact_mod_cast hvCells_nonneg ref S
      have hc : (0 : ℝ) ≤ ((hvCells ref (S.map (fun p => pmax ref p q)) : ℚ) : ℝ) := by
        exact_mod_cast hvCells_nonneg ref _
      have hb : (0 : ℝ) ≤ ((boxVol ref q : ℚ) : ℝ) := by
        rw [← hvCells_single]; exact_mod_cast hvCells_nonneg ref [q]
      have hie : ((hvCells ref S : ℚ) : ℝ) + ((boxVol ref q : ℚ) : ℝ)
          = ((hvCells ref (q :: S) : ℚ) : ℝ) + ((hvCells ref (S.map (fun p => pmax ref p q)) : ℚ) : ℝ) := by
        rw [hvCells_ie ref q S]; push_cast; ring
      rw [← ENNReal.ofReal_add ha hb, hie, ENNReal.ofReal_add hx hc] at e
      exact (ENNReal.add_left_inj ENNReal.ofReal_ne_top).mp e

end Hypervolume
