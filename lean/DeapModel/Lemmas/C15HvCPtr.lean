import DeapModel.Core.HvC
import DeapModel.Lemmas.C15SweepPtr
import DeapModel.Lemmas.C15Sweep2d
/-!
C15 — pointer-level lemmas about the transcription `Core/HvC.lean` of `_hv.c`: the multi-list built by
`setup_cdllist`, and what `filter` leaves of it.  The list lemmas of `C15SweepPtr` (about the pyhv transcription)
are reused through the projection `toSw` of the `next` / `prev` tables.
-/
namespace HvC
set_option linter.unusedVariables false

open HvSweep (Shape DL Seg Link DimEq)

/-- the `next` / `prev` tables seen as a state of the pyhv transcription (for the list lemmas) -/
def toSw (S : St) : HvSweep.St :=
  { next := S.next, prev := S.prev, ignore := [], area := [], volume := [], bounds := [], calls := [] }

@[simp] theorem nx_toSw (S : St) (i a : ℕ) : HvSweep.nx (toSw S) i a = nx S i a := rfl
@[simp] theorem pv_toSw (S : St) (i a : ℕ) : HvSweep.pv (toSw S) i a = pv S i a := rfl
theorem toSw_setNx (S : St) (i a v : ℕ) : toSw (setNx S i a v) = HvSweep.setNx (toSw S) i a v := rfl
theorem toSw_setPv (S : St) (i a v : ℕ) : toSw (setPv S i a v) = HvSweep.setPv (toSw S) i a v := rfl

theorem cg_eq (C : Cargo) (a i : ℕ) : cg C a i = HvSweep.cg C a i := rfl

/-- the pointer tables have `d` rows for the ids `0..n` -/
def ShapeC (d n : ℕ) (S : St) : Prop := Shape d n (toSw S)
/-- the list of dimension `i` is the circular doubly linked list `head, L…, head` -/
def DLc (n : ℕ) (S : St) (i : ℕ) (L : List ℕ) : Prop := DL n (toSw S) i L

/-- everything but the pointers -/
def SameData (S T : St) : Prop :=
  T.ignore = S.ignore ∧ T.area = S.area ∧ T.vol = S.vol ∧ T.bound = S.bound ∧ T.domr = S.domr ∧ T.tree = S.tree
    ∧ T.calls = S.calls

theorem SameData.refl (S : St) : SameData S S := ⟨rfl, rfl, rfl, rfl, rfl, rfl, rfl⟩
theorem SameData.trans {S T U : St} (h₁ : SameData S T) (h₂ : SameData T U) : SameData S U := by
  obtain ⟨a1, a2, a3, a4, a5, a6, a7⟩ := h₁
  obtain ⟨b1, b2, b3, b4, b5, b6, b7⟩ := h₂
  exact ⟨b1.trans a1, b2.trans a2, b3.trans a3, b4.trans a4, b5.trans a5, b6.trans a6, b7.trans a7⟩
theorem sameData_setNx (S : St) (i a v : ℕ) : SameData S (setNx S i a v) := ⟨rfl, rfl, rfl, rfl, rfl, rfl, rfl⟩
theorem sameData_setPv (S : St) (i a v : ℕ) : SameData S (setPv S i a v) := ⟨rfl, rfl, rfl, rfl, rfl, rfl, rfl⟩

/-! ### `setup_cdllist` -/

theorem shapeC_initSt (d n : ℕ) : ShapeC d n (initSt d n) :=
  ⟨HvSweep.shaped_replicate d (n + 1) 0, HvSweep.shaped_replicate d (n + 1) 0⟩

theorem shapeC_setNx {d n : ℕ} {S : St} (h : ShapeC d n S) (i a v : ℕ) : ShapeC d n (setNx S i a v) :=
  HvSweep.shape_setNx h i a v
theorem shapeC_setPv {d n : ℕ} {S : St} (h : ShapeC d n S) (i a v : ℕ) : ShapeC d n (setPv S i a v) :=
  HvSweep.shape_setPv h i a v

theorem nx_setNx_self {d n : ℕ} {S : St} (h : ShapeC d n S) {i a : ℕ} (hi : i < d) (ha : a ≤ n) (v : ℕ) :
    nx (setNx S i a v) i a = v := HvSweep.nx_setNx_self h hi ha v
theorem nx_setNx_ne (S : St) (i a j b v : ℕ) (h : j ≠ i ∨ b ≠ a) : nx (setNx S i a v) j b = nx S j b :=
  HvSweep.nx_setNx_ne (toSw S) i a j b v h
theorem pv_setPv_self {d n : ℕ} {S : St} (h : ShapeC d n S) {i a : ℕ} (hi : i < d) (ha : a ≤ n) (v : ℕ) :
    pv (setPv S i a v) i a = v := HvSweep.pv_setPv_self h hi ha v
theorem pv_setPv_ne (S : St) (i a j b v : ℕ) (h : j ≠ i ∨ b ≠ a) : pv (setPv S i a v) j b = pv S j b :=
  HvSweep.pv_setPv_ne (toSw S) i a j b v h
@[simp] theorem nx_setPv (S : St) (i a v j b : ℕ) : nx (setPv S i a v) j b = nx S j b := rfl
@[simp] theorem pv_setNx (S : St) (i a v j b : ℕ) : pv (setNx S i a v) j b = pv S j b := rfl

theorem shapeC_linkFrom {d n : ℕ} (j : ℕ) : ∀ (rest : List ℕ) (p : ℕ) (S : St), ShapeC d n S → ShapeC d n (linkFrom j p rest S)
  | [], p, S, h => shapeC_setPv (shapeC_setNx h _ _ _) _ _ _
  | a :: rest, p, S, h => shapeC_linkFrom j rest a _ (shapeC_setPv (shapeC_setNx h _ _ _) _ _ _)

theorem sameData_linkFrom (j : ℕ) : ∀ (rest : List ℕ) (p : ℕ) (S : St), SameData S (linkFrom j p rest S)
  | [], p, S => (sameData_setNx S j p 0).trans (sameData_setPv _ j 0 p)
  | a :: rest, p, S =>
    ((sameData_setNx S j p a).trans (sameData_setPv _ j a p)).trans (sameData_linkFrom j rest a _)

/-- `linkFrom` writes `next[j]` only at `p :: rest` and `prev[j]` only at `rest ++ [0]` -/
theorem nx_linkFrom_frame (j : ℕ) : ∀ (rest : List ℕ) (p : ℕ) (S : St) (j' u : ℕ), (j' ≠ j ∨ u ∉ p :: rest) →
    nx (linkFrom j p rest S) j' u = nx S j' u
  | [], p, S, j', u, h => by
    simp only [linkFrom, nx_setPv]
    apply nx_setNx_ne
    rcases h with h | h
    · exact Or.inl h
    · exact Or.inr (fun e => h (by simp [e]))
  | a :: rest, p, S, j', u, h => by
    simp only [linkFrom]
    rw [nx_linkFrom_frame j rest a _ j' u (by
      rcases h with h | h
      · exact Or.inl h
      · exact Or.inr (fun hm => h (List.mem_cons_of_mem _ hm)))]
    rw [nx_setPv]
    apply nx_setNx_ne
    rcases h with h | h
    · exact Or.inl h
    · exact Or.inr (fun e => h (by simp [e]))

theorem pv_linkFrom_frame (j : ℕ) : ∀ (rest : List ℕ) (p : ℕ) (S : St) (j' v : ℕ), (j' ≠ j ∨ v ∉ rest ++ [0]) →
    pv (linkFrom j p rest S) j' v = pv S j' v
  | [], p, S, j', v, h => by
    simp only [linkFrom]
    rw [pv_setPv_ne _ _ _ _ _ _ (by
      rcases h with h | h
      · exact Or.inl h
      · exact Or.inr (fun e => h (by simp [e]))), pv_setNx]
  | a :: rest, p, S, j', v, h => by
    simp only [linkFrom]
    rw [pv_linkFrom_frame j rest a _ j' v (by
      rcases h with h | h
      · exact Or.inl h
      · exact Or.inr (fun hm => h (by simp only [List.cons_append]; exact List.mem_cons_of_mem _ hm)))]
    rw [pv_setPv_ne _ _ _ _ _ _ (by
      rcases h with h | h
      · exact Or.inl h
      · exact Or.inr (fun e => h (by simp [e]))), pv_setNx]

/-- `linkFrom` threads `p, rest…, head` -/
theorem seg_linkFrom {d n : ℕ} {j : ℕ} (hj : j < d) : ∀ (rest : List ℕ) (p : ℕ) (S : St), ShapeC d n S →
    (p :: rest).Nodup → 0 ∉ rest → (∀ a ∈ p :: rest, a ≤ n) →
    Seg (toSw (linkFrom j p rest S)) j p rest 0
  | [], p, S, hS, _, _, hn => by
    simp only [linkFrom]
    refine ⟨?_, ?_⟩
    · show nx (setPv (setNx S j p 0) j 0 p) j p = 0
      rw [nx_setPv]; exact nx_setNx_self hS hj (hn p (by simp)) 0
    · show pv (setPv (setNx S j p 0) j 0 p) j 0 = p
      exact pv_setPv_self (shapeC_setNx hS _ _ _) hj (Nat.zero_le _) p
  | a :: rest, p, S, hS, hnd, h0, hn => by
    simp only [linkFrom]
    have hnd' := List.nodup_cons.mp hnd
    have hnd'' := List.nodup_cons.mp hnd'.2
    set S1 := setPv (setNx S j p a) j a p with hS1
    have hS1s : ShapeC d n S1 := shapeC_setPv (shapeC_setNx hS _ _ _) _ _ _
    have ih := seg_linkFrom hj rest a S1 hS1s hnd'.2 (fun hm => h0 (List.mem_cons_of_mem _ hm))
      (fun x hx => hn x (List.mem_cons_of_mem _ hx))
    refine ⟨⟨?_, ?_⟩, ih⟩
    · show nx (linkFrom j a rest S1) j p = a
      rw [nx_linkFrom_frame j rest a S1 j p (Or.inr hnd'.1), hS1, nx_setPv]
      exact nx_setNx_self hS hj (hn p (by simp)) a
    · show pv (linkFrom j a rest S1) j a = p
      have ha0 : a ≠ 0 := fun e => h0 (by simp [e])
      rw [pv_linkFrom_frame j rest a S1 j a (Or.inr (by
        intro hm
        rcases List.mem_append.mp hm with h | h
        · exact hnd''.1 h
        · simp at h; exact ha0 h)), hS1]
      exact pv_setPv_self (shapeC_setNx hS _ _ _) hj (hn a (by simp)) p

theorem dlc_linkFrom {d n : ℕ} {j : ℕ} (hj : j < d) (L : List ℕ) (S : St) (hS : ShapeC d n S)
    (hnd : L.Nodup) (hr : ∀ a ∈ L, 1 ≤ a ∧ a ≤ n) : DLc n (linkFrom j 0 L S) j L := by
  have h0 : 0 ∉ L := fun hm => by have := (hr 0 hm).1; omega
  refine ⟨seg_linkFrom hj L 0 S hS (List.nodup_cons.mpr ⟨h0, hnd⟩) h0 ?_, hnd, hr⟩
  intro a ha
  rcases List.mem_cons.mp ha with rfl | ha
  · exact Nat.zero_le _
  · exact (hr a ha).2

theorem qsortByDim_eq (C : Cargo) (nodes : List ℕ) (j : ℕ) : qsortByDim C nodes j = HvSweep.sortByDimension C nodes j := rfl

/-- the loop of `setup_cdllist`: dimension `j` of `js` gets the stable sort by coordinate `j` of the order of the
previous dimension (`HvSweep.cum`, the same bookkeeping as for pyhv's `preProcess`). -/
theorem setupLoop_spec (C : Cargo) {d n : ℕ} : ∀ (js : List ℕ) (S : St) (nodes : List ℕ),
    js.Nodup → (∀ j ∈ js, j < d) → ShapeC d n S → nodes.Nodup → (∀ x ∈ nodes, 1 ≤ x ∧ x ≤ n) →
    ShapeC d n (setupLoop C js nodes S) ∧ SameData S (setupLoop C js nodes S) ∧
      (∀ j L, (j, L) ∈ HvSweep.cum C js nodes → DLc n (setupLoop C js nodes S) j L)
  | [], S, nodes, _, _, hS, _, _ => ⟨hS, SameData.refl S, by simp [HvSweep.cum]⟩
  | j :: js, S, nodes, hnd, hlt, hS, hn, hr => by
    have hnd' := List.nodup_cons.mp hnd
    have hperm := HvSweep.sortByDimension_perm C nodes j
    have hn' : (HvSweep.sortByDimension C nodes j).Nodup := hperm.nodup_iff.mpr hn
    have hr' : ∀ x ∈ HvSweep.sortByDimension C nodes j, 1 ≤ x ∧ x ≤ n := fun x hx => hr x (hperm.mem_iff.mp hx)
    have hd1 := dlc_linkFrom (hlt j (by simp)) (HvSweep.sortByDimension C nodes j) S hS hn' hr'
    have hS1 : ShapeC d n (linkFrom j 0 (HvSweep.sortByDimension C nodes j) S) := shapeC_linkFrom j _ 0 S hS
    obtain ⟨f1, f2, f3⟩ := setupLoop_spec C js (linkFrom j 0 (HvSweep.sortByDimension C nodes j) S)
      (HvSweep.sortByDimension C nodes j) hnd'.2 (fun i hi => hlt i (by simp [hi])) hS1 hn' hr'
    simp only [setupLoop, qsortByDim_eq]
    refine ⟨f1, (sameData_linkFrom j _ 0 S).trans f2, ?_⟩
    intro i L hiL
    simp only [HvSweep.cum, List.mem_cons, Prod.mk.injEq] at hiL
    rcases hiL with ⟨rfl, rfl⟩ | hiL
    · -- dimension j is not touched by the later iterations
      refine HvSweep.dl_congr ?_ hd1
      intro a
      exact setupLoop_frame C js _ _ i a hnd'.1
    · exact f3 i L hiL
where
  setupLoop_frame (C : Cargo) : ∀ (js : List ℕ) (S : St) (nodes : List ℕ) (i a : ℕ), i ∉ js →
      HvSweep.nx (toSw (setupLoop C js nodes S)) i a = HvSweep.nx (toSw S) i a ∧
      HvSweep.pv (toSw (setupLoop C js nodes S)) i a = HvSweep.pv (toSw S) i a
    | [], S, nodes, i, a, _ => ⟨rfl, rfl⟩
    | j :: js, S, nodes, i, a, hi => by
      have hij : i ≠ j := fun e => hi (by simp [e])
      have his : i ∉ js := fun h => hi (by simp [h])
      obtain ⟨e1, e2⟩ := setupLoop_frame C js (linkFrom j 0 (qsortByDim C nodes j) S) (qsortByDim C nodes j) i a his
      simp only [setupLoop]
      refine ⟨e1.trans ?_, e2.trans ?_⟩
      · exact nx_linkFrom_frame j _ 0 S i a (Or.inl hij)
      · exact pv_linkFrom_frame j _ 0 S i a (Or.inl hij)

/-- the node order of dimension `j` after `setup_cdllist`: a permutation of the ids, ascending in coordinate `j` -/
structure Order (C : Cargo) (n j : ℕ) (L : List ℕ) : Prop where
  perm : L.Perm (HvSweep.ids n)
  sorted : L.Pairwise (fun a b => cg C a j ≤ cg C b j)

theorem setupCdllist_spec (C : Cargo) (d n : ℕ) :
    ShapeC d n (setupCdllist C d n) ∧ SameData (initSt d n) (setupCdllist C d n) ∧
      ∀ j < d, ∃ L, DLc n (setupCdllist C d n) j L ∧ Order C n j L := by
  have hnd : ((List.range d).reverse).Nodup := List.nodup_reverse.mpr List.nodup_range
  have hlt : ∀ j ∈ (List.range d).reverse, j < d := fun j hj => List.mem_range.mp (List.mem_reverse.mp hj)
  obtain ⟨h1, h2, h3⟩ := setupLoop_spec C (List.range d).reverse (initSt d n) (HvSweep.ids n) hnd hlt
    (shapeC_initSt d n) (HvSweep.ids_nodup n) (fun x hx => (HvSweep.mem_ids n x).mp hx)
  refine ⟨h1, h2, ?_⟩
  intro j hj
  obtain ⟨L, hL⟩ := HvSweep.cum_exists C (List.range d).reverse (HvSweep.ids n) j
    (List.mem_reverse.mpr (List.mem_range.mpr hj))
  refine ⟨L, h3 j L hL, HvSweep.cum_perm C _ _ j L hL, ?_⟩
  exact cum_sorted C _ _ j L hL
where
  cum_sorted (C : Cargo) : ∀ (is nodes : List ℕ) (i : ℕ) (L : List ℕ), (i, L) ∈ HvSweep.cum C is nodes →
      L.Pairwise (fun a b => cg C a i ≤ cg C b i)
    | [], _, _, _, h => by simp [HvSweep.cum] at h
    | j :: is, nodes, i, L, h => by
      simp only [HvSweep.cum, List.mem_cons, Prod.mk.injEq] at h
      rcases h with ⟨rfl, rfl⟩ | h
      · exact HvSweep.sortByDimension_sorted C nodes i
      · exact cum_sorted C is _ i L h

end HvC

namespace HvC
set_option linter.unusedVariables false
open HvSweep (Shape DL Seg Link DimEq)

/-! ### `filter` -/

/-- one iteration of `filter_delete_node` -/
def fdStep (node : ℕ) (S : St) (i : ℕ) : St :=
  let S := setPv S i (nx S i node) (pv S i node)
  setNx S i (pv S i node) (nx S i node)

theorem filterDeleteNode_eq (S : St) (node d : ℕ) : filterDeleteNode S node d = (List.range d).foldl (fdStep node) S := rfl

theorem sameData_fdStep (x : ℕ) (S : St) (i : ℕ) : SameData S (fdStep x S i) :=
  (sameData_setPv S _ _ _).trans (sameData_setNx _ _ _ _)

theorem shapeC_fdStep {d n : ℕ} {S : St} (h : ShapeC d n S) (x i : ℕ) : ShapeC d n (fdStep x S i) :=
  shapeC_setNx (shapeC_setPv h _ _ _) _ _ _

/-- in a well-formed list, `filter_delete_node`'s two assignments are `unlink` -/
theorem toSw_fdStep {n : ℕ} {S : St} {i x : ℕ} (nf : HvSweep.NodeFacts n (toSw S) i x) :
    toSw (fdStep x S i) = HvSweep.unlink (toSw S) i x := by
  unfold fdStep
  simp only
  have h1 : pv (setPv S i (nx S i x) (pv S i x)) i x = pv S i x :=
    pv_setPv_ne _ _ _ _ _ _ (Or.inr (fun e => nf.nx_ne e.symm))
  rw [h1]
  rfl

theorem fdStep_other (x : ℕ) (S : St) (i j a : ℕ) (hj : j ≠ i) :
    nx (fdStep x S i) j a = nx S j a ∧ pv (fdStep x S i) j a = pv S j a := by
  unfold fdStep
  simp only
  refine ⟨?_, ?_⟩
  · rw [nx_setNx_ne _ _ _ _ _ _ (Or.inl hj), nx_setPv]
  · rw [pv_setNx, pv_setPv_ne _ _ _ _ _ _ (Or.inl hj)]

/-- `filter_delete_node(x, d)` removes `x` from every list and leaves `x`'s own pointers alone -/
theorem filterDeleteNode_spec {d n : ℕ} (x : ℕ) (Ls : ℕ → List ℕ) : ∀ (k : ℕ) (S : St), k ≤ d → ShapeC d n S →
    (∀ j < d, DLc n S j (Ls j) ∧ x ∈ Ls j) →
    ShapeC d n (filterDeleteNode S x k) ∧ SameData S (filterDeleteNode S x k) ∧
      (∀ j < k, DLc n (filterDeleteNode S x k) j ((Ls j).erase x)) ∧
      (∀ j, k ≤ j → ∀ a, nx (filterDeleteNode S x k) j a = nx S j a ∧ pv (filterDeleteNode S x k) j a = pv S j a) ∧
      (∀ j, nx (filterDeleteNode S x k) j x = nx S j x ∧ pv (filterDeleteNode S x k) j x = pv S j x)
  | 0, S, _, hS, _ => ⟨hS, SameData.refl S, fun j hj => absurd hj (Nat.not_lt_zero _), fun _ _ _ => ⟨rfl, rfl⟩, fun _ => ⟨rfl, rfl⟩⟩
  | k + 1, S, hk, hS, hL => by
    obtain ⟨e1, e2, e3, e4, e5⟩ := filterDeleteNode_spec x Ls k S (by omega) hS hL
    have hstep : filterDeleteNode S x (k + 1) = fdStep x (filterDeleteNode S x k) k := by
      rw [filterDeleteNode_eq, filterDeleteNode_eq, List.range_succ, List.foldl_append]; rfl
    set T := filterDeleteNode S x k with hT
    have hdk : DLc n T k (Ls k) := by
      refine HvSweep.dl_congr ?_ (hL k (by omega)).1
      intro a; exact e4 k (le_refl _) a
    have nf := HvSweep.dl_nodeFacts hdk (hL k (by omega)).2
    have hun := HvSweep.dl_unlink e1 (by omega : k < d) hdk (hL k (by omega)).2
    rw [hstep]
    refine ⟨shapeC_fdStep e1 x k, e2.trans (sameData_fdStep x T k), ?_, ?_, ?_⟩
    · intro j hj
      rcases Nat.lt_succ_iff_lt_or_eq.mp hj with hj' | rfl
      · refine HvSweep.dl_congr ?_ (e3 j hj')
        intro a; exact fdStep_other x T k j a (by omega)
      · show DL n (toSw (fdStep x T j)) j ((Ls j).erase x)
        rw [toSw_fdStep nf]; exact hun.1
    · intro j hj a
      obtain ⟨o1, o2⟩ := fdStep_other x T k j a (by omega)
      exact ⟨o1.trans (e4 j (by omega) a).1, o2.trans (e4 j (by omega) a).2⟩
    · intro j
      by_cases hjk : j = k
      · subst hjk
        have h1 : nx (fdStep x T j) j x = HvSweep.nx (toSw (fdStep x T j)) j x := rfl
        have h2 : pv (fdStep x T j) j x = HvSweep.pv (toSw (fdStep x T j)) j x := rfl
        rw [h1, h2, toSw_fdStep nf, hun.2.1, hun.2.2]
        exact e5 j
      · obtain ⟨o1, o2⟩ := fdStep_other x T k j x hjk
        exact ⟨o1.trans (e5 j).1, o2.trans (e5 j).2⟩

/-- what `filter` maintains: every list is the original order restricted to the nodes still `alive` -/
structure FInv (d n : ℕ) (Ls : ℕ → List ℕ) (alive : ℕ → Bool) (S : St) : Prop where
  shape : ShapeC d n S
  lists : ∀ j < d, DLc n S j ((Ls j).filter alive)

theorem filter_erase_eq (L : List ℕ) (alive : ℕ → Bool) (a : ℕ) (hnd : L.Nodup) :
    (L.filter alive).erase a = L.filter (fun b => alive b && decide (b ≠ a)) := by
  rw [(hnd.filter _).erase_eq_filter, List.filter_filter]
  apply List.filter_congr
  intro b _
  by_cases hb : b = a <;> simp [hb]

theorem length_filter_perm {L L' : List ℕ} (h : L.Perm L') (p : ℕ → Bool) : (L.filter p).length = (L'.filter p).length :=
  (h.filter p).length_eq

theorem filterInner_spec (C : Cargo) (R : List ℚ) {d n : ℕ} (Ls : ℕ → List ℕ) (hO : ∀ j < d, Order C n j (Ls j))
    {i : ℕ} (hi : i < d) : ∀ (k : ℕ) (alive : ℕ → Bool) (aux : ℕ) (S : St), FInv d n Ls alive S →
    ((Ls i).filter alive).length = k → aux = (0 :: (Ls i).filter alive).getLast (by simp) →
    FInv d n Ls (fun b => alive b && decide (cg C b i < rf R i)) (filterInner C R d i k aux k S).2 ∧
      (filterInner C R d i k aux k S).1 = ((Ls i).filter (fun b => alive b && decide (cg C b i < rf R i))).length ∧
      SameData S (filterInner C R d i k aux k S).2
  | 0, alive, aux, S, hI, hlen, haux => by
    have hnil : (Ls i).filter alive = [] := List.length_eq_zero_iff.mp hlen
    have hdead : ∀ b ∈ HvSweep.ids n, alive b = false := by
      intro b hb
      have hbi : b ∈ Ls i := (hO i hi).perm.mem_iff.mpr hb
      by_contra hne
      have : b ∈ (Ls i).filter alive := List.mem_filter.mpr ⟨hbi, by simpa using hne⟩
      rw [hnil] at this; exact absurd this (List.not_mem_nil)
    have hcongr : ∀ j < d, (Ls j).filter (fun b => alive b && decide (cg C b i < rf R i)) = (Ls j).filter alive := by
      intro j hj
      apply List.filter_congr
      intro b hb
      rw [hdead b ((hO j hj).perm.mem_iff.mp hb)]; rfl
    simp only [filterInner]
    refine ⟨⟨hI.shape, fun j hj => by rw [hcongr j hj]; exact hI.lists j hj⟩, ?_, SameData.refl S⟩
    rw [hcongr i hi, hnil]; rfl
  | k + 1, alive, aux, S, hI, hlen, haux => by
    -- the current list of dimension i ends with aux
    have hne : (Ls i).filter alive ≠ [] := fun e => by rw [e] at hlen; simp at hlen
    have hauxl : aux = ((Ls i).filter alive).getLast hne := by rw [haux, List.getLast_cons hne]
    have hauxm : aux ∈ (Ls i).filter alive := hauxl ▸ List.getLast_mem hne
    have halive : alive aux = true := (List.mem_filter.mp hauxm).2
    have hauxi : aux ∈ HvSweep.ids n := (hO i hi).perm.mem_iff.mp (List.mem_filter.mp hauxm).1
    simp only [filterInner]
    by_cases hlt : cg C aux i < rf R i
    · -- every node still alive is below the reference in coordinate i
      rw [if_pos hlt]
      have hall : ∀ b ∈ HvSweep.ids n, alive b = true → cg C b i < rf R i := by
        intro b hb hab
        have hbm : b ∈ (Ls i).filter alive := List.mem_filter.mpr ⟨(hO i hi).perm.mem_iff.mpr hb, hab⟩
        have hs : ((Ls i).filter alive).Pairwise (fun a b => cg C a i ≤ cg C b i) := (hO i hi).sorted.filter _
        have : cg C b i ≤ cg C aux i := by
          obtain ⟨l1, hl1⟩ : ∃ l1, (Ls i).filter alive = l1 ++ [aux] := by
            refine ⟨((Ls i).filter alive).dropLast, ?_⟩
            rw [hauxl]; exact (List.dropLast_append_getLast hne).symm
          rw [hl1] at hbm hs
          rcases List.mem_append.mp hbm with h | h
          · exact (List.pairwise_append.mp hs).2.2 b h aux (by simp)
          · simp at h; rw [h]
        exact lt_of_le_of_lt this hlt
      have hcongr : ∀ j < d, (Ls j).filter (fun b => alive b && decide (cg C b i < rf R i)) = (Ls j).filter alive := by
        intro j hj
        apply List.filter_congr
        intro b hb
        cases hab : alive b with
        | false => rfl
        | true => simp [hall b ((hO j hj).perm.mem_iff.mp hb) hab]
      refine ⟨⟨hI.shape, fun j hj => by rw [hcongr j hj]; exact hI.lists j hj⟩, ?_, SameData.refl S⟩
      rw [hcongr i hi, hlen]
    · rw [if_neg hlt]
      -- delete aux from every list
      have hmem : ∀ j < d, DLc n S j ((Ls j).filter alive) ∧ aux ∈ (Ls j).filter alive := fun j hj =>
        ⟨hI.lists j hj, List.mem_filter.mpr ⟨(hO j hj).perm.mem_iff.mpr hauxi, halive⟩⟩
      obtain ⟨e1, e2, e3, e4, e5⟩ := filterDeleteNode_spec aux (fun j => (Ls j).filter alive) d S (le_refl _) hI.shape hmem
      set S1 := filterDeleteNode S aux d with hS1
      set alive1 : ℕ → Bool := fun b => alive b && decide (b ≠ aux) with ha1
      have hnd : ∀ j < d, (Ls j).Nodup := fun j hj => (hO j hj).perm.nodup_iff.mpr (HvSweep.ids_nodup n)
      have hI1 : FInv d n Ls alive1 S1 := ⟨e1, fun j hj => by
        rw [ha1, ← filter_erase_eq (Ls j) alive aux (hnd j hj)]; exact e3 j hj⟩
      have hl1 : (Ls i).filter alive1 = ((Ls i).filter alive).dropLast := by
        rw [ha1, ← filter_erase_eq (Ls i) alive aux (hnd i hi)]
        have hsplit : (Ls i).filter alive = ((Ls i).filter alive).dropLast ++ [aux] := by
          rw [hauxl]; exact (List.dropLast_append_getLast hne).symm
        have hndf : ((Ls i).filter alive).Nodup := (hnd i hi).filter _
        have hnotin : aux ∉ ((Ls i).filter alive).dropLast := by
          rw [hsplit] at hndf
          intro hm
          exact (List.nodup_append.mp hndf).2.2 aux hm aux (by simp) rfl
        conv_lhs => rw [hsplit]
        rw [List.erase_append_right _ hnotin]; simp
      have hlen1 : ((Ls i).filter alive1).length = k := by rw [hl1, List.length_dropLast, hlen]; rfl
      have haux1 : pv S1 i aux = (0 :: (Ls i).filter alive1).getLast (by simp) := by
        rw [(e5 i).2]
        have hsplit : (Ls i).filter alive = ((Ls i).filter alive).dropLast ++ aux :: [] := by
          rw [hauxl]; exact (List.dropLast_append_getLast hne).symm
        have hseg := (hI.lists i hi).1
        rw [hsplit] at hseg
        have := (HvSweep.seg_node (toSw S) i _ 0 aux [] 0 hseg).1
        rw [hl1]; exact this
      obtain ⟨f1, f2, f3⟩ := filterInner_spec C R Ls hO hi k alive1 (pv S1 i aux) S1 hI1 hlen1 haux1
      have hfun : (fun b => alive1 b && decide (cg C b i < rf R i)) = (fun b => alive b && decide (cg C b i < rf R i)) := by
        funext b
        by_cases hb : b = aux
        · subst hb; simp [ha1, hlt]
        · simp [ha1, hb]
      rw [hfun] at f1 f2
      have hk1 : k + 1 - 1 = k := rfl
      rw [hk1]
      exact ⟨f1, f2, e2.trans f3⟩

/-- the nodes that strictly dominate the reference point in the first `k` coordinates -/
def goodUpTo (C : Cargo) (R : List ℚ) (k : ℕ) (b : ℕ) : Bool := (List.range k).all (fun i => decide (cg C b i < rf R i))

theorem goodUpTo_succ (C : Cargo) (R : List ℚ) (k b : ℕ) :
    goodUpTo C R (k + 1) b = (goodUpTo C R k b && decide (cg C b k < rf R k)) := by
  unfold goodUpTo; rw [List.range_succ, List.all_append]; simp

theorem goodUpTo_iff (C : Cargo) (R : List ℚ) (k b : ℕ) : goodUpTo C R k b = true ↔ ∀ i < k, cg C b i < rf R i := by
  unfold goodUpTo; simp [List.all_eq_true]

theorem filter_loop_spec (C : Cargo) (R : List ℚ) {d n : ℕ} (Ls : ℕ → List ℕ) (hO : ∀ j < d, Order C n j (Ls j)) :
    ∀ (k : ℕ), k ≤ d → ∀ (S : St), FInv d n Ls (fun _ => true) S →
    let r := (List.range k).foldl (fun (nS : ℕ × St) i => filterInner C R d i nS.1 (pv nS.2 i 0) nS.1 nS.2) (n, S)
    FInv d n Ls (goodUpTo C R k) r.2 ∧ r.1 = ((HvSweep.ids n).filter (goodUpTo C R k)).length ∧ SameData S r.2
  | 0, _, S, hI => by
    have hfun : goodUpTo C R 0 = fun _ => true := by funext b; rfl
    simp only [List.range_zero, List.foldl_nil]
    rw [hfun]
    refine ⟨hI, ?_, SameData.refl S⟩
    simp [HvSweep.ids]
  | k + 1, hk, S, hI => by
    obtain ⟨e1, e2, e3⟩ := filter_loop_spec C R Ls hO k (by omega) S hI
    simp only [List.range_succ, List.foldl_append, List.foldl_cons, List.foldl_nil]
    set r := (List.range k).foldl (fun (nS : ℕ × St) i => filterInner C R d i nS.1 (pv nS.2 i 0) nS.1 nS.2) (n, S) with hr
    have hik : k < d := by omega
    have hlen : ((Ls k).filter (goodUpTo C R k)).length = r.1 := by
      rw [e2]; exact length_filter_perm (hO k hik).perm _
    have haux : pv r.2 k 0 = (0 :: (Ls k).filter (goodUpTo C R k)).getLast (by simp) :=
      HvSweep.seg_pv_end (toSw r.2) k _ 0 0 (e1.lists k hik).1
    obtain ⟨f1, f2, f3⟩ := filterInner_spec C R Ls hO hik r.1 (goodUpTo C R k) (pv r.2 k 0) r.2 e1 hlen haux
    have hfun : (fun b => goodUpTo C R k b && decide (cg C b k < rf R k)) = goodUpTo C R (k + 1) := by
      funext b; rw [goodUpTo_succ]
    rw [hfun] at f1 f2
    refine ⟨f1, ?_, e3.trans f3⟩
    rw [f2]; exact length_filter_perm (hO k hik).perm _

/-- **`setup_cdllist` + `filter`**: every list is its sorted order restricted to the points strictly below the
reference in every coordinate; the returned count is their number; nothing but the pointers has been written. -/
theorem setup_filter_spec (C : Cargo) (R : List ℚ) (d n : ℕ) :
    let r := filter C R d n (setupCdllist C d n)
    ShapeC d n r.2 ∧ SameData (initSt d n) r.2 ∧ r.1 = ((HvSweep.ids n).filter (goodUpTo C R d)).length ∧
      ∀ j < d, ∃ L, Order C n j L ∧ DLc n r.2 j (L.filter (goodUpTo C R d)) := by
  obtain ⟨h1, h2, h3⟩ := setupCdllist_spec C d n
  classical
  let Ls : ℕ → List ℕ := fun j => if hj : j < d then (h3 j hj).choose else []
  have hLs : ∀ j (hj : j < d), DLc n (setupCdllist C d n) j (Ls j) ∧ Order C n j (Ls j) := by
    intro j hj
    have : Ls j = (h3 j hj).choose := by simp [Ls, hj]
    rw [this]; exact (h3 j hj).choose_spec
  have hI : FInv d n Ls (fun _ => true) (setupCdllist C d n) :=
    ⟨h1, fun j hj => by rw [List.filter_true]; exact (hLs j hj).1⟩
  obtain ⟨e1, e2, e3⟩ := filter_loop_spec C R Ls (fun j hj => (hLs j hj).2) d (le_refl _) (setupCdllist C d n) hI
  refine ⟨e1.shape, h2.trans e3, e2, ?_⟩
  intro j hj
  exact ⟨Ls j, (hLs j hj).2, e1.lists j hj⟩

end HvC
