import DeapModel.Lemmas.C15HvCReB1
/-!
C15 — the 3-D base case of `_hv.c` re-entered: Cases 0 and 2 of the entry phase (every node of the list of dimension 2
is at or above `bound[2]`, in particular `bound[2] = -DBL_MAX`): the first node is initialised (l.845-848, l.860-862),
`reconnectLoop` stops at once, the main loop starts at the second node.
-/
namespace HvC
set_option linter.unusedVariables false
open Hypervolume
open HvSweep (GCtx Hj RL preSet pos ARv VOLv ids Shaped)

/-- the hypervolume of one node in the first two / three coordinates -/
theorem Hj1_single {C : Cargo} {R : List ℚ} {d n : ℕ} {O : ℕ → List ℕ} (c : CCtx C R d n O) {a : ℕ} (ha : a ∈ ids n)
    (hg : ∀ j < d, cg C a j < rf R j) :
    Hj R (spt C R) 1 [a] = (rf R 0 - cg C a 0) * (rf R 1 - cg C a 1) := by
  have hd : 2 < d := c.hd
  rw [HvSweep.Hj_single_eq_areaProd c.g a ha 1 (by omega)]
  simp only [HvSweep.areaProd]
  rw [c.cg_tr' ha (by omega : 0 < d) (hg _ (by omega)), c.cg_tr' ha (by omega : 1 < d) (hg _ (by omega))]
  ring

theorem Hj2_single {C : Cargo} {R : List ℚ} {d n : ℕ} {O : ℕ → List ℕ} (c : CCtx C R d n O) {a : ℕ} (ha : a ∈ ids n)
    (hg : ∀ j < d, cg C a j < rf R j) :
    Hj R (spt C R) 2 [a] = (rf R 0 - cg C a 0) * (rf R 1 - cg C a 1) * (rf R 2 - cg C a 2) := by
  have hd : 2 < d := c.hd
  rw [HvSweep.Hj_single_eq_areaProd c.g a ha 2 hd]
  simp only [HvSweep.areaProd]
  rw [c.cg_tr' ha (by omega : 0 < d) (hg _ (by omega)), c.cg_tr' ha (by omega : 1 < d) (hg _ (by omega)),
    c.cg_tr' ha hd (hg _ hd)]
  ring

/-- the state after l.845-848, l.860-862 and l.885 -/
def entryA (C : Cargo) (R : List ℚ) (S : St) (a1 : ℕ) : St :=
  setBound (setDr (avlInsertTop (setIgn (setIgn (setVl (setAr (setDr S a1 (rf R 2)) a1 2
    ((rf R 0 - cg C a1 0) * (rf R 1 - cg C a1 1))) a1 2 0) a1 0) a1 0) a1) a1 (rf R 2)) 2 (cg C (pv S 2 0) 2)

theorem caseA_entry {C : Cargo} {R : List ℚ} {d n : ℕ} {O : ℕ → List ℕ} {F : ℕ}
    (c : CCtx C R d n O) (hF : n + 2 ≤ F) {S : St} {A : List ℕ} (inv : InvC C R d n O S 2 A) (hA : 2 ≤ A.length)
    (hge : ∀ a ∈ RL O 2 A, geBound S 2 (cg C a 2) = true) :
    ∃ S3 P Q hv ha, EntryRes C R d n O A S S3 P Q hv ha ∧
      (∀ v S', sweepLoop C R F F (Q.headD 0) hv ha S3 = some (v, S') → dim3 C R F S = some (v, avlClearTree S')) := by
  have l2 := l2_of_inv c inv
  obtain ⟨a1, a2, rest, hL⟩ : ∃ a1 a2 rest, RL O 2 A = a1 :: a2 :: rest := by
    have hlen := l2.len
    match hRL : RL O 2 A, hlen with
    | [], h => simp at h; omega
    | [x], h => simp at h; omega
    | x :: y :: l, _ => exact ⟨x, y, l, rfl⟩
  have hD : DLc n S 2 (a1 :: a2 :: rest) := hL ▸ l2.dl
  have hLne : RL O 2 A ≠ [] := by rw [hL]; simp
  have ha1L : a1 ∈ RL O 2 A := by rw [hL]; simp
  have ha2L : a2 ∈ RL O 2 A := by rw [hL]; simp
  have ha1A : a1 ∈ A := (l2.mem a1).mp ha1L
  have ha2A : a2 ∈ A := (l2.mem a2).mp ha2L
  have ha1I := inv.sub a1 ha1A
  have ha1n : a1 ≤ n := ((HvSweep.mem_ids n a1).mp ha1I).2
  have ha20 : a2 ≠ 0 := by
    have := ((HvSweep.mem_ids n a2).mp (inv.sub a2 ha2A)).1
    omega
  have hd2 : 2 < d := l2.hd
  have hlastL : pv S 2 0 ∈ RL O 2 A := by
    rw [pv0_last l2.dl hLne]
    exact List.getLast_mem _
  have hlt_last : ltBound S 2 (cg C (pv S 2 0) 2) = false := by
    unfold ltBound
    rw [hge _ hlastL]
    rfl
  have hlt2 : ltBound S 2 (cg C a2 2) = false := by
    unfold ltBound
    rw [hge _ ha2L]
    rfl
  have hnx0 : nx S 2 0 = a1 := hD.1.1.1
  set A1 : ℚ := (rf R 0 - cg C a1 0) * (rf R 1 - cg C a1 1) with hA1
  set S2 := setDr (avlInsertTop (setIgn (setIgn (setVl (setAr (setDr S a1 (rf R 2)) a1 2 A1) a1 2 0) a1 0) a1 0) a1) a1 (rf R 2)
    with hS2
  have hnx1 : nx S2 2 a1 = a2 := (HvSweep.seg_node (toSw S) 2 [] 0 a1 (a2 :: rest) 0 hD.1).2.1
  have hpv2 : pv S2 2 a2 = a1 := (HvSweep.seg_node (toSw S) 2 [a1] 0 a2 rest 0 hD.1).1
  have hvl : vl S2 a1 2 = 0 := by
    show HvSweep.tget (HvSweep.tset S.vol a1 2 0) a1 2 0 = 0
    exact HvSweep.tget_tset_self _ _ _ _ _ (by rw [inv.tsh.vol.1]; omega) (by rw [inv.tsh.vol.2 a1 (by omega)]; exact hd2)
  have har : ar S2 a1 2 = A1 := by
    show HvSweep.tget (HvSweep.tset S.area a1 2 A1) a1 2 0 = A1
    exact HvSweep.tget_tset_self _ _ _ _ _ (by rw [inv.tsh.area.1]; omega) (by rw [inv.tsh.area.2 a1 (by omega)]; exact hd2)
  have hS3 : entryA C R S a1 = setBound S2 2 (cg C (pv S2 2 0) 2) := rfl
  have hil : a1 < S.ignore.length := by rw [inv.tsh.ign]; omega
  have hdl : a1 < S.domr.length := by rw [inv.tsh.domr]; omega
  have hign1 : ign (entryA C R S a1) a1 = 0 := by
    show ((S.ignore.set a1 0).set a1 0).getD a1 0 = 0
    exact HvSweep.getD_set_self _ _ _ _ (by rw [List.length_set]; exact hil)
  have hignne : ∀ q, q ≠ a1 → ign (entryA C R S a1) q = ign S q := by
    intro q hq
    show ((S.ignore.set a1 0).set a1 0).getD q 0 = S.ignore.getD q 0
    rw [HvSweep.getD_set_ne _ _ _ _ _ hq, HvSweep.getD_set_ne _ _ _ _ _ hq]
  have hdr1 : dr (entryA C R S a1) a1 = rf R 2 := by
    show ((S.domr.set a1 (rf R 2)).set a1 (rf R 2)).getD a1 0 = rf R 2
    exact HvSweep.getD_set_self _ _ _ _ (by rw [List.length_set]; exact hdl)
  have hdrne : ∀ q, q ≠ a1 → dr (entryA C R S a1) q = dr S q := by
    intro q hq
    show ((S.domr.set a1 (rf R 2)).set a1 (rf R 2)).getD q 0 = S.domr.getD q 0
    rw [HvSweep.getD_set_ne _ _ _ _ _ hq, HvSweep.getD_set_ne _ _ _ _ _ hq]
  have hgood1 := inv.good a1 ha1A
  obtain ⟨hc1, hc2⟩ := HvSweep.caches_of_first c.g 1 hd2 A inv.sub a1 (a2 :: rest) hL
  rw [Hj1_single c ha1I hgood1] at hc1
  have hnA : ∀ y, y ∉ A → y ≠ a1 := fun y hy e => hy (e ▸ ha1A)
  refine ⟨entryA C R S a1, [a1], a2 :: rest, 0 + A1 * (cg C a2 2 - cg C a1 2), A1, ?_, ?_⟩
  · refine
      { sl :=
          { anodup := inv.nodup
            asub := inv.sub
            agood := inv.good
            split := hL
            prene := by simp
            shape := inv.shape
            tsh := ⟨HvSweep.shaped_tset inv.tsh.area a1 2 A1, HvSweep.shaped_tset inv.tsh.vol a1 2 0, ?_, ?_, ?_⟩
            dl := l2.dl
            tne := by show [a1] ≠ []; simp
            tnd := by show [a1].Nodup; simp
            tsub := fun t ht => ht
            tign := ?_
            stair := by show Stair ([a1].map (item C)); simp [Stair]
            cover := fun q hq => ⟨q, hq, le_refl _, le_refl _⟩
            area := by
              show A1 = hArea (rf R 0) (rf R 1) ([a1].map (item C))
              simp only [List.map_cons, List.map_nil, hArea, hA1, item]; ring
            val := by
              show 0 + A1 * (cg C a2 2 - cg C a1 2) + A1 * (rf R 2 - cg C a2 2) = Hj R (spt C R) 2 [a1]
              rw [Hj2_single c ha1I hgood1, hA1]; ring
            cache := ?_
            drT := ?_
            drge := ?_
            drout := ?_
            drL := ?_
            ig := ?_
            igd := ?_ }
        next := rfl
        prev := rfl
        bound := rfl
        ign_out := fun y hy => hignne y (hnA y hy)
        dr_out := fun y hy => hdrne y (hnA y hy)
        cache_hi := fun a i hi => ⟨HvSweep.tget_tset_ne _ _ _ _ _ _ _ (Or.inr hi), HvSweep.tget_tset_ne _ _ _ _ _ _ _ (Or.inr hi)⟩ }
    · show ((S.ignore.set a1 0).set a1 0).length = n + 1
      rw [List.length_set, List.length_set]; exact inv.tsh.ign
    · show ((S.domr.set a1 (rf R 2)).set a1 (rf R 2)).length = n + 1
      rw [List.length_set, List.length_set]; exact inv.tsh.domr
    · show (S.bound.set 2 _).length = d
      rw [List.length_set]; exact inv.tsh.bound
    · intro t ht
      have ht' : t ∈ [a1] := ht
      have : t = a1 := by simpa using ht'
      rw [this, hign1]; decide
    · intro a ha
      have : a = a1 := by simpa using ha
      subst this
      rw [hc1, hc2]
      exact ⟨har, hvl⟩
    · intro t ht
      have ht' : t ∈ [a1] := ht
      have : t = a1 := by simpa using ht'
      rw [this]; exact hdr1
    · intro a ha
      have : a = a1 := by simpa using ha
      rw [this, hdr1]; exact le_of_lt (hgood1 2 hd2)
    · intro a ha hnt
      exact absurd ha hnt
    · intro a ha q hq hb
      have e1 : a = a1 := by simpa using ha
      have e2 : q = a1 := by simpa using hq
      exact absurd (e2.trans e1.symm) hb.1
    · intro q hq hm
      by_cases hqa : q = a1
      · rw [hqa, hign1] at hm; exact absurd hm (by decide)
      · rw [hignne q hqa] at hm ⊢
        exact inv.ig q hq hm
    · intro q hm
      by_cases hqa : q = a1
      · rw [hqa, hign1] at hm; exact absurd hm (by decide)
      · rw [hignne q hqa] at hm
        rw [hdrne q hqa]
        exact inv.igd q hm
  · intro v S' hsw
    obtain ⟨f, rfl⟩ : ∃ f, F = f + 1 := ⟨F - 1, by omega⟩
    unfold dim3
    simp only
    rw [hlt_last]
    simp only [Bool.false_eq_true, if_false]
    rw [hnx0, hge a1 ha1L]
    simp only [if_true]
    rw [← hA1, ← hS2]
    have hrec : reconnectLoop C R (f + 1) (nx S2 2 a1) S2 = some (nx S2 2 a1, S2) := by
      unfold reconnectLoop reconnectLoopWith
      rw [hnx1]
      have : ltBound S2 2 (cg C a2 2) = false := hlt2
      rw [this]; simp
    rw [hrec]
    simp only
    rw [hnx1, hpv2, hvl, har]
    have hnx3 : nx (setBound S2 2 (cg C (pv S2 2 0) 2)) 2 a1 = a2 := hnx1
    rw [hnx1, hnx3, if_pos ha20, ← hS3]
    have hsw' : sweepLoop C R (f + 1) (f + 1) a2 (0 + A1 * (cg C a2 2 - cg C a1 2)) A1 (entryA C R S a1) = some (v, S') := hsw
    rw [hsw']

end HvC
