/-
C14 helper lemmas: the list-based numpy-style linear algebra of `Core/CmaElitist.lean`, at `α = ℝ`,
is Mathlib's matrix algebra on `Fin n` (entries read with `getD`).
-/
import DeapModel.Core.CmaElitist
import DeapModel.RealInst
import Mathlib.Data.Matrix.Mul
import Mathlib.Algebra.BigOperators.Fin
import Mathlib.Data.List.GetD

set_option linter.unusedSectionVars false
set_option linter.unusedSimpArgs false

namespace C14Bridge
open CmaElitist CmaElitist.LA Matrix

/-- The vector `Fin n → ℝ` a list denotes. -/
def vecOf (n : Nat) (l : List ℝ) : Fin n → ℝ := fun i => l.getD i 0
/-- The `n × n` matrix a list of rows denotes. -/
def matOf (n : Nat) (M : List (List ℝ)) : Matrix (Fin n) (Fin n) ℝ :=
  Matrix.of fun i j => (M.getD i []).getD j 0

/-- `n × n` shape. -/
def IsMat (n : Nat) (M : List (List ℝ)) : Prop := M.length = n ∧ ∀ r ∈ M, r.length = n

/-! ### the model's operations at `ℝ` are the Mathlib ones -/
theorem rl_zero : (@OfNat.ofNat ℝ 0 (RealLike.instOfNat 0)) = 0 := (RealLike.real_lit 0).trans Nat.cast_zero
theorem rl_one : (@OfNat.ofNat ℝ 1 (RealLike.instOfNat 1)) = 1 := (RealLike.real_lit 1).trans Nat.cast_one
theorem rl_two : (@OfNat.ofNat ℝ 2 (RealLike.instOfNat 2)) = 2 := (RealLike.real_lit 2).trans (by norm_num)
theorem vadd_eq (u v : List ℝ) : vadd u v = List.zipWith (fun a b => a + b) u v := rfl
theorem vsub_eq (u v : List ℝ) : vsub u v = List.zipWith (fun a b => a - b) u v := rfl
theorem vmul_eq (u v : List ℝ) : vmul u v = List.zipWith (fun a b => a * b) u v := rfl
theorem vscale_eq (c : ℝ) (v : List ℝ) : vscale c v = v.map (fun x => c * x) := rfl
theorem vdivs_eq (v : List ℝ) (c : ℝ) : vdivs v c = v.map (fun x => x / c) := rfl

theorem foldl_add (l : List ℝ) (acc : ℝ) : l.foldl (fun a b => a + b) acc = acc + l.sum := by
  induction l generalizing acc with
  | nil => simp
  | cons x xs ih => simp [ih, add_assoc]

theorem rsum_eq (l : List ℝ) : RealLike.sum l = l.sum := by
  have : RealLike.sum l = l.foldl (fun a b => a + b) 0 := by
    show l.foldl (fun a b => a + b) ((0 : ℕ) : ℝ) = _
    simp
  rw [this, foldl_add, zero_add]

theorem dot_eq_list (u v : List ℝ) : dot u v = (List.zipWith (fun a b => a * b) u v).sum := by
  unfold dot; rw [rsum_eq, vmul_eq]

theorem normSq_eq_dot (w : List ℝ) : normSq w = dot w w := by
  unfold normSq; rw [rsum_eq, dot_eq_list]
  congr 1
  induction w with
  | nil => rfl
  | cons x xs ih => simp only [List.map_cons, List.zipWith_cons_cons, ih]

/-! ### generic `getD` facts -/
theorem getD_map' {α β : Type} (f : α → β) (l : List α) (i : Nat) (d : α) (e : β) (h : f d = e) :
    (l.map f).getD i e = f (l.getD i d) := by
  subst h
  simp only [List.getD_eq_getElem?_getD, List.getElem?_map]
  cases l[i]? <;> simp

theorem getD_zipWith {α β γ : Type} (f : α → β → γ) (da : α) (db : β) (dc : γ) (h0 : f da db = dc) :
    ∀ (u : List α) (v : List β) (i : Nat), u.length = v.length →
      (List.zipWith f u v).getD i dc = f (u.getD i da) (v.getD i db)
  | [], [], i, _ => by simp [h0]
  | [], _ :: _, _, h => by simp at h
  | _ :: _, [], _, h => by simp at h
  | a :: u, b :: v, 0, _ => by simp
  | a :: u, b :: v, i + 1, h => by
    simp only [List.zipWith_cons_cons, List.getD_cons_succ]
    exact getD_zipWith f da db dc h0 u v i (by simpa using h)

theorem getD_range_map {β : Type} (n : Nat) (g : Nat → β) (d : β) (j : Nat) (hj : j < n) :
    ((List.range n).map g).getD j d = g j := by
  rw [List.getD_eq_getElem _ _ (by simpa using hj)]; simp

theorem row_length {n : Nat} {M : List (List ℝ)} (hM : IsMat n M) (i : Nat) (hi : i < n) :
    (M.getD i []).length = n := by
  have hi' : i < M.length := by rw [hM.1]; exact hi
  rw [List.getD_eq_getElem _ _ hi']; exact hM.2 _ (List.getElem_mem hi')

/-! ### dot products -/
theorem dot_eq_sum : ∀ (n : Nat) (u v : List ℝ), u.length = n → v.length = n →
    dot u v = ∑ i : Fin n, u.getD i 0 * v.getD i 0
  | 0, [], [], _, _ => by simp [dot_eq_list]
  | n + 1, a :: u, b :: v, hu, hv => by
    have ih := dot_eq_sum n u v (by simpa using hu) (by simpa using hv)
    rw [dot_eq_list] at ih ⊢
    rw [Fin.sum_univ_succ]
    simp only [List.zipWith_cons_cons, List.sum_cons, ih, Fin.val_zero, List.getD_cons_zero,
      Fin.val_succ, List.getD_cons_succ]
  | 0, _ :: _, _, h, _ => by simp at h
  | 0, [], _ :: _, _, h => by simp at h
  | _ + 1, [], _, h, _ => by simp at h
  | _ + 1, _ :: _, [], _, h => by simp at h

theorem dot_eq (n : Nat) (u v : List ℝ) (hu : u.length = n) (hv : v.length = n) :
    dot u v = vecOf n u ⬝ᵥ vecOf n v := by
  rw [dot_eq_sum n u v hu hv]; rfl

theorem dot_nil (v : List ℝ) : dot [] v = 0 := by simp [dot_eq_list]

theorem normSq_eq (n : Nat) (w : List ℝ) (hw : w.length = n) :
    normSq w = vecOf n w ⬝ᵥ vecOf n w := by rw [normSq_eq_dot, dot_eq n w w hw hw]

/-! ### vectors -/
theorem vecOf_vadd (n : Nat) (u v : List ℝ) (h : u.length = v.length) :
    vecOf n (vadd u v) = vecOf n u + vecOf n v := by
  funext i; simp only [vecOf, vadd_eq, Pi.add_apply]
  exact getD_zipWith _ 0 0 0 (by simp) u v i h

theorem vecOf_vsub (n : Nat) (u v : List ℝ) (h : u.length = v.length) :
    vecOf n (vsub u v) = vecOf n u - vecOf n v := by
  funext i; simp only [vecOf, vsub_eq, Pi.sub_apply]
  exact getD_zipWith _ 0 0 0 (by simp) u v i h

theorem vecOf_vscale (n : Nat) (c : ℝ) (v : List ℝ) : vecOf n (vscale c v) = c • vecOf n v := by
  funext i; simp only [vecOf, vscale_eq, Pi.smul_apply, smul_eq_mul]
  exact getD_map' _ v i 0 0 (by simp)

theorem vecOf_vdivs (n : Nat) (v : List ℝ) (c : ℝ) : vecOf n (vdivs v c) = (1 / c) • vecOf n v := by
  funext i; simp only [vecOf, vdivs_eq, Pi.smul_apply, smul_eq_mul]
  rw [getD_map' _ v i 0 0 (by simp)]; ring

@[simp] theorem length_vadd (u v : List ℝ) : (vadd u v).length = min u.length v.length := by
  simp [vadd_eq]
@[simp] theorem length_vsub (u v : List ℝ) : (vsub u v).length = min u.length v.length := by
  simp [vsub_eq]
@[simp] theorem length_vscale (c : ℝ) (v : List ℝ) : (vscale c v).length = v.length := by
  simp [vscale_eq]
@[simp] theorem length_vdivs (c : ℝ) (v : List ℝ) : (vdivs v c).length = v.length := by
  simp [vdivs_eq]
@[simp] theorem length_matVec (M : List (List ℝ)) (v : List ℝ) : (matVec M v).length = M.length := by
  simp [matVec]
@[simp] theorem length_vecMat (n : Nat) (M : List (List ℝ)) (v : List ℝ) : (vecMat n v M).length = n := by
  simp [vecMat]

/-! ### matrices -/
theorem matOf_apply (n : Nat) (M : List (List ℝ)) (i j : Fin n) :
    matOf n M i j = (M.getD i []).getD j 0 := rfl

theorem vecOf_matVec (n : Nat) (M : List (List ℝ)) (v : List ℝ) (hM : IsMat n M) (hv : v.length = n) :
    vecOf n (matVec M v) = matOf n M *ᵥ vecOf n v := by
  funext i
  simp only [vecOf, matVec, mulVec, dotProduct, matOf_apply]
  rw [getD_map' (fun r => dot r v) M i [] 0 (dot_nil v), dot_eq_sum n _ v (row_length hM i i.2) hv]

theorem col_getD (M : List (List ℝ)) (j i : Nat) : (LA.col M j).getD i 0 = (M.getD i []).getD j 0 := by
  unfold LA.col
  rw [rl_zero]
  exact getD_map' _ M i [] 0 (by simp)

theorem vecOf_vecMat (n : Nat) (M : List (List ℝ)) (v : List ℝ) (hM : M.length = n) (hv : v.length = n) :
    vecOf n (vecMat n v M) = vecOf n v ᵥ* matOf n M := by
  funext j
  simp only [vecOf, vecMat, vecMul, dotProduct, matOf_apply]
  rw [getD_range_map n _ 0 j j.2, dot_eq_sum n v (LA.col M j) hv (by simp [LA.col, hM])]
  simp only [col_getD]

theorem matOf_mscale (n : Nat) (c : ℝ) (A : List (List ℝ)) : matOf n (mscale c A) = c • matOf n A := by
  ext i j
  simp only [matOf_apply, mscale, Matrix.smul_apply, smul_eq_mul]
  rw [getD_map' (vscale c) A i [] [] rfl, vscale_eq, getD_map' _ _ j 0 0 (by simp)]

theorem matOf_madd (n : Nat) (A B : List (List ℝ)) (hA : IsMat n A) (hB : IsMat n B) :
    matOf n (madd A B) = matOf n A + matOf n B := by
  ext i j
  simp only [matOf_apply, madd, Matrix.add_apply]
  rw [getD_zipWith vadd [] [] [] rfl A B i (by rw [hA.1, hB.1]), vadd_eq]
  exact getD_zipWith _ 0 0 0 (by simp) _ _ j (by rw [row_length hA i i.2, row_length hB i i.2])

theorem matOf_msub (n : Nat) (A B : List (List ℝ)) (hA : IsMat n A) (hB : IsMat n B) :
    matOf n (msub A B) = matOf n A - matOf n B := by
  ext i j
  simp only [matOf_apply, msub, Matrix.sub_apply]
  rw [getD_zipWith vsub [] [] [] rfl A B i (by rw [hA.1, hB.1]), vsub_eq]
  exact getD_zipWith _ 0 0 0 (by simp) _ _ j (by rw [row_length hA i i.2, row_length hB i i.2])

theorem matOf_outer (n : Nat) (u v : List ℝ) (hu : u.length = n) :
    matOf n (outer u v) = vecMulVec (vecOf n u) (vecOf n v) := by
  ext i j
  simp only [matOf_apply, outer, vecMulVec_apply, vecOf]
  have hi : (i : Nat) < u.length := by rw [hu]; exact i.2
  have h1 : (List.map (fun a => List.map (fun b => a * b) v) u).getD (↑i) [] =
      List.map (fun b => u[(i : Nat)] * b) v := by
    rw [List.getD_eq_getElem _ _ (by simpa using hi), List.getElem_map]
  have h2 : u.getD (↑i) 0 = u[(i : Nat)] := List.getD_eq_getElem _ _ hi
  show ((List.map (fun a => List.map (fun b => a * b) v) u).getD (↑i) []).getD (↑j) 0 = _
  rw [h1, h2, getD_map' _ v j 0 0 (by simp)]

theorem matOf_matMul (n : Nat) (A B : List (List ℝ)) (hA : IsMat n A) (hB : B.length = n) :
    matOf n (matMul n A B) = matOf n A * matOf n B := by
  ext i j
  have hi : (i : Nat) < A.length := by rw [hA.1]; exact i.2
  simp only [matOf_apply, matMul, mul_apply]
  have h1 : (List.map (fun r => vecMat n r B) A).getD (↑i) [] = vecMat n A[(i : Nat)] B := by
    rw [List.getD_eq_getElem _ _ (by simpa using hi), List.getElem_map]
  have h2 : A.getD (↑i) [] = A[(i : Nat)] := List.getD_eq_getElem _ _ hi
  have := congrFun (vecOf_vecMat n B A[(i : Nat)] hB (hA.2 _ (List.getElem_mem hi))) j
  simp only [vecOf, vecMul, dotProduct, matOf_apply] at this
  rw [h1, this, h2]

theorem matOf_mdivs (n : Nat) (A : List (List ℝ)) (c : ℝ) : matOf n (mdivs A c) = (1 / c) • matOf n A := by
  ext i j
  simp only [matOf_apply, mdivs, Matrix.smul_apply, smul_eq_mul]
  rw [getD_map' (fun r => vdivs r c) A i [] [] rfl, vdivs_eq, getD_map' _ _ j 0 0 (by simp)]; ring

theorem matOf_identity (n : Nat) : matOf n (identity n : List (List ℝ)) = 1 := by
  ext i j
  simp only [matOf_apply, identity]
  rw [getD_range_map n _ [] i i.2, getD_range_map n _ 0 j j.2, one_apply]
  by_cases h : i = j
  · subst h; simp [RealLike.real_lit]
  · have : (i : Nat) ≠ j := fun e => h (Fin.ext e)
    simp [h, this, RealLike.real_lit]

/-! ### shapes -/
theorem isMat_mscale {n : Nat} (c : ℝ) {A : List (List ℝ)} (hA : IsMat n A) : IsMat n (mscale c A) := by
  refine ⟨by simp [mscale, hA.1], ?_⟩
  intro r hr; simp only [mscale, List.mem_map] at hr
  obtain ⟨r', hr', rfl⟩ := hr; simp [hA.2 r' hr']

theorem isMat_mdivs {n : Nat} (c : ℝ) {A : List (List ℝ)} (hA : IsMat n A) : IsMat n (mdivs A c) := by
  refine ⟨by simp [mdivs, hA.1], ?_⟩
  intro r hr; simp only [mdivs, List.mem_map] at hr
  obtain ⟨r', hr', rfl⟩ := hr; simp [hA.2 r' hr']

theorem isMat_zipWith {n : Nat} (f : List ℝ → List ℝ → List ℝ)
    (hf : ∀ a b, (f a b).length = min a.length b.length) {A B : List (List ℝ)}
    (hA : IsMat n A) (hB : IsMat n B) : IsMat n (List.zipWith f A B) := by
  refine ⟨by simp [hA.1, hB.1], ?_⟩
  intro r hr
  obtain ⟨i, hi, rfl⟩ := List.getElem_of_mem hr
  simp only [List.getElem_zipWith, hf]
  simp only [List.length_zipWith] at hi
  rw [hA.2 _ (List.getElem_mem _), hB.2 _ (List.getElem_mem _)]; simp

theorem isMat_madd {n : Nat} {A B : List (List ℝ)} (hA : IsMat n A) (hB : IsMat n B) :
    IsMat n (madd A B) := isMat_zipWith vadd length_vadd hA hB
theorem isMat_msub {n : Nat} {A B : List (List ℝ)} (hA : IsMat n A) (hB : IsMat n B) :
    IsMat n (msub A B) := isMat_zipWith vsub length_vsub hA hB

theorem isMat_outer {n : Nat} {u v : List ℝ} (hu : u.length = n) (hv : v.length = n) :
    IsMat n (outer u v) := by
  refine ⟨by simp [outer, hu], ?_⟩
  intro r hr; simp only [outer, List.mem_map] at hr
  obtain ⟨a, _, rfl⟩ := hr; simp [hv]

theorem isMat_matMul {n : Nat} {A : List (List ℝ)} (B : List (List ℝ)) (hA : A.length = n) :
    IsMat n (matMul n A B) := by
  refine ⟨by simp [matMul, hA], ?_⟩
  intro r hr; simp only [matMul, List.mem_map] at hr
  obtain ⟨a, _, rfl⟩ := hr; simp

theorem isMat_identity (n : Nat) : IsMat n (identity n : List (List ℝ)) := by
  refine ⟨by simp [identity], ?_⟩
  intro r hr; simp only [identity, List.mem_map] at hr
  obtain ⟨a, _, rfl⟩ := hr; simp

end C14Bridge
