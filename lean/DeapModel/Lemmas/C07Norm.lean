/-
C07 — the normalisation of `selNSGA3` over ℝ: ideal point, `find_extreme_points`,
`find_intercepts` (with `numpy.linalg.solve` as a parameter).
-/
import DeapModel.Lemmas.C07Assoc

set_option linter.unusedSectionVars false
set_option linter.unusedVariables false

namespace C07L
open Nsga3

/-! ### bridging the `RealLike ℝ` order instances to Mathlib's -/

theorem colMin_bridge (rows : List (List ℝ)) (mem : List ℝ) :
    @Nsga3.colMin ℝ RealLike.toLT RealLike.instDecidableLT rows mem = @Nsga3.colMin ℝ _ _ rows mem := by
  unfold Nsga3.colMin; congr

theorem colMax_bridge (rows : List (List ℝ)) (mem : List ℝ) :
    @Nsga3.colMax ℝ RealLike.toLT RealLike.instDecidableLT rows mem = @Nsga3.colMax ℝ _ _ rows mem := by
  unfold Nsga3.colMax; congr

/-! ### ideal point = componentwise minimum -/

/-- with a remembered point: the minimum of the remembered point and all rows -/
theorem idealPoint_mem (fits : List (List ℝ)) (m : List ℝ)
    (hrect : ∀ r ∈ fits, r.length = m.length) :
    (idealPoint fits (some m)).length = m.length ∧
    ∀ j (hj : j < m.length) (h : j < (idealPoint fits (some m)).length),
      (idealPoint fits (some m))[j] ≤ m[j] ∧
      (∀ r ∈ fits, ∀ hr : j < r.length, (idealPoint fits (some m))[j] ≤ r[j]) ∧
      ((idealPoint fits (some m))[j] = m[j] ∨
        ∃ r ∈ fits, ∃ hr : j < r.length, (idealPoint fits (some m))[j] = r[j]) := by
  have e : idealPoint fits (some m) = @Nsga3.colMin ℝ _ _ fits m := colMin_bridge fits m
  rw [e]
  exact ⟨colMin_length fits m hrect, fun j hj _ => colMin_getElem fits m hrect j hj⟩

/-- without memory: the minimum of all rows of a non-empty rectangular matrix -/
theorem idealPoint_nomem (r0 : List ℝ) (rs : List (List ℝ))
    (hrect : ∀ r ∈ rs, r.length = r0.length) :
    (idealPoint (r0 :: rs) none).length = r0.length ∧
    ∀ j (hj : j < r0.length) (h : j < (idealPoint (r0 :: rs) none).length),
      (∀ r ∈ r0 :: rs, ∀ hr : j < r.length, (idealPoint (r0 :: rs) none)[j] ≤ r[j]) ∧
      (∃ r ∈ r0 :: rs, ∃ hr : j < r.length, (idealPoint (r0 :: rs) none)[j] = r[j]) := by
  have e : idealPoint (r0 :: rs) none = @Nsga3.colMin ℝ _ _ rs r0 := colMin_bridge rs r0
  rw [e]
  refine ⟨colMin_length rs r0 hrect, fun j hj _ => ?_⟩
  obtain ⟨h1, h2, h3⟩ := colMin_getElem rs r0 hrect j hj
  constructor
  · intro r hr hrl
    rcases List.mem_cons.1 hr with h | h
    · subst h; exact h1
    · exact h2 r h hrl
  · rcases h3 with h | ⟨r, hr, hrl, h⟩
    · exact ⟨r0, List.mem_cons_self, hj, h⟩
    · exact ⟨r, List.mem_cons_of_mem _ hr, hrl, h⟩

theorem worstPoint_mem (fits : List (List ℝ)) (m : List ℝ)
    (hrect : ∀ r ∈ fits, r.length = m.length) :
    (worstPoint fits (some m)).length = m.length ∧
    ∀ j (hj : j < m.length) (h : j < (worstPoint fits (some m)).length),
      m[j] ≤ (worstPoint fits (some m))[j] ∧
      (∀ r ∈ fits, ∀ hr : j < r.length, r[j] ≤ (worstPoint fits (some m))[j]) := by
  have e : worstPoint fits (some m) = @Nsga3.colMax ℝ _ _ fits m := colMax_bridge fits m
  rw [e]
  exact ⟨colMax_length fits m hrect, fun j hj _ =>
    ⟨(colMax_getElem fits m hrect j hj).1, (colMax_getElem fits m hrect j hj).2.1⟩⟩

/-! ### `find_extreme_points` -/

/-- the rows among which the extreme points are searched (population + remembered extremes) -/
def extRows (fits : List (List ℝ)) (ext : Option (List (List ℝ))) : List (List ℝ) :=
  match ext with
  | some e => fits ++ e
  | none => fits

theorem getD_map_sub (rows : List (List ℝ)) (g : List ℝ → ℝ) (i : Nat) (hi : i < rows.length) :
    (rows.map g).getD i 0 = g (rows.getD i []) := by
  simp [List.getD_eq_getElem?_getD, hi]

/-- the extreme point of axis `j` is a row that minimises the achievement scalarising function of
that axis (the first such row). -/
theorem findExtremePoints_spec (fits : List (List ℝ)) (best : List ℝ) (ext : Option (List (List ℝ)))
    (hne : extRows fits ext ≠ []) (j : Nat) (hj : j < best.length) :
    ∃ i, i < (extRows fits ext).length ∧
      (findExtremePoints fits best ext).getD j [] = (extRows fits ext).getD i [] ∧
      (∀ r ∈ extRows fits ext,
        asf best.length j (List.zipWith (· - ·) ((extRows fits ext).getD i []) best) ≤
          asf best.length j (List.zipWith (· - ·) r best)) ∧
      (∀ i', i' < i →
        asf best.length j (List.zipWith (· - ·) ((extRows fits ext).getD i []) best) <
          asf best.length j (List.zipWith (· - ·) ((extRows fits ext).getD i' []) best)) := by
  set rows := extRows fits ext with hrows
  set l := (rows.map (fun r => List.zipWith (· - ·) r best)).map (asf best.length j) with hl
  have hlne : l ≠ [] := by
    rw [hl]; intro h; exact hne (List.map_eq_nil_iff.1 (List.map_eq_nil_iff.1 h))
  have hlen : l.length = rows.length := by rw [hl]; simp
  have hget : ∀ i, i < rows.length →
      l.getD i 0 = asf best.length j (List.zipWith (· - ·) (rows.getD i []) best) := by
    intro i hi
    rw [hl, List.map_map]
    exact getD_map_sub rows _ i hi
  have hidx := argminIdx_lt l hlne
  refine ⟨argminIdx l, by omega, ?_, ?_, ?_⟩
  · have : findExtremePoints fits best ext =
        (List.range best.length).map (fun j => rows.getD (argminIdx
          ((rows.map (fun r => List.zipWith (· - ·) r best)).map (asf best.length j))) []) := by
      unfold findExtremePoints
      cases ext <;> rfl
    rw [this]
    simp [List.getD_eq_getElem?_getD, hj, hl]
  · intro r hr
    obtain ⟨i', hi', rfl⟩ := List.getElem_of_mem hr
    have := argminIdx_le l hlne i' (by omega)
    rw [hget _ (by omega), hget i' hi'] at this
    simpa [List.getD_eq_getElem?_getD, hi'] using this
  · intro i' hi'
    have := argminIdx_first l hlne i' hi'
    rw [hget _ (by omega), hget i' (by omega)] at this
    exact this

/-! ### `find_intercepts` -/

/-- which of the three answers `find_intercepts` gives -/
theorem findIntercepts_cases (solve : List (List ℝ) → List ℝ → Option (List ℝ))
    (extreme : List (List ℝ)) (best worst frontWorst : List ℝ) :
    let A := extreme.map (fun r => List.zipWith (· - ·) r best)
    let b := List.replicate best.length (RealLike.ofNat 1 : ℝ)
    (solve A b = none ∧ findIntercepts solve extreme best worst frontWorst = worst) ∨
    (findIntercepts solve extreme best worst frontWorst = frontWorst) ∨
    (∃ x, solve A b = some x ∧ x.any isZero = false ∧ acceptIntercepts A x best worst = true ∧
      findIntercepts solve extreme best worst frontWorst =
        List.zipWith (· + ·) (x.map (fun v => RealLike.ofNat 1 / v)) best) := by
  intro A b
  unfold findIntercepts
  simp only []
  split
  · next h => left; exact ⟨h, rfl⟩
  · next x h =>
    right
    split
    · left; rfl
    · next hz =>
      split
      · next ha => right; exact ⟨x, h, by simpa using hz, ha, rfl⟩
      · left; rfl

/-- what the acceptance test guarantees: the solve contract holds up to `allclose`, every intercept
exceeds `1e-6` (in particular is positive), and ideal + intercept does not exceed the worst point. -/
theorem acceptIntercepts_spec (A : List (List ℝ)) (x best worst : List ℝ)
    (h : acceptIntercepts A x best worst = true) :
    (∀ row ∈ A, |dot row x - 1| ≤ 1 / 100000000 + 1 / 100000 * |(1 : ℝ)|) ∧
    (∀ v ∈ x, (1 : ℝ) / 1000000 < 1 / v) ∧
    (∀ p ∈ List.zip (List.zipWith (· + ·) (x.map (fun v => (1 : ℝ) / v)) best) worst, p.1 ≤ p.2) := by
  unfold acceptIntercepts allcloseOne at h
  simp only [Bool.and_eq_true, Bool.not_eq_true', List.all_eq_true, List.any_eq_false,
    decide_eq_true_eq] at h
  obtain ⟨⟨h1, h2⟩, h3⟩ := h
  refine ⟨?_, ?_, ?_⟩
  · intro row hrow
    have := h1 (dot row x) (List.mem_map.2 ⟨row, hrow, rfl⟩)
    simpa using this
  · intro v hv
    have := h2 (RealLike.ofNat 1 / v) (List.mem_map.2 ⟨v, hv, rfl⟩)
    have e : (RealLike.ofNat 1 / v : ℝ) = 1 / v := by simp [RealLike.real_ofNat]
    have e2 : (RealLike.ofRatio 1 1000000 : ℝ) = 1 / 1000000 := by simp [RealLike.real_ofRatio]
    rw [e, e2] at this
    simpa using this
  · intro p hp
    by_contra hc
    have hlt : p.2 < p.1 := not_le.1 hc
    have hmem : decide (p.2 < p.1) ∈ List.zipWith (fun (s w : ℝ) => decide (w < s))
        (List.zipWith (· + ·) (x.map (fun v => RealLike.ofNat 1 / v)) best) worst := by
      rw [← List.map_uncurry_zip_eq_zipWith]
      refine List.mem_map.2 ⟨p, ?_, rfl⟩
      have e : (x.map (fun v => (RealLike.ofNat 1 : ℝ) / v)) = x.map (fun v => (1 : ℝ) / v) := by
        apply List.map_congr_left; intro v _; simp [RealLike.real_ofNat]
      rw [e]; exact hp
    have := h3 _ hmem
    simp [hlt] at this

/-! ### the denominators `intercepts - best + eps` of the normalisation (line 627) -/

theorem eps_pos : (0 : ℝ) < (eps : ℝ) := by
  unfold eps
  rw [RealLike.real_ofRatio]
  positivity

/-- fallback answers (`front_worst`, `current_worst`) are componentwise ≥ the ideal point, so every
denominator is at least `eps`: no division by zero, no sign flip. -/
theorem denominator_pos_of_ge (intercepts best : List ℝ)
    (hge : ∀ p ∈ List.zip intercepts best, p.2 ≤ p.1) :
    ∀ d ∈ List.zipWith (fun i b => i - b + (eps : ℝ)) intercepts best, (eps : ℝ) ≤ d ∧ 0 < d := by
  intro d hd
  rw [← List.map_uncurry_zip_eq_zipWith] at hd
  obtain ⟨p, hp, rfl⟩ := List.mem_map.1 hd
  have := hge p hp
  have he := eps_pos
  simp only [Function.uncurry]
  constructor <;> linarith

/-- OLD formula (before fix F21, accepted hyperplane answer returned as `1/x` relative to the ideal
point): the denominators are positive only when the ideal point is componentwise ≤ 0. -/
theorem denominator_pos_of_accept (A : List (List ℝ)) (x best worst : List ℝ)
    (h : acceptIntercepts A x best worst = true) (hb : ∀ b ∈ best, b ≤ 0) :
    ∀ d ∈ List.zipWith (fun i b => i - b + (eps : ℝ)) (x.map (fun v => (1 : ℝ) / v)) best, 0 < d := by
  intro d hd
  rw [← List.map_uncurry_zip_eq_zipWith] at hd
  obtain ⟨p, hp, rfl⟩ := List.mem_map.1 hd
  have h1 : p.1 ∈ x.map (fun v => (1 : ℝ) / v) := (List.of_mem_zip hp).1
  have h2 : p.2 ∈ best := (List.of_mem_zip hp).2
  obtain ⟨v, hv, hv'⟩ := List.mem_map.1 h1
  have := (acceptIntercepts_spec A x best worst h).2.1 v hv
  have hb' := hb p.2 h2
  have he := eps_pos
  simp only [Function.uncurry]
  rw [← hv']
  have : (0 : ℝ) < 1 / v := lt_trans (by norm_num) this
  linarith

theorem zip_le_of_getElem (hi lo : List ℝ) (n : Nat) (h1 : hi.length = n) (h2 : lo.length = n)
    (h : ∀ j (hj1 : j < hi.length) (hj2 : j < lo.length), lo[j] ≤ hi[j]) :
    ∀ p ∈ List.zip hi lo, p.2 ≤ p.1 := by
  intro p hp
  obtain ⟨i, hi', rfl⟩ := List.getElem_of_mem hp
  simp only [List.getElem_zip]
  exact h i (by simp at hi'; omega) (by simp at hi'; omega)

/-- the model's own `front_worst` and `worst_point` are componentwise ≥ its ideal point (plain call:
no memory; memory call: both remembered points present), for a non-empty rectangular matrix. -/
theorem fallback_ge_ideal_nomem (r0 : List ℝ) (rs : List (List ℝ))
    (hrect : ∀ r ∈ rs, r.length = r0.length) :
    ∀ p ∈ List.zip (colMax0 (r0 :: rs)) (idealPoint (r0 :: rs) none), p.2 ≤ p.1 := by
  have e : colMax0 (r0 :: rs) = @Nsga3.colMax ℝ _ _ rs r0 := colMax_bridge rs r0
  obtain ⟨hl, hi⟩ := idealPoint_nomem r0 rs hrect
  refine zip_le_of_getElem _ _ r0.length (by rw [e]; exact colMax_length rs r0 hrect) hl ?_
  intro j hj1 hj2
  have hj : j < r0.length := by rw [hl] at hj2; exact hj2
  have a := (hi j hj hj2).1 r0 List.mem_cons_self hj
  have b := (colMax_getElem rs r0 hrect j hj).1
  simp only [e]
  exact le_trans a b

theorem fallback_ge_ideal_mem (r0 : List ℝ) (rs : List (List ℝ)) (mb mw : List ℝ)
    (hrect : ∀ r ∈ rs, r.length = r0.length) (hb : mb.length = r0.length) (hw : mw.length = r0.length) :
    (∀ p ∈ List.zip (colMax0 (r0 :: rs)) (idealPoint (r0 :: rs) (some mb)), p.2 ≤ p.1) ∧
    (∀ p ∈ List.zip (worstPoint (r0 :: rs) (some mw)) (idealPoint (r0 :: rs) (some mb)), p.2 ≤ p.1) := by
  have hrb : ∀ r ∈ r0 :: rs, r.length = mb.length := by
    intro r hr; rcases List.mem_cons.1 hr with h | h
    · rw [h, hb]
    · rw [hrect r h, hb]
  have hrw : ∀ r ∈ r0 :: rs, r.length = mw.length := by
    intro r hr; rcases List.mem_cons.1 hr with h | h
    · rw [h, hw]
    · rw [hrect r h, hw]
  have e : colMax0 (r0 :: rs) = @Nsga3.colMax ℝ _ _ rs r0 := colMax_bridge rs r0
  obtain ⟨hl, hi⟩ := idealPoint_mem (r0 :: rs) mb hrb
  obtain ⟨hlw, hwi⟩ := worstPoint_mem (r0 :: rs) mw hrw
  constructor
  · refine zip_le_of_getElem _ _ r0.length (by rw [e]; exact colMax_length rs r0 hrect) (by rw [hl, hb]) ?_
    intro j hj1 hj2
    have hj : j < r0.length := by rw [hl, hb] at hj2; exact hj2
    have a := (hi j (by omega) hj2).2.1 r0 List.mem_cons_self hj
    have b := (colMax_getElem rs r0 hrect j hj).1
    simp only [e]
    exact le_trans a b
  · refine zip_le_of_getElem _ _ r0.length (by rw [hlw, hw]) (by rw [hl, hb]) ?_
    intro j hj1 hj2
    have hj : j < r0.length := by rw [hl, hb] at hj2; exact hj2
    have a := (hi j (by omega) hj2).2.1 r0 List.mem_cons_self hj
    have b := (hwi j (by omega) hj1).2 r0 List.mem_cons_self hj
    exact le_trans a b

theorem accept_example : acceptIntercepts [[(3 : ℝ), 0], [0, 3]] [1 / 3, 1 / 3] [5, 5] [8, 8] = true := by
  unfold acceptIntercepts allcloseOne dot RealLike.sum
  simp only [List.map, List.zipWith, List.foldl, List.all_cons, List.all_nil, List.any_cons, List.any_nil,
    RealLike.real_ofNat, RealLike.real_ofRatio, RealLike.real_abs, RealLike.real_add, RealLike.real_mul,
    RealLike.real_sub, RealLike.real_div, RealLike.real_lt, RealLike.real_le, Bool.and_true, Bool.or_false,
    Bool.and_eq_true, decide_eq_true_eq, Bool.not_eq_true', Bool.or_eq_false_iff, decide_eq_false_iff_not, id]
  norm_num

/-- OLD formula (before fix F21): the unconditional statement "the normalisation never divides by a
non-positive number" was FALSE: `find_intercepts` returned the hyperplane intercepts *relative to
the ideal point* (it tests `intercepts + best_point > current_worst`), but line 627 subtracts the
ideal point from them again.  Ideal point (5,5), extreme points (8,5), (5,8), worst point (8,8):
the solve answer (1/3, 1/3) passes every guard, the intercepts are (3,3), and both denominators
are `3 - 5 + eps < 0` (every normalised coordinate changes sign). -/
theorem denominator_can_be_negative :
    ∃ (A : List (List ℝ)) (x best worst : List ℝ), acceptIntercepts A x best worst = true ∧
      ∀ d ∈ List.zipWith (fun i b => i - b + (eps : ℝ)) (x.map (fun v => (1 : ℝ) / v)) best, d < 0 := by
  refine ⟨[[3, 0], [0, 3]], [1 / 3, 1 / 3], [5, 5], [8, 8], accept_example, ?_⟩
  have he : (eps : ℝ) < 1 := by
    unfold eps; rw [RealLike.real_ofRatio]; norm_num
  intro d hd
  simp only [List.map, List.zipWith, List.mem_cons, List.not_mem_nil, or_false] at hd
  rcases hd with h | h <;> (rw [h]; norm_num; linarith)

/-! ### the fixed code (F21): accepted intercepts are returned as `1/x + ideal` -/

theorem denominator_pos_fixed_aux : ∀ (inv best : List ℝ), (∀ v ∈ inv, 0 < v) →
    ∀ d ∈ List.zipWith (fun i b => i - b + (eps : ℝ)) (List.zipWith (· + ·) inv best) best,
      (eps : ℝ) < d := by
  intro inv
  induction inv with
  | nil => intro best _ d hd; simp at hd
  | cons v vs ih =>
    intro best hpos d hd
    cases best with
    | nil => simp at hd
    | cons b bs =>
      simp only [List.zipWith_cons_cons, List.mem_cons] at hd
      rcases hd with h | h
      · have := hpos v (by simp); rw [h]; linarith
      · exact ih bs (fun v' hv' => hpos v' (by simp [hv'])) d h

/-- every denominator of the normalisation is positive, whatever `solve` answers: the model's own
ideal / worst / extreme points and intercepts (plain call and memory call). -/
theorem normalisation_denominator_pos (solve : List (List ℝ) → List ℝ → Option (List ℝ))
    (r0 : List ℝ) (rs : List (List ℝ)) (hrect : ∀ r ∈ rs, r.length = r0.length)
    (me : Option (List (List ℝ))) :
    (∀ d ∈ List.zipWith (fun i b => i - b + (eps : ℝ))
        (normalisation solve (r0 :: rs) none none me).2.2.2
        (normalisation solve (r0 :: rs) none none me).1, 0 < d) ∧
    (∀ mb mw : List ℝ, mb.length = r0.length → mw.length = r0.length →
      ∀ d ∈ List.zipWith (fun i b => i - b + (eps : ℝ))
        (normalisation solve (r0 :: rs) (some mb) (some mw) me).2.2.2
        (normalisation solve (r0 :: rs) (some mb) (some mw) me).1, 0 < d) := by
  have key : ∀ (best worst fw : List ℝ) (extreme : List (List ℝ)),
      (∀ p ∈ List.zip worst best, p.2 ≤ p.1) → (∀ p ∈ List.zip fw best, p.2 ≤ p.1) →
      ∀ d ∈ List.zipWith (fun i b => i - b + (eps : ℝ))
        (findIntercepts solve extreme best worst fw) best, 0 < d := by
    intro best worst fw extreme hw hf d hd
    rcases findIntercepts_cases solve extreme best worst fw with ⟨_, h⟩ | h | ⟨x, _, _, ha, h⟩
    · rw [h] at hd; exact (denominator_pos_of_ge worst best hw d hd).2
    · rw [h] at hd; exact (denominator_pos_of_ge fw best hf d hd).2
    · rw [h] at hd
      have hpos : ∀ v ∈ x.map (fun v => (RealLike.ofNat 1 : ℝ) / v), 0 < v := by
        intro v hv
        obtain ⟨u, hu, rfl⟩ := List.mem_map.1 hv
        have := (acceptIntercepts_spec _ x best worst ha).2.1 u hu
        have e : (RealLike.ofNat 1 / u : ℝ) = 1 / u := by simp only [RealLike.real_ofNat, Nat.cast_one]
        rw [e]; exact lt_trans (by norm_num) this
      exact lt_trans eps_pos (denominator_pos_fixed_aux _ best hpos d hd)
  constructor
  · intro d hd
    exact key _ _ _ _ (fallback_ge_ideal_nomem r0 rs hrect) (fallback_ge_ideal_nomem r0 rs hrect) d hd
  · intro mb mw hb hw d hd
    obtain ⟨h1, h2⟩ := fallback_ge_ideal_mem r0 rs mb mw hrect hb hw
    exact key _ _ _ _ h2 h1 d hd

end C07L
