/-
C20 — small technical lemmas used by `Props/C20.lean` (guards, unit-circle pairs, zipWith algebra).
-/
import DeapModel.Lemmas.C20Real
import DeapModel.Lemmas.C20Tools
import Mathlib.Analysis.SpecialFunctions.Trigonometric.Basic

set_option linter.unusedSimpArgs false

namespace C20L
open RealLike Bench BenchTools

theorem dtlzOk_iff (n M : Nat) : dtlzOk n M = true ↔ (1 ≤ M ∧ M - 1 ≤ n) := by simp [dtlzOk]

theorem sphere_pairs (l : List ℝ) (θ : ℝ → ℝ) :
    ∀ p ∈ l.map (fun v => ((RealLike.cos (θ v) : ℝ), (RealLike.sin (θ v) : ℝ))), p.1 ^ 2 + p.2 ^ 2 = 1 := by
  intro p hp
  simp only [List.mem_map] at hp
  obtain ⟨v, _, rfl⟩ := hp
  real_bridge; exact Real.cos_sq_add_sin_sq _

theorem angles_pairs (g : ℝ) (xc : List ℝ) : ∀ p ∈ dtlz56Angles g xc, p.1 ^ 2 + p.2 ^ 2 = 1 := by
  intro p hp
  cases xc with
  | nil => simp [dtlz56Angles] at hp
  | cons x0 r =>
    simp only [dtlz56Angles, List.mem_cons, List.mem_map] at hp
    rcases hp with rfl | ⟨v, _, rfl⟩
    · real_bridge; exact Real.cos_sq_add_sin_sq _
    · real_bridge; exact Real.cos_sq_add_sin_sq _

theorem angles_length (g : ℝ) (xc : List ℝ) : (dtlz56Angles g xc).length = xc.length := by
  cases xc <;> simp [dtlz56Angles]

theorem zipWith_sub_add (x t : List ℝ) (h : t.length = x.length) :
    List.zipWith (· + ·) (List.zipWith (· - ·) x t) t = x := by
  induction x generalizing t with
  | nil => simp
  | cons a x ih =>
    cases t with
    | nil => simp at h
    | cons b t => simp only [List.zipWith_cons_cons]; rw [ih t (by simpa using h)]; simp

theorem scaleFactor_eq (factor : List ℝ) (h : ∀ c ∈ factor, c ≠ 0) :
    scaleFactor factor = some (factor.map fun c => 1 / c) := by
  unfold scaleFactor
  apply mapM_eq_some
  intro c hc
  have hne := h c hc
  real_bridge
  have : c < ((0 : ℕ) : ℝ) ∨ ((0 : ℕ) : ℝ) < c := by push_cast; exact lt_or_gt_of_ne hne
  rw [if_pos this]; norm_num

theorem prod_cos_le_one (l : List ℝ) : |(l.map Real.cos).prod| ≤ 1 := by
  induction l with
  | nil => simp
  | cons a t ih =>
    simp only [List.map_cons, List.prod_cons, abs_mul]
    have := Real.abs_cos_le_one a
    calc |Real.cos a| * |(t.map Real.cos).prod| ≤ 1 * 1 := mul_le_mul this ih (abs_nonneg _) (by norm_num)
      _ = 1 := by ring

theorem sum_map_ge {β : Type} (l : List β) (f : β → ℝ) (c : ℝ) (h : ∀ p ∈ l, c ≤ f p) :
    c * l.length ≤ (l.map f).sum := by
  induction l with
  | nil => simp
  | cons a t ih =>
    simp only [List.map_cons, List.sum_cons, List.length_cons]
    have := h a (by simp); have := ih (fun p hp => h p (by simp [hp])); push_cast; linarith

theorem sum_map_le' {β : Type} (l : List β) (f : β → ℝ) (c : ℝ) (h : ∀ p ∈ l, f p ≤ c) :
    (l.map f).sum ≤ c * l.length := by
  induction l with
  | nil => simp
  | cons a t ih =>
    simp only [List.map_cons, List.sum_cons, List.length_cons]
    have := h a (by simp); have := ih (fun p hp => h p (by simp [hp])); push_cast; linarith
theorem sq_sub_ten_cos (a b : ℝ) : (-10 : ℝ) ≤ a ^ 2 - ((10 : ℕ) : ℝ) * Real.cos b := by
  have := Real.cos_le_one b; have := sq_nonneg a; push_cast; linarith

theorem sum_nonneg_of_mem (l : List ℝ) (h : ∀ v ∈ l, 0 ≤ v) : 0 ≤ l.sum := by
  have := sum_map_nonneg l id (by simpa using h); simpa using this

theorem zipWith_ofFn {n : Nat} (g : ℝ → ℝ → ℝ) (a b : Fin n → ℝ) :
    List.zipWith g (List.ofFn a) (List.ofFn b) = List.ofFn fun i => g (a i) (b i) := by
  apply List.ext_getElem (by simp)
  intro i h1 h2
  simp

end C20L
