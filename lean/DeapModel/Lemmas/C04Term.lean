/-
C04 lemmas, part 6: the recursion of the log-time sort always makes progress (model B never answers
`none` when it is started with at least two objectives).  The argument is the balance argument of
`splitA` / `splitB`: the median of a non-empty list lies between two of its elements, so the side
that receives the elements equal to the median can only be chosen empty/full when all elements are
equal on the objective — which the callers exclude.
-/
import DeapModel.Lemmas.C04Log
import Mathlib.Algebra.Order.Field.Basic

set_option linter.unusedSectionVars false
set_option linter.unusedSimpArgs false
set_option linter.unusedVariables false

namespace C04L
open NDSort

variable {α : Type} [Field α] [LinearOrder α] [IsStrictOrderedRing α] [Inhabited α]

/-- Twice the median lies between twice the key of some element and twice the key of another. -/
theorem median2_sandwich {β : Type} [Inhabited β] (key : β → α) (seq : List β) (hne : seq ≠ []) :
    (∃ x ∈ seq, key x + key x ≤ median2 seq key) ∧ (∃ y ∈ seq, median2 seq key ≤ key y + key y) := by
  have hperm : (pySortedBy key seq).Perm seq := List.mergeSort_perm _ _
  have hlen : (pySortedBy key seq).length = seq.length := hperm.length_eq
  have hn : 0 < seq.length := List.length_pos_iff.2 hne
  have hsorted : (pySortedBy key seq).Pairwise (fun a b => ¬ key b < key a) := by
    have := List.pairwise_mergeSort (le := fun (a b : β) => !decide (key b < key a))
      (by intro a b c h1 h2
          simp only [Bool.not_eq_true', decide_eq_false_iff_not, not_lt] at h1 h2 ⊢
          exact le_trans h1 h2)
      (by intro a b
          simp only [Bool.or_eq_true, Bool.not_eq_true', decide_eq_false_iff_not, not_lt]
          exact le_total _ _) seq
    simpa [pySortedBy] using this
  have hp : (seq.length - 1) / 2 < (pySortedBy key seq).length := by rw [hlen]; omega
  have hq : seq.length / 2 < (pySortedBy key seq).length := by rw [hlen]; omega
  have hgp : (pySortedBy key seq).getD ((seq.length - 1) / 2) default = (pySortedBy key seq)[(seq.length - 1) / 2] := by
    simp [List.getD_eq_getElem?_getD, hp]
  have hgq : (pySortedBy key seq).getD (seq.length / 2) default = (pySortedBy key seq)[seq.length / 2] := by
    simp [List.getD_eq_getElem?_getD, hq]
  have hmp : (pySortedBy key seq)[(seq.length - 1) / 2] ∈ seq := hperm.mem_iff.1 (List.getElem_mem hp)
  have hmq : (pySortedBy key seq)[seq.length / 2] ∈ seq := hperm.mem_iff.1 (List.getElem_mem hq)
  have hle : key (pySortedBy key seq)[(seq.length - 1) / 2] ≤ key (pySortedBy key seq)[seq.length / 2] := by
    by_cases e : (seq.length - 1) / 2 = seq.length / 2
    · simp only [e]; exact le_refl _
    · have hlt : (seq.length - 1) / 2 < seq.length / 2 := by omega
      exact not_lt.1 (List.pairwise_iff_getElem.1 hsorted _ _ hp hq hlt)
  simp only [median2, hgp, hgq]
  split
  · exact ⟨⟨_, hmp, le_refl _⟩, ⟨_, hmp, le_refl _⟩⟩
  · exact ⟨⟨_, hmp, add_le_add_right hle _⟩, ⟨_, hmq, add_le_add_left hle _⟩⟩

theorem length_filter_pos {β : Type} (p : β → Bool) (l : List β) (x : β) (hx : x ∈ l) (hp : p x = true) :
    1 ≤ (l.filter p).length :=
  List.length_pos_iff.2 (List.ne_nil_of_mem (List.mem_filter.2 ⟨hx, hp⟩))

/-- the arithmetic of the balance test, shared by `splitA` and `splitB`:
`a1`/`a2` = sizes of the two sides when ties go to side 1, `b1`/`b2` when they go to side 2 -/
theorem balance_progress (a1 a2 b1 b2 T : Nat) (ha : a1 + a2 = T) (hb : b1 + b2 = T)
    (hb2 : 1 ≤ b2) (ha1 : 1 ≤ a1) (hne : 1 ≤ b1 ∨ 1 ≤ a2) (hle : b1 ≤ a1) :
    (((a1 : Int) - a2).natAbs ≤ ((b1 : Int) - b2).natAbs → a1 < T ∧ a2 < T) ∧
    (¬ ((a1 : Int) - a2).natAbs ≤ ((b1 : Int) - b2).natAbs → b1 < T ∧ b2 < T) := by
  constructor
  · intro h; omega
  · intro h; omega

/-- the filters of `splitA` / `splitB` on one list: sizes -/
theorem filters_sizes {β : Type} (l : List β) (gt lt : β → Bool) (hexcl : ∀ f, gt f = true → lt f = false) :
    (l.filter (fun f => gt f || !lt f)).length + (l.filter (fun f => !gt f && lt f)).length = l.length ∧
    (l.filter gt).length + (l.filter (fun f => !gt f)).length = l.length ∧
    (l.filter gt).length ≤ (l.filter (fun f => gt f || !lt f)).length := by
  have hwa : l.filter (fun f => !gt f && lt f) = l.filter (fun f => !(gt f || !lt f)) := by
    apply List.filter_congr; intro f _; cases gt f <;> cases lt f <;> rfl
  have hA := List.length_eq_length_filter_add (l := l) (fun f => gt f || !lt f)
  have hB := List.length_eq_length_filter_add (l := l) gt
  refine ⟨by rw [hwa]; exact hA.symm, hB.symm, ?_⟩
  have : (l.filter gt).Sublist (l.filter (fun f => gt f || !lt f)) := by
    apply List.monotone_filter_right; intro f h; simp [h]
  exact this.length_le

/-- `splitA` makes progress unless the objective is constant. -/
theorem splitA_progress (fits : List (List α)) (obj : Nat) (hne : fits ≠ [])
    (hnc : ∃ z ∈ fits, median2 fits (fun f => nth f obj) < nth z obj + nth z obj ∨
                        nth z obj + nth z obj < median2 fits (fun f => nth f obj)) :
    (splitA fits obj).1.length < fits.length ∧ (splitA fits obj).2.length < fits.length ∧
    (splitA fits obj).1.length + (splitA fits obj).2.length ≤ fits.length := by
  obtain ⟨⟨x, hx, hxm⟩, ⟨y, hy, hym⟩⟩ := median2_sandwich (fun f : List α => nth f obj) fits hne
  obtain ⟨s1, s2, s3⟩ := filters_sizes fits
    (fun f => decide (median2 fits (fun f => nth f obj) < nth f obj + nth f obj))
    (fun f => decide (nth f obj + nth f obj < median2 fits (fun f => nth f obj)))
    (by intro f h; simp only [decide_eq_true_eq] at h; simp [not_lt.2 (le_of_lt h)])
  have hb2 := length_filter_pos
    (fun f => !decide (median2 fits (fun f => nth f obj) < nth f obj + nth f obj)) fits x hx
    (by simp [not_lt.2 hxm])
  have ha1 := length_filter_pos
    (fun f => decide (median2 fits (fun f => nth f obj) < nth f obj + nth f obj) ||
      !decide (nth f obj + nth f obj < median2 fits (fun f => nth f obj))) fits y hy
    (by simp [not_lt.2 hym])
  have hne' : 1 ≤ (fits.filter (fun f => decide (median2 fits (fun f => nth f obj) < nth f obj + nth f obj))).length ∨
      1 ≤ (fits.filter (fun f => !decide (median2 fits (fun f => nth f obj) < nth f obj + nth f obj) &&
        decide (nth f obj + nth f obj < median2 fits (fun f => nth f obj)))).length := by
    obtain ⟨z, hz, h | h⟩ := hnc
    · exact Or.inl (length_filter_pos _ fits z hz (by simp [h]))
    · exact Or.inr (length_filter_pos _ fits z hz (by simp [h, not_lt.2 (le_of_lt h)]))
  obtain ⟨pa, pb⟩ := balance_progress _ _ _ _ fits.length s1 s2 hb2 ha1 hne' s3
  simp only [splitA]
  split
  · next h => have := pa h; simp only []; omega
  · next h => have := pb h; simp only []; omega

theorem add_self_inj {a b : α} (h : a + a = b + b) : a = b := by
  rcases lt_trichotomy a b with hlt | heq | hgt
  · exact absurd h (ne_of_lt (add_lt_add hlt hlt))
  · exact heq
  · exact absurd h.symm (ne_of_lt (add_lt_add hgt hgt))

theorem eraseDups_const {γ : Type} [DecidableEq γ] (c : γ) : ∀ (l : List γ), l ≠ [] → (∀ a ∈ l, a = c) →
    l.eraseDups = [c]
  | [], h, _ => absurd rfl h
  | a :: l, _, hall => by
    have ha : a = c := hall a (by simp)
    subst ha
    rw [List.eraseDups_cons]
    have : l.filter (fun b => !b == a) = [] := by
      rw [List.filter_eq_nil_iff]; intro b hb; simp [hall b (by simp [hb])]
    rw [this]; simp

/-- a non-constant objective has an element off the median -/
theorem off_median_of_not_constant (fits : List (List α)) (obj : Nat) (hne : fits ≠ [])
    (h : objConstant fits obj = false) :
    ∃ z ∈ fits, median2 fits (fun f => nth f obj) < nth z obj + nth z obj ∨
                nth z obj + nth z obj < median2 fits (fun f => nth f obj) := by
  by_contra hc
  have hall : ∀ z ∈ fits, nth z obj + nth z obj = median2 fits (fun f => nth f obj) := by
    intro z hz
    by_contra hne'
    rcases lt_or_gt_of_ne hne' with h1 | h1
    · exact hc ⟨z, hz, Or.inr h1⟩
    · exact hc ⟨z, hz, Or.inl h1⟩
  obtain ⟨z0, hz0⟩ := List.exists_mem_of_ne_nil fits hne
  have hconst : ∀ a ∈ fits.map (fun f => nth f obj), a = nth z0 obj := by
    intro a ha
    obtain ⟨z, hz, rfl⟩ := List.mem_map.1 ha
    exact add_self_inj ((hall z hz).trans (hall z0 hz0).symm)
  have := eraseDups_const (nth z0 obj) (fits.map (fun f => nth f obj)) (by simpa using hne) hconst
  simp [objConstant, this] at h

theorem foldl_pick_mem {γ : Type} (c : γ → γ → Bool) : ∀ (xs : List γ) (x : γ),
    xs.foldl (fun best y => if c best y then y else best) x ∈ x :: xs
  | [], x => by simp
  | a :: xs, x => by
    simp only [List.foldl_cons]
    have := foldl_pick_mem c xs (if c x a then a else x)
    rcases List.mem_cons.1 this with h | h
    · rw [h]; split <;> simp
    · simp [h]

theorem minKey_mem (l : List (List α)) (obj : Nat) (hne : l ≠ []) :
    ∃ z ∈ l, minKey l obj = some (nth z obj) := by
  cases l with
  | nil => exact absurd rfl hne
  | cons x xs =>
    have := foldl_pick_mem (fun best y => decide (nth y obj < nth best obj)) xs x
    refine ⟨_, this, ?_⟩
    simp [minKey, pyMinBy]

theorem maxKey_mem (l : List (List α)) (obj : Nat) (hne : l ≠ []) :
    ∃ z ∈ l, maxKey l obj = some (nth z obj) := by
  cases l with
  | nil => exact absurd rfl hne
  | cons x xs =>
    have := foldl_pick_mem (fun best y => decide (nth best obj < nth y obj)) xs x
    refine ⟨_, this, ?_⟩
    simp [maxKey, pyMaxBy]

/-- `splitB` makes progress in the branch where it is called. -/
theorem splitB_progress (best worst : List (List α)) (obj : Nat) (hb : best ≠ []) (hw : worst ≠ [])
    (hskip : ¬ optGe (minKey best obj) (maxKey worst obj) = true) :
    (splitB best worst obj).1.length + (splitB best worst obj).2.2.1.length < best.length + worst.length ∧
    (splitB best worst obj).2.1.length + (splitB best worst obj).2.2.2.length < best.length + worst.length ∧
    (splitB best worst obj).1.length + (splitB best worst obj).2.2.2.length ≤ best.length + worst.length := by
  -- the median is taken over the larger list, a non-empty sublist of `best ++ worst`
  have hLne : (if best.length > worst.length then best else worst) ≠ [] := by split <;> assumption
  have hLsub : ∀ x ∈ (if best.length > worst.length then best else worst), x ∈ best ∨ x ∈ worst := by
    intro x hx; split at hx
    · exact Or.inl hx
    · exact Or.inr hx
  obtain ⟨⟨x, hx, hxm⟩, ⟨y, hy, hym⟩⟩ :=
    median2_sandwich (fun f : List α => nth f obj) _ hLne
  generalize hmed : median2 (if best.length > worst.length then best else worst) (fun f => nth f obj) = med2
    at hxm hym
  -- not every element sits on the median, otherwise the caller's `>=` test would have held
  have hnc : ∃ z, (z ∈ best ∨ z ∈ worst) ∧ (med2 < nth z obj + nth z obj ∨ nth z obj + nth z obj < med2) := by
    by_contra hc
    have hall : ∀ z, (z ∈ best ∨ z ∈ worst) → nth z obj + nth z obj = med2 := by
      intro z hz
      by_contra hne'
      rcases lt_or_gt_of_ne hne' with h1 | h1
      · exact hc ⟨z, hz, Or.inr h1⟩
      · exact hc ⟨z, hz, Or.inl h1⟩
    obtain ⟨zb, hzb, hmin⟩ := minKey_mem best obj hb
    obtain ⟨zw, hzw, hmax⟩ := maxKey_mem worst obj hw
    have : nth zb obj = nth zw obj := add_self_inj ((hall zb (Or.inl hzb)).trans (hall zw (Or.inr hzw)).symm)
    apply hskip
    rw [hmin, hmax]; simp [optGe, this]
  obtain ⟨b1, b2, b3⟩ := filters_sizes best
    (fun f => decide (med2 < nth f obj + nth f obj)) (fun f => decide (nth f obj + nth f obj < med2))
    (by intro f h; simp only [decide_eq_true_eq] at h; simp [not_lt.2 (le_of_lt h)])
  obtain ⟨w1, w2, w3⟩ := filters_sizes worst
    (fun f => decide (med2 < nth f obj + nth f obj)) (fun f => decide (nth f obj + nth f obj < med2))
    (by intro f h; simp only [decide_eq_true_eq] at h; simp [not_lt.2 (le_of_lt h)])
  -- an element not above the median, one not below, one off the median
  have hB2 : 1 ≤ (best.filter (fun f => !decide (med2 < nth f obj + nth f obj))).length +
      (worst.filter (fun f => !decide (med2 < nth f obj + nth f obj))).length := by
    rcases hLsub x hx with h | h
    · have := length_filter_pos (fun f => !decide (med2 < nth f obj + nth f obj)) best x h (by simp [not_lt.2 hxm])
      omega
    · have := length_filter_pos (fun f => !decide (med2 < nth f obj + nth f obj)) worst x h (by simp [not_lt.2 hxm])
      omega
  have hA1 : 1 ≤ (best.filter (fun f => decide (med2 < nth f obj + nth f obj) ||
        !decide (nth f obj + nth f obj < med2))).length +
      (worst.filter (fun f => decide (med2 < nth f obj + nth f obj) ||
        !decide (nth f obj + nth f obj < med2))).length := by
    rcases hLsub y hy with h | h
    · have := length_filter_pos (fun f => decide (med2 < nth f obj + nth f obj) ||
        !decide (nth f obj + nth f obj < med2)) best y h (by simp [not_lt.2 hym])
      omega
    · have := length_filter_pos (fun f => decide (med2 < nth f obj + nth f obj) ||
        !decide (nth f obj + nth f obj < med2)) worst y h (by simp [not_lt.2 hym])
      omega
  have hNE : 1 ≤ (best.filter (fun f => decide (med2 < nth f obj + nth f obj))).length +
        (worst.filter (fun f => decide (med2 < nth f obj + nth f obj))).length ∨
      1 ≤ (best.filter (fun f => !decide (med2 < nth f obj + nth f obj) &&
          decide (nth f obj + nth f obj < med2))).length +
        (worst.filter (fun f => !decide (med2 < nth f obj + nth f obj) &&
          decide (nth f obj + nth f obj < med2))).length := by
    obtain ⟨z, hz, h | h⟩ := hnc
    · left
      rcases hz with hz | hz
      · have := length_filter_pos (fun f => decide (med2 < nth f obj + nth f obj)) best z hz (by simp [h]); omega
      · have := length_filter_pos (fun f => decide (med2 < nth f obj + nth f obj)) worst z hz (by simp [h]); omega
    · right
      rcases hz with hz | hz
      · have := length_filter_pos (fun f => !decide (med2 < nth f obj + nth f obj) &&
          decide (nth f obj + nth f obj < med2)) best z hz (by simp [h, not_lt.2 (le_of_lt h)]); omega
      · have := length_filter_pos (fun f => !decide (med2 < nth f obj + nth f obj) &&
          decide (nth f obj + nth f obj < med2)) worst z hz (by simp [h, not_lt.2 (le_of_lt h)]); omega
  simp only [splitB, hmed]
  split
  · next h => simp only []; omega
  · next h => simp only []; omega

/-- `sortNDHelperB` always finishes when started on an objective index ≥ 1. -/
theorem helperB_isSome (best worst : List (List α)) (obj : Nat) (front : FrontDict α) :
    1 ≤ obj → (helperB best worst obj front).isSome = true := by
  fun_induction helperB best worst obj front
  case case1 => intro _; rfl
  case case2 => intro _; rfl
  case case3 => intro _; rfl
  case case4 => intro h; omega
  case case5 ih => intro _; exact ih (by omega)
  case case6 best worst obj front h1 h2 h3 h4 h5 h6 b1 b2 w1 w2 hs hg ih3 ih2 ih1 =>
    intro ho
    obtain ⟨f1, hf1⟩ := Option.isSome_iff_exists.1 (ih3 ho)
    obtain ⟨f2, hf2⟩ := Option.isSome_iff_exists.1 (ih2 f1 (by omega))
    rw [hf1, Option.bind_some, hf2, Option.bind_some]
    exact ih1 f2 ho
  case case7 best worst obj front h1 h2 h3 h4 h5 h6 b1 b2 w1 w2 hs hg =>
    intro _
    exfalso
    have hb : best ≠ [] := by intro e; apply h1; right; simp [e]
    have hw : worst ≠ [] := by intro e; apply h1; left; simp [e]
    have := splitB_progress best worst obj hb hw h5
    rw [hs] at this
    exact hg this
  case case8 => intro _; rfl

/-- `sortNDHelperA` always finishes when started on an objective index ≥ 1. -/
theorem helperA_isSome (fits : List (List α)) (obj : Nat) (front : FrontDict α) :
    1 ≤ obj → (helperA fits obj front).isSome = true := by
  fun_induction helperA fits obj front
  case case1 => intro _; rfl
  case case2 => intro _; rfl
  case case3 => intro _; rfl
  case case4 => intro _; rfl
  case case5 => intro h; omega
  case case6 ih => intro _; exact ih (by omega)
  case case7 fits obj front h1 h2 h3 h4 h5 best worst hs hg ih2 ih1 =>
    intro ho
    obtain ⟨f1, hf1⟩ := Option.isSome_iff_exists.1 (ih2 ho)
    obtain ⟨f2, hf2⟩ := Option.isSome_iff_exists.1 (helperB_isSome best worst (obj - 1) f1 (by omega))
    rw [hf1, Option.bind_some, hf2, Option.bind_some]
    exact ih1 f2 ho
  case case8 fits obj front h1 h2 h3 h4 h5 best worst hs hg =>
    intro _
    exfalso
    have hne : fits ≠ [] := by intro e; apply h1; simp [e]
    have hnc := off_median_of_not_constant fits obj hne (by simpa using h5)
    have := splitA_progress fits obj hne hnc
    rw [hs] at this
    exact hg this

/-- **B1.**  Model B (`sortLogNondominated`) finishes on every non-empty population whose
fitnesses have at least two objectives. -/
theorem sortLog_isSome (pop : List (Ind α)) (m : Nat) (hm : 2 ≤ m) (hne : pop ≠ [])
    (hlen : ∀ x ∈ pop, x.w.length = m) (k : Nat) :
    (sortLog pop k).isSome = true ∧ (sortLogFirst pop k).isSome = true := by
  have hr : (logRanks pop).isSome = true := by
    cases pop with
    | nil => exact absurd rfl hne
    | cons ind0 rest =>
      have h0 : ind0.w.length = m := hlen ind0 (by simp)
      simp only [logRanks, Option.isSome_map]
      exact helperA_isSome _ _ _ (by omega)
  obtain ⟨r, hr'⟩ := Option.isSome_iff_exists.1 hr
  constructor
  · simp only [sortLog]; split
    · rfl
    · rw [hr']; rfl
  · simp only [sortLogFirst]; split
    · rfl
    · rw [hr']; rfl

end C04L
