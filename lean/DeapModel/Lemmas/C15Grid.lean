import DeapModel.Core.Hypervolume
import Mathlib.Tactic.Linarith
import Mathlib.Tactic.Ring
import Mathlib.Algebra.Order.Field.Rat
import Mathlib.Data.List.Basic
/-!
C15 — combinatorial lemmas about the grid specification `hvCells`:
flat sum ↔ nested sum, grid-refinement invariance, discrete Fubini, inclusion–exclusion.
-/
namespace Hypervolume
set_option linter.unusedVariables false

/-! ### sums -/

@[simp] theorem sumRat_nil : sumRat [] = 0 := rfl
@[simp] theorem sumRat_cons (a : ℚ) (l : List ℚ) : sumRat (a :: l) = a + sumRat l := rfl

theorem sumRat_append (l₁ l₂ : List ℚ) : sumRat (l₁ ++ l₂) = sumRat l₁ + sumRat l₂ := by
  induction l₁ with
  | nil => simp
  | cons a l ih => simp [ih, add_assoc]

theorem sumRat_map_mul_left {β : Type} (k : ℚ) (f : β → ℚ) (l : List β) :
    sumRat (l.map (fun x => k * f x)) = k * sumRat (l.map f) := by
  induction l with
  | nil => simp
  | cons a l ih => simp [ih, mul_add]

theorem sumRat_map_zero {β : Type} (l : List β) : sumRat (l.map (fun _ => (0 : ℚ))) = 0 := by
  induction l with
  | nil => rfl
  | cons a l ih => rw [List.map_cons, sumRat_cons, ih, add_zero]

theorem sumRat_map_congr {β : Type} (f g : β → ℚ) (l : List β) (h : ∀ x ∈ l, f x = g x) :
    sumRat (l.map f) = sumRat (l.map g) := by
  rw [List.map_congr_left h]

theorem sumRat_map_le {β : Type} (f g : β → ℚ) (l : List β) (h : ∀ x ∈ l, f x ≤ g x) :
    sumRat (l.map f) ≤ sumRat (l.map g) := by
  induction l with
  | nil => simp
  | cons a l ih =>
    simp only [List.map_cons, sumRat_cons]
    have h1 := h a (by simp)
    have h2 := ih (fun x hx => h x (by simp [hx]))
    linarith

theorem sumRat_map_nonneg {β : Type} (f : β → ℚ) (l : List β) (h : ∀ x ∈ l, 0 ≤ f x) :
    0 ≤ sumRat (l.map f) := by
  have := sumRat_map_le (fun _ => (0 : ℚ)) f l h
  rwa [sumRat_map_zero] at this

/-- termwise inclusion–exclusion -/
theorem sumRat_map_or_and {β : Type} (a b : β → Bool) (v : β → ℚ) (l : List β) :
    sumRat (l.map (fun x => if (a x || b x) then v x else 0))
      = sumRat (l.map (fun x => if a x then v x else 0)) + sumRat (l.map (fun x => if b x then v x else 0))
        - sumRat (l.map (fun x => if (a x && b x) then v x else 0)) := by
  induction l with
  | nil => simp
  | cons x l ih =>
    simp only [List.map_cons, sumRat_cons, ih]
    cases a x <;> cases b x <;> simp <;> ring

theorem sumRat_flatMap_map {β γ : Type} (l : List β) (m : β → List γ) (f : γ → ℚ) :
    sumRat ((l.flatMap m).map f) = sumRat (l.map (fun x => sumRat ((m x).map f))) := by
  induction l with
  | nil => simp
  | cons a l ih => simp [List.flatMap_cons, sumRat_append, ih]

/-! ### flat sum over cells = nested sum (distributivity) -/

theorem covered_cons (pts : List Pt) (iv : ℚ × ℚ) (c : List (ℚ × ℚ)) :
    covered pts (iv :: c) = covered (sub pts iv.1) c := by
  unfold covered sub
  rw [List.any_map, List.any_filter]
  rfl

theorem stepSum_congr (ax : List ℚ) (f g : ℚ → ℚ) (h : ∀ x, f x = g x) : stepSum ax f = stepSum ax g := by
  have : f = g := funext h
  rw [this]

theorem hvGrid_cons (ax : List ℚ) (A : List (List ℚ)) (pts : List Pt) :
    hvGrid (ax :: A) pts = stepSum ax (fun lo => hvGrid A (sub pts lo)) := by
  unfold hvGrid stepSum
  rw [cells, sumRat_flatMap_map]
  apply sumRat_map_congr
  intro iv _
  rw [List.map_map, ← sumRat_map_mul_left]
  apply sumRat_map_congr
  intro c _
  simp only [Function.comp, covered_cons, cellVol]
  split <;> simp

theorem covered_nil (c : List (ℚ × ℚ)) : covered [] c = false := rfl

theorem hvGrid_nil_pts (A : List (List ℚ)) : hvGrid A [] = 0 := by
  unfold hvGrid
  simp only [covered_nil]
  exact sumRat_map_zero _

theorem hvCells_nil_pts (ref : List ℚ) : hvCells ref [] = 0 := hvGrid_nil_pts _

theorem sub_nil (lo : ℚ) : sub [] lo = [] := rfl

theorem length_of_mem_cells : ∀ (A : List (List ℚ)) (c : List (ℚ × ℚ)), c ∈ cells A → c.length = A.length
  | [], c, h => by simp [cells] at h; simp [h]
  | ax :: A, c, h => by
    simp only [cells, List.mem_flatMap, List.mem_map] at h
    obtain ⟨iv, _, c', hc', rfl⟩ := h
    simp [length_of_mem_cells A c' hc']

/-! ### one-dimensional refinement: dropping breakpoints at which the integrand does not change -/

theorem stepSum_cons₂ (a b : ℚ) (t : List ℚ) (g : ℚ → ℚ) :
    stepSum (a :: b :: t) g = (b - a) * g a + stepSum (b :: t) g := rfl

theorem mem_intervals_cons₂ (a b : ℚ) (t : List ℚ) (p : ℚ × ℚ) :
    p ∈ intervals (a :: b :: t) ↔ p = (a, b) ∨ p ∈ intervals (b :: t) := by
  simp [intervals]

theorem stepSum_filter_aux (keep : ℚ → Bool) (g : ℚ → ℚ) :
    ∀ (n : ℕ) (a : ℚ) (t : List ℚ), t.length ≤ n →
      (∀ x, t.getLast? = some x → keep x = true) →
      (∀ x y, (x, y) ∈ intervals (a :: t) → keep y = false → g y = g x) →
      stepSum (a :: t) g = stepSum (a :: t.filter keep) g := by
  intro n
  induction n with
  | zero =>
    intro a t hn _ _
    have : t = [] := List.length_eq_zero_iff.mp (Nat.le_zero.mp hn)
    subst this; rfl
  | succ n ih =>
    intro a t hn hlast hpairs
    match t, hn, hlast, hpairs with
    | [], _, _, _ => rfl
    | b :: t', hn, hlast, hpairs =>
      cases hk : keep b with
      | true =>
        rw [List.filter_cons_of_pos (by simpa using hk), stepSum_cons₂, stepSum_cons₂]
        congr 1
        apply ih b t' (by simpa using hn)
        · intro x hx
          apply hlast x
          cases t' with
          | nil => simp at hx
          | cons c t'' => rw [List.getLast?_cons_cons]; exact hx
        · intro x y hxy
          exact hpairs x y ((mem_intervals_cons₂ a b t' (x, y)).mpr (Or.inr hxy))
      | false =>
        rw [List.filter_cons_of_neg (by simp [hk])]
        match t', hn, hlast, hpairs with
        | [], _, hlast, _ =>
          have := hlast b (by simp)
          rw [hk] at this; cases this
        | c :: t'', hn, hlast, hpairs =>
          have hgb : g b = g a := hpairs a b (by simp [intervals]) hk
          have h1 : stepSum (a :: b :: c :: t'') g = stepSum (a :: c :: t'') g := by
            rw [stepSum_cons₂, stepSum_cons₂, stepSum_cons₂, hgb]; ring
          rw [h1]
          apply ih a (c :: t'') (by simp at hn ⊢; omega)
          · intro x hx
            apply hlast x
            rw [List.getLast?_cons_cons]; exact hx
          · intro x y hxy hy
            rcases (mem_intervals_cons₂ a c t'' (x, y)).mp hxy with h | h
            · cases h
              rw [← hgb]
              exact hpairs b c (by simp [intervals]) hy
            · exact hpairs x y (by simp [intervals, h]) hy

/-- Dropping from a breakpoint list every value at which `g` does not change (and leading values where
`g` vanishes) leaves the step sum unchanged, as long as the last breakpoint is kept. -/
theorem stepSum_filter (keep : ℚ → Bool) (g : ℚ → ℚ) :
    ∀ (l : List ℚ),
      (∀ x, l.getLast? = some x → keep x = true) →
      (∀ x, l.head? = some x → keep x = false → g x = 0) →
      (∀ x y, (x, y) ∈ intervals l → keep y = false → g y = g x) →
      stepSum l g = stepSum (l.filter keep) g := by
  intro l
  induction l with
  | nil => intros; rfl
  | cons a t ih =>
    intro hlast hhead hpairs
    cases hk : keep a with
    | true =>
      rw [List.filter_cons_of_pos (by simpa using hk)]
      apply stepSum_filter_aux keep g t.length a t (le_refl _)
      · intro x hx
        apply hlast x
        cases t with
        | nil => simp at hx
        | cons c t'' => rw [List.getLast?_cons_cons]; exact hx
      · exact hpairs
    | false =>
      rw [List.filter_cons_of_neg (by simp [hk])]
      have hga : g a = 0 := hhead a (by simp) hk
      match t, ih, hlast, hpairs with
      | [], _, hlast, _ =>
        have := hlast a (by simp)
        rw [hk] at this; cases this
      | b :: t', ih, hlast, hpairs =>
        rw [stepSum_cons₂, hga, mul_zero, zero_add]
        apply ih
        · intro x hx
          apply hlast x
          rw [List.getLast?_cons_cons]; exact hx
        · intro x hx hkx
          have hx' : b = x := by simpa using hx
          subst hx'
          rw [hpairs a b (by simp [intervals]) hkx, hga]
        · intro x y hxy
          exact hpairs x y ((mem_intervals_cons₂ a b t' (x, y)).mpr (Or.inr hxy))

/-! ### strictly ascending breakpoint lists -/

theorem mem_insertUniq (x y : ℚ) : ∀ l : List ℚ, y ∈ insertUniq x l ↔ y = x ∨ y ∈ l
  | [] => by simp [insertUniq]
  | z :: l => by
    unfold insertUniq
    split
    · simp
    · split
      · rename_i h; subst h; simp
      · simp [mem_insertUniq x y l]; tauto

theorem pairwise_insertUniq (x : ℚ) : ∀ l : List ℚ, l.Pairwise (· < ·) → (insertUniq x l).Pairwise (· < ·)
  | [], _ => by simp [insertUniq]
  | z :: l, h => by
    unfold insertUniq
    have hz := List.pairwise_cons.mp h
    split
    · rename_i hxz
      refine List.pairwise_cons.mpr ⟨?_, h⟩
      intro w hw
      rcases List.mem_cons.mp hw with rfl | hw
      · exact hxz
      · exact lt_trans hxz (hz.1 w hw)
    · split
      · exact h
      · rename_i h1 h2
        refine List.pairwise_cons.mpr ⟨?_, pairwise_insertUniq x l hz.2⟩
        intro w hw
        rcases (mem_insertUniq x w l).mp hw with rfl | hw
        · exact lt_of_le_of_ne (not_lt.mp h1) (fun h => h2 h.symm)
        · exact hz.1 w hw

theorem mem_sortDedup (y : ℚ) : ∀ l : List ℚ, y ∈ sortDedup l ↔ y ∈ l
  | [] => by simp [sortDedup]
  | x :: l => by
    have := mem_sortDedup y l
    unfold sortDedup at this ⊢
    rw [List.foldr_cons, mem_insertUniq, this]; simp

theorem pairwise_sortDedup : ∀ l : List ℚ, (sortDedup l).Pairwise (· < ·)
  | [] => by simp [sortDedup]
  | x :: l => by
    have := pairwise_sortDedup l
    unfold sortDedup at this ⊢
    rw [List.foldr_cons]; exact pairwise_insertUniq x _ this

theorem mem_axisOf (r : ℚ) (xs : List ℚ) (y : ℚ) : y ∈ axisOf r xs ↔ (y = r ∨ y ∈ xs) ∧ y ≤ r := by
  unfold axisOf
  rw [mem_sortDedup, List.mem_filter]
  simp

theorem pairwise_axisOf (r : ℚ) (xs : List ℚ) : (axisOf r xs).Pairwise (· < ·) := pairwise_sortDedup _

/-- A strictly ascending list is determined by its members. -/
theorem eq_of_pairwise_lt : ∀ (l₁ l₂ : List ℚ), l₁.Pairwise (· < ·) → l₂.Pairwise (· < ·) →
    (∀ x, x ∈ l₁ ↔ x ∈ l₂) → l₁ = l₂
  | [], [], _, _, _ => rfl
  | [], b :: l₂, _, _, h => by have := (h b).mpr (by simp); simp at this
  | a :: l₁, [], _, _, h => by have := (h a).mp (by simp); simp at this
  | a :: l₁, b :: l₂, h₁, h₂, h => by
    have p₁ := List.pairwise_cons.mp h₁
    have p₂ := List.pairwise_cons.mp h₂
    have hab : a = b := by
      have ha := (h a).mp (by simp)
      have hb := (h b).mpr (by simp)
      rcases List.mem_cons.mp ha with h1 | h1
      · exact h1
      · rcases List.mem_cons.mp hb with h2 | h2
        · exact h2.symm
        · have := p₂.1 a h1
          have := p₁.1 b h2
          linarith
    subst hab
    congr 1
    apply eq_of_pairwise_lt l₁ l₂ p₁.2 p₂.2
    intro x
    constructor
    · intro hx
      have := (h x).mp (by simp [hx])
      rcases List.mem_cons.mp this with h1 | h1
      · subst h1; exact absurd (p₁.1 x hx) (lt_irrefl _)
      · exact h1
    · intro hx
      have := (h x).mpr (by simp [hx])
      rcases List.mem_cons.mp this with h1 | h1
      · subst h1; exact absurd (p₂.1 x hx) (lt_irrefl _)
      · exact h1

/-- consecutive breakpoints of a strictly ascending list: nothing lies strictly between them -/
theorem intervals_spec : ∀ (l : List ℚ), l.Pairwise (· < ·) → ∀ x y, (x, y) ∈ intervals l →
    x ∈ l ∧ y ∈ l ∧ x < y ∧ ∀ z ∈ l, z ≤ x ∨ y ≤ z
  | [], _, x, y, h => by simp [intervals] at h
  | [a], _, x, y, h => by simp [intervals] at h
  | a :: b :: t, hp, x, y, h => by
    have p₁ := List.pairwise_cons.mp hp
    rcases (mem_intervals_cons₂ a b t (x, y)).mp h with h | h
    · cases h
      refine ⟨by simp, by simp, p₁.1 b (by simp), ?_⟩
      intro z hz
      rcases List.mem_cons.mp hz with rfl | hz
      · left; exact le_refl _
      · rcases List.mem_cons.mp hz with rfl | hz'
        · right; exact le_refl _
        · right; exact le_of_lt ((List.pairwise_cons.mp p₁.2).1 z hz')
    · obtain ⟨hx, hy, hxy, hz⟩ := intervals_spec (b :: t) p₁.2 x y h
      refine ⟨List.mem_cons_of_mem _ hx, List.mem_cons_of_mem _ hy, hxy, ?_⟩
      intro z hz'
      rcases List.mem_cons.mp hz' with rfl | hz'
      · left; exact le_of_lt (p₁.1 x hx)
      · exact hz z hz'

theorem getLast?_of_max : ∀ (l : List ℚ) (r : ℚ), l.Pairwise (· < ·) → r ∈ l → (∀ a ∈ l, a ≤ r) →
    l.getLast? = some r
  | [], r, _, h, _ => by simp at h
  | [a], r, _, h, _ => by simp at h; simp [h]
  | a :: b :: t, r, hp, h, hmax => by
    rw [List.getLast?_cons_cons]
    have p₁ := List.pairwise_cons.mp hp
    apply getLast?_of_max (b :: t) r p₁.2
    · rcases List.mem_cons.mp h with rfl | h
      · have := hmax b (by simp)
        have := p₁.1 b (by simp)
        linarith
      · exact h
    · intro x hx; exact hmax x (List.mem_cons_of_mem _ hx)

theorem head?_le_of_pairwise (l : List ℚ) (x : ℚ) (hp : l.Pairwise (· < ·)) (h : l.head? = some x) :
    ∀ z ∈ l, x ≤ z := by
  cases l with
  | nil => simp at h
  | cons a t =>
    simp at h; subst h
    intro z hz
    rcases List.mem_cons.mp hz with rfl | hz
    · exact le_refl _
    · exact le_of_lt ((List.pairwise_cons.mp hp).1 z hz)

/-! ### admissible (finer) grids and refinement invariance -/

/-- `ax` is a strictly ascending breakpoint list ending at `r` that contains every value of `xs` at or below `r`. -/
def FineAxis (r : ℚ) (xs ax : List ℚ) : Prop :=
  ax.Pairwise (· < ·) ∧ r ∈ ax ∧ (∀ a ∈ ax, a ≤ r) ∧ (∀ x ∈ xs, x ≤ r → x ∈ ax)

/-- `A` is a grid at least as fine as the grid `axes ref pts` induced by the points. -/
def Fine : List ℚ → List Pt → List (List ℚ) → Prop
  | [], _, A => A = []
  | _ :: _, _, [] => False
  | r :: ref, pts, ax :: A => FineAxis r (pts.map (fun p => p.headD 0)) ax ∧ Fine ref (pts.map List.tail) A

/-- every coordinate value of `S` occurs as the same coordinate of some point of `T` -/
def CoordSub : List ℚ → List Pt → List Pt → Prop
  | [], _, _ => True
  | _ :: ref, S, T => (∀ x ∈ S.map (fun p => p.headD 0), x ∈ T.map (fun p => p.headD 0)) ∧
      CoordSub ref (S.map List.tail) (T.map List.tail)

theorem fineAxis_axisOf (r : ℚ) (xs : List ℚ) : FineAxis r xs (axisOf r xs) :=
  ⟨pairwise_axisOf r xs, (mem_axisOf r xs r).mpr ⟨Or.inl rfl, le_refl _⟩,
   fun a ha => ((mem_axisOf r xs a).mp ha).2, fun x hx hxr => (mem_axisOf r xs x).mpr ⟨Or.inr hx, hxr⟩⟩

theorem fine_axes : ∀ (ref : List ℚ) (pts : List Pt), Fine ref pts (axes ref pts)
  | [], _ => rfl
  | r :: ref, pts => ⟨fineAxis_axisOf r _, fine_axes ref _⟩

theorem fineAxis_mono {r : ℚ} {xs xs' ax : List ℚ} (h : ∀ x ∈ xs', x ∈ xs) (hf : FineAxis r xs ax) :
    FineAxis r xs' ax :=
  ⟨hf.1, hf.2.1, hf.2.2.1, fun x hx hxr => hf.2.2.2 x (h x hx) hxr⟩

theorem fine_mono : ∀ (ref : List ℚ) (S T : List Pt) (A : List (List ℚ)),
    CoordSub ref S T → Fine ref T A → Fine ref S A
  | [], _, _, _, _, h => h
  | _ :: _, _, _, [], _, h => h
  | _ :: ref, S, T, _ :: A, hc, h => ⟨fineAxis_mono hc.1 h.1, fine_mono ref _ _ A hc.2 h.2⟩

theorem coordSub_of_subset : ∀ (ref : List ℚ) (S T : List Pt), S ⊆ T → CoordSub ref S T
  | [], _, _, _ => trivial
  | _ :: ref, S, T, h => ⟨fun _ hx => List.map_subset _ h hx, coordSub_of_subset ref _ _ (List.map_subset _ h)⟩

theorem sub_subset (pts : List Pt) (lo : ℚ) : sub pts lo ⊆ pts.map List.tail :=
  List.map_subset _ (List.filter_subset_self _)

theorem length_of_fine : ∀ (ref : List ℚ) (pts : List Pt) (A : List (List ℚ)), Fine ref pts A → A.length = ref.length
  | [], _, _, h => by cases h; rfl
  | _ :: _, _, [], h => h.elim
  | _ :: ref, _, _ :: A, h => by simp [length_of_fine ref _ A h.2]

theorem axis_filter_eq {r : ℚ} {xs ax : List ℚ} (h : FineAxis r xs ax) :
    ax.filter (fun x => decide (x ∈ r :: xs)) = axisOf r xs := by
  apply eq_of_pairwise_lt _ _ (h.1.filter _) (pairwise_axisOf r xs)
  intro x
  rw [List.mem_filter, mem_axisOf]
  simp only [List.mem_cons, decide_eq_true_eq]
  constructor
  · rintro ⟨hx, hm⟩; exact ⟨hm, h.2.2.1 x hx⟩
  · rintro ⟨hm, hxr⟩
    refine ⟨?_, hm⟩
    rcases hm with rfl | hm
    · exact h.2.1
    · exact h.2.2.2 x hm hxr

/-- One-dimensional refinement for integrands that depend on the slab only through the set of points below it. -/
theorem stepSum_fine (G : List Pt → ℚ) (hG : G [] = 0) (r : ℚ) (pts : List Pt) (ax : List ℚ)
    (h : FineAxis r (pts.map (fun p => p.headD 0)) ax) :
    stepSum ax (fun lo => G (sub pts lo))
      = stepSum (axisOf r (pts.map (fun p => p.headD 0))) (fun lo => G (sub pts lo)) := by
  rw [← axis_filter_eq h]
  have hmem : ∀ p ∈ pts, p.headD 0 ∈ pts.map (fun p => p.headD 0) := fun p hp => List.mem_map_of_mem hp
  apply stepSum_filter
  · intro x hx
    rw [getLast?_of_max ax r h.1 h.2.1 h.2.2.1] at hx
    cases hx; simp
  · intro x hx hk
    have hk' : x ∉ r :: pts.map (fun p => p.headD 0) := by simpa using hk
    have hxr : x ≤ r := h.2.2.1 x (List.mem_of_mem_head? hx)
    have : sub pts x = [] := by
      unfold sub
      rw [List.map_eq_nil_iff, List.filter_eq_nil_iff]
      intro p hp hle
      have hle : p.headD 0 ≤ x := by simpa using hle
      have hin := h.2.2.2 _ (hmem p hp) (le_trans hle hxr)
      have := head?_le_of_pairwise ax x h.1 hx _ hin
      have heq : p.headD 0 = x := le_antisymm hle this
      exact hk' (List.mem_cons_of_mem _ (heq ▸ hmem p hp))
    show G (sub pts x) = 0
    rw [this, hG]
  · intro x y hxy hk
    have hk' : y ∉ r :: pts.map (fun p => p.headD 0) := by simpa using hk
    obtain ⟨_, hy, hlt, hz⟩ := intervals_spec ax h.1 x y hxy
    have hyr : y ≤ r := h.2.2.1 y hy
    show G (sub pts y) = G (sub pts x)
    have : sub pts y = sub pts x := by
      unfold sub
      congr 1
      apply List.filter_congr
      intro p hp
      have : (p.headD 0 ≤ y) ↔ (p.headD 0 ≤ x) := by
        constructor
        · intro hle
          have hin := h.2.2.2 _ (hmem p hp) (le_trans hle hyr)
          rcases hz _ hin with h1 | h1
          · exact h1
          · have heq : p.headD 0 = y := le_antisymm hle h1
            exact absurd (List.mem_cons_of_mem _ (heq ▸ hmem p hp)) hk'
        · intro hle; exact le_trans hle (le_of_lt hlt)
      exact decide_eq_decide.mpr this
    rw [this]

/-- **Grid refinement invariance**: the cell sum over any admissible finer grid equals the cell sum over
the grid induced by the points; together with its unfolding along the leading coordinate. -/
theorem hvGrid_fine_and_cons : ∀ (ref : List ℚ),
    (∀ (pts : List Pt) (A : List (List ℚ)), Fine ref pts A → hvGrid A pts = hvCells ref pts) ∧
    (∀ (r : ℚ) (pts : List Pt), hvCells (r :: ref) pts
        = stepSum (axisOf r (pts.map (fun p => p.headD 0))) (fun lo => hvCells ref (sub pts lo)))
  | [] => by
    have h0 : ∀ (pts : List Pt) (A : List (List ℚ)), Fine [] pts A → hvGrid A pts = hvCells [] pts := by
      intro pts A h; cases h; rfl
    refine ⟨h0, ?_⟩
    intro r pts
    show hvGrid (_ :: axes [] _) pts = _
    rw [hvGrid_cons]
    apply stepSum_congr
    intro lo
    exact h0 _ _ rfl
  | r₀ :: ref => by
    obtain ⟨ihF, _⟩ := hvGrid_fine_and_cons ref
    have hcons : ∀ (r : ℚ) (ref' : List ℚ), (∀ (pts : List Pt) (A : List (List ℚ)), Fine ref' pts A →
        hvGrid A pts = hvCells ref' pts) → ∀ (pts : List Pt), hvCells (r :: ref') pts
          = stepSum (axisOf r (pts.map (fun p => p.headD 0))) (fun lo => hvCells ref' (sub pts lo)) := by
      intro r ref' ih pts
      show hvGrid (_ :: axes ref' _) pts = _
      rw [hvGrid_cons]
      apply stepSum_congr
      intro lo
      apply ih
      exact fine_mono ref' _ _ _ (coordSub_of_subset ref' _ _ (sub_subset pts lo)) (fine_axes ref' _)
    have hF : ∀ (pts : List Pt) (A : List (List ℚ)), Fine (r₀ :: ref) pts A →
        hvGrid A pts = hvCells (r₀ :: ref) pts := by
      intro pts A h
      match A, h with
      | ax :: A', h =>
        rw [hvGrid_cons, hcons r₀ ref ihF pts]
        rw [← stepSum_fine (fun S => hvCells ref S) (hvCells_nil_pts ref) r₀ pts ax h.1]
        apply stepSum_congr
        intro lo
        apply ihF
        exact fine_mono ref _ _ _ (coordSub_of_subset ref _ _ (sub_subset pts lo)) h.2
    exact ⟨hF, fun r pts => hcons r (r₀ :: ref) hF pts⟩

theorem hvGrid_fine (ref : List ℚ) (pts : List Pt) (A : List (List ℚ)) (h : Fine ref pts A) :
    hvGrid A pts = hvCells ref pts := (hvGrid_fine_and_cons ref).1 pts A h

/-- `hvCells` unfolds along the leading coordinate like the slicing recursion. -/
theorem hvCells_cons (r : ℚ) (ref : List ℚ) (pts : List Pt) :
    hvCells (r :: ref) pts
      = stepSum (axisOf r (pts.map (fun p => p.headD 0))) (fun lo => hvCells ref (sub pts lo)) :=
  (hvGrid_fine_and_cons ref).2 r pts

/-- **Discrete Fubini**: the executable slicing recursion computes the grid specification. -/
theorem hvSlice_eq_hvCells' : ∀ (ref : List ℚ) (pts : List Pt), hvSlice ref pts = hvCells ref pts
  | [], pts => by
    show (if pts.isEmpty then (0:ℚ) else 1) = hvGrid [] pts
    cases pts <;> simp [hvGrid, cells, covered, below, cellVol]
  | r :: ref, pts => by
    rw [hvCells_cons, hvSlice]
    apply stepSum_congr
    intro lo
    exact hvSlice_eq_hvCells' ref _

/-! ### shape of the cells of an admissible grid -/

/-- every interval of the cell is non-degenerate and ends at or below the reference -/
def CellIn : List ℚ → List (ℚ × ℚ) → Prop
  | [], [] => True
  | r :: ref, iv :: c => iv.1 < iv.2 ∧ iv.2 ≤ r ∧ CellIn ref c
  | _, _ => False

theorem cellIn_of_mem : ∀ (ref : List ℚ) (pts : List Pt) (A : List (List ℚ)), Fine ref pts A →
    ∀ c ∈ cells A, CellIn ref c
  | [], _, _, h, c, hc => by cases h; simp [cells] at hc; subst hc; trivial
  | _ :: _, _, [], h, _, _ => h.elim
  | r :: ref, pts, ax :: A, h, c, hc => by
    simp only [cells, List.mem_flatMap, List.mem_map] at hc
    obtain ⟨iv, hiv, c', hc', rfl⟩ := hc
    obtain ⟨_, hy, hlt, _⟩ := intervals_spec ax h.1.1 iv.1 iv.2 hiv
    exact ⟨hlt, h.1.2.2.1 _ hy, cellIn_of_mem ref _ A h.2 c' hc'⟩

theorem cellVol_nonneg : ∀ (ref : List ℚ) (c : List (ℚ × ℚ)), CellIn ref c → 0 ≤ cellVol c
  | [], [], _ => by simp [cellVol]
  | [], _ :: _, h => h.elim
  | _ :: _, [], h => h.elim
  | r :: ref, iv :: c, h => by
    have := cellVol_nonneg ref c h.2.2
    have h1 : 0 ≤ iv.2 - iv.1 := by linarith [h.1]
    exact mul_nonneg h1 this

theorem length_of_cellIn : ∀ (ref : List ℚ) (c : List (ℚ × ℚ)), CellIn ref c → c.length = ref.length
  | [], [], _ => rfl
  | [], _ :: _, h => h.elim
  | _ :: _, [], h => h.elim
  | r :: ref, iv :: c, h => by simp [length_of_cellIn ref c h.2.2]

/-! ### invariances of the specification -/

theorem hvGrid_congr (A : List (List ℚ)) (S T : List Pt) (h : ∀ c ∈ cells A, covered S c = covered T c) :
    hvGrid A S = hvGrid A T := by
  unfold hvGrid
  apply sumRat_map_congr
  intro c hc
  rw [h c hc]

theorem hvGrid_mono (ref : List ℚ) (pts : List Pt) (A : List (List ℚ)) (hA : Fine ref pts A) (S T : List Pt)
    (h : ∀ c ∈ cells A, covered S c = true → covered T c = true) : hvGrid A S ≤ hvGrid A T := by
  unfold hvGrid
  apply sumRat_map_le
  intro c hc
  have hv := cellVol_nonneg ref c (cellIn_of_mem ref pts A hA c hc)
  cases hS : covered S c with
  | false => simp only [Bool.false_eq_true, if_false]; split <;> simp [hv]
  | true => simp [h c hc hS]

theorem covered_of_subset (S T : List Pt) (h : S ⊆ T) (c : List (ℚ × ℚ)) (hc : covered S c = true) :
    covered T c = true := by
  unfold covered at *
  rw [List.any_eq_true] at *
  obtain ⟨p, hp, hb⟩ := hc
  exact ⟨p, h hp, hb⟩

/-- The specification depends on the point list only through its set of members. -/
theorem hvCells_of_mem_iff (ref : List ℚ) (S T : List Pt) (h : ∀ p, p ∈ S ↔ p ∈ T) :
    hvCells ref S = hvCells ref T := by
  have hST : S ⊆ T := fun p hp => (h p).mp hp
  have hTS : T ⊆ S := fun p hp => (h p).mpr hp
  rw [← hvGrid_fine ref S (axes ref T) (fine_mono ref S T _ (coordSub_of_subset ref S T hST) (fine_axes ref T))]
  apply hvGrid_congr
  intro c _
  cases hS : covered S c with
  | true => exact (covered_of_subset S T hST c hS).symm
  | false =>
    cases hT : covered T c with
    | false => rfl
    | true => rw [covered_of_subset T S hTS c hT] at hS; cases hS

theorem hvCells_nonneg (ref : List ℚ) (pts : List Pt) : 0 ≤ hvCells ref pts := by
  have := hvGrid_mono ref pts (axes ref pts) (fine_axes ref pts) [] pts (fun c _ h => by simp [covered] at h)
  rwa [hvGrid_nil_pts] at this

theorem hvCells_mono' (ref : List ℚ) (S T : List Pt) (h : S ⊆ T) : hvCells ref S ≤ hvCells ref T := by
  rw [← hvGrid_fine ref S (axes ref T) (fine_mono ref S T _ (coordSub_of_subset ref S T h) (fine_axes ref T))]
  exact hvGrid_mono ref T _ (fine_axes ref T) S T (fun c _ hc => covered_of_subset S T h c hc)

/-- `p ≤ q` componentwise in the dimension of `ref`. -/
def Dom : List ℚ → Pt → Pt → Prop
  | [], _, _ => True
  | _ :: ref, p, q => p.headD 0 ≤ q.headD 0 ∧ Dom ref p.tail q.tail

/-- some coordinate of `q` is at or beyond the reference -/
def OnBoundary : List ℚ → Pt → Prop
  | [], _ => False
  | r :: ref, q => r ≤ q.headD 0 ∨ OnBoundary ref q.tail

theorem below_of_dom : ∀ (ref : List ℚ) (p q : Pt) (c : List (ℚ × ℚ)), c.length = ref.length → Dom ref p q →
    below q c = true → below p c = true
  | [], _, _, [], _, _, _ => rfl
  | [], _, _, _ :: _, h, _, _ => by simp at h
  | _ :: _, _, _, [], _, _, _ => rfl
  | r :: ref, p, q, iv :: c, hl, hd, hb => by
    simp only [below, Bool.and_eq_true, decide_eq_true_eq] at hb ⊢
    exact ⟨le_trans hd.1 hb.1, below_of_dom ref _ _ c (by simpa using hl) hd.2 hb.2⟩

theorem below_of_onBoundary : ∀ (ref : List ℚ) (q : Pt) (c : List (ℚ × ℚ)), CellIn ref c → OnBoundary ref q →
    below q c = false
  | [], _, _, _, h => h.elim
  | _ :: _, _, [], h, _ => h.elim
  | r :: ref, q, iv :: c, hc, hb => by
    simp only [below, Bool.and_eq_false_iff, decide_eq_false_iff_not, not_le]
    rcases hb with hb | hb
    · left; linarith [hc.1, hc.2.1]
    · right; exact below_of_onBoundary ref _ c hc.2.2 hb

theorem covered_cons_pt (q : Pt) (S : List Pt) (c : List (ℚ × ℚ)) :
    covered (q :: S) c = (below q c || covered S c) := rfl

/-- Adding a point that is weakly dominated by a member changes nothing. -/
theorem hvCells_dominated' (ref : List ℚ) (S : List Pt) (p q : Pt) (hp : p ∈ S) (hd : Dom ref p q) :
    hvCells ref (q :: S) = hvCells ref S := by
  have hA := fine_axes ref (q :: S)
  rw [← hvGrid_fine ref S (axes ref (q :: S))
    (fine_mono ref S (q :: S) _ (coordSub_of_subset ref _ _ (List.subset_cons_self q S)) hA)]
  apply hvGrid_congr
  intro c hc
  rw [covered_cons_pt]
  cases hq : below q c with
  | false => rfl
  | true =>
    have hl : c.length = ref.length := length_of_cellIn ref c (cellIn_of_mem ref _ _ hA c hc)
    have : covered S c = true := by
      unfold covered; rw [List.any_eq_true]
      exact ⟨p, hp, below_of_dom ref p q c hl hd hq⟩
    simp [this]

/-- A point with a coordinate at (or beyond) the reference contributes nothing. -/
theorem hvCells_boundary' (ref : List ℚ) (S : List Pt) (q : Pt) (hb : OnBoundary ref q) :
    hvCells ref (q :: S) = hvCells ref S := by
  have hA := fine_axes ref (q :: S)
  rw [← hvGrid_fine ref S (axes ref (q :: S))
    (fine_mono ref S (q :: S) _ (coordSub_of_subset ref _ _ (List.subset_cons_self q S)) hA)]
  apply hvGrid_congr
  intro c hc
  rw [covered_cons_pt, below_of_onBoundary ref q c (cellIn_of_mem ref _ _ hA c hc) hb]
  rfl

/-! ### inclusion–exclusion -/

theorem below_pmax_aux (a b lo : ℚ) (X Y : Bool) :
    (decide ((if a ≤ b then b else a) ≤ lo) && (X && Y)) = (decide (a ≤ lo) && X && (decide (b ≤ lo) && Y)) := by
  by_cases h : a ≤ b
  · simp only [h, if_true]
    by_cases h2 : b ≤ lo
    · have : a ≤ lo := le_trans h h2
      simp [h2, this]
    · simp [h2]
  · simp only [h, if_false]
    by_cases h2 : a ≤ lo
    · have : b ≤ lo := le_trans (le_of_lt (not_le.mp h)) h2
      simp [h2, this]
    · simp [h2]

theorem below_pmax : ∀ (ref : List ℚ) (p q : Pt) (c : List (ℚ × ℚ)), c.length = ref.length →
    below (pmax ref p q) c = (below p c && below q c)
  | [], _, _, [], _ => rfl
  | [], _, _, _ :: _, h => by simp at h
  | _ :: _, _, _, [], _ => rfl
  | r :: ref, p, q, iv :: c, hl => by
    have ih := below_pmax ref p.tail q.tail c (by simpa using hl)
    simp only [below, pmax, List.headD_cons, List.tail_cons, ih]
    exact below_pmax_aux _ _ _ _ _

theorem covered_map_pmax (ref : List ℚ) (q : Pt) (c : List (ℚ × ℚ)) (hl : c.length = ref.length) :
    ∀ S : List Pt, covered (S.map (fun p => pmax ref p q)) c = (below q c && covered S c)
  | [] => by simp [covered]
  | p :: S => by
    have ih := covered_map_pmax ref q c hl S
    rw [List.map_cons, covered_cons_pt, covered_cons_pt, ih, below_pmax ref p q c hl]
    cases below p c <;> cases below q c <;> cases covered S c <;> rfl

theorem coordSub_pmax : ∀ (ref : List ℚ) (q : Pt) (S : List Pt),
    CoordSub ref (S.map (fun p => pmax ref p q)) (q :: S)
  | [], _, _ => trivial
  | r :: ref, q, S => by
    refine ⟨?_, ?_⟩
    · intro x hx
      simp only [List.map_map, List.mem_map, Function.comp] at hx
      obtain ⟨p, hp, rfl⟩ := hx
      simp only [pmax, List.headD_cons, List.map_cons, List.mem_cons, List.mem_map]
      split
      · left; rfl
      · right; exact ⟨p, hp, rfl⟩
    · have := coordSub_pmax ref q.tail (S.map List.tail)
      simp only [List.map_map, List.map_cons] at this ⊢
      exact this

theorem axisOf_single (r x : ℚ) : axisOf r [x] = if x < r then [x, r] else [r] := by
  unfold axisOf
  by_cases h : x < r
  · have hle : x ≤ r := le_of_lt h
    have h1 : ¬ r < x := not_lt.mpr hle
    have h2 : ¬ r = x := fun e => by rw [e] at h; exact lt_irrefl _ h
    simp [List.filter, hle, sortDedup, insertUniq, h, h1, h2]
  · by_cases h2 : x ≤ r
    · have he : x = r := le_antisymm h2 (not_lt.mp h)
      subst he
      simp [List.filter, sortDedup, insertUniq]
    · simp [List.filter, h2, sortDedup, insertUniq, h]

theorem sub_single_self (q : Pt) : sub [q] (q.headD 0) = [q.tail] := by
  simp [sub]

theorem hvSlice_single : ∀ (ref : List ℚ) (q : Pt), hvSlice ref [q] = boxVol ref q
  | [], _ => rfl
  | r :: ref, q => by
    have ih := hvSlice_single ref q.tail
    rw [hvSlice, boxVol, List.map_cons, List.map_nil, axisOf_single]
    by_cases h : q.headD 0 < r
    · rw [if_pos h, if_pos h]
      show (r - q.headD 0) * hvSlice ref (sub [q] (q.headD 0)) + 0 = _
      rw [sub_single_self, ih, add_zero]
    · rw [if_neg h, if_neg h, zero_mul]
      rfl

theorem hvCells_single (ref : List ℚ) (q : Pt) : hvCells ref [q] = boxVol ref q := by
  rw [← hvSlice_eq_hvCells', hvSlice_single]

/-- `hv(q :: S) = hv(S) + vol[q, ref) − hv({max(p, q) | p ∈ S})` for the grid specification. -/
theorem hvCells_ie (ref : List ℚ) (q : Pt) (S : List Pt) :
    hvCells ref (q :: S) = hvCells ref S + boxVol ref q - hvCells ref (S.map (fun p => pmax ref p q)) := by
  have hA := fine_axes ref (q :: S)
  have hsub : ∀ T : List Pt, T ⊆ q :: S → Fine ref T (axes ref (q :: S)) :=
    fun T hT => fine_mono ref T (q :: S) _ (coordSub_of_subset ref _ _ hT) hA
  rw [← hvGrid_fine ref S _ (hsub S (List.subset_cons_self q S)), ← hvCells_single,
    ← hvGrid_fine ref [q] _ (hsub [q] (by simp)),
    ← hvGrid_fine ref _ _ (fine_mono ref _ (q :: S) _ (coordSub_pmax ref q S) hA)]
  show hvGrid _ (q :: S) = _
  unfold hvGrid
  have key : ∀ c ∈ cells (axes ref (q :: S)),
      (if covered (q :: S) c then cellVol c else 0) = (if (covered [q] c || covered S c) then cellVol c else 0) := by
    intro c _; simp [covered]
  have key2 : ∀ c ∈ cells (axes ref (q :: S)),
      (if covered (S.map (fun p => pmax ref p q)) c then cellVol c else 0)
        = (if (covered [q] c && covered S c) then cellVol c else 0) := by
    intro c hc
    have hl : c.length = ref.length := length_of_cellIn ref c (cellIn_of_mem ref _ _ hA c hc)
    rw [covered_map_pmax ref q c hl S]
    simp [covered]
  rw [sumRat_map_congr _ _ _ key, sumRat_map_congr _ _ _ key2, sumRat_map_or_and]
  ring

theorem hvIE_nil (ref : List ℚ) : hvIE ref [] = 0 := by rw [hvIE]

theorem hvIE_cons (ref : List ℚ) (q : Pt) (S : List Pt) :
    hvIE ref (q :: S) = hvIE ref S + boxVol ref q - hvIE ref (S.map (fun p => pmax ref p q)) := by
  rw [hvIE]

/-- The grid specification satisfies the inclusion–exclusion recursion. -/
theorem hvCells_eq_hvIE (ref : List ℚ) : ∀ (n : ℕ) (S : List Pt), S.length ≤ n → hvCells ref S = hvIE ref S := by
  intro n
  induction n with
  | zero =>
    intro S h
    have : S = [] := List.length_eq_zero_iff.mp (Nat.le_zero.mp h)
    subst this
    rw [hvCells_nil_pts, hvIE_nil]
  | succ n ih =>
    intro S h
    cases S with
    | nil => rw [hvCells_nil_pts, hvIE_nil]
    | cons q S =>
      have h' : S.length ≤ n := by simpa using h
      rw [hvCells_ie, hvIE_cons, ih S h', ih _ (by simpa using h')]

end Hypervolume
