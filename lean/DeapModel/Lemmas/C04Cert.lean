/-
C04 lemmas, part 5: soundness of the executable checker `checkRanking`: an accepted list of fronts
is, front by front, the peeling (up to the order inside each front).
-/
import DeapModel.Lemmas.C04Peel

set_option linter.unusedSectionVars false
set_option linter.unusedSimpArgs false
set_option linter.unusedVariables false

namespace C04L
open NDSort

variable {β : Type} [DecidableEq β]

/-- Two lists of non-empty fronts that both enumerate the duplicate-free `S` and give every element
the same front index are equal front by front (up to order inside the fronts). -/
theorem fronts_unique : ∀ (A B : List (List β)) (S : List β), S.Nodup →
    A.flatten.Perm S → B.flatten.Perm S → (∀ f ∈ A, f ≠ []) → (∀ f ∈ B, f ≠ []) →
    (∀ x ∈ S, frontIdx A x = frontIdx B x) → List.Forall₂ List.Perm A B
  | [], [], _, _, _, _, _, _, _ => List.Forall₂.nil
  | [], b :: B, S, _, hA, hB, _, hBne, _ => by
    exfalso
    have hS : S = [] := by simpa using hA.symm
    subst hS
    have hb := hBne b (by simp)
    have : b ++ B.flatten = [] := by simpa using hB
    exact hb (List.append_eq_nil_iff.1 this).1
  | a :: A, [], S, _, hA, hB, hAne, _, _ => by
    exfalso
    have hS : S = [] := by simpa using hB.symm
    subst hS
    have ha := hAne a (by simp)
    have : a ++ A.flatten = [] := by simpa using hA
    exact ha (List.append_eq_nil_iff.1 this).1
  | a :: A, b :: B, S, hnd, hA, hB, hAne, hBne, hidx => by
    simp only [List.flatten_cons] at hA hB
    have hndA : (a ++ A.flatten).Nodup := hA.nodup_iff.2 hnd
    have hndB : (b ++ B.flatten).Nodup := hB.nodup_iff.2 hnd
    have hab : ∀ x, x ∈ a ↔ x ∈ b := by
      intro x
      constructor
      · intro hx
        have hxS : x ∈ S := hA.mem_iff.1 (List.mem_append_left _ hx)
        have := hidx x hxS
        simp only [frontIdx, hx, ↓reduceIte] at this
        by_contra hc; rw [if_neg hc] at this; omega
      · intro hx
        have hxS : x ∈ S := hB.mem_iff.1 (List.mem_append_left _ hx)
        have := hidx x hxS
        simp only [frontIdx, hx, ↓reduceIte] at this
        by_contra hc; rw [if_neg hc] at this; omega
    have hpab : a.Perm b :=
      (List.perm_ext_iff_of_nodup (List.nodup_append.1 hndA).1 (List.nodup_append.1 hndB).1).2 hab
    refine List.Forall₂.cons hpab ?_
    have hdisjA : ∀ x ∈ A.flatten, x ∉ a := by
      intro x hx hxa; exact (List.nodup_append.1 hndA).2.2 x hxa x hx rfl
    have hdisjB : ∀ x ∈ B.flatten, x ∉ b := by
      intro x hx hxb; exact (List.nodup_append.1 hndB).2.2 x hxb x hx rfl
    have fA : (a ++ A.flatten).filter (fun x => decide (x ∉ a)) = A.flatten := by
      rw [List.filter_append]
      have h1 : a.filter (fun x => decide (x ∉ a)) = [] := by
        rw [List.filter_eq_nil_iff]; intro x hx; simp [hx]
      have h2 : A.flatten.filter (fun x => decide (x ∉ a)) = A.flatten := by
        rw [List.filter_eq_self]; intro x hx; simpa using hdisjA x hx
      rw [h1, h2, List.nil_append]
    have fB : (b ++ B.flatten).filter (fun x => decide (x ∉ a)) = B.flatten := by
      rw [List.filter_append]
      have h1 : b.filter (fun x => decide (x ∉ a)) = [] := by
        rw [List.filter_eq_nil_iff]; intro x hx; simp [(hab x).2 hx]
      have h2 : B.flatten.filter (fun x => decide (x ∉ a)) = B.flatten := by
        rw [List.filter_eq_self]; intro x hx
        have := hdisjB x hx
        simpa using fun h => this ((hab x).1 h)
      rw [h1, h2, List.nil_append]
    have hA' := hA.filter (fun x => decide (x ∉ a))
    have hB' := hB.filter (fun x => decide (x ∉ a))
    rw [fA] at hA'; rw [fB] at hB'
    refine fronts_unique A B (S.filter (fun x => decide (x ∉ a))) (List.Pairwise.filter _ hnd) hA' hB'
      (fun f hf => hAne f (by simp [hf])) (fun f hf => hBne f (by simp [hf])) ?_
    intro x hx
    obtain ⟨hxS, hxa⟩ := List.mem_filter.1 hx
    have hxa' : x ∉ a := by simpa using hxa
    have hxb' : x ∉ b := fun h => hxa' ((hab x).2 h)
    have := hidx x hxS
    simp only [frontIdx, hxa', hxb', ↓reduceIte] at this
    omega

/-- Soundness of the checker the driver runs on the output of the real procedures: an accepted
complete list of fronts of a duplicate-free population under a strict partial order is, front by
front, the Pareto ranking by peeling. -/
theorem checkRanking_sound_aux (dom : β → β → Bool) (S : List β) (hnd : S.Nodup) (hS : SPO dom S)
    (fronts : List (List β)) (h : checkRanking dom S fronts = true) :
    List.Forall₂ List.Perm fronts (peel dom S) := by
  simp only [checkRanking, Bool.and_eq_true, List.all_eq_true, Bool.not_eq_true'] at h
  obtain ⟨⟨hne, hperm⟩, hcert⟩ := h
  rw [checkCert_iff] at hcert
  have hr := cert_unique (frontIdx fronts) (depth dom S) hcert.1 hcert.2
    (depth_lt_of_dom S hS) (depth_pred S hS)
  refine fronts_unique fronts (peel dom S) S hnd (List.isPerm_iff.1 hperm) (peel_flatten_perm S hS)
    (fun f hf => by have := hne f hf; intro e; subst e; simp at this)
    (peel_fronts_ne_nil S hS) ?_
  intro x hx
  exact hr x hx

end C04L
