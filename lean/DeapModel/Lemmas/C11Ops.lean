/-
Helper lemmas for C11: splicing and the variation operators.
-/
import DeapModel.Lemmas.C11Gen

namespace GpTree

theorem mem_idxGo {α : Type} {f : α → Bool} : ∀ {l : List α} {i j : Nat}, j ∈ idxGo f l i →
    ∃ k x, j = i + k ∧ l[k]? = some x ∧ f x = true
  | [], _, _, h => by simp [idxGo] at h
  | a :: l, i, j, h => by
    simp only [idxGo] at h
    split at h
    · rcases List.mem_cons.1 h with rfl | h
      · exact ⟨0, a, by simp, by simp, by assumption⟩
      · obtain ⟨k, x, e, hx, hf⟩ := mem_idxGo h
        exact ⟨k + 1, x, by omega, by simpa using hx, hf⟩
    · obtain ⟨k, x, e, hx, hf⟩ := mem_idxGo h
      exact ⟨k + 1, x, by omega, by simpa using hx, hf⟩

theorem mem_idxFrom1 {f : Prim → Bool} {l : List Prim} {j : Nat} (h : j ∈ idxFrom1 f l) :
    1 ≤ j ∧ ∃ x, l[j]? = some x ∧ f x = true := by
  obtain ⟨k, x, e, hx, hf⟩ := mem_idxGo h
  refine ⟨by omega, x, ?_, hf⟩
  rw [List.getElem?_drop] at hx
  rw [e]; exact hx

/-- everything the operators need to know about the position `i` of a typed list -/
theorem span_info {sub} {ss : List Nat} {l : List Prim} {i : Nat} {p : Prim}
    (h : typed sub ss l = true) (hp : l[i]? = some p) :
    ∃ pre s post σ rest, l = pre ++ flatten s ++ post ∧ pre.length = i ∧ s.root = p ∧
      wt sub σ s = true ∧ typed sub rest post = true ∧
      (∀ x, typed sub ss (pre ++ x) = typed sub (σ :: rest) x) := by
  have hi : i < l.length := by
    rcases Nat.lt_or_ge i l.length with h' | h'
    · exact h'
    · simp [List.getElem?_eq_none h'] at hp
  obtain ⟨σ, rest, s, post, e, hw, hr, hx⟩ := at_index i l ss h hi
  refine ⟨l.take i, s, post, σ, rest, e, by simp; omega, ?_, hw, hr, hx⟩
  have hlen : (l.take i).length = i := by simp; omega
  have : l[i]? = some s.root := by
    rw [e, List.append_assoc, List.getElem?_append_right (by omega)]
    rw [List.getElem?_append_left (by rw [flatten_length]; have := size_pos s; omega)]
    simp [hlen, flatten_root]
  rw [this] at hp; exact (Option.some.inj hp)

theorem wt_self {sub} (refl : ∀ a, sub a a = true) {σ : Nat} {s : Tree} (h : wt sub σ s = true) :
    wt sub s.root.ret s = true := wt_mono h (refl _)

theorem setSlice_ok {l v : List Prim} {b e : Nat} (hb : b < l.length) (hv : guardTotal v = some 0) :
    setSlice l b e v = some (l.take b ++ v ++ l.drop e) := by
  simp [setSlice, hv]; omega

/-- Splicing: replacing the span found by `searchSubtree` at `i` by a list that is typed for the
return type of the node at `i`. -/
theorem splice {sub} (trans : ∀ a b c, sub a b = true → sub b c = true → sub a c = true)
    (refl : ∀ a, sub a a = true)
    {ss : List Nat} {l : List Prim} {i : Nat} {p : Prim}
    (h : typed sub ss l = true) (hp : l[i]? = some p) :
    ∃ e, searchSubtree l i = some (i, e) ∧ i < e ∧ e ≤ l.length ∧
      typed sub [p.ret] (getSlice l i e) = true ∧ (getSlice l i e).length = e - i ∧
      ∀ v, typed sub [p.ret] v = true →
        setSlice l i e v = some (l.take i ++ v ++ l.drop e) ∧
        typed sub ss (l.take i ++ v ++ l.drop e) = true := by
  obtain ⟨pre, s, post, σ, rest, rfl, hlen, hroot, hw, hr, hx⟩ := span_info h hp
  have hwf := wf_of_wt hw
  have hsz := size_pos s
  refine ⟨i + s.size, ?_, by omega, ?_, ?_, ?_, ?_⟩
  · rw [← hlen]; exact searchSubtree_at pre post s hwf
  · simp [flatten_length]; omega
  · have := getSlice_at pre post (flatten s)
    rw [flatten_length, hlen] at this
    rw [this, ← hroot]
    exact typed_iff_tree.2 ⟨s, wt_self refl hw, rfl⟩
  · have := getSlice_at pre post (flatten s)
    rw [flatten_length, hlen] at this
    rw [this, flatten_length]; omega
  · intro v hv
    have htake : (pre ++ flatten s ++ post).take i = pre := by
      rw [List.append_assoc, List.take_append_of_le_length (by omega), ← hlen]; simp
    have hdrop : (pre ++ flatten s ++ post).drop (i + s.size) = post := by
      rw [← hlen, ← flatten_length s, ← List.length_append]; simp
    refine ⟨?_, ?_⟩
    · exact setSlice_ok (by simp [flatten_length]; omega) (guardTotal_of_typed hv)
    · rw [htake, hdrop, List.append_assoc, hx]
      obtain ⟨u, hu, rfl⟩ := typed_iff_tree.1 hv
      have hu' : wt sub σ u = true := by
        refine wt_mono hu (trans _ _ _ (wt_root hu) ?_)
        rw [← hroot]; exact wt_root hw
      rw [typed_flatten rest post hu']; exact hr

/-- replacing one node by a node with the same argument types whose return type is accepted
wherever the old one was -/
theorem typed_set {sub} : ∀ (l : List Prim) (ss : List Nat) (i : Nat) (p p' : Prim),
    typed sub ss l = true → l[i]? = some p → p'.args = p.args →
    (∀ σ, sub p.ret σ = true → sub p'.ret σ = true) → typed sub ss (l.set i p') = true
  | [], _, _, _, _, _, hp, _, _ => by simp at hp
  | _ :: _, [], _, _, _, h, _, _, _ => by simp [typed] at h
  | q :: l, σ :: ss, 0, p, p', h, hp, ha, hs => by
    simp at hp; subst hp
    simp [typed] at h ⊢
    exact ⟨hs _ h.1, by rw [ha]; exact h.2⟩
  | q :: l, σ :: ss, i + 1, p, p', h, hp, ha, hs => by
    simp [typed] at h ⊢
    exact ⟨h.1, typed_set l _ i p p' h.2 (by simpa using hp) ha hs⟩

theorem setItem_eq {l : List Prim} {i : Nat} {p' : Prim} {r : List Prim}
    (h : setItem l i p' = some r) : r = l.set i p' ∧ ∃ p, l[i]? = some p ∧ p'.arity = p.arity := by
  unfold setItem at h
  split at h
  · simp at h
  · rename_i old ho
    split at h
    · simp at h
    · rename_i hne
      simp at h; exact ⟨h.symm, old, ho, by simpa using hne⟩

theorem typed_slot_mono {sub} (trans : ∀ a b c, sub a b = true → sub b c = true → sub a c = true)
    {a b : Nat} {v : List Prim} (h : typed sub [a] v = true) (hab : sub a b = true) :
    typed sub [b] v = true := by
  obtain ⟨u, hu, rfl⟩ := typed_iff_tree.1 h
  exact typed_iff_tree.2 ⟨u, wt_mono hu (trans _ _ _ (wt_root hu) hab), rfl⟩

theorem typed_length_pos {sub} {σ : Nat} {v : List Prim} (h : typed sub [σ] v = true) : 0 < v.length := by
  cases v with
  | nil => simp [typed] at h
  | cons a b => simp

/-- the slice swap of the two crossovers -/
theorem swapAt_spec {sub} (trans : ∀ a b c, sub a b = true → sub b c = true → sub a c = true)
    (refl : ∀ a, sub a a = true) {r1 r2 : Nat} {ind1 ind2 o1 o2 : List Prim} {c1 c2 : List Nat} {tp tp' : Tape}
    (h1 : typed sub [r1] ind1 = true) (h2 : typed sub [r2] ind2 = true)
    (hc : ∀ i1 ∈ c1, ∀ i2 ∈ c2, ∃ p1 p2, ind1[i1]? = some p1 ∧ ind2[i2]? = some p2 ∧
      sub p2.ret p1.ret = true ∧ sub p1.ret p2.ret = true)
    (h : swapAt ind1 ind2 c1 c2 tp = .ok (o1, o2, tp')) :
    typed sub [r1] o1 = true ∧ typed sub [r2] o2 = true ∧ o1.length + o2.length = ind1.length + ind2.length := by
  unfold swapAt at h
  split at h
  · simp at h
  · rename_i i1 tp1 hch1
    split at h
    · simp at h
    · rename_i i2 tp2 hch2
      obtain ⟨p1, p2, hp1, hp2, s21, s12⟩ := hc i1 (popChoice_mem hch1) i2 (popChoice_mem hch2)
      obtain ⟨e1, hs1, hlt1, hle1, ht1, hl1, hset1⟩ := splice trans refl h1 hp1
      obtain ⟨e2, hs2, hlt2, hle2, ht2, hl2, hset2⟩ := splice trans refl h2 hp2
      rw [hs1, hs2] at h
      simp only at h
      obtain ⟨hr1, hty1⟩ := hset1 _ (typed_slot_mono trans ht2 s21)
      obtain ⟨hr2, hty2⟩ := hset2 _ (typed_slot_mono trans ht1 s12)
      rw [hr1, hr2] at h
      simp at h
      obtain ⟨rfl, rfl, _⟩ := h
      refine ⟨by simpa [List.append_assoc] using hty1, by simpa [List.append_assoc] using hty2, ?_⟩
      simp [hl1, hl2]; omega

/-- past the insertion position the loop only adds one terminal per argument -/
theorem insertArgs_past {ps : Pset} {subl : List Prim} {position : Nat} :
    ∀ (as : List Nat) (j : Nat) (tp : Tape) (r : List Prim) (tp' : Tape), position < j →
      insertArgs ps subl position j as tp = .ok (r, tp') → r.length = as.length
  | [], j, tp, r, tp', _, h => by simp [insertArgs] at h; simp [h.1.symm]
  | b :: bs, j, tp, r, tp', hj, h => by
    simp only [insertArgs] at h
    split at h
    · omega
    · split at h
      · simp at h
      · split at h
        · simp at h
        · split at h
          · simp at h
          · rename_i w1 w2 hr
            simp at h; obtain ⟨rfl, _⟩ := h
            simp [insertArgs_past bs (j + 1) _ w1 w2 (by omega) hr]

theorem insertArgs_spec {ps : Pset} (ok : PsetOK ps) {subl : List Prim} {τ : Nat}
    (hsub : typed ps.sub [τ] subl = true) {position : Nat} :
    ∀ (args : List Nat) (i : Nat) (tp : Tape) (r : List Prim) (tp' : Tape),
      insertArgs ps subl position i args tp = .ok (r, tp') →
      (∀ k, i + k = position → k < args.length → args[k]? = some τ) →
      (∀ rest x, typed ps.sub (args ++ rest) (r ++ x) = typed ps.sub rest x) ∧
      (i ≤ position → position < i + args.length → r.length + 1 = args.length + subl.length)
  | [], i, tp, r, tp', h, _ => by
    simp [insertArgs] at h; obtain ⟨rfl, _⟩ := h
    exact ⟨by simp, by intro h1 h2; simp at h2; omega⟩
  | a :: as, i, tp, r, tp', h, hpos => by
    simp only [insertArgs] at h
    split at h
    · rename_i hip
      split at h
      · simp at h
      · rename_i r' tp'' hrec
        simp at h; obtain ⟨rfl, rfl⟩ := h
        obtain ⟨ih1, ih2⟩ := insertArgs_spec ok hsub as (i + 1) tp r' tp'' hrec
          (by intro k hk hlt; omega)
        have ha : a = τ := by
          have := hpos 0 (by omega) (by simp); simpa using this
        subst ha
        obtain ⟨u, hu, rfl⟩ := typed_iff_tree.1 hsub
        refine ⟨?_, ?_⟩
        · intro rest x
          simp only [List.cons_append, List.append_assoc]
          rw [typed_flatten (as ++ rest) (r' ++ x) hu]; exact ih1 rest x
        · intro _ _; simp
          have := insertArgs_past as (i + 1) tp r' tp'' (by omega) hrec
          omega
    · rename_i hip
      split at h
      · simp at h
      · rename_i term tp1 hch
        split at h
        · simp at h
        · rename_i term' tp2 hin
          split at h
          · simp at h
          · rename_i r' tp'' hrec
            simp at h; obtain ⟨rfl, rfl⟩ := h
            obtain ⟨ih1, ih2⟩ := insertArgs_spec ok hsub as (i + 1) tp2 r' tp'' hrec
              (by intro k hk hlt
                  have := hpos (k + 1) (by omega) (by simp; omega)
                  simpa using this)
            obtain ⟨hs, hargs⟩ := ok.terms_ok a term (popChoice_mem hch)
            obtain ⟨e1, e2, _, _⟩ := instantiate_spec hin
            refine ⟨?_, ?_⟩
            · intro rest x
              simp [typed, e1, e2, hs, hargs]; exact ih1 rest x
            · intro h1 h2
              have := ih2 (by omega) (by simp at h2; omega)
              simp; omega

theorem getSlice_length_le (l : List Prim) (b e : Nat) : (getSlice l b e).length ≤ e - b := by
  simp [getSlice]; omega

/-- the span of the `k`-th argument subtree -/
theorem nthArgSpan_spec : ∀ (k : Nat) (A : List Prim) (cs : List Tree) (B : List Prim) (c : Tree),
    wfF cs = true → cs[k]? = some c →
    ∃ rb, nthArgSpan (A ++ flattenF cs ++ B) k A.length = some (rb, rb + c.size) ∧
      getSlice (A ++ flattenF cs ++ B) rb (rb + c.size) = flatten c
  | _, _, [], _, _, _, hk => by simp at hk
  | 0, A, c0 :: cs, B, c, hw, hk => by
    simp at hk; subst hk
    simp [wfF] at hw
    refine ⟨A.length, ?_, ?_⟩
    · simp only [nthArgSpan, flattenF]
      have := searchSubtree_at A (flattenF cs ++ B) c0 hw.1
      simpa [List.append_assoc] using this
    · have := getSlice_at A (flattenF cs ++ B) (flatten c0)
      simpa [flattenF, List.append_assoc, flatten_length] using this
  | k + 1, A, c0 :: cs, B, c, hw, hk => by
    simp at hk
    simp [wfF] at hw
    have hs := searchSubtree_at A (flattenF cs ++ B) c0 hw.1
    have hg := getSlice_at A (flattenF cs ++ B) (flatten c0)
    have e : A ++ flattenF (c0 :: cs) ++ B = A ++ flatten c0 ++ (flattenF cs ++ B) := by
      simp [flattenF, List.append_assoc]
    rw [flatten_length] at hg
    obtain ⟨rb, h1, h2⟩ := nthArgSpan_spec k (A ++ flatten c0) cs B c hw.2 hk
    refine ⟨rb, ?_, ?_⟩
    · simp only [nthArgSpan]
      rw [e, hs]; simp only
      rw [hg, flatten_length]
      have e2 : A ++ flatten c0 ++ (flattenF cs ++ B) = A ++ flatten c0 ++ flattenF cs ++ B := by
        simp [List.append_assoc]
      rw [e2]
      simpa [flatten_length] using h1
    · rw [e]
      have e2 : A ++ flatten c0 ++ (flattenF cs ++ B) = A ++ flatten c0 ++ flattenF cs ++ B := by
        simp [List.append_assoc]
      rw [e2]; exact h2

theorem reinstAll_spec {sub} {ss : List Nat} : ∀ (is : List Nat) (ind : List Prim) (tp : Tape) (out : List Prim) (tp' : Tape),
    typed sub ss ind = true → reinstAll ind is tp = .ok (out, tp') →
    typed sub ss out = true ∧ out.length = ind.length
  | [], ind, tp, out, tp', h, hr => by
    simp [reinstAll] at hr; obtain ⟨rfl, _⟩ := hr; exact ⟨h, rfl⟩
  | i :: is, ind, tp, out, tp', h, hr => by
    simp only [reinstAll] at hr
    split at hr
    · simp at hr
    · rename_i node hn
      split at hr
      · simp at hr
      · rename_i n' tp1 hin
        split at hr
        · simp at hr
        · rename_i ind' hset
          obtain ⟨e1, e2, _, _⟩ := instantiate_spec hin
          obtain ⟨rfl, _⟩ := setItem_eq hset
          have := typed_set ind ss i node n' h hn e2 (by intro σ hσ; rw [e1]; exact hσ)
          obtain ⟨h1, h2⟩ := reinstAll_spec is _ tp1 out tp' this hr
          exact ⟨h1, by simpa using h2⟩

theorem staticLimitLoop_spec {key : List Prim → Option Nat} {maxv : Nat} {keep : List (List Prim)} :
    ∀ (new : List (List Prim)) (tp : Tape) (outs : List (List Prim)) (tp' : Tape),
      staticLimitLoop key maxv keep new tp = .ok (outs, tp') →
      outs.length = new.length ∧
      ∀ o ∈ outs, o ∈ keep ∨ (o ∈ new ∧ ∃ k, key o = some k ∧ k ≤ maxv)
  | [], tp, outs, tp', h => by
    simp [staticLimitLoop] at h; obtain ⟨rfl, _⟩ := h; simp
  | ind :: rest, tp, outs, tp', h => by
    simp only [staticLimitLoop] at h
    split at h
    · simp at h
    · rename_i k hk
      split at h
      · split at h
        · simp at h
        · rename_i r tp1 hch
          split at h
          · simp at h
          · rename_i o tp2 hrec
            simp at h; obtain ⟨rfl, _⟩ := h
            obtain ⟨h1, h2⟩ := staticLimitLoop_spec rest tp1 o tp2 hrec
            refine ⟨by simp [h1], ?_⟩
            intro x hx
            rcases List.mem_cons.1 hx with rfl | hx
            · exact Or.inl (popChoice_mem hch)
            · rcases h2 x hx with h3 | ⟨h3, h4⟩
              · exact Or.inl h3
              · exact Or.inr ⟨List.mem_cons_of_mem _ h3, h4⟩
      · rename_i hle
        split at h
        · simp at h
        · rename_i o tp2 hrec
          simp at h; obtain ⟨rfl, _⟩ := h
          obtain ⟨h1, h2⟩ := staticLimitLoop_spec rest tp o tp2 hrec
          refine ⟨by simp [h1], ?_⟩
          intro x hx
          rcases List.mem_cons.1 hx with rfl | hx
          · exact Or.inr ⟨by simp, k, hk, by omega⟩
          · rcases h2 x hx with h3 | ⟨h3, h4⟩
            · exact Or.inl h3
            · exact Or.inr ⟨List.mem_cons_of_mem _ h3, h4⟩

theorem wtF_get {sub} : ∀ (ss : List Nat) (ts : List Tree) (k a : Nat), wtF sub ss ts = true → ss[k]? = some a →
    ∃ c, ts[k]? = some c ∧ wt sub a c = true
  | [], _, _, _, _, hk => by simp at hk
  | _ :: _, [], _, _, h, _ => by simp [wtF] at h
  | s :: ss, t :: ts, 0, a, h, hk => by
    simp [wtF] at h; simp at hk; subst hk; exact ⟨t, by simp, h.1⟩
  | s :: ss, t :: ts, k + 1, a, h, hk => by
    simp [wtF] at h
    obtain ⟨c, hc, hw⟩ := wtF_get ss ts k a h.2 (by simpa using hk)
    exact ⟨c, by simpa using hc, hw⟩

theorem size_le_sizeF : ∀ (ts : List Tree) (k : Nat) (c : Tree), ts[k]? = some c → c.size ≤ sizeF ts
  | [], _, _, h => by simp at h
  | t :: ts, 0, c, h => by simp at h; subst h; simp [sizeF]
  | t :: ts, k + 1, c, h => by
    have := size_le_sizeF ts k c (by simpa using h)
    simp [sizeF]; omega

theorem popRange_spec {a b x : Nat} {tp tp' : Tape} (h : popRange a b tp = .ok (x, tp')) : a ≤ x ∧ x < b :=
  ⟨(popRange_ok h).1, (popRange_ok h).2.1⟩

end GpTree
