/-
C07 — `selNSGA3E`: `selNSGA3` with the non-dominated sort done by the model itself (the C04 models
of `sortNondominated` / `sortLogNondominated` on the weighted values), then `-wvalues`,
normalisation, association and niching.  Whatever it answers is an answer of `selNSGA3Full` on the
fronts the sort computed (so every clause of `nsga3_full_spec` holds for it), and no omitted
individual lies in a strictly better front (smaller Pareto depth) than a selected one.
-/
import DeapModel.Lemmas.C07Depth
import DeapModel.Lemmas.C07Full

set_option linter.unusedSectionVars false
set_option linter.unusedVariables false

namespace C07L
open Nsga3 NDSort

section E2EN
variable {α : Type} [RealLike α]
variable {𝕜 : Type} [Field 𝕜] [LinearOrder 𝕜] [IsStrictOrderedRing 𝕜] [Inhabited 𝕜]

theorem mkPop_ids (wv : List (List 𝕜)) : (mkPop wv).map (·.id) = List.range wv.length := by
  unfold mkPop
  rw [List.map_zipWith]
  apply List.ext_getElem?
  intro t
  simp [List.getElem?_zipWith]
  by_cases h : t < wv.length
  · simp [h]
  · simp [h]

theorem mkPop_w (wv : List (List 𝕜)) : ∀ x ∈ mkPop wv, x.w ∈ wv := by
  intro x hx
  unfold mkPop at hx
  obtain ⟨t, ht⟩ := List.mem_iff_getElem?.1 hx
  rw [List.getElem?_zipWith] at ht
  cases h1 : (List.range wv.length)[t]? with
  | none => rw [h1] at ht; simp at ht
  | some i =>
    cases h2 : wv[t]? with
    | none => rw [h1, h2] at ht; simp at ht
    | some w =>
      rw [h1, h2] at ht
      simp only [Option.some.injEq] at ht
      rw [← ht]
      exact List.mem_of_getElem? h2

theorem mkPop_ne (wv : List (List 𝕜)) (hne : wv ≠ []) : mkPop wv ≠ [] := by
  intro h
  have := congrArg List.length (mkPop_ids wv)
  rw [h] at this
  simp at this
  exact hne (List.length_eq_zero_iff.1 this.symm)

/-- the sort of `selNSGA3E` terminates (C04) -/
theorem sortBy_isSome (logSort : Bool) (wv : List (List 𝕜)) (k : Nat) (hne : wv ≠ []) (m : Nat)
    (hlen : ∀ x ∈ wv, x.length = m) (hm : logSort = true → 2 ≤ m) :
    (sortBy logSort wv k).isSome := by
  have hl : ∀ x ∈ mkPop wv, x.w.length = m := fun x hx => hlen _ (mkPop_w wv x hx)
  unfold sortBy
  cases logSort with
  | true =>
    have := (C04.sortLog_terminates (mkPop wv) m (hm rfl) (mkPop_ne wv hne) hl k).1
    simpa using this
  | false =>
    obtain ⟨fr, h1, _⟩ := C04.sortStd_eq_peel (mkPop wv) (mkPop_ne wv hne) m hl k
    simp [h1]

/-- shape of what the sort hands to the rest of `selNSGA3` (C04): positions of the input, none
twice, fewer than `k` without the last front, at least `min k n` in all. -/
theorem sortBy_shape (logSort : Bool) (wv : List (List 𝕜)) (k : Nat) (hne : wv ≠ []) (m : Nat)
    (hlen : ∀ x ∈ wv, x.length = m) (hm : logSort = true → 2 ≤ m) (fronts : List (List Nat))
    (hs : sortBy logSort wv k = some fronts) :
    fronts.flatten.Nodup ∧ (∀ i ∈ fronts.flatten, i < wv.length) ∧
    (fronts ≠ [] → fronts.dropLast.flatten.length < k) ∧ min k wv.length ≤ fronts.flatten.length := by
  have hl : ∀ x ∈ mkPop wv, x.w.length = m := fun x hx => hlen _ (mkPop_w wv x hx)
  have hpl : (mkPop wv).length = wv.length := by
    have := congrArg List.length (mkPop_ids wv); simpa using this
  -- both sorts: the fronts are, front by front, permutations of the leading fronts of the peeling
  have key : ∃ fr : List (List (Ind 𝕜)), fronts = fr.map (fun f => f.map (·.id)) ∧
      List.Forall₂ List.Perm fr (leading (peel domI (mkPop wv)) k) := by
    unfold sortBy at hs
    cases logSort with
    | true =>
      simp only [if_true, Option.map_eq_some_iff] at hs
      obtain ⟨fr, hfr, rfl⟩ := hs
      obtain ⟨fr', h1, h2⟩ := C04.sortLog_eq_peel (mkPop wv) m (hm rfl) (mkPop_ne wv hne) hl k
      rw [hfr] at h1; cases h1
      exact ⟨fr, rfl, h2⟩
    | false =>
      simp only [Bool.false_eq_true, if_false, Option.map_eq_some_iff] at hs
      obtain ⟨fr, hfr, rfl⟩ := hs
      obtain ⟨fr', h1, h2⟩ := C04.sortStd_eq_peel (mkPop wv) (mkPop_ne wv hne) m hl k
      rw [hfr] at h1; cases h1
      exact ⟨fr, rfl, h2⟩
  obtain ⟨fr, rfl, h2⟩ := key
  have hS := C04L.spo_domI m (mkPop wv) hl
  have hfl := C04L.forall₂_perm_flatten h2
  have hsubp : fr.flatten.Subperm (mkPop wv) :=
    hfl.subperm.trans ((C04L.prefix_flatten_sublist (C04L.leading_prefix (peel domI (mkPop wv)) k)).subperm.trans
      (C04L.peel_flatten_perm (mkPop wv) hS).subperm)
  have hflat : (fr.map (fun f => f.map (·.id))).flatten = fr.flatten.map (·.id) := by
    rw [List.map_flatten]
  obtain ⟨l, hlp, hls⟩ := hsubp
  have hls' : (l.map (·.id)).Sublist (List.range wv.length) := by
    rw [← mkPop_ids]; exact hls.map _
  have hlp' : (l.map (·.id)).Perm (fr.flatten.map (·.id)) := hlp.map _
  refine ⟨?_, ?_, ?_, ?_⟩
  · rw [hflat]; exact hlp'.nodup_iff.1 (hls'.nodup List.nodup_range)
  · intro i hi; rw [hflat] at hi; exact List.mem_range.1 (hls'.subset (hlp'.symm.subset hi))
  · intro hne'
    have hlen2 := h2.length_eq
    have hfrne : fr ≠ [] := by intro e; rw [e] at hne'; exact hne' rfl
    have hne2 : leading (peel domI (mkPop wv)) k ≠ [] := by
      intro e; rw [e] at hlen2; exact hfrne (List.eq_nil_of_length_eq_zero (by simpa using hlen2))
    have hmin := C04L.leading_minimal (peel domI (mkPop wv)) k hne2
    have hdl : List.Forall₂ List.Perm fr.dropLast (leading (peel domI (mkPop wv)) k).dropLast := by
      rw [List.dropLast_eq_take, List.dropLast_eq_take, hlen2]
      exact List.forall₂_take _ h2
    have e1 : (fr.map (fun f => f.map (·.id))).dropLast.flatten = fr.dropLast.flatten.map (·.id) := by
      rw [← List.map_dropLast, List.map_flatten]
    rw [e1, List.length_map, (C04L.forall₂_perm_flatten hdl).length_eq]; exact hmin
  · have := C04L.leading_enough (peel domI (mkPop wv)) k
    rw [(C04L.peel_flatten_perm (mkPop wv) hS).length_eq, hpl] at this
    rw [hflat, List.length_map, hfl.length_eq]; exact this

theorem selNSGA3E_spec (toF : 𝕜 → α) (solve : List (List α) → List α → Option (List α))
    (logSort : Bool) (wv : List (List 𝕜)) (k : Nat) (refs : List (List α)) (mb mw : Option (List α))
    (me : Option (List (List α))) (tape : Tape) (res : List Nat)
    (h : selNSGA3E toF solve logSort wv k refs mb mw me tape = .ok res)
    (hne : wv ≠ []) (m : Nat) (hlen : ∀ x ∈ wv, x.length = m) (hm : logSort = true → 2 ≤ m) :
    (∃ fronts, sortBy logSort wv k = some fronts ∧
      selNSGA3Full solve fronts k (fun i => (wv.getD i []).map (fun x => - toF x)) refs mb mw me tape
        = .ok res) ∧
    ∀ x ∈ mkPop wv, ∀ y ∈ mkPop wv, x.id ∈ res →
      depth domI (mkPop wv) y < depth domI (mkPop wv) x → y.id ∈ res := by
  have hl : ∀ x ∈ mkPop wv, x.w.length = m := fun x hx => hlen _ (mkPop_w wv x hx)
  have hid : ((mkPop wv).map (·.id)).Nodup := by rw [mkPop_ids]; exact List.nodup_range
  unfold selNSGA3E at h
  split at h
  · exact absurd h (by simp)
  · rename_i fronts hs
    refine ⟨⟨fronts, hs, h⟩, ?_⟩
    unfold sortBy at hs
    rw [selNSGA3Full_eq] at h
    cases logSort with
    | true =>
      simp only [if_true, Option.map_eq_some_iff] at hs
      obtain ⟨fr, hfr, rfl⟩ := hs
      exact selNSGA3_depth_priority_log (mkPop wv) m (hm rfl) (mkPop_ne wv hne) hl hid k fr hfr
        _ _ _ _ tape res h
    | false =>
      simp only [Bool.false_eq_true, if_false, Option.map_eq_some_iff] at hs
      obtain ⟨fr, hfr, rfl⟩ := hs
      exact selNSGA3_depth_priority_std (mkPop wv) (mkPop_ne wv hne) m hl hid k fr hfr
        _ _ _ _ tape res h

end E2EN

end C07L
