/-
Helper lemmas for C07 (SPEA2 model): `forRange`, `tab`/`look`, `upd`.
-/
import DeapModel.Core.Spea2

namespace C07L
open Spea2

/-- loop invariant rule for `forRange` -/
theorem forRange_inv {σ : Type} (P : Nat → σ → Prop) (f : Nat → σ → σ) :
    ∀ (n start : Nat) (s : σ), P start s →
      (∀ i s, start ≤ i → i < start + n → P i s → P (i + 1) (f i s)) →
      P (start + n) (forRange start n f s) := by
  intro n
  induction n with
  | zero => intro start s h _; simpa [forRange] using h
  | succ n ih =>
    intro start s h hstep
    have h1 : P (start + 1) (f start s) := hstep start s (Nat.le_refl _) (by omega) h
    have := ih (start + 1) (f start s) h1 (fun i s hi hlt hp => hstep i s (by omega) (by omega) hp)
    simpa [forRange, Nat.add_assoc, Nat.add_comm 1 n] using this

@[simp] theorem upd_same {β : Type} (f : Nat → β) (i : Nat) (v : β) : upd f i v i = v := by
  simp [upd]

theorem upd_ne {β : Type} (f : Nat → β) (i x : Nat) (v : β) (h : x ≠ i) : upd f i v x = f x := by
  simp [upd, h]

theorem upd_apply {β : Type} (f : Nat → β) (i x : Nat) (v : β) :
    upd f i v x = if x = i then v else f x := rfl

@[simp] theorem tab_length {β : Type} (N : Nat) (f : Nat → β) : (tab N f).length = N := by
  simp [tab]

theorem look_tab {β : Type} [Inhabited β] (N : Nat) (f : Nat → β) (i : Nat) (h : i < N) :
    look (tab N f) i = f i := by
  simp [look, tab, List.getD_eq_getElem?_getD, h]

theorem getD_tab {β : Type} (N : Nat) (f : Nat → β) (i : Nat) (h : i < N) (d : β) :
    (tab N f).getD i d = f i := by
  simp [tab, List.getD_eq_getElem?_getD, h]

theorem look2_tab {γ : Type} [Inhabited γ] (N : Nat) (f : Nat → List γ) (i j : Nat) (h : i < N) :
    look2 (tab N f) i j = look (f i) j := by
  unfold look2; rw [getD_tab N f i h]

theorem look2_tab2 {β : Type} [Inhabited β] (N : Nat) (f : Nat → Nat → β) (i j : Nat)
    (hi : i < N) (hj : j < N) : look2 (tab2 N f) i j = f i j := by
  unfold tab2; rw [look2_tab N _ i j hi, look_tab N _ j hj]

end C07L
