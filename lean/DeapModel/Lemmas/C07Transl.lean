/-
C07 — translation invariance of the NSGA-III normalisation + association over ℝ:
adding a constant vector `c` to every objective vector (and to the remembered ideal / worst /
extreme points) moves the ideal point, the worst point, the extreme points and the intercepts by
`c` and leaves the association `(niche, distance)` of every individual unchanged.

The same `solve` is used on both sides: `solve` only ever sees `A = extreme − ideal` and
`b = ones`, and both are unchanged by the translation.
-/
import DeapModel.Core.Nsga3
import DeapModel.RealInst
import DeapModel.Lemmas.C07Assoc
import Mathlib.Data.List.GetD
import Mathlib.Tactic.Ring
import Mathlib.Tactic.Linarith

set_option linter.unusedSectionVars false
set_option linter.unusedVariables false

namespace C07L
namespace Transl
open Nsga3

/-- translation of an objective vector by the constant vector `c` -/
def shift (c : List ℝ) (r : List ℝ) : List ℝ := List.zipWith (· + ·) r c

theorem shift_nil (c : List ℝ) : shift c [] = [] := rfl

theorem shift_length_of_le (c r : List ℝ) (h : r.length ≤ c.length) :
    (shift c r).length = r.length := by
  unfold shift
  rw [List.length_zipWith]
  exact Nat.min_eq_left h

/-! ### generic `zipWith` facts -/

/-- a binary operation that commutes with the translation (`min`, `max`): no length hypothesis,
both sides are truncated to the shortest of the three lists. -/
theorem zipWith_shift_comm (f : ℝ → ℝ → ℝ) (hf : ∀ a b c, f (a + c) (b + c) = f a b + c) :
    ∀ (a b c : List ℝ), List.zipWith f (shift c a) (shift c b) = shift c (List.zipWith f a b) := by
  intro a
  induction a with
  | nil => intro b c; rfl
  | cons x xs ih =>
    intro b c
    cases b with
    | nil => simp [shift]
    | cons y ys =>
      cases c with
      | nil => simp [shift]
      | cons z zs =>
        have := ih ys zs
        unfold shift at this ⊢
        simp only [List.zipWith_cons_cons, this, hf]

/-- a binary operation that is invariant under the translation (`−`, `i − b + eps`): needs the
second list to be no longer than `c` (otherwise the translated side is truncated more). -/
theorem zipWith_shift_cancel {β : Type} (g : ℝ → ℝ → β) (hg : ∀ a b c, g (a + c) (b + c) = g a b) :
    ∀ (b a c : List ℝ), b.length ≤ c.length →
      List.zipWith g (shift c a) (shift c b) = List.zipWith g a b := by
  intro b
  induction b with
  | nil => intro a c _; simp [shift]
  | cons y ys ih =>
    intro a c h
    cases c with
    | nil => simp at h
    | cons z zs =>
      cases a with
      | nil => simp [shift]
      | cons x xs =>
        have := ih xs zs (by simpa using h)
        unfold shift at this ⊢
        simp only [List.zipWith_cons_cons, this, hg]

/-! ### ideal / worst point -/

theorem foldl_shift (f : ℝ → ℝ → ℝ) (hf : ∀ a b c, f (a + c) (b + c) = f a b + c) (c : List ℝ) :
    ∀ (rs : List (List ℝ)) (acc : List ℝ),
      (rs.map (shift c)).foldl (fun acc r => List.zipWith f acc r) (shift c acc) =
        shift c (rs.foldl (fun acc r => List.zipWith f acc r) acc) := by
  intro rs
  induction rs with
  | nil => intro acc; rfl
  | cons r rs ih =>
    intro acc
    simp only [List.map_cons, List.foldl_cons]
    rw [zipWith_shift_comm f hf, ih]

theorem colF_shift (f : ℝ → ℝ → ℝ) (hf : ∀ a b c, f (a + c) (b + c) = f a b + c) (c : List ℝ)
    (rows : List (List ℝ)) (mem : List ℝ) :
    colF f (rows.map (shift c)) (shift c mem) = shift c (colF f rows mem) := by
  cases rows with
  | nil => rfl
  | cons r0 rs =>
    rw [List.map_cons, colF_cons, colF_cons]
    have : rs.map (shift c) ++ [shift c mem] = (rs ++ [mem]).map (shift c) := by
      rw [List.map_append]; rfl
    rw [this, foldl_shift f hf]

theorem min_shift (a b c : ℝ) :
    (if @LT.lt ℝ RealLike.toLT (b + c) (a + c) then b + c else a + c) =
      (if @LT.lt ℝ RealLike.toLT b a then b else a) + c := by
  by_cases h : b < a
  · have h' : b + c < a + c := by linarith
    rw [if_pos h, if_pos h']
  · have h' : ¬ (b + c < a + c) := by intro h''; exact h (by linarith)
    rw [if_neg h, if_neg h']

theorem max_shift (a b c : ℝ) :
    (if @LT.lt ℝ RealLike.toLT (a + c) (b + c) then b + c else a + c) =
      (if @LT.lt ℝ RealLike.toLT a b then b else a) + c := by
  by_cases h : a < b
  · have h' : a + c < b + c := by linarith
    rw [if_pos h, if_pos h']
  · have h' : ¬ (a + c < b + c) := by intro h''; exact h (by linarith)
    rw [if_neg h, if_neg h']

theorem colMin_shift (c : List ℝ) (rows : List (List ℝ)) (mem : List ℝ) :
    @Nsga3.colMin ℝ RealLike.toLT RealLike.instDecidableLT (rows.map (shift c)) (shift c mem) =
      shift c (@Nsga3.colMin ℝ RealLike.toLT RealLike.instDecidableLT rows mem) :=
  colF_shift _ (fun a b c => min_shift a b c) c rows mem

theorem colMax_shift (c : List ℝ) (rows : List (List ℝ)) (mem : List ℝ) :
    @Nsga3.colMax ℝ RealLike.toLT RealLike.instDecidableLT (rows.map (shift c)) (shift c mem) =
      shift c (@Nsga3.colMax ℝ RealLike.toLT RealLike.instDecidableLT rows mem) :=
  colF_shift _ (fun a b c => max_shift a b c) c rows mem

theorem colMin0_shift (c : List ℝ) (rows : List (List ℝ)) :
    colMin0 (rows.map (shift c)) = shift c (colMin0 rows) := by
  cases rows with
  | nil => rfl
  | cons r rs => exact colMin_shift c rs r

theorem colMax0_shift (c : List ℝ) (rows : List (List ℝ)) :
    colMax0 (rows.map (shift c)) = shift c (colMax0 rows) := by
  cases rows with
  | nil => rfl
  | cons r rs => exact colMax_shift c rs r

theorem idealPoint_shift (c : List ℝ) (fits : List (List ℝ)) (mb : Option (List ℝ)) :
    idealPoint (fits.map (shift c)) (mb.map (shift c)) = shift c (idealPoint fits mb) := by
  cases mb with
  | none => exact colMin0_shift c fits
  | some m => exact colMin_shift c fits m

theorem worstPoint_shift (c : List ℝ) (fits : List (List ℝ)) (mw : Option (List ℝ)) :
    worstPoint (fits.map (shift c)) (mw.map (shift c)) = shift c (worstPoint fits mw) := by
  cases mw with
  | none => exact colMax0_shift c fits
  | some m => exact colMax_shift c fits m

/-- the ideal point of a non-empty rectangular matrix has the common row length -/
theorem idealPoint_length (fits : List (List ℝ)) (mb : Option (List ℝ)) (n : Nat)
    (hne : fits ≠ []) (hfits : ∀ r ∈ fits, r.length = n) (hmb : ∀ m, mb = some m → m.length = n) :
    (idealPoint fits mb).length = n := by
  cases mb with
  | some m =>
    have hm := hmb m rfl
    have := colF_length (fun a b : ℝ => if @LT.lt ℝ RealLike.toLT b a then b else a) fits m
      (fun r hr => by rw [hfits r hr, hm])
    rw [← hm]; exact this
  | none =>
    cases fits with
    | nil => exact absurd rfl hne
    | cons r0 rs =>
      have h0 := hfits r0 List.mem_cons_self
      have := colF_length (fun a b : ℝ => if @LT.lt ℝ RealLike.toLT b a then b else a) rs r0
        (fun r hr => by rw [hfits r (List.mem_cons_of_mem _ hr), h0])
      rw [← h0]; exact this

/-! ### translated objectives `f − ideal` -/

theorem sub_shift (c b r : List ℝ) (h : b.length ≤ c.length) :
    List.zipWith (fun x y => @HSub.hSub ℝ ℝ ℝ (@instHSub ℝ RealLike.toSub) x y) (shift c r) (shift c b) =
      List.zipWith (fun x y => @HSub.hSub ℝ ℝ ℝ (@instHSub ℝ RealLike.toSub) x y) r b :=
  zipWith_shift_cancel _ (fun a b c => by simp only [RealLike.real_sub]; ring) b r c h

/-- the matrix of translated rows is unchanged -/
theorem map_sub_shift (c best : List ℝ) (rows : List (List ℝ)) (h : best.length ≤ c.length) :
    (rows.map (shift c)).map (fun r => List.zipWith (· - ·) r (shift c best)) =
      rows.map (fun r => List.zipWith (· - ·) r best) := by
  rw [List.map_map]
  apply List.map_congr_left
  intro r _
  exact sub_shift c best r h

/-! ### `find_extreme_points` -/

theorem findExtremePoints_shift (c best : List ℝ) (fits : List (List ℝ))
    (me : Option (List (List ℝ))) (h : best.length ≤ c.length) :
    findExtremePoints (fits.map (shift c)) (shift c best) (me.map (List.map (shift c))) =
      (findExtremePoints fits best me).map (shift c) := by
  have key : ∀ rows : List (List ℝ),
      (List.range (shift c best).length).map (fun j =>
        (rows.map (shift c)).getD (argminIdx
          (((rows.map (shift c)).map (fun r => List.zipWith (· - ·) r (shift c best))).map
            (asf (shift c best).length j))) []) =
      ((List.range best.length).map (fun j =>
        rows.getD (argminIdx ((rows.map (fun r => List.zipWith (· - ·) r best)).map
          (asf best.length j))) [])).map (shift c) := by
    intro rows
    rw [map_sub_shift c best rows h, shift_length_of_le c best h, List.map_map]
    apply List.map_congr_left
    intro j _
    have := @List.getD_map _ _ rows [] (argminIdx ((rows.map (fun r => List.zipWith (· - ·) r best)).map
          (asf best.length j))) (shift c)
    rw [shift_nil] at this
    exact this
  cases me with
  | none => exact key fits
  | some e =>
    have := key (fits ++ e)
    rw [List.map_append] at this
    exact this

/-! ### `find_intercepts` -/

theorem guard_shift : ∀ (ic best worst c : List ℝ), best.length ≤ c.length →
    List.zipWith (fun (s w : ℝ) => decide (@LT.lt ℝ RealLike.toLT w s))
        (List.zipWith (fun x y => @HAdd.hAdd ℝ ℝ ℝ (@instHAdd ℝ RealLike.toAdd) x y) ic (shift c best))
        (shift c worst) =
      List.zipWith (fun (s w : ℝ) => decide (@LT.lt ℝ RealLike.toLT w s))
        (List.zipWith (fun x y => @HAdd.hAdd ℝ ℝ ℝ (@instHAdd ℝ RealLike.toAdd) x y) ic best) worst := by
  intro ic
  induction ic with
  | nil => intro best worst c _; simp
  | cons i is ih =>
    intro best worst c h
    cases best with
    | nil => simp [shift]
    | cons b bs =>
      cases c with
      | nil => simp at h
      | cons z zs =>
        cases worst with
        | nil => simp [shift]
        | cons w ws =>
          have := ih bs ws zs (by simpa using h)
          unfold shift at this ⊢
          simp only [List.zipWith_cons_cons, this, RealLike.real_add, RealLike.real_lt]
          congr 1
          apply decide_eq_decide.2
          constructor <;> intro h' <;> linarith

theorem acceptIntercepts_shift (A : List (List ℝ)) (x best worst c : List ℝ)
    (h : best.length ≤ c.length) :
    acceptIntercepts A x (shift c best) (shift c worst) = acceptIntercepts A x best worst := by
  unfold acceptIntercepts
  simp only []
  rw [guard_shift _ best worst c h]

theorem add_shift : ∀ (ic best c : List ℝ),
    List.zipWith (fun x y => @HAdd.hAdd ℝ ℝ ℝ (@instHAdd ℝ RealLike.toAdd) x y) ic (shift c best) =
      shift c (List.zipWith (fun x y => @HAdd.hAdd ℝ ℝ ℝ (@instHAdd ℝ RealLike.toAdd) x y) ic best) := by
  intro ic
  induction ic with
  | nil => intro best c; rfl
  | cons i is ih =>
    intro best c
    cases best with
    | nil => simp [shift]
    | cons b bs =>
      cases c with
      | nil => simp [shift]
      | cons z zs =>
        have := ih bs zs
        unfold shift at this ⊢
        simp only [List.zipWith_cons_cons, this, RealLike.real_add, add_assoc]

theorem findIntercepts_shift (solve : List (List ℝ) → List ℝ → Option (List ℝ))
    (extreme : List (List ℝ)) (best worst fw c : List ℝ) (h : best.length ≤ c.length) :
    findIntercepts solve (extreme.map (shift c)) (shift c best) (shift c worst) (shift c fw) =
      shift c (findIntercepts solve extreme best worst fw) := by
  unfold findIntercepts
  simp only []
  rw [map_sub_shift c best extreme h, shift_length_of_le c best h]
  cases solve (extreme.map (fun r => List.zipWith (· - ·) r best))
      (List.replicate best.length (RealLike.ofNat 1 : ℝ)) with
  | none => rfl
  | some x =>
    simp only []
    rw [acceptIntercepts_shift _ x best worst c h]
    by_cases hz : x.any isZero = true
    · rw [if_pos hz, if_pos hz]
    · rw [if_neg hz, if_neg hz]
      by_cases ha : acceptIntercepts (extreme.map (fun r => List.zipWith (· - ·) r best)) x best worst = true
      · rw [if_pos ha, if_pos ha]
        exact add_shift _ best c
      · rw [if_neg ha, if_neg ha]

/-! ### the normalised objectives and the association -/

theorem normalise_shift (best ic f c : List ℝ) (h : best.length ≤ c.length) :
    normalise (shift c best) (shift c ic) (shift c f) = normalise best ic f := by
  unfold normalise
  rw [sub_shift c best f h]
  congr 1
  exact zipWith_shift_cancel _ (fun a b c => by simp only [RealLike.real_sub, RealLike.real_add]; ring)
    best ic c h

theorem associate1_shift (refs : List (List ℝ)) (best ic f c : List ℝ) (h : best.length ≤ c.length) :
    associate1 refs (shift c best) (shift c ic) (shift c f) = associate1 refs best ic f := by
  unfold associate1
  rw [normalise_shift best ic f c h]

theorem associate_shift (fits refs : List (List ℝ)) (best ic c : List ℝ)
    (h : best.length ≤ c.length) :
    associate (fits.map (shift c)) refs (shift c best) (shift c ic) = associate fits refs best ic := by
  unfold associate
  rw [List.map_map]
  apply List.map_congr_left
  intro f _
  exact associate1_shift refs best ic f c h

/-! ### the whole normalisation moves by `c` -/

/-- ideal point, worst point, extreme points and intercepts of the translated problem are the
translates of those of the original problem (only `ideal.length ≤ c.length` is needed). -/
theorem normalisation_shift (solve : List (List ℝ) → List ℝ → Option (List ℝ))
    (fits : List (List ℝ)) (c : List ℝ) (mb mw : Option (List ℝ)) (me : Option (List (List ℝ)))
    (h : (idealPoint fits mb).length ≤ c.length) :
    normalisation solve (fits.map (shift c)) (mb.map (shift c)) (mw.map (shift c))
        (me.map (List.map (shift c))) =
      (shift c (normalisation solve fits mb mw me).1,
       shift c (normalisation solve fits mb mw me).2.1,
       (normalisation solve fits mb mw me).2.2.1.map (shift c),
       shift c (normalisation solve fits mb mw me).2.2.2) := by
  unfold normalisation
  simp only []
  rw [idealPoint_shift, worstPoint_shift, colMax0_shift, findExtremePoints_shift c _ fits me h,
    findIntercepts_shift solve _ _ _ _ c h]

/-- translation invariance of the association, under the only hypothesis actually used: the ideal
point is no longer than `c`. -/
theorem association_translation_invariant_of_le
    (solve : List (List ℝ) → List ℝ → Option (List ℝ))
    (fits refs : List (List ℝ)) (c : List ℝ)
    (mb mw : Option (List ℝ)) (me : Option (List (List ℝ)))
    (h : (idealPoint fits mb).length ≤ c.length) :
    let n  := Nsga3.normalisation solve fits mb mw me
    let n' := Nsga3.normalisation solve (fits.map (shift c)) (mb.map (shift c)) (mw.map (shift c))
                (me.map (List.map (shift c)))
    Nsga3.associate (fits.map (shift c)) refs n'.1 n'.2.2.2 = Nsga3.associate fits refs n.1 n.2.2.2 := by
  intro n n'
  have e : n' = (shift c n.1, shift c n.2.1, n.2.2.1.map (shift c), shift c n.2.2.2) :=
    normalisation_shift solve fits c mb mw me h
  rw [e]
  exact associate_shift fits refs n.1 n.2.2.2 c h

/-- **Translation invariance of the NSGA-III association.**  Translating every objective vector
and the whole memory (remembered ideal point, worst point, extreme points) by a constant vector
`c` leaves the association `(niche, distance)` of every individual unchanged — with the *same*
`solve` on both sides and no assumption on it. -/
theorem association_translation_invariant
    (solve : List (List ℝ) → List ℝ → Option (List ℝ))
    (fits refs : List (List ℝ)) (c : List ℝ)
    (mb mw : Option (List ℝ)) (me : Option (List (List ℝ)))
    (hne : fits ≠ [])
    (hfits : ∀ r ∈ fits, r.length = c.length)
    (hmb : ∀ m, mb = some m → m.length = c.length)
    (hmw : ∀ m, mw = some m → m.length = c.length)
    (hme : ∀ e, me = some e → ∀ r ∈ e, r.length = c.length) :
    let n  := Nsga3.normalisation solve fits mb mw me
    let n' := Nsga3.normalisation solve (fits.map (shift c)) (mb.map (shift c)) (mw.map (shift c))
                (me.map (List.map (shift c)))
    Nsga3.associate (fits.map (shift c)) refs n'.1 n'.2.2.2 = Nsga3.associate fits refs n.1 n.2.2.2 :=
  association_translation_invariant_of_le solve fits refs c mb mw me
    (le_of_eq (idealPoint_length fits mb c.length hne hfits hmb))

/-- a concrete instance of the hypotheses: two individuals, two objectives, no memory -/
example (solve : List (List ℝ) → List ℝ → Option (List ℝ)) (refs : List (List ℝ)) :
    let fits : List (List ℝ) := [[1, 2], [3, 0]]
    let c : List ℝ := [5, 7]
    let n  := Nsga3.normalisation solve fits none none none
    let n' := Nsga3.normalisation solve (fits.map (shift c)) none none none
    Nsga3.associate (fits.map (shift c)) refs n'.1 n'.2.2.2 = Nsga3.associate fits refs n.1 n.2.2.2 :=
  association_translation_invariant solve [[1, 2], [3, 0]] refs [5, 7] none none none
    (List.cons_ne_nil _ _)
    (by intro r hr; simp only [List.mem_cons, List.not_mem_nil, or_false] at hr
        rcases hr with rfl | rfl <;> rfl)
    (by intro m hm; cases hm) (by intro m hm; cases hm) (by intro e he; cases he)

end Transl
end C07L
