/-
C08 helper lemmas: Pareto dominance, the scan of `ParetoFront.update`, and its invariants.
-/
import DeapModel.Lemmas.C08HofInv

set_option linter.unusedSectionVars false
set_option linter.unusedSimpArgs false
set_option linter.unusedVariables false

namespace C08L
open Archive
open Fitness (Fit deepcopy)

variable {G α : Type} [LinearOrder α]

/-! ### Dominance -/

theorem slice_range {β : Type} (l : List β) : Py.slice (List.range l.length) l = l := by
  induction l with
  | nil => simp [Py.slice]
  | cons a t ih =>
    simp only [Py.slice] at ih ⊢
    rw [List.length_cons, List.range_succ_eq_map, List.filterMap_cons]
    simp only [List.getElem?_cons_zero, List.filterMap_map]
    congr 1

/-- Pareto dominance on weighted value tuples: nowhere worse, somewhere better. -/
def Dom (a b : List α) : Prop :=
  (∀ i (h1 : i < a.length) (h2 : i < b.length), b[i] ≤ a[i]) ∧
  ∃ i, ∃ (h1 : i < a.length) (h2 : i < b.length), b[i] < a[i]

theorem zip_all_iff (a b : List α) (P : α → α → Prop) :
    (∀ p ∈ a.zip b, P p.1 p.2) ↔ ∀ i (h1 : i < a.length) (h2 : i < b.length), P a[i] b[i] := by
  constructor
  · intro h i h1 h2
    have hm : (a[i], b[i]) ∈ a.zip b := by
      rw [List.mem_iff_getElem]
      exact ⟨i, by simp [List.length_zip]; omega, by simp [List.getElem_zip]⟩
    exact h _ hm
  · intro h p hp
    obtain ⟨i, hi, rfl⟩ := List.mem_iff_getElem.1 hp
    simp only [List.length_zip] at hi
    simp only [List.getElem_zip]
    exact h i (by omega) (by omega)

theorem zip_ex_iff (a b : List α) (P : α → α → Prop) :
    (∃ p ∈ a.zip b, P p.1 p.2) ↔ ∃ i, ∃ (h1 : i < a.length) (h2 : i < b.length), P a[i] b[i] := by
  constructor
  · rintro ⟨p, hp, hP⟩
    obtain ⟨i, hi, rfl⟩ := List.mem_iff_getElem.1 hp
    simp only [List.length_zip] at hi
    simp only [List.getElem_zip] at hP
    exact ⟨i, by omega, by omega, hP⟩
  · rintro ⟨i, h1, h2, hP⟩
    refine ⟨(a[i], b[i]), ?_, hP⟩
    rw [List.mem_iff_getElem]
    exact ⟨i, by simp [List.length_zip]; omega, by simp [List.getElem_zip]⟩

theorem dom_iff (a b : Fit α) : dom a b = true ↔ Dom a.wvalues b.wvalues := by
  simp only [dom, Fitness.dominates, slice_range, C01.dominatesLoop_iff, Bool.false_eq_true, false_or, Dom]
  rw [zip_all_iff a.wvalues b.wvalues (fun x y => y ≤ x), zip_ex_iff a.wvalues b.wvalues (fun x y => y < x)]

theorem Dom.irrefl (a : List α) : ¬ Dom a a := by
  rintro ⟨_, i, h1, h2, h⟩
  exact lt_irrefl _ h

theorem Dom.trans {a b c : List α} (hab : a.length = b.length) (hbc : b.length = c.length)
    (h1 : Dom a b) (h2 : Dom b c) : Dom a c := by
  obtain ⟨w1, i, i1, i2, s1⟩ := h1
  obtain ⟨w2, _⟩ := h2
  refine ⟨fun j j1 j2 => le_trans (w2 j (by omega) j2) (w1 j j1 (by omega)), i, i1, by omega, ?_⟩
  exact lt_of_le_of_lt (w2 i i2 (by omega)) s1

theorem dom_irrefl (a : Fit α) : dom a a = false := by
  cases h : dom a a with
  | false => rfl
  | true => exact absurd ((dom_iff a a).1 h) (Dom.irrefl _)

theorem dom_trans {n : Nat} {a b c : Fit α} (ha : a.wvalues.length = n) (hb : b.wvalues.length = n)
    (hc : c.wvalues.length = n) (h1 : dom a b = true) (h2 : dom b c = true) : dom a c = true :=
  (dom_iff a c).2 (Dom.trans (by omega) (by omega) ((dom_iff a b).1 h1) ((dom_iff b c).1 h2))

/-! ### The scan -/

variable (sim : Ind G α → Ind G α → Bool) (ind : Ind G α)

/-- Unconditionally: the scan appends a strictly increasing list of valid positions to `to_remove`. -/
theorem scan_toRemove (l : List (Ind G α)) (i : Nat) (s : Scan) :
    ∃ extra, (scan sim ind l i s).toRemove = s.toRemove ++ extra ∧ extra.Pairwise (· < ·) ∧
      ∀ j ∈ extra, i ≤ j ∧ j < i + l.length := by
  induction l generalizing i s with
  | nil => exact ⟨[], by simp [scan], List.Pairwise.nil, by simp⟩
  | cons hofer rest ih =>
    simp only [scan]
    split
    · exact ⟨[], by simp, List.Pairwise.nil, by simp⟩
    · split
      · obtain ⟨ex, e1, e2, e3⟩ := ih (i + 1) { s with dominatesOne := true, toRemove := s.toRemove ++ [i] }
        refine ⟨i :: ex, by rw [e1]; simp, ?_, ?_⟩
        · rw [List.pairwise_cons]
          exact ⟨fun j hj => by have := e3 j hj; omega, e2⟩
        · intro j hj
          rw [List.mem_cons] at hj
          rcases hj with rfl | hj
          · simp
          · have := e3 j hj; simp only [List.length_cons]; omega
      · split
        · exact ⟨[], by simp, List.Pairwise.nil, by simp⟩
        · obtain ⟨ex, e1, e2, e3⟩ := ih (i + 1) s
          exact ⟨ex, e1, e2, fun j hj => by have := e3 j hj; simp only [List.length_cons]; omega⟩

/-- Some member dominates `ind`, `ind` dominates / equals none: `is_dominated`, nothing else changes. -/
theorem scanA (l : List (Ind G α)) (i : Nat) (s : Scan) (hs : s.dominatesOne = false)
    (h1 : ∀ x ∈ l, dom ind.fit x.fit = false) (h2 : ∀ x ∈ l, Fitness.eq ind.fit x.fit = false)
    (h3 : ∃ x ∈ l, dom x.fit ind.fit = true) :
    scan sim ind l i s = { s with isDominated := true } := by
  induction l generalizing i with
  | nil => simp at h3
  | cons hofer rest ih =>
    simp only [scan, hs, Bool.not_false, Bool.true_and]
    by_cases hd : dom hofer.fit ind.fit = true
    · simp [hd]
    · have hd' : dom hofer.fit ind.fit = false := by simpa using hd
      simp only [hd', Bool.false_eq_true, ↓reduceIte, h1 hofer (by simp), h2 hofer (by simp), Bool.false_and]
      have := ih (i + 1) (fun x hx => h1 x (by simp [hx])) (fun x hx => h2 x (by simp [hx])) (by
        obtain ⟨x, hx, hxd⟩ := h3
        rw [List.mem_cons] at hx
        rcases hx with rfl | hx
        · rw [hxd] at hd'; exact absurd hd' (by simp)
        · exact ⟨x, hx, hxd⟩)
      rw [this]; simp [hs]

/-- No member dominates `ind` and none is its twin: every dominated member is recorded. -/
theorem scanB (l : List (Ind G α)) (i : Nat) (s : Scan)
    (h1 : ∀ x ∈ l, dom x.fit ind.fit = false)
    (h2 : ∀ x ∈ l, (Fitness.eq ind.fit x.fit && sim ind x) = false) :
    (scan sim ind l i s).isDominated = s.isDominated ∧ (scan sim ind l i s).hasTwin = s.hasTwin ∧
    (scan sim ind l i s).toRemove = s.toRemove ++ idxs (fun x => dom ind.fit x.fit) l i := by
  induction l generalizing i s with
  | nil => simp [scan, idxs]
  | cons hofer rest ih =>
    simp only [scan, h1 hofer (by simp), Bool.and_false, Bool.false_eq_true, ↓reduceIte,
      h2 hofer (by simp), idxs]
    have r1 : ∀ x ∈ rest, dom x.fit ind.fit = false := fun x hx => h1 x (by simp [hx])
    have r2 : ∀ x ∈ rest, (Fitness.eq ind.fit x.fit && sim ind x) = false := fun x hx => h2 x (by simp [hx])
    split
    · obtain ⟨a, b, c⟩ := ih (i + 1) { s with dominatesOne := true, toRemove := s.toRemove ++ [i] } r1 r2
      exact ⟨a, b, by rw [c]; simp⟩
    · exact ih (i + 1) s r1 r2

/-- No dominance either way and a twin exists: `has_twin`, nothing else changes. -/
theorem scanC (l : List (Ind G α)) (i : Nat) (s : Scan)
    (h1 : ∀ x ∈ l, dom x.fit ind.fit = false) (h2 : ∀ x ∈ l, dom ind.fit x.fit = false)
    (h3 : ∃ x ∈ l, (Fitness.eq ind.fit x.fit && sim ind x) = true) :
    scan sim ind l i s = { s with hasTwin := true } := by
  induction l generalizing i with
  | nil => simp at h3
  | cons hofer rest ih =>
    simp only [scan, h1 hofer (by simp), Bool.and_false, Bool.false_eq_true, ↓reduceIte,
      h2 hofer (by simp)]
    by_cases ht : (Fitness.eq ind.fit hofer.fit && sim ind hofer) = true
    · simp [ht]
    · simp only [ht, Bool.false_eq_true, ↓reduceIte]
      apply ih
      · exact fun x hx => h1 x (by simp [hx])
      · exact fun x hx => h2 x (by simp [hx])
      · obtain ⟨x, hx, hxd⟩ := h3
        rw [List.mem_cons] at hx
        rcases hx with rfl | hx
        · exact absurd hxd ht
        · exact ⟨x, hx, hxd⟩

/-! ### Removing the recorded positions, highest first -/

theorem removeAll_spec {base : Nat} {seen : List (Ind G α)} (js : List Nat) (h : HoF G α)
    (hs : Str base seen h) (hd : js.Pairwise (· > ·)) (hlt : ∀ j ∈ js, j < h.items.length) :
    ∃ h', removeAll h js = some h' ∧ Str base seen h' ∧ h'.next = h.next ∧
      h'.items = js.foldl List.eraseIdx h.items := by
  induction js generalizing h with
  | nil => exact ⟨h, rfl, hs, rfl, rfl⟩
  | cons j js ih =>
    rw [List.pairwise_cons] at hd
    have hj := hlt j (by simp)
    simp only [removeAll, remove_nat h j hj]
    obtain ⟨h', e1, e2, e3, e4⟩ := ih (erased h j) (erased_str hs j hj) hd.2 (by
      intro j' hj'
      have := hd.1 j' hj'
      rw [length_erased h j hj]; omega)
    exact ⟨h', e1, e2, e3, by rw [e4]; rfl⟩

theorem foldl_eraseIdx_sublist {β : Type} (js : List Nat) (l : List β) :
    (js.foldl List.eraseIdx l).Sublist l := by
  induction js generalizing l with
  | nil => exact List.Sublist.refl _
  | cons j js ih => exact (ih _).trans (List.eraseIdx_sublist _ _)

/-- One iteration of `ParetoFront.update` never raises and keeps the structural invariant —
for every similarity operator and every fitness. -/
theorem pfStep_str {base : Nat} {seen : List (Ind G α)} {h : HoF G α} (hs : Str base seen h) :
    ∃ h', pfStep sim h ind = some h' ∧ Str base (seen ++ [ind]) h' := by
  obtain ⟨ex, e1, e2, e3⟩ := scan_toRemove sim ind h.items 0 {}
  have e1' : (scan sim ind h.items 0 {}).toRemove = ex := by rw [e1]; rfl
  obtain ⟨h1, r1, r2, _, _⟩ := removeAll_spec ex.reverse h hs (by rw [List.pairwise_reverse]; exact e2)
    (by intro j hj; have := e3 j (by simpa using hj); omega)
  have r2' : Str base (seen ++ [ind]) h1 := r2.mono (fun x hx => by simp [hx])
  simp only [pfStep, e1', r1]
  split
  · exact ⟨_, rfl, insert_str r2' ind (by simp)⟩
  · exact ⟨_, rfl, r2'⟩

/-! ### Semantic invariants of the Pareto archive -/

/-- Hypotheses for the Pareto archive: the similarity operator is reflexive and symmetric and does
not look at object identity; every fitness of the universe `U` has `n` objectives. -/
structure PfHyp (sim : Ind G α → Ind G α → Bool) (n : Nat) (U : List (Ind G α)) : Prop extends SimBase sim where
  len : ∀ x ∈ U, x.fit.wvalues.length = n

/-- equal fitness and similar -/
def Twin (sim : Ind G α → Ind G α → Bool) (a b : Ind G α) : Prop := a.fit = b.fit ∧ sim a b = true

/-- members mutually non-dominated -/
def Anti (h : HoF G α) : Prop := ∀ a ∈ h.items, ∀ b ∈ h.items, dom a.fit b.fit = false

def NoTwin (sim : Ind G α → Ind G α → Bool) (h : HoF G α) : Prop :=
  h.items.Pairwise (fun a b => ¬ Twin sim a b)

/-- every individual seen is dominated by a member or has a twin member -/
def Cover (sim : Ind G α → Ind G α → Bool) (seen : List (Ind G α)) (h : HoF G α) : Prop :=
  ∀ x ∈ seen, (∃ it ∈ h.items, dom it.fit x.fit = true) ∨ (∃ it ∈ h.items, Twin sim x it)

variable {sim} {ind}

theorem eqtwin_iff (x y : Ind G α) :
    (Fitness.eq x.fit y.fit && sim x y) = true ↔ Twin sim x y := by
  simp [Twin, eq_iff]

/-- One iteration of `ParetoFront.update`: the antichain needs only equal numbers of objectives;
"no twins" needs a symmetric identity-blind similarity; the cover needs reflexivity as well. -/
theorem pfStep_sem {n base : Nat} {U seen : List (Ind G α)} {h h' : HoF G α}
    (hlen : ∀ x ∈ U, x.fit.wvalues.length = n)
    (hs : Str base seen h) (hanti : Anti h) (hU : ∀ x ∈ seen ++ [ind], x ∈ U)
    (e : pfStep sim h ind = some h') :
    Anti h' ∧ (SimSym sim → NoTwin sim h → NoTwin sim h') ∧
      (SimBase sim → Cover sim seen h → Cover sim (seen ++ [ind]) h') := by
  have hlen_ind : ind.fit.wvalues.length = n := hlen ind (hU ind (by simp))
  have hlen_it : ∀ it ∈ h.items, it.fit.wvalues.length = n := by
    intro it hit
    obtain ⟨x, hx, sx⟩ := hs.origin it hit
    rw [sx.2]; exact hlen x (hU x (by simp [hx]))
  by_cases hA : ∃ hofer ∈ h.items, dom hofer.fit ind.fit = true
  · -- some member dominates `ind`
    obtain ⟨hofer, hhof, hdom⟩ := hA
    have h1 : ∀ x ∈ h.items, dom ind.fit x.fit = false := by
      intro x hx
      cases hq : dom ind.fit x.fit with
      | false => rfl
      | true =>
        have := dom_trans (hlen_it _ hhof) hlen_ind (hlen_it _ hx) hdom hq
        rw [hanti hofer hhof x hx] at this; exact absurd this (by simp)
    have h2 : ∀ x ∈ h.items, Fitness.eq ind.fit x.fit = false := by
      intro x hx
      cases hq : Fitness.eq ind.fit x.fit with
      | false => rfl
      | true =>
        have := (eq_iff _ _).1 hq
        rw [this, hanti hofer hhof x hx] at hdom; exact absurd hdom (by simp)
    have hsc := scanA sim ind h.items 0 {} rfl h1 h2 ⟨hofer, hhof, hdom⟩
    simp only [pfStep, hsc, List.reverse_nil, removeAll, Bool.not_true, Bool.false_and,
      Bool.false_eq_true, ↓reduceIte, Option.some.injEq] at e
    subst e
    refine ⟨hanti, fun _ hnt => hnt, fun _ hcov => ?_⟩
    intro x hx
    rw [List.mem_append, List.mem_singleton] at hx
    rcases hx with hx | rfl
    · exact hcov x hx
    · exact Or.inl ⟨hofer, hhof, hdom⟩
  · have hnd : ∀ x ∈ h.items, dom x.fit ind.fit = false := by
      intro x hx
      cases hq : dom x.fit ind.fit with
      | false => rfl
      | true => exact absurd ⟨x, hx, hq⟩ hA
    by_cases hT : ∃ x ∈ h.items, (Fitness.eq ind.fit x.fit && sim ind x) = true
    · -- a twin exists
      obtain ⟨t, ht, htw⟩ := hT
      have htw' := (eqtwin_iff _ _).1 htw
      have h2 : ∀ x ∈ h.items, dom ind.fit x.fit = false := by
        intro x hx
        rw [htw'.1]; exact hanti t ht x hx
      have hsc := scanC sim ind h.items 0 {} hnd h2 ⟨t, ht, htw⟩
      simp only [pfStep, hsc, List.reverse_nil, removeAll, Bool.not_true, Bool.and_false,
        Bool.false_eq_true, ↓reduceIte, Option.some.injEq] at e
      subst e
      refine ⟨hanti, fun _ hnt => hnt, fun _ hcov => ?_⟩
      intro x hx
      rw [List.mem_append, List.mem_singleton] at hx
      rcases hx with hx | rfl
      · exact hcov x hx
      · exact Or.inr ⟨t, ht, htw'⟩
    · -- no dominator, no twin: the dominated members leave, `ind` enters
      have hnt : ∀ x ∈ h.items, (Fitness.eq ind.fit x.fit && sim ind x) = false := by
        intro x hx
        cases hq : (Fitness.eq ind.fit x.fit && sim ind x) with
        | false => rfl
        | true => exact absurd ⟨x, hx, hq⟩ hT
      obtain ⟨s1, s2, s3⟩ := scanB sim ind h.items 0 {} hnd hnt
      have s3' : (scan sim ind h.items 0 {}).toRemove = idxs (fun x => dom ind.fit x.fit) h.items 0 := by
        rw [s3]; rfl
      obtain ⟨h1, r1, r2, r3, r4⟩ := removeAll_spec (idxs (fun x => dom ind.fit x.fit) h.items 0).reverse h hs
        (by rw [List.pairwise_reverse]; exact idxs_sorted _ _ _)
        (by intro j hj; have := idxs_lt _ _ _ j (by simpa using hj); omega)
      rw [foldl_eraseIdx_idxs] at r4
      have s1' : (scan sim ind h.items 0 {}).isDominated = false := s1
      have s2' : (scan sim ind h.items 0 {}).hasTwin = false := s2
      simp only [pfStep, s3', r1, s1', s2', Bool.not_false, Bool.and_self, ↓reduceIte,
        Option.some.injEq] at e
      subst e
      have hmem1 : ∀ x, x ∈ h1.items ↔ x ∈ h.items ∧ dom ind.fit x.fit = false := by
        intro x; rw [r4, List.mem_filter]; simp
      have hsub1 : h1.items.Sublist h.items := by rw [r4]; exact List.filter_sublist
      have copy_fit : (copyInd h1.next ind).fit = ind.fit := rfl
      refine ⟨?_, fun hh hnotwin => ?_, fun hh hcov => ?_⟩
      · -- antichain
        intro a ha b hb
        rw [mem_insert] at ha hb
        rcases ha with rfl | ha <;> rcases hb with rfl | hb
        · exact dom_irrefl _
        · rw [copy_fit]; exact ((hmem1 b).1 hb).2
        · rw [copy_fit]; exact hnd a ((hmem1 a).1 ha).1
        · exact hanti a ((hmem1 a).1 ha).1 b ((hmem1 b).1 hb).1
      · -- no twins
        show List.Pairwise _ (insert h1 ind).items
        rw [insert_items]
        apply pairwise_insertAt _ _ _ (List.Pairwise.sublist hsub1 hnotwin)
        · intro x hx ⟨hf, hs'⟩
          have hx' := ((hmem1 x).1 hx).1
          have : sim ind x = true := by
            have := hh.symm _ _ hs'
            rwa [hh.same _ ind x x (same_copy _ _) (same_refl _)] at this
          have hq := hnt x hx'
          rw [this, Bool.and_true] at hq
          rw [copy_fit] at hf
          rw [hf] at hq
          have : Fitness.eq ind.fit ind.fit = true := (eq_iff _ _).2 rfl
          rw [this] at hq; exact absurd hq (by simp)
        · intro x hx ⟨hf, hs'⟩
          have hx' := ((hmem1 x).1 hx).1
          have : sim ind x = true := by
            rwa [hh.same _ ind x x (same_copy _ _) (same_refl _)] at hs'
          have hq := hnt x hx'
          rw [this, Bool.and_true] at hq
          rw [copy_fit] at hf
          rw [← hf] at hq
          have : Fitness.eq ind.fit ind.fit = true := (eq_iff _ _).2 rfl
          rw [this] at hq; exact absurd hq (by simp)
      · -- cover
        intro x hx
        rw [List.mem_append, List.mem_singleton] at hx
        rcases hx with hx | rfl
        · have hlx : x.fit.wvalues.length = n := hlen x (hU x (by simp [hx]))
          rcases hcov x hx with ⟨it, hit, hd⟩ | ⟨it, hit, ht⟩
          · cases hq : dom ind.fit it.fit with
            | false => exact Or.inl ⟨it, (mem_insert _ _ _).2 (Or.inr ((hmem1 it).2 ⟨hit, hq⟩)), hd⟩
            | true =>
              left
              refine ⟨copyInd h1.next ind, (mem_insert _ _ _).2 (Or.inl rfl), ?_⟩
              rw [copy_fit]
              exact dom_trans hlen_ind (hlen_it it hit) hlx hq hd
          · cases hq : dom ind.fit it.fit with
            | false => exact Or.inr ⟨it, (mem_insert _ _ _).2 (Or.inr ((hmem1 it).2 ⟨hit, hq⟩)), ht⟩
            | true =>
              left
              refine ⟨copyInd h1.next ind, (mem_insert _ _ _).2 (Or.inl rfl), ?_⟩
              rw [copy_fit, ht.1]; exact hq
        · right
          refine ⟨copyInd h1.next x, (mem_insert _ _ _).2 (Or.inl rfl), rfl, ?_⟩
          rw [hh.same x x _ x (same_refl _) (same_copy _ _)]; exact hh.refl x

end C08L
