import DeapModel.Lemmas.C15Gen4
/-!
C15 — the reinsertion loop of the general case (level `j + 1 ≥ 2`) with its full invariant.
-/
namespace HvSweep
open Hypervolume
set_option linter.unusedVariables false

/-- the invariant of the reinsertion loop of level `j + 1`: the nodes `d0 ++ [q]` of the list of the level are
present in the lists below, `todo` are still to be reinserted, `S₁` is the state before the removals -/
structure LInv (C : Cargo) (dims n : ℕ) (O : ℕ → List ℕ) (pt : ℕ → List ℚ) (ref : List ℚ) (j : ℕ) (A : List ℕ)
    (S₁ T : St) (d0 : List ℕ) (q : ℕ) (todo : List ℕ) (hvol : ℚ) : Prop where
  split : RL O (j + 1) A = d0 ++ q :: todo
  ptr : PtrEq (removeSeq C (j + 1) S₁ todo.reverse) T
  shape : Shape dims n T
  tshape : TShape dims n T
  cv : CV C ref pt O T (j + 1) (d0 ++ [q])
  ig : IG C O T (d0 ++ [q])
  absent : ∀ y ∈ todo, ign T y = 0 ∨ (j + 1 ≤ ign T y ∧ ∃ b ∈ A, Dom C O (ign T y) b y)
  cache : ∀ a ∈ d0 ++ [q], ar T a (j + 1) = ARv ref pt O j A a ∧ vl T a (j + 1) = VOLv C ref pt O j A a
  hvol : hvol = VOLv C ref pt O j A q
  f_ign : ∀ y, y ∉ A → y ≠ 0 → ign T y = ign S₁ y
  f_hi : ∀ a i, j + 1 < i → ar T a i = ar S₁ a i ∧ vl T a i = vl S₁ a i
  f_bhi : ∀ i, j + 1 < i → T.bounds.getD i none = S₁.bounds.getD i none

section ctx
variable {C : Cargo} {dims n : ℕ} {O : ℕ → List ℕ} {pt : ℕ → List ℚ} {ref : List ℚ}

theorem wflt_of_lists (g : GCtx C dims n O pt ref) {S : St} {k : ℕ} {A : List ℕ} (hk : k ≤ dims) (hnd : A.Nodup)
    (hA : ∀ a ∈ A, a ∈ ids n) (h : ∀ i < k, DL n S i (RL O i A)) : WFlt n S k A :=
  fun i hi => ⟨RL O i A, h i hi, RL_perm g (by omega) A hnd hA⟩

/-- one iteration of the reinsertion loop -/
theorem linv_step (g : GCtx C dims n O pt ref) (j : ℕ) (hj1 : 1 ≤ j) (hj : j + 1 < dims) (F : ℕ)
    (hrec : LevelOK C dims n O pt ref F j) (A : List ℕ) (hAnd : A.Nodup) (hA : ∀ a ∈ A, a ∈ ids n)
    (S₁ : St) (hS₁ : Shape dims n S₁) (hlists : ∀ i ≤ j + 1, DL n S₁ i (RL O i A))
    (T : St) (d0 : List ℕ) (q p : ℕ) (todo : List ℕ) (hvol : ℚ)
    (I : LInv C dims n O pt ref j A S₁ T d0 q (p :: todo) hvol) :
    ∃ T5, areaStep (hvRecursive C F j) (j + 1) ((d0 ++ [q]).length + 1) p
        (setVl (reinsert C (setBound T (j + 1) (cg C p (j + 1))) p (j + 1)) p (j + 1)
          (hvol + ar T q (j + 1) * (cg C p (j + 1) - cg C q (j + 1)))) = some T5 ∧
      LInv C dims n O pt ref j A S₁ T5 (d0 ++ [q]) p todo
        (hvol + ar T q (j + 1) * (cg C p (j + 1) - cg C q (j + 1))) ∧
      nx (reinsert C (setBound T (j + 1) (cg C p (j + 1))) p (j + 1)) (j + 1) p = (todo ++ [0]).headD 0 := by
  have hjd : j + 1 ≤ dims := by omega
  have hsplit0 : RL O (j + 1) A = d0 ++ q :: p :: todo := I.split
  have hsplit := hsplit0
  set L := RL O (j + 1) A with hLdef
  have hLnd : L.Nodup := RL_nodup g hj A
  have hsplit' : L = (d0 ++ [q]) ++ p :: todo := by rw [hsplit]; simp
  have hLA : ∀ a, a ∈ L ↔ a ∈ A := fun a => by
    rw [hLdef, mem_RL]; exact ⟨fun h => h.2, fun h => ⟨(g.mem hj a).mpr (hA a h), h⟩⟩
  have hpL : p ∈ L := by rw [hsplit']; simp
  have hpA : p ∈ A := (hLA p).mp hpL
  have hpI := hA p hpA
  have hpn : p ≤ n := ((mem_ids n p).mp hpI).2
  have hp0 : p ≠ 0 := by have := ((mem_ids n p).mp hpI).1; omega
  have hqL : q ∈ L := by rw [hsplit]; simp
  have hqA : q ∈ A := (hLA q).mp hqL
  have hnd_split := List.nodup_append.mp (hsplit' ▸ hLnd)
  have hp_todo : p ∉ todo := (List.nodup_cons.mp hnd_split.2.1).1
  have htodo_nd : todo.Nodup := (List.nodup_cons.mp hnd_split.2.1).2
  have hrs_nd : todo.reverse.Nodup := List.nodup_reverse.mpr htodo_nd
  have htodoA : ∀ y ∈ todo.reverse, y ∈ A := by
    intro y hy
    exact (hLA y).mp (by rw [hsplit']; simp [List.mem_reverse.mp hy])
  have hpre_p : p ∉ d0 ++ [q] := fun h => hnd_split.2.2 p h p (by simp) rfl
  -- membership of the new present set
  have hB' : ∀ a, a ∈ d0 ++ [q] ++ [p] ↔ a ∈ A ∧ a ∉ todo.reverse := by
    intro a
    rw [List.mem_reverse, ← hLA a]
    constructor
    · intro h
      rcases List.mem_append.mp h with h | h
      · exact ⟨by rw [hsplit']; exact List.mem_append_left _ h,
          fun h2 => hnd_split.2.2 a h a (List.mem_cons_of_mem _ h2) rfl⟩
      · simp at h; rw [h]; exact ⟨hpL, hp_todo⟩
    · rintro ⟨h1, h2⟩
      rw [hsplit'] at h1
      rcases List.mem_append.mp h1 with h | h
      · exact List.mem_append_left _ h
      · rcases List.mem_cons.mp h with h | h
        · rw [h]; simp
        · exact absurd h h2
  have hB'nd : (d0 ++ [q] ++ [p]).Nodup := by
    have : (d0 ++ [q] ++ [p]).Sublist L := by
      rw [hsplit']
      exact List.Sublist.append_left (List.singleton_sublist.mpr (by simp)) _
    exact hLnd.sublist this
  have hB'sub : ∀ a ∈ d0 ++ [q] ++ [p], a ∈ ids n := fun a ha => hA a ((hB' a).mp ha).1
  -- the state before p was removed
  have hw := wflt_of_lists g hjd hAnd hA (fun i hi => hlists i (by omega))
  obtain ⟨hU, hwU, _, hgeU, hmemU⟩ := removeSeq_wf C hjd todo.reverse S₁ A hS₁ hw hrs_nd htodoA
  set U := removeSeq C (j + 1) S₁ todo.reverse with hUdef
  have hpAd : p ∈ A.diff todo.reverse := hmemU p hpA (fun h => hp_todo (List.mem_reverse.mp h))
  obtain ⟨_, hnfU⟩ := remove_wf C hU hjd hwU hpAd
  have hpe := I.ptr
  have hrev : (p :: todo).reverse = todo.reverse ++ [p] := by simp
  rw [hrev, removeSeq_snoc] at hpe
  set hvol1 := hvol + ar T q (j + 1) * (cg C p (j + 1) - cg C q (j + 1)) with hhv1
  set T1 := setBound T (j + 1) (cg C p (j + 1)) with hT1
  set T2 := reinsert C T1 p (j + 1) with hT2
  set T3 := setVl T2 p (j + 1) hvol1 with hT3
  have hpe1 : PtrEq (remove C U p (j + 1)) T1 := hpe.trans (fun _ _ => ⟨rfl, rfl⟩)
  have hback : PtrEq U T2 := reinsert_remove C p (j + 1) U T1 hU I.shape hjd hnfU hpe1
  have hT2s : Shape dims n T2 := shape_reinsert C p (j + 1) T1 I.shape
  have hbf := reinsert_bframe C p (j + 1) T1
  have hpeU3 : PtrEq U T3 := hback.trans (fun _ _ => ⟨rfl, rfl⟩)
  have hT3sh : Shape dims n T3 := hT2s
  have hT3t : TShape dims n T3 :=
    tshape_setVl (tshape_of_fields (S := T) I.tshape hbf.area hbf.volume hbf.ignore) _ _ _
  -- pointers in the list of the level itself
  have hsegL : Seg S₁ (j + 1) 0 ((d0 ++ [q]) ++ p :: todo) 0 := by
    have := (hlists (j + 1) (le_refl _)).1
    rw [← hLdef, hsplit'] at this; exact this
  have hnode := seg_node S₁ (j + 1) (d0 ++ [q]) 0 p todo 0 hsegL
  have hptr_lvl : ∀ a, nx T3 (j + 1) a = nx S₁ (j + 1) a ∧ pv T3 (j + 1) a = pv S₁ (j + 1) a := by
    intro a
    have h1 := hpeU3 (j + 1) a
    have h2 := hgeU (j + 1) (le_refl _) a
    exact ⟨h1.1.trans h2.1, h1.2.trans h2.2⟩
  have hnext : nx T2 (j + 1) p = (todo ++ [0]).headD 0 := by
    have : nx T2 (j + 1) p = nx T3 (j + 1) p := rfl
    rw [this, (hptr_lvl p).1, hnode.2.1]
    cases todo <;> rfl
  have hpvp : pv T3 (j + 1) p = q := by
    rw [(hptr_lvl p).2, hnode.1]; simp
  -- the lists below hold the new present set
  have hlists3 : ∀ i ≤ j, DL n T3 i (RL O i (d0 ++ [q] ++ [p])) := by
    intro i hi
    have hd := removeSeq_dl C hjd (by omega : i < j + 1) todo.reverse S₁ A (RL O i A) hS₁ hw
      (hlists i (by omega)) hrs_nd htodoA
    rw [RL_diff g (by omega : i < dims) A (d0 ++ [q] ++ [p]) todo.reverse hB'] at hd
    exact dl_ptrEq hpeU3 hd
  -- caches of the levels below
  have hcv3 : CV C ref pt O T3 (j + 1) (d0 ++ [q] ++ [p]) := by
    have c1 : CV C ref pt O T1 (j + 1) (d0 ++ [q]) :=
      cv_frame (S := T) (fun _ _ _ => rfl) (fun _ _ _ => rfl)
        (fun i hi => by
          show (T.bounds.set (j + 1) _).getD i none = _
          exact getD_set_ne _ _ _ _ _ (by omega)) I.cv
    have c2 : CV C ref pt O T2 (j + 1) (d0 ++ [q] ++ [p]) :=
      cv_change g (le_refl _) hjd hbf hpI (fun a ha => hA a (by
        have : a ∈ L := by rw [hsplit']; exact List.mem_append_left _ ha
        exact (hLA a).mp this)) hB'sub
        (fun a hap => by simp [hap]) c1
    exact cv_frame (S := T2) (fun _ _ _ => rfl)
      (fun a i hi => vl_setVl_ne T2 p (j + 1) a i _ (Or.inr (by omega))) (fun _ _ => rfl) c2
  -- ignore flags
  have hign3 : ∀ y, ign T3 y = ign T y := fun y => ign_of_ignore hbf.ignore y
  obtain ⟨hp1, _⟩ := pos_lt_of_split O (j + 1) (g.nodup hj) L (d0 ++ [q]) todo p (RL_sublist O (j + 1) A) hsplit'
  have hmark : ign T3 p = 0 ∨ (j + 1 ≤ ign T3 p ∧ ∃ b ∈ A, Dom C O (ign T3 p) b p) := by
    rw [hign3 p]; exact I.absent p (by simp)
  have hig3 : IG C O T3 (d0 ++ [q] ++ [p]) := by
    apply ig_mono (A := d0 ++ [q]) (fun a ha => List.mem_append_left _ ha)
      (ig_frame (S := T) (fun a _ => hign3 a) I.ig)
    intro y hy hynot hm
    have hyp : y = p := by
      rcases List.mem_append.mp hy with h | h
      · exact absurd h hynot
      · simpa using h
    subst hyp
    rcases hmark with h0 | ⟨hge, b, hbA, hdom⟩
    · omega
    · refine ⟨b, ?_, hdom⟩
      have hbpos : pos O (j + 1) b < pos O (j + 1) y := hdom.2.2 (j + 1) (by omega) hge
      have : b ∈ preSet O (j + 1) A y := (mem_preSet O (j + 1) A y b).mpr ⟨hbA, le_of_lt hbpos⟩
      have := (mem_preSet_of_split g hj A hA (d0 ++ [q]) todo y hsplit' b).mp this
      rcases List.mem_append.mp this with h | h
      · exact List.mem_append_left _ h
      · simp at h; exact absurd h hdom.1
  have inv3 : Inv C dims n O pt ref T3 j (d0 ++ [q] ++ [p]) :=
    { shape := hT3sh, tshape := hT3t, nodup := hB'nd, sub := hB'sub, lists := hlists3, cv := hcv3, ig := hig3 }
  -- the cache of q
  have hq3 : ar T3 q (j + 1) = ARv ref pt O j A q := by
    have : ar T3 q (j + 1) = ar T q (j + 1) := ar_of_area hbf.area q (j + 1)
    rw [this]; exact (I.cache q (by simp)).1
  have hsplit3 : RL O (j + 1) A = d0 ++ q :: p :: todo := hsplit
  have hlen3 : (d0 ++ [q] ++ [p]).length = (d0 ++ [q]).length + 1 := by simp
  obtain ⟨T5, hstep, hpe5, inv5, har5, fign5, far5, fvl5, fb5⟩ :=
    area_step_ok g j hj1 hj F hrec A hA d0 q p todo hsplit3 T3 inv3 hpvp hq3 hmark
  rw [hlen3] at hstep
  refine ⟨T5, hstep, ?_, hnext⟩
  -- the new invariant
  have hvol1_eq : hvol1 = VOLv C ref pt O j A p := by
    rw [hhv1, I.hvol, (I.cache q (by simp)).1]
    exact (caches_step g j hj A hA d0 todo q p hsplit3).symm
  exact
    { split := hsplit'
      ptr := hpeU3.trans hpe5
      shape := inv5.shape
      tshape := inv5.tshape
      cv := inv5.cv
      ig := inv5.ig
      absent := by
        intro y hy
        have hyB : y ∉ d0 ++ [q] ++ [p] := fun h => ((hB' y).mp h).2 (List.mem_reverse.mpr hy)
        have hyI : y ∈ ids n := hA y ((hLA y).mp (by rw [hsplit']; simp [hy]))
        have hy0 : y ≠ 0 := by have := ((mem_ids n y).mp hyI).1; omega
        rw [fign5 y hyB hy0, hign3 y]
        exact I.absent y (by simp [hy])
      cache := by
        intro a ha
        rcases List.mem_append.mp ha with h | h
        · have hap : a ≠ p := fun e => hpre_p (e ▸ h)
          have e1 : ar T5 a (j + 1) = ar T a (j + 1) :=
            (far5 a (j + 1) (by omega) (Or.inl hap)).trans (ar_of_area hbf.area a (j + 1))
          have e2 : vl T5 a (j + 1) = vl T a (j + 1) :=
            (fvl5 a (j + 1) (by omega)).trans
              ((vl_setVl_ne T2 p (j + 1) a (j + 1) _ (Or.inl hap)).trans (vl_of_volume hbf.volume a (j + 1)))
          rw [e1, e2]; exact I.cache a h
        · have hap : a = p := by simpa using h
          subst hap
          refine ⟨har5, ?_⟩
          rw [fvl5 a (j + 1) (by omega), hT3,
            vl_setVl_self' (tshape_of_fields (S := T) I.tshape hbf.area hbf.volume hbf.ignore) hpn hj, hvol1_eq]
      hvol := hvol1_eq
      f_ign := by
        intro y hyA hy0
        have hyB : y ∉ d0 ++ [q] ++ [p] := fun h => hyA ((hB' y).mp h).1
        rw [fign5 y hyB hy0, hign3 y]; exact I.f_ign y hyA hy0
      f_hi := by
        intro a i hi
        have e1 : ar T5 a i = ar T a i :=
          (far5 a i (by omega) (Or.inr (by omega))).trans (ar_of_area hbf.area a i)
        have e2 : vl T5 a i = vl T a i :=
          (fvl5 a i (by omega)).trans
            ((vl_setVl_ne T2 p (j + 1) a i _ (Or.inr (by omega))).trans (vl_of_volume hbf.volume a i))
        rw [e1, e2]; exact I.f_hi a i hi
      f_bhi := by
        intro i hi
        rw [fb5 i (by omega)]
        have : T3.bounds.getD i none = T1.bounds.getD i none := hbf.bounds_ge i (by omega)
        rw [this]
        have : T1.bounds.getD i none = T.bounds.getD i none := by
          show (T.bounds.set (j + 1) _).getD i none = _
          exact getD_set_ne _ _ _ _ _ (by omega)
        rw [this]; exact I.f_bhi i hi }

/-- **the reinsertion loop** re-establishes the invariant for the whole list -/
theorem loop3_ok (g : GCtx C dims n O pt ref) (j : ℕ) (hj1 : 1 ≤ j) (hj : j + 1 < dims) (F : ℕ)
    (hrec : LevelOK C dims n O pt ref F j) (A : List ℕ) (hAnd : A.Nodup) (hA : ∀ a ∈ A, a ∈ ids n)
    (S₁ : St) (hS₁ : Shape dims n S₁) (hlists : ∀ i ≤ j + 1, DL n S₁ i (RL O i A)) :
    ∀ (todo d0 : List ℕ) (q : ℕ) (hvol : ℚ) (T : St) (fl : ℕ),
      LInv C dims n O pt ref j A S₁ T d0 q todo hvol → todo.length ≤ fl →
      ∃ q' hv' T' d0', reinsLoop (hvRecursive C F j) C (j + 1) fl ((todo ++ [0]).headD 0) q hvol (d0 ++ [q]).length T
          = some (q', hv', T') ∧ LInv C dims n O pt ref j A S₁ T' d0' q' [] hv' := by
  intro todo
  induction todo with
  | nil =>
    intro d0 q hvol T fl I _
    refine ⟨q, hvol, T, d0, ?_, I⟩
    cases fl <;> simp [reinsLoop]
  | cons p todo ih =>
    intro d0 q hvol T fl I hfl
    obtain ⟨f, rfl⟩ : ∃ f, fl = f + 1 := ⟨fl - 1, by simp at hfl; omega⟩
    have hpL : p ∈ RL O (j + 1) A := by rw [I.split]; simp
    have hp0 : p ≠ 0 := by
      have := ((mem_ids n p).mp (hA p ((mem_RL O (j + 1) A p).mp hpL).2)).1; omega
    obtain ⟨T5, hstep, I5, hnext⟩ := linv_step g j hj1 hj F hrec A hAnd hA S₁ hS₁ hlists T d0 q p todo hvol I
    have hhead : ((p :: todo) ++ [0]).headD 0 = p := rfl
    rw [hhead]
    unfold reinsLoop
    rw [if_neg hp0]
    dsimp only
    rw [hstep]
    dsimp only
    rw [hnext]
    have hlen : (d0 ++ [q]).length + 1 = ((d0 ++ [q]) ++ [p]).length := by simp
    rw [hlen]
    exact ih (d0 ++ [q]) p _ T5 f I5 (by simp at hfl; omega)

end ctx

end HvSweep
