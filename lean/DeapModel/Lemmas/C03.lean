/-
Helper lemmas for C03 (packaged loops): evaluation block, the generation step, the run invariant,
and the `StepContract` of the concrete steps (eaSimple, μ+λ, μ,λ, HARM, generate–update).
-/
import DeapModel.Core.Loops
import DeapModel.Props.C02

namespace Loops
open Variation

/-! ### assignFits -/

theorem assignFits_not_mem (ev : List Int → List Int) (l : List Nat) (h : Heap) (o : Nat) (ho : o ∉ l) :
    assignFits ev h l o = h o := by
  induction l generalizing h with
  | nil => rfl
  | cons a as ih =>
    simp only [assignFits]
    rw [ih _ (fun hm => ho (by simp [hm]))]
    exact Heap.set_other _ _ _ _ (fun e => ho (by simp [e]))

theorem assignFits_genome (ev : List Int → List Int) (l : List Nat) (h : Heap) (o : Nat) :
    (assignFits ev h l o).genome = (h o).genome := by
  induction l generalizing h with
  | nil => rfl
  | cons a as ih =>
    simp only [assignFits]
    rw [ih]
    by_cases e : o = a
    · subst e; simp
    · rw [Heap.set_other _ _ _ _ e]

theorem assignFits_mem (ev : List Int → List Int) (l : List Nat) (h : Heap) (o : Nat) (ho : o ∈ l) :
    (assignFits ev h l o).fit = some (ev (h o).genome) := by
  induction l generalizing h with
  | nil => simp at ho
  | cons a as ih =>
    simp only [assignFits]
    by_cases hm : o ∈ as
    · rw [ih _ hm]
      by_cases e : o = a
      · subst e; simp
      · rw [Heap.set_other _ _ _ _ e]
    · have e : o = a := by
        rcases List.mem_cons.1 ho with e | e
        · exact e
        · exact absurd e hm
      subst e
      rw [assignFits_not_mem _ _ _ _ hm]
      simp

theorem mem_invalidOf {h : Heap} {l : List Nat} {o : Nat} :
    o ∈ invalidOf h l ↔ o ∈ l ∧ (h o).fit = none := by
  simp [invalidOf, Option.isNone_iff_eq_none]

/-! ### contract of a step, run invariant -/

/-- What the generic theorems need from a loop's `produce` / `replace` (for a population of allocated
individuals).  Always: the offspring are allocated, pairwise distinct objects and the next population
consists of members of the old population and offspring.  For a loop that evaluates only the invalid
offspring: the offspring are fresh, nothing that existed is written, and an offspring with a fitness is an
exact copy of a member of the population.  For a loop that evaluates every offspring (generate–update,
where `generate` may hand back persistent individuals it has moved in place): the next population consists
of offspring only. -/
structure StepContract {σ : Type} (stp : Step σ) : Prop where
  next_le : ∀ t st pop r, (∀ p ∈ pop, p < st.next) → stp.produce t st pop = some r → st.next ≤ r.st.next
  off_alloc : ∀ t st pop r, (∀ p ∈ pop, p < st.next) → stp.produce t st pop = some r →
    ∀ o ∈ r.off, o < r.st.next
  frame : stp.evalAll = false → ∀ t st pop r, (∀ p ∈ pop, p < st.next) → stp.produce t st pop = some r →
    ∀ o, o < st.next → r.st.heap o = st.heap o
  fresh : stp.evalAll = false → ∀ t st pop r, (∀ p ∈ pop, p < st.next) → stp.produce t st pop = some r →
    ∀ o ∈ r.off, st.next ≤ o ∧ o < r.st.next
  nodup : ∀ t st pop r, (∀ p ∈ pop, p < st.next) → stp.produce t st pop = some r → r.off.Nodup
  copy_or_invalid : stp.evalAll = false → ∀ t st pop r, (∀ p ∈ pop, p < st.next) →
    stp.produce t st pop = some r →
    ∀ o ∈ r.off, (r.st.heap o).fit = none ∨ ∃ p ∈ pop, r.st.heap o = st.heap p
  replace_mem : ∀ h pop off np, stp.replace h pop off = some np → ∀ o ∈ np, o ∈ pop ∨ o ∈ off
  replace_off : stp.evalAll = true → ∀ h pop off np, stp.replace h pop off = some np → ∀ o ∈ np, o ∈ off

/-- The individuals `toolbox.evaluate` is called on in a generation with offspring `r`. -/
def evalSet {σ : Type} (stp : Step σ) (r : Res σ) : List Nat :=
  if stp.evalAll then r.off else invalidOf r.st.heap r.off

/-- Invariant at the boundary before generation `g` (`g` = number of records written so far). -/
structure Inv (ev : List Int → List Int) (g : Nat) (s : LState) : Prop where
  alloc : ∀ p ∈ s.pop, p < s.st.next
  truthful : ∀ p ∈ s.pop, (s.st.heap p).fit = some (ev (s.st.heap p).genome)
  shownPop : ∀ p ∈ s.pop, p ∈ s.shown
  shownEvals : ∀ e ∈ s.evals, e.2 ∈ s.shown
  evalsLt : ∀ e ∈ s.evals, e.1 < g
  evalsNodup : s.evals.Nodup
  logGens : s.log.map (·.1) = List.range g
  logCount : ∀ rec ∈ s.log, rec.2 = (s.evals.filter (fun e => e.1 == rec.1)).length

theorem generation_unfold {σ : Type} {ev : List Int → List Int} {stp : Step σ} {g : Nat} {t t' : σ}
    {s s' : LState} (h : generation ev stp g t s = some (t', s')) :
    ∃ r np, stp.produce t s.st s.pop = some r ∧
      stp.replace (assignFits ev r.st.heap (evalSet stp r)) s.pop r.off = some np ∧
      t' = r.tape ∧ s'.pop = np ∧ s'.st.heap = assignFits ev r.st.heap (evalSet stp r) ∧
      s'.st.next = r.st.next ∧ s'.evals = s.evals ++ (evalSet stp r).map (fun o => (g, o)) ∧
      s'.log = s.log ++ [(g, (evalSet stp r).length)] ∧ s'.shown = s.shown ++ r.off := by
  simp only [generation] at h
  split at h
  · simp at h
  next r hr =>
    split at h
    · simp at h
    next np hnp =>
      simp only [Option.some.injEq, Prod.mk.injEq] at h
      obtain ⟨ht, hs⟩ := h
      subst hs
      refine ⟨r, np, hr, ?_, ht.symm, rfl, ?_, rfl, ?_, ?_, rfl⟩
      · simpa [evalPhase, evalSet] using hnp
      · simp [evalPhase, evalSet]
      · simp [evalPhase, evalSet]
      · simp [evalPhase, evalSet]

theorem evalSet_sub {σ : Type} (stp : Step σ) (r : Res σ) : ∀ o ∈ evalSet stp r, o ∈ r.off := by
  intro o ho
  simp only [evalSet] at ho
  split at ho
  · exact ho
  · exact (mem_invalidOf.1 ho).1

theorem evalSet_nodup {σ : Type} (stp : Step σ) (r : Res σ) (h : r.off.Nodup) : (evalSet stp r).Nodup := by
  simp only [evalSet]
  split
  · exact h
  · exact h.sublist List.filter_sublist

theorem nodup_map_pair (g : Nat) (l : List Nat) (h : l.Nodup) : (l.map (fun o => (g, o))).Nodup := by
  induction l with
  | nil => simp
  | cons a as ih =>
    have := List.nodup_cons.1 h
    simp only [List.map_cons]
    refine List.nodup_cons.2 ⟨?_, ih this.2⟩
    intro hm
    simp only [List.mem_map, Prod.mk.injEq, true_and, exists_eq_right] at hm
    exact this.1 hm

theorem filter_same_gen (g : Nat) (l : List Nat) :
    ((l.map (fun o => (g, o))).filter (fun e => e.1 == g)).length = l.length := by
  induction l with
  | nil => rfl
  | cons a as ih => simp [ih]

theorem filter_gen_append (evals : List (Nat × Nat)) (l : List Nat) (g g' : Nat) :
    ((evals ++ l.map (fun o => (g, o))).filter (fun e => e.1 == g')).length =
      (evals.filter (fun e => e.1 == g')).length + (if g = g' then l.length else 0) := by
  rw [List.filter_append, List.length_append]
  congr 1
  by_cases e : g = g'
  · subst e
    simp [List.filter_map]
  · have : ∀ x ∈ l.map (fun o => (g, o)), ¬ ((fun e : Nat × Nat => e.1 == g') x = true) := by
      intro x hx
      simp only [List.mem_map] at hx
      obtain ⟨o, _, rfl⟩ := hx
      simpa using e
    simp [e, List.filter_eq_nil_iff.2 this]

/-- One generation keeps the invariant (with the generation counter advanced). -/
theorem generation_inv {σ : Type} {ev : List Int → List Int} {stp : Step σ} (hc : StepContract stp)
    {g : Nat} {t t' : σ} {s s' : LState} (hinv : Inv ev g s)
    (h : generation ev stp g t s = some (t', s')) : Inv ev (g + 1) s' := by
  obtain ⟨r, np, hr, hnp, _, hpop, hheap, hnext, hevals, hlog, hshown⟩ := generation_unfold h
  have halloc := hc.off_alloc t s.st s.pop r hinv.alloc hr
  have hnd := hc.nodup t s.st s.pop r hinv.alloc hr
  have hnl := hc.next_le t s.st s.pop r hinv.alloc hr
  have hmem := hc.replace_mem _ _ _ _ hnp
  refine ⟨?_, ?_, ?_, ?_, ?_, ?_, ?_, ?_⟩
  · intro p hp
    rw [hpop] at hp
    rw [hnext]
    rcases hmem p hp with h1 | h1
    · have := hinv.alloc p h1; omega
    · exact halloc p h1
  · intro p hp
    rw [hpop] at hp
    rw [hheap]
    have hcases : (stp.evalAll = false ∧ p ∈ s.pop) ∨ p ∈ r.off := by
      cases hb : stp.evalAll with
      | true => exact Or.inr (hc.replace_off hb _ _ _ _ hnp p hp)
      | false =>
        rcases hmem p hp with h1 | h1
        · exact Or.inl ⟨rfl, h1⟩
        · exact Or.inr h1
    rcases hcases with ⟨hall, h1⟩ | h1
    · have hfr := hc.frame hall t s.st s.pop r hinv.alloc hr
      have hfresh := hc.fresh hall t s.st s.pop r hinv.alloc hr
      have hold : p ∉ evalSet stp r := by
        intro hin
        have := (hfresh p (evalSet_sub stp r p hin)).1
        have := hinv.alloc p h1
        omega
      rw [assignFits_not_mem _ _ _ _ hold, hfr p (hinv.alloc p h1)]
      exact hinv.truthful p h1
    · by_cases hin : p ∈ evalSet stp r
      · rw [assignFits_mem _ _ _ _ hin, assignFits_genome]
      · rw [assignFits_not_mem _ _ _ _ hin]
        have hall : stp.evalAll = false := by
          cases hb : stp.evalAll with
          | false => rfl
          | true => simp [evalSet, hb] at hin; exact absurd h1 hin
        have hvalid : (r.st.heap p).fit ≠ none := by
          intro hn
          apply hin
          simp only [evalSet, hall]
          exact mem_invalidOf.2 ⟨h1, hn⟩
        rcases hc.copy_or_invalid hall t s.st s.pop r hinv.alloc hr p h1 with hn | ⟨q, hq, hcopy⟩
        · exact absurd hn hvalid
        · rw [hcopy]; exact hinv.truthful q hq
  · intro p hp
    rw [hpop] at hp
    rw [hshown]
    rcases hmem p hp with h1 | h1
    · exact List.mem_append_left _ (hinv.shownPop p h1)
    · exact List.mem_append_right _ h1
  · intro e he
    rw [hevals] at he
    rw [hshown]
    rcases List.mem_append.1 he with h1 | h1
    · exact List.mem_append_left _ (hinv.shownEvals e h1)
    · simp only [List.mem_map] at h1
      obtain ⟨o, ho, rfl⟩ := h1
      exact List.mem_append_right _ (evalSet_sub stp r o ho)
  · intro e he
    rw [hevals] at he
    rcases List.mem_append.1 he with h1 | h1
    · have := hinv.evalsLt e h1; omega
    · simp only [List.mem_map] at h1
      obtain ⟨o, _, rfl⟩ := h1
      simp
  · rw [hevals]
    refine List.nodup_append.2 ⟨hinv.evalsNodup, ?_, ?_⟩
    · exact nodup_map_pair g _ (evalSet_nodup stp r hnd)
    · intro a ha b hb hab
      subst hab
      have := hinv.evalsLt a ha
      simp only [List.mem_map] at hb
      obtain ⟨o, _, rfl⟩ := hb
      simp at this
  · rw [hlog, List.map_append, hinv.logGens, List.range_succ]
    rfl
  · intro rec hrec
    rw [hlog] at hrec
    rw [hevals, filter_gen_append]
    rcases List.mem_append.1 hrec with h1 | h1
    · rw [hinv.logCount rec h1]
      have hlt : rec.1 < g := by
        have : rec.1 ∈ s.log.map (·.1) := List.mem_map.2 ⟨rec, h1, rfl⟩
        rw [hinv.logGens] at this
        exact List.mem_range.1 this
      have : g ≠ rec.1 := by omega
      simp [this]
    · simp only [List.mem_singleton] at h1
      subst h1
      have : (s.evals.filter (fun e => e.1 == g)).length = 0 := by
        rw [List.length_eq_zero_iff, List.filter_eq_nil_iff]
        intro e he
        have := hinv.evalsLt e he
        simp; omega
      simp [this]

/-! ### what the hall of fame is shown -/

/-- every individual shown to the hall of fame carried, when it was shown, the fitness `evaluate` gives for
the genotype it had then; `shownObj` lists the same individuals as `shown` -/
def ShownOk (ev : List Int → List Int) (s : LState) : Prop :=
  (∀ e ∈ s.shownObj, e.2.fit = some (ev e.2.genome)) ∧ s.shownObj.map (·.1) = s.shown

/-- after the evaluation block of a generation EVERY offspring (selected later or not) is truthful -/
theorem generation_off_truthful {σ : Type} {ev : List Int → List Int} {stp : Step σ} (hc : StepContract stp)
    {g : Nat} {t : σ} {s : LState} {r : Res σ} (hinv : Inv ev g s) (hr : stp.produce t s.st s.pop = some r) :
    ∀ p ∈ r.off, (assignFits ev r.st.heap (evalSet stp r) p).fit =
      some (ev (assignFits ev r.st.heap (evalSet stp r) p).genome) := by
  intro p h1
  by_cases hin : p ∈ evalSet stp r
  · rw [assignFits_mem _ _ _ _ hin, assignFits_genome]
  · rw [assignFits_not_mem _ _ _ _ hin]
    have hall : stp.evalAll = false := by
      cases hb : stp.evalAll with
      | false => rfl
      | true => simp [evalSet, hb] at hin; exact absurd h1 hin
    have hvalid : (r.st.heap p).fit ≠ none := by
      intro hn
      apply hin
      simp only [evalSet, hall]
      exact mem_invalidOf.2 ⟨h1, hn⟩
    rcases hc.copy_or_invalid hall t s.st s.pop r hinv.alloc hr p h1 with hn | ⟨q, hq, hcopy⟩
    · exact absurd hn hvalid
    · rw [hcopy]; exact hinv.truthful q hq

theorem generation_shown {σ : Type} {ev : List Int → List Int} {stp : Step σ} (hc : StepContract stp)
    {g : Nat} {t t' : σ} {s s' : LState} (hinv : Inv ev g s) (hsh : ShownOk ev s)
    (h : generation ev stp g t s = some (t', s')) : ShownOk ev s' := by
  simp only [generation] at h
  split at h
  · simp at h
  next r hr =>
    split at h
    · simp at h
    next np hnp =>
      simp only [Option.some.injEq, Prod.mk.injEq] at h
      obtain ⟨_, hs⟩ := h
      subst hs
      have htr := generation_off_truthful (ev := ev) hc hinv hr
      constructor
      · intro e he
        have he' : e ∈ s.shownObj ++ r.off.map (fun o => (o, assignFits ev r.st.heap (evalSet stp r) o)) := by
          simpa [evalPhase, evalSet] using he
        rcases List.mem_append.1 he' with h1 | h1
        · exact hsh.1 e h1
        · obtain ⟨o, ho, rfl⟩ := List.mem_map.1 h1
          exact htr o ho
      · show (s.shownObj ++ r.off.map (fun o => (o, assignFits ev r.st.heap _ o))).map (·.1) = s.shown ++ r.off
        rw [List.map_append, hsh.2, List.map_map]
        congr 1
        exact List.map_id'' (fun _ => rfl) _

theorem gen0_shown (ev : List Int → List Int) (s : LState)
    (htruth : ∀ p ∈ s.pop, ∀ f, (s.st.heap p).fit = some f → f = ev (s.st.heap p).genome)
    (hshown : s.shown = []) (hshownObj : s.shownObj = []) : ShownOk ev (gen0 ev s) := by
  constructor
  · intro e he
    have he' : e ∈ s.shownObj ++ s.pop.map (fun o => (o, assignFits ev s.st.heap (invalidOf s.st.heap s.pop) o)) := he
    rw [hshownObj, List.nil_append] at he'
    obtain ⟨p, hp, rfl⟩ := List.mem_map.1 he'
    show (assignFits ev s.st.heap (invalidOf s.st.heap s.pop) p).fit = _
    rw [assignFits_genome]
    by_cases hin : p ∈ invalidOf s.st.heap s.pop
    · rw [assignFits_mem _ _ _ _ hin]
    · rw [assignFits_not_mem _ _ _ _ hin]
      cases hf : (s.st.heap p).fit with
      | none => exact absurd (mem_invalidOf.2 ⟨hp, hf⟩) hin
      | some f => rw [htruth p hp f hf]
  · show (s.shownObj ++ s.pop.map (fun o => (o, assignFits ev s.st.heap _ o))).map (·.1) = s.shown ++ s.pop
    rw [hshownObj, hshown, List.nil_append, List.nil_append, List.map_map]
    exact List.map_id'' (fun _ => rfl) _

theorem runGens_shown {σ : Type} {ev : List Int → List Int} :
    ∀ (steps : List (Step σ)) (g : Nat) (t t' : σ) (s s' : LState), (∀ stp ∈ steps, StepContract stp) →
      Inv ev g s → ShownOk ev s → runGens ev steps g t s = some (t', s') → ShownOk ev s'
  | [], g, t, t', s, s', _, _, hsh, h => by
    simp only [runGens, Option.some.injEq, Prod.mk.injEq] at h
    obtain ⟨_, rfl⟩ := h
    exact hsh
  | stp :: rest, g, t, t', s, s', hc, hinv, hsh, h => by
    simp only [runGens] at h
    split at h
    · simp at h
    next t1 s1 hgen =>
      exact runGens_shown rest (g + 1) t1 t' s1 s' (fun x hx => hc x (by simp [hx]))
        (generation_inv (hc stp (by simp)) hinv hgen) (generation_shown (hc stp (by simp)) hinv hsh hgen) h

theorem runGens_inv {σ : Type} {ev : List Int → List Int} :
    ∀ (steps : List (Step σ)) (g : Nat) (t t' : σ) (s s' : LState), (∀ stp ∈ steps, StepContract stp) →
      Inv ev g s → runGens ev steps g t s = some (t', s') → Inv ev (g + steps.length) s'
  | [], g, t, t', s, s', _, hinv, h => by
    simp only [runGens, Option.some.injEq, Prod.mk.injEq] at h
    obtain ⟨_, rfl⟩ := h
    simpa using hinv
  | stp :: rest, g, t, t', s, s', hc, hinv, h => by
    simp only [runGens] at h
    split at h
    · simp at h
    next t1 s1 hgen =>
      have h1 := generation_inv (hc stp (by simp)) hinv hgen
      have := runGens_inv rest (g + 1) t1 t' s1 s' (fun x hx => hc x (by simp [hx])) h1 h
      simpa [Nat.add_assoc, Nat.add_comm 1] using this

/-- Generation 0 establishes the invariant. -/
theorem gen0_inv (ev : List Int → List Int) (s : LState) (halloc : ∀ p ∈ s.pop, p < s.st.next)
    (htruth : ∀ p ∈ s.pop, ∀ f, (s.st.heap p).fit = some f → f = ev (s.st.heap p).genome)
    (hdistinct : (invalidOf s.st.heap s.pop).Nodup)
    (hlog : s.log = []) (hevals : s.evals = []) : Inv ev 1 (gen0 ev s) := by
  refine ⟨?_, ?_, ?_, ?_, ?_, ?_, ?_, ?_⟩
  · exact halloc
  · intro p hp
    have hh : (gen0 ev s).st.heap = assignFits ev s.st.heap (invalidOf s.st.heap s.pop) := rfl
    have hp : p ∈ s.pop := hp
    rw [hh, assignFits_genome]
    by_cases hin : p ∈ invalidOf s.st.heap s.pop
    · rw [assignFits_mem _ _ _ _ hin]
    · rw [assignFits_not_mem _ _ _ _ hin]
      cases hf : (s.st.heap p).fit with
      | none => exact absurd (mem_invalidOf.2 ⟨hp, hf⟩) hin
      | some f => rw [htruth p hp f hf]
  · intro p hp
    show p ∈ s.shown ++ s.pop
    exact List.mem_append_right _ hp
  · intro e he
    have he' : e ∈ s.evals ++ (invalidOf s.st.heap s.pop).map (fun o => (0, o)) := he
    show e.2 ∈ s.shown ++ s.pop
    rw [hevals, List.nil_append, List.mem_map] at he'
    obtain ⟨o, ho, rfl⟩ := he'
    exact List.mem_append_right _ (mem_invalidOf.1 ho).1
  · intro e he
    have he' : e ∈ s.evals ++ (invalidOf s.st.heap s.pop).map (fun o => (0, o)) := he
    rw [hevals, List.nil_append, List.mem_map] at he'
    obtain ⟨o, _, rfl⟩ := he'
    simp
  · show (s.evals ++ (invalidOf s.st.heap s.pop).map (fun o => (0, o))).Nodup
    rw [hevals, List.nil_append]
    exact nodup_map_pair 0 _ hdistinct
  · show (s.log ++ [(0, (invalidOf s.st.heap s.pop).length)]).map (fun x : Nat × Nat => x.1) = List.range 1
    rw [hlog]; rfl
  · intro rec hrec
    have hrec' : rec ∈ s.log ++ [(0, (invalidOf s.st.heap s.pop).length)] := hrec
    rw [hlog, List.nil_append, List.mem_singleton] at hrec'
    subst hrec'
    show _ = ((s.evals ++ (invalidOf s.st.heap s.pop).map (fun o => (0, o))).filter _).length
    rw [hevals, List.nil_append]
    exact (filter_same_gen 0 _).symm

theorem runGens_append {σ : Type} (ev : List Int → List Int) :
    ∀ (a b : List (Step σ)) (g : Nat) (t : σ) (s : LState),
      runGens ev (a ++ b) g t s =
        match runGens ev a g t s with
        | none => none
        | some (t1, s1) => runGens ev b (g + a.length) t1 s1
  | [], b, g, t, s => by simp [runGens]
  | stp :: rest, b, g, t, s => by
    simp only [List.cons_append, runGens]
    split
    · rfl
    next t1 s1 h1 =>
      rw [runGens_append ev rest b (g + 1) t1 s1]
      simp [Nat.add_assoc, Nat.add_comm 1]

/-! ### selection by positions -/

theorem pickAll_spec (l : List Nat) : ∀ (pos r : List Nat), pickAll l pos = some r →
    r.length = pos.length ∧ ∀ o ∈ r, o ∈ l
  | [], r, h => by simp [pickAll] at h; subst h; simp
  | i :: is, r, h => by
    simp only [pickAll] at h
    split at h
    next x xs hx hxs =>
      simp only [Option.some.injEq] at h
      subst h
      obtain ⟨hl, hm⟩ := pickAll_spec l is xs hxs
      refine ⟨by simp [hl], ?_⟩
      intro o ho
      rcases List.mem_cons.1 ho with e | e
      · subst e; exact List.mem_of_getElem? hx
      · exact hm o e
    · simp at h

/-! ### eaSimple -/

theorem simple_produce {σ : Type} {ops : Ops σ} {d : SimpleDec} {t : σ} {st : St} {pop : List Nat} {r : Res σ}
    (h : (simpleStep ops d).produce t st pop = some r) :
    ∃ chosen, pickAll pop d.sel = some chosen ∧ d.sel.length = pop.length ∧
      varAnd ops t st chosen d.mateD d.mutD = some r := by
  simp only [simpleStep] at h
  split at h
  next hl =>
    split at h
    · simp at h
    next chosen hch => exact ⟨chosen, hch, hl, h⟩
  · simp at h

theorem simpleStep_contract {σ : Type} {ops : Ops σ} (hc : OpContract ops) (d : SimpleDec) :
    StepContract (simpleStep ops d) where
  next_le := by
    intro t st pop r _ h
    obtain ⟨chosen, _, _, hv⟩ := simple_produce h
    exact C02.varAnd_next_le hc hv
  off_alloc := by
    intro t st pop r _ h o ho
    obtain ⟨chosen, _, _, hv⟩ := simple_produce h
    exact (C02.varAnd_fresh hc hv o ho).2
  frame := by
    intro _ t st pop r _ h
    obtain ⟨chosen, _, _, hv⟩ := simple_produce h
    exact C02.varAnd_parents_unchanged hc hv
  fresh := by
    intro _ t st pop r _ h
    obtain ⟨chosen, _, _, hv⟩ := simple_produce h
    exact C02.varAnd_fresh hc hv
  nodup := by
    intro t st pop r _ h
    obtain ⟨chosen, _, _, hv⟩ := simple_produce h
    exact C02.varAnd_distinct hc hv
  copy_or_invalid := by
    intro _ t st pop r hpop h o ho
    obtain ⟨chosen, hch, _, hv⟩ := simple_produce h
    have hsub := (pickAll_spec pop d.sel chosen hch).2
    have hchosen : ∀ p ∈ chosen, p < st.next := fun p hp => hpop p (hsub p hp)
    obtain ⟨k, hk, hko⟩ := List.mem_iff_getElem.1 ho
    have hko' : r.off[k]? = some o := by rw [List.getElem?_eq_getElem hk, hko]
    cases hf : (r.st.heap o).fit with
    | none => exact Or.inl rfl
    | some f =>
      obtain ⟨p, hp, hcopy, _⟩ := C02.varAnd_valid_is_parent_copy hc hchosen hv k o f hko' hf
      exact Or.inr ⟨p, hsub p (List.mem_of_getElem? hp), hcopy⟩
  replace_mem := by
    intro h pop off np hr o ho
    simp only [simpleStep, Option.some.injEq] at hr
    subst hr
    exact Or.inr ho
  replace_off := by intro hall; simp [simpleStep] at hall

/-- eaSimple: the next population has the size of the current one. -/
theorem simpleStep_size {σ : Type} {ops : Ops σ} (hc : OpContract ops) (d : SimpleDec) {t : σ} {st : St}
    {pop : List Nat} {r : Res σ} {h : Heap} {np : List Nat}
    (hp : (simpleStep ops d).produce t st pop = some r)
    (hr : (simpleStep ops d).replace h pop r.off = some np) : np.length = pop.length := by
  obtain ⟨chosen, hch, hl, hv⟩ := simple_produce hp
  simp only [simpleStep, Option.some.injEq] at hr
  subst hr
  rw [C02.varAnd_count hc hv, (pickAll_spec pop d.sel chosen hch).1, hl]

/-! ### μ+λ and μ,λ -/

theorem varOr_contract_facts {σ : Type} {ops : Ops σ} (hc : OpContract ops) {t : σ} {st : St}
    {pop : List Nat} {lam : Nat} {choices : List Choice} {r : Res σ} (hpop : ∀ p ∈ pop, p < st.next)
    (h : varOr ops t st pop lam choices = some r) :
    st.next ≤ r.st.next ∧ (∀ o, o < st.next → r.st.heap o = st.heap o) ∧
    (∀ o ∈ r.off, st.next ≤ o ∧ o < r.st.next) ∧ r.off.Nodup ∧
    (∀ o ∈ r.off, (r.st.heap o).fit = none ∨ ∃ p ∈ pop, r.st.heap o = st.heap p) := by
  refine ⟨?_, C02.varOr_parents_unchanged hc hpop h, C02.varOr_fresh hc hpop h,
    C02.varOr_distinct hc hpop h, ?_⟩
  · have h' := h
    simp only [varOr] at h'
    split at h'
    · exact (varOrLoop_spec hc pop _ _ _ _ h' hpop).2.1
    · simp at h'
  · intro o ho
    obtain ⟨k, hk, hko⟩ := List.mem_iff_getElem.1 ho
    have hko' : r.off[k]? = some o := by rw [List.getElem?_eq_getElem hk, hko]
    cases hf : (r.st.heap o).fit with
    | none => exact Or.inl rfl
    | some f =>
      obtain ⟨p, hp, hcopy, _⟩ := C02.varOr_valid_is_parent_copy hc hpop h k o f hko' hf
      exact Or.inr ⟨p, hp, hcopy⟩

theorem plusStep_contract {σ : Type} {ops : Ops σ} (hc : OpContract ops) (mu lam : Nat) (d : MuLamDec) :
    StepContract (plusStep ops mu lam d) where
  next_le := fun _ _ _ _ hpop h => (varOr_contract_facts hc hpop h).1
  off_alloc := fun _ _ _ _ hpop h o ho => ((varOr_contract_facts hc hpop h).2.2.1 o ho).2
  frame := fun _ _ _ _ _ hpop h => (varOr_contract_facts hc hpop h).2.1
  fresh := fun _ _ _ _ _ hpop h => (varOr_contract_facts hc hpop h).2.2.1
  nodup := fun _ _ _ _ hpop h => (varOr_contract_facts hc hpop h).2.2.2.1
  copy_or_invalid := fun _ _ _ _ _ hpop h => (varOr_contract_facts hc hpop h).2.2.2.2
  replace_mem := by
    intro h pop off np hr o ho
    simp only [plusStep] at hr
    split at hr
    · exact List.mem_append.1 ((pickAll_spec _ _ _ hr).2 o ho)
    · simp at hr
  replace_off := by intro hall; simp [plusStep] at hall

theorem commaStep_contract {σ : Type} {ops : Ops σ} (hc : OpContract ops) (mu lam : Nat) (d : MuLamDec) :
    StepContract (commaStep ops mu lam d) where
  next_le := fun _ _ _ _ hpop h => (varOr_contract_facts hc hpop h).1
  off_alloc := fun _ _ _ _ hpop h o ho => ((varOr_contract_facts hc hpop h).2.2.1 o ho).2
  frame := fun _ _ _ _ _ hpop h => (varOr_contract_facts hc hpop h).2.1
  fresh := fun _ _ _ _ _ hpop h => (varOr_contract_facts hc hpop h).2.2.1
  nodup := fun _ _ _ _ hpop h => (varOr_contract_facts hc hpop h).2.2.2.1
  copy_or_invalid := fun _ _ _ _ _ hpop h => (varOr_contract_facts hc hpop h).2.2.2.2
  replace_mem := by
    intro h pop off np hr o ho
    simp only [commaStep] at hr
    split at hr
    · exact Or.inr ((pickAll_spec _ _ _ hr).2 o ho)
    · simp at hr
  replace_off := by intro hall; simp [commaStep] at hall

theorem mem_selBest {h : Heap} {l : List Nat} {k o : Nat} (ho : o ∈ selBest h l k) : o ∈ l := by
  simp only [selBest] at ho
  exact (List.mergeSort_perm l _).mem_iff.1 (List.mem_of_mem_take ho)

theorem plusBestStep_contract {σ : Type} {ops : Ops σ} (hc : OpContract ops) (mu lam : Nat)
    (choices : List Choice) : StepContract (plusBestStep ops mu lam choices) where
  next_le := fun _ _ _ _ hpop h => (varOr_contract_facts hc hpop h).1
  off_alloc := fun _ _ _ _ hpop h o ho => ((varOr_contract_facts hc hpop h).2.2.1 o ho).2
  frame := fun _ _ _ _ _ hpop h => (varOr_contract_facts hc hpop h).2.1
  fresh := fun _ _ _ _ _ hpop h => (varOr_contract_facts hc hpop h).2.2.1
  nodup := fun _ _ _ _ hpop h => (varOr_contract_facts hc hpop h).2.2.2.1
  copy_or_invalid := fun _ _ _ _ _ hpop h => (varOr_contract_facts hc hpop h).2.2.2.2
  replace_mem := by
    intro h pop off np hr o ho
    simp only [plusBestStep, Option.some.injEq] at hr
    subst hr
    exact List.mem_append.1 (mem_selBest ho)
  replace_off := by intro hall; simp [plusBestStep] at hall

theorem plusStep_size {σ : Type} {ops : Ops σ} (mu lam : Nat) (d : MuLamDec) {h : Heap} {pop off np : List Nat}
    (hr : (plusStep ops mu lam d).replace h pop off = some np) : np.length = mu := by
  simp only [plusStep] at hr
  split at hr
  next hl => rw [(pickAll_spec _ _ _ hr).1, hl]
  · simp at hr

theorem commaStep_size {σ : Type} {ops : Ops σ} (mu lam : Nat) (d : MuLamDec) {h : Heap} {pop off np : List Nat}
    (hr : (commaStep ops mu lam d).replace h pop off = some np) : np.length = mu := by
  simp only [commaStep] at hr
  split at hr
  next hl => rw [(pickAll_spec _ _ _ hr).1, hl]
  · simp at hr

/-! ### generate–update -/

theorem writeAll_next_le (s : St) (ws : List (Nat × Obj)) : s.next ≤ (writeAll s ws).next := by
  induction ws generalizing s with
  | nil => simp [writeAll]
  | cons w ws ih =>
    simp only [writeAll]
    refine Nat.le_trans ?_ (ih _)
    exact Nat.le_max_left _ _

theorem writeAll_alloc (s : St) (ws : List (Nat × Obj)) : ∀ w ∈ ws, w.1 < (writeAll s ws).next := by
  induction ws generalizing s with
  | nil => simp
  | cons w ws ih =>
    intro x hx
    simp only [writeAll]
    rcases List.mem_cons.1 hx with e | e
    · subst e
      refine Nat.lt_of_lt_of_le ?_ (writeAll_next_le _ ws)
      show x.1 < max s.next (x.1 + 1)
      omega
    · exact ih _ x e

theorem gu_produce {σ : Type} {objs : List (Nat × Obj)} {order : List Nat} {t : σ} {st : St} {pop : List Nat}
    {r : Res σ} (h : (guStep objs order).produce t st pop = some r) :
    (objs.map (·.1)).Nodup ∧ r.st = writeAll st objs ∧ r.off = objs.map (·.1) := by
  simp only [guStep] at h
  split at h
  next hnd =>
    simp only [Option.some.injEq] at h
    subst h
    exact ⟨by simpa using hnd, rfl, rfl⟩
  · simp at h

theorem guStep_contract {σ : Type} (objs : List (Nat × Obj)) (order : List Nat) :
    StepContract (guStep (σ := σ) objs order) where
  next_le := by
    intro t st pop r _ h
    rw [(gu_produce h).2.1]
    exact writeAll_next_le st objs
  off_alloc := by
    intro t st pop r _ h o ho
    obtain ⟨_, hst, hoff⟩ := gu_produce h
    rw [hoff] at ho
    obtain ⟨w, hw, rfl⟩ := List.mem_map.1 ho
    rw [hst]
    exact writeAll_alloc st objs w hw
  frame := by intro hall; simp [guStep] at hall
  fresh := by intro hall; simp [guStep] at hall
  nodup := by
    intro t st pop r _ h
    obtain ⟨hnd, _, hoff⟩ := gu_produce h
    rw [hoff]; exact hnd
  copy_or_invalid := by intro hall; simp [guStep] at hall
  replace_mem := by
    intro h pop off np hr o ho
    simp only [guStep] at hr
    split at hr
    · exact Or.inr ((pickAll_spec _ _ _ hr).2 o ho)
    · simp at hr
  replace_off := by
    intro _ h pop off np hr o ho
    simp only [guStep] at hr
    split at hr
    · exact (pickAll_spec _ _ _ hr).2 o ho
    · simp at hr

theorem guStep_size {σ : Type} (objs : List (Nat × Obj)) (order : List Nat) {t : σ} {st : St} {pop : List Nat}
    {r : Res σ} {h : Heap} {np : List Nat} (hp : (guStep objs order).produce t st pop = some r)
    (hr : (guStep (σ := σ) objs order).replace h pop r.off = some np) : np.length = objs.length := by
  obtain ⟨_, _, hoff⟩ := gu_produce hp
  simp only [guStep] at hr
  split at hr
  next hperm =>
    rw [(pickAll_spec _ _ _ hr).1]
    simp only [isPerm, Bool.and_eq_true, beq_iff_eq] at hperm
    rw [hperm.1, hoff]; simp
  · simp at hr

/-! ### gp.harm -/

/-- an object created since `s0`: allocated after `s0`, and either without fitness or an exact copy of a
member of the population as it was at `s0` -/
def Good (s0 : St) (pop : List Nat) (cur : St) (o : Nat) : Prop :=
  s0.next ≤ o ∧ o < cur.next ∧ ((cur.heap o).fit = none ∨ ∃ p ∈ pop, cur.heap o = s0.heap p)

theorem Good.mono {s0 : St} {pop : List Nat} {s s1 : St} {o : Nat} (hg : Good s0 pop s o)
    (hle : s.next ≤ s1.next) (hfr : ∀ q, q < s.next → s1.heap q = s.heap q) : Good s0 pop s1 o := by
  obtain ⟨h1, h2, h3⟩ := hg
  refine ⟨h1, by omega, ?_⟩
  rw [hfr o h2]
  exact h3

theorem harmGen_spec {σ : Type} {ops : Ops σ} (hc : OpContract ops) (pop : List Nat) (s0 : St)
    (hpop : ∀ p ∈ pop, p < s0.next) {δ : Type} {t t1 : σ} {s s1 : St} {g : HStep δ} {asp : List Nat}
    (hle : s0.next ≤ s.next) (hfr0 : ∀ o, o < s0.next → s.heap o = s0.heap o)
    (h : harmGen ops pop t s g = some (t1, s1, asp)) :
    s.next ≤ s1.next ∧ (∀ o, o < s.next → s1.heap o = s.heap o) ∧
      (∀ a ∈ asp, s.next ≤ a ∧ Good s0 pop s1 a) ∧ asp.Nodup := by
  cases g with
  | pick acc => simp [harmGen] at h
  | cx i j a1 a2 =>
    simp only [harmGen] at h
    split at h
    next p q hp hq =>
      simp only [clone_oid, clone_next, Option.some.injEq, Prod.mk.injEq] at h
      have hnx := hc.mate_next t (clone (clone s p).1 q).1.heap (s.next + 1 + 1) s.next (s.next + 1)
      have hf := hc.mate_fst t (clone (clone s p).1 q).1.heap (s.next + 1 + 1) s.next (s.next + 1)
      have hsn := hc.mate_snd t (clone (clone s p).1 q).1.heap (s.next + 1 + 1) s.next (s.next + 1)
      have hds := hc.mate_distinct t (clone (clone s p).1 q).1.heap (s.next + 1 + 1) s.next (s.next + 1)
        (by omega)
      have hfrm := hc.mate_frame t (clone (clone s p).1 q).1.heap (s.next + 1 + 1) s.next (s.next + 1)
      generalize ops.mate t (clone (clone s p).1 q).1.heap (s.next + 1 + 1) s.next (s.next + 1) = r0
        at h hnx hf hsn hds hfrm
      obtain ⟨_, hs, ha⟩ := h
      subst hs; subst ha
      have hlf : s.next ≤ r0.fst ∧ r0.fst < r0.next := by rcases hf with e | e | e <;> omega
      have hls : s.next ≤ r0.snd ∧ r0.snd < r0.next := by rcases hsn with e | e | e <;> omega
      refine ⟨by show s.next ≤ r0.next; omega, ?_, ?_, by simp [hds]⟩
      · intro o ho
        show delFit (delFit _ _) _ o = _
        rw [delFit_other _ _ _ (by omega), delFit_other _ _ _ (by omega),
          hfrm _ (by omega) (by omega) (by omega),
          clone_heap_old _ _ _ (by simp; omega), clone_heap_old _ _ _ (by omega)]
      · intro a ha
        simp only [List.mem_cons, List.not_mem_nil, or_false] at ha
        rcases ha with rfl | rfl
        · refine ⟨hlf.1, by omega, hlf.2, Or.inl ?_⟩
          show (delFit (delFit _ _) _ _).fit = none
          exact delFit_fit_none _ _ _ (by simp)
        · refine ⟨hls.1, by omega, hls.2, Or.inl ?_⟩
          show (delFit (delFit _ _) _ _).fit = none
          simp
    · simp at h
  | mutn i a1 =>
    simp only [harmGen] at h
    split at h
    next p hp =>
      simp only [clone_oid, clone_next, Option.some.injEq, Prod.mk.injEq] at h
      have hnx := hc.mutate_next t (clone s p).1.heap (s.next + 1) s.next
      have hret := hc.mutate_ret t (clone s p).1.heap (s.next + 1) s.next
      have hfrm := hc.mutate_frame t (clone s p).1.heap (s.next + 1) s.next
      generalize ops.mutate t (clone s p).1.heap (s.next + 1) s.next = r0 at h hnx hret hfrm
      obtain ⟨_, hs, ha⟩ := h
      subst hs; subst ha
      have hlr : s.next ≤ r0.ret ∧ r0.ret < r0.next := by rcases hret with e | e <;> omega
      refine ⟨by show s.next ≤ r0.next; omega, ?_, ?_, by simp⟩
      · intro o ho
        show delFit _ _ o = _
        rw [delFit_other _ _ _ (by omega), hfrm _ (by omega) (by omega),
          clone_heap_old _ _ _ (by omega)]
      · intro a ha
        simp only [List.mem_singleton] at ha
        subst ha
        refine ⟨hlr.1, by omega, hlr.2, Or.inl ?_⟩
        show (delFit _ _ _).fit = none
        simp
    · simp at h
  | rep i a1 =>
    simp only [harmGen] at h
    split at h
    next p hp =>
      simp only [clone_oid, Option.some.injEq, Prod.mk.injEq] at h
      obtain ⟨_, hs, ha⟩ := h
      subst hs; subst ha
      refine ⟨by simp, ?_, ?_, by simp⟩
      · intro o ho
        exact clone_heap_old _ _ _ (by omega)
      · intro a ha
        simp only [List.mem_singleton] at ha
        subst ha
        have hpm : p ∈ pop := List.mem_of_getElem? hp
        refine ⟨Nat.le_refl _, hle, by simp, Or.inr ⟨p, hpm, ?_⟩⟩
        rw [clone_heap_new]
        exact hfr0 p (hpop p hpm)
    · simp at h

theorem acceptInto_sublist (n : Nat) :
    ∀ (asp : List Nat) (produced : List Nat) (accs : List Bool),
      (acceptInto n produced asp accs).Sublist (produced ++ asp)
  | [], produced, accs => by simp [acceptInto]
  | a :: as, produced, [] => by simp [acceptInto]
  | a :: as, produced, c :: cs => by
    simp only [acceptInto]
    split
    · have := acceptInto_sublist n as (produced ++ [a]) cs
      simpa [List.append_assoc] using this
    · have := acceptInto_sublist n as produced cs
      exact this.trans (List.Sublist.append (List.Sublist.refl produced) (List.sublist_cons_self a as))

theorem genpop_spec {σ δ : Type} {ops : Ops σ} (hc : OpContract ops) (pop : List Nat) (s0 : St)
    (hpop : ∀ p ∈ pop, p < s0.next) (n : Nat) (always : St → Nat → δ → Bool) :
    ∀ (steps : List (HStep δ)) (t : σ) (s : St) (pickfrom produced : List Nat) (t' : σ) (s' : St)
      (pf' prod' : List Nat),
      genpop ops pop n always steps t s pickfrom produced = some (t', s', pf', prod') →
      s0.next ≤ s.next → (∀ o, o < s0.next → s.heap o = s0.heap o) →
      (∀ o ∈ pickfrom ++ produced, Good s0 pop s o) → (pickfrom ++ produced).Nodup →
      s0.next ≤ s'.next ∧ (∀ o, o < s0.next → s'.heap o = s0.heap o) ∧
        (∀ o ∈ pf' ++ prod', Good s0 pop s' o) ∧ (pf' ++ prod').Nodup ∧ prod'.length = n
  | [], t, s, pickfrom, produced, t', s', pf', prod', h, hle, hfr, hgood, hnd => by
    simp only [genpop] at h
    split at h
    next hlen =>
      simp only [Option.some.injEq, Prod.mk.injEq] at h
      obtain ⟨_, rfl, rfl, rfl⟩ := h
      exact ⟨hle, hfr, hgood, hnd, hlen⟩
    · simp at h
  | stp :: rest, t, s, pickfrom, produced, t', s', pf', prod', h, hle, hfr, hgood, hnd => by
    simp only [genpop] at h
    split at h
    case isFalse => simp at h
    next hlt =>
    split at h
    next acc a hlast =>
      -- pickfrom.pop()
      have hpf : pickfrom.dropLast ++ [a] = pickfrom := by
        obtain ⟨ys, rfl⟩ := List.getLast?_eq_some_iff.1 hlast
        simp
      refine genpop_spec hc pop s0 hpop n always rest t s _ _ t' s' pf' prod' h hle hfr ?_ ?_
      · intro o ho
        apply hgood o
        rw [← hpf]
        split at ho
        · simp only [List.mem_append, List.mem_singleton] at ho ⊢
          rcases ho with h1 | h1 | h1
          · exact Or.inl (Or.inl h1)
          · exact Or.inr h1
          · exact Or.inl (Or.inr h1)
        · simp only [List.mem_append, List.mem_singleton] at ho ⊢
          rcases ho with h1 | h1
          · exact Or.inl (Or.inl h1)
          · exact Or.inr h1
      · rw [← hpf] at hnd
        split
        · have hp : (pickfrom.dropLast ++ (produced ++ [a])).Perm (pickfrom.dropLast ++ [a] ++ produced) := by
            rw [List.append_assoc]
            exact List.Perm.append_left _ List.perm_append_comm
          exact hp.nodup_iff.2 hnd
        · refine hnd.sublist ?_
          rw [List.append_assoc]
          exact List.Sublist.append (List.Sublist.refl _) (List.sublist_append_right _ _)
    · simp at h
    · simp at h
    next g _ _ _ hlast =>
      have hpf : pickfrom = [] := List.getLast?_eq_none_iff.1 hlast
      subst hpf
      split at h
      · simp at h
      next t1 s1 asp hgen =>
        obtain ⟨hle1, hfr1, hasp, haspnd⟩ := harmGen_spec hc pop s0 hpop hle hfr hgen
        simp only [List.nil_append] at hgood hnd
        have hsub := acceptInto_sublist n asp produced (List.zipWith (fun a d => always s1 a d) asp g.accs)
        refine genpop_spec hc pop s0 hpop n always rest t1 s1 [] _ t' s' pf' prod' h (by omega)
          (fun o ho => by rw [hfr1 o (by omega), hfr o ho]) ?_ ?_
        · intro o ho
          simp only [List.nil_append] at ho
          rcases List.mem_append.1 (hsub.subset ho) with h1 | h1
          · exact (hgood o h1).mono hle1 hfr1
          · exact (hasp o h1).2
        · simp only [List.nil_append]
          refine List.Nodup.sublist hsub ?_
          refine List.nodup_append.2 ⟨hnd, haspnd, ?_⟩
          intro a ha b hb hab
          subst hab
          have := (hgood a ha).2.1
          have := (hasp a hb).1
          omega

theorem harm_produce {σ δ : Type} {ops : Ops σ} {nbr : Nat}
    {mk : St → List Nat → List Nat → Option (St → Nat → δ → Bool)} {d : HarmDec δ} {t : σ} {st : St}
    {pop : List Nat} {r : Res σ} (h : (harmStepG ops nbr mk d).produce t st pop = some r) :
    ∃ t1 s1 pf1 natural pf2 acc,
      genpop ops pop nbr (fun _ _ _ => true) d.natural t st [] [] = some (t1, s1, pf1, natural) ∧
      genpop ops pop pop.length acc d.accepted t1 s1 natural [] = some (r.tape, r.st, pf2, r.off) := by
  simp only [harmStepG] at h
  split at h
  · simp at h
  next t1 s1 pf1 natural h1 =>
    split at h
    · simp at h
    next acc hacc =>
      split at h
      · simp at h
      next t2 s2 pf2 off h2 =>
        simp only [Option.some.injEq] at h
        subst h
        exact ⟨t1, s1, pf1, natural, pf2, acc, h1, h2⟩

theorem harm_produce_facts {σ δ : Type} {ops : Ops σ} (hc : OpContract ops) {nbr : Nat}
    {mk : St → List Nat → List Nat → Option (St → Nat → δ → Bool)} {d : HarmDec δ} {t : σ}
    {st : St} {pop : List Nat} {r : Res σ} (hpop : ∀ p ∈ pop, p < st.next)
    (h : (harmStepG ops nbr mk d).produce t st pop = some r) :
    st.next ≤ r.st.next ∧ (∀ o, o < st.next → r.st.heap o = st.heap o) ∧
      (∀ o ∈ r.off, Good st pop r.st o) ∧ r.off.Nodup ∧ r.off.length = pop.length := by
  obtain ⟨t1, s1, pf1, natural, pf2, acc, h1, h2⟩ := harm_produce h
  obtain ⟨hle1, hfr1, hgood1, hnd1, _⟩ := genpop_spec hc pop st hpop nbr _ _ _ _ _ _ _ _ _ _ h1
    (Nat.le_refl _) (fun _ _ => rfl) (by simp) (by simp)
  obtain ⟨hle2, hfr2, hgood2, hnd2, hlen2⟩ := genpop_spec hc pop st hpop pop.length acc _ _ _ _ _ _ _ _ _ h2
    hle1 hfr1 (by
      intro o ho
      simp only [List.append_nil] at ho
      exact hgood1 o (List.mem_append_right _ ho))
    (by simpa using (List.nodup_append.1 hnd1).2.1)
  exact ⟨hle2, hfr2, fun o ho => hgood2 o (List.mem_append_right _ ho), (List.nodup_append.1 hnd2).2.1, hlen2⟩

/-- Whatever the acceptance function of the second `_genpop` is (Booleans read off the tape, or the
modelled arithmetic on the recorded draws), a HARM generation meets the step contract. -/
theorem harmStepG_contract {σ δ : Type} {ops : Ops σ} (hc : OpContract ops) (nbr : Nat)
    (mk : St → List Nat → List Nat → Option (St → Nat → δ → Bool)) (d : HarmDec δ) :
    StepContract (harmStepG ops nbr mk d) where
  next_le := fun _ _ _ _ hpop h => (harm_produce_facts hc hpop h).1
  off_alloc := fun _ _ _ _ hpop h o ho => ((harm_produce_facts hc hpop h).2.2.1 o ho).2.1
  frame := fun _ _ _ _ _ hpop h => (harm_produce_facts hc hpop h).2.1
  fresh := fun _ _ _ _ _ hpop h o ho =>
    let g := (harm_produce_facts hc hpop h).2.2.1 o ho
    ⟨g.1, g.2.1⟩
  nodup := fun _ _ _ _ hpop h => (harm_produce_facts hc hpop h).2.2.2.1
  copy_or_invalid := fun _ _ _ _ _ hpop h o ho => ((harm_produce_facts hc hpop h).2.2.1 o ho).2.2
  replace_mem := by
    intro h pop off np hr o ho
    simp only [harmStepG, Option.some.injEq] at hr
    subst hr
    exact Or.inr ho
  replace_off := by intro hall; simp [harmStepG] at hall

theorem harmStepG_size {σ δ : Type} {ops : Ops σ} (hc : OpContract ops) (nbr : Nat)
    (mk : St → List Nat → List Nat → Option (St → Nat → δ → Bool)) (d : HarmDec δ) {t : σ}
    {st : St} {pop : List Nat} {r : Res σ} {h : Heap} {np : List Nat} (hpop : ∀ p ∈ pop, p < st.next)
    (hp : (harmStepG ops nbr mk d).produce t st pop = some r)
    (hr : (harmStepG ops nbr mk d).replace h pop r.off = some np) : np.length = pop.length := by
  simp only [harmStepG, Option.some.injEq] at hr
  subst hr
  exact (harm_produce_facts hc hpop hp).2.2.2.2

theorem harmStep_contract {σ : Type} {ops : Ops σ} (hc : OpContract ops) (nbr : Nat) (d : HarmDec Bool) :
    StepContract (harmStep ops nbr d) := harmStepG_contract hc nbr _ d

theorem harmStep_size {σ : Type} {ops : Ops σ} (hc : OpContract ops) (nbr : Nat) (d : HarmDec Bool) {t : σ}
    {st : St} {pop : List Nat} {r : Res σ} {h : Heap} {np : List Nat} (hpop : ∀ p ∈ pop, p < st.next)
    (hp : (harmStep ops nbr d).produce t st pop = some r)
    (hr : (harmStep ops nbr d).replace h pop r.off = some np) : np.length = pop.length :=
  harmStepG_size hc nbr _ d hpop hp hr

/-! ### truncation selection keeps a best individual -/

theorem selBest_keeps_best (h : Heap) (l : List Nat) (k : Nat) (hk : 0 < k) (p : Nat) (hp : p ∈ l) :
    ∃ q ∈ selBest h l k, fitKey h p ≤ fitKey h q := by
  let le : Nat → Nat → Bool := fun a b => decide (fitKey h b ≤ fitKey h a)
  have hsorted : (l.mergeSort le).Pairwise (fun a b => le a b = true) :=
    List.pairwise_mergeSort
      (fun a b c hab hbc => by
        simp only [le, decide_eq_true_eq] at hab hbc ⊢
        exact List.le_trans hbc hab)
      (fun a b => by
        simp only [le, Bool.or_eq_true, decide_eq_true_eq]
        exact List.le_total _ _) l
  have hperm := List.mergeSort_perm l le
  have hpm : p ∈ l.mergeSort le := hperm.mem_iff.2 hp
  simp only [selBest]
  cases hs : l.mergeSort le with
  | nil => rw [hs] at hpm; simp at hpm
  | cons q rest =>
    rw [hs] at hsorted hpm
    refine ⟨q, ?_, ?_⟩
    · cases k with
      | zero => omega
      | succ k => simp
    · rcases List.mem_cons.1 hpm with e | e
      · subst e; exact List.le_refl _
      · have := (List.pairwise_cons.1 hsorted).1 p e
        simpa [le] using this

theorem length_selBest (h : Heap) (l : List Nat) (k : Nat) : (selBest h l k).length = min k l.length := by
  simp [selBest, List.length_mergeSort]

/-! ### population size -/

/-- the next population has `f |pop|` members whenever the step succeeds on an allocated population -/
def SizeIs {σ : Type} (stp : Step σ) (f : Nat → Nat) : Prop :=
  ∀ t st pop r h np, (∀ p ∈ pop, p < st.next) → stp.produce t st pop = some r →
    stp.replace h pop r.off = some np → np.length = f pop.length

theorem generation_size {σ : Type} {ev : List Int → List Int} {stp : Step σ} {f : Nat → Nat}
    (hs : SizeIs stp f) {g : Nat} {t t' : σ} {s s' : LState} (hinv : Inv ev g s)
    (h : generation ev stp g t s = some (t', s')) : s'.pop.length = f s.pop.length := by
  obtain ⟨r, np, hr, hnp, _, hpop, _⟩ := generation_unfold h
  rw [hpop]
  exact hs t s.st s.pop r _ np hinv.alloc hr hnp

theorem runGens_size_id {σ : Type} {ev : List Int → List Int} :
    ∀ (steps : List (Step σ)) (g : Nat) (t t' : σ) (s s' : LState),
      (∀ stp ∈ steps, StepContract stp ∧ SizeIs stp id) → Inv ev g s →
      runGens ev steps g t s = some (t', s') → s'.pop.length = s.pop.length
  | [], g, t, t', s, s', _, _, h => by
    simp only [runGens, Option.some.injEq, Prod.mk.injEq] at h
    obtain ⟨_, rfl⟩ := h; rfl
  | stp :: rest, g, t, t', s, s', hc, hinv, h => by
    simp only [runGens] at h
    split at h
    · simp at h
    next t1 s1 hgen =>
      have h1 := generation_inv (hc stp (by simp)).1 hinv hgen
      have h2 := generation_size (hc stp (by simp)).2 hinv hgen
      rw [runGens_size_id rest (g + 1) t1 t' s1 s' (fun x hx => hc x (by simp [hx])) h1 h, h2]
      rfl

theorem runGens_size_const {σ : Type} {ev : List Int → List Int} (mu : Nat) :
    ∀ (steps : List (Step σ)) (g : Nat) (t t' : σ) (s s' : LState), steps ≠ [] →
      (∀ stp ∈ steps, StepContract stp ∧ SizeIs stp (fun _ => mu)) → Inv ev g s →
      runGens ev steps g t s = some (t', s') → s'.pop.length = mu
  | [], g, t, t', s, s', hne, _, _, h => absurd rfl hne
  | stp :: rest, g, t, t', s, s', _, hc, hinv, h => by
    simp only [runGens] at h
    split at h
    · simp at h
    next t1 s1 hgen =>
      have h1 := generation_inv (hc stp (by simp)).1 hinv hgen
      have h2 := generation_size (hc stp (by simp)).2 hinv hgen
      cases rest with
      | nil =>
        simp only [runGens, Option.some.injEq, Prod.mk.injEq] at h
        obtain ⟨_, rfl⟩ := h
        exact h2
      | cons x xs =>
        exact runGens_size_const mu (x :: xs) (g + 1) t1 t' s1 s' (by simp)
          (fun y hy => hc y (by simp [hy])) h1 h

/-! ### μ+λ with truncation selection -/

/-- μ+λ with `selBest` and μ ≤ λ: the selection finds μ individuals among the μ… + λ candidates. -/
theorem plusBestStep_size {σ : Type} {ops : Ops σ} (hc : OpContract ops) (mu lam : Nat) (hle : mu ≤ lam)
    (choices : List Choice) : SizeIs (plusBestStep ops mu lam choices) (fun _ => mu) := by
  intro t st pop r h np hpop hp hr
  simp only [plusBestStep, Option.some.injEq] at hr
  subst hr
  have hcount : r.off.length = lam := C02.varOr_count hc hpop hp
  show (selBest _ (pop ++ r.off) mu).length = mu
  rw [length_selBest, List.length_append, hcount]
  omega

theorem plusBest_generation_monotone {σ : Type} {ops : Ops σ} (hc : OpContract ops) {ev : List Int → List Int}
    {mu lam : Nat} (hmu : 0 < mu) {choices : List Choice} {g : Nat} {t t' : σ} {s s' : LState}
    (hinv : Inv ev g s) (h : generation ev (plusBestStep ops mu lam choices) g t s = some (t', s')) :
    ∀ p ∈ s.pop, ∃ q ∈ s'.pop, fitKey s.st.heap p ≤ fitKey s'.st.heap q := by
  have hsc := plusBestStep_contract hc mu lam choices
  obtain ⟨r, np, hr, hnp, _, hpop, hheap, _⟩ := generation_unfold h
  intro p hp
  simp only [plusBestStep, Option.some.injEq] at hnp
  have hfresh := hsc.fresh rfl t s.st s.pop r hinv.alloc hr
  have hfr := hsc.frame rfl t s.st s.pop r hinv.alloc hr
  obtain ⟨q, hq, hle⟩ := selBest_keeps_best (assignFits ev r.st.heap (evalSet (plusBestStep ops mu lam choices) r))
    (s.pop ++ r.off) mu hmu p (List.mem_append_left _ hp)
  refine ⟨q, by rw [hpop, ← hnp]; exact hq, ?_⟩
  rw [hheap]
  have hnot : p ∉ evalSet (plusBestStep ops mu lam choices) r := by
    intro hin
    have := (hfresh p (evalSet_sub _ r p hin)).1
    have := hinv.alloc p hp
    omega
  have hkey : fitKey (assignFits ev r.st.heap (evalSet (plusBestStep ops mu lam choices) r)) p =
      fitKey s.st.heap p := by
    simp only [fitKey]
    rw [assignFits_not_mem _ _ _ _ hnot, hfr p (hinv.alloc p hp)]
  rw [← hkey]
  exact hle

theorem plusBest_run_monotone {σ : Type} {ops : Ops σ} (hc : OpContract ops) {ev : List Int → List Int}
    {mu lam : Nat} (hmu : 0 < mu) :
    ∀ (decs : List (List Choice)) (g : Nat) (t t' : σ) (s s' : LState), Inv ev g s →
      runGens ev (decs.map (plusBestStep ops mu lam)) g t s = some (t', s') →
      ∀ p ∈ s.pop, ∃ q ∈ s'.pop, fitKey s.st.heap p ≤ fitKey s'.st.heap q
  | [], g, t, t', s, s', _, h => by
    simp only [List.map_nil, runGens, Option.some.injEq, Prod.mk.injEq] at h
    obtain ⟨_, rfl⟩ := h
    exact fun p hp => ⟨p, hp, List.le_refl _⟩
  | d :: rest, g, t, t', s, s', hinv, h => by
    simp only [List.map_cons, runGens] at h
    split at h
    · simp at h
    next t1 s1 hgen =>
      have h1 := generation_inv (plusBestStep_contract hc mu lam d) hinv hgen
      intro p hp
      obtain ⟨q1, hq1, hle1⟩ := plusBest_generation_monotone hc hmu hinv hgen p hp
      obtain ⟨q, hq, hle⟩ := plusBest_run_monotone hc hmu rest (g + 1) t1 t' s1 s' h1 h q1 hq1
      exact ⟨q, hq, List.le_trans hle1 hle⟩

end Loops
