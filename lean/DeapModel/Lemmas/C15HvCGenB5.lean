import DeapModel.Lemmas.C15HvCGenB4
/-!
C15 — the general case of `hv_recursive` in `_hv.c`, second phase: the start of the reinsertion loop — a single node is
left (l.772-775, `areaInit`), or the caches of the nodes below `bound[dim]` are reused (l.756-769).
-/
namespace HvC
set_option linter.unusedVariables false
open Hypervolume
open HvSweep (GCtx Hj RL preSet pos ARv VOLv ids Shaped)

/-- the product `∏_{i < m} (ref[i] − x[i])` that l.772-775 write into `area[0..dim]` -/
def areaProdC (C : Cargo) (R : List ℚ) (q : ℕ) : ℕ → ℚ
  | 0 => 1
  | m + 1 => areaProdC C R q m * (rf R m - cg C q m)

/-- l.772-775 as a fold: afterwards `area[q][i] = ∏_{i' < i} (ref[i'] − x[i'])` for `i ≤ m`, nothing else changed -/
theorem areaInit_spec {d n : ℕ} (C : Cargo) (R : List ℚ) (q : ℕ) (hq : q ≤ n) : ∀ (m : ℕ) (S : St), m < d → TSh d n S →
    TSh d n (areaInit C R S q m) ∧ (areaInit C R S q m).next = S.next ∧ (areaInit C R S q m).prev = S.prev ∧
      (areaInit C R S q m).vol = S.vol ∧ (areaInit C R S q m).ignore = S.ignore ∧ (areaInit C R S q m).bound = S.bound ∧
      (areaInit C R S q m).domr = S.domr ∧ (areaInit C R S q m).tree = S.tree ∧ (areaInit C R S q m).calls = S.calls ∧
      (∀ i ≤ m, ar (areaInit C R S q m) q i = areaProdC C R q i) ∧
      (∀ a i, (a ≠ q ∨ m < i) → ar (areaInit C R S q m) a i = ar S a i)
  | 0, S, hm, hS => by
    have e : areaInit C R S q 0 = setAr S q 0 1 := rfl
    rw [e]
    refine ⟨gB_tsh_setAr hS _ _ _, rfl, rfl, rfl, rfl, rfl, rfl, rfl, rfl, ?_, ?_⟩
    · intro i hi
      have : i = 0 := by omega
      subst this
      exact gB_ar_setAr_self hS.area hq (by omega) 1
    · intro a i h
      apply gB_ar_setAr_ne
      rcases h with h | h
      · exact Or.inl h
      · exact Or.inr (by omega)
  | m + 1, S, hm, hS => by
    obtain ⟨h1, h2, h3, h4, h5, h6, h6a, h6b, h6c, h7, h8⟩ := areaInit_spec C R q hq m S (by omega) hS
    have e : areaInit C R S q (m + 1) =
        setAr (areaInit C R S q m) q (m + 1) (ar (areaInit C R S q m) q m * (rf R m - cg C q m)) := by
      unfold areaInit
      rw [List.range_succ, List.foldl_append]
      rfl
    rw [e]
    set T := areaInit C R S q m with hT
    refine ⟨gB_tsh_setAr h1 _ _ _, h2, h3, h4, h5, h6, h6a, h6b, h6c, ?_, ?_⟩
    · intro i hi
      by_cases him : i = m + 1
      · subst him
        rw [gB_ar_setAr_self h1.area hq hm, h7 m (le_refl _)]
        rfl
      · rw [gB_ar_setAr_ne T q (m + 1) q i _ (Or.inr him)]
        exact h7 i (by omega)
    · intro a i h
      have hne : a ≠ q ∨ i ≠ m + 1 := by
        rcases h with h | h
        · exact Or.inl h
        · exact Or.inr (by omega)
      rw [gB_ar_setAr_ne T q (m + 1) a i _ hne]
      apply h8
      rcases h with h | h
      · exact Or.inl h
      · exact Or.inr (by omega)

section ctx
variable {C : Cargo} {R : List ℚ} {d n : ℕ} {O : ℕ → List ℕ}

theorem areaProd_tr (c : CCtx C R d n O) (a : ℕ) (ha : a ∈ ids n) (hg : ∀ i < d, cg C a i < rf R i) : ∀ (m : ℕ), m ≤ d →
    HvSweep.areaProd (stc C R) a m = areaProdC C R a m
  | 0, _ => rfl
  | m + 1, hm => by
    show HvSweep.areaProd (stc C R) a m * -(HvSweep.cg (stc C R) a m) = areaProdC C R a m * (rf R m - cg C a m)
    rw [areaProd_tr c a ha hg m (by omega), c.cg_tr' ha (by omega) (hg m (by omega))]
    ring

/-- the hypervolume of one node in the coordinates `0 .. i` is the product the code writes -/
theorem Hj_single_eq_areaProdC (c : CCtx C R d n O) (a : ℕ) (ha : a ∈ ids n) (hg : ∀ i < d, cg C a i < rf R i)
    (i : ℕ) (hi : i < d) :
    Hj R (spt C R) i [a] = areaProdC C R a (i + 1) := by
  rw [HvSweep.Hj_single_eq_areaProd c.g a ha i hi, areaProd_tr c a ha hg (i + 1) (by omega)]

/-- the start of the reinsertion loop when a single node is left (l.772-777) -/
theorem linvC_start_single (c : CCtx C R d n O) (h3 : AfterDeletionsC_Statement) (j : ℕ) (hj2 : 2 ≤ j) (hj : j + 1 < d)
    (A : List ℕ) (S₁ : St) (Rr : AfterResetC C R d n O j A S₁) (q' : ℕ) (rs : List ℕ)
    (hsplit : RL O (j + 1) A = [] ++ q' :: rs.reverse) :
    LInvC C R d n O j A S₁ (setVl (areaInit C R (delSeq C (j + 1) S₁ rs) q' (j + 1)) q' (j + 1) 0) [] q' rs.reverse 0 := by
  have hA := Rr.inv.sub
  obtain ⟨inv2, hB, fign, far, fvl, fdr, ftree, fcalls, fbnd, fptr⟩ :=
    h3 C R d n O j A S₁ c hj2 hj Rr.inv Rr.zero_or_big [] q' rs hsplit
  set S2 := delSeq C (j + 1) S₁ rs with hS2
  have hq'A : q' ∈ A := ((hB q').mp (by simp)).1
  have hq'I := hA q' hq'A
  have hq'n : q' ≤ n := ((HvSweep.mem_ids n q').mp hq'I).2
  obtain ⟨t1, t2, t3, t4, t5, t6, t6a, t6b, t6c, t7, t8⟩ := areaInit_spec (d := d) (n := n) C R q' hq'n (j + 1) S2 hj inv2.tsh
  set Tf := areaInit C R S2 q' (j + 1) with hTf
  have hfirst := HvSweep.caches_of_first c.g j hj A hA q' rs.reverse (by simpa using hsplit)
  have harq : ar Tf q' (j + 1) = ARv R (spt C R) O j A q' := by
    rw [t7 (j + 1) (le_refl _), hfirst.1, Hj_single_eq_areaProdC c q' hq'I (Rr.inv.good q' hq'A) j (by omega)]
  have hsw : toSw (setVl Tf q' (j + 1) 0) = toSw S2 := gB_toSw_eq_of (S := S2) (S' := setVl Tf q' (j + 1) 0) t2 t3
  have hignT : ∀ y, ign (setVl Tf q' (j + 1) 0) y = ign S2 y := fun y => gB_ign_of_ignore (S := S2) (T := setVl Tf q' (j + 1) 0) t5 y
  have hdrT : ∀ y, dr (setVl Tf q' (j + 1) 0) y = dr S2 y := fun y => gB_dr_of_domr (S := S2) (T := setVl Tf q' (j + 1) 0) t6a y
  have hbdT : (setVl Tf q' (j + 1) 0).bound = S2.bound := t6
  exact
    { split := hsplit
      ptr := by
        rw [List.reverse_reverse]
        exact ptrEqC_of_fields (S := S2) (T := setVl Tf q' (j + 1) 0) t2 t3
      inv :=
        { shape := by unfold ShapeC; rw [hsw]; exact inv2.shape
          tsh := gB_tsh_setVl t1 _ _ _
          nodup := inv2.nodup
          sub := inv2.sub
          good := inv2.good
          lists := by
            intro i h1 h2
            unfold DLc; rw [hsw]; exact inv2.lists i h1 h2
          cv := by
            intro j' hj'1 hj'K a ha b hb hlt
            have haq : a = q' := by simpa using ha
            subst haq
            have hbS2 : S2.bound.getD (j' + 1) none = some b := by rw [hbdT] at hb; exact hb
            obtain ⟨_, e2⟩ := inv2.cv j' hj'1 hj'K a (by simp) b hbS2 hlt
            constructor
            · have : ar (setVl Tf a (j + 1) 0) a (j' + 1) = ar Tf a (j' + 1) := rfl
              rw [this, t7 (j' + 1) (by omega), ← Hj_single_eq_areaProdC c a hq'I (Rr.inv.good a hq'A) j' (by omega)]
              unfold HvSweep.ARv
              exact (HvSweep.Hj_congr R (spt C R) j' _ _ (fun b => by simpa using HvSweep.preSet_single O (j' + 1) a b)).symm
            · rw [gB_vl_setVl_ne Tf a (j + 1) a (j' + 1) 0 (Or.inr (by omega)), gB_vl_of_vol t4 a (j' + 1)]
              simpa using e2
          ig := igc_frame (S := S2) (fun a _ => hignT a) inv2.ig
          igd := by
            intro y hm
            rw [hignT y] at hm
            rw [hdrT y]; exact inv2.igd y hm
          dm := dmc_frame (S := S2) hdrT (by rw [hbdT]) inv2.dm
          tree := by show Tf.tree = []; rw [t6b]; exact inv2.tree }
      absent := by
        intro y hy
        rw [hignT y]; exact gB_ign_of_ignore fign y
      cache := by
        intro a ha
        have haq : a = q' := by simpa using ha
        subst haq
        refine ⟨?_, ?_⟩
        · have : ar (setVl Tf a (j + 1) 0) a (j + 1) = ar Tf a (j + 1) := rfl
          rw [this]; exact harq
        · rw [gB_vl_setVl_self t1.vol hq'n hj, hfirst.2]
      hvol := hfirst.2.symm
      f_ign := fun y _ => by rw [hignT y]; exact gB_ign_of_ignore fign y
      f_dr := fun y _ => by rw [hdrT y]; exact gB_dr_of_domr fdr y
      f_hi := by
        intro a i hi
        constructor
        · have : ar (setVl Tf q' (j + 1) 0) a i = ar Tf a i := rfl
          rw [this, t8 a i (Or.inr hi), gB_ar_of_area far a i]
        · rw [gB_vl_setVl_ne Tf q' (j + 1) a i 0 (Or.inr (by omega)), gB_vl_of_vol t4 a i, gB_vl_of_vol fvl a i]
      f_bhi := by
        intro i hi
        rw [hbdT]; exact fbnd i hi }

/-- the start of the reinsertion loop when the caches of the nodes below the bound are reused (l.756-769, l.777) -/
theorem linvC_start_multi (c : CCtx C R d n O) (h3 : AfterDeletionsC_Statement) (j : ℕ) (hj2 : 2 ≤ j) (hj : j + 1 < d) (F : ℕ)
    (hrec : LevelOKC C R d n O F j) (A : List ℕ) (S₁ : St) (Rr : AfterResetC C R d n O j A S₁)
    (dA : List ℕ) (p0 q' : ℕ) (rs : List ℕ)
    (hsplit : RL O (j + 1) A = (dA ++ [p0]) ++ q' :: rs.reverse)
    (hstop : ∃ b, S₁.bound.getD (j + 1) none = some b ∧ cg C q' (j + 1) ≤ b ∧ cg C p0 (j + 1) < b) :
    ∃ hv T5, startR (hvRecursive C R F j) C R (j + 1) q' ((dA ++ [p0]).length + 1) (delSeq C (j + 1) S₁ rs) = some (hv, T5) ∧
      LInvC C R d n O j A S₁ (setVl T5 q' (j + 1) hv) (dA ++ [p0]) q' rs.reverse hv := by
  have hA := Rr.inv.sub
  obtain ⟨inv2, hB, fign, far, fvl, fdr, ftree, fcalls, fbnd, fptr⟩ :=
    h3 C R d n O j A S₁ c hj2 hj Rr.inv Rr.zero_or_big (dA ++ [p0]) q' rs hsplit
  set S2 := delSeq C (j + 1) S₁ rs with hS2
  have hLA : ∀ a, a ∈ RL O (j + 1) A ↔ a ∈ A := fun a => by
    rw [HvSweep.mem_RL]; exact ⟨fun h => h.2, fun h => ⟨(c.g.mem hj a).mpr (hA a h), h⟩⟩
  have hsplit3 : RL O (j + 1) A = dA ++ p0 :: q' :: rs.reverse := by rw [hsplit]; simp
  have hLnd : (RL O (j + 1) A).Nodup := HvSweep.RL_nodup c.g hj A
  have hnd_split := List.nodup_append.mp (hsplit ▸ hLnd)
  have hq'A : q' ∈ A := (hLA q').mp (by rw [hsplit]; simp)
  have hq'I := hA q' hq'A
  have hq'n : q' ≤ n := ((HvSweep.mem_ids n q').mp hq'I).2
  have hq'pre : q' ∉ dA ++ [p0] := fun h => hnd_split.2.2 q' h q' (by simp) rfl
  have hp0A : p0 ∈ A := (hLA p0).mp (by rw [hsplit]; simp)
  -- the list of the level is untouched
  have hsegL : HvSweep.Seg (toSw S₁) (j + 1) 0 ((dA ++ [p0]) ++ q' :: rs.reverse) 0 := by
    have := (Rr.inv.lists (j + 1) (by omega) (le_refl _)).1
    rw [hsplit] at this; exact this
  have hnode := HvSweep.seg_node (toSw S₁) (j + 1) (dA ++ [p0]) 0 q' rs.reverse 0 hsegL
  have hpv : pv S2 (j + 1) q' = p0 := by
    rw [(fptr (j + 1) q' (Or.inr (le_refl _))).2]
    have := hnode.1
    simp only [pv_toSw] at this
    rw [this]; simp
  -- the caches of the nodes before q' are valid: they are strictly below the bound
  obtain ⟨b, hb, hqb, hp0b⟩ := hstop
  obtain ⟨hp1, _⟩ := HvSweep.pos_lt_of_split O (j + 1) (c.g.nodup hj) (RL O (j + 1) A) dA (q' :: rs.reverse) p0
    (HvSweep.RL_sublist O (j + 1) A) hsplit3
  have hvalid : ∀ a ∈ dA ++ [p0], ar S2 a (j + 1) = ARv R (spt C R) O j A a ∧
      vl S2 a (j + 1) = VOLv (stc C R) R (spt C R) O j A a := by
    intro a ha
    have haA : a ∈ A := (hLA a).mp (by rw [hsplit]; exact List.mem_append_left _ ha)
    have hale : cg C a (j + 1) ≤ cg C p0 (j + 1) := by
      rcases List.mem_append.mp ha with h | h
      · exact c.cg_le_of_pos hj (hA p0 hp0A) (hA a haA) (le_of_lt (hp1 a h))
      · simp at h; rw [h]
    rw [gB_ar_of_area far a (j + 1), gB_vl_of_vol fvl a (j + 1)]
    exact Rr.inv.cv j (by omega) (by omega) a haA b hb (lt_of_le_of_lt hale hp0b)
  set hvol0 := vl S2 p0 (j + 1) + ar S2 p0 (j + 1) * (cg C q' (j + 1) - cg C p0 (j + 1)) with hhv0
  have hvol0_eq : hvol0 = VOLv (stc C R) R (spt C R) O j A q' := by
    rw [hhv0, (hvalid p0 (by simp)).1, (hvalid p0 (by simp)).2]
    have hst := HvSweep.caches_step c.g j hj A hA dA rs.reverse p0 q' hsplit3
    rw [hst, c.cg_tr' hq'I hj (Rr.inv.good q' hq'A _ hj), c.cg_tr' (hA p0 hp0A) hj (Rr.inv.good p0 hp0A _ hj)]
    ring
  have hignS2 : ∀ y, ign S2 y = ign S₁ y := fun y => gB_ign_of_ignore fign y
  unfold startR
  rw [if_pos (by simp), hpv]
  by_cases hmark : ((j + 1 : ℕ) : ℤ) ≤ ign S2 q'
  · -- marked: the area is copied
    rw [if_pos hmark]
    have hm1 : ((j + 1 : ℕ) : ℤ) ≤ ign S₁ q' := by rw [← hignS2 q']; exact hmark
    have hm2 : (2 : ℤ) ≤ ign S₁ q' := by
      have : (2 : ℤ) ≤ ((j + 1 : ℕ) : ℤ) := by exact_mod_cast (by omega : 2 ≤ j + 1)
      linarith
    obtain ⟨w, hwA, hdom⟩ := Rr.inv.ig q' hq'A hm2
    have hmt : j + 1 ≤ (ign S₁ q').toNat := by
      have := Int.toNat_le_toNat hm1
      rwa [Int.toNat_natCast] at this
    refine ⟨hvol0, _, rfl, ?_⟩
    set T5 := setAr S2 q' (j + 1) (ar S2 p0 (j + 1)) with hT5
    exact
      { split := hsplit
        ptr := by rw [List.reverse_reverse]; exact PtrEqC.refl S2
        inv := invC_setVl_hi (invC_setAr_hi inv2 q' (j + 1) _ (by omega)) q' (j + 1) hvol0 (by omega)
        absent := fun y _ => hignS2 y
        cache := by
          intro a ha
          rcases List.mem_append.mp ha with h | h
          · have haq : a ≠ q' := fun e => hq'pre (e ▸ h)
            rw [gB_vl_setVl_ne T5 q' (j + 1) a (j + 1) _ (Or.inl haq)]
            have : ar (setVl T5 q' (j + 1) hvol0) a (j + 1) = ar T5 a (j + 1) := rfl
            rw [this, hT5, gB_ar_setAr_ne S2 q' (j + 1) a (j + 1) _ (Or.inl haq)]
            exact hvalid a h
          · have haq : a = q' := by simpa using h
            subst haq
            constructor
            · show ar T5 a (j + 1) = _
              rw [hT5, gB_ar_setAr_self inv2.tsh.area hq'n hj, (hvalid p0 (by simp)).1]
              exact (ARv_of_domC c j (by omega) hj A hA dA rs.reverse p0 a hsplit3 w _ hwA hmt hdom).symm
            · rw [gB_vl_setVl_self (gB_tsh_setAr inv2.tsh _ _ _).vol hq'n hj, hvol0_eq]
        hvol := hvol0_eq
        f_ign := fun y _ => hignS2 y
        f_dr := fun y _ => gB_dr_of_domr fdr y
        f_hi := by
          intro a i hi
          constructor
          · have : ar (setVl T5 q' (j + 1) hvol0) a i = ar T5 a i := rfl
            rw [this, hT5, gB_ar_setAr_ne S2 q' (j + 1) a i _ (Or.inr (by omega)), gB_ar_of_area far a i]
          · rw [gB_vl_setVl_ne T5 q' (j + 1) a i _ (Or.inr (by omega))]
            exact gB_vl_of_vol fvl a i
        f_bhi := fun i hi => fbnd i hi }
  · rw [if_neg hmark]
    obtain ⟨a, T1, hrun, hpe5, inv5, har5, fign5, fdr5, far5, fvl5, fb5⟩ :=
      area_rec_ok c j hj2 hj F hrec A hA dA p0 q' rs.reverse hsplit3 S2 inv2
    rw [hrun]
    refine ⟨hvol0, _, rfl, ?_⟩
    set T5 := promo T1 q' (j + 1) a with hT5
    have hBn : ∀ y, y ∈ rs → y ∉ dA ++ [p0] ++ [q'] := fun y hy h => ((hB y).mp h).2 hy
    exact
      { split := hsplit
        ptr := by rw [List.reverse_reverse]; exact hpe5
        inv := invC_setVl_hi inv5 q' (j + 1) hvol0 (by omega)
        absent := by
          intro y hy
          show ign T5 y = _
          rw [fign5 y (hBn y (List.mem_reverse.mp hy))]; exact hignS2 y
        cache := by
          intro a' ha
          rcases List.mem_append.mp ha with h | h
          · have haq : a' ≠ q' := fun e => hq'pre (e ▸ h)
            have e1 : ar (setVl T5 q' (j + 1) hvol0) a' (j + 1) = ar S2 a' (j + 1) :=
              far5 a' (j + 1) (by omega) (Or.inl haq)
            have e2 : vl (setVl T5 q' (j + 1) hvol0) a' (j + 1) = vl S2 a' (j + 1) :=
              (gB_vl_setVl_ne T5 q' (j + 1) a' (j + 1) _ (Or.inl haq)).trans (fvl5 a' (j + 1) (by omega))
            rw [e1, e2]; exact hvalid a' h
          · have haq : a' = q' := by simpa using h
            subst haq
            exact ⟨har5, by rw [gB_vl_setVl_self inv5.tsh.vol hq'n hj, hvol0_eq]⟩
        hvol := hvol0_eq
        f_ign := by
          intro y hyA
          show ign T5 y = _
          rw [fign5 y (fun h => hyA ((hB y).mp h).1)]; exact hignS2 y
        f_dr := by
          intro y hyA
          show dr T5 y = _
          rw [fdr5 y (fun h => hyA ((hB y).mp h).1)]; exact gB_dr_of_domr fdr y
        f_hi := by
          intro a' i hi
          constructor
          · have : ar (setVl T5 q' (j + 1) hvol0) a' i = ar T5 a' i := rfl
            rw [this, far5 a' i (by omega) (Or.inr (by omega)), gB_ar_of_area far a' i]
          · rw [gB_vl_setVl_ne T5 q' (j + 1) a' i _ (Or.inr (by omega)), fvl5 a' i (by omega), gB_vl_of_vol fvl a' i]
        f_bhi := by
          intro i hi
          show T5.bound.getD i none = _
          rw [fb5 i (by omega)]; exact fbnd i hi }

end ctx

end HvC
