/-
C08 helper lemmas: the invariants along a whole population / a whole history of updates.
-/
import DeapModel.Lemmas.C08Pf

set_option linter.unusedSectionVars false
set_option linter.unusedSimpArgs false
set_option linter.unusedVariables false

namespace C08L
open Archive
open Fitness (Fit deepcopy)

variable {G α : Type} [LinearOrder α] (sim : Ind G α → Ind G α → Bool)

/-! ### HallOfFame -/

theorem updateLoop_str (p0 : Ind G α) {base m : Nat} (hm : 1 ≤ m) (rest : List (Ind G α)) :
    ∀ (seen : List (Ind G α)) (h : HoF G α), HStr base m seen h →
      (h.items = [] → ∀ x, rest.head? = some x → p0 = x) →
      ∃ h', updateLoop sim p0 h rest = some h' ∧ HStr base m (seen ++ rest) h' := by
  induction rest with
  | nil => intro seen h hs _; exact ⟨h, rfl, by simpa using hs⟩
  | cons ind rest ih =>
    intro seen h hs hp
    obtain ⟨h1, e1, s1, n1⟩ := step_str sim p0 ind hs hm (fun he => hp he ind rfl)
    obtain ⟨h2, e2, s2⟩ := ih (seen ++ [ind]) h1 s1 (fun he => absurd he n1)
    refine ⟨h2, by simp only [updateLoop, e1, e2], ?_⟩
    simpa using s2

theorem update_str {base m : Nat} (hm : 1 ≤ m) (pop seen : List (Ind G α)) (h : HoF G α)
    (hs : HStr base m seen h) :
    ∃ h', update sim h pop = some h' ∧ HStr base m (seen ++ pop) h' := by
  cases pop with
  | nil => exact ⟨h, rfl, by simpa using hs⟩
  | cons p0 t =>
    exact updateLoop_str sim p0 hm (p0 :: t) seen h hs (fun _ x hx => by simpa using hx)

theorem run_str {base m : Nat} (hm : 1 ≤ m) (hist : List (List (Ind G α))) :
    ∀ (seen : List (Ind G α)) (h : HoF G α), HStr base m seen h →
      ∃ h', run sim h hist = some h' ∧ HStr base m (seen ++ hist.flatten) h' := by
  induction hist with
  | nil => intro seen h hs; exact ⟨h, rfl, by simpa using hs⟩
  | cons b bs ih =>
    intro seen h hs
    obtain ⟨h1, e1, s1⟩ := update_str sim hm b seen h hs
    obtain ⟨h2, e2, s2⟩ := ih (seen ++ b) h1 s1
    refine ⟨h2, by simp only [run, e1, e2], ?_⟩
    simpa using s2

variable {sim} {U : List (Ind G α)}

theorem updateLoop_sem (hh : SimHyp sim U) (p0 : Ind G α) {base m : Nat} (hm : 1 ≤ m)
    (rest : List (Ind G α)) :
    ∀ (seen : List (Ind G α)) (h h' : HoF G α), HStr base m seen h → Sem sim m seen h →
      (h.items = [] → ∀ x, rest.head? = some x → p0 = x) → (∀ x ∈ seen ++ rest, x ∈ U) →
      updateLoop sim p0 h rest = some h' → Sem sim m (seen ++ rest) h' := by
  induction rest with
  | nil => intro seen h h' _ hsem _ _ e; simp only [updateLoop, Option.some.injEq] at e; subst e; simpa using hsem
  | cons ind rest ih =>
    intro seen h h' hs hsem hp hU e
    obtain ⟨h1, e1, s1, n1⟩ := step_str sim p0 ind hs hm (fun he => hp he ind rfl)
    have sem1 := step_sem hh p0 ind hs hsem hm (fun he => hp he ind rfl)
      (fun x hx => hU x (by simp at hx ⊢; tauto)) e1
    simp only [updateLoop, e1] at e
    have := ih (seen ++ [ind]) h1 h' s1 sem1 (fun he => absurd he n1) (by simpa using hU) e
    simpa using this

theorem update_sem (hh : SimHyp sim U) {base m : Nat} (hm : 1 ≤ m) (pop seen : List (Ind G α))
    (h h' : HoF G α) (hs : HStr base m seen h) (hsem : Sem sim m seen h) (hU : ∀ x ∈ seen ++ pop, x ∈ U)
    (e : update sim h pop = some h') : Sem sim m (seen ++ pop) h' := by
  cases pop with
  | nil => simp only [update, Option.some.injEq] at e; subst e; simpa using hsem
  | cons p0 t =>
    exact updateLoop_sem hh p0 hm (p0 :: t) seen h h' hs hsem (fun _ x hx => by simpa using hx) hU e

theorem run_sem (hh : SimHyp sim U) {base m : Nat} (hm : 1 ≤ m) (hist : List (List (Ind G α))) :
    ∀ (seen : List (Ind G α)) (h h' : HoF G α), HStr base m seen h → Sem sim m seen h →
      (∀ x ∈ seen ++ hist.flatten, x ∈ U) → run sim h hist = some h' →
      Sem sim m (seen ++ hist.flatten) h' := by
  induction hist with
  | nil => intro seen h h' _ hsem _ e; simp only [run, Option.some.injEq] at e; subst e; simpa using hsem
  | cons b bs ih =>
    intro seen h h' hs hsem hU e
    obtain ⟨h1, e1, s1⟩ := update_str sim hm b seen h hs
    have sem1 := update_sem hh hm b seen h h1 hs hsem (fun x hx => hU x (by simp at hx ⊢; tauto)) e1
    simp only [run, e1] at e
    have := ih (seen ++ b) h1 h' s1 sem1 (by simpa using hU) e
    simpa using this

/-! ### ParetoFront -/

variable (sim)

theorem pfUpdate_str {base : Nat} (pop : List (Ind G α)) :
    ∀ (seen : List (Ind G α)) (h : HoF G α), Str base seen h →
      ∃ h', pfUpdate sim h pop = some h' ∧ Str base (seen ++ pop) h' := by
  induction pop with
  | nil => intro seen h hs; exact ⟨h, rfl, by simpa using hs⟩
  | cons ind rest ih =>
    intro seen h hs
    obtain ⟨h1, e1, s1⟩ := pfStep_str sim ind hs
    obtain ⟨h2, e2, s2⟩ := ih (seen ++ [ind]) h1 s1
    refine ⟨h2, by simp only [pfUpdate, e1, e2], ?_⟩
    simpa using s2

theorem pfRun_str {base : Nat} (hist : List (List (Ind G α))) :
    ∀ (seen : List (Ind G α)) (h : HoF G α), Str base seen h →
      ∃ h', pfRun sim h hist = some h' ∧ Str base (seen ++ hist.flatten) h' := by
  induction hist with
  | nil => intro seen h hs; exact ⟨h, rfl, by simpa using hs⟩
  | cons b bs ih =>
    intro seen h hs
    obtain ⟨h1, e1, s1⟩ := pfUpdate_str sim b seen h hs
    obtain ⟨h2, e2, s2⟩ := ih (seen ++ b) h1 s1
    refine ⟨h2, by simp only [pfRun, e1, e2], ?_⟩
    simpa using s2

variable {sim}

theorem pfUpdate_sem {n base : Nat} (hh : PfHyp sim n U) (pop : List (Ind G α)) :
    ∀ (seen : List (Ind G α)) (h h' : HoF G α), Str base seen h → PSem sim seen h →
      (∀ x ∈ seen ++ pop, x ∈ U) → pfUpdate sim h pop = some h' → PSem sim (seen ++ pop) h' := by
  induction pop with
  | nil => intro seen h h' _ hsem _ e; simp only [pfUpdate, Option.some.injEq] at e; subst e; simpa using hsem
  | cons ind rest ih =>
    intro seen h h' hs hsem hU e
    obtain ⟨h1, e1, s1⟩ := pfStep_str sim ind hs
    have sem1 := pfStep_sem hh hs hsem (fun x hx => hU x (by simp at hx ⊢; tauto)) e1
    simp only [pfUpdate, e1] at e
    have := ih (seen ++ [ind]) h1 h' s1 sem1 (by simpa using hU) e
    simpa using this

theorem pfRun_sem {n base : Nat} (hh : PfHyp sim n U) (hist : List (List (Ind G α))) :
    ∀ (seen : List (Ind G α)) (h h' : HoF G α), Str base seen h → PSem sim seen h →
      (∀ x ∈ seen ++ hist.flatten, x ∈ U) → pfRun sim h hist = some h' →
      PSem sim (seen ++ hist.flatten) h' := by
  induction hist with
  | nil => intro seen h h' _ hsem _ e; simp only [pfRun, Option.some.injEq] at e; subst e; simpa using hsem
  | cons b bs ih =>
    intro seen h h' hs hsem hU e
    obtain ⟨h1, e1, s1⟩ := pfUpdate_str sim b seen h hs
    have sem1 := pfUpdate_sem hh b seen h h1 hs hsem (fun x hx => hU x (by simp at hx ⊢; tauto)) e1
    simp only [pfRun, e1] at e
    have := ih (seen ++ b) h1 h' s1 sem1 (by simpa using hU) e
    simpa using this

/-! ### From the empty archive -/

theorem hof_hstr (sim : Ind G α → Ind G α → Bool) {base m : Nat} (hm : 1 ≤ m)
    {hist : List (List (Ind G α))} {h : HoF G α} (hr : run sim (empty m base) hist = some h) :
    HStr base m hist.flatten h := by
  obtain ⟨h', e, s⟩ := run_str sim hm hist [] (empty m base) (hstr_empty m base)
  rw [hr] at e; cases e; simpa using s

theorem hof_sem {base m : Nat} (hm : 1 ≤ m) {hist : List (List (Ind G α))} {h : HoF G α}
    (hh : SimHyp sim hist.flatten) (hr : run sim (empty m base) hist = some h) :
    Sem sim m hist.flatten h := by
  have := run_sem hh hm hist [] (empty m base) h (hstr_empty m base) (sem_empty sim m base)
    (by simp) hr
  simpa using this

theorem pf_str (sim : Ind G α → Ind G α → Bool) {base m : Nat}
    {hist : List (List (Ind G α))} {h : HoF G α} (hr : pfRun sim (empty m base) hist = some h) :
    Str base hist.flatten h := by
  obtain ⟨h', e, s⟩ := pfRun_str sim hist [] (empty m base) (str_empty m base)
  rw [hr] at e; cases e; simpa using s

theorem pf_sem {n base m : Nat} {hist : List (List (Ind G α))} {h : HoF G α}
    (hh : PfHyp sim n hist.flatten) (hr : pfRun sim (empty m base) hist = some h) :
    PSem sim hist.flatten h := by
  have := pfRun_sem hh hist [] (empty m base) h (str_empty m base) (psem_empty sim m base)
    (by simp) hr
  simpa using this

end C08L
