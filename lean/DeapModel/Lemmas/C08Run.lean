/-
C08 helper lemmas: the invariants along a whole population / a whole history of updates.
-/
import DeapModel.Lemmas.C08Pf

set_option linter.unusedSectionVars false
set_option linter.unusedSimpArgs false
set_option linter.unusedVariables false

namespace C08L
open Archive
open Fitness (Fit deepcopy)

variable {G α : Type} [LinearOrder α] (sim : Ind G α → Ind G α → Bool)

/-! ### HallOfFame -/

theorem updateLoop_str (p0 : Ind G α) {base m : Nat} (hm : 1 ≤ m) (rest : List (Ind G α)) :
    ∀ (seen : List (Ind G α)) (h : HoF G α), HStr base m seen h →
      (h.items = [] → ∀ x, rest.head? = some x → p0 = x) →
      ∃ h', updateLoop sim p0 h rest = some h' ∧ HStr base m (seen ++ rest) h' := by
  induction rest with
  | nil => intro seen h hs _; exact ⟨h, rfl, by simpa using hs⟩
  | cons ind rest ih =>
    intro seen h hs hp
    obtain ⟨h1, e1, s1, n1⟩ := step_str sim p0 ind hs hm (fun he => hp he ind rfl)
    obtain ⟨h2, e2, s2⟩ := ih (seen ++ [ind]) h1 s1 (fun he => absurd he n1)
    refine ⟨h2, by simp only [updateLoop, e1, e2], ?_⟩
    simpa using s2

theorem update_str {base m : Nat} (hm : 1 ≤ m) (pop seen : List (Ind G α)) (h : HoF G α)
    (hs : HStr base m seen h) :
    ∃ h', update sim h pop = some h' ∧ HStr base m (seen ++ pop) h' := by
  cases pop with
  | nil => exact ⟨h, rfl, by simpa using hs⟩
  | cons p0 t =>
    exact updateLoop_str sim p0 hm (p0 :: t) seen h hs (fun _ x hx => by simpa using hx)

theorem run_str {base m : Nat} (hm : 1 ≤ m) (hist : List (List (Ind G α))) :
    ∀ (seen : List (Ind G α)) (h : HoF G α), HStr base m seen h →
      ∃ h', run sim h hist = some h' ∧ HStr base m (seen ++ hist.flatten) h' := by
  induction hist with
  | nil => intro seen h hs; exact ⟨h, rfl, by simpa using hs⟩
  | cons b bs ih =>
    intro seen h hs
    obtain ⟨h1, e1, s1⟩ := update_str sim hm b seen h hs
    obtain ⟨h2, e2, s2⟩ := ih (seen ++ b) h1 s1
    refine ⟨h2, by simp only [run, e1, e2], ?_⟩
    simpa using s2

/-- Any family `P seen h` preserved by one iteration (given the structural invariant) holds along a
whole population. -/
theorem updateLoop_inv (P : List (Ind G α) → HoF G α → Prop) {base m : Nat} (hm : 1 ≤ m)
    (hstep : ∀ (p0 ind : Ind G α) (seen : List (Ind G α)) (h h' : HoF G α), HStr base m seen h → P seen h →
      (h.items = [] → p0 = ind) → step sim p0 h ind = some h' → P (seen ++ [ind]) h')
    (p0 : Ind G α) (rest : List (Ind G α)) :
    ∀ (seen : List (Ind G α)) (h h' : HoF G α), HStr base m seen h → P seen h →
      (h.items = [] → ∀ x, rest.head? = some x → p0 = x) →
      updateLoop sim p0 h rest = some h' → P (seen ++ rest) h' := by
  induction rest with
  | nil => intro seen h h' _ hP _ e; simp only [updateLoop, Option.some.injEq] at e; subst e; simpa using hP
  | cons ind rest ih =>
    intro seen h h' hs hP hp e
    obtain ⟨h1, e1, s1, n1⟩ := step_str sim p0 ind hs hm (fun he => hp he ind rfl)
    have P1 := hstep p0 ind seen h h1 hs hP (fun he => hp he ind rfl) e1
    simp only [updateLoop, e1] at e
    have := ih (seen ++ [ind]) h1 h' s1 P1 (fun he => absurd he n1) e
    simpa using this

theorem run_inv (P : List (Ind G α) → HoF G α → Prop) {base m : Nat} (hm : 1 ≤ m)
    (hstep : ∀ (p0 ind : Ind G α) (seen : List (Ind G α)) (h h' : HoF G α), HStr base m seen h → P seen h →
      (h.items = [] → p0 = ind) → step sim p0 h ind = some h' → P (seen ++ [ind]) h')
    (hist : List (List (Ind G α))) :
    ∀ (seen : List (Ind G α)) (h h' : HoF G α), HStr base m seen h → P seen h →
      run sim h hist = some h' → P (seen ++ hist.flatten) h' := by
  induction hist with
  | nil => intro seen h h' _ hP e; simp only [run, Option.some.injEq] at e; subst e; simpa using hP
  | cons b bs ih =>
    intro seen h h' hs hP e
    obtain ⟨h1, e1, s1⟩ := update_str sim hm b seen h hs
    have P1 : P (seen ++ b) h1 := by
      cases b with
      | nil => simp only [update, Option.some.injEq] at e1; subst e1; simpa using hP
      | cons p0 t =>
        exact updateLoop_inv sim P hm hstep p0 (p0 :: t) seen h h1 hs hP (fun _ x hx => by simpa using hx) e1
    simp only [run, e1] at e
    have := ih (seen ++ b) h1 h' s1 P1 e
    simpa using this

/-! ### ParetoFront -/

theorem pfUpdate_str {base : Nat} (pop : List (Ind G α)) :
    ∀ (seen : List (Ind G α)) (h : HoF G α), Str base seen h →
      ∃ h', pfUpdate sim h pop = some h' ∧ Str base (seen ++ pop) h' := by
  induction pop with
  | nil => intro seen h hs; exact ⟨h, rfl, by simpa using hs⟩
  | cons ind rest ih =>
    intro seen h hs
    obtain ⟨h1, e1, s1⟩ := pfStep_str sim ind hs
    obtain ⟨h2, e2, s2⟩ := ih (seen ++ [ind]) h1 s1
    refine ⟨h2, by simp only [pfUpdate, e1, e2], ?_⟩
    simpa using s2

theorem pfRun_str {base : Nat} (hist : List (List (Ind G α))) :
    ∀ (seen : List (Ind G α)) (h : HoF G α), Str base seen h →
      ∃ h', pfRun sim h hist = some h' ∧ Str base (seen ++ hist.flatten) h' := by
  induction hist with
  | nil => intro seen h hs; exact ⟨h, rfl, by simpa using hs⟩
  | cons b bs ih =>
    intro seen h hs
    obtain ⟨h1, e1, s1⟩ := pfUpdate_str sim b seen h hs
    obtain ⟨h2, e2, s2⟩ := ih (seen ++ b) h1 s1
    refine ⟨h2, by simp only [pfRun, e1, e2], ?_⟩
    simpa using s2

/-- Any family `P seen h` preserved by one Pareto iteration holds along a whole history. -/
theorem pfRun_inv (P : List (Ind G α) → HoF G α → Prop) {base : Nat}
    (hstep : ∀ (ind : Ind G α) (seen : List (Ind G α)) (h h' : HoF G α), Str base seen h → P seen h →
      pfStep sim h ind = some h' → P (seen ++ [ind]) h')
    (hist : List (List (Ind G α))) :
    ∀ (seen : List (Ind G α)) (h h' : HoF G α), Str base seen h → P seen h →
      pfRun sim h hist = some h' → P (seen ++ hist.flatten) h' := by
  have hupd : ∀ (pop : List (Ind G α)) (seen : List (Ind G α)) (h h' : HoF G α), Str base seen h → P seen h →
      pfUpdate sim h pop = some h' → P (seen ++ pop) h' := by
    intro pop
    induction pop with
    | nil => intro seen h h' _ hP e; simp only [pfUpdate, Option.some.injEq] at e; subst e; simpa using hP
    | cons ind rest ih =>
      intro seen h h' hs hP e
      obtain ⟨h1, e1, s1⟩ := pfStep_str sim ind hs
      have P1 := hstep ind seen h h1 hs hP e1
      simp only [pfUpdate, e1] at e
      have := ih (seen ++ [ind]) h1 h' s1 P1 e
      simpa using this
  induction hist with
  | nil => intro seen h h' _ hP e; simp only [pfRun, Option.some.injEq] at e; subst e; simpa using hP
  | cons b bs ih =>
    intro seen h h' hs hP e
    obtain ⟨h1, e1, s1⟩ := pfUpdate_str sim b seen h hs
    have P1 := hupd b seen h h1 hs hP e1
    simp only [pfRun, e1] at e
    have := ih (seen ++ b) h1 h' s1 P1 e
    simpa using this

/-! ### From the empty archive -/

variable {sim} {U : List (Ind G α)}

theorem hof_hstr (sim : Ind G α → Ind G α → Bool) {base m : Nat} (hm : 1 ≤ m)
    {hist : List (List (Ind G α))} {h : HoF G α} (hr : run sim (empty m base) hist = some h) :
    HStr base m hist.flatten h := by
  obtain ⟨h', e, s⟩ := run_str sim hm hist [] (empty m base) (hstr_empty m base)
  rw [hr] at e; cases e; simpa using s

theorem hof_dissim {base m : Nat} (hm : 1 ≤ m) {hist : List (List (Ind G α))} {h : HoF G α}
    (hh : SimSym sim) (hr : run sim (empty m base) hist = some h) : Dissim sim h.items := by
  have := run_inv sim (fun _ h => Dissim sim h.items) hm
    (fun p0 ind seen h h' hs hP hp e => step_dissim hh p0 ind hs hP hm hp e)
    hist [] (empty m base) h (hstr_empty m base) List.Pairwise.nil hr
  exact this

theorem hof_semk {base m : Nat} (hm : 1 ≤ m) {hist : List (List (Ind G α))} {h : HoF G α}
    (hh : SimBase sim) (hr : run sim (empty m base) hist = some h) : SemK sim m hist.flatten h := by
  have := run_inv sim (fun seen h => SemK sim m seen h) hm
    (fun p0 ind seen h h' hs hP hp e => step_semk hh p0 ind hs hP hm hp e)
    hist [] (empty m base) h (hstr_empty m base) ⟨List.Pairwise.nil, by simp⟩ hr
  simpa using this

theorem hof_best {base m : Nat} (hm : 1 ≤ m) {hist : List (List (Ind G α))} {h : HoF G α}
    (hh : SimHyp sim hist.flatten) (hr : run sim (empty m base) hist = some h) :
    Best sim m hist.flatten h := by
  have := run_inv sim (fun seen h => (∀ x ∈ seen, x ∈ hist.flatten) → Best sim m seen h) hm
    (fun p0 ind seen h h' hs hP hp e hU =>
      step_best hh p0 ind hs (hP (fun x hx => hU x (by simp [hx]))) hm hp hU e)
    hist [] (empty m base) h (hstr_empty m base) (fun _ => by simp [Best]) hr
  exact this (by simp)

theorem pf_str (sim : Ind G α → Ind G α → Bool) {base m : Nat}
    {hist : List (List (Ind G α))} {h : HoF G α} (hr : pfRun sim (empty m base) hist = some h) :
    Str base hist.flatten h := by
  obtain ⟨h', e, s⟩ := pfRun_str sim hist [] (empty m base) (str_empty m base)
  rw [hr] at e; cases e; simpa using s

theorem pf_anti {n base m : Nat} {hist : List (List (Ind G α))} {h : HoF G α}
    (hlen : ∀ x ∈ hist.flatten, x.fit.wvalues.length = n)
    (hr : pfRun sim (empty m base) hist = some h) : Anti h := by
  have := pfRun_inv sim (fun seen h => (∀ x ∈ seen, x ∈ hist.flatten) → Anti h)
    (fun ind seen h h' hs hP e hU =>
      (pfStep_sem hlen hs (hP (fun x hx => hU x (by simp [hx]))) hU e).1)
    hist [] (empty m base) h (str_empty m base) (fun _ => by simp [Anti, empty]) hr
  exact this (by simp)

theorem pf_notwin {n base m : Nat} {hist : List (List (Ind G α))} {h : HoF G α}
    (hlen : ∀ x ∈ hist.flatten, x.fit.wvalues.length = n) (hh : SimSym sim)
    (hr : pfRun sim (empty m base) hist = some h) : NoTwin sim h := by
  have := pfRun_inv sim (fun seen h => (∀ x ∈ seen, x ∈ hist.flatten) → Anti h ∧ NoTwin sim h)
    (fun ind seen h h' hs hP e hU => by
      have hp := hP (fun x hx => hU x (by simp [hx]))
      have := pfStep_sem hlen hs hp.1 hU e
      exact ⟨this.1, this.2.1 hh hp.2⟩)
    hist [] (empty m base) h (str_empty m base) (fun _ => by simp [Anti, NoTwin, empty]) hr
  exact (this (by simp)).2

theorem pf_cover {n base m : Nat} {hist : List (List (Ind G α))} {h : HoF G α}
    (hh : PfHyp sim n hist.flatten) (hr : pfRun sim (empty m base) hist = some h) :
    Cover sim hist.flatten h := by
  have := pfRun_inv sim (fun seen h => (∀ x ∈ seen, x ∈ hist.flatten) → Anti h ∧ Cover sim seen h)
    (fun ind seen h h' hs hP e hU => by
      have hp := hP (fun x hx => hU x (by simp [hx]))
      have := pfStep_sem hh.len hs hp.1 hU e
      exact ⟨this.1, this.2.2 hh.toSimBase hp.2⟩)
    hist [] (empty m base) h (str_empty m base) (fun _ => by simp [Anti, Cover, empty]) hr
  exact (this (by simp)).2

end C08L
