import DeapModel.Lemmas.C15HvCInv
/-!
C15 — the 3-D base case of `_hv.c` RE-ENTERED with a finite `bound[2]`: the invariant of the main loop l.899-989
with everything that a later re-entry reads (cached `area[2]` / `vol[2]`, `domr`, `ignore`), and the statement about
the loop that the entry phase (l.838-898) and the exit are assembled around.
-/
namespace HvC
set_option linter.unusedVariables false
open Hypervolume
open HvSweep (GCtx Hj RL preSet pos ARv VOLv ids Shaped)

/-- **invariant of the main loop l.899-989**: `pre` (non-empty) are the nodes of the list of dimension 2 that are
processed (those below the bound, taken from the caches, and those swept so far), `rest` are still to come;
`hyperv`, `hypera` are the C variables at the loop head. -/
structure SLInv (C : Cargo) (R : List ℚ) (d n : ℕ) (O : ℕ → List ℕ) (A : List ℕ) (S : St) (pre rest : List ℕ)
    (hyperv hypera : ℚ) : Prop where
  anodup : A.Nodup
  asub : ∀ a ∈ A, a ∈ ids n
  agood : ∀ a ∈ A, ∀ j < d, cg C a j < rf R j
  split : RL O 2 A = pre ++ rest
  prene : pre ≠ []
  shape : ShapeC d n S
  tsh : TSh d n S
  dl : DLc n S 2 (RL O 2 A)
  -- the tree: a strict staircase of processed, unmarked nodes that covers every processed node
  tne : S.tree ≠ []
  tnd : S.tree.Nodup
  tsub : ∀ t ∈ S.tree, t ∈ pre
  tign : ∀ t ∈ S.tree, ¬ (2 : ℤ) ≤ ign S t
  stair : Stair (S.tree.map (item C))
  cover : ∀ q ∈ pre, ∃ t ∈ S.tree, (item C t).1 ≤ (item C q).1 ∧ (item C t).2 ≤ (item C q).2
  area : hypera = hArea (rf R 0) (rf R 1) (S.tree.map (item C))
  -- the value accumulated so far
  val : hyperv + hypera * (rf R 2 - zOf C (rf R 2) rest) = Hj R (spt C R) 2 pre
  -- the caches of level 2 of every processed node are the ideal ones w.r.t. the whole node set `A`
  cache : ∀ a ∈ pre, ar S a 2 = ARv R (spt C R) O 1 A a ∧ vl S a 2 = VOLv (stc C R) R (spt C R) O 1 A a
  -- `domr`
  drT : ∀ t ∈ S.tree, dr S t = rf R 2
  drge : ∀ a ∈ pre, cg C a 2 ≤ dr S a
  drout : ∀ a ∈ pre, a ∉ S.tree →
    (∀ p ∈ rest, dr S a ≤ cg C p 2) ∧ ∃ q ∈ pre, Beats C O q a ∧ cg C q 2 ≤ dr S a
  drL : ∀ a ∈ pre, ∀ q ∈ pre, Beats C O q a → dr S a ≤ max (cg C a 2) (cg C q 2)
  -- the marks
  ig : IGc C O S A
  igd : ∀ q, 2 ≤ ign S q → dr S q = cg C q 2

/-- **the main loop l.899-989 keeps `SLInv`** up to the end of the list, and writes nothing but `tree`, `domr`,
`ignore` (of swept nodes), `area[·][2]` and `vol[·][2]` (of swept nodes). -/
def SweepLoopRe_Statement : Prop :=
  ∀ (C : Cargo) (R : List ℚ) (d n : ℕ) (O : ℕ → List ℕ) (A : List ℕ) (tfuel fuel : ℕ) (pre rest : List ℕ)
    (hyperv hypera : ℚ) (S : St),
    CCtx C R d n O → SLInv C R d n O A S pre rest hyperv hypera → rest.length ≤ fuel → n < tfuel →
    ∃ v hypera' S', sweepLoop C R tfuel fuel (rest.headD 0) hyperv hypera S = some (v, S') ∧
      SLInv C R d n O A S' (pre ++ rest) [] v hypera' ∧
      S'.next = S.next ∧ S'.prev = S.prev ∧ S'.bound = S.bound ∧ S'.calls = S.calls ∧
      (∀ y, y ∉ rest → ign S' y = ign S y) ∧
      (∀ y, y ∉ pre ++ rest → dr S' y = dr S y) ∧
      (∀ a i, (i ≠ 2 ∨ a ∉ rest) → ar S' a i = ar S a i ∧ vl S' a i = vl S a i)

end HvC
