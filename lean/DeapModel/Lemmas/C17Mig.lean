/-
C17 — helper lemmas about the model of `tools.migRing` (`DeapModel/Core/Migration.lean`).
-/
import DeapModel.Core.Migration

namespace Migration

section
variable {α κ : Type} [DecidableEq κ]

theorem indexOf?_lt (key : α → κ) (x : α) : ∀ (l : List α) (j : Nat), indexOf? key x l = some j → j < l.length
  | [], j, h => by simp [indexOf?] at h
  | y :: ys, j, h => by
    unfold indexOf? at h
    split at h
    · cases h; simp
    · cases hi : indexOf? key x ys with
      | none => rw [hi] at h; cases h
      | some i =>
        rw [hi] at h
        simp only [Option.map_some, Option.some.injEq] at h
        subst h
        have := indexOf?_lt key x ys i hi
        simp; omega

/-- The element found by `index` is `==` to the one searched. -/
theorem indexOf?_key (key : α → κ) (x : α) :
    ∀ (l : List α) (j : Nat), indexOf? key x l = some j → (l[j]?).map key = some (key x)
  | [], j, h => by simp [indexOf?] at h
  | y :: ys, j, h => by
    unfold indexOf? at h
    split at h
    next hk => cases h; simp [hk]
    next hk =>
      cases hi : indexOf? key x ys with
      | none => rw [hi] at h; cases h
      | some i =>
        rw [hi] at h
        simp only [Option.map_some, Option.some.injEq] at h
        subst h
        simpa using indexOf?_key key x ys i hi

/-- The inner loop keeps the size of the deme. -/
theorem replaceAll_length (key : α → κ) :
    ∀ (imm emi pop pop' : List α), replaceAll key pop imm emi = some pop' → pop'.length = pop.length
  | [], _, pop, pop', h => by
    simp only [replaceAll, Option.some.injEq] at h
    subst h; rfl
  | _ :: _, [], pop, pop', h => by simp [replaceAll] at h
  | x :: imm, e :: emi, pop, pop', h => by
    simp only [replaceAll] at h
    cases hi : indexOf? key x pop with
    | none => rw [hi] at h; cases h
    | some j =>
      rw [hi] at h
      have := replaceAll_length key imm emi (pop.set j e) pop' h
      simpa using this

/-- The loop over `enumerate(migarray)` keeps the number of demes and the size of every deme. -/
theorem migrate_shape (key : α → κ) (emigrants immigrants : List (List α)) :
    ∀ (pairs : List (Nat × Nat)) (pops pops' : List (List α)),
      migrate key emigrants immigrants pops pairs = some pops' →
      pops'.map List.length = pops.map List.length
  | [], pops, pops', h => by
    simp only [migrate, Option.some.injEq] at h
    subst h; rfl
  | (fr, to) :: rest, pops, pops', h => by
    simp only [migrate] at h
    split at h
    next p imm hp himm =>
      cases hr : replaceAll key p imm ((emigrants[fr]?).getD []) with
      | none => rw [hr] at h; cases h
      | some p' =>
        rw [hr] at h
        have e1 := migrate_shape key emigrants immigrants rest (pops.set to p') pops' h
        have e2 : p'.length = p.length := replaceAll_length key imm _ p p' hr
        rw [e1, List.map_set, e2]
        have hto : to < pops.length := (List.getElem?_eq_some_iff.1 hp).1
        have : p = pops[to] := ((List.getElem?_eq_some_iff.1 hp).2).symm
        subst this
        apply List.ext_getElem?
        intro i
        by_cases hi : i = to
        · subst hi; simp [hto]
        · simp [Ne.symm hi]
    next => cases h

/-! ### Conservation of the genomes -/

/-- Overwriting slot `j` with `e` trades `l[j]` for `e`. -/
theorem set_perm {β : Type} : ∀ (l : List β) (j : Nat) (hj : j < l.length) (e : β),
    (l[j] :: l.set j e).Perm (e :: l)
  | [], j, hj, _ => by simp at hj
  | y :: ys, 0, _, e => by simpa using List.Perm.swap e y ys
  | y :: ys, j + 1, hj, e => by
    have hj' : j < ys.length := by simpa using hj
    have ih := set_perm ys j hj' e
    simp only [List.getElem_cons_succ, List.set_cons_succ]
    exact (List.Perm.swap y ys[j] (ys.set j e)).trans ((ih.cons y).trans (List.Perm.swap e y ys))

theorem indexOf?_getElem_key (key : α → κ) (x : α) (l : List α) (j : Nat) (h : indexOf? key x l = some j) :
    ∃ hj : j < l.length, key l[j] = key x := by
  have hj := indexOf?_lt key x l j h
  refine ⟨hj, ?_⟩
  have := indexOf?_key key x l j h
  rw [List.getElem?_eq_getElem hj] at this
  simpa using this

/-- What the inner loop does to the multiset of genomes of a deme: the immigrants' genomes leave, the genomes of the
first `|imm|` emigrants arrive. -/
theorem replaceAll_perm (key : α → κ) :
    ∀ (imm emi pop pop' : List α), replaceAll key pop imm emi = some pop' →
      (pop'.map key ++ imm.map key).Perm (pop.map key ++ (emi.take imm.length).map key)
  | [], _, pop, pop', h => by
    simp only [replaceAll, Option.some.injEq] at h
    subst h; simp
  | _ :: _, [], pop, pop', h => by simp [replaceAll] at h
  | x :: imm, e :: emi, pop, pop', h => by
    simp only [replaceAll] at h
    cases hi : indexOf? key x pop with
    | none => rw [hi] at h; cases h
    | some j =>
      rw [hi] at h
      obtain ⟨hj, hk⟩ := indexOf?_getElem_key key x pop j hi
      have ih := replaceAll_perm key imm emi (pop.set j e) pop' h
      have hs : (key x :: (pop.set j e).map key).Perm (key e :: pop.map key) := by
        have hj' : j < (pop.map key).length := by simpa using hj
        have := set_perm (pop.map key) j hj' (key e)
        simpa [List.map_set, hk] using this
      simp only [List.map_cons, List.length_cons, List.take_succ_cons]
      refine List.perm_middle.trans ?_
      refine ((ih.cons (key x)).trans ?_).trans List.perm_middle.symm
      exact List.Perm.append_right _ hs

/-- genomes that leave the demes along the pairs … -/
def leaving (key : α → κ) (immigrants : List (List α)) (pairs : List (Nat × Nat)) : List κ :=
  pairs.flatMap (fun p => ((immigrants[p.2]?).getD []).map key)

/-- … and genomes that arrive. -/
def arriving (key : α → κ) (emigrants immigrants : List (List α)) (pairs : List (Nat × Nat)) : List κ :=
  pairs.flatMap (fun p => (((emigrants[p.1]?).getD []).take ((immigrants[p.2]?).getD []).length).map key)

theorem flatten_set_perm (pops : List (List α)) (to : Nat) (hto : to < pops.length) (p' : List α) :
    (pops[to] ++ (pops.set to p').flatten).Perm (p' ++ pops.flatten) := by
  have := (set_perm pops to hto p').flatten
  simpa using this

theorem migrate_perm (key : α → κ) (emigrants immigrants : List (List α)) :
    ∀ (pairs : List (Nat × Nat)) (pops pops' : List (List α)),
      migrate key emigrants immigrants pops pairs = some pops' →
      (pops'.flatten.map key ++ leaving key immigrants pairs).Perm
        (pops.flatten.map key ++ arriving key emigrants immigrants pairs)
  | [], pops, pops', h => by
    simp only [migrate, Option.some.injEq] at h
    subst h; simp [leaving, arriving]
  | (fr, to) :: rest, pops, pops', h => by
    simp only [migrate] at h
    split at h
    next p imm hp himm =>
      cases hr : replaceAll key p imm ((emigrants[fr]?).getD []) with
      | none => rw [hr] at h; cases h
      | some p' =>
        rw [hr] at h
        have ih := migrate_perm key emigrants immigrants rest (pops.set to p') pops' h
        have hto : to < pops.length := (List.getElem?_eq_some_iff.1 hp).1
        have hpe : p = pops[to] := ((List.getElem?_eq_some_iff.1 hp).2).symm
        subst hpe
        have h1 := (flatten_set_perm pops to hto p').map key
        have h2 := replaceAll_perm key imm ((emigrants[fr]?).getD []) pops[to] p' hr
        simp only [List.map_append] at h1
        -- one deme: X' ++ imm ~ X ++ emiT
        have step : ((pops.set to p').flatten.map key ++ imm.map key).Perm
            (pops.flatten.map key ++ (((emigrants[fr]?).getD []).take imm.length).map key) := by
          apply (List.perm_append_left_iff (pops[to].map key)).1
          have a : (pops[to].map key ++ ((pops.set to p').flatten.map key ++ imm.map key)).Perm
              ((p'.map key ++ pops.flatten.map key) ++ imm.map key) := by
            rw [← List.append_assoc]; exact List.Perm.append_right _ h1
          have b : ((p'.map key ++ pops.flatten.map key) ++ imm.map key).Perm
              (pops.flatten.map key ++ (p'.map key ++ imm.map key)) := by
            rw [← List.append_assoc]
            exact List.Perm.append_right _ List.perm_append_comm
          have c : (pops.flatten.map key ++ (p'.map key ++ imm.map key)).Perm
              (pops.flatten.map key ++ (pops[to].map key ++
                (((emigrants[fr]?).getD []).take imm.length).map key)) := List.Perm.append_left _ h2
          have d : (pops.flatten.map key ++ (pops[to].map key ++
                (((emigrants[fr]?).getD []).take imm.length).map key)).Perm
              (pops[to].map key ++ (pops.flatten.map key ++
                (((emigrants[fr]?).getD []).take imm.length).map key)) := by
            rw [← List.append_assoc, ← List.append_assoc]
            exact List.Perm.append_right _ List.perm_append_comm
          exact a.trans (b.trans (c.trans d))
        simp only [leaving, arriving, List.flatMap_cons, himm, Option.getD_some]
        -- pops'.k ++ (imm.k ++ L) ~ pops.k ++ (emiT.k ++ A)
        have e1 : (pops'.flatten.map key ++ (imm.map key ++ leaving key immigrants rest)).Perm
            (imm.map key ++ (pops'.flatten.map key ++ leaving key immigrants rest)) := by
          rw [← List.append_assoc, ← List.append_assoc]
          exact List.Perm.append_right _ List.perm_append_comm
        have e2 := List.Perm.append_left (imm.map key) ih
        have e3 : (imm.map key ++ ((pops.set to p').flatten.map key ++ arriving key emigrants immigrants rest)).Perm
            (((pops.set to p').flatten.map key ++ imm.map key) ++ arriving key emigrants immigrants rest) := by
          rw [← List.append_assoc]
          exact List.Perm.append_right _ List.perm_append_comm
        have e4 := List.Perm.append_right (arriving key emigrants immigrants rest) step
        have e5 : ((pops.flatten.map key ++ (((emigrants[fr]?).getD []).take imm.length).map key) ++
              arriving key emigrants immigrants rest) =
            (pops.flatten.map key ++ ((((emigrants[fr]?).getD []).take imm.length).map key ++
              arriving key emigrants immigrants rest)) := List.append_assoc ..
        exact e1.trans (e2.trans (e3.trans (e4.trans (e5 ▸ List.Perm.refl _))))
    next => cases h


/-! ### `enumerate` and the default ring -/

theorem enumFrom'_fst : ∀ (i : Nat) (m : List Nat), (enumFrom' i m).map Prod.fst = List.range' i m.length
  | _, [] => rfl
  | i, x :: xs => by simp [enumFrom', enumFrom'_fst (i + 1) xs, List.range'_succ]

theorem enumFrom'_snd : ∀ (i : Nat) (m : List Nat), (enumFrom' i m).map Prod.snd = m
  | _, [] => rfl
  | i, x :: xs => by simp [enumFrom', enumFrom'_snd (i + 1) xs]

theorem mem_enumFrom' : ∀ (i : Nat) (m : List Nat) (p : Nat × Nat), p ∈ enumFrom' i m →
    p.1 < i + m.length ∧ p.2 ∈ m
  | _, [], p, h => by simp [enumFrom'] at h
  | i, x :: xs, p, h => by
    simp only [enumFrom', List.mem_cons] at h
    rcases h with rfl | h
    · simp
    · have := mem_enumFrom' (i + 1) xs p h
      simp only [List.length_cons, List.mem_cons]
      exact ⟨by omega, Or.inr this.2⟩

/-- The default migration array is a permutation of the deme indices (when there is a deme). -/
theorem defaultRing_perm (n : Nat) (hn : 0 < n) : (defaultRing n).Perm (List.range n) := by
  cases n with
  | zero => cases hn
  | succ n =>
    rw [defaultRing, List.range_succ_eq_map]
    simp

theorem flatMap_congr_mem {β γ : Type} (l : List β) (f g : β → List γ) (h : ∀ a ∈ l, f a = g a) :
    l.flatMap f = l.flatMap g := by
  rw [List.flatMap_def, List.flatMap_def, List.map_congr_left h]

omit [DecidableEq κ] in
/-- With no replacement strategy, emigrant lists of one common length and a migration array that is a permutation of
the deme indices, exactly the genomes that leave also arrive. -/
theorem leaving_perm_arriving (key : α → κ) (E : List (List α)) (m : List Nat)
    (hm : m.Perm (List.range E.length)) (hlen : ∀ a ∈ E, ∀ b ∈ E, a.length = b.length) :
    (leaving key E (enumFrom' 0 m)).Perm (arriving key E E (enumFrom' 0 m)) := by
  have hml : m.length = E.length := by simpa using hm.length_eq
  let G : Nat → List κ := fun i => ((E[i]?).getD []).map key
  have hL : leaving key E (enumFrom' 0 m) = m.flatMap G := by
    have := List.flatMap_map Prod.snd G (enumFrom' 0 m)
    rw [enumFrom'_snd] at this
    rw [this]; rfl
  have hA : arriving key E E (enumFrom' 0 m) = (List.range E.length).flatMap G := by
    have e1 : arriving key E E (enumFrom' 0 m) = (enumFrom' 0 m).flatMap (fun p => G p.1) := by
      apply flatMap_congr_mem
      intro p hp
      obtain ⟨h1, h2⟩ := mem_enumFrom' 0 m p hp
      have hfr : p.1 < E.length := by omega
      have hto : p.2 < E.length := List.mem_range.1 (hm.mem_iff.1 h2)
      have : (E[p.1]).length = (E[p.2]).length :=
        hlen _ (List.getElem_mem hfr) _ (List.getElem_mem hto)
      simp only [G, List.getElem?_eq_getElem hfr, List.getElem?_eq_getElem hto, Option.getD_some]
      rw [List.take_of_length_le (Nat.le_of_eq this)]
    have e2 := List.flatMap_map Prod.fst G (enumFrom' 0 m)
    rw [enumFrom'_fst, hml] at e2
    rw [e1, ← e2, List.range_eq_range']
  rw [hL, hA]
  exact List.Perm.flatMap_right G hm

end

end Migration
