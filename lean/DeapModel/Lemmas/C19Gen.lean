/-
C19 — helper lemmas of the TRANSLATOR TIE (`harness/props/c19_translate.py`, `GenEq/C19.lean.tmpl`): the shapes the
translator renders (`List.map` over `Gen01.zip3`) against those of the hand-written model `Core/Penalty.lean`
(`zip3With`).
-/
import DeapModel.Core.GenPreludeC01
import DeapModel.Core.Penalty

set_option linter.unusedSimpArgs false
set_option linter.unusedVariables false

namespace Gen19L

/-- the model's `zip3With g` is the generator expression `tuple(g(x, y, z) for x, y, z in zip(a, b, c))` -/
theorem zip3With_eq_map {α β γ δ : Type} (g : α → β → γ → δ) :
    ∀ (a : List α) (b : List β) (c : List γ),
      Penalty.zip3With g a b c = List.map (fun p => g p.1 p.2.1 p.2.2) (Gen01.zip3 a b c) := by
  intro a
  induction a with
  | nil => intro b c; simp [Penalty.zip3With, Gen01.zip3]
  | cons x xs ih =>
    intro b c
    cases b with
    | nil => simp [Penalty.zip3With, Gen01.zip3]
    | cons y ys =>
      cases c with
      | nil => simp [Penalty.zip3With, Gen01.zip3]
      | cons z zs => simp [Penalty.zip3With, Gen01.zip3, ih]

theorem int_len_ne (m n : Nat) : ((m : Int) ≠ (n : Int)) ↔ m ≠ n := by omega

end Gen19L
