/-
C04 lemmas, part 11: correctness of the 2-objective sweep `sweepB`: every fitness of `worst` is
raised by the fitnesses of `best` that are at least as good on the first two objectives.
-/
import DeapModel.Lemmas.C04LogOrder

set_option linter.unusedSectionVars false
set_option linter.unusedSimpArgs false
set_option linter.unusedVariables false

namespace C04L
open NDSort

variable {α : Type} [Field α] [LinearOrder α] [IsStrictOrderedRing α] [Inhabited α]

/-- weakly "comes before" on the first two objectives (descending) -/
def ge2w (a b : List α) : Prop := nth b 0 < nth a 0 ∨ (nth b 0 = nth a 0 ∧ nth b 1 ≤ nth a 1)

/-- the loop condition `h[:2] <= next_best[:2]` -/
theorem tupleLe_take2 (h b : List α) (hh : 2 ≤ h.length) (hb : 2 ≤ b.length) :
    Py.tupleLe (h.take 2) (b.take 2) = true ↔ ge2w b h := by
  obtain ⟨h0, h1, hr, rfl⟩ : ∃ h0 h1 hr, h = h0 :: h1 :: hr := by
    match h, hh with
    | a :: b :: r, _ => exact ⟨a, b, r, rfl⟩
  obtain ⟨b0, b1, br, rfl⟩ : ∃ b0 b1 br, b = b0 :: b1 :: br := by
    match b, hb with
    | a :: b :: r, _ => exact ⟨a, b, r, rfl⟩
  simp only [List.take_succ_cons, List.take_zero, Py.tupleLe, ge2w, nth_cons_zero, nth_cons_succ]
  by_cases e0 : h0 = b0
  · subst e0
    by_cases e1 : h1 = b1
    · subst e1; simp
    · simp [e1, lt_irrefl]
  · simp only [e0, ↓reduceIte, decide_eq_true_eq]
    constructor
    · intro hle; exact Or.inl (lt_of_le_of_ne hle e0)
    · intro hh
      rcases hh with hlt | hh
      · exact le_of_lt hlt
      · exact hh.1.elim

/-! ### inserting a consumed `best` fitness into the stairs -/

/-- `sweepBInsert` on the list of stair fitnesses, with the ranks given by `rk` -/
def bInsert (rk : List α → Nat) (Z : List (List α)) (nb : List α) : List (List α) :=
  match Z.findIdx? (fun f => rk f == rk nb) with
  | some i =>
    if nth nb 1 < nth (Z.getD i []) 1 then Z
    else (Z.eraseIdx i).take (swIdx (Z.eraseIdx i) nb) ++ nb :: (Z.eraseIdx i).drop (swIdx (Z.eraseIdx i) nb)
  | none => Z.take (swIdx Z nb) ++ nb :: Z.drop (swIdx Z nb)

theorem insertAt_map (Z : List (List α)) (i : Nat) (x : List α) :
    Py.insertAt (Z.map neg1) i (neg1 x) = (Z.take i ++ x :: Z.drop i).map neg1 := by
  simp [Py.insertAt, List.map_take, List.map_drop]

theorem sweepBInsert_eq (Z : List (List α)) (front : FrontDict α) (nb : List α) :
    sweepBInsert ⟨Z.map neg1, Z⟩ front nb =
      ⟨(bInsert (fun f => dget front 0 f) Z nb).map neg1, bInsert (fun f => dget front 0 f) Z nb⟩ := by
  simp only [sweepBInsert, bInsert]
  cases hfind : Z.findIdx? (fun f => dget front 0 f == dget front 0 nb) with
  | none =>
    simp only [↓reduceIte]
    have := insertAt_map Z (swIdx Z nb) nb
    simp only [neg1] at this ⊢
    simp only [swIdx, neg1] at this ⊢
    rw [this]; rfl
  | some i =>
    by_cases hlt : nth nb 1 < nth (Z.getD i []) 1
    · simp only [hlt, ↓reduceIte, Bool.false_eq_true]
    · simp only [hlt, ↓reduceIte]
      have e : (Z.map neg1).eraseIdx i = (Z.eraseIdx i).map neg1 := List.eraseIdx_map _ _ _
      rw [e]
      have := insertAt_map (Z.eraseIdx i) (swIdx (Z.eraseIdx i) nb) nb
      simp only [swIdx, neg1] at this ⊢
      rw [this]; rfl

/-- stairs invariant of `sweepB` after the fitnesses `C` of `best` have been consumed -/
structure BInv (rk : List α → Nat) (C Z : List (List α)) : Prop where
  sorted : Z.Pairwise (fun a b => nth b 1 ≤ nth a 1)
  sub : ∀ s ∈ Z, s ∈ C
  cover : ∀ g ∈ C, ∃ s ∈ Z, rk g ≤ rk s ∧ nth g 1 ≤ nth s 1

theorem sorted_insert (Z : List (List α)) (x : List α) (hs : Z.Pairwise (fun a b => nth b 1 ≤ nth a 1)) :
    (Z.take (swIdx Z x) ++ x :: Z.drop (swIdx Z x)).Pairwise (fun a b => nth b 1 ≤ nth a 1) := by
  obtain ⟨_, b2, b3⟩ := swIdx_spec Z x hs
  have hsZ := hs
  rw [← List.take_append_drop (swIdx Z x) Z, List.pairwise_append] at hsZ
  rw [List.pairwise_append, List.pairwise_cons]
  refine ⟨hsZ.1, ⟨fun b hb => le_of_lt (b3 b hb), hsZ.2.1⟩, ?_⟩
  intro a ha b hb
  rcases List.mem_cons.1 hb with rfl | hb
  · exact b2 a ha
  · exact hsZ.2.2 a ha b hb

theorem mem_insert (Z : List (List α)) (i : Nat) (x s : List α) :
    s ∈ Z.take i ++ x :: Z.drop i ↔ s = x ∨ s ∈ Z := by
  constructor
  · intro h
    rcases List.mem_append.1 h with h | h
    · exact Or.inr ((List.take_sublist _ _).subset h)
    · rcases List.mem_cons.1 h with h | h
      · exact Or.inl h
      · exact Or.inr ((List.drop_sublist _ _).subset h)
  · rintro (rfl | h)
    · simp
    · rw [← List.take_append_drop i Z] at h
      rcases List.mem_append.1 h with h | h
      · exact List.mem_append_left _ h
      · exact List.mem_append_right _ (List.mem_cons_of_mem _ h)

theorem bInv_insert (rk : List α → Nat) (C Z : List (List α)) (nb : List α) (inv : BInv rk C Z) :
    BInv rk (C ++ [nb]) (bInsert rk Z nb) := by
  unfold bInsert
  cases hfind : Z.findIdx? (fun f => rk f == rk nb) with
  | none =>
    simp only []
    refine ⟨sorted_insert Z nb inv.sorted, ?_, ?_⟩
    · intro s hs
      rcases (mem_insert Z _ nb s).1 hs with rfl | h
      · simp
      · exact List.mem_append_left _ (inv.sub s h)
    · intro g hg
      rcases List.mem_append.1 hg with hg | hg
      · obtain ⟨s, hs, c1, c2⟩ := inv.cover g hg
        exact ⟨s, (mem_insert Z _ nb s).2 (Or.inr hs), c1, c2⟩
      · simp only [List.mem_singleton] at hg; subst hg
        exact ⟨g, (mem_insert Z _ g g).2 (Or.inl rfl), le_refl _, le_refl _⟩
  | some i =>
    obtain ⟨hil, hp, _⟩ := List.findIdx?_eq_some_iff_getElem.1 hfind
    have hget : Z.getD i [] = Z[i] := by simp [List.getD_eq_getElem?_getD, hil]
    have hrk : rk Z[i] = rk nb := by simpa using hp
    simp only [hget]
    by_cases hlt : nth nb 1 < nth Z[i] 1
    · rw [if_pos hlt]
      refine ⟨inv.sorted, fun s hs => List.mem_append_left _ (inv.sub s hs), ?_⟩
      intro g hg
      rcases List.mem_append.1 hg with hg | hg
      · exact inv.cover g hg
      · simp only [List.mem_singleton] at hg; subst hg
        exact ⟨Z[i], List.getElem_mem hil, by rw [hrk], le_of_lt hlt⟩
    · rw [if_neg hlt]
      have hsub : (Z.eraseIdx i).Sublist Z := List.eraseIdx_sublist _ _
      refine ⟨sorted_insert _ nb (inv.sorted.sublist hsub), ?_, ?_⟩
      · intro s hs
        rcases (mem_insert _ _ nb s).1 hs with rfl | h
        · simp
        · exact List.mem_append_left _ (inv.sub s (hsub.subset h))
      · intro g hg
        rcases List.mem_append.1 hg with hg | hg
        · obtain ⟨s, hs, c1, c2⟩ := inv.cover g hg
          by_cases hin : s ∈ Z.eraseIdx i
          · exact ⟨s, (mem_insert _ _ nb s).2 (Or.inr hin), c1, c2⟩
          · -- the removed stair: the new one covers what it covered
            have hsi : s = Z[i] := by
              obtain ⟨j, hj, rfl⟩ := List.mem_iff_getElem.1 hs
              by_cases e : j = i
              · subst e; rfl
              · exact absurd (List.mem_eraseIdx_iff_getElem.2 ⟨j, hj, e, rfl⟩) hin
            refine ⟨nb, (mem_insert _ _ nb nb).2 (Or.inl rfl), ?_, ?_⟩
            · rw [← hrk, ← hsi]; exact c1
            · rw [hsi] at c2; exact le_trans c2 (not_lt.1 hlt)
        · simp only [List.mem_singleton] at hg; subst hg
          exact ⟨g, (mem_insert _ _ g g).2 (Or.inl rfl), le_refl _, le_refl _⟩

theorem findIdx?_congr' {γ : Type} (p q : γ → Bool) : ∀ (l : List γ), (∀ x ∈ l, p x = q x) →
    l.findIdx? p = l.findIdx? q
  | [], _ => rfl
  | a :: l, h => by
    rw [List.findIdx?_cons, List.findIdx?_cons, h a (by simp),
      findIdx?_congr' p q l (fun x hx => h x (by simp [hx]))]

theorem bInsert_congr (rk rk' : List α → Nat) (Z : List (List α)) (nb : List α)
    (h : ∀ f, f = nb ∨ f ∈ Z → rk' f = rk f) : bInsert rk' Z nb = bInsert rk Z nb := by
  unfold bInsert
  have : Z.findIdx? (fun f => rk' f == rk' nb) = Z.findIdx? (fun f => rk f == rk nb) := by
    apply findIdx?_congr'
    intro f hf
    rw [h f (Or.inr hf), h nb (Or.inl rfl)]
  rw [this]

/-! ### the `while` loop: consuming `best` -/

/-- `sweepBWhile` on the list of stair fitnesses -/
def bWhile (rk : List α → Nat) (h : List α) : List (List α) → List (List α) → List (List α) × List (List α)
  | [], Z => (Z, [])
  | nb :: rest, Z =>
    if Py.tupleLe (h.take 2) (nb.take 2) then bWhile rk h rest (bInsert rk Z nb) else (Z, nb :: rest)

theorem sweepBWhile_eq (h : List α) (front : FrontDict α) : ∀ (bs Z : List (List α)),
    sweepBWhile h front bs ⟨Z.map neg1, Z⟩ =
      (⟨(bWhile (fun f => dget front 0 f) h bs Z).1.map neg1, (bWhile (fun f => dget front 0 f) h bs Z).1⟩,
        (bWhile (fun f => dget front 0 f) h bs Z).2)
  | [], Z => rfl
  | nb :: rest, Z => by
    simp only [sweepBWhile, bWhile]
    split
    · rw [sweepBInsert_eq, sweepBWhile_eq h front rest]
    · rfl

/-- what the `while` loop does: it consumes a prefix `C'` of the remaining `best` whose members all
satisfy the loop condition; the first unconsumed one (if any) does not -/
theorem bWhile_spec (rk : List α → Nat) (h : List α) : ∀ (bs C Z : List (List α)), BInv rk C Z →
    ∃ C', bs = C' ++ (bWhile rk h bs Z).2 ∧ BInv rk (C ++ C') (bWhile rk h bs Z).1 ∧
      (∀ b ∈ C', Py.tupleLe (h.take 2) (b.take 2) = true) ∧
      (∀ b, (bWhile rk h bs Z).2.head? = some b → Py.tupleLe (h.take 2) (b.take 2) = false)
  | [], C, Z, inv => ⟨[], by simp [bWhile], by simpa [bWhile] using inv, by simp, by simp [bWhile]⟩
  | nb :: rest, C, Z, inv => by
    simp only [bWhile]
    by_cases hc : Py.tupleLe (h.take 2) (nb.take 2) = true
    · rw [if_pos hc]
      obtain ⟨C', e1, e2, e3, e4⟩ := bWhile_spec rk h rest (C ++ [nb]) _ (bInv_insert rk C Z nb inv)
      refine ⟨nb :: C', by rw [List.cons_append, ← e1], by simpa [List.append_assoc] using e2, ?_, e4⟩
      intro b hb
      rcases List.mem_cons.1 hb with rfl | hb
      · exact hc
      · exact e3 b hb
    · rw [if_neg hc]
      refine ⟨[], by simp, by simpa using inv, by simp, ?_⟩
      intro b hb
      simp only [List.head?_cons, Option.some.injEq] at hb
      subst hb; simpa using hc

theorem bWhile_congr (rk rk' : List α → Nat) (h : List α) : ∀ (bs Z : List (List α)),
    (∀ f, f ∈ bs ∨ f ∈ Z → rk' f = rk f) → bWhile rk' h bs Z = bWhile rk h bs Z
  | [], Z, _ => rfl
  | nb :: rest, Z, hk => by
    simp only [bWhile]
    have e : bInsert rk' Z nb = bInsert rk Z nb :=
      bInsert_congr rk rk' Z nb (fun f hf => hk f (by rcases hf with rfl | hf <;> simp [*]))
    rw [e]
    split
    · apply bWhile_congr
      intro f hf
      rcases hf with hf | hf
      · exact hk f (Or.inl (List.mem_cons_of_mem _ hf))
      · -- members of the new stairs are `nb` or old stairs
        have : f = nb ∨ f ∈ Z := by
          unfold bInsert at hf
          split at hf
          · split at hf
            · exact Or.inr hf
            · rcases (mem_insert _ _ nb f).1 hf with h | h
              · exact Or.inl h
              · exact Or.inr ((List.eraseIdx_sublist _ _).subset h)
          · rcases (mem_insert _ _ nb f).1 hf with h | h
            · exact Or.inl h
            · exact Or.inr h
        rcases this with rfl | h
        · exact hk f (Or.inl (by simp))
        · exact hk f (Or.inr h)
    · rfl

/-! ### the loop over `worst` -/

/-- one iteration of the `for h in worst` loop of `sweepB` -/
def bStep (st : (Stairs α × List (List α)) × FrontDict α) (h : List α) :
    (Stairs α × List (List α)) × FrontDict α :=
  let ((s, bs), front) := st
  let (s, bs) := sweepBWhile h front bs s
  let idx := bisectRight s.stairs (-(nth h 1))
  let front :=
    if 0 < idx ∧ idx ≤ s.stairs.length then
      match pyMaxBy (fun f => dget front 0 f) (s.fstairs.take idx) with
      | some fstair => bump front h fstair
      | none => front
    else front
  ((s, bs), front)

theorem sweepB_eq_foldl (best worst : List (List α)) (front : FrontDict α) :
    sweepB best worst front = (worst.foldl bStep (({ stairs := [], fstairs := [] }, best), front)).2 := rfl

theorem bStep_eq (Z bs : List (List α)) (front : FrontDict α) (h : List α) :
    bStep ((⟨Z.map neg1, Z⟩, bs), front) h =
      ((⟨(bWhile (fun f => dget front 0 f) h bs Z).1.map neg1, (bWhile (fun f => dget front 0 f) h bs Z).1⟩,
        (bWhile (fun f => dget front 0 f) h bs Z).2),
       swFront (bWhile (fun f => dget front 0 f) h bs Z).1 front h) := by
  simp only [bStep, sweepBWhile_eq]
  rfl

theorem BInv.congr {rk rk' : List α → Nat} {C Z : List (List α)} (inv : BInv rk C Z)
    (h : ∀ g ∈ C, rk' g = rk g) : BInv rk' C Z :=
  ⟨inv.sorted, inv.sub, fun g hg => by
    obtain ⟨s, hs, c1, c2⟩ := inv.cover g hg
    exact ⟨s, hs, by rw [h g hg, h s (inv.sub s hs)]; exact c1, c2⟩⟩

/-- invariant of the loop over `worst`: `Pw` processed, `ws` still to come, `best = C ++ bs` with
`C` consumed into the stairs `Z` -/
structure OInv (front0 : FrontDict α) (best Pw ws C Z bs : List (List α)) (front : FrontDict α) : Prop where
  split : best = C ++ bs
  binv : BInv (fun f => dget front 0 f) C Z
  k6 : ∀ b ∈ C, ∀ h' ∈ ws, nth h' 0 ≤ nth b 0
  ranks : ∀ w ∈ Pw, ∀ n, dget front 0 w ≤ n ↔
    dget front0 0 w ≤ n ∧ ∀ b ∈ best, geOn 2 b w → dget front0 0 b + 1 ≤ n
  frame : ∀ f, f ∉ Pw → dget front 0 f = dget front0 0 f

theorem oInv_step (front0 : FrontDict α) (best Pw ws C Z bs : List (List α)) (front : FrontDict α) (h : List α)
    (hbest : best.Pairwise ge2w) (hlenb : ∀ b ∈ best, 2 ≤ b.length) (hlenh : 2 ≤ h.length)
    (hhb : h ∉ best) (hhP : h ∉ Pw) (hPb : ∀ b ∈ best, b ∉ Pw) (hws : ∀ h' ∈ ws, ge2w h h')
    (inv : OInv front0 best Pw (h :: ws) C Z bs front) :
    ∃ C', OInv front0 best (Pw ++ [h]) ws (C ++ C') (bWhile (fun f => dget front 0 f) h bs Z).1
      (bWhile (fun f => dget front 0 f) h bs Z).2
      (swFront (bWhile (fun f => dget front 0 f) h bs Z).1 front h) := by
  obtain ⟨C', e1, e2, e3, e4⟩ := bWhile_spec (fun f => dget front 0 f) h bs C Z inv.binv
  set Z'' := (bWhile (fun f => dget front 0 f) h bs Z).1 with hZ''
  set bs' := (bWhile (fun f => dget front 0 f) h bs Z).2 with hbs'
  have hsplit : best = (C ++ C') ++ bs' := by rw [inv.split, e1, List.append_assoc]
  have hCsub : ∀ b ∈ C ++ C', b ∈ best := fun b hb => by rw [hsplit]; exact List.mem_append_left _ hb
  have hne : ∀ b ∈ best, b ≠ h := fun b hb e => hhb (e ▸ hb)
  have hR : ∀ f, f ≠ h → dget (swFront Z'' front h) 0 f = dget front 0 f := fun f hf => swFront_ne Z'' front h f hf
  obtain ⟨b1, b2, b3⟩ := swIdx_spec Z'' h e2.sorted
  -- the consumed fitnesses are at least as good as `h` on the first objective
  have hk6 : ∀ b ∈ C ++ C', nth h 0 ≤ nth b 0 := by
    intro b hb
    rcases List.mem_append.1 hb with hb | hb
    · exact inv.k6 b hb h (by simp)
    · have := (tupleLe_take2 h b hlenh (hlenb b (hCsub b (List.mem_append_right _ hb)))).1 (e3 b hb)
      rcases this with hlt | ⟨he, _⟩
      · exact le_of_lt hlt
      · exact le_of_eq he
  -- the unconsumed ones are not
  have hrest : ∀ b ∈ bs', ¬ geOn 2 b h := by
    intro b hb hge
    rw [geOn_two] at hge
    cases hbs'' : bs' with
    | nil => rw [hbs''] at hb; simp at hb
    | cons b0 rest =>
      have hb0 : Py.tupleLe (h.take 2) (b0.take 2) = false := e4 b0 (by rw [hbs'']; rfl)
      have hb0best : b0 ∈ best := by rw [hsplit, hbs'']; simp
      have hnot : ¬ ge2w b0 h := by
        intro hc
        rw [(tupleLe_take2 h b0 hlenh (hlenb b0 hb0best)).2 hc] at hb0; exact Bool.noConfusion hb0
      have hb0b : b = b0 ∨ ge2w b0 b := by
        rw [hbs''] at hb
        rcases List.mem_cons.1 hb with rfl | hb
        · exact Or.inl rfl
        · right
          rw [hsplit, hbs''] at hbest
          exact (List.pairwise_cons.1 (List.pairwise_append.1 hbest).2.1).1 b hb
      apply hnot
      rcases hb0b with rfl | hg
      · rcases lt_or_eq_of_le hge.1 with h1 | h1
        · exact Or.inl h1
        · exact Or.inr ⟨h1, hge.2⟩
      · rcases hg with h1 | ⟨h1, h2⟩
        · exact Or.inl (lt_of_le_of_lt hge.1 h1)
        · rcases lt_or_eq_of_le hge.1 with h3 | h3
          · exact Or.inl (by rw [← h1]; exact h3)
          · exact Or.inr ⟨by rw [← h1]; exact h3, le_trans hge.2 h2⟩
  refine ⟨C', hsplit, ?_, ?_, ?_, ?_⟩
  · exact e2.congr (fun g hg => hR g (hne g (hCsub g hg)))
  · intro b hb h' hh'
    have hh'h : nth h' 0 ≤ nth h 0 := by
      rcases hws h' hh' with hlt | ⟨he, _⟩
      · exact le_of_lt hlt
      · exact le_of_eq he
    exact le_trans hh'h (hk6 b hb)
  · intro w hw n
    rcases List.mem_append.1 hw with hw | hw
    · have : w ≠ h := fun e => hhP (e ▸ hw)
      rw [hR w this]; exact inv.ranks w hw n
    · simp only [List.mem_singleton] at hw; subst hw
      rw [swFront_fit Z'' front w b1 n, inv.frame w hhP]
      have hfb : ∀ b ∈ best, dget front 0 b = dget front0 0 b := fun b hb => inv.frame b (hPb b hb)
      constructor
      · rintro ⟨h1, h2⟩
        refine ⟨h1, ?_⟩
        intro b hb hge
        have hbC : b ∈ C ++ C' := by
          rw [hsplit] at hb
          rcases List.mem_append.1 hb with hh | hh
          · exact hh
          · exact absurd hge (hrest b hh)
        obtain ⟨s, hs, c1, c2⟩ := e2.cover b hbC
        have hsT : s ∈ Z''.take (swIdx Z'' w) := by
          rw [← List.take_append_drop (swIdx Z'' w) Z''] at hs
          rcases List.mem_append.1 hs with hh | hh
          · exact hh
          · exact absurd (b3 s hh) (not_lt.2 (le_trans ((geOn_two b w).1 hge).2 c2))
        have := h2 s hsT
        rw [← hfb b hb]
        omega
      · rintro ⟨h1, h2⟩
        refine ⟨h1, fun s hs => ?_⟩
        have hsZ : s ∈ Z'' := (List.take_sublist _ _).subset hs
        have hsC := e2.sub s hsZ
        have hsb := hCsub s hsC
        have := h2 s hsb ((geOn_two s w).2 ⟨hk6 s hsC, b2 s hs⟩)
        rw [hfb s hsb]; exact this
  · intro f hf
    have hfP : f ∉ Pw := fun hh => hf (List.mem_append_left _ hh)
    have hne' : f ≠ h := fun e => hf (by simp [e])
    rw [hR f hne']; exact inv.frame f hfP

theorem sweepB_fold (front0 : FrontDict α) (best worst : List (List α))
    (hbest : best.Pairwise ge2w) (hlenb : ∀ b ∈ best, 2 ≤ b.length) (hlenw : ∀ w ∈ worst, 2 ≤ w.length)
    (hdisj : ∀ b ∈ best, b ∉ worst) :
    ∀ (ws Pw C Z bs : List (List α)) (front : FrontDict α), Pw ++ ws = worst → ws.Pairwise ge2w →
      (Pw ++ ws).Nodup → OInv front0 best Pw ws C Z bs front →
      (∀ f, f ∉ worst → dget (ws.foldl bStep ((⟨Z.map neg1, Z⟩, bs), front)).2 0 f = dget front0 0 f) ∧
      ∀ w ∈ worst, ∀ n, dget (ws.foldl bStep ((⟨Z.map neg1, Z⟩, bs), front)).2 0 w ≤ n ↔
        dget front0 0 w ≤ n ∧ ∀ b ∈ best, geOn 2 b w → dget front0 0 b + 1 ≤ n
  | [], Pw, C, Z, bs, front, hw, _, _, inv => by
    simp only [List.append_nil] at hw; subst hw
    exact ⟨inv.frame, inv.ranks⟩
  | h :: ws, Pw, C, Z, bs, front, hw, hsorted, hnd, inv => by
    have hhw : h ∈ worst := by rw [← hw]; simp
    have hhb : h ∉ best := fun hb => hdisj h hb hhw
    have hhP : h ∉ Pw := by
      intro hc
      exact (List.nodup_append.1 hnd).2.2 h hc h (by simp) rfl
    have hPb : ∀ b ∈ best, b ∉ Pw := fun b hb hc => hdisj b hb (by rw [← hw]; exact List.mem_append_left _ hc)
    obtain ⟨C', inv'⟩ := oInv_step front0 best Pw ws C Z bs front h hbest hlenb (hlenw h hhw) hhb hhP hPb
      (List.pairwise_cons.1 hsorted).1 inv
    simp only [List.foldl_cons]
    rw [bStep_eq]
    exact sweepB_fold front0 best worst hbest hlenb hlenw hdisj ws (Pw ++ [h]) (C ++ C') _ _ _
      (by rw [← hw]; simp) (List.pairwise_cons.1 hsorted).2 (by simpa using hnd) inv'

/-- **`sweepB` is correct.**  `best` and `worst` weakly descending on the first two objectives,
disjoint, `worst` without repetition: every fitness of `worst` gets
`max(old rank, 1 + max rank of the fitnesses of best that are at least as good on objectives 0, 1)`,
nothing else changes. -/
theorem sweepB_spec (best worst : List (List α)) (front0 : FrontDict α)
    (hbest : best.Pairwise ge2w) (hworst : worst.Pairwise ge2w) (hnd : worst.Nodup)
    (hlenb : ∀ b ∈ best, 2 ≤ b.length) (hlenw : ∀ w ∈ worst, 2 ≤ w.length)
    (hdisj : ∀ b ∈ best, b ∉ worst) :
    (∀ f, f ∉ worst → dget (sweepB best worst front0) 0 f = dget front0 0 f) ∧
    ∀ w ∈ worst, ∀ n, dget (sweepB best worst front0) 0 w ≤ n ↔
      dget front0 0 w ≤ n ∧ ∀ b ∈ best, geOn 2 b w → dget front0 0 b + 1 ≤ n := by
  rw [sweepB_eq_foldl]
  have inv0 : OInv front0 best [] worst [] [] best front0 :=
    ⟨rfl, ⟨by simp, by simp, by simp⟩, by simp, by simp, fun f _ => rfl⟩
  exact sweepB_fold front0 best worst hbest hlenb hlenw hdisj worst [] [] [] best front0 rfl hworst
    (by simpa using hnd) inv0

end C04L
