import DeapModel.Lemmas.C15SweepRun
import DeapModel.Lemmas.C15Stair
/-!
C15 — the transcribed algorithm computes the specification in one and two dimensions
(`sweep_1d`, `sweep_2d`): `preProcess` + the base cases `dimIndex == 0` / `== 1` of `hvRecursive`.
-/
namespace HvSweep
open Hypervolume
set_option linter.unusedVariables false

/-! ### cargo of node `k + 1` = translated point `k` -/

theorem getD_zipWith_sub (p r : List ℚ) (j : ℕ) (hp : j < p.length) (hr : j < r.length) :
    (List.zipWith (· - ·) p r).getD j 0 = p.getD j 0 - r.getD j 0 := by
  simp only [List.getD_eq_getElem?_getD, List.getElem?_zipWith, List.getElem?_eq_getElem hp,
    List.getElem?_eq_getElem hr, Option.getD_some]

theorem cg_translate (front : List (List ℚ)) (ref : List ℚ) (k j : ℕ) (hk : k < front.length)
    (hp : j < (front.getD k []).length) (hr : j < ref.length) :
    cg ([] :: translate front ref) (k + 1) j = (front.getD k []).getD j 0 - ref.getD j 0 := by
  unfold cg tget translate
  rw [List.getD_cons_succ]
  split
  · have : (front.map (fun p => List.zipWith (· - ·) p ref)).getD k [] = List.zipWith (· - ·) (front.getD k []) ref := by
      simp only [List.getD_eq_getElem?_getD, List.getElem?_map, List.getElem?_eq_getElem hk, Option.map_some,
        Option.getD_some]
    rw [this, getD_zipWith_sub _ _ _ hp hr]
  · rename_i h
    have h0 : ∀ x ∈ ref, x = 0 := by
      intro x hx
      have hany : ref.any (fun r => decide (r ≠ 0)) = false := by simpa using h
      have := List.any_eq_false.mp hany x hx
      simpa using this
    have : ref.getD j 0 = 0 := by
      rw [List.getD_eq_getElem?_getD, List.getElem?_eq_getElem hr]
      exact h0 _ (List.getElem_mem hr)
    rw [this, sub_zero]

/-! ### sortedness of the lists built by `preProcess` -/

theorem sortByDimension_sorted (C : Cargo) (nodes : List ℕ) (i : ℕ) :
    (sortByDimension C nodes i).Pairwise (fun a b => cg C a i ≤ cg C b i) := by
  have := List.pairwise_mergeSort (le := fun a b => decide (cg C a i ≤ cg C b i))
    (fun a b c h1 h2 => by simp only [decide_eq_true_eq] at *; exact le_trans h1 h2)
    (fun a b => by
      rcases le_total (cg C a i) (cg C b i) with h | h <;> simp [h]) nodes
  exact this.imp (fun h => by simpa using h)

theorem range_map_getD {α : Type} (l : List α) (d : α) : (List.range l.length).map (fun k => l.getD k d) = l := by
  apply List.ext_getElem
  · simp
  · intro k h1 h2
    simp [List.getD_eq_getElem?_getD, List.getElem?_eq_getElem h2]

theorem ids_map {α : Type} (l : List α) (d : α) : (ids l.length).map (fun a => l.getD (a - 1) d) = l := by
  unfold ids
  rw [List.map_map]
  have : ((fun a => l.getD (a - 1) d) ∘ fun x => x + 1) = fun k => l.getD k d := by
    funext k; simp
  rw [this, range_map_getD]

/-! ### one dimension -/

theorem foldr_min_eq_of_le (r m : ℚ) : ∀ (xs : List ℚ), m ∈ xs → (∀ x ∈ xs, m ≤ x) → m ≤ r → xs.foldr min r = m
  | [], h, _, _ => by simp at h
  | a :: xs, h, hle, hr => by
    rw [List.foldr_cons]
    rcases List.mem_cons.mp h with rfl | h
    · apply min_eq_left
      -- m ≤ foldr min r xs
      have : ∀ (l : List ℚ), (∀ x ∈ l, m ≤ x) → m ≤ l.foldr min r := by
        intro l hl
        induction l with
        | nil => exact hr
        | cons b l ih => exact le_min (hl b (by simp)) (ih (fun x hx => hl x (by simp [hx])))
      exact this xs (fun x hx => hle x (by simp [hx]))
    · rw [foldr_min_eq_of_le r m xs h (fun x hx => hle x (by simp [hx])) hr]
      exact min_eq_right (hle a (by simp))

/-- **`sweep_1d`**: for points of dimension 1 at or below the reference, the transcribed algorithm
(`preProcess`, then `hvRecursive(0, n, bounds)`) returns the specification `hvCells`. -/
theorem sweep_1d' (r : ℚ) (xs : List ℚ) (hle : ∀ x ∈ xs, x ≤ r) :
    compute (xs.map (fun x => [x])) [r] = some (hvCells [r] (xs.map (fun x => [x]))) := by
  unfold compute computeSt
  simp only [List.length_map, List.length_cons, List.length_nil, Nat.zero_add, Nat.sub_self]
  set C : Cargo := [] :: translate (xs.map (fun x => [x])) [r] with hC
  simp only [hvRecursive]
  have hv1 : hvCells [r] (xs.map (fun x => [x])) = r - xs.foldr min r := by
    rw [hvCells_1d, List.map_map]
    have : ((fun p : Pt => p.headD 0) ∘ fun a : ℚ => [a]) = id := by funext a; rfl
    rw [this, List.map_id]
  by_cases hn : xs.length = 0
  · have : xs = [] := List.length_eq_zero_iff.mp hn
    subst this
    simp [hvCells_nil_pts]
  · rw [if_neg hn]
    simp only [Option.map_some, Option.some.injEq]
    obtain ⟨hS, hD⟩ := preProcess_spec C 1 xs.length
    have hdl := hD 0 (sortByDimension C (ids xs.length) 0) (by simp [cum, List.range_succ])
    set L := sortByDimension C (ids xs.length) 0 with hL
    have hperm : L.Perm (ids xs.length) := sortByDimension_perm C _ 0
    have hsorted := sortByDimension_sorted C (ids xs.length) 0
    rw [← hL] at hsorted
    have hcg : ∀ a ∈ L, cg C a 0 = xs.getD (a - 1) 0 - r := by
      intro a ha
      have har := (mem_ids _ a).mp (hperm.mem_iff.mp ha)
      have h1 : a - 1 < xs.length := by omega
      have := cg_translate (xs.map (fun x => [x])) [r] (a - 1) 0 (by simpa using h1)
        (by simp [List.getD_eq_getElem?_getD, List.getElem?_eq_getElem h1]) (by simp)
      rw [show a - 1 + 1 = a by omega] at this
      rw [hC, this]
      simp [List.getD_eq_getElem?_getD, List.getElem?_eq_getElem h1]
    cases hLc : L with
    | nil =>
      have := hperm.length_eq
      rw [hLc] at this
      simp [ids] at this
      exact absurd this.symm hn
    | cons a l =>
      rw [hLc] at hdl hsorted hcg
      have hnx : nx (preProcess C 1 xs.length) 0 0 = a := hdl.1.1.1
      rw [nx_tick, hnx, hcg a (by simp), hv1]
      have ha : a ∈ ids xs.length := hperm.mem_iff.mp (by rw [hLc]; simp)
      have har := (mem_ids _ a).mp ha
      have h1 : a - 1 < xs.length := by omega
      have hmem : xs.getD (a - 1) 0 ∈ xs := by
        rw [List.getD_eq_getElem?_getD, List.getElem?_eq_getElem h1]; exact List.getElem_mem h1
      have hmin : ∀ x ∈ xs, xs.getD (a - 1) 0 ≤ x := by
        intro x hx
        -- x is the value of some node b of L
        obtain ⟨k, hk, rfl⟩ := List.getElem_of_mem hx
        have hb : k + 1 ∈ a :: l := by
          rw [← hLc]; exact hperm.mem_iff.mpr ((mem_ids _ _).mpr ⟨by omega, by omega⟩)
        have hbx : cg C (k + 1) 0 = xs[k] - r := by
          rw [hcg (k + 1) hb]; simp [List.getD_eq_getElem?_getD, List.getElem?_eq_getElem hk]
        rcases List.mem_cons.mp hb with h | h
        · rw [← h]; simp [List.getD_eq_getElem?_getD, List.getElem?_eq_getElem hk]
        · have := (List.pairwise_cons.mp hsorted).1 (k + 1) h
          rw [hcg a (by simp), hbx] at this
          linarith
      rw [foldr_min_eq_of_le r _ xs hmem hmin (hle _ hmem)]
      ring

/-! ### two dimensions -/

theorem stairNodes_XY (C : Cargo) (r₁ r₂ : ℚ) (XY : ℕ → ℚ × ℚ) : ∀ (l : List ℕ) (q : ℕ) (h hvol : ℚ),
    (∀ k ∈ q :: l, cg C k 0 = (XY k).1 - r₁ ∧ cg C k 1 = (XY k).2 - r₂) →
    (stairNodes C l q h hvol).1 + (stairNodes C l q h hvol).2.1 * cg C (stairNodes C l q h hvol).2.2 1
      = stairXY r₁ r₂ (l.map XY) (XY q).2 h hvol
  | [], q, h, hvol, hc => by
    simp only [stairNodes, List.map_nil, stairXY]
    rw [(hc q (by simp)).2]
  | p :: l, q, h, hvol, hc => by
    have hq := hc q (by simp)
    have hp := hc p (by simp)
    have ih := fun h' hvol' => stairNodes_XY C r₁ r₂ XY l p h' hvol' (fun k hk => hc k (by
      rcases List.mem_cons.mp hk with rfl | hk
      · simp
      · simp [hk]))
    simp only [stairNodes, List.map_cons, stairXY]
    rw [hp.1, hq.2, hp.2]
    by_cases hlt : (XY p).1 - r₁ < h
    · rw [if_pos hlt, if_pos hlt]
      have := ih ((XY p).1 - r₁) (hvol + h * ((XY q).2 - r₂ - ((XY p).2 - r₂)))
      rw [hp.1] at *
      exact this
    · rw [if_neg hlt, if_neg hlt]
      exact ih h _

/-- **`sweep_2d`**: for points of dimension 2 at or below the reference, the transcribed algorithm
(`preProcess`, then the staircase loop of `hvRecursive(1, n, bounds)`) returns the specification. -/
theorem sweep_2d' (r₁ r₂ : ℚ) (pts : List (ℚ × ℚ)) (hle : ∀ p ∈ pts, p.1 ≤ r₁ ∧ p.2 ≤ r₂) :
    compute (pts.map toPt) [r₁, r₂] = some (hvCells [r₁, r₂] (pts.map toPt)) := by
  unfold compute computeSt
  simp only [List.length_map, List.length_cons, List.length_nil, Nat.zero_add, Nat.add_one_sub_one]
  set C : Cargo := [] :: translate (pts.map toPt) [r₁, r₂] with hC
  set n := pts.length with hn
  simp only [hvRecursive]
  by_cases hn0 : n = 0
  · have : pts = [] := List.length_eq_zero_iff.mp hn0
    subst this
    rw [if_pos hn0]
    simp [hvCells_nil_pts]
  · rw [if_neg hn0]
    obtain ⟨hS, hD⟩ := preProcess_spec C 2 n
    set L0 := sortByDimension C (ids n) 0 with hL0
    set L := sortByDimension C L0 1 with hL
    have hdl := hD 1 L (by simp [cum, List.range_succ, ← hL0, ← hL])
    have hperm : L.Perm (ids n) := (sortByDimension_perm C L0 1).trans (sortByDimension_perm C _ 0)
    have hsorted : L.Pairwise (fun a b => cg C a 1 ≤ cg C b 1) := sortByDimension_sorted C L0 1
    let XY : ℕ → ℚ × ℚ := fun a => pts.getD (a - 1) (0, 0)
    have hXYmem : ∀ a ∈ L, XY a ∈ pts := by
      intro a ha
      have har := (mem_ids _ a).mp (hperm.mem_iff.mp ha)
      have h1 : a - 1 < pts.length := by omega
      show pts.getD (a - 1) (0, 0) ∈ pts
      rw [List.getD_eq_getElem?_getD, List.getElem?_eq_getElem h1]; exact List.getElem_mem h1
    have hcg : ∀ a ∈ L, cg C a 0 = (XY a).1 - r₁ ∧ cg C a 1 = (XY a).2 - r₂ := by
      intro a ha
      have har := (mem_ids _ a).mp (hperm.mem_iff.mp ha)
      have h1 : a - 1 < pts.length := by omega
      have hpt : (pts.map toPt).getD (a - 1) [] = toPt (XY a) := by
        show _ = toPt (pts.getD (a - 1) (0, 0))
        simp [List.getD_eq_getElem?_getD, List.getElem?_eq_getElem h1]
      have e0 := cg_translate (pts.map toPt) [r₁, r₂] (a - 1) 0 (by simpa using h1) (by rw [hpt]; simp [toPt]) (by simp)
      have e1 := cg_translate (pts.map toPt) [r₁, r₂] (a - 1) 1 (by simpa using h1) (by rw [hpt]; simp [toPt]) (by simp)
      rw [show a - 1 + 1 = a by omega, hpt] at e0 e1
      exact ⟨by rw [hC, e0]; simp [toPt], by rw [hC, e1]; simp [toPt]⟩
    have hmapXY : (L.map XY).Perm pts := by
      have := (hperm.map XY)
      rw [show (ids n).map XY = pts from ids_map pts (0, 0)] at this
      exact this
    cases hLc : L with
    | nil =>
      have := hperm.length_eq
      rw [hLc] at this
      simp [ids] at this
      exact absurd this.symm hn0
    | cons a l =>
      rw [hLc] at hdl hsorted hcg hXYmem hmapXY
      set S := tick (preProcess C 2 n) 1 with hSt
      have hnx0 : nx S 1 0 = a := hdl.1.1.1
      have hseg : Seg S 1 a l 0 := seg_congr (S := preProcess C 2 n) (T := S) (fun _ => ⟨rfl, rfl⟩) l a 0 hdl.1.2
      have hne : ∀ p ∈ l, p ≠ 0 := by
        intro p hp h0
        have := (hdl.2.2 p (by simp [hp])).1
        omega
      have hlen : l.length ≤ n + 1 := by
        have := hperm.length_eq
        rw [hLc] at this
        simp [ids] at this
        omega
      obtain ⟨S', hrun, _⟩ := loop2d_eq C l (n + 1) a (cg C a 0) 0 S hlen hseg hne
      rw [hnx0, hrun]
      simp only [Option.map_some, Option.some.injEq]
      rw [stairNodes_XY C r₁ r₂ XY l a (cg C a 0) 0 hcg, (hcg a (by simp)).1]
      have hst := stairXY_eq_hvCells r₁ r₂ (XY a) (l.map XY)
        (by
          have : ((a :: l).map XY).Pairwise (fun p q => p.2 ≤ q.2) := by
            rw [List.pairwise_map]
            refine List.Pairwise.imp_of_mem ?_ hsorted
            intro x y hx hy hxy
            rw [(hcg x hx).2, (hcg y hy).2] at hxy
            linarith
          simpa using this)
        (hle _ (hXYmem a (by simp))).1
        (by
          intro q hq
          have : q ∈ (a :: l).map XY := by simpa using hq
          obtain ⟨k, hk, rfl⟩ := List.mem_map.mp this
          exact (hle _ (hXYmem k hk)).2)
      rw [hst]
      apply hvCells_of_mem_iff
      intro q
      have : ((XY a :: l.map XY).map toPt).Perm (pts.map toPt) := by
        have := hmapXY.map toPt
        simpa using this
      exact this.mem_iff

theorem list_len1 (p : List ℚ) (h : p.length = 1) : p = [p.headD 0] := by
  match p, h with
  | [a], _ => rfl

theorem list_len2 (p : List ℚ) (h : p.length = 2) : p = Hypervolume.toPt (p.getD 0 0, p.getD 1 0) := by
  match p, h with
  | [a, b], _ => rfl


end HvSweep
