/-
C16 — lemmas about pickling (`serialise` / `rebuild` / `pickleRoundTrip`) and reachability.
-/
import DeapModel.Core.Heap
import DeapModel.Lemmas.C16Defs
import DeapModel.Lemmas.C16Inst

namespace Heap

/-! ### Reachability stays inside a set closed under children -/

theorem reach_closed {objs : Oid → Option Obj} (S : Oid → Prop)
    (hS : ∀ x o, S x → objs x = some o → ∀ y, Val.ref y ∈ o.children → S y)
    {v : Val} {y : Oid} (h : Reach objs v y) : (∀ x, v = Val.ref x → S x) → S y := by
  induction h with
  | here x => intro hx; exact hx x rfl
  | step x o c y ho hc _ ih =>
    intro hx
    apply ih
    intro x' hx'
    subst hx'
    exact hS x o (hx x rfl) ho x' hc

/-! ### Elementwise relation of two lists -/

inductive All2 {α β : Type} (R : α → β → Prop) : List α → List β → Prop
  | nil : All2 R [] []
  | cons {a : α} {b : β} {as : List α} {bs : List β} : R a b → All2 R as bs →
      All2 R (a :: as) (b :: bs)

theorem All2.mono {α β : Type} {R S : α → β → Prop} {as : List α} {bs : List β}
    (h : All2 R as bs) (hRS : ∀ a b, R a b → S a b) : All2 S as bs := by
  induction h with
  | nil => exact .nil
  | cons h _ ih => exact .cons (hRS _ _ h) ih

theorem All2.length_eq {α β : Type} {R : α → β → Prop} {as : List α} {bs : List β}
    (h : All2 R as bs) : as.length = bs.length := by
  induction h with
  | nil => rfl
  | cons _ _ ih => simp [ih]

theorem All2.map_eq {α β γ : Type} {R : α → β → Prop} {g : α → γ} {h : β → γ}
    (hR : ∀ a b, R a b → g a = h b) {as : List α} {bs : List β} (hab : All2 R as bs) :
    as.map g = bs.map h := by
  induction hab with
  | nil => rfl
  | cons h1 _ ih => simp [hR _ _ h1, ih]

theorem All2.mem_right {α β : Type} {R : α → β → Prop} {as : List α} {bs : List β}
    (h : All2 R as bs) : ∀ b ∈ bs, ∃ a ∈ as, R a b := by
  induction h with
  | nil => intro b hb; cases hb
  | cons h1 _ ih =>
    intro b hb
    rcases List.mem_cons.1 hb with rfl | hb
    · exact ⟨_, List.mem_cons_self, h1⟩
    · obtain ⟨a, ha, hr⟩ := ih b hb
      exact ⟨a, List.mem_cons_of_mem _ ha, hr⟩

/-- Lookup through two zips with the same names. -/
theorem All2.lookup_zip {α β : Type} {R : α → β → Prop} {as : List α} {bs : List β}
    (h : All2 R as bs) : ∀ (names : List Nat) (k : Nat),
      (lookup k (names.zip as) = none ∧ lookup k (names.zip bs) = none) ∨
      ∃ a b, lookup k (names.zip as) = some a ∧ lookup k (names.zip bs) = some b ∧ R a b := by
  induction h with
  | nil => intro names k; left; simp [lookup]
  | cons h1 _ ih =>
    intro names k
    cases names with
    | nil => left; simp [lookup]
    | cons n ns =>
      simp only [List.zip_cons_cons, lookup_cons]
      by_cases hn : n = k
      · simp only [hn, if_true]
        exact Or.inr ⟨_, _, rfl, rfl, h1⟩
      · simp only [hn, if_false]
        exact ih ns k

theorem lookup_zip_self {β : Type} (k : Nat) (l : List (Nat × β)) :
    lookup k ((l.map (·.1)).zip (l.map (·.2))) = lookup k l := by
  induction l with
  | nil => rfl
  | cons p r ih =>
    obtain ⟨k', v⟩ := p
    simp only [List.map_cons, List.zip_cons_cons, lookup_cons, ih]

/-! ### `mapOpt` -/

theorem mapOpt_all2 {α β : Type} {f : α → Option β} {l : List α} {l' : List β}
    (h : mapOpt f l = some l') : All2 (fun a b => f a = some b) l l' := by
  induction l generalizing l' with
  | nil =>
    simp only [mapOpt, Option.some.injEq] at h
    subst h
    exact .nil
  | cons a as ih =>
    simp only [mapOpt] at h
    split at h
    · cases h
    · rename_i b hb
      split at h
      · cases h
      · rename_i bs hbs
        cases h
        exact .cons hb (ih hbs)

theorem mapOpt_succeeds {α β : Type} {f : α → Option β} (Q : β → Prop) {l : List α}
    (h : ∀ a ∈ l, ∃ b, f a = some b ∧ Q b) : ∃ bs, mapOpt f l = some bs ∧ ∀ b ∈ bs, Q b := by
  induction l with
  | nil => exact ⟨[], rfl, fun b hb => by cases hb⟩
  | cons a as ih =>
    obtain ⟨b, hb, hq⟩ := h a List.mem_cons_self
    obtain ⟨bs, hbs, hqs⟩ := ih (fun a' ha' => h a' (List.mem_cons_of_mem _ ha'))
    refine ⟨b :: bs, by simp [mapOpt, hb, hbs], ?_⟩
    intro b' hb'
    rcases List.mem_cons.1 hb' with rfl | hb'
    · exact hq
    · exact hqs b' hb'

/-! ### The pure value of a pickle tree -/

/-- The pure value a pickle tree denotes, cut at depth `n` like `abs`. -/
def absPT : Nat → PT → PV
  | _, .atom a => .atom a
  | 0, .node .. => .bot
  | n + 1, .node c m is names vs =>
    .node c m (is.map (absPT n))
      (fun k => match lookup k (names.zip vs) with
        | none => .absent
        | some t => absPT n t)

/-- A pickle tree that can be rebuilt faithfully: every class is known, and for the kinds whose
reduce tuple calls the class, the state carries every `dict_inst` attribute. -/
inductive PTOk (ct : ClassTable) : PT → Prop
  | atom (a : Int) : PTOk ct (.atom a)
  | node (c : ClsId) (m : Bool) (is : List PT) (names : List Name) (vs : List PT)
      (ci : ClassInfo) : ct[c]? = some ci → (∀ t ∈ is, PTOk ct t) → (∀ t ∈ vs, PTOk ct t) →
      (ci.kind.initOnPickle = true → ∀ p ∈ ci.dictInst,
        (lookup p.1 (names.zip vs)).isSome = true) →
      PTOk ct (.node c m is names vs)

/-- The pickle tree denotes what the pickled graph denotes. -/
theorem serialise_abs (objs : Oid → Option Obj) :
    ∀ (n : Nat) (v : Val) (t : PT), serialise objs n v = some t →
      ∀ m, abs objs m v = absPT m t := by
  intro n
  induction n with
  | zero =>
    intro v t h m
    cases v with
    | atom a =>
      rw [serialise.eq_1] at h
      cases h
      rw [abs.eq_1, absPT.eq_1]
    | ref x => simp [serialise] at h
  | succ n ih =>
    intro v t h m
    cases v with
    | atom a =>
      rw [serialise.eq_1] at h
      cases h
      rw [abs.eq_1, absPT.eq_1]
    | ref x =>
      rw [serialise.eq_3] at h
      split at h
      · cases h
      · rename_i o ho
        split at h
        · cases h
        · rename_i is his
          split at h
          · cases h
          · rename_i vs hvs
            cases h
            cases m with
            | zero => simp [abs, absPT]
            | succ m =>
              rw [abs.eq_3, ho]
              simp only [absPT]
              have h1 := mapOpt_all2 his
              have h2 := mapOpt_all2 hvs
              congr 1
              · exact h1.map_eq (fun a b hab => ih a b hab m)
              · funext k
                rcases h2.lookup_zip (o.attrs.map (·.1)) k with ⟨e1, e2⟩ | ⟨a, b, e1, e2, hab⟩
                · rw [lookup_zip_self] at e1
                  rw [e1, e2]
                · rw [lookup_zip_self] at e1
                  rw [e1, e2]
                  exact ih a b hab m

/-- Under the side condition of the pickle hooks the graph can be serialised, to a tree that can be
rebuilt faithfully. -/
theorem serialise_ok (ct : ClassTable) (objs : Oid → Option Obj) :
    ∀ (n : Nat) (v : Val), Within ct PickleOK objs n v →
      ∃ t, serialise objs n v = some t ∧ PTOk ct t := by
  intro n
  induction n with
  | zero =>
    intro v h
    cases v with
    | atom a => exact ⟨.atom a, serialise.eq_1 _ _ _, .atom a⟩
    | ref x => exact h.elim
  | succ n ih =>
    intro v h
    cases v with
    | atom a => exact ⟨.atom a, serialise.eq_1 _ _ _, .atom a⟩
    | ref x =>
      obtain ⟨o, ci, ho, hci, hok, hch⟩ := h
      obtain ⟨is, his, hisok⟩ := mapOpt_succeeds (f := serialise objs n) (PTOk ct)
        (l := o.items) (fun a ha => ih a (hch a (by simp [Obj.children, ha])))
      obtain ⟨vs, hvs, hvsok⟩ := mapOpt_succeeds (f := serialise objs n) (PTOk ct)
        (l := o.attrs.map (·.2)) (fun a ha => ih a (hch a (by
          simp only [Obj.children, List.mem_append]; exact Or.inr ha)))
      refine ⟨.node o.cls o.mutable is (o.attrs.map (·.1)) vs, ?_, ?_⟩
      · rw [serialise.eq_3, ho]
        simp only [his, hvs]
      · refine .node _ _ _ _ _ ci hci hisok hvsok ?_
        intro hk p hp
        have hs := hok hk p hp
        rcases (mapOpt_all2 hvs).lookup_zip (o.attrs.map (·.1)) p.1 with ⟨e1, _⟩ | ⟨a, b, _, e2, _⟩
        · rw [lookup_zip_self] at e1
          rw [e1] at hs
          cases hs
        · rw [e2]; rfl

/-! ### `rebuild` -/

/-- Structural induction on pickle trees and lists of pickle trees. -/
theorem PT.ind2 {P : PT → Prop} {Q : List PT → Prop}
    (atom : ∀ a, P (.atom a))
    (node : ∀ c m is names vs, Q is → Q vs → P (.node c m is names vs))
    (nil : Q []) (cons : ∀ t ts, P t → Q ts → Q (t :: ts)) : (∀ t, P t) ∧ ∀ ts, Q ts := by
  have hP : ∀ t, P t := fun t => PT.rec (motive_1 := P) (motive_2 := Q) atom node nil cons t
  refine ⟨hP, ?_⟩
  intro ts
  induction ts with
  | nil => exact nil
  | cons t ts ih => exact cons t ts (hP t) ih

theorem rebuild_node_inv {ct : ClassTable} {st st' : State} {c : ClsId} {m : Bool}
    {is : List PT} {names : List Name} {vs : List PT} {v : Val}
    (h : rebuild ct st (.node c m is names vs) = some (st', v)) :
    ∃ ci s1 is' s2 base s3 vs', ct[c]? = some ci ∧
      rebuilds ct ⟨st.objs, st.next + 1, st.memo⟩ is = some (s1, is') ∧
      (if ci.kind.initOnPickle = true then instAttrs ct s1 ci.dictInst else some (s1, []))
        = some (s2, base) ∧
      rebuilds ct s2 vs = some (s3, vs') ∧
      st' = ⟨define s3.objs st.next ⟨c, is', dictUpdate base (names.zip vs'), m⟩, s3.next,
        s3.memo⟩ ∧
      v = .ref st.next := by
  rw [rebuild.eq_2] at h
  split at h
  · cases h
  · rename_i ci hci
    simp only at h
    split at h
    · cases h
    · rename_i s1 is' h1
      split at h
      · cases h
      · rename_i s2 base h2
        split at h
        · cases h
        · rename_i s3 vs' h3
          cases h
          exact ⟨ci, s1, is', s2, base, s3, vs', hci, h1, h2, h3, rfl, rfl⟩

theorem rebuilds_cons_inv {ct : ClassTable} {st st' : State} {t : PT} {ts : List PT}
    {l : List Val} (h : rebuilds ct st (t :: ts) = some (st', l)) :
    ∃ s1 v vs, rebuild ct st t = some (s1, v) ∧ rebuilds ct s1 ts = some (st', vs) ∧
      l = v :: vs := by
  rw [rebuilds.eq_2] at h
  split at h
  · cases h
  · rename_i s1 v h1
    split at h
    · cases h
    · rename_i s2 vs h2
      cases h
      exact ⟨s1, v, vs, h1, h2, rfl⟩

theorem ChildIn.ext {A B : Prop} {lo hi : Nat} {v : Val} {s1 s2 : State}
    (h : ChildIn A s1.objs lo hi v) (hE : Ext B s1 s2) (hhi : hi ≤ s1.next) :
    ChildIn A s2.objs lo hi v :=
  h.mono (Nat.le_refl _) (Nat.le_refl _) (fun y _ hy hs => by
    rw [hE.old y (Nat.lt_of_lt_of_le hy hhi)]; exact hs)

theorem ChildIn.toDefine {A : Prop} {lo hi lo' hi' : Nat} {v : Val} {objs : Oid → Option Obj}
    (h : ChildIn A objs lo hi v) (x : Oid) (o : Obj) (hlo : lo' ≤ lo) (hhi : hi ≤ hi') :
    ChildIn A (define objs x o) lo' hi' v :=
  h.mono hlo hhi (fun _ _ _ hs => define_isSome _ _ _ hs)

/-- The optional `init_type` step of unpickling. -/
theorem initStep_ext (ct : ClassTable) (hct : CTOk ct) (c : ClsId) (ci : ClassInfo)
    (hci : ct[c]? = some ci) (b : Bool) {s1 s2 : State} {base : List (Name × Val)}
    (hb : Bounded s1)
    (h : (if b = true then instAttrs ct s1 ci.dictInst else some (s1, [])) = some (s2, base)) :
    Ext True s1 s2 ∧ (∀ p ∈ base, ChildIn True s2.objs s1.next s2.next p.2) ∧
      (∀ k v, lookup k base = some v → b = true ∧ ∃ p ∈ ci.dictInst, p.1 = k) := by
  cases b with
  | false =>
    simp only [Bool.false_eq_true, if_false, Option.some.injEq, Prod.mk.injEq] at h
    obtain ⟨rfl, rfl⟩ := h
    refine ⟨Ext.refl hb, ?_, ?_⟩
    · intro p hp; cases hp
    · intro k v hk; cases hk
  | true =>
    simp only [if_true] at h
    obtain ⟨hE, hnames, hvals⟩ := instAttrs_ext_of_eq ct hct s1 c ci hci hb h
    refine ⟨hE, ?_, ?_⟩
    · intro p hp
      obtain ⟨y, hy, h1, h2, h3⟩ := hvals p hp
      rw [hy]
      exact ⟨h1, h2, h3⟩
    · intro k v hk
      have hmem := lookup_some_mem_keys hk
      rw [hnames] at hmem
      obtain ⟨p, hp, hpk⟩ := List.mem_map.1 hmem
      exact ⟨rfl, p, hp, hpk⟩

theorem initStep_succeeds (ct : ClassTable) (hct : CTOk ct) (c : ClsId) (ci : ClassInfo)
    (hci : ct[c]? = some ci) (b : Bool) (s1 : State) :
    ∃ s2 base, (if b = true then instAttrs ct s1 ci.dictInst else some (s1, []))
      = some (s2, base) := by
  cases b with
  | false => exact ⟨s1, [], rfl⟩
  | true =>
    obtain ⟨s2, base, h, _⟩ := instAttrs_ext ct hct s1 c ci hci
    exact ⟨s2, base, h⟩

/-- From success alone: unpickling only allocates, and the result is an atom or a reference to a
defined object allocated by the call. -/
theorem rebuild_ext_aux (ct : ClassTable) (hct : CTOk ct) :
    (∀ (t : PT) (st st' : State) (v : Val), Bounded st → rebuild ct st t = some (st', v) →
      Ext True st st' ∧ ChildIn True st'.objs st.next st'.next v) ∧
    (∀ (ts : List PT) (st st' : State) (vs : List Val), Bounded st →
      rebuilds ct st ts = some (st', vs) →
      Ext True st st' ∧ ∀ v ∈ vs, ChildIn True st'.objs st.next st'.next v) := by
  apply PT.ind2
  · intro a st st' v hb h
    rw [rebuild.eq_1] at h
    cases h
    exact ⟨Ext.refl hb, trivial⟩
  · intro c m is names vs ihis ihvs st st' v hb h
    obtain ⟨ci, s1, is', s2, base, s3, vs', hci, h1, h2, h3, rfl, rfl⟩ := rebuild_node_inv h
    have hba : Bounded ⟨st.objs, st.next + 1, st.memo⟩ :=
      fun x hx => hb x (Nat.le_of_succ_le hx)
    obtain ⟨E1, I1⟩ := ihis _ _ _ hba h1
    obtain ⟨E2, B2, _⟩ := initStep_ext ct hct c ci hci _ E1.bound h2
    obtain ⟨E3, V3⟩ := ihvs _ _ _ E2.bound h3
    have E := E1.trans (E2.trans E3)
    have hle1 : st.next + 1 ≤ s1.next := E1.le
    have hle2 : s1.next ≤ s2.next := E2.le
    have hle3 : s2.next ≤ s3.next := E3.le
    refine ⟨Ext.reserve_define E ?_, ⟨Nat.le_refl _, by show st.next < s3.next; omega,
      define_same_isSome _ _ _⟩⟩
    intro c' hc'
    simp only [Obj.children, List.mem_append, List.mem_map] at hc'
    rcases hc' with hc' | ⟨p, hp, rfl⟩
    · exact ((I1 c' hc').ext (E2.trans E3) (Nat.le_refl _)).toDefine _ _ (by show st.next ≤ st.next + 1; omega)
        (by omega)
    · rcases mem_dictUpdate hp with hp | hp
      · exact ((B2 p hp).ext E3 (Nat.le_refl _)).toDefine _ _ (by omega) (by omega)
      · have hv : p.2 ∈ vs' := (List.of_mem_zip (a := p.1) (b := p.2) hp).2
        exact (V3 p.2 hv).toDefine _ _ (by omega) (Nat.le_refl _)
  · intro st st' vs hb h
    rw [rebuilds.eq_1] at h
    cases h
    exact ⟨Ext.refl hb, fun v hv => by cases hv⟩
  · intro t ts iht ihts st st' l hb h
    obtain ⟨s1, v, vs, h1, h2, rfl⟩ := rebuilds_cons_inv h
    obtain ⟨E1, C1⟩ := iht _ _ _ hb h1
    obtain ⟨E2, C2⟩ := ihts _ _ _ E1.bound h2
    refine ⟨E1.trans E2, ?_⟩
    intro w hw
    rcases List.mem_cons.1 hw with rfl | hw
    · exact (C1.ext E2 (Nat.le_refl _)).mono (Nat.le_refl _) E2.le (fun _ _ _ hs => hs)
    · exact (C2 w hw).mono E1.le (Nat.le_refl _) (fun _ _ _ hs => hs)

theorem rebuild_ext (ct : ClassTable) (hct : CTOk ct) {t : PT} {st st' : State} {v : Val}
    (hb : Bounded st) (h : rebuild ct st t = some (st', v)) :
    Ext True st st' ∧ ChildIn True st'.objs st.next st'.next v :=
  (rebuild_ext_aux ct hct).1 t st st' v hb h

theorem rebuilds_ext (ct : ClassTable) (hct : CTOk ct) {ts : List PT} {st st' : State}
    {vs : List Val} (hb : Bounded st) (h : rebuilds ct st ts = some (st', vs)) :
    Ext True st st' ∧ ∀ v ∈ vs, ChildIn True st'.objs st.next st'.next v :=
  (rebuild_ext_aux ct hct).2 ts st st' vs hb h

/-- A well-formed pickle tree can be rebuilt in any state. -/
theorem rebuild_succeeds_aux (ct : ClassTable) (hct : CTOk ct) :
    (∀ (t : PT), PTOk ct t → ∀ st, ∃ st' v, rebuild ct st t = some (st', v)) ∧
    (∀ (ts : List PT), (∀ t ∈ ts, PTOk ct t) → ∀ st, ∃ st' vs,
      rebuilds ct st ts = some (st', vs)) := by
  apply PT.ind2
  · intro a _ st
    exact ⟨st, .atom a, rebuild.eq_1 _ _ _⟩
  · intro c m is names vs ihis ihvs hok st
    cases hok with
    | node _ _ _ _ _ ci hci his hvs _ =>
      obtain ⟨s1, is', h1⟩ := ihis his ⟨st.objs, st.next + 1, st.memo⟩
      obtain ⟨s2, base, h2⟩ := initStep_succeeds ct hct c ci hci ci.kind.initOnPickle s1
      obtain ⟨s3, vs', h3⟩ := ihvs hvs s2
      refine ⟨⟨define s3.objs st.next ⟨c, is', dictUpdate base (names.zip vs'), m⟩, s3.next,
        s3.memo⟩, .ref st.next, ?_⟩
      rw [rebuild.eq_2, hci]
      simp only [h1, h2, h3]
  · intro _ st
    exact ⟨st, [], rebuilds.eq_1 _ _⟩
  · intro t ts iht ihts hok st
    obtain ⟨s1, v, h1⟩ := iht (hok t List.mem_cons_self) st
    obtain ⟨s2, vs, h2⟩ := ihts (fun t' ht' => hok t' (List.mem_cons_of_mem _ ht')) s1
    refine ⟨s2, v :: vs, ?_⟩
    rw [rebuilds.eq_2]
    simp only [h1, h2]

/-- The rebuilt value denotes the pickle tree, in every heap that agrees with the result heap on
the slots allocated by the call. -/
theorem rebuild_abs_aux (ct : ClassTable) (hct : CTOk ct) :
    (∀ (t : PT) (st st' : State) (v : Val), Bounded st → PTOk ct t →
      rebuild ct st t = some (st', v) →
      ∀ objs'' : Oid → Option Obj, (∀ y, st.next ≤ y → y < st'.next → objs'' y = st'.objs y) →
      ∀ m, abs objs'' m v = absPT m t) ∧
    (∀ (ts : List PT) (st st' : State) (vs : List Val), Bounded st → (∀ t ∈ ts, PTOk ct t) →
      rebuilds ct st ts = some (st', vs) →
      ∀ objs'' : Oid → Option Obj, (∀ y, st.next ≤ y → y < st'.next → objs'' y = st'.objs y) →
      All2 (fun t v => ∀ m, abs objs'' m v = absPT m t) ts vs) := by
  apply PT.ind2
  · intro a st st' v _ _ h objs'' _ m
    rw [rebuild.eq_1] at h
    cases h
    rw [abs.eq_1, absPT.eq_1]
  · intro c m is names vs ihis ihvs st st' v hb hok h objs'' hag k
    obtain ⟨ci, s1, is', s2, base, s3, vs', hci, h1, h2, h3, rfl, rfl⟩ := rebuild_node_inv h
    cases hok with
    | node _ _ _ _ _ ci' hci' his hvs hdi =>
      rw [hci] at hci'
      cases hci'
      have hba : Bounded ⟨st.objs, st.next + 1, st.memo⟩ :=
        fun x hx => hb x (Nat.le_of_succ_le hx)
      obtain ⟨E1, _⟩ := rebuilds_ext ct hct hba h1
      obtain ⟨E2, _, B2⟩ := initStep_ext ct hct c ci hci _ E1.bound h2
      obtain ⟨E3, _⟩ := rebuilds_ext ct hct E2.bound h3
      have hle1 : st.next + 1 ≤ s1.next := E1.le
      have hle2 : s1.next ≤ s2.next := E2.le
      have hle3 : s2.next ≤ s3.next := E3.le
      have hag' : ∀ y, st.next ≤ y → y < s3.next → objs'' y =
          define s3.objs st.next ⟨c, is', dictUpdate base (names.zip vs'), m⟩ y := hag
      cases k with
      | zero => simp [abs, absPT]
      | succ k =>
        have hx : objs'' st.next = some ⟨c, is', dictUpdate base (names.zip vs'), m⟩ := by
          rw [hag' st.next (Nat.le_refl _) (by omega), define_same]
        have A1 := ihis _ _ _ hba his h1 objs'' (by
          intro y hy1 hy2
          have hy1' : st.next + 1 ≤ y := hy1
          rw [hag' y (by omega) (by omega), define_ne s3.objs st.next _ (y := y) (Nat.ne_of_gt (by omega))]
          exact (E2.trans E3).old y hy2)
        have A3 := ihvs _ _ _ E2.bound hvs h3 objs'' (by
          intro y hy1 hy2
          rw [hag' y (by omega) hy2, define_ne s3.objs st.next _ (y := y) (Nat.ne_of_gt (by omega))])
        rw [abs.eq_3, hx]
        simp only [absPT]
        congr 1
        · exact (A1.map_eq (fun a b hab => (hab k).symm)).symm
        · funext key
          rw [lookup_dictUpdate]
          rcases A3.lookup_zip names key with ⟨e1, e2⟩ | ⟨t, w, e1, e2, hr⟩
          · have hbase : lookup key base = none := by
              cases hlb : lookup key base with
              | none => rfl
              | some w =>
                obtain ⟨hk, p, hp, hpk⟩ := B2 key w hlb
                have := hdi hk p hp
                rw [hpk, e1] at this
                cases this
            rw [e1, e2]
            simp only [hbase]
          · rw [e1, e2]
            exact hr k
  · intro st st' vs _ _ h objs'' _
    rw [rebuilds.eq_1] at h
    cases h
    exact .nil
  · intro t ts iht ihts st st' l hb hok h objs'' hag
    obtain ⟨s1, v, vs, h1, h2, rfl⟩ := rebuilds_cons_inv h
    obtain ⟨E1, _⟩ := rebuild_ext ct hct hb h1
    obtain ⟨E2, _⟩ := rebuilds_ext ct hct E1.bound h2
    have hle1 : st.next ≤ s1.next := E1.le
    have hle2 : s1.next ≤ st'.next := E2.le
    refine .cons ?_ ?_
    · exact iht _ _ _ hb (hok t List.mem_cons_self) h1 objs'' (by
        intro y hy1 hy2
        rw [hag y hy1 (by omega)]
        exact E2.old y hy2)
    · exact ihts _ _ _ E1.bound (fun t' ht' => hok t' (List.mem_cons_of_mem _ ht')) h2 objs'' (by
        intro y hy1 hy2
        exact hag y (by omega) hy2)

/-! ### The round trip -/

theorem pickleRoundTrip_inv {ct : ClassTable} {n : Nat} {objs objs0 objs' : Oid → Option Obj}
    {v v' : Val} {next0 next' : Nat}
    (h : pickleRoundTrip ct n objs v objs0 next0 = some (objs', next', v')) :
    ∃ t st, serialise objs n v = some t ∧ rebuild ct ⟨objs0, next0, []⟩ t = some (st, v') ∧
      objs' = st.objs ∧ next' = st.next := by
  unfold pickleRoundTrip at h
  split at h
  · cases h
  · rename_i t ht
    split at h
    · cases h
    · rename_i st w hr
      cases h
      exact ⟨t, st, ht, hr, rfl, rfl⟩

/-- Everything reachable from a value produced by an allocation-only step that lies in the
allocated range was allocated by that step. -/
theorem Ext.reach_fresh {A : Prop} {st st' : State} (hE : Ext A st st') {v : Val}
    (hv : ∀ x, v = Val.ref x → st.next ≤ x) {y : Oid} (h : Reach st'.objs v y) : st.next ≤ y :=
  reach_closed (fun y => st.next ≤ y)
    (fun x o hx ho _ hy => (hE.closed x o hx ho _ hy).1) h hv

/-! ### Instantiated attributes, by name -/

theorem AttrsIn.lookup_ref {objs : Oid → Option Obj} {lo hi : Nat} {l : List (Name × ClsId)}
    {attrs : List (Name × Val)} (hA : AttrsIn objs lo hi l attrs) {k : Name} {v : Val}
    (h : lookup k attrs = some v) : ∃ y : Nat, v = Val.ref y ∧ lo ≤ y ∧ y < hi := by
  obtain ⟨y, hy, h1, h2, _⟩ := hA.2 (k, v) (lookup_some_mem h)
  exact ⟨y, hy, h1, h2⟩

theorem AttrsIn.lookup_of_mem {objs : Oid → Option Obj} {lo hi : Nat} {l : List (Name × ClsId)}
    {attrs : List (Name × Val)} (hA : AttrsIn objs lo hi l attrs) {p : Name × ClsId}
    (hp : p ∈ l) : ∃ y : Nat, lookup p.1 attrs = some (Val.ref y) ∧ lo ≤ y ∧ y < hi := by
  have hmem : p.1 ∈ attrs.map (·.1) := by
    rw [hA.1]
    exact List.mem_map.2 ⟨p, hp, rfl⟩
  have hs := lookup_isSome_of_mem_keys hmem
  cases hl : lookup p.1 attrs with
  | none => rw [hl] at hs; cases hs
  | some v =>
    obtain ⟨y, rfl, h1, h2⟩ := hA.lookup_ref hl
    exact ⟨y, rfl, h1, h2⟩

end Heap
