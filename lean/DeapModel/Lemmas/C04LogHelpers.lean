/-
C04 lemmas, part 12: specifications of `sortNDHelperB` and `sortNDHelperA` (Fortin et al.), proved
by induction along the recursion of the model.
-/
import DeapModel.Lemmas.C04SweepB
import DeapModel.Lemmas.C04LogTop

set_option linter.unusedSectionVars false
set_option linter.unusedSimpArgs false
set_option linter.unusedVariables false

namespace C04L
open NDSort

variable {α : Type} [Field α] [LinearOrder α] [IsStrictOrderedRing α] [Inhabited α]

/-- Specification of `sortNDHelperB(best, worst, obj, front)`: every fitness of `worst` ends with
`max(old rank, 1 + max old rank of the fitnesses of best at least as good on objectives 0..obj)`,
no other entry changes. -/
def BSpec (obj : Nat) (best worst : List (List α)) (front front' : FrontDict α) : Prop :=
  (∀ f, f ∉ worst → dget front' 0 f = dget front 0 f) ∧
  ∀ w ∈ worst, ∀ n, dget front' 0 w ≤ n ↔
    dget front 0 w ≤ n ∧ ∀ b ∈ best, geOn (obj + 1) b w → dget front 0 b + 1 ≤ n

/-! ### small facts -/

theorem lexDesc_irrefl (a : List α) : ¬ lexDesc a a := by
  rw [lexDesc, tupleLt_iff_lt]; exact lt_irrefl a

theorem nodup_of_lexDesc {l : List (List α)} (h : l.Pairwise lexDesc) : l.Nodup :=
  h.imp (fun {a b} hab (e : a = b) => lexDesc_irrefl b (e ▸ hab))

theorem add_self_lt {a b : α} (h : a + a < b + b) : a < b := by
  by_contra hc
  exact absurd h (not_lt.2 (add_le_add (not_lt.1 hc) (not_lt.1 hc)))

theorem foldl_argmin {γ : Type} (key : γ → α) : ∀ (xs : List γ) (x : γ),
    (xs.foldl (fun best y => if key y < key best then y else best) x ∈ x :: xs) ∧
    ∀ y ∈ x :: xs, key (xs.foldl (fun best y => if key y < key best then y else best) x) ≤ key y
  | [], x => by simp
  | a :: xs, x => by
    simp only [List.foldl_cons]
    obtain ⟨h1, h2⟩ := foldl_argmin key xs (if key a < key x then a else x)
    have hm := h2 (if key a < key x then a else x) (by simp)
    refine ⟨?_, ?_⟩
    · rcases List.mem_cons.1 h1 with h | h
      · rw [h]; split <;> simp
      · simp [h]
    · intro y hy
      rcases List.mem_cons.1 hy with hyx | hy
      · rw [hyx]; refine le_trans hm ?_; split
        · next h => exact le_of_lt h
        · exact le_refl _
      · rcases List.mem_cons.1 hy with hya | hy
        · rw [hya]; refine le_trans hm ?_; split
          · exact le_refl _
          · next h => exact not_lt.1 h
        · exact h2 y (by simp [hy])

theorem foldl_argmax {γ : Type} (key : γ → α) : ∀ (xs : List γ) (x : γ),
    (xs.foldl (fun best y => if key best < key y then y else best) x ∈ x :: xs) ∧
    ∀ y ∈ x :: xs, key y ≤ key (xs.foldl (fun best y => if key best < key y then y else best) x)
  | [], x => by simp
  | a :: xs, x => by
    simp only [List.foldl_cons]
    obtain ⟨h1, h2⟩ := foldl_argmax key xs (if key x < key a then a else x)
    have hm := h2 (if key x < key a then a else x) (by simp)
    refine ⟨?_, ?_⟩
    · rcases List.mem_cons.1 h1 with h | h
      · rw [h]; split <;> simp
      · simp [h]
    · intro y hy
      rcases List.mem_cons.1 hy with hyx | hy
      · rw [hyx]; refine le_trans ?_ hm; split
        · next h => exact le_of_lt h
        · exact le_refl _
      · rcases List.mem_cons.1 hy with hya | hy
        · rw [hya]; refine le_trans ?_ hm; split
          · exact le_refl _
          · next h => exact not_lt.1 h
        · exact h2 y (by simp [hy])

theorem minKey_spec (l : List (List α)) (obj : Nat) (hne : l ≠ []) :
    ∃ v, minKey l obj = some v ∧ (∃ z ∈ l, nth z obj = v) ∧ ∀ z ∈ l, v ≤ nth z obj := by
  cases l with
  | nil => exact absurd rfl hne
  | cons x xs =>
    obtain ⟨h1, h2⟩ := foldl_argmin (fun f : List α => nth f obj) xs x
    exact ⟨_, by simp [minKey, pyMinBy], ⟨_, h1, rfl⟩, h2⟩

theorem maxKey_spec (l : List (List α)) (obj : Nat) (hne : l ≠ []) :
    ∃ v, maxKey l obj = some v ∧ (∃ z ∈ l, nth z obj = v) ∧ ∀ z ∈ l, nth z obj ≤ v := by
  cases l with
  | nil => exact absurd rfl hne
  | cons x xs =>
    obtain ⟨h1, h2⟩ := foldl_argmax (fun f : List α => nth f obj) xs x
    exact ⟨_, by simp [maxKey, pyMaxBy], ⟨_, h1, rfl⟩, h2⟩

/-! ### the splits -/

/-- the two tie rules on one list -/
theorem filters_facts {β : Type} (l : List β) (key : β → α) (med2 : α) :
    (∀ x ∈ l, x ∈ l.filter (fun f => decide (med2 < key f + key f) || !decide (key f + key f < med2)) ∨
              x ∈ l.filter (fun f => !decide (med2 < key f + key f) && decide (key f + key f < med2))) ∧
    (∀ x ∈ l, x ∈ l.filter (fun f => decide (med2 < key f + key f)) ∨
              x ∈ l.filter (fun f => !decide (med2 < key f + key f))) := by
  refine ⟨fun x hx => ?_, fun x hx => ?_⟩
  · by_cases h : key x + key x < med2
    · right; simp [hx, h, not_lt.2 (le_of_lt h)]
    · left; simp [hx, h]
  · by_cases h : med2 < key x + key x
    · left; simp [hx, h]
    · right; simp [hx, h]

theorem splitA_facts (fits : List (List α)) (obj : Nat) :
    (splitA fits obj).1.Sublist fits ∧ (splitA fits obj).2.Sublist fits ∧
    (∀ x ∈ fits, x ∈ (splitA fits obj).1 ∨ x ∈ (splitA fits obj).2) ∧
    (∀ b ∈ (splitA fits obj).1, ∀ w ∈ (splitA fits obj).2, nth w obj < nth b obj) := by
  obtain ⟨fa, fb⟩ := filters_facts fits (fun f : List α => nth f obj) (median2 fits (fun f => nth f obj))
  simp only [splitA]
  split_ifs
  · refine ⟨List.filter_sublist, List.filter_sublist, fa, ?_⟩
    intro b hb w hw
    simp only [List.mem_filter, Bool.or_eq_true, Bool.and_eq_true, Bool.not_eq_true', decide_eq_true_eq,
      decide_eq_false_iff_not] at hb hw
    apply add_self_lt
    rcases hb.2 with h | h
    · exact lt_trans hw.2.2 h
    · exact lt_of_lt_of_le hw.2.2 (not_lt.1 h)
  · refine ⟨List.filter_sublist, List.filter_sublist, fb, ?_⟩
    intro b hb w hw
    simp only [List.mem_filter, Bool.not_eq_true', decide_eq_true_eq, decide_eq_false_iff_not] at hb hw
    apply add_self_lt
    exact lt_of_le_of_lt (not_lt.1 hw.2) hb.2

theorem splitB_facts (best worst : List (List α)) (obj : Nat) :
    (splitB best worst obj).1.Sublist best ∧ (splitB best worst obj).2.1.Sublist best ∧
    (splitB best worst obj).2.2.1.Sublist worst ∧ (splitB best worst obj).2.2.2.Sublist worst ∧
    (∀ x ∈ best, x ∈ (splitB best worst obj).1 ∨ x ∈ (splitB best worst obj).2.1) ∧
    (∀ x ∈ worst, x ∈ (splitB best worst obj).2.2.1 ∨ x ∈ (splitB best worst obj).2.2.2) ∧
    (∀ x, x ∈ (splitB best worst obj).1 ∨ x ∈ (splitB best worst obj).2.2.1 →
      ∀ y, y ∈ (splitB best worst obj).2.1 ∨ y ∈ (splitB best worst obj).2.2.2 → nth y obj < nth x obj) := by
  simp only [splitB]
  generalize median2 (if best.length > worst.length then best else worst) (fun f => nth f obj) = med2
  obtain ⟨ba, bb⟩ := filters_facts best (fun f : List α => nth f obj) med2
  obtain ⟨wa, wb⟩ := filters_facts worst (fun f : List α => nth f obj) med2
  split_ifs
  · refine ⟨List.filter_sublist, List.filter_sublist, List.filter_sublist, List.filter_sublist, ba, wa, ?_⟩
    intro x hx y hy
    have hx' : ¬ nth x obj + nth x obj < med2 := by
      rcases hx with hx | hx <;>
      · simp only [List.mem_filter, Bool.or_eq_true, Bool.not_eq_true', decide_eq_true_eq,
          decide_eq_false_iff_not] at hx
        rcases hx.2 with h | h
        · exact not_lt.2 (le_of_lt h)
        · exact h
    have hy' : nth y obj + nth y obj < med2 := by
      rcases hy with hy | hy <;>
      · simp only [List.mem_filter, Bool.and_eq_true, Bool.not_eq_true', decide_eq_true_eq,
          decide_eq_false_iff_not] at hy
        exact hy.2.2
    exact add_self_lt (lt_of_lt_of_le hy' (not_lt.1 hx'))
  · refine ⟨List.filter_sublist, List.filter_sublist, List.filter_sublist, List.filter_sublist, bb, wb, ?_⟩
    intro x hx y hy
    have hx' : med2 < nth x obj + nth x obj := by
      rcases hx with hx | hx <;>
      · simp only [List.mem_filter, decide_eq_true_eq] at hx
        exact hx.2
    have hy' : ¬ med2 < nth y obj + nth y obj := by
      rcases hy with hy | hy <;>
      · simp only [List.mem_filter, Bool.not_eq_true', decide_eq_false_iff_not] at hy
        exact hy.2
    exact add_self_lt (lt_of_le_of_lt (not_lt.1 hy') hx')

/-! ### the direct comparison branch of `sortNDHelperB` -/

theorem directInner_spec (test : List α → Bool) (hi : List α) : ∀ (L : List (List α)) (fr : FrontDict α),
    hi ∉ L →
    (∀ f, f ≠ hi → dget (L.foldl (fun front li => if test li then bump front hi li else front) fr) 0 f =
      dget fr 0 f) ∧
    ∀ n, dget (L.foldl (fun front li => if test li then bump front hi li else front) fr) 0 hi ≤ n ↔
      dget fr 0 hi ≤ n ∧ ∀ li ∈ L, test li = true → dget fr 0 li + 1 ≤ n
  | [], fr, _ => by simp
  | li :: L, fr, hhi => by
    have hli : li ≠ hi := fun e => hhi (by simp [e])
    have hL : hi ∉ L := fun h => hhi (by simp [h])
    simp only [List.foldl_cons]
    obtain ⟨ih1, ih2⟩ := directInner_spec test hi L (if test li then bump fr hi li else fr) hL
    have hstep : ∀ f, f ≠ hi → dget (if test li then bump fr hi li else fr) 0 f = dget fr 0 f := by
      intro f hf; split
      · rw [bump, dget_dset_ne _ _ _ (fun e => hf e.symm)]
      · rfl
    refine ⟨fun f hf => by rw [ih1 f hf, hstep f hf], fun n => ?_⟩
    rw [ih2 n]
    have hLr : ∀ l ∈ L, dget (if test li then bump fr hi li else fr) 0 l = dget fr 0 l :=
      fun l hl => hstep l (fun e => hL (e ▸ hl))
    by_cases ht : test li = true
    · simp only [ht, ↓reduceIte, bump, dget_dset_self]
      constructor
      · rintro ⟨h1, h2⟩
        refine ⟨by omega, ?_⟩
        intro l hl htl
        rcases List.mem_cons.1 hl with rfl | hl
        · omega
        · have := h2 l hl htl
          have e := hLr l hl; simp only [ht, ↓reduceIte, bump] at e; rw [e] at this; exact this
      · rintro ⟨h1, h2⟩
        have := h2 li (by simp) ht
        refine ⟨by omega, ?_⟩
        intro l hl htl
        have e := hLr l hl; simp only [ht, ↓reduceIte, bump] at e; rw [e]
        exact h2 l (by simp [hl]) htl
    · simp only [ht, Bool.false_eq_true, ↓reduceIte]
      constructor
      · rintro ⟨h1, h2⟩
        refine ⟨h1, ?_⟩
        intro l hl htl
        rcases List.mem_cons.1 hl with rfl | hl
        · exact absurd htl ht
        · exact h2 l hl htl
      · rintro ⟨h1, h2⟩
        exact ⟨h1, fun l hl htl => h2 l (by simp [hl]) htl⟩

theorem helperBDirect_spec (m obj : Nat) (hobj : obj < m) (best : List (List α))
    (hlb : ∀ b ∈ best, b.length = m) : ∀ (worst : List (List α)) (front : FrontDict α),
    (∀ w ∈ worst, w.length = m) → worst.Nodup → (∀ b ∈ best, b ∉ worst) →
    BSpec obj best worst front (helperBDirect best worst obj front)
  | [], front, _, _, _ => ⟨fun f _ => rfl, fun w hw => by simp at hw⟩
  | hi :: worst, front, hlw, hnd, hdisj => by
    have hhi : hi ∉ best := fun h => hdisj hi h (by simp)
    have hhw : hi ∉ worst := (List.nodup_cons.1 hnd).1
    obtain ⟨i1, i2⟩ := directInner_spec
      (fun li => isDominated (hi.take (obj + 1)) (li.take (obj + 1)) || hi.take (obj + 1) == li.take (obj + 1))
      hi best front hhi
    obtain ⟨o1, o2⟩ := helperBDirect_spec m obj hobj best hlb worst
      (best.foldl (fun front li =>
        if isDominated (hi.take (obj + 1)) (li.take (obj + 1)) || hi.take (obj + 1) == li.take (obj + 1)
        then bump front hi li else front) front)
      (fun w hw => hlw w (by simp [hw])) (List.nodup_cons.1 hnd).2
      (fun b hb hc => hdisj b hb (by simp [hc]))
    have e : helperBDirect best (hi :: worst) obj front = helperBDirect best worst obj
        (best.foldl (fun front li =>
          if isDominated (hi.take (obj + 1)) (li.take (obj + 1)) || hi.take (obj + 1) == li.take (obj + 1)
          then bump front hi li else front) front) := by
      simp [helperBDirect]
    rw [e]
    refine ⟨?_, ?_⟩
    · intro f hf
      have hf1 : f ≠ hi := fun e => hf (by simp [e])
      have hf2 : f ∉ worst := fun h => hf (by simp [h])
      rw [o1 f hf2, i1 f hf1]
    · intro w hw n
      have hbr : ∀ b ∈ best, dget (best.foldl (fun front li =>
          if isDominated (hi.take (obj + 1)) (li.take (obj + 1)) || hi.take (obj + 1) == li.take (obj + 1)
          then bump front hi li else front) front) 0 b = dget front 0 b :=
        fun b hb => i1 b (fun e => hhi (e ▸ hb))
      rcases List.mem_cons.1 hw with rfl | hw
      · rw [o1 w hhw, i2 n]
        have hwl : w.length = m := hlw w (by simp)
        constructor
        · rintro ⟨h1, h2⟩
          exact ⟨h1, fun b hb hge => h2 b hb
            ((dominated_or_equal_iff (obj + 1) w b (by omega) (by rw [hlb b hb]; omega)).2 hge)⟩
        · rintro ⟨h1, h2⟩
          exact ⟨h1, fun b hb ht => h2 b hb
            ((dominated_or_equal_iff (obj + 1) w b (by omega) (by rw [hlb b hb]; omega)).1 ht)⟩
      · have hne : w ≠ hi := fun e => hhw (e ▸ hw)
        rw [o2 w hw n, i1 w hne]
        constructor
        · rintro ⟨h1, h2⟩
          exact ⟨h1, fun b hb hge => by rw [← hbr b hb]; exact h2 b hb hge⟩
        · rintro ⟨h1, h2⟩
          exact ⟨h1, fun b hb hge => by rw [hbr b hb]; exact h2 b hb hge⟩

/-! ### `sortNDHelperB` -/

theorem bspec_of_no_pairs (obj : Nat) (best worst : List (List α)) (front : FrontDict α)
    (h : ∀ b ∈ best, ∀ w ∈ worst, ¬ geOn (obj + 1) b w) : BSpec obj best worst front front :=
  ⟨fun f _ => rfl, fun w hw n => ⟨fun h1 => ⟨h1, fun b hb hge => absurd hge (h b hb w hw)⟩, fun h1 => h1.1⟩⟩

theorem helperB_spec (m : Nat) (best worst : List (List α)) (obj : Nat) (front : FrontDict α) :
    (∀ b ∈ best, b.length = m) → (∀ w ∈ worst, w.length = m) → obj < m → 1 ≤ obj →
    best.Pairwise lexDesc → worst.Pairwise lexDesc → (∀ b ∈ best, b ∉ worst) →
    ∀ front', helperB best worst obj front = some front' → BSpec obj best worst front front' := by
  fun_induction helperB best worst obj front
  case case1 best worst obj front h =>
    intro _ _ _ _ _ _ _ f hf; cases hf
    apply bspec_of_no_pairs
    intro b hb w hw
    rcases h with h | h
    · have : worst = [] := List.eq_nil_of_length_eq_zero h
      subst this; simp at hw
    · have : best = [] := List.eq_nil_of_length_eq_zero h
      subst this; simp at hb
  case case2 best worst obj front _ _ =>
    intro hlb hlw hobj _ _ hw hdisj f hf; cases hf
    exact helperBDirect_spec m obj hobj best hlb worst front hlw (nodup_of_lexDesc hw) hdisj
  case case3 best worst front _ _ =>
    intro hlb hlw hobj _ hb hw hdisj f hf; cases hf
    have hb' : best.Pairwise ge2w := hb.imp_of_mem (fun {a b} ha hb' h =>
      ge2_of_lexDesc m (by omega) a b (hlb a ha) (hlb b hb') h)
    have hw' : worst.Pairwise ge2w := hw.imp_of_mem (fun {a b} ha hb' h =>
      ge2_of_lexDesc m (by omega) a b (hlw a ha) (hlw b hb') h)
    exact sweepB_spec best worst front hb' hw' (nodup_of_lexDesc hw)
      (fun b hb'' => by rw [hlb b hb'']; omega) (fun w hw'' => by rw [hlw w hw'']; omega) hdisj
  case case4 => intro _ _ _ h; omega
  case case5 best worst obj front h1 _ h3 h4 hge ih =>
    intro hlb hlw hobj ho hb hw hdisj f hf
    have hbne : best ≠ [] := by intro e; apply h1; right; simp [e]
    have hwne : worst ≠ [] := by intro e; apply h1; left; simp [e]
    obtain ⟨vmin, e1, _, hmin⟩ := minKey_spec best obj hbne
    obtain ⟨vmax, e2, _, hmax⟩ := maxKey_spec worst obj hwne
    rw [e1, e2] at hge
    simp only [optGe, decide_eq_true_eq] at hge
    have hcoord : ∀ b ∈ best, ∀ w ∈ worst, nth w obj ≤ nth b obj :=
      fun b hb' w hw' => le_trans (hmax w hw') (le_trans hge (hmin b hb'))
    obtain ⟨s1, s2⟩ := ih hlb hlw (by omega) (by omega) hb hw hdisj f hf
    have hobj' : obj - 1 + 1 = obj := by omega
    refine ⟨s1, fun w hw' n => ?_⟩
    rw [s2 w hw' n, hobj']
    constructor
    · rintro ⟨k1, k2⟩
      exact ⟨k1, fun b hb' hg => k2 b hb' ((geOn_succ obj b w).1 hg).1⟩
    · rintro ⟨k1, k2⟩
      exact ⟨k1, fun b hb' hg => k2 b hb' ((geOn_succ obj b w).2 ⟨hg, hcoord b hb' w hw'⟩)⟩
  case case6 best worst obj front h1 _ h3 h4 _ _ b1 b2 w1 w2 hs _ ih3 ih2 ih1 =>
    intro hlb hlw hobj ho hb hw hdisj f hf
    simp only [Option.bind_eq_some_iff] at hf
    obtain ⟨f1, hf1, f2, hf2, hf3⟩ := hf
    obtain ⟨sb1, sb2, sw1, sw2, cb, cw, hord⟩ := splitB_facts best worst obj
    rw [hs] at sb1 sb2 sw1 sw2 cb cw hord
    simp only [] at sb1 sb2 sw1 sw2 cb cw hord
    have hobj' : obj - 1 + 1 = obj := by omega
    -- the three recursive calls
    obtain ⟨p1, q1⟩ := ih3 (fun b hb' => hlb b (sb1.subset hb')) (fun w hw' => hlw w (sw1.subset hw')) hobj ho
      (hb.sublist sb1) (hw.sublist sw1) (fun b hb' hc => hdisj b (sb1.subset hb') (sw1.subset hc)) f1 hf1
    obtain ⟨p2, q2⟩ := ih2 f1 (fun b hb' => hlb b (sb1.subset hb')) (fun w hw' => hlw w (sw2.subset hw'))
      (by omega) (by omega) (hb.sublist sb1) (hw.sublist sw2)
      (fun b hb' hc => hdisj b (sb1.subset hb') (sw2.subset hc)) f2 hf2
    obtain ⟨p3, q3⟩ := ih1 f2 (fun b hb' => hlb b (sb2.subset hb')) (fun w hw' => hlw w (sw2.subset hw')) hobj ho
      (hb.sublist sb2) (hw.sublist sw2) (fun b hb' hc => hdisj b (sb2.subset hb') (sw2.subset hc)) f hf3
    -- the two worst parts are disjoint
    have hw12 : ∀ w ∈ w1, w ∉ w2 := fun w h1' h2' =>
      lt_irrefl _ (hord w (Or.inr h1') w (Or.inr h2'))
    -- ranks of `best` never change
    have hbest1 : ∀ b ∈ best, dget f1 0 b = dget front 0 b :=
      fun b hb' => p1 b (fun hc => hdisj b hb' (sw1.subset hc))
    have hbest2 : ∀ b ∈ best, dget f2 0 b = dget front 0 b :=
      fun b hb' => by rw [p2 b (fun hc => hdisj b hb' (sw2.subset hc)), hbest1 b hb']
    refine ⟨?_, ?_⟩
    · intro x hx
      have hx1 : x ∉ w1 := fun hc => hx (sw1.subset hc)
      have hx2 : x ∉ w2 := fun hc => hx (sw2.subset hc)
      rw [p3 x hx2, p2 x hx2, p1 x hx1]
    · intro w hw' n
      rcases cw w hw' with hw1 | hw2
      · -- `w` in the upper part: only `best1` matters
        have hn2 : w ∉ w2 := hw12 w hw1
        rw [p3 w hn2, p2 w hn2, q1 w hw1 n]
        constructor
        · rintro ⟨k1, k2⟩
          refine ⟨k1, fun b hb' hg => ?_⟩
          rcases cb b hb' with hb1 | hb2
          · exact k2 b hb1 hg
          · have := ((geOn_succ obj b w).1 hg).2
            exact absurd (hord w (Or.inr hw1) b (Or.inl hb2)) (not_lt.2 this)
        · rintro ⟨k1, k2⟩
          exact ⟨k1, fun b hb1 hg => k2 b (sb1.subset hb1) hg⟩
      · -- `w` in the lower part: `best1` on the objectives below, `best2` on all
        have hn1 : w ∉ w1 := fun hc => hw12 w hc hw2
        rw [q3 w hw2 n, q2 w hw2 n, p1 w hn1, hobj']
        constructor
        · rintro ⟨⟨k1, k2⟩, k3⟩
          refine ⟨k1, fun b hb' hg => ?_⟩
          rcases cb b hb' with hb1 | hb2
          · have := k2 b hb1 ((geOn_succ obj b w).1 hg).1
            rw [hbest1 b hb'] at this; exact this
          · have := k3 b hb2 hg
            rw [hbest2 b hb'] at this; exact this
        · rintro ⟨k1, k2⟩
          refine ⟨⟨k1, fun b hb1 hg => ?_⟩, fun b hb2 hg => ?_⟩
          · rw [hbest1 b (sb1.subset hb1)]
            exact k2 b (sb1.subset hb1)
              ((geOn_succ obj b w).2 ⟨hg, le_of_lt (hord b (Or.inl hb1) w (Or.inr hw2))⟩)
          · rw [hbest2 b (sb2.subset hb2)]
            exact k2 b (sb2.subset hb2) hg
  case case7 => intro _ _ _ _ _ _ _ f hf; cases hf
  case case8 best worst obj front h1 _ h3 h4 _ hnge =>
    intro hlb hlw hobj ho hb hw hdisj f hf; cases hf
    have hbne : best ≠ [] := by intro e; apply h1; right; simp [e]
    have hwne : worst ≠ [] := by intro e; apply h1; left; simp [e]
    obtain ⟨vmax, e1, _, hmax⟩ := maxKey_spec best obj hbne
    obtain ⟨vmin, e2, _, hmin⟩ := minKey_spec worst obj hwne
    rw [e1, e2] at hnge
    simp only [optGe, decide_eq_true_eq] at hnge
    apply bspec_of_no_pairs
    intro b hb' w hw' hg
    have := ((geOn_succ obj b w).1 hg).2
    exact hnge (le_trans (hmin w hw') (le_trans this (hmax b hb')))

/-! ### `sortNDHelperA` -/

theorem aspec_of_no_dom (obj : Nat) (S : List (List α)) (front : FrontDict α)
    (h : ∀ f ∈ S, ∀ g ∈ S, ¬ domOn (obj + 1) g f) : ASpec obj S front front :=
  ⟨fun f _ => rfl, fun f hf n =>
    ⟨fun h1 => ⟨h1, fun g hg => absurd hg.2 (h f hf g hg.1)⟩, fun h1 => h1.1⟩⟩

theorem domOn_succ_of_eq (n : Nat) (g f : List α) (he : nth g n = nth f n) :
    domOn (n + 1) g f ↔ domOn n g f := by
  simp only [domOn, geOn_succ]
  constructor
  · rintro ⟨⟨h1, _⟩, i, hi, hlt⟩
    refine ⟨h1, i, ?_, hlt⟩
    by_contra hc
    have : i = n := by omega
    subst this; rw [he] at hlt; exact lt_irrefl _ hlt
  · rintro ⟨h1, i, hi, hlt⟩
    exact ⟨⟨h1, le_of_eq he.symm⟩, i, by omega, hlt⟩

theorem all_eq_of_objConstant (fits : List (List α)) (obj : Nat) (h : objConstant fits obj = true) :
    ∀ a ∈ fits, ∀ b ∈ fits, nth a obj = nth b obj := by
  simp only [objConstant, beq_iff_eq] at h
  obtain ⟨c, hc⟩ := List.length_eq_one_iff.1 h
  have : ∀ a ∈ fits, nth a obj = c := by
    intro a ha
    have : nth a obj ∈ (fits.map (fun f => nth f obj)).eraseDups :=
      List.mem_eraseDups.2 (List.mem_map_of_mem ha)
    rw [hc] at this; simpa using this
  intro a ha b hb; rw [this a ha, this b hb]

theorem helperA_spec (m : Nat) (fits : List (List α)) (obj : Nat) (front : FrontDict α) :
    (∀ f ∈ fits, f.length = m) → obj < m → 1 ≤ obj → fits.Pairwise lexDesc →
    (∀ a ∈ fits, ∀ b ∈ fits, ∀ i, obj < i → i < m → nth a i = nth b i) →
    ∀ front', helperA fits obj front = some front' → ASpec obj fits front front' := by
  fun_induction helperA fits obj front
  case case1 fits obj front h =>
    intro _ _ _ _ _ f hf; cases hf
    apply aspec_of_no_dom
    intro x hx y hy
    have : x = y := by
      match fits, h with
      | [], _ => simp at hx
      | [a], _ => simp at hx hy; rw [hx, hy]
    subst this; exact domOn_irrefl _ _
  case case2 fits obj front h1 h2 s1 s2 hd =>
    intro hl hobj _ hs hagree f hf; cases hf
    obtain ⟨a, b, rfl⟩ : ∃ a b, fits = [a, b] := by
      match fits, h2 with
      | [a, b], _ => exact ⟨a, b, rfl⟩
    have hs1 : s1 = a := rfl
    have hs2 : s2 = b := rfl
    rw [hs1, hs2] at hd ⊢
    have hla := hl a (by simp)
    have hlb := hl b (by simp)
    have hab : lexDesc a b := (List.pairwise_cons.1 hs).1 b (by simp)
    have hdom : domOn (obj + 1) a b :=
      (isDominated_take_iff (obj + 1) b a (by omega) (by omega)).1 hd
    have hnba : ¬ domOn (obj + 1) b a := fun hc =>
      not_geOn_of_lexDesc m (obj + 1) a b hla hlb hab
        (fun i hi him => hagree a (by simp) b (by simp) i (by omega) him) hc.1
    have hne : a ≠ b := fun e => lexDesc_irrefl b (e ▸ hab)
    refine ⟨?_, ?_⟩
    · intro x hx
      have : b ≠ x := fun e => hx (by simp [e])
      rw [bump, dget_dset_ne _ _ _ this]
    · intro x hx n
      simp only [List.mem_cons, List.not_mem_nil, or_false] at hx
      rcases hx with rfl | rfl
      · simp only [bump, dget_dset_ne _ _ _ (fun e => hne e.symm)]
        constructor
        · intro h; refine ⟨h, ?_⟩
          rintro g ⟨hg, hgd⟩
          simp only [List.mem_cons, List.not_mem_nil, or_false] at hg
          rcases hg with rfl | rfl
          · exact absurd hgd (domOn_irrefl _ _)
          · exact absurd hgd hnba
        · exact fun h => h.1
      · simp only [bump, dget_dset_self]
        constructor
        · intro h
          refine ⟨by omega, ?_⟩
          rintro g ⟨hg, hgd⟩
          simp only [List.mem_cons, List.not_mem_nil, or_false] at hg
          rcases hg with rfl | rfl
          · rw [dget_dset_ne _ _ _ (fun e => hne e.symm)]; omega
          · exact absurd hgd (domOn_irrefl _ _)
        · rintro ⟨k1, k2⟩
          have := k2 a ⟨by simp, hdom⟩
          rw [dget_dset_ne _ _ _ (fun e => hne e.symm)] at this
          omega
  case case3 fits obj front h1 h2 s1 s2 hd =>
    intro hl hobj _ hs hagree f hf; cases hf
    obtain ⟨a, b, rfl⟩ : ∃ a b, fits = [a, b] := by
      match fits, h2 with
      | [a, b], _ => exact ⟨a, b, rfl⟩
    have hs1 : s1 = a := rfl
    have hs2 : s2 = b := rfl
    rw [hs1, hs2] at hd
    have hla := hl a (by simp)
    have hlb := hl b (by simp)
    have hab : lexDesc a b := (List.pairwise_cons.1 hs).1 b (by simp)
    have hnab : ¬ domOn (obj + 1) a b := fun hc =>
      hd ((isDominated_take_iff (obj + 1) b a (by omega) (by omega)).2 hc)
    have hnba : ¬ domOn (obj + 1) b a := fun hc =>
      not_geOn_of_lexDesc m (obj + 1) a b hla hlb hab
        (fun i hi him => hagree a (by simp) b (by simp) i (by omega) him) hc.1
    apply aspec_of_no_dom
    intro x hx y hy
    simp only [List.mem_cons, List.not_mem_nil, or_false] at hx hy
    rcases hx with rfl | rfl <;> rcases hy with rfl | rfl
    · exact domOn_irrefl _ _
    · exact hnba
    · exact hnab
    · exact domOn_irrefl _ _
  case case4 fits front _ _ =>
    intro hl hobj _ hs hagree f hf; cases hf
    have hs' : fits.Pairwise lex2 := hs.imp_of_mem (fun {a b} ha hb h =>
      lex2_of_lexDesc m a b (hl a ha) (hl b hb) h (fun i hi him => hagree a ha b hb i (by omega) him))
    exact sweepA_spec fits front hs'
  case case5 => intro _ _ h; omega
  case case6 fits obj front _ _ h3 h4 hconst ih =>
    intro hl hobj ho hs hagree f hf
    have heq := all_eq_of_objConstant fits obj hconst
    have hobj' : obj - 1 + 1 = obj := by omega
    obtain ⟨s1, s2⟩ := ih hl (by omega) (by omega) hs (by
      intro a ha b hb i hi him
      by_cases e : i = obj
      · subst e; exact heq a ha b hb
      · exact hagree a ha b hb i (by omega) him) f hf
    refine ⟨s1, fun x hx => ?_⟩
    refine (s2 x hx).congr rfl rfl ?_ (fun _ _ => rfl)
    intro g
    constructor
    · rintro ⟨hg, hd⟩
      exact ⟨hg, by rw [hobj']; exact (domOn_succ_of_eq obj g x (heq g hg x hx)).1 hd⟩
    · rintro ⟨hg, hd⟩
      rw [hobj'] at hd
      exact ⟨hg, (domOn_succ_of_eq obj g x (heq g hg x hx)).2 hd⟩
  case case7 fits obj front _ _ h3 h4 _ best worst hs' _ ih2 ih1 =>
    intro hl hobj ho hs hagree f hf
    simp only [Option.bind_eq_some_iff] at hf
    obtain ⟨f1, hf1, f2, hf2, hf3⟩ := hf
    obtain ⟨sb, sw, cov, hord⟩ := splitA_facts fits obj
    rw [hs'] at sb sw cov hord
    simp only [] at sb sw cov hord
    have hobj' : obj - 1 + 1 = obj := by omega
    have hdisj : ∀ b ∈ best, b ∉ worst := fun b hb hc => lt_irrefl _ (hord b hb b hc)
    obtain ⟨a1, a2⟩ := ih2 (fun x hx => hl x (sb.subset hx)) hobj ho (hs.sublist sb)
      (fun a ha b hb => hagree a (sb.subset ha) b (sb.subset hb)) f1 hf1
    obtain ⟨b1, b2⟩ := helperB_spec m best worst (obj - 1) f1 (fun x hx => hl x (sb.subset hx))
      (fun x hx => hl x (sw.subset hx)) (by omega) (by omega) (hs.sublist sb) (hs.sublist sw) hdisj f2 hf2
    obtain ⟨c1, c2⟩ := ih1 f2 (fun x hx => hl x (sw.subset hx)) hobj ho (hs.sublist sw)
      (fun a ha b hb => hagree a (sw.subset ha) b (sw.subset hb)) f hf3
    -- final ranks of `best` are those after the first call
    have hbest : ∀ b ∈ best, dget f 0 b = dget f1 0 b :=
      fun b hb => by rw [c1 b (hdisj b hb), b1 b (hdisj b hb)]
    -- a fitness of `worst` never dominates one of `best`; one of `best` dominates one of `worst`
    -- exactly when it is at least as good on the objectives below `obj`
    have hwb : ∀ w ∈ worst, ∀ b ∈ best, ¬ domOn (obj + 1) w b := fun w hw b hb hd =>
      absurd (hord b hb w hw) (not_lt.2 (((geOn_succ obj w b).1 hd.1).2))
    have hbw : ∀ b ∈ best, ∀ w ∈ worst, (domOn (obj + 1) b w ↔ geOn obj b w) := by
      intro b hb w hw
      constructor
      · intro hd; exact ((geOn_succ obj b w).1 hd.1).1
      · intro hg
        exact ⟨(geOn_succ obj b w).2 ⟨hg, le_of_lt (hord b hb w hw)⟩, obj, by omega, hord b hb w hw⟩
    refine ⟨?_, ?_⟩
    · intro x hx
      have hx1 : x ∉ best := fun hc => hx (sb.subset hc)
      have hx2 : x ∉ worst := fun hc => hx (sw.subset hc)
      rw [c1 x hx2, b1 x hx2, a1 x hx1]
    · intro x hx
      rcases cov x hx with hxb | hxw
      · refine (a2 x hxb).congr (hbest x hxb) rfl ?_ (fun g hg => hbest g hg.1)
        intro g
        constructor
        · rintro ⟨hg, hd⟩
          rcases cov g hg with hgb | hgw
          · exact ⟨hgb, hd⟩
          · exact absurd hd (hwb g hgw x hxb)
        · rintro ⟨hg, hd⟩; exact ⟨sb.subset hg, hd⟩
      · have hxnb : x ∉ best := fun hc => hdisj x hc hxw
        intro n
        simp only []
        rw [c2 x hxw n]
        simp only []
        rw [b2 x hxw n, a1 x hxnb, hobj']
        constructor
        · rintro ⟨⟨k1, k2⟩, k3⟩
          refine ⟨k1, ?_⟩
          rintro g ⟨hg, hd⟩
          rcases cov g hg with hgb | hgw
          · rw [hbest g hgb]; exact k2 g hgb ((hbw g hgb x hxw).1 hd)
          · exact k3 g ⟨hgw, hd⟩
        · rintro ⟨k1, k2⟩
          refine ⟨⟨k1, fun b hb hg => ?_⟩, fun g hg => k2 g ⟨sw.subset hg.1, hg.2⟩⟩
          have := k2 b ⟨sb.subset hb, (hbw b hb x hxw).2 hg⟩
          rw [hbest b hb] at this; exact this
  case case8 => intro _ _ _ _ _ f hf; cases hf

end C04L
