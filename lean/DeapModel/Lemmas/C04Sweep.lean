/-
C04 lemmas, part 7: specification language for the helpers of the log-time sort and the
correctness of the 2-objective sweep `sweepA`.

`geOn n g f`  : `g` is at least as good as `f` on the objectives `0..n-1`
`domOn n g f` : `g` dominates `f` on the objectives `0..n-1`
`Raised R front0 f D` : `R f = max (front0 f) (1 + max {R g | D g})`, written order-free:
                        `∀ n, R f ≤ n ↔ front0 f ≤ n ∧ ∀ g, D g → R g + 1 ≤ n`.
-/
import DeapModel.Lemmas.C04Term
import Mathlib.Data.List.InsertIdx

set_option linter.unusedSectionVars false
set_option linter.unusedSimpArgs false
set_option linter.unusedVariables false

namespace C04L
open NDSort

variable {α : Type} [Field α] [LinearOrder α] [IsStrictOrderedRing α] [Inhabited α]

/-- `g` is at least as good as `f` on objectives `0..n-1` -/
def geOn (n : Nat) (g f : List α) : Prop := ∀ i, i < n → nth f i ≤ nth g i

/-- `g` dominates `f` on objectives `0..n-1` -/
def domOn (n : Nat) (g f : List α) : Prop := geOn n g f ∧ ∃ i, i < n ∧ nth f i < nth g i

/-- `R f` is `front0 f` raised by the dominators described by `D`:
`R f = max (front0 f) (1 + max {R g | D g})` -/
def Raised (R front0 : List α → Nat) (f : List α) (D : List α → Prop) : Prop :=
  ∀ n, R f ≤ n ↔ front0 f ≤ n ∧ ∀ g, D g → R g + 1 ≤ n

theorem Raised.ge {R front0 : List α → Nat} {f : List α} {D : List α → Prop} (h : Raised R front0 f D) :
    front0 f ≤ R f := ((h (R f)).1 (le_refl _)).1

theorem Raised.lt {R front0 : List α → Nat} {f : List α} {D : List α → Prop} (h : Raised R front0 f D)
    {g : List α} (hg : D g) : R g < R f := ((h (R f)).1 (le_refl _)).2 g hg

/-- the maximum is attained -/
theorem Raised.attained {R front0 : List α → Nat} {f : List α} {D : List α → Prop} (h : Raised R front0 f D)
    (hpos : front0 f < R f) : ∃ g, D g ∧ R g + 1 = R f := by
  by_contra hc
  have : R f ≤ R f - 1 := by
    rw [h (R f - 1)]
    refine ⟨by omega, fun g hg => ?_⟩
    have h1 := h.lt hg
    have h2 : R g + 1 ≠ R f := fun e => hc ⟨g, hg, e⟩
    omega
  omega

theorem Raised.congr {R R' front0 front0' : List α → Nat} {f : List α} {D D' : List α → Prop}
    (h : Raised R front0 f D) (hf : R' f = R f) (h0 : front0' f = front0 f)
    (hD : ∀ g, D' g ↔ D g) (hR : ∀ g, D g → R' g = R g) : Raised R' front0' f D' := by
  intro n
  rw [hf, h0, h n]
  constructor
  · rintro ⟨h1, h2⟩; exact ⟨h1, fun g hg => by rw [hR g ((hD g).1 hg)]; exact h2 g ((hD g).1 hg)⟩
  · rintro ⟨h1, h2⟩; exact ⟨h1, fun g hg => by rw [← hR g hg]; exact h2 g ((hD g).2 hg)⟩

/-! ### coordinates -/

theorem geOn_succ (n : Nat) (g f : List α) : geOn (n + 1) g f ↔ geOn n g f ∧ nth f n ≤ nth g n := by
  constructor
  · intro h; exact ⟨fun i hi => h i (by omega), h n (by omega)⟩
  · rintro ⟨h1, h2⟩ i hi
    by_cases e : i = n
    · subst e; exact h2
    · exact h1 i (by omega)

theorem geOn_zero (g f : List α) : geOn 0 g f := fun i hi => by omega

theorem geOn_two (g f : List α) : geOn 2 g f ↔ nth f 0 ≤ nth g 0 ∧ nth f 1 ≤ nth g 1 := by
  rw [geOn_succ, geOn_succ]; simp [geOn_zero]

theorem domOn_two (g f : List α) :
    domOn 2 g f ↔ nth f 0 ≤ nth g 0 ∧ nth f 1 ≤ nth g 1 ∧ (nth f 0 < nth g 0 ∨ nth f 1 < nth g 1) := by
  simp only [domOn, geOn_two]
  constructor
  · rintro ⟨⟨h0, h1⟩, i, hi, hlt⟩
    refine ⟨h0, h1, ?_⟩
    have : i = 0 ∨ i = 1 := by omega
    rcases this with rfl | rfl
    · exact Or.inl hlt
    · exact Or.inr hlt
  · rintro ⟨h0, h1, h | h⟩
    · exact ⟨⟨h0, h1⟩, 0, by omega, h⟩
    · exact ⟨⟨h0, h1⟩, 1, by omega, h⟩

/-- strict lexicographic "comes before" on the first two objectives (descending order) -/
def lex2 (g f : List α) : Prop := nth f 0 < nth g 0 ∨ (nth f 0 = nth g 0 ∧ nth f 1 < nth g 1)

theorem domOn_two_of_lex2 {g f : List α} (h : lex2 g f) : domOn 2 g f ↔ nth f 1 ≤ nth g 1 := by
  rw [domOn_two]
  rcases h with h | ⟨h0, h1⟩
  · exact ⟨fun hh => hh.2.1, fun hh => ⟨le_of_lt h, hh, Or.inl h⟩⟩
  · exact ⟨fun hh => hh.2.1, fun hh => ⟨le_of_eq h0, hh, Or.inr h1⟩⟩

theorem not_domOn_two_of_lex2 {g f : List α} (h : lex2 g f) : ¬ domOn 2 f g := by
  rw [domOn_two]
  rintro ⟨h0, h1, _⟩
  rcases h with h | ⟨e, h⟩
  · exact absurd h (not_lt.2 h0)
  · exact absurd h (not_lt.2 h1)

/-! ### `bisect_right` on a sorted list -/

theorem bisectRightBin_spec (a : List α) (x : α) (hs : a.Pairwise (· ≤ ·)) (lo hi : Nat) :
    lo ≤ hi → hi ≤ a.length → (∀ j, j < lo → a.getD j default ≤ x) →
    (∀ j, hi ≤ j → j < a.length → x < a.getD j default) →
    lo ≤ bisectRightBin a x lo hi ∧ bisectRightBin a x lo hi ≤ hi ∧
    (∀ j, j < bisectRightBin a x lo hi → a.getD j default ≤ x) ∧
    (∀ j, bisectRightBin a x lo hi ≤ j → j < a.length → x < a.getD j default) := by
  have hmono : ∀ i j, i ≤ j → j < a.length → a.getD i default ≤ a.getD j default := by
    intro i j hij hj
    have hi' : i < a.length := by omega
    simp only [List.getD_eq_getElem?_getD, List.getElem?_eq_getElem hi', List.getElem?_eq_getElem hj,
      Option.getD_some]
    by_cases e : i = j
    · subst e; exact le_refl _
    · exact List.pairwise_iff_getElem.1 hs i j hi' hj (by omega)
  fun_induction bisectRightBin a x lo hi
  case case1 lo hi hlt mid hx ih =>
    intro h1 h2 h3 h4
    have hmid : mid < a.length := by omega
    obtain ⟨r1, r2, r3, r4⟩ := ih (by omega) (by omega) h3 (by
      intro j hj hjl
      exact lt_of_lt_of_le hx (hmono mid j hj hjl))
    exact ⟨r1, by omega, r3, r4⟩
  case case2 lo hi hlt mid hx ih =>
    intro h1 h2 h3 h4
    have hmid : mid < a.length := by omega
    obtain ⟨r1, r2, r3, r4⟩ := ih (by omega) h2 (by
      intro j hj
      exact le_trans (hmono j mid (by omega) hmid) (not_lt.1 hx)) h4
    exact ⟨by omega, r2, r3, r4⟩
  case case3 lo hi hlt =>
    intro h1 h2 h3 h4
    have : lo = hi := by omega
    subst this
    exact ⟨le_refl _, le_refl _, h3, h4⟩

/-- `bisect_right(a, x)` on an ascending list: the number of entries `≤ x`. -/
theorem bisectRight_spec (a : List α) (x : α) (hs : a.Pairwise (· ≤ ·)) :
    bisectRight a x ≤ a.length ∧
    (∀ j (hj : j < a.length), j < bisectRight a x → a[j] ≤ x) ∧
    (∀ j (hj : j < a.length), bisectRight a x ≤ j → x < a[j]) := by
  obtain ⟨_, r2, r3, r4⟩ := bisectRightBin_spec a x hs 0 a.length (by omega) (le_refl _)
    (by intro j hj; omega) (by intro j h1 h2; omega)
  refine ⟨r2, ?_, ?_⟩
  · intro j hj hlt
    have := r3 j hlt
    simpa [List.getD_eq_getElem?_getD, List.getElem?_eq_getElem hj] using this
  · intro j hj hle
    have := r4 j hle hj
    simpa [List.getD_eq_getElem?_getD, List.getElem?_eq_getElem hj] using this

/-! ### Python `max(seq, key=…)` -/

theorem pyMaxBy_spec {β : Type} (key : β → Nat) (l : List β) (m : β) (h : pyMaxBy key l = some m) :
    m ∈ l ∧ ∀ y ∈ l, key y ≤ key m := by
  cases l with
  | nil => simp [pyMaxBy] at h
  | cons x xs =>
    simp only [pyMaxBy, Option.some.injEq] at h
    subst h
    have gen : ∀ (xs : List β) (x : β),
        (xs.foldl (fun best y => if key best < key y then y else best) x ∈ x :: xs) ∧
        ∀ y ∈ x :: xs, key y ≤ key (xs.foldl (fun best y => if key best < key y then y else best) x) := by
      intro xs
      induction xs with
      | nil => intro x; simp
      | cons a xs ih =>
        intro x
        simp only [List.foldl_cons]
        obtain ⟨h1, h2⟩ := ih (if key x < key a then a else x)
        have hm := h2 (if key x < key a then a else x) (by simp)
        refine ⟨?_, ?_⟩
        · rcases List.mem_cons.1 h1 with h | h
          · rw [h]; split <;> simp
          · simp [h]
        · intro y hy
          rcases List.mem_cons.1 hy with hyx | hy
          · rw [hyx]; refine le_trans ?_ hm; split <;> omega
          · rcases List.mem_cons.1 hy with hya | hy
            · rw [hya]; refine le_trans ?_ hm; split <;> omega
            · exact h2 y (by simp [hy])
    exact gen xs x

theorem pyMaxBy_isSome {β : Type} (key : β → Nat) (l : List β) (h : l ≠ []) :
    ∃ m, pyMaxBy key l = some m := by
  cases l with
  | nil => exact absurd rfl h
  | cons x xs => exact ⟨_, rfl⟩

/-! ### `sweepA`: one step in normal form -/

/-- the key under which a fitness sits in `stairs` -/
def neg1 (s : List α) : α := -(nth s 1)

def swIdx (Z : List (List α)) (fit : List α) : Nat := bisectRight (Z.map neg1) (-(nth fit 1))

/-- the `front` dictionary after the rank update of `sweepAStep` -/
def swFront (Z : List (List α)) (front : FrontDict α) (fit : List α) : FrontDict α :=
  if 0 < swIdx Z fit ∧ swIdx Z fit ≤ (Z.map neg1).length then
    match pyMaxBy (fun f => dget front 0 f) (Z.take (swIdx Z fit)) with
    | some t => bump front fit t
    | none => front
  else front

/-- the stairs right of the insertion point after the deletion of `sweepAStep` -/
def swRest (Z : List (List α)) (front : FrontDict α) (fit : List α) : List (List α) :=
  match (Z.drop (swIdx Z fit)).findIdx?
      (fun f => dget (swFront Z front fit) 0 f == dget (swFront Z front fit) 0 fit) with
  | some j => (Z.drop (swIdx Z fit)).eraseIdx j
  | none => Z.drop (swIdx Z fit)

theorem eraseIdx_add {γ : Type} (l : List γ) (i j : Nat) (h : i ≤ l.length) :
    l.eraseIdx (i + j) = l.take i ++ (l.drop i).eraseIdx j := by
  have := List.eraseIdx_append_of_length_le (l := l.take i) (k := i + j) (by simp) (l.drop i)
  rw [List.take_append_drop] at this
  rw [this]; simp [List.length_take, Nat.min_eq_left h]

theorem insertAt_append {γ : Type} (A B : List γ) (x : γ) :
    Py.insertAt (A ++ B) A.length x = A ++ x :: B := by
  simp [Py.insertAt, List.take_left, List.drop_left]

theorem sweepAStep_eq (Z : List (List α)) (front : FrontDict α) (fit : List α) (hidx : swIdx Z fit ≤ Z.length) :
    sweepAStep (⟨Z.map neg1, Z⟩, front) fit =
      (⟨(Z.take (swIdx Z fit) ++ fit :: swRest Z front fit).map neg1,
        Z.take (swIdx Z fit) ++ fit :: swRest Z front fit⟩, swFront Z front fit) := by
  have hlenA : (Z.take (swIdx Z fit)).length = swIdx Z fit := by simp [hidx]
  have hZ : Z = Z.take (swIdx Z fit) ++ Z.drop (swIdx Z fit) := (List.take_append_drop _ _).symm
  have key : sweepAStep (⟨Z.map neg1, Z⟩, front) fit =
      ((⟨Py.insertAt (match (Z.drop (swIdx Z fit)).findIdx?
            (fun f => dget (swFront Z front fit) 0 f == dget (swFront Z front fit) 0 fit) with
          | some j => ({ stairs := (Z.map neg1).eraseIdx (swIdx Z fit + j),
                         fstairs := Z.eraseIdx (swIdx Z fit + j) } : Stairs α)
          | none => ⟨Z.map neg1, Z⟩).stairs (swIdx Z fit) (-(nth fit 1)),
        Py.insertAt (match (Z.drop (swIdx Z fit)).findIdx?
            (fun f => dget (swFront Z front fit) 0 f == dget (swFront Z front fit) 0 fit) with
          | some j => ({ stairs := (Z.map neg1).eraseIdx (swIdx Z fit + j),
                         fstairs := Z.eraseIdx (swIdx Z fit + j) } : Stairs α)
          | none => ⟨Z.map neg1, Z⟩).fstairs (swIdx Z fit) fit⟩ : Stairs α), swFront Z front fit) := by
    rfl
  rw [key]
  cases hfind : (Z.drop (swIdx Z fit)).findIdx?
      (fun f => dget (swFront Z front fit) 0 f == dget (swFront Z front fit) 0 fit) with
  | none =>
    have hr : swRest Z front fit = Z.drop (swIdx Z fit) := by simp [swRest, hfind]
    simp only [hr]
    simp [Py.insertAt, neg1, List.map_take, List.map_drop]
  | some j =>
    have hr : swRest Z front fit = (Z.drop (swIdx Z fit)).eraseIdx j := by simp [swRest, hfind]
    simp only [hr]
    have e0 : Z.eraseIdx (swIdx Z fit + j) = Z.take (swIdx Z fit) ++ (Z.drop (swIdx Z fit)).eraseIdx j :=
      eraseIdx_add Z _ j hidx
    have e1 : Py.insertAt (Z.eraseIdx (swIdx Z fit + j)) (swIdx Z fit) fit =
        Z.take (swIdx Z fit) ++ fit :: (Z.drop (swIdx Z fit)).eraseIdx j := by
      rw [e0]
      have := insertAt_append (Z.take (swIdx Z fit)) ((Z.drop (swIdx Z fit)).eraseIdx j) fit
      rwa [hlenA] at this
    have e2 : Py.insertAt ((Z.map neg1).eraseIdx (swIdx Z fit + j)) (swIdx Z fit) (-(nth fit 1)) =
        (Z.take (swIdx Z fit) ++ fit :: (Z.drop (swIdx Z fit)).eraseIdx j).map neg1 := by
      rw [List.eraseIdx_map, e0, List.map_append]
      have := insertAt_append ((Z.take (swIdx Z fit)).map neg1) (((Z.drop (swIdx Z fit)).eraseIdx j).map neg1)
        (-(nth fit 1))
      rw [List.length_map, hlenA] at this
      rw [this]; simp [neg1]
    simp only [e2, e1]

/-! ### `sweepA`: invariant -/

/-- What holds after `sweepA` has processed the prefix `P`: `Z` are the stairs (ordered by the
second objective, all taken from `P`, every processed fitness is covered by a stair of at least its
rank and at least its second objective), the processed fitnesses have their final rank. -/
structure SwInv (front0 : FrontDict α) (P Z : List (List α)) (front : FrontDict α) : Prop where
  sorted : Z.Pairwise (fun a b => nth b 1 ≤ nth a 1)
  sub : ∀ s ∈ Z, s ∈ P
  cover : ∀ g ∈ P, ∃ s ∈ Z, dget front 0 g ≤ dget front 0 s ∧ nth g 1 ≤ nth s 1
  eqs : ∀ g ∈ P, Raised (fun f => dget front 0 f) (fun f => dget front0 0 f) g (fun g' => g' ∈ P ∧ domOn 2 g' g)
  frame : ∀ f, f ∉ P → dget front 0 f = dget front0 0 f

theorem domOn_irrefl (n : Nat) (f : List α) : ¬ domOn n f f := by
  rintro ⟨_, i, _, h⟩; exact lt_irrefl _ h

/-- what `bisect_right` finds in the stairs -/
theorem swIdx_spec (Z : List (List α)) (fit : List α) (hs : Z.Pairwise (fun a b => nth b 1 ≤ nth a 1)) :
    swIdx Z fit ≤ Z.length ∧ (∀ s ∈ Z.take (swIdx Z fit), nth fit 1 ≤ nth s 1) ∧
    (∀ s ∈ Z.drop (swIdx Z fit), nth s 1 < nth fit 1) := by
  have hs' : (Z.map neg1).Pairwise (· ≤ ·) := by
    rw [List.pairwise_map]; exact hs.imp (fun h => by simpa [neg1] using h)
  obtain ⟨r1, r2, r3⟩ := bisectRight_spec (Z.map neg1) (-(nth fit 1)) hs'
  simp only [List.length_map] at r1 r2 r3
  refine ⟨r1, ?_, ?_⟩
  · intro s hs
    obtain ⟨j, hj, rfl⟩ := List.mem_take_iff_getElem.1 hs
    have hjl : j < Z.length := by omega
    have := r2 j hjl (by have hj' := hj; unfold swIdx at hj'; omega)
    simpa [neg1] using this
  · intro s hs
    obtain ⟨j, hj, rfl⟩ := List.mem_iff_getElem.1 hs
    have hjl : swIdx Z fit + j < Z.length := by simp at hj; omega
    have := r3 (swIdx Z fit + j) hjl (by show swIdx Z fit ≤ _; omega)
    rw [List.getElem_drop]
    simpa [neg1] using this

theorem swFront_ne (Z : List (List α)) (front : FrontDict α) (fit f : List α) (h : f ≠ fit) :
    dget (swFront Z front fit) 0 f = dget front 0 f := by
  unfold swFront
  split
  · split
    · rw [bump, dget_dset_ne _ _ _ (fun e => h e.symm)]
    · rfl
  · rfl

theorem swFront_fit (Z : List (List α)) (front : FrontDict α) (fit : List α) (hidx : swIdx Z fit ≤ Z.length)
    (n : Nat) : dget (swFront Z front fit) 0 fit ≤ n ↔
      dget front 0 fit ≤ n ∧ ∀ s ∈ Z.take (swIdx Z fit), dget front 0 s + 1 ≤ n := by
  unfold swFront
  by_cases h0 : 0 < swIdx Z fit
  · rw [if_pos ⟨h0, by simpa using hidx⟩]
    have hne : Z.take (swIdx Z fit) ≠ [] := by
      intro e
      have hl : (Z.take (swIdx Z fit)).length = swIdx Z fit := by rw [List.length_take]; omega
      rw [e] at hl; simp at hl; omega
    obtain ⟨t, ht⟩ := pyMaxBy_isSome (fun f => dget front 0 f) _ hne
    obtain ⟨t1, t2⟩ := pyMaxBy_spec _ _ t ht
    rw [ht]
    simp only [bump, dget_dset_self]
    constructor
    · intro h
      refine ⟨by omega, fun s hs => ?_⟩
      have := t2 s hs; omega
    · rintro ⟨h1, h2⟩
      have := h2 t t1; omega
  · rw [if_neg (fun h => h0 h.1)]
    have : swIdx Z fit = 0 := by omega
    simp [this]

theorem swRest_sublist (Z : List (List α)) (front : FrontDict α) (fit : List α) :
    (swRest Z front fit).Sublist (Z.drop (swIdx Z fit)) := by
  unfold swRest
  split
  · exact List.eraseIdx_sublist _ _
  · exact List.Sublist.refl _

/-- a stair right of the insertion point that disappears has the new rank of `fit` -/
theorem swRest_removed (Z : List (List α)) (front : FrontDict α) (fit t : List α)
    (ht : t ∈ Z.drop (swIdx Z fit)) (hn : t ∉ swRest Z front fit) :
    dget (swFront Z front fit) 0 t = dget (swFront Z front fit) 0 fit := by
  unfold swRest at hn
  split at hn
  · next j hj =>
    obtain ⟨hjl, hp, _⟩ := List.findIdx?_eq_some_iff_getElem.1 hj
    obtain ⟨i, hi, rfl⟩ := List.mem_iff_getElem.1 ht
    by_cases e : i = j
    · subst e; simpa using hp
    · exact absurd (List.mem_eraseIdx_iff_getElem.2 ⟨i, hi, e, rfl⟩) hn
  · exact absurd ht hn

/-- one step of `sweepA` keeps the invariant -/
theorem swInv_step (front0 : FrontDict α) (P Z : List (List α)) (front : FrontDict α) (fit : List α)
    (inv : SwInv front0 P Z front) (hfit : fit ∉ P) (hlex : ∀ g ∈ P, lex2 g fit) :
    SwInv front0 (P ++ [fit]) (Z.take (swIdx Z fit) ++ fit :: swRest Z front fit) (swFront Z front fit) := by
  obtain ⟨b1, b2, b3⟩ := swIdx_spec Z fit inv.sorted
  have hZ : Z.take (swIdx Z fit) ++ Z.drop (swIdx Z fit) = Z := List.take_append_drop _ _
  have hsubA : ∀ s ∈ Z.take (swIdx Z fit), s ∈ Z := fun s hs => (List.take_sublist _ _).subset hs
  have hsubB : ∀ s ∈ Z.drop (swIdx Z fit), s ∈ Z := fun s hs => (List.drop_sublist _ _).subset hs
  have hsubB' : ∀ s ∈ swRest Z front fit, s ∈ Z.drop (swIdx Z fit) :=
    fun s hs => (swRest_sublist Z front fit).subset hs
  have hneP : ∀ g ∈ P, g ≠ fit := fun g hg e => hfit (e ▸ hg)
  have hR : ∀ g ∈ P, dget (swFront Z front fit) 0 g = dget front 0 g :=
    fun g hg => swFront_ne Z front fit g (hneP g hg)
  have hfit0 : dget front 0 fit = dget front0 0 fit := inv.frame fit hfit
  refine ⟨?_, ?_, ?_, ?_, ?_⟩
  · -- sorted
    have hsZ := inv.sorted
    rw [← hZ, List.pairwise_append] at hsZ
    rw [List.pairwise_append, List.pairwise_cons]
    refine ⟨hsZ.1, ⟨fun b hb => le_of_lt (b3 b (hsubB' b hb)), hsZ.2.1.sublist (swRest_sublist Z front fit)⟩, ?_⟩
    intro a ha b hb
    rcases List.mem_cons.1 hb with rfl | hb
    · exact b2 a ha
    · exact hsZ.2.2 a ha b (hsubB' b hb)
  · -- stairs are processed fitnesses
    intro s hs
    rcases List.mem_append.1 hs with h | h
    · exact List.mem_append_left _ (inv.sub s (hsubA s h))
    · rcases List.mem_cons.1 h with rfl | h
      · simp
      · exact List.mem_append_left _ (inv.sub s (hsubB s (hsubB' s h)))
  · -- coverage
    intro g hg
    rcases List.mem_append.1 hg with hg | hg
    · obtain ⟨s, hs, c1, c2⟩ := inv.cover g hg
      have hsP := inv.sub s hs
      rw [← hZ] at hs
      rcases List.mem_append.1 hs with hsA | hsB
      · exact ⟨s, List.mem_append_left _ hsA, by rw [hR g hg, hR s hsP]; exact c1, c2⟩
      · by_cases hin : s ∈ swRest Z front fit
        · exact ⟨s, List.mem_append_right _ (List.mem_cons_of_mem _ hin), by rw [hR g hg, hR s hsP]; exact c1, c2⟩
        · refine ⟨fit, by simp, ?_, le_trans c2 (le_of_lt (b3 s hsB))⟩
          rw [← swRest_removed Z front fit s hsB hin, hR g hg, hR s hsP]; exact c1
    · simp only [List.mem_singleton] at hg; subst hg
      exact ⟨g, by simp, le_refl _, le_refl _⟩
  · -- ranks
    intro g hg
    rcases List.mem_append.1 hg with hg | hg
    · refine (inv.eqs g hg).congr (hR g hg) rfl ?_ ?_
      · intro g'
        constructor
        · rintro ⟨hm, hd⟩
          rcases List.mem_append.1 hm with hm | hm
          · exact ⟨hm, hd⟩
          · rw [List.mem_singleton] at hm; rw [hm] at hd
            exact absurd hd (not_domOn_two_of_lex2 (hlex g hg))
        · rintro ⟨hm, hd⟩; exact ⟨List.mem_append_left _ hm, hd⟩
      · rintro g' ⟨hm, _⟩; exact hR g' hm
    · simp only [List.mem_singleton] at hg; subst hg
      intro n
      simp only []
      rw [swFront_fit Z front g b1 n, hfit0]
      constructor
      · rintro ⟨h1, h2⟩
        refine ⟨h1, ?_⟩
        rintro g' ⟨hm, hd⟩
        rcases List.mem_append.1 hm with hm | hm
        · have hge : nth g 1 ≤ nth g' 1 := (domOn_two_of_lex2 (hlex g' hm)).1 hd
          obtain ⟨s, hs, c1, c2⟩ := inv.cover g' hm
          rw [← hZ] at hs
          rcases List.mem_append.1 hs with hsA | hsB
          · have := h2 s hsA; rw [hR g' hm]; omega
          · exact absurd (b3 s hsB) (not_lt.2 (le_trans hge c2))
        · simp only [List.mem_singleton] at hm; subst hm
          exact absurd hd (domOn_irrefl 2 g')
      · rintro ⟨h1, h2⟩
        refine ⟨h1, fun s hs => ?_⟩
        have hsP := inv.sub s (hsubA s hs)
        have := h2 s ⟨List.mem_append_left _ hsP, (domOn_two_of_lex2 (hlex s hsP)).2 (b2 s hs)⟩
        rw [hR s hsP] at this; exact this
  · -- frame
    intro f hf
    have hfP : f ∉ P := fun h => hf (List.mem_append_left _ h)
    have hne : f ≠ fit := fun e => hf (by simp [e])
    rw [swFront_ne Z front fit f hne]; exact inv.frame f hfP

theorem lex2_irrefl (f : List α) : ¬ lex2 f f := by
  rintro (h | ⟨_, h⟩) <;> exact lt_irrefl _ h

theorem sweepA_fold (front0 : FrontDict α) : ∀ (rest P Z : List (List α)) (front : FrontDict α),
    SwInv front0 P Z front → (P ++ rest).Pairwise lex2 →
    ∃ Z', (rest.foldl sweepAStep (⟨Z.map neg1, Z⟩, front)).1 = ⟨Z'.map neg1, Z'⟩ ∧
      SwInv front0 (P ++ rest) Z' (rest.foldl sweepAStep (⟨Z.map neg1, Z⟩, front)).2
  | [], P, Z, front, inv, _ => ⟨Z, rfl, by simpa using inv⟩
  | fit :: rest, P, Z, front, inv, hp => by
    have hp' := List.pairwise_append.1 hp
    have hlex : ∀ g ∈ P, lex2 g fit := fun g hg => hp'.2.2 g hg fit (by simp)
    have hfit : fit ∉ P := fun h => lex2_irrefl fit (hlex fit h)
    have hidx := (swIdx_spec Z fit inv.sorted).1
    have inv' := swInv_step front0 P Z front fit inv hfit hlex
    simp only [List.foldl_cons]
    rw [sweepAStep_eq Z front fit hidx]
    have := sweepA_fold front0 rest (P ++ [fit]) _ _ inv' (by simpa using hp)
    simpa using this

/-- **`sweepA` is correct.**  On a list that is strictly decreasing in the lexicographic order of the
first two objectives, every fitness gets `max(old rank, 1 + max rank of its dominators in the list)`
(dominance on the first two objectives), nothing else changes. -/
theorem sweepA_spec (S : List (List α)) (front0 : FrontDict α) (hs : S.Pairwise lex2) :
    (∀ f, f ∉ S → dget (sweepA S front0) 0 f = dget front0 0 f) ∧
    ∀ f ∈ S, Raised (fun f => dget (sweepA S front0) 0 f) (fun f => dget front0 0 f) f
      (fun g => g ∈ S ∧ domOn 2 g f) := by
  cases S with
  | nil => exact ⟨fun f _ => rfl, fun f hf => by simp at hf⟩
  | cons f0 rest =>
    have inv0 : SwInv front0 [f0] [f0] front0 := by
      refine ⟨by simp, by simp, ?_, ?_, fun f _ => rfl⟩
      · intro g hg; exact ⟨g, hg, le_refl _, le_refl _⟩
      · intro g hg n
        simp only [List.mem_singleton] at hg; subst hg
        constructor
        · intro h; exact ⟨h, fun g' ⟨hm, hd⟩ => by
            simp only [List.mem_singleton] at hm; subst hm; exact absurd hd (domOn_irrefl 2 g')⟩
        · exact fun h => h.1
    obtain ⟨Z', _, inv⟩ := sweepA_fold front0 rest [f0] [f0] front0 inv0 (by simpa using hs)
    have e : sweepA (f0 :: rest) front0 =
        (rest.foldl sweepAStep (⟨[f0].map neg1, [f0]⟩, front0)).2 := rfl
    rw [e]
    exact ⟨inv.frame, inv.eqs⟩

end C04L
