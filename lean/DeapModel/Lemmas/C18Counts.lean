/-
C18 helper lemmas, part H: the positional form of "the stream delivers every record exactly
once" — a delivery counter per surviving record position, no premise on the rows' contents.
-/
import DeapModel.Lemmas.C18Hist

set_option linter.unusedSimpArgs false
set_option linter.unusedVariables false

namespace C18L
open Logbook

/-- How often each surviving record (by position) has been delivered by the stream, after one
more operation on the logbook `lb`: a new record starts at 0; `stream` delivers exactly the
positions from `buffindex` on (`stream_spec`), which count one more; a deletion removes the
counters of the positions it removes from the logbook. -/
def countStep (cs : List Nat) (lb : LB) : Op → List Nat
  | .record _ => cs ++ [0]
  | .stream => cs.take lb.buffindex ++ (cs.drop lb.buffindex).map (· + 1)
  | .pop i => match pos? cs.length i with | some p => cs.eraseIdx p | none => cs
  | .delIndex i => match pos? cs.length i with | some p => cs.eraseIdx p | none => cs
  | .delSlice idx => eraseAll (sortDesc idx) cs
  | _ => cs

def countsFrom : LB → List Nat → List Op → List Nat
  | _, cs, [] => cs
  | lb, cs, o :: os => countsFrom (step lb o).1 (countStep cs lb o) os

/-- the delivery counters after a history on a fresh logbook -/
def counts (ops : List Op) : List Nat := countsFrom LB.empty [] ops

/-- the counters are: 1 for the first `buffindex` positions, 0 for the others -/
def CountsOk (lb : LB) (cs : List Nat) : Prop :=
  cs = List.replicate lb.buffindex 1 ++ List.replicate (lb.rows.length - lb.buffindex) 0 ∧
  lb.buffindex ≤ lb.rows.length

theorem countsOk_of (lb lb' : LB) (cs : List Nat) (h : CountsOk lb cs) (hr : lb'.rows.length = lb.rows.length)
    (hb : lb'.buffindex = lb.buffindex) : CountsOk lb' cs := by
  unfold CountsOk at *; rw [hr, hb]; exact h

theorem erase_counts (a c p : Nat) (hp : p < a + c) :
    (List.replicate a 1 ++ List.replicate c 0).eraseIdx p =
      List.replicate (if p < a then a - 1 else a) 1 ++
        List.replicate (a + c - 1 - (if p < a then a - 1 else a)) 0 := by
  by_cases hpa : p < a
  · rw [List.eraseIdx_append_of_lt_length (by simpa using hpa), List.eraseIdx_replicate]
    simp only [hpa, if_true]
    congr 2; omega
  · rw [List.eraseIdx_append_of_length_le (by simpa using Nat.le_of_not_lt hpa), List.eraseIdx_replicate]
    simp only [List.length_replicate, hpa, if_false]
    have : p - a < c := by omega
    simp only [this, if_true]
    congr 2; omega

theorem CountsOk.erase {lb lb' : LB} {cs : List Nat} (h : CountsOk lb cs) (p : Nat)
    (hp : p < lb.rows.length) (hr : lb'.rows = lb.rows.eraseIdx p)
    (hb : lb'.buffindex = if p < lb.buffindex then lb.buffindex - 1 else lb.buffindex) :
    CountsOk lb' (cs.eraseIdx p) := by
  obtain ⟨h1, h2⟩ := h
  have hlen : lb'.rows.length = lb.rows.length - 1 := by rw [hr, List.length_eraseIdx]; simp [hp]
  refine ⟨?_, ?_⟩
  · rw [h1, erase_counts _ _ _ (by omega), hb, hlen]
    congr 2
    split <;> omega
  · rw [hb, hlen]; split <;> omega

theorem CountsOk.length {lb : LB} {cs : List Nat} (h : CountsOk lb cs) : cs.length = lb.rows.length := by
  rw [h.1]; simp; have := h.2; omega

theorem CountsOk.delEach {C : List Name} (ds : List Nat) (hds : ds.Pairwise (· > ·)) :
    ∀ {lb : LB} {es : List Entry} {cs : List Nat}, Rep C lb es → CountsOk lb cs →
      (∀ i ∈ ds, i < es.length) → CountsOk (Logbook.delEach ds lb).1 (eraseAll ds cs) := by
  induction ds with
  | nil => intro lb es cs _ h _; exact h
  | cons i is ih =>
    intro lb es cs hrep h hr
    rw [List.pairwise_cons] at hds
    have hi : i < es.length := hr i (by simp)
    have hlen : lb.rows.length = es.length := by rw [hrep.rows, List.length_map]
    have hp : pos? es.length (i : Int) = some i := by rw [pos?_nat]; simp [hi]
    obtain ⟨g1, g2, _⟩ := hrep.delIndex (i : Int) i hp
    have hd := delIndex_deep lb (i : Int) i hrep.deep (by rw [hlen]; exact hp)
    have hrest : ∀ j ∈ is, j < (es.eraseIdx i).length := by
      intro j hj
      have := hds.1 j hj
      simp [List.length_eraseIdx, hi]; omega
    have hde : Logbook.delEach (i :: is) lb = Logbook.delEach is (eraseDeep i lb) := by
      simp [Logbook.delEach, hd]
    rw [hde]
    rw [hd] at g1
    exact ih hds.2 g1 (h.erase i (by rw [hlen]; exact hi) (eraseDeep_rows i lb) (eraseDeep_buffindex i lb)) hrest

/-- one valid step keeps the counters in that form -/
theorem step_counts {C : List Name} {lb : LB} {es : List Entry} {cs : List Nat} (hrep : Rep C lb es)
    (h : CountsOk lb cs) (o : Op) (ho : OpOk C es o) :
    CountsOk (step lb o).1 (countStep cs lb o) := by
  have hlen : lb.rows.length = es.length := by rw [hrep.rows, List.length_map]
  have hcl := h.length
  cases o with
  | record e =>
    obtain ⟨h1, h2⟩ := h
    have hr : (Logbook.record e lb).rows.length = lb.rows.length + 1 := by
      simp [Logbook.record, recordAux_rows]
    have hb : (Logbook.record e lb).buffindex = lb.buffindex := by
      simp [Logbook.record, (recordAux_buffindex [] e lb).1]
    refine ⟨?_, ?_⟩
    · show cs ++ [0] = List.replicate (Logbook.record e lb).buffindex 1 ++
        List.replicate ((Logbook.record e lb).rows.length - (Logbook.record e lb).buffindex) 0
      rw [hr, hb, h1, List.append_assoc, ← List.replicate_succ']
      congr 2; omega
    · show (Logbook.record e lb).buffindex ≤ (Logbook.record e lb).rows.length
      rw [hr, hb]; omega
  | select path names => exact h
  | str => exact h
  | streamAt c rest =>
    obtain ⟨h1, h2, _⟩ := modifyAt_cons_state c rest lb
    exact countsOk_of lb _ cs h (congrArg List.length h1) h2
  | stream =>
    obtain ⟨e1, _, e3, _⟩ := stream_state lb
    obtain ⟨h1, h2⟩ := h
    refine ⟨?_, ?_⟩
    · have hb : (Logbook.stream lb).2.buffindex = lb.rows.length := e3
      have hr : (Logbook.stream lb).2.rows = lb.rows := e1
      show cs.take lb.buffindex ++ (cs.drop lb.buffindex).map (· + 1) =
        List.replicate (Logbook.stream lb).2.buffindex 1 ++
        List.replicate ((Logbook.stream lb).2.rows.length - (Logbook.stream lb).2.buffindex) 0
      rw [hb, hr, h1, List.take_left' (by simp), List.drop_left' (by simp)]
      simp only [List.map_replicate, Nat.sub_self, List.replicate_zero, List.append_nil]
      rw [← List.replicate_add]; congr 1; omega
    · show (Logbook.stream lb).2.buffindex ≤ (Logbook.stream lb).2.rows.length
      rw [e3, e1]; exact Nat.le_refl _
  | pop i =>
    simp only [step, countStep, hcl, hlen]
    cases hp : pos? es.length i with
    | none => rw [pop_out_deep i lb hrep.deep (by rw [hlen]; exact hp)]; exact h
    | some p =>
      rw [pop_deep i p lb hrep.deep (by rw [hlen]; exact hp)]
      exact h.erase p (by rw [hlen]; exact pos?_lt hp) (eraseDeep_rows p lb) (eraseDeep_buffindex p lb)
  | delIndex i =>
    simp only [step, countStep, hcl, hlen]
    cases hp : pos? es.length i with
    | none => rw [delIndex_out lb i hrep.deep (by rw [hlen]; exact hp)]; exact h
    | some p =>
      rw [delIndex_deep lb i p hrep.deep (by rw [hlen]; exact hp)]
      exact h.erase p (by rw [hlen]; exact pos?_lt hp) (eraseDeep_rows p lb) (eraseDeep_buffindex p lb)
  | delSlice idx =>
    exact CountsOk.delEach (C := C) (sortDesc idx) (sortDesc_strict idx ho.1) hrep h
      (fun i hi => ho.2 i ((mem_sortDesc i idx).1 hi))
  | pickle => simp only [step, countStep, pickle_eq]; exact h
  | setHeader hd =>
    obtain ⟨e1, _, e3, _⟩ := setHeader_state hd lb
    exact countsOk_of lb _ cs h (congrArg List.length e1) e3
  | setLogHeader f =>
    obtain ⟨e1, _, e3⟩ := setLogHeader_state f lb
    exact countsOk_of lb _ cs h (congrArg List.length e1) e3

theorem history_counts {C : List Name} (ops : List Op) :
    ∀ {lb : LB} {es : List Entry} {cs : List Nat}, Rep C lb es → Valid C es ops → CountsOk lb cs →
      CountsOk (runFrom lb ops) (countsFrom lb cs ops) := by
  induction ops with
  | nil => intro lb es cs _ _ h; exact h
  | cons o os ih =>
    intro lb es cs hrep hv h
    exact ih (step_rep hrep o hv.1) hv.2 (step_counts hrep h o hv.1)

end C18L
