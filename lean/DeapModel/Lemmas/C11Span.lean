/-
Helper lemmas for C11: uniqueness of parsing, completeness count, spans, height, guard.
-/
import DeapModel.Lemmas.C11Basic

namespace GpTree

/-! ### uniqueness: `flatten` is injective on well-formed trees -/
mutual
theorem flatten_inj : ∀ (t t' : Tree) (l l' : List Prim), wf t = true → wf t' = true →
    flatten t ++ l = flatten t' ++ l' → t = t' ∧ l = l'
  | .node p as, .node p' as', l, l', h, h', e => by
    simp [flatten] at e
    obtain ⟨rfl, e⟩ := e
    simp [wf] at h h'
    obtain ⟨rfl, rfl⟩ := flattenF_inj as as' l l' h.2 h'.2 (by rw [h.1, h'.1]) e
    exact ⟨rfl, rfl⟩
theorem flattenF_inj : ∀ (ts ts' : List Tree) (l l' : List Prim), wfF ts = true → wfF ts' = true →
    ts.length = ts'.length → flattenF ts ++ l = flattenF ts' ++ l' → ts = ts' ∧ l = l'
  | [], [], l, l', _, _, _, e => by simpa [flattenF] using e
  | t :: ts, t' :: ts', l, l', h, h', hl, e => by
    simp [wfF] at h h'
    simp [flattenF] at e
    obtain ⟨rfl, e2⟩ := flatten_inj t t' _ _ h.1 h'.1 e
    obtain ⟨rfl, rfl⟩ := flattenF_inj ts ts' l l' h.2 h'.2 (by simpa using hl) e2
    exact ⟨rfl, rfl⟩
  | [], _ :: _, _, _, _, _, hl, _ => by simp at hl
  | _ :: _, [], _, _, _, _, hl, _ => by simp at hl
end

/-! ### untyped = typed with the trivial subclass relation -/

def subTrue : Nat → Nat → Bool := fun _ _ => true

theorem typed_true_eq_closes : ∀ (l : List Prim) (ss : List Nat), typed subTrue ss l = closes ss.length l
  | [], ss => by cases ss <;> simp [typed, closes]
  | p :: l, [] => by simp [typed, closes]
  | p :: l, s :: ss => by
    simp [typed, closes, subTrue]
    rw [typed_true_eq_closes l (p.args ++ ss)]
    simp [Prim.arity]; congr 1; omega

mutual
theorem wt_true_eq_wf : ∀ (σ : Nat) (t : Tree), wt subTrue σ t = wf t
  | σ, .node p as => by
    simp [wt, wf, subTrue]
    rw [wtF_true_eq p.args as]; simp [Prim.arity, Bool.and_comm]
    by_cases h : as.length = p.args.length <;> simp [h]
theorem wtF_true_eq : ∀ (ss : List Nat) (ts : List Tree),
    wtF subTrue ss ts = (decide (ts.length = ss.length) && wfF ts)
  | [], [] => by simp [wtF, wfF]
  | s :: ss, t :: ts => by
    simp [wtF, wfF]
    rw [wt_true_eq_wf s t, wtF_true_eq ss ts]
    by_cases h : ts.length = ss.length <;> simp [h]
  | [], _ :: _ => by simp [wtF]
  | _ :: _, [] => by simp [wtF]
end

/-- `complete l` ⇔ `l` is the prefix form of a (well-formed) tree -/
theorem complete_iff_tree {l : List Prim} : complete l = true ↔ ∃ t, wf t = true ∧ flatten t = l := by
  have : complete l = typed subTrue [0] l := by simp [complete, typed_true_eq_closes]
  rw [this, typed_iff_tree]
  constructor
  · rintro ⟨t, h, e⟩; exact ⟨t, by rwa [wt_true_eq_wf] at h, e⟩
  · rintro ⟨t, h, e⟩; exact ⟨t, by rwa [wt_true_eq_wf], e⟩

/-! ### the running arity count as prefix sums -/

/-- `Σ (arity − 1)` over a node list -/
def aritySum : List Prim → Int
  | [] => 0
  | p :: l => ((p.arity : Int) - 1) + aritySum l

theorem aritySum_append (a b : List Prim) : aritySum (a ++ b) = aritySum a + aritySum b := by
  induction a with
  | nil => simp [aritySum]
  | cons p l ih => simp [aritySum, ih]; omega

theorem closes_iff_sums : ∀ (l : List Prim) (c : Nat),
    closes c l = true ↔ ((∀ k, k < l.length → 0 < (c : Int) + aritySum (l.take k)) ∧ (c : Int) + aritySum l = 0)
  | [], c => by simp [closes, aritySum]
  | p :: l, 0 => by
    simp [closes]
    intro h; have := h 0 (by simp); simp [aritySum] at this
  | p :: l, c + 1 => by
    simp only [closes]
    rw [closes_iff_sums l (c + p.arity)]
    constructor
    · rintro ⟨h1, h2⟩
      refine ⟨?_, ?_⟩
      · intro k hk
        cases k with
        | zero => simp [aritySum]
        | succ k =>
          have := h1 k (by simpa using hk)
          simp [aritySum]; push_cast at this ⊢; omega
      · simp [aritySum]; push_cast at h2 ⊢; omega
    · rintro ⟨h1, h2⟩
      refine ⟨?_, ?_⟩
      · intro k hk
        have := h1 (k + 1) (by simpa using hk)
        simp [aritySum] at this; push_cast at this ⊢; omega
      · simp [aritySum] at h2; push_cast at h2 ⊢; omega

mutual
theorem aritySum_flatten : ∀ t : Tree, wf t = true → aritySum (flatten t) = -1
  | .node p as, h => by
    simp [wf] at h
    simp [flatten, aritySum, aritySum_flattenF as h.2, h.1]; omega
theorem aritySum_flattenF : ∀ ts : List Tree, wfF ts = true → aritySum (flattenF ts) = -(ts.length : Int)
  | [], _ => by simp [flattenF, aritySum]
  | t :: ts, h => by
    simp [wfF] at h
    simp [flattenF, aritySum_append, aritySum_flatten t h.1, aritySum_flattenF ts h.2]; omega
end

/-! ### the `__setitem__` guard accepts the prefix form of a tree -/

theorem foldl_guard (vs : List Prim) (a : Int) :
    vs.foldl (fun tot n => tot + ((n.arity : Int) - 1)) a = a + aritySum vs := by
  induction vs generalizing a with
  | nil => simp [aritySum]
  | cons v vs ih => simp [ih, aritySum]; omega

theorem guardTotal_flatten {t : Tree} (h : wf t = true) : guardTotal (flatten t) = some 0 := by
  cases t with
  | node p as =>
    simp [wf] at h
    simp [flatten, guardTotal, foldl_guard, aritySum_flattenF as h.2, h.1]; omega

theorem guardTotal_of_typed {sub} {σ : Nat} {v : List Prim} (h : typed sub [σ] v = true) :
    guardTotal v = some 0 := by
  obtain ⟨t, hw, rfl⟩ := typed_iff_tree.1 h
  exact guardTotal_flatten (wf_of_wt hw)

/-! ### `searchSubtree` -/

mutual
theorem walk_flatten : ∀ (t : Tree) (l : List Prim) (c e : Nat), wf t = true →
    walk (flatten t ++ l) (c + 1) e = walk l c (e + t.size)
  | .node p as, l, c, e, h => by
    simp [wf] at h
    simp [flatten, walk, Tree.size]
    have := walk_flattenF as l c (e + 1) h.2
    rw [h.1] at this
    rw [Nat.add_comm c p.arity, this]; congr 1; omega
theorem walk_flattenF : ∀ (ts : List Tree) (l : List Prim) (c e : Nat), wfF ts = true →
    walk (flattenF ts ++ l) (ts.length + c) e = walk l c (e + sizeF ts)
  | [], l, c, e, _ => by simp [flattenF, sizeF]
  | t :: ts, l, c, e, h => by
    simp [wfF] at h
    simp [flattenF, sizeF]
    have h1 := walk_flatten t (flattenF ts ++ l) (ts.length + c) e h.1
    have h2 := walk_flattenF ts l c (e + t.size) h.2
    rw [show ts.length + 1 + c = ts.length + c + 1 by omega, h1, h2]; congr 1; omega
end

/-- list-level span: the subtree starting at position `|pre|` -/
theorem searchSubtree_at (pre post : List Prim) (s : Tree) (h : wf s = true) :
    searchSubtree (pre ++ flatten s ++ post) pre.length = some (pre.length, pre.length + s.size) := by
  cases s with
  | node p as =>
    simp [wf] at h
    have hd : (pre ++ flatten (.node p as) ++ post).drop pre.length = p :: (flattenF as ++ post) := by
      simp [flatten, List.append_assoc]
    simp only [searchSubtree, hd]
    have := walk_flattenF as post 0 (pre.length + 1) h.2
    rw [h.1] at this
    simp at this
    simp [this, walk, Tree.size]; omega

theorem getSlice_at (pre post mid : List Prim) :
    getSlice (pre ++ mid ++ post) pre.length (pre.length + mid.length) = mid := by
  simp [getSlice, List.take_append]

/-! ### positions inside a typed list -/

/-- At every index of a list accepted by the typed machine starts a well-typed subtree; the
machine's state before it is `σ :: rest` (σ = the slot type at that position). -/
theorem at_index {sub} : ∀ (i : Nat) (l : List Prim) (ss : List Nat), typed sub ss l = true → i < l.length →
    ∃ σ rest s post, l = l.take i ++ flatten s ++ post ∧ wt sub σ s = true ∧
      typed sub rest post = true ∧ ∀ x, typed sub ss (l.take i ++ x) = typed sub (σ :: rest) x
  | _, [], _, _, hi => by simp at hi
  | _, _ :: _, [], h, _ => by simp [typed] at h
  | 0, p :: l, σ :: ss, h, _ => by
    obtain ⟨s, y', hw, e, hr⟩ := typed_parse_one h
    exact ⟨σ, ss, s, y', by simpa using e, hw, hr, by simp⟩
  | i + 1, p :: l, σ0 :: ss, h, hi => by
    simp [typed] at h
    obtain ⟨σ, rest, s, post, e, hw, hr, hx⟩ := at_index i l (p.args ++ ss) h.2 (by simpa using hi)
    refine ⟨σ, rest, s, post, ?_, hw, hr, ?_⟩
    · simp; simpa using e
    · intro x; simp [typed, h.1, hx]

/-! ### height -/

mutual
theorem heightGo_flatten : ∀ (t : Tree) (l : List Prim) (d : Nat) (st : List Nat) (m : Nat), wf t = true →
    heightGo (flatten t ++ l) (d :: st) m = heightGo l st (max m (d + t.height))
  | .node p as, l, d, st, m, h => by
    simp [wf] at h
    simp [flatten, heightGo, Tree.height]
    have := heightGo_flattenF as l d st (max m d) h.2 (by omega)
    rw [h.1] at this
    rw [this]; congr 1; omega
theorem heightGo_flattenF : ∀ (ts : List Tree) (l : List Prim) (d : Nat) (st : List Nat) (m : Nat), wfF ts = true →
    d ≤ m → heightGo (flattenF ts ++ l) (List.replicate ts.length (d + 1) ++ st) m = heightGo l st (max m (d + heightF ts))
  | [], l, d, st, m, _, hm => by simp [flattenF, heightF]; congr 1; omega
  | t :: ts, l, d, st, m, h, hm => by
    simp [wfF] at h
    simp [flattenF, heightF, List.replicate_succ]
    rw [heightGo_flatten t _ (d + 1) _ m h.1, heightGo_flattenF ts l d st _ h.2 (by omega)]
    congr 1; omega
end

theorem heightL_flatten {t : Tree} (h : wf t = true) : heightL (flatten t) = some t.height := by
  have := heightGo_flatten t [] 0 [] 0 h
  simp at this
  simp [heightL, this, heightGo]

/-! ### leaf depths and height -/

mutual
theorem leafDepths_le : ∀ (t : Tree) (d : Nat), ∀ x ∈ leafDepths d t, x ≤ d + t.height
  | .node p [], d, x, hx => by simp [leafDepths] at hx; omega
  | .node p (a :: as), d, x, hx => by
    simp only [leafDepths] at hx
    have := leafDepthsF_le (a :: as) (d + 1) x hx
    simp only [Tree.height]; omega
theorem leafDepthsF_le : ∀ (ts : List Tree) (d : Nat), ∀ x ∈ leafDepthsF d ts, x + 1 ≤ d + heightF ts
  | [], d, x, hx => by simp [leafDepthsF] at hx
  | t :: ts, d, x, hx => by
    simp only [leafDepthsF, List.mem_append] at hx
    simp only [heightF]
    rcases hx with hx | hx
    · have := leafDepths_le t d x hx; omega
    · have := leafDepthsF_le ts d x hx; omega
end

mutual
theorem exists_deepest : ∀ (t : Tree) (d : Nat), ∃ x ∈ leafDepths d t, x = d + t.height
  | .node p [], d => by simp [leafDepths, Tree.height, heightF]
  | .node p (a :: as), d => by
    obtain ⟨x, hx, e⟩ := exists_deepestF (a :: as) (d + 1) (by simp)
    exact ⟨x, by simpa only [leafDepths] using hx, by simp only [Tree.height]; omega⟩
theorem exists_deepestF : ∀ (ts : List Tree) (d : Nat), ts ≠ [] →
    ∃ x ∈ leafDepthsF d ts, x + 1 = d + heightF ts
  | [], _, h => by simp at h
  | t :: ts, d, _ => by
    obtain ⟨x, hx, e⟩ := exists_deepest t d
    simp only [heightF]
    by_cases hc : heightF ts ≤ t.height + 1
    · exact ⟨x, by simp [leafDepthsF, hx], by omega⟩
    · have hne : ts ≠ [] := by intro h; subst h; simp [heightF] at hc
      obtain ⟨y, hy, e'⟩ := exists_deepestF ts d hne
      refine ⟨y, ?_, by omega⟩
      simp only [leafDepthsF, List.mem_append]
      exact Or.inr hy
end

/-! ### the subtree rooted at the `i`-th node -/

mutual
theorem subAt_decomp : ∀ (t : Tree) (i : Nat) (s : Tree), subAt t i = some s →
    ∃ pre post, flatten t = pre ++ flatten s ++ post ∧ pre.length = i
  | .node p as, i, s, h => by
    simp only [subAt] at h
    split at h
    · rename_i h0
      simp at h; subst h; subst h0; exact ⟨[], [], by simp, rfl⟩
    · rename_i h0
      obtain ⟨pre, post, e, hl⟩ := subAtF_decomp as (i - 1) s h
      exact ⟨p :: pre, post, by simp [flatten, e], by simp [hl]; omega⟩
theorem subAtF_decomp : ∀ (ts : List Tree) (i : Nat) (s : Tree), subAtF ts i = some s →
    ∃ pre post, flattenF ts = pre ++ flatten s ++ post ∧ pre.length = i
  | [], _, _, h => by simp [subAtF] at h
  | t :: ts, i, s, h => by
    simp only [subAtF] at h
    split at h
    · obtain ⟨pre, post, e, hl⟩ := subAt_decomp t i s h
      exact ⟨pre, post ++ flattenF ts, by simp [flattenF, e], hl⟩
    · rename_i hge
      obtain ⟨pre, post, e, hl⟩ := subAtF_decomp ts (i - t.size) s h
      exact ⟨flatten t ++ pre, post, by simp [flattenF, e], by simp [flatten_length, hl]; omega⟩
end

mutual
theorem subAt_wf : ∀ (t : Tree) (i : Nat) (s : Tree), wf t = true → subAt t i = some s → wf s = true
  | .node p as, i, s, hw, h => by
    simp only [subAt] at h
    split at h
    · simp at h; subst h; exact hw
    · simp [wf] at hw; exact subAtF_wf as (i - 1) s hw.2 h
theorem subAtF_wf : ∀ (ts : List Tree) (i : Nat) (s : Tree), wfF ts = true → subAtF ts i = some s → wf s = true
  | [], _, _, _, h => by simp [subAtF] at h
  | t :: ts, i, s, hw, h => by
    simp [wfF] at hw
    simp only [subAtF] at h
    split at h
    · exact subAt_wf t i s hw.1 h
    · exact subAtF_wf ts (i - t.size) s hw.2 h
end

mutual
theorem subAt_exists : ∀ (t : Tree) (i : Nat), i < t.size → ∃ s, subAt t i = some s
  | .node p as, i, h => by
    simp only [subAt]
    split
    · exact ⟨_, rfl⟩
    · exact subAtF_exists as (i - 1) (by simp [Tree.size] at h; omega)
theorem subAtF_exists : ∀ (ts : List Tree) (i : Nat), i < sizeF ts → ∃ s, subAtF ts i = some s
  | [], _, h => by simp [sizeF] at h
  | t :: ts, i, h => by
    simp only [subAtF]
    split
    · rename_i hlt; exact subAt_exists t i hlt
    · exact subAtF_exists ts (i - t.size) (by simp [sizeF] at h; omega)
end

end GpTree
