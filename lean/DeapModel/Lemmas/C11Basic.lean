/-
Helper lemmas for C11: trees vs. prefix lists (parsing, uniqueness, spans, height).
-/
import DeapModel.Core.GpTree

namespace GpTree

/-! ### sizes -/
mutual
theorem flatten_length : ∀ t : Tree, (flatten t).length = t.size
  | .node p as => by simp [flatten, Tree.size, flattenF_length as]; omega
theorem flattenF_length : ∀ ts : List Tree, (flattenF ts).length = sizeF ts
  | [] => by simp [flattenF, sizeF]
  | t :: ts => by simp [flattenF, sizeF, flatten_length t, flattenF_length ts]
end

theorem size_pos (t : Tree) : 0 < t.size := by cases t; simp [Tree.size]; omega

theorem flattenF_append (a b : List Tree) : flattenF (a ++ b) = flattenF a ++ flattenF b := by
  induction a with
  | nil => simp [flattenF]
  | cons t ts ih => simp [flattenF, ih]

theorem sizeF_append (a b : List Tree) : sizeF (a ++ b) = sizeF a + sizeF b := by
  induction a with
  | nil => simp [sizeF]
  | cons t ts ih => simp [sizeF, ih]; omega

theorem flatten_root (t : Tree) : (flatten t)[0]? = some t.root := by
  cases t; simp [flatten, Tree.root]

/-! ### well-typed forests -/

theorem wtF_length {sub} : ∀ {ss : List Nat} {ts : List Tree}, wtF sub ss ts = true → ts.length = ss.length
  | [], [], _ => rfl
  | _ :: ss, _ :: ts, h => by
    simp [wtF] at h; simp [wtF_length h.2]
  | [], _ :: _, h => by simp [wtF] at h
  | _ :: _, [], h => by simp [wtF] at h

theorem wtF_append {sub} : ∀ {a b : List Nat} {ta tb : List Tree},
    wtF sub a ta = true → wtF sub b tb = true → wtF sub (a ++ b) (ta ++ tb) = true
  | [], _, [], _, _, hb => by simpa using hb
  | _ :: a, b, _ :: ta, tb, ha, hb => by
    simp [wtF] at ha ⊢; exact ⟨ha.1, wtF_append ha.2 hb⟩
  | [], _, _ :: _, _, ha, _ => by simp [wtF] at ha
  | _ :: _, _, [], _, ha, _ => by simp [wtF] at ha

theorem wtF_split {sub} : ∀ (a : List Nat) {b : List Nat} {ts : List Tree},
    wtF sub (a ++ b) ts = true →
    ∃ ta tb, ts = ta ++ tb ∧ wtF sub a ta = true ∧ wtF sub b tb = true
  | [], b, ts, h => ⟨[], ts, rfl, by simp [wtF], by simpa using h⟩
  | s :: a, b, [], h => by simp [wtF] at h
  | s :: a, b, t :: ts, h => by
    simp [wtF] at h
    obtain ⟨ta, tb, e, h1, h2⟩ := wtF_split a h.2
    exact ⟨t :: ta, tb, by simp [e], by simp [wtF, h.1, h1], h2⟩

/-- a larger slot type keeps a tree well typed -/
theorem wt_mono {sub} {σ σ' : Nat} {t : Tree} (h : wt sub σ t = true) (hs : sub t.root.ret σ' = true) : wt sub σ' t = true := by
  cases t with
  | node p as => simp [wt, Tree.root] at h hs ⊢; exact ⟨hs, h.2⟩

theorem wt_root {sub} {σ : Nat} {t : Tree} (h : wt sub σ t = true) : sub t.root.ret σ = true := by
  cases t with
  | node p as => simp [wt, Tree.root] at h ⊢; exact h.1

mutual
theorem wf_of_wt {sub} : ∀ {σ : Nat} {t : Tree}, wt sub σ t = true → wf t = true
  | _, .node p as, h => by
    simp [wt] at h; simp [wf, wfF_of_wtF h.2, Prim.arity, wtF_length h.2]
theorem wfF_of_wtF {sub} : ∀ {ss : List Nat} {ts : List Tree}, wtF sub ss ts = true → wfF ts = true
  | [], [], _ => rfl
  | _ :: _, t :: ts, h => by
    simp [wtF] at h; simp [wfF, wf_of_wt h.1, wfF_of_wtF h.2]
  | [], _ :: _, h => by simp [wtF] at h
  | _ :: _, [], h => by simp [wtF] at h
end

/-! ### the typed stack machine on flattened forests -/

mutual
theorem typed_flatten {sub} : ∀ {σ : Nat} {t : Tree} (rest : List Nat) (l : List Prim),
    wt sub σ t = true → typed sub (σ :: rest) (flatten t ++ l) = typed sub rest l
  | σ, .node p as, rest, l, h => by
    simp [wt] at h
    simp [flatten, typed, h.1]
    have := typed_flattenF (sub := sub) rest l h.2
    simpa using this
theorem typed_flattenF {sub} : ∀ {ss : List Nat} {ts : List Tree} (rest : List Nat) (l : List Prim),
    wtF sub ss ts = true → typed sub (ss ++ rest) (flattenF ts ++ l) = typed sub rest l
  | [], [], rest, l, _ => by simp [flattenF]
  | s :: ss, t :: ts, rest, l, h => by
    simp [wtF] at h
    simp [flattenF]
    rw [typed_flatten (ss ++ rest) (flattenF ts ++ l) h.1]
    exact typed_flattenF rest l h.2
  | [], _ :: _, _, _, h => by simp [wtF] at h
  | _ :: _, [], _, _, h => by simp [wtF] at h
end

theorem typed_nil_iff {sub} {ss : List Nat} : typed sub ss [] = true ↔ ss = [] := by
  cases ss <;> simp [typed]

/-- parsing: a list accepted by the typed stack machine is the flattening of a well-typed forest -/
theorem typed_parse {sub} : ∀ (l : List Prim) (ss : List Nat), typed sub ss l = true →
    ∃ ts, wtF sub ss ts = true ∧ flattenF ts = l
  | [], ss, h => by
    have := typed_nil_iff.1 h; subst this; exact ⟨[], by simp [wtF], by simp [flattenF]⟩
  | p :: l, [], h => by simp [typed] at h
  | p :: l, s :: ss, h => by
    simp [typed] at h
    obtain ⟨ts, hw, hf⟩ := typed_parse l (p.args ++ ss) h.2
    obtain ⟨ta, tb, e, h1, h2⟩ := wtF_split p.args hw
    refine ⟨.node p ta :: tb, ?_, ?_⟩
    · simp [wtF, wt, h.1, h1, h2]
    · subst e; simp [flattenF, flatten, flattenF_append] at hf ⊢; exact hf

/-- parsing one tree off the front -/
theorem typed_parse_one {sub} {σ : Nat} {rest : List Nat} {y : List Prim}
    (h : typed sub (σ :: rest) y = true) :
    ∃ s y', wt sub σ s = true ∧ y = flatten s ++ y' ∧ typed sub rest y' = true := by
  obtain ⟨ts, hw, hf⟩ := typed_parse y (σ :: rest) h
  cases ts with
  | nil => simp [wtF] at hw
  | cons s ts' =>
    simp [wtF] at hw
    refine ⟨s, flattenF ts', hw.1, by simp [← hf, flattenF], ?_⟩
    have := typed_flattenF (sub := sub) [] [] hw.2
    simpa [typed] using this

theorem typed_iff_tree {sub} {σ : Nat} {l : List Prim} :
    typed sub [σ] l = true ↔ ∃ t, wt sub σ t = true ∧ flatten t = l := by
  constructor
  · intro h
    obtain ⟨s, y', hw, e, hr⟩ := typed_parse_one h
    cases y' with
    | nil => exact ⟨s, hw, by simp [e]⟩
    | cons a b => simp [typed] at hr
  · rintro ⟨t, hw, rfl⟩
    have := typed_flatten (sub := sub) [] [] hw
    simpa [typed] using this

end GpTree
