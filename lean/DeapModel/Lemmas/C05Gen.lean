/-
C04 / C05 — translator tie: helper lemmas for the committed theorems of `GenEq/C05.lean.tmpl`
(`Gen.<f> = <Model>.<f>`, the `Gen.<f>` regenerated from the source by `harness/py2lean_c05.py`).
-/
import DeapModel.Core.GenPreludeC05
import DeapModel.Lemmas.C05Crowd
import Mathlib.Tactic.NormNum
import Mathlib.Tactic.Linarith
import Mathlib.Tactic.Ring
import Mathlib.Algebra.Order.Field.Rat
import Mathlib.Tactic.FieldSimp
set_option linter.unusedVariables false
set_option linter.unusedSectionVars false
set_option linter.unusedSimpArgs false
namespace C05G
open NDSort Crowding
section Lists
variable {β γ : Type}

theorem enum_swap (l : List β) : (Gen5.enumerate l).map (fun p => (p.2, p.1)) = l.zipIdx := by
  simp [Gen5.enumerate, List.map_map, Function.comp_def]

theorem setAll_aux : ∀ (d pre cd : List γ), cd.length = d.length →
    (d.zipIdx pre.length).foldl (fun st p => st.set p.2 p.1) (pre ++ cd) = pre ++ d
  | [], pre, cd, h => by
    have : cd = [] := List.length_eq_zero_iff.mp (by simpa using h)
    simp [this]
  | x :: xs, pre, [], h => by simp at h
  | x :: xs, pre, c :: cs, h => by
    have ih := setAll_aux xs (pre ++ [x]) cs (by simpa using h)
    simp only [List.zipIdx_cons, List.foldl_cons]
    have e : (pre ++ c :: cs).set pre.length x = (pre ++ [x]) ++ cs := by
      simp [List.set_append]
    rw [e]
    simpa using ih

theorem setAll (d cd : List γ) (h : cd.length = d.length) :
    (Gen5.enumerate d).foldl (fun st p => st.set p.1 p.2) cd = d := by
  have := setAll_aux d [] cd h
  simpa [Gen5.enumerate, List.foldl_map] using this

theorem item_last [Inhabited β] (l : List β) : Gen5.item l (-((1 : Nat) : Int)) = l.getLast?.getD default := by
  simp [Gen5.item, List.getLast?_eq_getElem?, List.getD_eq_getElem?_getD]

theorem getD_zero_head [Inhabited β] (l : List β) : l.getD 0 default = l.head?.getD default := by
  cases l <;> simp

theorem triples_eq_zip : ∀ (l : List β), triples l = List.zip l (List.zip (l.drop 1) (l.drop 2))
  | [] => by simp [triples]
  | [a] => by simp [triples]
  | [a, b] => by simp [triples]
  | a :: b :: c :: rest => by
    have ih := triples_eq_zip (b :: c :: rest)
    simp only [triples, ih]
    simp

theorem zip3_triples (l : List β) :
    Gen5.zip3 (Gen.slice l none (some (-((2 : Nat) : Int)))) (Gen.slice l (some ((1 : Nat) : Int)) (some (-((1 : Nat) : Int))))
      (Gen.slice l (some ((2 : Nat) : Int)) none) = triples l := by
  rw [triples_eq_zip]
  have hA : Gen.slice l none (some (-((2 : Nat) : Int))) = l.take (l.length - 2) := by
    simp [Gen.slice, Gen.bound]; congr 1; omega
  have hB : Gen.slice l (some ((1 : Nat) : Int)) (some (-((1 : Nat) : Int))) = (l.drop 1).take (l.length - 2) := by
    rcases l with _ | ⟨a, t⟩
    · simp [Gen.slice, Gen.bound]
    · have e : (-1 + (((a :: t).length : Nat) : Int)).toNat = t.length := by simp
      simp only [Gen.slice, Gen.bound]
      simp [e, List.drop_take]
  have hC : Gen.slice l (some ((2 : Nat) : Int)) none = l.drop 2 := by
    simp [Gen.slice, Gen.bound]
  rw [hA, hB, hC, Gen5.zip3]
  have hm : min (l.length - 1) (l.length - 2) = l.length - 2 := by omega
  have hZ : List.zip (List.take (l.length - 2) (List.drop 1 l)) (List.drop 2 l) = List.zip (List.drop 1 l) (List.drop 2 l) := by
    conv_rhs => rw [List.zip_eq_zip_take_min]
    simp [hm]
    rw [List.take_of_length_le (l := List.drop 2 l) (by simp)]
  have hm2 : min l.length (l.length - 2) = l.length - 2 := by omega
  rw [hZ]
  conv_rhs => rw [List.zip_eq_zip_take_min]
  simp [hm, hm2]
  rw [List.take_of_length_le (l := List.zip l.tail (List.drop 2 l)) (by simp)]
end Lists

section Crowd
variable {α : Type} [LT α] [LE α] [DecidableEq α] [DecidableLT α] [DecidableLE α]
  [Add α] [Sub α] [Mul α] [Div α] [Neg α] [Zero α] [NatCast α] [Inhabited α]

/-- the body of `for i in range(nobj)` of assignCrowdingDist in the shape the translator renders it -/
def genObjStep (v_nobj : Nat) (st3 : (List ((List α) × Nat)) × (List (Crowding.Dist α))) (p2 : Nat) :
    (List ((List α) × Nat)) × (List (Crowding.Dist α)) :=
  let v_crowd := (NDSort.pySortedBy (fun (l_element : (List (α)) × (Nat)) => (l_element.1.getD p2 default)) st3.1);
  let v_distances := (st3.2.set (v_crowd.getD (0 : Nat) default).2 (none : Crowding.Dist α));
  let v_distances := (v_distances.set (Gen5.item v_crowd (-((1 : Nat) : Int))).2 (none : Crowding.Dist α));
  if (((Gen5.item v_crowd (-((1 : Nat) : Int))).1.getD p2 default) = ((v_crowd.getD (0 : Nat) default).1.getD p2 default)) then (
  (v_crowd, v_distances))
  else (
  let v_norm := (((v_nobj : Nat) : α) * (((Gen5.item v_crowd (-((1 : Nat) : Int))).1.getD p2 default) - ((v_crowd.getD (0 : Nat) default).1.getD p2 default)));
  let r6 := List.foldl (fun (st5 : List (Crowding.Dist α)) (p4 : ((List (α)) × (Nat)) × ((List (α)) × (Nat)) × ((List (α)) × (Nat))) =>
  let v_distances := (st5.set p4.2.1.2 (Crowding.Dist.add (st5.getD p4.2.1.2 default) (((p4.2.2.1.getD p2 default) - (p4.1.1.getD p2 default)) / v_norm)));
  v_distances) v_distances (Gen5.zip3 (Gen.slice v_crowd none (some (-((2 : Nat) : Int)))) (Gen.slice v_crowd (some ((1 : Nat) : Int)) (some (-((1 : Nat) : Int)))) (Gen.slice v_crowd (some ((2 : Nat) : Int)) none));
  let v_distances := r6;
  (v_crowd, v_distances))

theorem sortCrowd_eq (i : Nat) (c : List (List α × Nat)) :
    NDSort.pySortedBy (fun (e : List α × Nat) => e.1.getD i default) c = sortCrowd i c := rfl

theorem genObjStep_eq (nobj : Nat) (st : List (List α × Nat) × List (Dist α)) (i : Nat) (h : st.1 ≠ []) :
    genObjStep nobj st i = objStep nobj st i := by
  unfold genObjStep objStep
  simp only [sortCrowd_eq]
  have hne : sortCrowd i st.1 ≠ [] := by
    intro h0
    have := congrArg List.length h0
    simp [sortCrowd, List.length_mergeSort] at this
    exact h this
  obtain ⟨first, hf⟩ : ∃ f, (sortCrowd i st.1).head? = some f := by
    cases hc : sortCrowd i st.1 with
    | nil => exact absurd hc hne
    | cons a t => exact ⟨a, rfl⟩
  obtain ⟨last, hl⟩ : ∃ f, (sortCrowd i st.1).getLast? = some f := by
    cases hc : (sortCrowd i st.1).getLast? with
    | none => exact absurd (List.getLast?_eq_none_iff.mp hc) hne
    | some x => exact ⟨x, rfl⟩
  simp only [getD_zero_head, item_last, hf, hl, Option.getD_some, zip3_triples]
  rfl

theorem objStep_lengths (nobj : Nat) (st : List (List α × Nat) × List (Dist α)) (i : Nat) :
    (objStep nobj st i).1.length = st.1.length ∧ (objStep nobj st i).2.length = st.2.length := by
  have hfold : ∀ (l : List ((List α × Nat) × (List α × Nat) × (List α × Nat))) (norm : α) (d : List (Dist α)),
      (l.foldl (tripleStep i norm) d).length = d.length := by
    intro l norm
    induction l with
    | nil => intro d; rfl
    | cons t ts ih => intro d; simp only [List.foldl_cons]; rw [ih]; simp [tripleStep]
  unfold objStep
  simp only []
  split
  · split_ifs
    · simp [sortCrowd, List.length_mergeSort]
    · simp [sortCrowd, List.length_mergeSort, hfold]
  · simp [sortCrowd, List.length_mergeSort]

theorem foldl_objStep_inv (nobj : Nat) (l : List Nat) (st : List (List α × Nat) × List (Dist α)) (h : st.1 ≠ []) :
    l.foldl (genObjStep nobj) st = l.foldl (objStep nobj) st ∧
    (l.foldl (objStep nobj) st).2.length = st.2.length := by
  induction l generalizing st with
  | nil => simp
  | cons i is ih =>
    simp only [List.foldl_cons]
    rw [genObjStep_eq nobj st i h]
    have hl := objStep_lengths nobj st i
    have hne : (objStep nobj st i).1 ≠ [] := by
      intro h0; rw [h0] at hl; exact h (List.length_eq_zero_iff.mp hl.1.symm)
    have := ih (objStep nobj st i) hne
    exact ⟨this.1, this.2.trans hl.2⟩

end Crowd
end C05G
namespace C05G
theorem item_half {β : Type} [Inhabited β] (l : List β) (n : Nat) (h : l.length = n) :
    Gen5.item l ((((n : Nat) : Int) - ((1 : Nat) : Int)) / ((2 : Nat) : Int)) = l.getD ((n - 1) / 2) default := by
  rcases Nat.eq_zero_or_pos n with h0 | h0
  · subst h0; have : l = [] := List.length_eq_zero_iff.mp h; subst this; simp [Gen5.item]
  · have h1 : ¬ ((((n : Nat) : Int) - ((1 : Nat) : Int)) / ((2 : Nat) : Int) < 0) := by push_cast; omega
    have h2 : ((((n : Nat) : Int) - ((1 : Nat) : Int)) / ((2 : Nat) : Int)).toNat = (n - 1) / 2 := by push_cast; omega
    simp only [Gen5.item, h1, if_false, h2]
end C05G

namespace C05G
/-- one pass of three-way `append`s into four lists = four order-preserving filters -/
theorem fold3 {β : Type} (g l : β → Prop) [DecidablePred g] [DecidablePred l] : ∀ (xs a b c d : List β),
    List.foldl (fun (st : List β × List β × List β × List β) (x : β) =>
      if g x then (st.1 ++ [x], st.2.1 ++ [x], st.2.2.1, st.2.2.2)
      else if l x then (st.1, st.2.1, st.2.2.1 ++ [x], st.2.2.2 ++ [x])
      else (st.1 ++ [x], st.2.1, st.2.2.1, st.2.2.2 ++ [x])) (a, b, c, d) xs =
    (a ++ xs.filter (fun x => decide (g x) || !decide (l x)), b ++ xs.filter (fun x => decide (g x)),
     c ++ xs.filter (fun x => !decide (g x) && decide (l x)), d ++ xs.filter (fun x => !decide (g x)))
  | [], a, b, c, d => by simp
  | x :: xs, a, b, c, d => by
    simp only [List.foldl_cons]
    split_ifs with h1 h2
    · rw [fold3 g l xs]; simp [List.filter_cons, h1]
    · rw [fold3 g l xs]; simp [List.filter_cons, h1, h2]
    · rw [fold3 g l xs]; simp [List.filter_cons, h1, h2]
end C05G
