/-
Helper lemmas for C12: the tokenizer of the Python expression model (`Core/PyExpr.lean`) is compositional at
break characters, and identifiers are single name tokens.
-/
import DeapModel.Core.PyExpr

namespace PyLang

/-- the characters after which (and before which) a token boundary is certain -/
def isBreak (c : Char) : Bool := c == ' ' || c == '\t' || c == '(' || c == ')' || c == ',' || c == ':'

/-- what may follow a complete piece of text: the end, or a break character -/
def Break (rest : Str) : Prop := rest = [] ∨ ∃ c r, rest = c :: r ∧ isBreak c = true

theorem isBreak_cases {c : Char} (h : isBreak c = true) :
    c = ' ' ∨ c = '\t' ∨ c = '(' ∨ c = ')' ∨ c = ',' ∨ c = ':' := by
  simp only [isBreak, Bool.or_eq_true, beq_iff_eq] at h
  rcases h with ((((h | h) | h) | h) | h) | h <;> simp [h]

theorem break_not_cont {c : Char} (h : isBreak c = true) (acc : Str) : contWord acc c = false := by
  rcases isBreak_cases h with rfl | rfl | rfl | rfl | rfl | rfl <;>
    simp [contWord, isWordChar, isIdChar] <;> decide

theorem break_start {c : Char} (h : isBreak c = true) : ∃ em, startChar c = some (.idle, em) := by
  rcases isBreak_cases h with rfl | rfl | rfl | rfl | rfl | rfl <;> exact ⟨_, rfl⟩

/-- **Compositionality of the tokenizer.**  If `a` tokenizes to `ta` (from any state) and `b` is empty or starts
with a break character, then `a ++ b` tokenizes to `ta` followed by the tokens of `b`. -/
theorem lexGo_append : ∀ (a : Str) (st : LexSt) (ta : List Tok) (b : Str),
    lexGo st a = some ta → Break b → lexGo st (a ++ b) = (lexGo .idle b).map (fun r => ta ++ r)
  | [], st, ta, b, h, hb => by
    cases st with
    | idle =>
      simp [lexGo] at h; subst h
      simp
    | str q acc => simp [lexGo] at h
    | word acc =>
      simp only [lexGo, Option.map_eq_some_iff] at h
      obtain ⟨t, ht, rfl⟩ := h
      rcases hb with rfl | ⟨c, r, rfl, hc⟩
      · simp [lexGo, ht]
      · obtain ⟨em, hem⟩ := break_start hc
        simp only [List.nil_append, lexGo, break_not_cont hc acc, Bool.false_eq_true, if_false, ht, hem,
          Option.map_map]
        congr 1
  | c :: cs, st, ta, b, h, hb => by
    cases st with
    | idle =>
      simp only [lexGo] at h
      simp only [List.cons_append, lexGo]
      cases hs : startChar c with
      | none => simp [hs] at h
      | some p =>
        obtain ⟨st', em⟩ := p
        simp only [hs, Option.map_eq_some_iff] at h
        obtain ⟨r, hr, rfl⟩ := h
        simp only [lexGo_append cs st' r b hr hb, Option.map_map]
        congr 1
        funext x; simp
    | str q acc =>
      simp only [lexGo] at h
      simp only [List.cons_append, lexGo]
      by_cases hq : (c == q) = true
      · simp only [hq, if_true, Option.map_eq_some_iff] at h
        obtain ⟨r, hr, rfl⟩ := h
        simp only [hq, if_true, lexGo_append cs .idle r b hr hb, Option.map_map]
        congr 1
      · simp only [hq, Bool.false_eq_true, if_false] at h ⊢
        by_cases he : (c == '\\' || c == '\n' || c == '\r') = true
        · simp [he] at h
        · simp only [he, Bool.false_eq_true, if_false] at h ⊢
          exact lexGo_append cs _ ta b h hb
    | word acc =>
      simp only [lexGo] at h
      simp only [List.cons_append, lexGo]
      by_cases hc : contWord acc c = true
      · simp only [hc, if_true] at h ⊢
        exact lexGo_append cs _ ta b h hb
      · simp only [hc, Bool.false_eq_true, if_false] at h ⊢
        cases hw : wordTok acc.reverse with
        | none => simp [hw] at h
        | some t =>
          cases hs : startChar c with
          | none => simp [hw, hs] at h
          | some p =>
            obtain ⟨st', em⟩ := p
            simp only [hw, hs, Option.map_eq_some_iff] at h
            obtain ⟨r, hr, rfl⟩ := h
            simp only [lexGo_append cs st' r b hr hb, Option.map_map]
            congr 1
            funext x; simp

theorem lex_append {a : Str} {ta : List Tok} (h : lex a = some ta) {b : Str} (hb : Break b) :
    lex (a ++ b) = (lex b).map (fun r => ta ++ r) := lexGo_append a .idle ta b h hb

/-! ### identifiers -/

theorem isIdChar_word {c : Char} (h : isIdChar c = true) : isWordChar c = true := by
  simp [isWordChar, h]

theorem lexGo_word_run : ∀ (w acc : Str), (∀ c ∈ w, isIdChar c = true) →
    lexGo (.word acc) w = (wordTok (acc.reverse ++ w)).map (fun t => [t])
  | [], acc, _ => by simp [lexGo]
  | c :: w, acc, h => by
    have hc : contWord acc c = true := by simp [contWord, isIdChar_word (h c (by simp))]
    simp only [lexGo, hc, if_true]
    rw [lexGo_word_run w (c :: acc) (fun x hx => h x (by simp [hx]))]
    simp

theorem ident_shape {x : Str} (h : isIdent x = true) :
    ∃ c cs, x = c :: cs ∧ (c.isAlpha || c == '_') = true ∧ (∀ d ∈ cs, isIdChar d = true) ∧ isKeyword x = false := by
  cases x with
  | nil => simp [isIdent] at h
  | cons c cs =>
    simp only [isIdent, Bool.and_eq_true, List.all_eq_true, Bool.not_eq_true'] at h
    exact ⟨c, cs, rfl, h.1.1, h.1.2, h.2⟩

theorem alpha_idChar {c : Char} (h : (c.isAlpha || c == '_') = true) : isIdChar c = true := by
  simp only [Bool.or_eq_true] at h
  rcases h with h | h
  · simp [isIdChar, Char.isAlphanum, h]
  · simp [isIdChar, h]

/-- an identifier is one name token -/
theorem lex_ident {x : Str} (h : isIdent x = true) : lex x = some [.name x] := by
  obtain ⟨c, cs, rfl, hc, hcs, _⟩ := ident_shape h
  have hid := alpha_idChar hc
  have hstart : startChar c = some (.word [c], []) := by simp [startChar, isIdChar_word hid]
  simp only [lex, lexGo, hstart]
  rw [lexGo_word_run cs [c] hcs]
  have hall : (c :: cs).all isIdChar = true := by
    simp only [List.all_cons, hid, Bool.true_and, List.all_eq_true]; exact hcs
  simp [wordTok, hc, hall]

theorem ident_not_const {x : Str} (h : isIdent x = true) : constName x = none := by
  obtain ⟨c, cs, rfl, _, _, hk⟩ := ident_shape h
  unfold constName
  split
  · next he => rw [he] at hk; exact absurd hk (by decide)
  · split
    · next he => rw [he] at hk; exact absurd hk (by decide)
    · split
      · next he => rw [he] at hk; exact absurd hk (by decide)
      · rfl

theorem ident_nameExpr {x : Str} (h : isIdent x = true) : nameExpr x = some (.name x) := by
  have hk : isKeyword x = false := by
    obtain ⟨c, cs, rfl, _, _, hk⟩ := ident_shape h; exact hk
  simp [nameExpr, ident_not_const h, hk]

/-! ### atoms -/

/-- what follows an argument inside a call, or a whole expression: nothing, a comma or the closing parenthesis -/
def Follow (r : List Tok) : Prop := r = [] ∨ (∃ r', r = .comma :: r') ∨ (∃ r', r = .rpar :: r')

theorem const_nameExpr {x : Str} {e : PyExpr} (h : constName x = some e) : nameExpr x = some e := by
  simp [nameExpr, h]

/-- a text that is one atom tokenizes to one or two tokens, from which the parser reads the atom back
(whatever legitimately follows) -/
theorem atom_parse {s : Str} {e : PyExpr} (h : atomOf s = some e) :
    ∃ toks, lex s = some toks ∧ 1 ≤ toks.length ∧
      ∀ n r, Follow r → 2 * toks.length ≤ n → pExpr n (toks ++ r) = some (e, r) := by
  unfold atomOf at h
  split at h
  · next hid =>
    simp only [Option.some.injEq] at h; subst h
    refine ⟨_, lex_ident hid, by simp, ?_⟩
    intro n r hr hn
    obtain ⟨m, rfl⟩ : ∃ m, n = m + 1 := ⟨n - 1, by simp at hn; omega⟩
    rcases hr with rfl | ⟨r', rfl⟩ | ⟨r', rfl⟩ <;> simp [pExpr, ident_nameExpr hid]
  · split at h
    · next x hl =>
      refine ⟨_, hl, by simp, ?_⟩
      intro n r hr hn
      obtain ⟨m, rfl⟩ : ∃ m, n = m + 1 := ⟨n - 1, by simp at hn; omega⟩
      rcases hr with rfl | ⟨r', rfl⟩ | ⟨r', rfl⟩ <;> simp [pExpr, const_nameExpr h]
    · next k hl =>
      simp only [Option.some.injEq] at h; subst h
      refine ⟨_, hl, by simp, ?_⟩
      intro n r _ hn
      obtain ⟨m, rfl⟩ : ∃ m, n = m + 1 := ⟨n - 1, by simp at hn; omega⟩
      simp [pExpr]
    · next m e' hl =>
      simp only [Option.some.injEq] at h; subst h
      refine ⟨_, hl, by simp, ?_⟩
      intro n r _ hn
      obtain ⟨m, rfl⟩ : ∃ m, n = m + 1 := ⟨n - 1, by simp at hn; omega⟩
      simp [pExpr]
    · next v hl =>
      simp only [Option.some.injEq] at h; subst h
      refine ⟨_, hl, by simp, ?_⟩
      intro n r _ hn
      obtain ⟨m, rfl⟩ : ∃ m, n = m + 1 := ⟨n - 1, by simp at hn; omega⟩
      simp [pExpr]
    · next k hl =>
      simp only [Option.some.injEq] at h; subst h
      refine ⟨_, hl, by simp, ?_⟩
      intro n r _ hn
      obtain ⟨m, rfl⟩ : ∃ m, n = m + 2 := ⟨n - 2, by simp at hn; omega⟩
      simp [pExpr]
    · next m e' hl =>
      simp only [Option.some.injEq] at h; subst h
      refine ⟨_, hl, by simp, ?_⟩
      intro n r _ hn
      obtain ⟨m, rfl⟩ : ∃ m, n = m + 2 := ⟨n - 2, by simp at hn; omega⟩
      simp [pExpr]
    · simp at h

/-- the value of an atom: a name is looked up, a literal has its own value -/
theorem atom_eval {s : Str} {e : PyExpr} (h : atomOf s = some e) (P : PyEnv) :
    (isIdent s = true ∧ e = .name s) ∨ (isIdent s = false ∧ evalPy P e = evalConst e) := by
  unfold atomOf at h
  split at h
  · next hid => left; exact ⟨hid, by simpa using h.symm⟩
  · next hid =>
    right
    refine ⟨by simpa using hid, ?_⟩
    split at h
    · next x hl =>
      unfold constName at h
      split at h
      · simp only [Option.some.injEq] at h; subst h; simp [evalPy, evalConst]
      · split at h
        · simp only [Option.some.injEq] at h; subst h; simp [evalPy, evalConst]
        · split at h
          · simp only [Option.some.injEq] at h; subst h; simp [evalPy, evalConst]
          · simp at h
    all_goals first
      | (simp only [Option.some.injEq] at h; subst h; simp [evalPy, evalConst, negVal])
      | simp at h

/-! ### integer literals: the atom hypothesis in explicit, character-level form -/

theorem digit_bounds {c : Char} (h : c.isDigit = true) : 48 ≤ c.val.toNat ∧ c.val.toNat ≤ 57 := by
  simp only [Char.isDigit, Bool.and_eq_true, decide_eq_true_eq] at h
  have h1 := UInt32.le_iff_toNat_le.1 h.1
  have h2 := UInt32.le_iff_toNat_le.1 h.2
  exact ⟨h1, h2⟩

theorem digit_not_alpha {c : Char} (h : c.isDigit = true) : (c.isAlpha || c == '_') = false := by
  obtain ⟨h1, h2⟩ := digit_bounds h
  have hu : c.isUpper = false := by
    rw [Bool.eq_false_iff]; intro hh
    simp only [Char.isUpper, decide_eq_true_eq] at hh
    have := UInt32.le_iff_toNat_le.1 hh.1
    have e : 'A'.val.toNat = 65 := by decide
    omega
  have hl : c.isLower = false := by
    rw [Bool.eq_false_iff]; intro hh
    simp only [Char.isLower, Bool.and_eq_true, decide_eq_true_eq] at hh
    have := UInt32.le_iff_toNat_le.1 hh.1
    have e : 'a'.val.toNat = 97 := by decide
    omega
  have hne : (c == '_') = false := by
    simp only [beq_eq_false_iff_ne]
    intro he; subst he
    have e : '_'.val.toNat = 95 := by decide
    omega
  simp [Char.isAlpha, hu, hl, hne]

theorem digit_idChar {c : Char} (h : c.isDigit = true) : isIdChar c = true := by
  simp [isIdChar, Char.isAlphanum, h]

theorem digit_misc {c : Char} (h : c.isDigit = true) : (c != 'e' && c != 'E') = true ∧ (c != '.') = true := by
  obtain ⟨h1, h2⟩ := digit_bounds h
  have e1 : 'e'.val.toNat = 101 := by decide
  have e2 : 'E'.val.toNat = 69 := by decide
  have e3 : '.'.val.toNat = 46 := by decide
  refine ⟨?_, ?_⟩
  · simp only [Bool.and_eq_true, bne_iff_ne]
    constructor <;> (intro he; subst he; omega)
  · simp only [bne_iff_ne]
    intro he; subst he; omega

theorem span_loop_all {p : Char → Bool} : ∀ (l acc : List Char), (∀ c ∈ l, p c = true) →
    List.span.loop p l acc = (acc.reverse ++ l, [])
  | [], acc, _ => by simp [List.span.loop]
  | c :: l, acc, h => by
    simp only [List.span.loop, h c (by simp)]
    rw [span_loop_all l (c :: acc) (fun x hx => h x (by simp [hx]))]
    simp

theorem span_all {p : Char → Bool} (l : List Char) (h : ∀ c ∈ l, p c = true) : l.span p = (l, []) := by
  simp [List.span, span_loop_all l [] h]

theorem parseNum_int {s : Str} (h : isIntLit s = true) : parseNum s = some (.int (digitsVal s)) := by
  simp only [isIntLit, allDigits, Bool.and_eq_true, Bool.not_eq_true', List.all_eq_true, Bool.or_eq_true,
    beq_iff_eq, bne_iff_ne] at h
  obtain ⟨⟨hne, hd⟩, hz⟩ := h
  have s1 := span_all (p := fun c => c != 'e' && c != 'E') s (fun c hc => (digit_misc (hd c hc)).1)
  have s2 := span_all (p := fun c => c != '.') s (fun c hc => (digit_misc (hd c hc)).2)
  have hall : allDigits s = true := by simp [allDigits, hne]; exact hd
  unfold parseNum
  simp only [s1, s2]
  simp [hall, hz]

theorem intLit_shape {s : Str} (h : isIntLit s = true) : ∃ c cs, s = c :: cs ∧ ∀ d ∈ c :: cs, d.isDigit = true := by
  simp only [isIntLit, allDigits, Bool.and_eq_true, Bool.not_eq_true', List.all_eq_true] at h
  cases s with
  | nil => simp at h
  | cons c cs => exact ⟨c, cs, rfl, h.1.2⟩

/-- every non-negative integer literal is an atom (the `SrcOK` hypothesis holds for every int constant) -/
theorem atomOf_int {s : Str} (h : isIntLit s = true) : atomOf s = some (.int (digitsVal s)) := by
  obtain ⟨c, cs, rfl, hd⟩ := intLit_shape h
  have hc := hd c (by simp)
  have hna := digit_not_alpha hc
  have hid : isIdent (c :: cs) = false := by simp [isIdent, hna]
  have hstart : startChar c = some (.word [c], []) := by simp [startChar, isIdChar_word (digit_idChar hc)]
  have hlex : lex (c :: cs) = some [.int (digitsVal (c :: cs))] := by
    simp only [lex, lexGo, hstart]
    rw [lexGo_word_run cs [c] (fun d hd' => digit_idChar (hd d (by simp [hd'])))]
    simp [wordTok, hna, parseNum_int h]
  simp [atomOf, hid, hlex]

theorem atomOf_ident {s : Str} (h : isIdent s = true) : atomOf s = some (.name s) := by simp [atomOf, h]

/-- … and so is a minus sign followed by one (`repr` of a negative int) -/
theorem atomOf_negInt {r : Str} (h : isIntLit r = true) : atomOf ('-' :: r) = some (.neg (.int (digitsVal r))) := by
  have hid : isIdent ('-' :: r) = false := by simp [isIdent]
  have hr : lex r = some [.int (digitsVal r)] := by
    have := atomOf_int h
    obtain ⟨c, cs, rfl, hd⟩ := intLit_shape h
    have hc := hd c (by simp)
    have hna := digit_not_alpha hc
    have hstart : startChar c = some (.word [c], []) := by simp [startChar, isIdChar_word (digit_idChar hc)]
    simp only [lex, lexGo, hstart]
    rw [lexGo_word_run cs [c] (fun d hd' => digit_idChar (hd d (by simp [hd'])))]
    simp [wordTok, hna, parseNum_int h]
  have hstart : startChar '-' = some (.idle, [.minus]) := rfl
  have hlex : lex ('-' :: r) = some [.minus, .int (digitsVal r)] := by
    simp only [lex, lexGo, hstart]
    simp only [lex] at hr
    simp [hr]
  simp [atomOf, hid, hlex]

end PyLang
