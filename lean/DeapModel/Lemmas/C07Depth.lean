/-
C07 — NSGA-III front priority stated on the Pareto depth of C04.

`selNSGA3` (Core/Nsga3.lean) works on ids and takes the Pareto fronts as an input.  Here the fronts
are the ones C04 characterises (`x ∈ fronts[i] ↔ x ∈ pop ∧ depth domI pop x = i`), mapped to ids, and
the conclusion is: no omitted individual has a strictly smaller dominance depth than a selected one.
-/
import DeapModel.Lemmas.C07Nsga3
import DeapModel.Props.C04

set_option linter.unusedSectionVars false
set_option linter.unusedVariables false

namespace C07L
open Nsga3 NDSort

/-- everything `selNSGA3` returns is a member of one of the fronts it was given -/
theorem selNSGA3_mem_flatten {γ : Type} [LT γ] [DecidableLT γ] (fronts : List (List Nat)) (k : Nat)
    (niches : List Nat) (dist : List γ) (dflt : γ) (nref : Nat) (tape : Tape) (res : List Nat)
    (h : selNSGA3 fronts k niches dist dflt nref tape = .ok res) :
    ∀ z ∈ res, z ∈ fronts.flatten := by
  obtain ⟨last, st, hl, hs, rfl⟩ := selNSGA3_ok fronts k niches dist dflt nref tape res h
  have inv := (niching_spec _ _ _ _ _ _ _ st hs).1
  intro z hz
  rw [flatten_split fronts last hl]
  rcases List.mem_append.1 hz with hz | hz
  · exact List.mem_append_left _ hz
  · obtain ⟨p, hp, rfl⟩ := List.mem_map.1 hz
    rw [getD_lt _ _ _ (inv.lt p hp)]
    exact List.mem_append_right _ (List.getElem_mem _)

/-- **Depth priority.**  If the fronts handed to `selNSGA3` are the depth classes of `S` (front `i` =
the members of `S` of dominance depth `i`) and ids identify the members of `S`, then whenever `x` is
selected every `y` of strictly smaller depth is selected too. -/
theorem selNSGA3_depth_priority {β : Type} [DecidableEq β] {γ : Type} [LT γ] [DecidableLT γ]
    (dom : β → β → Bool) (S : List β) (idOf : β → Nat)
    (hinj : ∀ x ∈ S, ∀ y ∈ S, idOf x = idOf y → x = y)
    (fr : List (List β))
    (hfr : ∀ i f, fr[i]? = some f → ∀ x, x ∈ f ↔ x ∈ S ∧ depth dom S x = i)
    (k : Nat) (niches : List Nat) (dist : List γ) (dflt : γ) (nref : Nat) (tape : Tape) (res : List Nat)
    (h : selNSGA3 (fr.map (·.map idOf)) k niches dist dflt nref tape = .ok res) :
    ∀ x ∈ S, ∀ y ∈ S, idOf x ∈ res → depth dom S y < depth dom S x → idOf y ∈ res := by
  intro x hx y hy hxr hlt
  have hfl := selNSGA3_mem_flatten _ k niches dist dflt nref tape res h _ hxr
  obtain ⟨l, hl, hxl⟩ := List.mem_flatten.1 hfl
  obtain ⟨f, hf, rfl⟩ := List.mem_map.1 hl
  obtain ⟨x', hx'f, hx'⟩ := List.mem_map.1 hxl
  obtain ⟨f2, h2, hf2⟩ := List.getElem_of_mem hf
  have hget2 : fr[f2]? = some f := by rw [List.getElem?_eq_getElem h2, hf2]
  have hx'S := (hfr f2 f hget2 x').1 hx'f
  have hxx : x' = x := hinj x' hx'S.1 x hx hx'
  have hdx : depth dom S x = f2 := hxx ▸ hx'S.2
  have h1 : depth dom S y < fr.length := by omega
  have hget1 : fr[depth dom S y]? = some fr[depth dom S y] := List.getElem?_eq_getElem h1
  have hyf : y ∈ fr[depth dom S y] := (hfr _ _ hget1 y).2 ⟨hy, rfl⟩
  have h2' : f2 < (fr.map (·.map idOf)).length := by simpa using h2
  refine selNSGA3_front_priority _ k niches dist dflt nref tape res h (depth dom S y) f2
    (hdx ▸ hlt) h2' (idOf y) ?_
  rw [getD_lt _ _ _ (by simpa using h1), List.getElem_map]
  exact List.mem_map.2 ⟨y, hyf, rfl⟩

/-- ids without repetition identify the individuals of the population -/
theorem id_inj_of_nodup {α : Type} (pop : List (Ind α)) (hid : (pop.map (·.id)).Nodup) :
    ∀ x ∈ pop, ∀ y ∈ pop, x.id = y.id → x = y :=
  fun x hx y hy he => List.inj_on_of_nodup_map hid hx hy he

/-- population for the examples: depths 0, 1, 1, 2 -/
abbrev exPopD : List (Ind Int) := [⟨0, [2, 2]⟩, ⟨1, [1, 0]⟩, ⟨2, [0, 1]⟩, ⟨3, [0, 0]⟩]

/-- the hypotheses of `selNSGA3_depth_priority` on a concrete instance: four individuals, `k = 2`,
the fronts of `sortNondominated` (`[[0], [1, 2]]` as ids); the first front is taken whole and the
niching picks individual `2` out of the last front — individual `1` (same depth) is omitted. -/
example :
    (∀ x ∈ exPopD, ∀ y ∈ exPopD, x.id = y.id → x = y) ∧
    (∀ i f, ([[⟨0, [2, 2]⟩], [⟨1, [1, 0]⟩, ⟨2, [0, 1]⟩]] : List (List (Ind Int)))[i]? = some f →
      ∀ x, x ∈ f ↔ x ∈ exPopD ∧ depth domI exPopD x = i) ∧
    selNSGA3 (([[⟨0, [2, 2]⟩], [⟨1, [1, 0]⟩, ⟨2, [0, 1]⟩]] : List (List (Ind Int))).map (·.map (·.id)))
      2 [0, 0, 1] ([0, 5, 3] : List Int) 0 2 [[1], [1]] = .ok [0, 2] := by
  refine ⟨by decide, ?_, by decide⟩
  exact C04.sortStd_front_iff_depth exPopD (by decide) 2 (by decide) 2 _ (by decide)

variable {α : Type} [LinearOrder α]

/-- **Depth priority, `sortNondominated`.**  `selNSGA3` run on the fronts returned by
`sortNondominated(pop, k)` never omits an individual of strictly smaller dominance depth than one it
selects. -/
theorem selNSGA3_depth_priority_std {γ : Type} [LT γ] [DecidableLT γ]
    (pop : List (Ind α)) (hne : pop ≠ []) (m : Nat) (hlen : ∀ x ∈ pop, x.w.length = m)
    (hid : (pop.map (·.id)).Nodup) (k : Nat) (fr : List (List (Ind α)))
    (hs : sortStd pop k false = some fr)
    (niches : List Nat) (dist : List γ) (dflt : γ) (nref : Nat) (tape : Tape) (res : List Nat)
    (h : selNSGA3 (fr.map (·.map (·.id))) k niches dist dflt nref tape = .ok res) :
    ∀ x ∈ pop, ∀ y ∈ pop, x.id ∈ res → depth domI pop y < depth domI pop x → y.id ∈ res :=
  selNSGA3_depth_priority domI pop (·.id) (id_inj_of_nodup pop hid) fr
    (fun i f hf x => C04.sortStd_front_iff_depth pop hne m hlen k fr hs i f hf x)
    k niches dist dflt nref tape res h

example : exPopD ≠ [] ∧ (∀ x ∈ exPopD, x.w.length = 2) ∧ (exPopD.map (·.id)).Nodup ∧
    sortStd exPopD 2 false = some [[⟨0, [2, 2]⟩], [⟨1, [1, 0]⟩, ⟨2, [0, 1]⟩]] ∧
    selNSGA3 (([[⟨0, [2, 2]⟩], [⟨1, [1, 0]⟩, ⟨2, [0, 1]⟩]] : List (List (Ind Int))).map (·.map (·.id)))
      2 [0, 0, 1] ([0, 5, 3] : List Int) 0 2 [[1], [1]] = .ok [0, 2] := by decide

section Log
variable {𝕜 : Type} [Field 𝕜] [LinearOrder 𝕜] [IsStrictOrderedRing 𝕜] [Inhabited 𝕜]

/-- **Depth priority, `sortLogNondominated`.**  The same for the fronts returned by
`sortLogNondominated(pop, k)` (at least two objectives). -/
theorem selNSGA3_depth_priority_log {γ : Type} [LT γ] [DecidableLT γ]
    (pop : List (Ind 𝕜)) (m : Nat) (hm : 2 ≤ m) (hne : pop ≠ []) (hlen : ∀ x ∈ pop, x.w.length = m)
    (hid : (pop.map (·.id)).Nodup) (k : Nat) (fr : List (List (Ind 𝕜)))
    (hs : sortLog pop k = some fr)
    (niches : List Nat) (dist : List γ) (dflt : γ) (nref : Nat) (tape : Tape) (res : List Nat)
    (h : selNSGA3 (fr.map (·.map (·.id))) k niches dist dflt nref tape = .ok res) :
    ∀ x ∈ pop, ∀ y ∈ pop, x.id ∈ res → depth domI pop y < depth domI pop x → y.id ∈ res :=
  selNSGA3_depth_priority domI pop (·.id) (id_inj_of_nodup pop hid) fr
    (fun i f hf x => C04.sortLog_front_iff_depth pop m hm hne hlen k fr hs i f hf x)
    k niches dist dflt nref tape res h

example : (2 : Nat) ≤ 2 ∧
    ([⟨0, [2, 2]⟩, ⟨1, [1, 0]⟩, ⟨2, [1, 0]⟩] : List (Ind ℚ)) ≠ [] ∧
    (∀ x ∈ ([⟨0, [2, 2]⟩, ⟨1, [1, 0]⟩, ⟨2, [1, 0]⟩] : List (Ind ℚ)), x.w.length = 2) ∧
    (([⟨0, [2, 2]⟩, ⟨1, [1, 0]⟩, ⟨2, [1, 0]⟩] : List (Ind ℚ)).map (·.id)).Nodup ∧
    sortLog ([⟨0, [2, 2]⟩, ⟨1, [1, 0]⟩, ⟨2, [1, 0]⟩] : List (Ind ℚ)) 2 =
      some [[⟨0, [2, 2]⟩], [⟨1, [1, 0]⟩, ⟨2, [1, 0]⟩]] ∧
    selNSGA3 (([[⟨0, [2, 2]⟩], [⟨1, [1, 0]⟩, ⟨2, [1, 0]⟩]] : List (List (Ind ℚ))).map (·.map (·.id)))
      2 [0, 0, 1] ([0, 5, 3] : List Int) 0 2 [[1], [1]] = .ok [0, 2] := by
  refine ⟨by decide, by simp, by decide, by decide, ?_, by decide⟩
  simp [sortLog, logRanks, dset, dget, dkeys, dvalues, helperA, logFronts, logTruncate, logTruncate.go,
    List.modify, List.mergeSort, Py.tupleLt, isDominated, isDominatedLoop, bump]

end Log

end C07L
