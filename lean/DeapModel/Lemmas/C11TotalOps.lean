/-
Helper lemmas for C11: totality of the variation operators on well-formed inputs.
-/
import DeapModel.Lemmas.C11Total

namespace GpTree

theorem idxGo_ne_nil {α : Type} {f : α → Bool} : ∀ {l : List α} {i : Nat}, (∃ x ∈ l, f x = true) → idxGo f l i ≠ []
  | [], _, h => by simp at h
  | a :: l, i, h => by
    simp only [idxGo]
    by_cases ha : f a = true
    · simp [ha]
    · simp only [ha]
      obtain ⟨x, hx, hfx⟩ := h
      rcases List.mem_cons.1 hx with rfl | hx
      · exact absurd hfx ha
      · exact idxGo_ne_nil ⟨x, hx, hfx⟩

theorem mem_keysOf {f : Prim → Bool} {l : List Prim} {τ : Nat} (h : τ ∈ keysOf f l) :
    ∃ p ∈ l.drop 1, f p = true ∧ p.ret = τ := by
  unfold keysOf at h
  rw [List.mem_eraseDups] at h
  obtain ⟨p, hp, rfl⟩ := List.mem_map.1 h
  obtain ⟨hp1, hp2⟩ := List.mem_filter.1 hp
  exact ⟨p, hp1, hp2, rfl⟩

theorem popPick_ok' {common : List Nat} {τ : Nat} {tp tp' : Tape} (h : popPick common tp = .ok (τ, tp')) :
    τ ∈ common := popChoice_mem h

/-- candidates of the chosen common type exist in both parents -/
theorem cands_ne_nil {f1 f2 : Prim → Bool} {l1 l2 : List Prim} {τ : Nat} (h : τ ∈ commonTypes f1 f2 l1 l2) :
    idxFrom1 (fun p => f1 p && p.ret == τ) l1 ≠ [] ∧ idxFrom1 (fun p => f2 p && p.ret == τ) l2 ≠ [] := by
  unfold commonTypes at h
  obtain ⟨h1, h2⟩ := List.mem_filter.1 h
  have h2' : τ ∈ keysOf f2 l2 := by simpa using h2
  obtain ⟨p1, hp1, hf1, hr1⟩ := mem_keysOf h1
  obtain ⟨p2, hp2, hf2, hr2⟩ := mem_keysOf h2'
  exact ⟨idxGo_ne_nil ⟨p1, hp1, by simp [hf1, hr1]⟩, idxGo_ne_nil ⟨p2, hp2, by simp [hf2, hr2]⟩⟩

/-- the slice swap never raises on well-formed parents -/
theorem swapAt_benign {sub} (trans : ∀ a b c, sub a b = true → sub b c = true → sub a c = true)
    (refl : ∀ a, sub a a = true) {r1 r2 : Nat} {ind1 ind2 : List Prim} {c1 c2 : List Nat} {tp : Tape}
    (h1 : typed sub [r1] ind1 = true) (h2 : typed sub [r2] ind2 = true)
    (hc : ∀ i1 ∈ c1, ∀ i2 ∈ c2, ∃ p1 p2, ind1[i1]? = some p1 ∧ ind2[i2]? = some p2 ∧
      sub p2.ret p1.ret = true ∧ sub p1.ret p2.ret = true)
    (hn1 : c1 ≠ []) (hn2 : c2 ≠ []) : Benign 2 tp (swapAt ind1 ind2 c1 c2 tp) := by
  unfold swapAt
  cases hch1 : popChoice c1 tp with
  | error e => exact (popChoice_err hn1 hch1).benign (by omega)
  | ok v =>
    obtain ⟨i1, tp1⟩ := v
    simp only
    cases hch2 : popChoice c2 tp1 with
    | error e => exact (popChoice_err hn2 hch2).benign_after (k := 1) (by have := (popChoice_ok hch1).2; omega) (by omega)
    | ok v =>
      obtain ⟨i2, tp2⟩ := v
      simp only
      obtain ⟨p1, p2, hp1, hp2, s21, s12⟩ := hc i1 (popChoice_mem hch1) i2 (popChoice_mem hch2)
      obtain ⟨e1, hs1, _, _, ht1, _, hset1⟩ := splice trans refl h1 hp1
      obtain ⟨e2, hs2, _, _, ht2, _, hset2⟩ := splice trans refl h2 hp2
      rw [hs1, hs2]
      simp only
      rw [(hset1 _ (typed_slot_mono trans ht2 s21)).1, (hset2 _ (typed_slot_mono trans ht1 s12)).1]
      simp [Benign]

/-- the `for i in ephemerals_idx` loop never raises when the indices are in range -/
theorem reinstAll_benign : ∀ (is : List Nat) (ind : List Prim) (tp : Tape), (∀ i ∈ is, i < ind.length) →
    Benign (is.length + 1) tp (reinstAll ind is tp)
  | [], ind, tp, _ => by simp [reinstAll, Benign]
  | i :: is, ind, tp, h => by
    have hi := h i (by simp)
    simp only [reinstAll]
    rw [List.getElem?_eq_getElem hi]
    simp only
    cases hin : instantiate ind[i] tp with
    | error e => exact (instantiate_err hin).benign (by simp)
    | ok v =>
      obtain ⟨n', tp1⟩ := v
      obtain ⟨⟨_, e2, _, _⟩, hl1, hl2⟩ := instantiate_ok hin
      simp only
      have hset : setItem ind i n' = some (ind.set i n') := by
        unfold setItem
        rw [List.getElem?_eq_getElem hi]
        simp [Prim.arity, e2]
      rw [hset]
      simp only
      have ih := reinstAll_benign is (ind.set i n') tp1 (by intro j hj; simpa using h j (by simp [hj]))
      cases hrec : reinstAll (ind.set i n') is tp1 with
      | ok v => simp [Benign]
      | error e =>
        rw [hrec] at ih
        cases e <;> simp [Benign] at ih ⊢ <;> omega

theorem idxGo_lt {α : Type} {f : α → Bool} {l : List α} {i j : Nat} (h : j ∈ idxGo f l i) : j < i + l.length := by
  obtain ⟨k, x, rfl, hx, _⟩ := mem_idxGo h
  have : k < l.length := by
    rcases Nat.lt_or_ge k l.length with h' | h'
    · exact h'
    · simp [List.getElem?_eq_none h'] at hx
  omega

/-- the argument loop of `mutInsert` never raises when every argument type has a terminal -/
theorem insertArgs_benign {ps : Pset} {subl : List Prim} {position : Nat} :
    ∀ (args : List Nat) (i : Nat) (tp : Tape), (∀ a ∈ args, ps.terms a ≠ []) →
      Benign (2 * args.length + 1) tp (insertArgs ps subl position i args tp)
  | [], i, tp, _ => by simp [insertArgs, Benign]
  | a :: as, i, tp, h => by
    have has : ∀ b ∈ as, ps.terms b ≠ [] := fun b hb => h b (by simp [hb])
    simp only [insertArgs]
    split
    · have ih := insertArgs_benign (ps := ps) (subl := subl) (position := position) as (i + 1) tp has
      cases hrec : insertArgs ps subl position (i + 1) as tp with
      | ok v => simp [Benign]
      | error e =>
        rw [hrec] at ih
        cases e <;> simp [Benign] at ih ⊢ <;> omega
    · cases hch : popChoice (ps.terms a) tp with
      | error e => exact (popChoice_err (h a (by simp)) hch).benign (by simp)
      | ok v =>
        obtain ⟨term, tp1⟩ := v
        have hl1 := (popChoice_ok hch).2
        simp only
        cases hin : instantiate term tp1 with
        | error e => exact (instantiate_err hin).benign_after (k := 1) (by omega) (by simp)
        | ok v =>
          obtain ⟨term', tp2⟩ := v
          obtain ⟨_, hl2, hl2'⟩ := instantiate_ok hin
          simp only
          have ih := insertArgs_benign (ps := ps) (subl := subl) (position := position) as (i + 1) tp2 has
          cases hrec : insertArgs ps subl position (i + 1) as tp2 with
          | ok v => simp [Benign]
          | error e =>
            rw [hrec] at ih
            cases e <;> simp [Benign] at ih ⊢ <;> omega

/-- the core of `mutShrink` once the node and the argument are chosen: every list-level step succeeds -/
theorem shrink_step {sub} (refl : ∀ a, sub a a = true)
    (trans : ∀ a b c, sub a b = true → sub b c = true → sub a c = true)
    {r : Nat} {ind : List Prim} {index argIdx : Nat} {prim : Prim}
    (h1 : typed sub [r] ind = true) (hp : ind[index]? = some prim) (ha : prim.args[argIdx]? = some prim.ret) :
    ∃ rb re b e out, nthArgSpan ind argIdx (index + 1) = some (rb, re) ∧ searchSubtree ind index = some (b, e) ∧
      setSlice ind b e (getSlice ind rb re) = some out := by
  obtain ⟨pre, s, post, σ, rest, rfl, hlen, hroot, hw, hr, hx⟩ := span_info h1 hp
  subst hlen
  cases s with
  | node q cs =>
    simp [Tree.root] at hroot; subst hroot
    have hw' := hw
    simp only [wt, Bool.and_eq_true] at hw'
    obtain ⟨c, hc, hwc⟩ := wtF_get _ _ _ _ hw'.2 ha
    have hwf := wfF_of_wtF hw'.2
    obtain ⟨rb, hn1, hn2⟩ := nthArgSpan_spec argIdx (pre ++ [q]) cs post c hwf hc
    have el : pre ++ flatten (.node q cs) ++ post = pre ++ [q] ++ flattenF cs ++ post := by
      simp [flatten]
    have hsp := searchSubtree_at pre post (.node q cs) (wf_of_wt hw)
    obtain ⟨e', hs', _, _, _, _, hset⟩ := splice trans refl h1 hp
    rw [hsp] at hs'; simp at hs'; subst hs'
    obtain ⟨hres, _⟩ := hset (flatten c) (typed_iff_tree.2 ⟨c, hwc, rfl⟩)
    have hg : getSlice (pre ++ flatten (.node q cs) ++ post) rb (rb + c.size) = flatten c := by
      rw [el]; exact hn2
    have hnth : nthArgSpan (pre ++ flatten (.node q cs) ++ post) argIdx (pre.length + 1) = some (rb, rb + c.size) := by
      rw [el]; simpa using hn1
    exact ⟨rb, rb + c.size, pre.length, pre.length + (Tree.node q cs).size, _, hnth, hsp, by rw [hg]; exact hres⟩

end GpTree
