/-
C13 helper lemmas (1): the list/`tab`/`sumTo` layer of `Core/Cma.lean`, and its reading at `ℝ`
(`sumTo n f = ∑ i : Fin n, f i`).
-/
import DeapModel.Core.Cma
import DeapModel.RealInst
import Mathlib.Algebra.BigOperators.Fin
import Mathlib.Algebra.BigOperators.Group.List.Basic
import Mathlib.Algebra.BigOperators.Field

set_option linter.unusedSectionVars false
set_option linter.unusedSimpArgs false

open Cma

namespace C13L

theorem foldl_add_real (l : List ℝ) (a : ℝ) :
    l.foldl (fun x y => @HAdd.hAdd ℝ ℝ ℝ (@instHAdd ℝ RealLike.toAdd) x y) a = a + l.sum := by
  induction l generalizing a with
  | nil => simp
  | cons b t ih => simp only [List.foldl_cons, List.sum_cons, ih, RealLike.real_add]; ring

@[simp] theorem sum_real (l : List ℝ) : RealLike.sum l = l.sum := by
  unfold RealLike.sum
  rw [foldl_add_real]; simp

section generic
variable {α : Type} [RealLike α]

@[simp] theorem length_tab (n : Nat) (f : Nat → α) : (tab n f).length = n := by simp [tab]

@[simp] theorem length_tab2 (n m : Nat) (f : Nat → Nat → α) : (tab2 n m f).length = n := by simp [tab2]

@[simp] theorem vget_tab_fin {n : Nat} (f : Nat → α) (i : Fin n) : vget (tab n f) i.val = f i.val := by
  simp [vget, tab, List.getD_eq_getElem?_getD, i.isLt]

theorem vget_tab_lt {n : Nat} (f : Nat → α) {i : Nat} (h : i < n) : vget (tab n f) i = f i :=
  vget_tab_fin f ⟨i, h⟩

@[simp] theorem mget_tab2_fin {n m : Nat} (f : Nat → Nat → α) (i : Fin n) (j : Fin m) :
    mget (tab2 n m f) i.val j.val = f i.val j.val := by
  simp [mget, tab2, List.getD_eq_getElem?_getD, i.isLt]

theorem mget_tab2_lt {n m : Nat} (f : Nat → Nat → α) {i j : Nat} (hi : i < n) (hj : j < m) :
    mget (tab2 n m f) i j = f i j := mget_tab2_fin f ⟨i, hi⟩ ⟨j, hj⟩

theorem tab_congr {n : Nat} {f g : Nat → α} (h : ∀ i : Fin n, f i.val = g i.val) : tab n f = tab n g := by
  unfold tab
  apply List.map_congr_left
  intro a ha
  exact h ⟨a, List.mem_range.mp ha⟩

theorem tab2_congr {n m : Nat} {f g : Nat → Nat → α}
    (h : ∀ (i : Fin n) (j : Fin m), f i.val j.val = g i.val j.val) : tab2 n m f = tab2 n m g := by
  unfold tab2
  apply List.map_congr_left
  intro a ha
  exact tab_congr (fun j => h ⟨a, List.mem_range.mp ha⟩ j)

theorem mem_tab2_length {n m : Nat} (f : Nat → Nat → α) {r : List α} (h : r ∈ tab2 n m f) :
    r.length = m := by
  simp only [tab2, List.mem_map] at h
  obtain ⟨i, _, rfl⟩ := h
  simp

/-- a vector of the right length is the tabulation of its getter -/
theorem tab_vget {n : Nat} (v : List α) (h : v.length = n) : tab n (vget v) = v := by
  subst h
  apply List.ext_getElem
  · simp
  · intro i h1 h2
    simp [tab, vget, List.getD_eq_getElem?_getD, h2]

end generic

@[simp] theorem sumTo_real (n : Nat) (f : Nat → ℝ) : sumTo n f = ∑ i : Fin n, f i.val := by
  unfold sumTo tab
  rw [sum_real, ← Finset.sum_range (f := f)]
  induction n with
  | zero => simp
  | succ k ih => rw [List.range_succ, List.map_append, List.sum_append, ih, Finset.sum_range_succ]; simp

@[simp] theorem norm_real (n : Nat) (v : List ℝ) :
    Cma.norm n v = Real.sqrt (∑ i : Fin n, vget v i.val * vget v i.val) := by
  simp [Cma.norm]

/-- Rewrite the `RealLike` operations at `ℝ` to Mathlib's (`RealLike.real_lit` must not be combined
with `Nat.cast_ofNat` in one simp set: it also matches Mathlib's own literals and loops). -/
macro "real_bridge" : tactic => `(tactic| (
  (try simp only [RealLike.real_ofNat, RealLike.real_ofRatio, RealLike.real_sqrt, RealLike.real_exp,
    RealLike.real_log, RealLike.real_pow, RealLike.real_abs, RealLike.real_add, RealLike.real_sub,
    RealLike.real_mul, RealLike.real_div, RealLike.real_neg, RealLike.real_lt, RealLike.real_le,
    RealLike.real_lit, C13L.sumTo_real, C13L.norm_real, C13L.sum_real, C13L.vget_tab_fin,
    C13L.mget_tab2_fin]);
  (try simp only [Nat.cast_ofNat, Nat.cast_one, Nat.cast_zero, Int.cast_ofNat, Int.cast_one, Int.cast_zero,
    Real.rpow_two])))

end C13L
