import DeapModel.Lemmas.C15HvCRe0
/-!
C15 — the 3-D base case of `_hv.c` re-entered with a finite `bound[2]`: the facts about the list of dimension 2 read
off `InvC`, the contract of the ENTRY phase l.838-898 (`EntryRes`), the EXIT (from the invariant of the main loop at the
end of the list to `PostC`), and Case 1 (the last node is below the bound: the value is read off the caches).
-/
namespace HvC
set_option linter.unusedVariables false
open Hypervolume
open HvSweep (GCtx Hj RL preSet pos ARv VOLv ids Shaped)

/-! ### tables -/

theorem ar_setAr_self {d n : ℕ} {S : St} (h : Shaped (n + 1) d S.area) {a i : ℕ} (ha : a ≤ n) (hi : i < d) (v : ℚ) :
    ar (setAr S a i v) a i = v :=
  HvSweep.tget_tset_self _ _ _ _ _ (by rw [h.1]; omega) (by rw [h.2 a (by omega)]; exact hi)

theorem ar_setAr_ne (S : St) (a i a' i' : ℕ) (v : ℚ) (h : a' ≠ a ∨ i' ≠ i) : ar (setAr S a i v) a' i' = ar S a' i' :=
  HvSweep.tget_tset_ne _ _ _ _ _ _ _ h

theorem vl_setVl_self {d n : ℕ} {S : St} (h : Shaped (n + 1) d S.vol) {a i : ℕ} (ha : a ≤ n) (hi : i < d) (v : ℚ) :
    vl (setVl S a i v) a i = v :=
  HvSweep.tget_tset_self _ _ _ _ _ (by rw [h.1]; omega) (by rw [h.2 a (by omega)]; exact hi)

theorem vl_setVl_ne (S : St) (a i a' i' : ℕ) (v : ℚ) (h : a' ≠ a ∨ i' ≠ i) : vl (setVl S a i v) a' i' = vl S a' i' :=
  HvSweep.tget_tset_ne _ _ _ _ _ _ _ h

theorem dr_setDr_self (S : St) (a : ℕ) (v : ℚ) (h : a < S.domr.length) : dr (setDr S a v) a = v :=
  HvSweep.getD_set_self _ _ _ _ h

theorem dr_setDr_ne (S : St) (a b : ℕ) (v : ℚ) (h : b ≠ a) : dr (setDr S a v) b = dr S b :=
  HvSweep.getD_set_ne _ _ _ _ _ h

theorem ign_setIgn_self (S : St) (a : ℕ) (v : ℤ) (h : a < S.ignore.length) : ign (setIgn S a v) a = v :=
  HvSweep.getD_set_self _ _ _ _ h

/-! ### the list of dimension 2 -/

/-- what `InvC … S 2 A` says about the list of dimension 2 -/
structure L2 (C : Cargo) (R : List ℚ) (d n : ℕ) (O : ℕ → List ℕ) (S : St) (A : List ℕ) : Prop where
  hd : 2 < d
  dl : DLc n S 2 (RL O 2 A)
  mem : ∀ a, a ∈ RL O 2 A ↔ a ∈ A
  sorted : (RL O 2 A).Pairwise (fun a b => cg C a 2 ≤ cg C b 2)
  len : (RL O 2 A).length = A.length
  nd : (RL O 2 A).Nodup

theorem l2_of_inv {C : Cargo} {R : List ℚ} {d n : ℕ} {O : ℕ → List ℕ} {S : St} {A : List ℕ}
    (c : CCtx C R d n O) (inv : InvC C R d n O S 2 A) : L2 C R d n O S A := by
  have hd2 : 2 < d := c.hd
  have hperm := HvSweep.RL_perm c.g hd2 A inv.nodup inv.sub
  refine ⟨hd2, inv.lists 2 (le_refl _) (le_refl _), fun a => hperm.mem_iff, ?_, hperm.length_eq,
    HvSweep.RL_nodup c.g hd2 A⟩
  exact c.RL_sorted hd2 A

/-- `InvC` does not read `calls` -/
theorem invC_tick {C : Cargo} {R : List ℚ} {d n : ℕ} {O : ℕ → List ℕ} {S : St} {k : ℕ} {A : List ℕ}
    (inv : InvC C R d n O S k A) (m : ℕ) : InvC C R d n O (tick S m) k A :=
  { shape := inv.shape
    tsh := ⟨inv.tsh.area, inv.tsh.vol, inv.tsh.ign, inv.tsh.domr, inv.tsh.bound⟩
    nodup := inv.nodup
    sub := inv.sub
    good := inv.good
    lists := inv.lists
    cv := inv.cv
    ig := inv.ig
    igd := inv.igd
    dm := inv.dm
    tree := inv.tree }

/-- `PostC` does not read the `calls` of the initial state -/
theorem postC_tick {C : Cargo} {R : List ℚ} {d n : ℕ} {O : ℕ → List ℕ} {S S' : St} {k : ℕ} {A : List ℕ} {v : ℚ} (m : ℕ)
    (p : PostC C R d n O (tick S m) S' k A v) : PostC C R d n O S S' k A v :=
  { val := p.val
    ptr := p.ptr
    inv := p.inv
    ign_out := p.ign_out
    dr_out := p.dr_out
    cache_hi := p.cache_hi
    bound_hi := p.bound_hi }

theorem pv0_last {n : ℕ} {S : St} {L : List ℕ} (h : DLc n S 2 L) (hne : L ≠ []) : pv S 2 0 = L.getLast hne := by
  have := HvSweep.seg_pv_end (toSw S) 2 L 0 0 h.1
  rw [show HvSweep.pv (toSw S) 2 0 = pv S 2 0 from rfl] at this
  rw [this, List.getLast_cons hne]

/-! ### the contract of the entry phase l.838-898 -/

/-- what the entry phase hands to the main loop: the loop invariant for the nodes `P` taken from the caches, and what it
wrote (`bound[2]`, and `tree`, `domr`, `ignore`, `area[·][2]`, `vol[·][2]` of nodes of `A`) -/
structure EntryRes (C : Cargo) (R : List ℚ) (d n : ℕ) (O : ℕ → List ℕ) (A : List ℕ) (S S3 : St) (P Q : List ℕ)
    (hv ha : ℚ) : Prop where
  sl : SLInv C R d n O A S3 P Q hv ha
  next : S3.next = S.next
  prev : S3.prev = S.prev
  bound : S3.bound = S.bound.set 2 (some (cg C (pv S 2 0) 2))
  ign_out : ∀ y, y ∉ A → ign S3 y = ign S y
  dr_out : ∀ y, y ∉ A → dr S3 y = dr S y
  cache_hi : ∀ a i, i ≠ 2 → ar S3 a i = ar S a i ∧ vl S3 a i = vl S a i

/-- **the exit**: the main loop run from the state prepared by the entry phase, and `avl_clear_tree`, establish `PostC` -/
theorem exit_post (hloop : SweepLoopRe_Statement) {C : Cargo} {R : List ℚ} {d n : ℕ} {O : ℕ → List ℕ} {F : ℕ}
    (c : CCtx C R d n O) (hF : n + 2 ≤ F) {S : St} {A : List ℕ} (inv : InvC C R d n O S 2 A) (hA : 2 ≤ A.length)
    {S3 : St} {P Q : List ℕ} {hv ha : ℚ} (hE : EntryRes C R d n O A S S3 P Q hv ha)
    (hrun : ∀ v S', sweepLoop C R F F (Q.headD 0) hv ha S3 = some (v, S') → dim3 C R F S = some (v, avlClearTree S')) :
    ∃ v S', dim3 C R F S = some (v, S') ∧ PostC C R d n O S S' 2 A v := by
  have l2 := l2_of_inv c inv
  have hsplit := hE.sl.split
  have hLn : (RL O 2 A).length ≤ n := HvSweep.dl_length_le l2.dl
  have hQlen : Q.length ≤ F := by
    have : (RL O 2 A).length = P.length + Q.length := by rw [hsplit]; simp
    omega
  obtain ⟨v, ha', S', hsw, hSL, hnx, hpv, hbd, hcl, hig, hdr, hcache⟩ :=
    hloop C R d n O A F F P Q hv ha S3 c hE.sl hQlen (by omega)
  refine ⟨v, avlClearTree S', hrun v S' hsw, ?_⟩
  have hLne : RL O 2 A ≠ [] := by
    intro h
    have := l2.len
    rw [h] at this
    simp at this
    omega
  have hmemPQ : ∀ a, a ∈ P ++ Q ↔ a ∈ A := by
    intro a
    rw [← hsplit]
    exact l2.mem a
  have hQA : ∀ y, y ∉ A → y ∉ Q := fun y hy hq => hy ((hmemPQ y).mp (List.mem_append_right _ hq))
  have hPQA : ∀ y, y ∉ A → y ∉ P ++ Q := fun y hy hq => hy ((hmemPQ y).mp hq)
  have hlast : pv S 2 0 ∈ A := by
    rw [pv0_last l2.dl hLne]
    exact (l2.mem _).mp (List.getLast_mem _)
  have hbl : 2 < S.bound.length := by rw [inv.tsh.bound]; exact l2.hd
  have hb2 : S'.bound.getD 2 none = some (cg C (pv S 2 0) 2) := by
    rw [hbd, hE.bound]
    exact HvSweep.getD_set_self _ _ _ _ hbl
  have hval : v = Hj R (spt C R) 2 A := by
    have h1 := hSL.val
    simp only [zOf, sub_self, mul_zero, add_zero] at h1
    rw [h1]
    exact HvSweep.Hj_congr R (spt C R) 2 _ _ hmemPQ
  have hptr : PtrEqC S (avlClearTree S') := by
    intro i a
    refine ⟨?_, ?_⟩
    · show HvSweep.tget S'.next i a 0 = HvSweep.tget S.next i a 0
      rw [hnx, hE.next]
    · show HvSweep.tget S'.prev i a 0 = HvSweep.tget S.prev i a 0
      rw [hpv, hE.prev]
  exact
    { val := hval
      ptr := hptr
      inv :=
        { shape := hSL.shape
          tsh := ⟨hSL.tsh.area, hSL.tsh.vol, hSL.tsh.ign, hSL.tsh.domr, hSL.tsh.bound⟩
          nodup := inv.nodup
          sub := inv.sub
          good := inv.good
          lists := by
            intro i hi1 hi2
            have : i = 2 := by omega
            subst this
            exact hSL.dl
          cv := by
            intro j hj1 hjK a haA b hb hlt
            have : j = 1 := by omega
            subst this
            exact hSL.cache a ((hmemPQ a).mpr haA)
          ig := hSL.ig
          igd := hSL.igd
          dm := by
            intro a haA b hb hlt
            have hb' : S'.bound.getD 2 none = some b := hb
            rw [hb2] at hb'
            have hbe : b = cg C (pv S 2 0) 2 := (Option.some.inj hb').symm
            have haP : a ∈ P ++ Q := (hmemPQ a).mpr haA
            refine ⟨hSL.drge a haP, ?_, ?_⟩
            · intro q hq _ hbt
              exact hSL.drL a haP q ((hmemPQ q).mpr hq) hbt
            · intro hdlt
              have hnt : a ∉ S'.tree := by
                intro ht
                have h1 : dr S' a = rf R 2 := hSL.drT a ht
                have h2 : dr S' a < b := hdlt
                have h3 := inv.good (pv S 2 0) hlast 2 l2.hd
                rw [h1, hbe] at h2
                linarith
              obtain ⟨_, q, hq, hbt, hle⟩ := hSL.drout a haP hnt
              exact ⟨q, (hmemPQ q).mp hq, hbt, hle⟩
          tree := rfl }
      ign_out := by
        intro y hy
        show ign S' y = ign S y
        rw [hig y (hQA y hy), hE.ign_out y hy]
      dr_out := by
        intro y hy
        show dr S' y = dr S y
        rw [hdr y (hPQA y hy), hE.dr_out y hy]
      cache_hi := by
        intro a i hi
        have h1 := hcache a i (Or.inl (by omega))
        have h2 := hE.cache_hi a i (by omega)
        exact ⟨h1.1.trans h2.1, h1.2.trans h2.2⟩
      bound_hi := by
        intro i hi
        show S'.bound.getD i none = S.bound.getD i none
        rw [hbd, hE.bound]
        exact HvSweep.getD_set_ne _ _ _ _ _ (by omega) }

/-! ### Case 1: the last node is below the bound -/

theorem ltBound_some {S : St} {b x : ℚ} (h : S.bound.getD 2 none = some b) : ltBound S 2 x = decide (x < b) := by
  unfold ltBound geBound
  rw [h]
  by_cases hx : x < b
  · simp [hx, not_le.mpr hx]
  · simp [hx, not_lt.mp hx]

theorem geBound_some {S : St} {b x : ℚ} (h : S.bound.getD 2 none = some b) : geBound S 2 x = decide (b ≤ x) := by
  unfold geBound
  rw [h]

theorem case1_post {C : Cargo} {R : List ℚ} {d n : ℕ} {O : ℕ → List ℕ} {F : ℕ}
    (c : CCtx C R d n O) {S : St} {A : List ℕ} (inv : InvC C R d n O S 2 A) (hA : 2 ≤ A.length)
    {b : ℚ} (hb : S.bound.getD 2 none = some b) (hlt : cg C (pv S 2 0) 2 < b) :
    ∃ v S', dim3 C R F S = some (v, S') ∧ PostC C R d n O S S' 2 A v := by
  have l2 := l2_of_inv c inv
  have hLne : RL O 2 A ≠ [] := by
    intro h
    have := l2.len
    rw [h] at this
    simp at this
    omega
  have hlastE := pv0_last l2.dl hLne
  have hlast : pv S 2 0 ∈ A := by
    rw [hlastE]
    exact (l2.mem _).mp (List.getLast_mem _)
  refine ⟨vl S (pv S 2 0) 2 + ar S (pv S 2 0) 2 * (rf R 2 - cg C (pv S 2 0) 2), S, ?_, ?_⟩
  · unfold dim3
    simp only
    rw [ltBound_some hb, decide_eq_true hlt]
    simp only [if_true]
  · obtain ⟨h1, h2⟩ := inv.cv 1 (le_refl _) (by omega) (pv S 2 0) hlast b hb hlt
    have hL : RL O (1 + 1) A = (RL O 2 A).dropLast ++ [pv S 2 0] := by
      rw [hlastE]
      exact (List.dropLast_append_getLast hLne).symm
    have hH := HvSweep.Hj_of_last c.g 1 l2.hd A inv.sub _ _ hL
    rw [c.cg_tr' (inv.sub _ hlast) l2.hd (inv.good _ hlast _ l2.hd)] at hH
    exact
      { val := by
          rw [h1, h2, ← hH]
          ring
        ptr := fun _ _ => ⟨rfl, rfl⟩
        inv := inv
        ign_out := fun _ _ => rfl
        dr_out := fun _ _ => rfl
        cache_hi := fun _ _ _ => ⟨rfl, rfl⟩
        bound_hi := fun _ _ => rfl }

end HvC
