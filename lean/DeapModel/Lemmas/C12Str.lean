/-
Helper lemmas for C12: the string builder of `__str__` computes `render`.
-/
import DeapModel.Core.GpCompile
import DeapModel.Lemmas.C11Basic

namespace GpCompile
open GpTree

abbrev Frame := Prim × List Str
abbrev SState := Str × List Frame

/-- one `for node in self` iteration -/
def sstep (state : SState) (node : Prim) : SState := unwind node [] state.2 state.1

/-- what completing a subtree with text `r` does to the machine: hand `r` to the frame below
(or finish when there is none) -/
def push (r : Str) : List Frame → SState
  | [] => (r, [])
  | (q, qa) :: st => unwind q (qa ++ [r]) st r

theorem unwind_full {p : Prim} {args : List Str} (h : args.length = p.arity) (st : List Frame) (s : Str) :
    unwind p args st s = push (fmt p args) st := by
  cases st with
  | nil => simp [unwind, h, push]
  | cons f st => obtain ⟨q, qa⟩ := f; simp [unwind, h, push]

theorem unwind_open {p : Prim} {args : List Str} (h : args.length ≠ p.arity) (st : List Frame) (s : Str) :
    unwind p args st s = (s, (p, args) :: st) := by
  cases st with
  | nil => simp [unwind, h]
  | cons f st => obtain ⟨q, qa⟩ := f; simp [unwind, h]

theorem renderF_length (ts : List Tree) : (renderF ts).length = ts.length := by
  induction ts with
  | nil => simp [renderF]
  | cons t ts ih => simp [renderF, ih]

theorem renderF_append (a b : List Tree) : renderF (a ++ b) = renderF a ++ renderF b := by
  induction a with
  | nil => simp [renderF]
  | cons t ts ih => simp [renderF, ih]

mutual
/-- processing the prefix form of a well-formed tree hands `render t` to the frame below -/
theorem run_flatten : ∀ (t : Tree) (s : Str) (st : List Frame) (rest : List Prim), wf t = true →
    (flatten t ++ rest).foldl sstep (s, st) = rest.foldl sstep (push (render t) st)
  | .node p as, s, st, rest, h => by
    simp [wf] at h
    simp only [flatten, List.cons_append, List.foldl_cons, sstep, render]
    cases as with
    | nil =>
      have h0 : ([] : List Str).length = p.arity := by simpa using h.1
      rw [unwind_full h0]; simp [flattenF, renderF]
    | cons c cs =>
      have h0 : ([] : List Str).length ≠ p.arity := by
        have := h.1; simp at this ⊢; omega
      rw [unwind_open h0]
      have := run_flattenF (c :: cs) p [] s st rest h.2 (by simp) (by simpa using h.1)
      rw [this]; simp
      rw [unwind_full (by simp [renderF_length]; exact h.1)]
  /-- processing the argument subtrees `cs` of an open frame `(p, done)` -/
theorem run_flattenF : ∀ (cs : List Tree) (p : Prim) (done : List Str) (s : Str) (st : List Frame) (rest : List Prim),
    wfF cs = true → cs ≠ [] → done.length + cs.length = p.arity →
    (flattenF cs ++ rest).foldl sstep (s, (p, done) :: st) =
      rest.foldl sstep (unwind p (done ++ renderF cs) st [])
  | [], _, _, _, _, _, _, hne, _ => by simp at hne
  | c :: cs, p, done, s, st, rest, h, _, hl => by
    simp [wfF] at h
    simp only [flattenF, List.append_assoc]
    rw [run_flatten c s ((p, done) :: st) (flattenF cs ++ rest) h.1]
    simp only [push]
    cases cs with
    | nil =>
      simp [flattenF, renderF]
      have hf : (done ++ [render c]).length = p.arity := by simp; simpa using hl
      rw [unwind_full hf, unwind_full hf]
    | cons c2 cs2 =>
      have hf : (done ++ [render c]).length ≠ p.arity := by simp at hl ⊢; omega
      rw [unwind_open hf]
      have := run_flattenF (c2 :: cs2) p (done ++ [render c]) (render c) st rest h.2 (by simp)
        (by simp at hl ⊢; omega)
      rw [this]; simp [renderF]
end

theorem strBuilder_flatten {t : Tree} (h : wf t = true) : strBuilder (flatten t) = render t := by
  have := run_flatten t [] [] [] h
  simp only [List.append_nil, List.foldl_nil, push] at this
  unfold strBuilder
  have e : (fun (state : Str × List (Prim × List Str)) node => unwind node [] state.2 state.1) = sstep := rfl
  rw [e, this]

end GpCompile
