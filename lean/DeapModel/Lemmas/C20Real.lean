/-
C20 — bridge lemmas: the `RealLike` list helpers and the literals of `Core/Bench*.lean` at `α = ℝ`.
-/
import DeapModel.RealInst
import DeapModel.Core.Bench
import DeapModel.Core.BenchMO
import Mathlib.Algebra.BigOperators.Group.List.Basic
import Mathlib.Tactic.Ring
import Mathlib.Tactic.Linarith
import Mathlib.Tactic.Positivity
import Mathlib.Tactic.FieldSimp
import Mathlib.Tactic.NormNum

set_option linter.unusedSimpArgs false

/- `RealLike.real_lit` is not a global simp lemma (with `Nat.cast_ofNat` it would loop); it is used
explicitly in `real_bridge`, followed by `push_cast` / `norm_num`. -/

namespace C20L
open RealLike Bench

theorem foldl_add (l : List ℝ) (a : ℝ) : List.foldl (fun x1 x2 => x1 + x2) a l = a + l.sum := by
  induction l generalizing a with
  | nil => simp
  | cons x t ih => simp only [List.foldl_cons, List.sum_cons]; rw [ih]; ring

theorem foldl_mul (l : List ℝ) (a : ℝ) : List.foldl (fun x1 x2 => x1 * x2) a l = a * l.prod := by
  induction l generalizing a with
  | nil => simp
  | cons x t ih => simp only [List.foldl_cons, List.prod_cons]; rw [ih]; ring

/-- Python's `sum` at ℝ is the mathematical sum. -/
@[simp] theorem real_sum (l : List ℝ) : RealLike.sum l = l.sum := by
  unfold RealLike.sum
  simp only [real_ofNat, Nat.cast_zero, real_add]
  simpa using foldl_add l 0

/-- `reduce(mul, l, init)` at ℝ. -/
@[simp] theorem real_prod (init : ℝ) (l : List ℝ) : RealLike.prod init l = init * l.prod := by
  unfold RealLike.prod
  simp only [real_mul]
  exact foldl_mul l init

@[simp] theorem real_dec (n : Int) (d : Nat) : (dec n d : ℝ) = (n : ℝ) / (d : ℝ) := rfl
@[simp] theorem real_nat (n : Nat) : (nat n : ℝ) = (n : ℝ) := rfl
@[simp] theorem real_sq (x : ℝ) : Bench.sq x = x ^ 2 := by unfold Bench.sq; simp only [real_mul]; ring

@[simp] theorem real_npow (x : ℝ) (n : Nat) : npow x n = x ^ n := by
  induction n using Nat.strongRecOn with
  | _ n ih =>
    match n with
    | 0 => simp [npow]
    | 1 => simp [npow]
    | k + 2 => rw [npow, ih (k + 1) (by omega)]; simp only [real_mul]; ring

/-- rewrite every `RealLike` operation / literal / list helper at ℝ to the Mathlib one -/
macro "real_bridge" : tactic =>
  `(tactic| simp only [RealLike.real_lit, RealLike.real_add, RealLike.real_sub, RealLike.real_mul,
    RealLike.real_div, RealLike.real_neg, RealLike.real_ofNat, RealLike.real_ofRatio, RealLike.real_sqrt,
    RealLike.real_exp, RealLike.real_log, RealLike.real_sin, RealLike.real_cos, RealLike.real_pi,
    RealLike.real_pow, RealLike.real_abs, RealLike.real_lt, RealLike.real_le,
    C20L.real_sum, C20L.real_prod, C20L.real_dec, C20L.real_nat, C20L.real_sq, C20L.real_npow])

theorem adjacent_replicate {β : Type} [RealLike β] (n : Nat) (a : β) :
    adjacent (List.replicate n a) = List.replicate (n - 1) (a, a) := by
  cases n with
  | zero => simp [adjacent]
  | succ k =>
    simp only [adjacent, List.replicate_succ, List.tail_cons, Nat.add_sub_cancel]
    induction k with
    | zero => simp
    | succ j ih => simp only [List.replicate_succ, List.zip_cons_cons] at ih ⊢; rw [ih]

theorem enumFrom_map_snd {β : Type} (k : Nat) (l : List β) : (enumFrom k l).map (·.2) = l := by
  induction l generalizing k with
  | nil => simp [enumFrom]
  | cons a t ih => simp [enumFrom, ih]

theorem enumFrom_replicate_snd {β : Type} (k n : Nat) (a : β) :
    ∀ p ∈ enumFrom k (List.replicate n a), p.2 = a := by
  induction n generalizing k with
  | zero => simp [enumFrom]
  | succ m ih =>
    intro p hp
    simp only [List.replicate_succ, enumFrom, List.mem_cons] at hp
    rcases hp with h | h
    · subst h; rfl
    · exact ih (k + 1) p h

theorem enumFrom_length {β : Type} (k : Nat) (l : List β) : (enumFrom k l).length = l.length := by
  induction l generalizing k with
  | nil => simp [enumFrom]
  | cons a t ih => simp [enumFrom, ih]

/-- a sum of terms that all vanish -/
theorem sum_map_eq_zero {β : Type} (l : List β) (f : β → ℝ) (h : ∀ p ∈ l, f p = 0) : (l.map f).sum = 0 := by
  induction l with
  | nil => simp
  | cons a t ih =>
    simp only [List.map_cons, List.sum_cons]
    rw [h a (by simp), ih (fun p hp => h p (by simp [hp]))]; ring

/-- a product of factors that are all one -/
theorem prod_map_eq_one {β : Type} (l : List β) (f : β → ℝ) (h : ∀ p ∈ l, f p = 1) : (l.map f).prod = 1 := by
  induction l with
  | nil => simp
  | cons a t ih =>
    simp only [List.map_cons, List.prod_cons]
    rw [h a (by simp), ih (fun p hp => h p (by simp [hp]))]; ring

/-- a sum of equal terms -/
theorem sum_map_const {β : Type} (l : List β) (f : β → ℝ) (c : ℝ) (h : ∀ p ∈ l, f p = c) :
    (l.map f).sum = l.length * c := by
  induction l with
  | nil => simp
  | cons a t ih =>
    simp only [List.map_cons, List.sum_cons, List.length_cons]
    rw [h a (by simp), ih (fun p hp => h p (by simp [hp]))]; push_cast; ring

theorem sum_map_nonneg {β : Type} (l : List β) (f : β → ℝ) (h : ∀ p ∈ l, 0 ≤ f p) : 0 ≤ (l.map f).sum := by
  induction l with
  | nil => simp
  | cons a t ih =>
    simp only [List.map_cons, List.sum_cons]
    have := h a (by simp); have := ih (fun p hp => h p (by simp [hp])); linarith

end C20L
