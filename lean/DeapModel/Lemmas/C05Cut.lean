/-
C05 lemmas, part 1: the cut (emo.py:44-50) applied to any list of fronts that satisfies C04's
specification.
-/
import DeapModel.Core.Crowding
import DeapModel.Lemmas.C04Std
import Mathlib.Data.List.Forall2
import Mathlib.Data.List.Perm.Subperm

set_option linter.unusedSectionVars false
set_option linter.unusedSimpArgs false
set_option linter.unusedVariables false

namespace C05L
open NDSort Crowding C04L

variable {α : Type} [LinearOrder α]

/-- C04's specification of a sorting back-end's answer for `(pop, k)`: front by front (up to the
order inside a front) the leading fronts of the Pareto ranking needed to reach `k`. -/
def FrontsSpec (pop : List (Ind α)) (k : Nat) (fronts : List (List (Ind α))) : Prop :=
  List.Forall₂ List.Perm fronts (leading (peel domI pop) k)

/-! ### order on distances -/

theorem distLt_irrefl (a : Dist α) : Dist.lt a a = false := by
  cases a <;> simp [Dist.lt]

theorem distLt_trans_not {a b c : Dist α} (h1 : Dist.lt a b = false) (h2 : Dist.lt b c = false) :
    Dist.lt a c = false := by
  cases a <;> cases b <;> cases c <;> simp_all [Dist.lt]
  exact le_trans h2 h1

theorem distLt_total (a b : Dist α) : (!Dist.lt a b || !Dist.lt b a) = true := by
  cases a <;> cases b <;> simp [Dist.lt]
  exact le_total _ _

theorem sortByDistDesc_perm (l : List (Ind α × Dist α)) : (sortByDistDesc l).Perm l :=
  List.mergeSort_perm _ _

theorem sortByDistDesc_pairwise (l : List (Ind α × Dist α)) :
    (sortByDistDesc l).Pairwise (fun a b => Dist.lt a.2 b.2 = false) := by
  have := List.pairwise_mergeSort (le := fun (a b : Ind α × Dist α) => !Dist.lt a.2 b.2)
    (by intro a b c h1 h2
        simp only [Bool.not_eq_true'] at h1 h2 ⊢
        exact distLt_trans_not h1 h2)
    (by intro a b; exact distLt_total a.2 b.2) l
  simpa [sortByDistDesc] using this

/-! ### decomposition of related front lists -/

theorem forall₂_snoc {γ δ : Type} {R : γ → δ → Prop} : ∀ {l₁ : List γ} {l₂ : List δ},
    List.Forall₂ R l₁ l₂ → l₁ ≠ [] →
    ∃ a b, l₁.getLast? = some a ∧ l₂.getLast? = some b ∧ R a b ∧
      List.Forall₂ R l₁.dropLast l₂.dropLast ∧ l₁ = l₁.dropLast ++ [a] ∧ l₂ = l₂.dropLast ++ [b]
  | _, _, .nil, h => absurd rfl h
  | [a], [b], .cons hr .nil, _ => ⟨a, b, rfl, rfl, hr, .nil, rfl, rfl⟩
  | a :: a' :: l₁, b :: b' :: l₂, .cons hr (.cons hr' t), _ => by
    obtain ⟨x, y, h1, h2, h3, h4, h5, h6⟩ := forall₂_snoc (.cons hr' t) (by simp)
    refine ⟨x, y, ?_, ?_, h3, ?_, ?_, ?_⟩
    · rw [List.getLast?_cons_cons]; exact h1
    · rw [List.getLast?_cons_cons]; exact h2
    · rw [List.dropLast_cons_cons, List.dropLast_cons_cons]; exact .cons hr h4
    · rw [List.dropLast_cons_cons, List.cons_append, ← h5]
    · rw [List.dropLast_cons_cons, List.cons_append, ← h6]

/-- `cutWith` on a non-empty list of fronts whose all-but-last fronts hold fewer than `k`. -/
theorem cutWith_snoc (init : List (List (Ind α))) (last : List (Ind α)) (d : List (Dist α)) (k : Nat)
    (h : init.flatten.length < k) :
    cutWith (init ++ [last]) d k =
      init.flatten ++ ((sortByDistDesc (last.zip d)).map (·.1)).take (k - init.flatten.length) := by
  unfold cutWith
  simp only [List.dropLast_concat, List.getLast?_concat]
  rw [if_pos h]

theorem cutWith_nil (d : List (Dist α)) (k : Nat) : cutWith ([] : List (List (Ind α))) d k = [] := by
  simp [cutWith]

/-- the sorted last front, projected back to individuals, is a permutation of the last front -/
theorem sorted_last_perm (last : List (Ind α)) (d : List (Dist α)) (hd : d.length = last.length) :
    ((sortByDistDesc (last.zip d)).map (·.1)).Perm last := by
  have h1 := (sortByDistDesc_perm (last.zip d)).map (·.1)
  have h2 : (last.zip d).map (·.1) = last := List.map_fst_zip (by omega)
  rw [h2] at h1; exact h1

/-! ### the facts about the spec that the cut needs -/

section Spec
variable (m : Nat) (pop : List (Ind α)) (hlen : ∀ x ∈ pop, x.w.length = m) (k : Nat)
  (fronts : List (List (Ind α))) (hspec : FrontsSpec pop k fronts)
include hlen hspec

theorem spec_flatten_subperm : fronts.flatten.Subperm pop := by
  have hS := spo_domI m pop hlen
  have hfl := forall₂_perm_flatten hspec
  have hsub := prefix_flatten_sublist (leading_prefix (peel domI pop) k)
  exact hfl.subperm.trans (hsub.subperm.trans (peel_flatten_perm pop hS).subperm)

theorem spec_enough : min k pop.length ≤ fronts.flatten.length := by
  have hS := spo_domI m pop hlen
  have := leading_enough (peel domI pop) k
  rw [(peel_flatten_perm pop hS).length_eq] at this
  rw [(forall₂_perm_flatten hspec).length_eq]; exact this

theorem spec_minimal (hne : fronts ≠ []) : fronts.dropLast.flatten.length < k := by
  have hlen2 := List.Forall₂.length_eq hspec
  have hne2 : leading (peel domI pop) k ≠ [] := by
    intro e; rw [e] at hlen2; exact hne (List.eq_nil_of_length_eq_zero (by simpa using hlen2))
  have hmin := leading_minimal (peel domI pop) k hne2
  have hdl : List.Forall₂ List.Perm fronts.dropLast (leading (peel domI pop) k).dropLast := by
    rw [List.dropLast_eq_take, List.dropLast_eq_take, hlen2]
    exact List.forall₂_take _ hspec
  rw [(forall₂_perm_flatten hdl).length_eq]; exact hmin

/-- front `i` of a back-end's answer holds exactly the individuals of depth `i` -/
theorem spec_front_iff_depth (i : Nat) (f : List (Ind α)) (hf : fronts[i]? = some f) (x : Ind α) :
    x ∈ f ↔ x ∈ pop ∧ depth domI pop x = i := by
  obtain ⟨b, hb, hperm⟩ := forall₂_getElem? hspec i f hf
  have hb' := prefix_getElem? (leading_prefix _ _) i b hb
  rw [hperm.mem_iff]
  exact mem_peel_iff pop (spo_domI m pop hlen) i b hb' x

/-- an individual whose depth is below the number of returned fronts is in the front of its depth -/
theorem spec_mem_of_depth_lt (y : Ind α) (hy : y ∈ pop) (hd : depth domI pop y < fronts.length) :
    ∃ f, fronts[depth domI pop y]? = some f ∧ y ∈ f := by
  have hS := spo_domI m pop hlen
  obtain ⟨f, hf⟩ : ∃ f, fronts[depth domI pop y]? = some f := ⟨_, List.getElem?_eq_getElem hd⟩
  exact ⟨f, hf, (spec_front_iff_depth m pop hlen k fronts hspec _ f hf y).2 ⟨hy, rfl⟩⟩

end Spec

/-! ### the cut on a specified list of fronts -/

section Cut
variable (m : Nat) (pop : List (Ind α)) (hlen : ∀ x ∈ pop, x.w.length = m) (k : Nat)
  (fronts : List (List (Ind α))) (hspec : FrontsSpec pop k fronts)
  (d : List (Dist α)) (hd : d.length = ((fronts.getLast?).getD []).length)
include hlen hspec hd

/-- Shape of the selection: either nothing is asked for / available, or all fronts but the last are
taken whole and the last one contributes the first `k - taken` entries of its stable descending
sort by distance. -/
theorem cut_structure :
    (fronts = [] ∧ cutWith fronts d k = [] ∧ min k pop.length = 0) ∨
    ∃ init last, fronts = init ++ [last] ∧ d.length = last.length ∧ init.flatten.length < k ∧
      cutWith fronts d k = init.flatten ++
        ((sortByDistDesc (last.zip d)).take (k - init.flatten.length)).map (·.1) := by
  by_cases hne : fronts = []
  · left
    subst hne
    refine ⟨rfl, cutWith_nil d k, ?_⟩
    have := spec_enough m pop hlen k [] hspec
    simpa using this
  · right
    obtain ⟨a, b, h1, _, _, _, h5, _⟩ := forall₂_snoc hspec hne
    have hmin := spec_minimal m pop hlen k fronts hspec hne
    rw [h1] at hd
    refine ⟨fronts.dropLast, a, h5, by simpa using hd, hmin, ?_⟩
    conv_lhs => rw [h5]
    rw [cutWith_snoc _ _ _ _ hmin, List.map_take]

/-- size = min(k, n) -/
theorem cut_length : (cutWith fronts d k).length = min k pop.length := by
  rcases cut_structure m pop hlen k fronts hspec d hd with ⟨_, h2, h3⟩ | ⟨init, last, h1, h2, h3, h4⟩
  · rw [h2, h3]; rfl
  · have he := spec_enough m pop hlen k fronts hspec
    have hs := (spec_flatten_subperm m pop hlen k fronts hspec).length_le
    have hsl : (sortByDistDesc (last.zip d)).length = last.length := by
      rw [(sortByDistDesc_perm _).length_eq, List.length_zip]; omega
    rw [h1] at he hs
    simp only [List.flatten_append, List.flatten_cons, List.flatten_nil, List.append_nil,
      List.length_append] at he hs
    rw [h4]
    simp only [List.length_append, List.length_map, List.length_take, hsl]
    omega

/-- the selection is a sub-permutation of the population: input objects, none more often than
listed (so none twice when the individuals are distinct) -/
theorem cut_subperm : (cutWith fronts d k).Subperm pop := by
  rcases cut_structure m pop hlen k fronts hspec d hd with ⟨_, h2, _⟩ | ⟨init, last, h1, h2, h3, h4⟩
  · rw [h2]; exact List.nil_subperm
  · have hs := spec_flatten_subperm m pop hlen k fronts hspec
    rw [h1] at hs
    simp only [List.flatten_append, List.flatten_cons, List.flatten_nil, List.append_nil] at hs
    rw [h4]
    refine List.Subperm.trans ?_ hs
    refine List.Subperm.append (List.Subperm.refl _) ?_
    have hsub : List.Sublist (((sortByDistDesc (last.zip d)).take (k - init.flatten.length)).map (·.1))
        ((sortByDistDesc (last.zip d)).map (·.1)) := (List.take_sublist _ _).map _
    exact hsub.subperm.trans (sorted_last_perm last d h2).subperm

theorem cut_nodup (hnd : pop.Nodup) : (cutWith fronts d k).Nodup := by
  obtain ⟨l, hp, hs⟩ := cut_subperm m pop hlen k fronts hspec d hd
  exact hp.nodup_iff.1 (hs.nodup hnd)

/-- no individual left out belongs to a strictly better front than a selected one -/
theorem cut_front_priority (x y : Ind α) (hx : x ∈ cutWith fronts d k) (hy : y ∈ pop)
    (hyn : y ∉ cutWith fronts d k) : depth domI pop x ≤ depth domI pop y := by
  rcases cut_structure m pop hlen k fronts hspec d hd with ⟨_, h2, _⟩ | ⟨init, last, h1, h2, h3, h4⟩
  · rw [h2] at hx; simp at hx
  · have hlenf : fronts.length = init.length + 1 := by rw [h1]; simp
    have hlast : fronts[init.length]? = some last := by rw [h1]; simp
    -- depth of a selected individual is at most `init.length`
    have hxd : depth domI pop x ≤ init.length := by
      rw [h4] at hx
      rcases List.mem_append.1 hx with hx | hx
      · obtain ⟨f, hf, hxf⟩ := List.mem_flatten.1 hx
        obtain ⟨i, hi, rfl⟩ := List.getElem_of_mem hf
        have hfi : fronts[i]? = some init[i] := by
          rw [h1, List.getElem?_append_left hi]; exact List.getElem?_eq_getElem hi
        have := (spec_front_iff_depth m pop hlen k fronts hspec i _ hfi x).1 hxf
        omega
      · obtain ⟨p, hp, rfl⟩ := List.mem_map.1 hx
        have hp' := (sortByDistDesc_perm (last.zip d)).mem_iff.1 ((List.take_sublist _ _).subset hp)
        have hxl : p.1 ∈ last := (List.of_mem_zip hp').1
        have := (spec_front_iff_depth m pop hlen k fronts hspec _ last hlast p.1).1 hxl
        omega
    -- an omitted individual is in none of the whole fronts
    by_contra hc
    have hyd : depth domI pop y < init.length := by omega
    obtain ⟨f, hf, hyf⟩ := spec_mem_of_depth_lt m pop hlen k fronts hspec y hy (by omega)
    have hfi : init[depth domI pop y]? = some f := by
      rw [h1, List.getElem?_append_left hyd] at hf; exact hf
    apply hyn; rw [h4]
    exact List.mem_append_left _ (List.mem_flatten.2 ⟨f, List.mem_of_getElem? hfi, hyf⟩)

/-- only the last front is taken partially, and within it every kept distance is at least every
dropped one (`kept`/`dropped` are pairs (individual, its distance) and together are a permutation
of the last front zipped with its distances) -/
theorem cut_crowding :
    fronts = [] ∨ ∃ (init : List (List (Ind α))) (last : List (Ind α)) (kept dropped : List (Ind α × Dist α)),
      fronts = init ++ [last] ∧
      cutWith fronts d k = init.flatten ++ kept.map (·.1) ∧
      (kept ++ dropped).Perm (last.zip d) ∧
      (∀ p ∈ kept, ∀ q ∈ dropped, Dist.lt p.2 q.2 = false) ∧
      (∀ f ∈ init, ∀ x ∈ f, x ∈ cutWith fronts d k) := by
  rcases cut_structure m pop hlen k fronts hspec d hd with ⟨h, _, _⟩ | ⟨init, last, h1, h2, h3, h4⟩
  · exact Or.inl h
  · right
    refine ⟨init, last, (sortByDistDesc (last.zip d)).take (k - init.flatten.length),
      (sortByDistDesc (last.zip d)).drop (k - init.flatten.length), h1, h4, ?_, ?_, ?_⟩
    · rw [List.take_append_drop]; exact sortByDistDesc_perm _
    · have hp := sortByDistDesc_pairwise (last.zip d)
      rw [← List.take_append_drop (k - init.flatten.length) (sortByDistDesc (last.zip d)),
        List.pairwise_append] at hp
      exact hp.2.2
    · intro f hf x hx
      rw [h4]; exact List.mem_append_left _ (List.mem_flatten.2 ⟨f, hf, hx⟩)

end Cut

/-- `assignCrowdingDist` writes one distance per individual -/
theorem objStep_length [Field α] [Inhabited α] (nobj : Nat) (st : List (List α × Nat) × List (Dist α)) (i : Nat) :
    (objStep nobj st i).2.length = st.2.length := by
  have hfold : ∀ (l : List ((List α × Nat) × (List α × Nat) × (List α × Nat))) (norm : α) (d : List (Dist α)),
      (l.foldl (tripleStep i norm) d).length = d.length := by
    intro l norm
    induction l with
    | nil => intro d; rfl
    | cons t l ih => intro d; simp only [List.foldl_cons]; rw [ih]; simp [tripleStep]
  simp only [objStep]
  split
  · split
    · simp
    · simp only []; rw [hfold]; simp
  · rfl

theorem foldl_objStep_length [Field α] [Inhabited α] (nobj : Nat) : ∀ (idx : List Nat)
    (st : List (List α × Nat) × List (Dist α)), (idx.foldl (objStep nobj) st).2.length = st.2.length
  | [], _ => rfl
  | i :: idx, st => by
    simp only [List.foldl_cons]; rw [foldl_objStep_length nobj idx, objStep_length]

theorem assignCrowdingDist_length [Field α] [Inhabited α] (vals : List (List α)) :
    (assignCrowdingDist vals).length = vals.length := by
  cases vals with
  | nil => rfl
  | cons v0 rest =>
    simp only [assignCrowdingDist]
    rw [foldl_objStep_length]; simp

end C05L
