/-
Helper lemmas for C03: the HARM-GP acceptance arithmetic of `Core/Loops.lean` over ℝ.
-/
import DeapModel.Core.Loops
import DeapModel.RealInst
import Mathlib.Analysis.SpecialFunctions.Log.Basic
import Mathlib.Analysis.SpecialFunctions.Exp

namespace Loops
open RealLike

/-- every entry is non-negative -/
def AllNonneg (l : List ℝ) : Prop := ∀ x ∈ l, 0 ≤ x

theorem bump_nonneg (h : List ℝ) (i : Nat) (v : ℝ) (hh : AllNonneg h) (hv : 0 ≤ v) : AllNonneg (bump h i v) := by
  intro x hx
  simp only [bump, List.mem_mapIdx] at hx
  obtain ⟨j, hj, rfl⟩ := hx
  have := hh h[j] (List.getElem_mem hj)
  split
  · simp only [real_add]; linarith
  · exact this

theorem bumpSize_nonneg (h : List ℝ) (s : Nat) (hh : AllNonneg h) : AllNonneg (bumpSize h s) := by
  have h25 : (0 : ℝ) ≤ RealLike.ofRatio 2 5 := by norm_num [real_ofRatio]
  have h15 : (0 : ℝ) ≤ RealLike.ofRatio 1 5 := by norm_num [real_ofRatio]
  have h110 : (0 : ℝ) ≤ RealLike.ofRatio 1 10 := by norm_num [real_ofRatio]
  simp only [bumpSize]
  have h4 := bump_nonneg _ (s + 2) _ (bump_nonneg _ (s + 1) _ (bump_nonneg _ (s - 1) _
    (bump_nonneg h s _ hh h25) h15) h15) h110
  split
  · exact bump_nonneg _ _ _ h4 h110
  · exact h4

theorem foldl_bumpSize_nonneg (sizes : List Nat) (h : List ℝ) (hh : AllNonneg h) :
    AllNonneg (sizes.foldl bumpSize h) := by
  induction sizes generalizing h with
  | nil => exact hh
  | cons s ss ih => exact ih _ (bumpSize_nonneg h s hh)

theorem naturalHist_nonneg (sizes : List Nat) (npop nbr : Nat) (nat : List ℝ)
    (h : naturalHist sizes npop nbr = some nat) : AllNonneg nat := by
  simp only [naturalHist] at h
  split at h
  · simp at h
  next m _ =>
    split at h
    · simp only [Option.some.injEq] at h
      subst h
      intro x hx
      simp only [List.mem_map] at hx
      obtain ⟨v, hv, rfl⟩ := hx
      have h0 : AllNonneg (List.replicate (m + 3) (RealLike.ofNat 0 : ℝ)) := by
        intro y hy
        rw [List.mem_replicate] at hy
        rw [hy.2]; simp
      have hv0 := foldl_bumpSize_nonneg sizes _ h0 v hv
      simp only [real_mul, real_div, real_ofNat]
      positivity
    · simp at h

theorem naturalHist_nonempty (sizes : List Nat) (npop nbr : Nat) (nat : List ℝ)
    (h : naturalHist sizes npop nbr = some nat) : sizes ≠ [] := by
  intro e
  subst e
  simp [naturalHist] at h

theorem targetFunc_nonneg (p : HarmParams ℝ) (npop cutoff x : Nat) (hg : 0 ≤ p.gamma)
    (hl : 0 < halflife p x) : 0 ≤ targetFunc p npop cutoff x := by
  simp only [targetFunc, real_mul, real_div, real_ofNat, real_log, real_exp]
  have hlog : 0 ≤ Real.log ((2 : ℕ) : ℝ) := Real.log_nonneg (by norm_num)
  have hn : (0 : ℝ) ≤ (npop : ℝ) := Nat.cast_nonneg _
  have hexp := Real.exp_pos (-Real.log ((2 : ℕ) : ℝ) * RealLike.ofRatio ((x : Int) - (cutoff : Int)) 1 / halflife p x)
  have : 0 ≤ p.gamma * (npop : ℝ) * Real.log ((2 : ℕ) : ℝ) / halflife p x :=
    div_nonneg (mul_nonneg (mul_nonneg hg hn) hlog) hl.le
  simpa using mul_nonneg this hexp.le

theorem probHist_nonneg (p : HarmParams ℝ) (npop cutoff : Nat) (nat : List ℝ) (hnat : AllNonneg nat)
    (hg : 0 ≤ p.gamma) (hl : ∀ x, 0 < halflife p x) : AllNonneg (probHist p npop cutoff nat) := by
  intro v hv
  simp only [probHist, List.mem_mapIdx] at hv
  obtain ⟨b, hb, rfl⟩ := hv
  have hn := hnat nat[b] (List.getElem_mem hb)
  have ht : 0 ≤ (if b ≤ cutoff then nat[b] else targetFunc p npop cutoff b) := by
    split
    · exact hn
    · exact targetFunc_nonneg p npop cutoff b hg (hl b)
  split
  · simp only [real_div]; exact div_nonneg ht hn
  · exact ht

theorem probFunc_nonneg (p : HarmParams ℝ) (npop cutoff : Nat) (nat : List ℝ) (hnat : AllNonneg nat)
    (hg : 0 ≤ p.gamma) (hl : ∀ x, 0 < halflife p x) (s : Nat) :
    0 ≤ probFunc p npop cutoff (probHist p npop cutoff nat) s := by
  simp only [probFunc]
  split
  next v hv => exact probHist_nonneg p npop cutoff nat hnat hg hl v (List.mem_of_getElem? hv)
  · exact targetFunc_nonneg p npop cutoff s hg (hl s)

/-- Up to the cutoff size the target histogram is the natural one: the threshold is exactly 1 where the
natural histogram is positive and 0 where it is empty. -/
theorem probFunc_below_cutoff (p : HarmParams ℝ) (npop cutoff : Nat) (nat : List ℝ) (hnat : AllNonneg nat)
    (s : Nat) (hs : s ≤ cutoff) (hlen : s < nat.length) :
    probFunc p npop cutoff (probHist p npop cutoff nat) s = 0 ∨
    probFunc p npop cutoff (probHist p npop cutoff nat) s = 1 := by
  have hn := hnat nat[s] (List.getElem_mem hlen)
  have hget : (probHist p npop cutoff nat)[s]? =
      some (if (RealLike.ofNat 0 : ℝ) < nat[s] then nat[s] / nat[s] else nat[s]) := by
    simp [probHist, hlen, hs]
  simp only [probFunc, hget]
  split
  next hpos =>
    right
    have : nat[s] ≠ 0 := by
      have : (0 : ℝ) < nat[s] := by simpa using hpos
      exact ne_of_gt this
    exact div_self this
  next hnp =>
    left
    have : ¬ (0 : ℝ) < nat[s] := by simpa using hnp
    linarith [not_lt.1 this]

end Loops
