/-
C04 lemmas, part 2: association-list dictionaries, the grouping `mapFitInd`, dominance on weighted
value tuples of one length is a strict partial order, and the ranking of the individuals is the
ranking of their distinct fitnesses with every fitness replaced by its group.
-/
import DeapModel.Lemmas.C04Peel
import DeapModel.Props.C01

set_option linter.unusedSectionVars false
set_option linter.unusedSimpArgs false
set_option linter.unusedVariables false

namespace C04L
open NDSort

section Dict
variable {κ ν : Type} [DecidableEq κ]

theorem dget_dset (d : List (κ × ν)) (dflt : ν) (k k' : κ) (v : ν) :
    dget (dset d k v) dflt k' = if k = k' then v else dget d dflt k' := by
  induction d with
  | nil => simp [dset, dget]
  | cons p r ih =>
    obtain ⟨a, b⟩ := p
    simp only [dset]
    by_cases h : a = k
    · subst h; simp only [↓reduceIte, dget]; split <;> rfl
    · simp only [h, ↓reduceIte, dget, ih]
      by_cases h' : a = k'
      · subst h'; simp [h, show ¬ k = a from fun e => h e.symm]
      · simp [h']

theorem dget_dset_self (d : List (κ × ν)) (dflt : ν) (k : κ) (v : ν) :
    dget (dset d k v) dflt k = v := by simp [dget_dset]

theorem dget_dset_ne (d : List (κ × ν)) (dflt : ν) {k k' : κ} (v : ν) (h : k ≠ k') :
    dget (dset d k v) dflt k' = dget d dflt k' := by simp [dget_dset, h]

theorem dkeys_dset (d : List (κ × ν)) (k : κ) (v : ν) :
    dkeys (dset d k v) = if k ∈ dkeys d then dkeys d else dkeys d ++ [k] := by
  induction d with
  | nil => simp [dset, dkeys]
  | cons p r ih =>
    obtain ⟨a, b⟩ := p
    simp only [dset]
    by_cases h : a = k
    · subst h; simp [dkeys]
    · have h' : ¬ k = a := fun e => h e.symm
      simp only [dkeys, List.map_cons, List.mem_cons, h, h', ↓reduceIte, false_or] at ih ⊢
      rw [ih]; by_cases hk : k ∈ List.map Prod.fst r <;> simp [hk]

theorem mem_dkeys_dset (d : List (κ × ν)) (k k' : κ) (v : ν) :
    k' ∈ dkeys (dset d k v) ↔ k' = k ∨ k' ∈ dkeys d := by
  rw [dkeys_dset]; split
  · next h =>
    constructor
    · exact Or.inr
    · rintro (rfl | h') <;> assumption
  · simp [or_comm]

theorem nodup_dkeys_dset (d : List (κ × ν)) (k : κ) (v : ν) (h : (dkeys d).Nodup) :
    (dkeys (dset d k v)).Nodup := by
  rw [dkeys_dset]; split
  · exact h
  · next hk =>
    rw [List.nodup_append]
    refine ⟨h, by simp, ?_⟩
    intro a ha b hb
    simp at hb; subst hb
    intro e; subst e; exact hk ha

theorem dget_of_not_mem (d : List (κ × ν)) (dflt : ν) (k : κ) (h : k ∉ dkeys d) :
    dget d dflt k = dflt := by
  induction d with
  | nil => rfl
  | cons p r ih =>
    obtain ⟨a, b⟩ := p
    simp only [dkeys, List.map_cons, List.mem_cons, not_or] at h
    simp only [dget, show ¬ a = k from fun e => h.1 e.symm, ↓reduceIte]
    exact ih h.2

end Dict

variable {α : Type}

section Group
variable [DecidableEq α]

/-- the grouping loop started from an arbitrary dictionary -/
def groupFrom (d : List (List α × List (Ind α))) (pop : List (Ind α)) : List (List α × List (Ind α)) :=
  pop.foldl (fun d ind => dset d ind.w (dget d [] ind.w ++ [ind])) d

theorem groupFrom_spec (pop : List (Ind α)) : ∀ (d : List (List α × List (Ind α))),
    (∀ f, dget (groupFrom d pop) [] f = dget d [] f ++ pop.filter (fun x => decide (x.w = f))) ∧
    ((dkeys d).Nodup → (dkeys (groupFrom d pop)).Nodup) ∧
    (∀ f, f ∈ dkeys (groupFrom d pop) ↔ f ∈ dkeys d ∨ ∃ x ∈ pop, x.w = f) := by
  induction pop with
  | nil => intro d; simp [groupFrom]
  | cons a pop ih =>
    intro d
    obtain ⟨h1, h2, h3⟩ := ih (dset d a.w (dget d [] a.w ++ [a]))
    simp only [groupFrom, List.foldl_cons] at h1 h2 h3 ⊢
    refine ⟨fun f => ?_, fun hd => h2 (nodup_dkeys_dset _ _ _ hd), fun f => ?_⟩
    · rw [h1 f, dget_dset]
      by_cases h : a.w = f
      · simp [h, List.filter_cons]
      · simp [h, List.filter_cons]
    · rw [h3 f, mem_dkeys_dset]
      constructor
      · rintro ((rfl | h) | ⟨x, hx, rfl⟩)
        · exact Or.inr ⟨a, by simp, rfl⟩
        · exact Or.inl h
        · exact Or.inr ⟨x, by simp [hx], rfl⟩
      · rintro (h | ⟨x, hx, rfl⟩)
        · exact Or.inl (Or.inr h)
        · rcases List.mem_cons.1 hx with rfl | hx
          · exact Or.inl (Or.inl rfl)
          · exact Or.inr ⟨x, hx, rfl⟩

theorem mapFitInd_get (pop : List (Ind α)) (f : List α) :
    dget (mapFitInd pop) [] f = pop.filter (fun x => decide (x.w = f)) := by
  have := (groupFrom_spec pop []).1 f
  simpa [groupFrom, mapFitInd, dget] using this

theorem mapFitInd_nodup (pop : List (Ind α)) : (dkeys (mapFitInd pop)).Nodup :=
  (groupFrom_spec pop []).2.1 (by simp [dkeys])

theorem mem_mapFitInd_keys (pop : List (Ind α)) (f : List α) :
    f ∈ dkeys (mapFitInd pop) ↔ ∃ x ∈ pop, x.w = f := by
  have := (groupFrom_spec pop []).2.2 f
  simpa [groupFrom, mapFitInd, dkeys] using this

/-- the groups of a duplicate-free list of fitnesses, concatenated, are the individuals carrying
one of these fitnesses (as a permutation) -/
theorem flatMap_group_perm (pop : List (Ind α)) : ∀ (F : List (List α)), F.Nodup →
    (F.flatMap (fun f => pop.filter (fun x => decide (x.w = f)))).Perm
      (pop.filter (fun x => decide (x.w ∈ F)))
  | [], _ => by simp
  | f :: F, hnd => by
    have hf : f ∉ F := (List.nodup_cons.1 hnd).1
    have ih := flatMap_group_perm pop F (List.nodup_cons.1 hnd).2
    rw [List.flatMap_cons]
    refine (List.Perm.append_left _ ih).trans ?_
    have key := List.filter_append_perm (fun x : Ind α => decide (x.w = f))
      (pop.filter (fun x => decide (x.w ∈ f :: F)))
    rw [List.filter_filter, List.filter_filter] at key
    have e1 : pop.filter (fun x => decide (x.w = f) && decide (x.w ∈ f :: F)) =
        pop.filter (fun x => decide (x.w = f)) := by
      apply List.filter_congr; intro x _; by_cases h : x.w = f <;> simp [h]
    have e2 : pop.filter (fun x => (!decide (x.w = f)) && decide (x.w ∈ f :: F)) =
        pop.filter (fun x => decide (x.w ∈ F)) := by
      apply List.filter_congr; intro x _
      by_cases h : x.w = f
      · subst h; simp [hf]
      · simp [h]
    rw [e1, e2] at key
    exact key

end Group

section Dom
variable [LinearOrder α]

theorem domW_iff (a b : List α) :
    domW a b = true ↔ (∀ p ∈ a.zip b, p.2 ≤ p.1) ∧ (∃ p ∈ a.zip b, p.2 < p.1) := by
  simp [domW, C01.dominatesLoop_iff]

theorem domW_irrefl (a : List α) : domW a a = false := by
  by_contra h
  have h' : domW a a = true := by simpa using h
  obtain ⟨-, p, hp, hlt⟩ := (domW_iff a a).1 h'
  have : p.1 = p.2 := by
    clear hlt h h'
    induction a with
    | nil => simp at hp
    | cons x xs ih => simp at hp; rcases hp with rfl | hp; rfl; exact ih hp
  rw [this] at hlt; exact absurd hlt (lt_irrefl _)

theorem zip_le_trans : ∀ (a b c : List α), a.length = b.length → b.length = c.length →
    (∀ p ∈ a.zip b, p.2 ≤ p.1) → (∀ p ∈ b.zip c, p.2 ≤ p.1) → (∀ p ∈ a.zip c, p.2 ≤ p.1)
  | [], _, _, _, _, _, _ => by simp
  | x :: a, [], _, h, _, _, _ => by simp at h
  | x :: a, y :: b, [], _, h, _, _ => by simp at h
  | x :: a, y :: b, z :: c, h1, h2, hab, hbc => by
    intro p hp
    simp only [List.zip_cons_cons, List.mem_cons] at hp hab hbc
    rcases hp with rfl | hp
    · exact le_trans (hbc (y, z) (Or.inl rfl)) (hab (x, y) (Or.inl rfl))
    · exact zip_le_trans a b c (by simpa using h1) (by simpa using h2)
        (fun q hq => hab q (Or.inr hq)) (fun q hq => hbc q (Or.inr hq)) p hp

theorem zip_lt_trans_left : ∀ (a b c : List α), a.length = b.length → b.length = c.length →
    (∀ p ∈ a.zip b, p.2 ≤ p.1) → (∀ p ∈ b.zip c, p.2 ≤ p.1) → (∃ p ∈ a.zip b, p.2 < p.1) →
    (∃ p ∈ a.zip c, p.2 < p.1)
  | [], _, _, _, _, _, _, h => by simp at h
  | x :: a, [], _, h, _, _, _, _ => by simp at h
  | x :: a, y :: b, [], _, h, _, _, _ => by simp at h
  | x :: a, y :: b, z :: c, h1, h2, hab, hbc, hex => by
    simp only [List.zip_cons_cons, List.mem_cons] at hab hbc hex ⊢
    obtain ⟨p, hp | hp, hlt⟩ := hex
    · subst hp
      exact ⟨(x, z), Or.inl rfl, lt_of_le_of_lt (hbc (y, z) (Or.inl rfl)) hlt⟩
    · obtain ⟨q, hq, hql⟩ := zip_lt_trans_left a b c (by simpa using h1) (by simpa using h2)
        (fun q hq => hab q (Or.inr hq)) (fun q hq => hbc q (Or.inr hq)) ⟨p, hp, hlt⟩
      exact ⟨q, Or.inr hq, hql⟩

theorem domW_trans {a b c : List α} (h1 : a.length = b.length) (h2 : b.length = c.length)
    (hab : domW a b = true) (hbc : domW b c = true) : domW a c = true := by
  rw [domW_iff] at *
  exact ⟨zip_le_trans a b c h1 h2 hab.1 hbc.1, zip_lt_trans_left a b c h1 h2 hab.1 hbc.1 hab.2⟩

/-- Dominance is a strict partial order on weighted-value tuples of one length. -/
theorem spo_domW (m : Nat) (R : List (List α)) (hlen : ∀ f ∈ R, f.length = m) : SPO domW R :=
  ⟨fun x _ => domW_irrefl x,
   fun x hx y hy z hz => domW_trans ((hlen x hx).trans (hlen y hy).symm) ((hlen y hy).trans (hlen z hz).symm)⟩

theorem spo_domI (m : Nat) (pop : List (Ind α)) (hlen : ∀ x ∈ pop, x.w.length = m) : SPO domI pop :=
  ⟨fun x _ => domW_irrefl x.w,
   fun x hx y hy z hz => domW_trans ((hlen x hx).trans (hlen y hy).symm) ((hlen y hy).trans (hlen z hz).symm)⟩

/-- individuals carrying one of the fitnesses `F` -/
def carriers (pop : List (Ind α)) (F : List (List α)) : List (Ind α) :=
  pop.filter (fun x => decide (x.w ∈ F))

theorem mem_carriers {pop : List (Ind α)} {F : List (List α)} {x : Ind α} :
    x ∈ carriers pop F ↔ x ∈ pop ∧ x.w ∈ F := by simp [carriers]

theorem any_carriers (pop : List (Ind α)) (R : List (List α)) (hrep : ∀ f ∈ R, ∃ x ∈ pop, x.w = f)
    (x : Ind α) : (carriers pop R).any (fun y => domI y x) = R.any (fun f => domW f x.w) := by
  rw [Bool.eq_iff_iff]
  simp only [List.any_eq_true, mem_carriers, domI]
  constructor
  · rintro ⟨y, ⟨_, hy⟩, hd⟩; exact ⟨y.w, hy, hd⟩
  · rintro ⟨f, hf, hd⟩
    obtain ⟨y, hy, rfl⟩ := hrep f hf
    exact ⟨y, ⟨hy, hf⟩, hd⟩

theorem nondom_carriers (pop : List (Ind α)) (R : List (List α)) (hrep : ∀ f ∈ R, ∃ x ∈ pop, x.w = f) :
    nondom domI (carriers pop R) = carriers pop (nondom domW R) := by
  simp only [nondom, carriers, List.filter_filter]
  apply List.filter_congr
  intro x _
  have := any_carriers pop R hrep x
  simp only [carriers] at this
  rw [this, Bool.eq_iff_iff]
  simp [List.mem_filter, and_comm]

theorem dominatedPart_carriers (pop : List (Ind α)) (R : List (List α))
    (hrep : ∀ f ∈ R, ∃ x ∈ pop, x.w = f) :
    dominatedPart domI (carriers pop R) = carriers pop (dominatedPart domW R) := by
  simp only [dominatedPart, carriers, List.filter_filter]
  apply List.filter_congr
  intro x _
  have := any_carriers pop R hrep x
  simp only [carriers] at this
  rw [this, Bool.eq_iff_iff]
  simp [List.mem_filter, and_comm]

/-- The ranking of the individuals is the ranking of their distinct fitnesses, every fitness
replaced by the individuals carrying it. -/
theorem peel_carriers (m : Nat) (pop : List (Ind α)) (hlen : ∀ x ∈ pop, x.w.length = m) :
    ∀ (R : List (List α)), SPO domW R → (∀ f ∈ R, ∃ x ∈ pop, x.w = f) →
      peel domI (carriers pop R) = (peel domW R).map (carriers pop) := by
  have hpop := spo_domI m pop hlen
  refine peel_induction (P := fun R => (∀ f ∈ R, ∃ x ∈ pop, x.w = f) →
      peel domI (carriers pop R) = (peel domW R).map (carriers pop)) ?_ ?_
  · intro _; simp [carriers, peel_nil]
  · intro R hne hR ih hrep
    have hS : SPO domI (carriers pop R) := hpop.mono (fun x hx => (mem_carriers.1 hx).1)
    have hne' : carriers pop R ≠ [] := by
      obtain ⟨f, hf⟩ := List.exists_mem_of_ne_nil R hne
      obtain ⟨x, hx, rfl⟩ := hrep f hf
      exact List.ne_nil_of_mem (mem_carriers.2 ⟨hx, hf⟩)
    rw [peel_eq hne' hS, peel_eq hne hR, List.map_cons, nondom_carriers pop R hrep,
      dominatedPart_carriers pop R hrep, ih (fun f hf => hrep f (dominatedPart_subset f hf))]

end Dom

end C04L
