/-
C07 — (1) the memory of `selNSGA3WithMemory` over any sequence of calls: the remembered ideal /
worst point is the componentwise minimum / maximum of every objective vector seen in all calls;
(2) a dimension-explicit statement of `associate_to_niche` for one individual.
-/
import DeapModel.Lemmas.C07Norm

set_option linter.unusedSectionVars false
set_option linter.unusedVariables false

namespace C07L
open Nsga3

/-! ### the worst point: componentwise maximum, attained -/

/-- with a remembered point: the maximum of the remembered point and all rows (attained) -/
theorem worstPoint_mem_att (fits : List (List ℝ)) (m : List ℝ)
    (hrect : ∀ r ∈ fits, r.length = m.length) :
    (worstPoint fits (some m)).length = m.length ∧
    ∀ j (hj : j < m.length) (h : j < (worstPoint fits (some m)).length),
      m[j] ≤ (worstPoint fits (some m))[j] ∧
      (∀ r ∈ fits, ∀ hr : j < r.length, r[j] ≤ (worstPoint fits (some m))[j]) ∧
      ((worstPoint fits (some m))[j] = m[j] ∨
        ∃ r ∈ fits, ∃ hr : j < r.length, (worstPoint fits (some m))[j] = r[j]) := by
  have e : worstPoint fits (some m) = @Nsga3.colMax ℝ _ _ fits m := colMax_bridge fits m
  rw [e]
  exact ⟨colMax_length fits m hrect, fun j hj _ => colMax_getElem fits m hrect j hj⟩

/-- without memory: the maximum of all rows of a non-empty rectangular matrix -/
theorem worstPoint_nomem (r0 : List ℝ) (rs : List (List ℝ))
    (hrect : ∀ r ∈ rs, r.length = r0.length) :
    (worstPoint (r0 :: rs) none).length = r0.length ∧
    ∀ j (hj : j < r0.length) (h : j < (worstPoint (r0 :: rs) none).length),
      (∀ r ∈ r0 :: rs, ∀ hr : j < r.length, r[j] ≤ (worstPoint (r0 :: rs) none)[j]) ∧
      (∃ r ∈ r0 :: rs, ∃ hr : j < r.length, (worstPoint (r0 :: rs) none)[j] = r[j]) := by
  have e : worstPoint (r0 :: rs) none = @Nsga3.colMax ℝ _ _ rs r0 := colMax_bridge rs r0
  rw [e]
  refine ⟨colMax_length rs r0 hrect, fun j hj _ => ?_⟩
  obtain ⟨h1, h2, h3⟩ := colMax_getElem rs r0 hrect j hj
  constructor
  · intro r hr hrl
    rcases List.mem_cons.1 hr with h | h
    · subst h; exact h1
    · exact h2 r h hrl
  · rcases h3 with h | ⟨r, hr, hrl, h⟩
    · exact ⟨r0, List.mem_cons_self, hj, h⟩
    · exact ⟨r, List.mem_cons_of_mem _ hr, hrl, h⟩

example : ∀ r ∈ [[(2 : ℝ), 5], [3, 1]], r.length = [(4 : ℝ), 0].length := by
  intro r hr
  simp only [List.mem_cons, List.not_mem_nil, or_false] at hr
  rcases hr with rfl | rfl <;> rfl

/-! ### the invariant: `b` is an `R`-extremum of the rows seen, attained in every coordinate -/

/-- `b` has `M` coordinates, and coordinate `j` of `b` is `R`-below coordinate `j` of every row
and equal to coordinate `j` of one of the rows (`R = ≤`: minimum, `R = ≥`: maximum). -/
def Ext (R : ℝ → ℝ → Prop) (M : Nat) (rows : List (List ℝ)) (b : List ℝ) : Prop :=
  b.length = M ∧ ∀ j (hj : j < M) (hb : j < b.length),
    (∀ r ∈ rows, ∀ hr : j < r.length, R b[j] r[j]) ∧
    (∃ r ∈ rows, ∃ hr : j < r.length, b[j] = r[j])

/-- one update keeps the invariant: `p` is the extremum of the old point `m` and the new rows -/
theorem Ext.step {R : ℝ → ℝ → Prop} (htr : ∀ a b c, R a b → R b c → R a c) (M : Nat)
    (seen fits : List (List ℝ)) (m p : List ℝ) (hm : Ext R M seen m)
    (hlen : p.length = m.length)
    (hp : ∀ j (hj : j < m.length) (h : j < p.length),
      R p[j] m[j] ∧ (∀ r ∈ fits, ∀ hr : j < r.length, R p[j] r[j]) ∧
      (p[j] = m[j] ∨ ∃ r ∈ fits, ∃ hr : j < r.length, p[j] = r[j])) :
    Ext R M (seen ++ fits) p := by
  obtain ⟨hmM, hmj⟩ := hm
  refine ⟨by rw [hlen, hmM], fun j hj hb => ?_⟩
  have hjm : j < m.length := by omega
  obtain ⟨a1, a2, a3⟩ := hp j hjm hb
  obtain ⟨b1, b2⟩ := hmj j hj hjm
  constructor
  · intro r hr hrl
    rcases List.mem_append.1 hr with h | h
    · exact htr _ _ _ a1 (b1 r h hrl)
    · exact a2 r h hrl
  · rcases a3 with h | ⟨r, hr, hrl, h⟩
    · obtain ⟨r, hr, hrl, h'⟩ := b2
      exact ⟨r, List.mem_append_left _ hr, hrl, h.trans h'⟩
    · exact ⟨r, List.mem_append_right _ hr, hrl, h⟩

/-- what is needed of the update function (`idealPoint` / `worstPoint`) -/
def StepSpec (R : ℝ → ℝ → Prop) (stepf : List (List ℝ) → Option (List ℝ) → List ℝ) : Prop :=
  (∀ fits m, (∀ r ∈ fits, r.length = m.length) →
    (stepf fits (some m)).length = m.length ∧
    ∀ j (hj : j < m.length) (h : j < (stepf fits (some m)).length),
      R (stepf fits (some m))[j] m[j] ∧
      (∀ r ∈ fits, ∀ hr : j < r.length, R (stepf fits (some m))[j] r[j]) ∧
      ((stepf fits (some m))[j] = m[j] ∨
        ∃ r ∈ fits, ∃ hr : j < r.length, (stepf fits (some m))[j] = r[j])) ∧
  (∀ r0 rs, (∀ r ∈ rs, r.length = r0.length) → Ext R r0.length (r0 :: rs) (stepf (r0 :: rs) none))

theorem stepSpec_ideal : StepSpec (fun a b => a ≤ b) idealPoint :=
  ⟨idealPoint_mem, idealPoint_nomem⟩

theorem stepSpec_worst : StepSpec (fun a b => b ≤ a) worstPoint :=
  ⟨worstPoint_mem_att, worstPoint_nomem⟩

/-! ### one remembered point over a sequence of calls -/

/-- the fold `memAfter` performs on one of the two remembered points -/
def pointAfter (stepf : List (List ℝ) → Option (List ℝ) → List ℝ) :
    Option (List ℝ) → List (List (List ℝ)) → Option (List ℝ)
  | o, [] => o
  | o, fits :: rest => pointAfter stepf (some (stepf fits o)) rest

theorem memAfter_best_eq (solve : List (List ℝ) → List ℝ → Option (List ℝ)) (st : Mem ℝ)
    (calls : List (List (List ℝ))) :
    (memAfter solve st calls).best = pointAfter idealPoint st.best calls := by
  induction calls generalizing st with
  | nil => rfl
  | cons fits rest ih =>
    exact ih ⟨some (idealPoint fits st.best), some (worstPoint fits st.worst),
      some (findExtremePoints fits (idealPoint fits st.best) st.extreme)⟩

theorem memAfter_worst_eq (solve : List (List ℝ) → List ℝ → Option (List ℝ)) (st : Mem ℝ)
    (calls : List (List (List ℝ))) :
    (memAfter solve st calls).worst = pointAfter worstPoint st.worst calls := by
  induction calls generalizing st with
  | nil => rfl
  | cons fits rest ih =>
    exact ih ⟨some (idealPoint fits st.best), some (worstPoint fits st.worst),
      some (findExtremePoints fits (idealPoint fits st.best) st.extreme)⟩

/-- from a remembered point that is the extremum of the rows `seen`: after the calls `rest` the
remembered point is the extremum of `seen` and all the rows of `rest` -/
theorem pointAfter_some {R : ℝ → ℝ → Prop} (htr : ∀ a b c, R a b → R b c → R a c)
    (stepf : List (List ℝ) → Option (List ℝ) → List ℝ) (hs : StepSpec R stepf) (M : Nat)
    (rest : List (List (List ℝ))) (seen : List (List ℝ)) (b0 : List ℝ) (hinv : Ext R M seen b0)
    (hrect : ∀ fits ∈ rest, ∀ r ∈ fits, r.length = M) :
    ∃ b, pointAfter stepf (some b0) rest = some b ∧ Ext R M (seen ++ rest.flatten) b := by
  induction rest generalizing seen b0 with
  | nil => exact ⟨b0, rfl, by rw [List.flatten_nil, List.append_nil]; exact hinv⟩
  | cons fits rest ih =>
    have hr0 : ∀ r ∈ fits, r.length = b0.length := by
      intro r hr; rw [hinv.1]; exact hrect fits List.mem_cons_self r hr
    obtain ⟨hl, hj⟩ := hs.1 fits b0 hr0
    have hinv' : Ext R M (seen ++ fits) (stepf fits (some b0)) :=
      Ext.step htr M seen fits b0 _ hinv hl hj
    obtain ⟨b, hb, hE⟩ := ih (seen ++ fits) _ hinv'
      (fun f hf => hrect f (List.mem_cons_of_mem _ hf))
    refine ⟨b, hb, ?_⟩
    rw [List.flatten_cons, ← List.append_assoc]
    exact hE

/-- from the initial state (`none`): after a non-empty sequence of non-empty rectangular calls the
remembered point is the extremum of all rows of all calls -/
theorem pointAfter_none {R : ℝ → ℝ → Prop} (htr : ∀ a b c, R a b → R b c → R a c)
    (stepf : List (List ℝ) → Option (List ℝ) → List ℝ) (hs : StepSpec R stepf) (M : Nat)
    (calls : List (List (List ℝ))) (hne : calls ≠ [])
    (hrect : ∀ fits ∈ calls, fits ≠ [] ∧ ∀ r ∈ fits, r.length = M) :
    ∃ b, pointAfter stepf none calls = some b ∧ Ext R M calls.flatten b := by
  cases calls with
  | nil => exact absurd rfl hne
  | cons fits rest =>
    obtain ⟨hfne, hfrect⟩ := hrect fits List.mem_cons_self
    cases fits with
    | nil => exact absurd rfl hfne
    | cons r0 rs =>
      have h0 : r0.length = M := hfrect r0 List.mem_cons_self
      have hrs : ∀ r ∈ rs, r.length = r0.length := by
        intro r hr; rw [h0]; exact hfrect r (List.mem_cons_of_mem _ hr)
      have hinv : Ext R M (r0 :: rs) (stepf (r0 :: rs) none) := by
        have := hs.2 r0 rs hrs
        rw [h0] at this
        exact this
      obtain ⟨b, hb, hE⟩ := pointAfter_some htr stepf hs M rest (r0 :: rs) _ hinv
        (fun f hf => (hrect f (List.mem_cons_of_mem _ hf)).2)
      exact ⟨b, hb, by rw [List.flatten_cons]; exact hE⟩

/-! ### TASK 1: the memory of `selNSGA3WithMemory` -/

/-- the remembered ideal point after any non-empty sequence of calls is, componentwise, the
minimum of every objective vector seen in all calls: a lower bound that is attained. -/
theorem memAfter_best (solve : List (List ℝ) → List ℝ → Option (List ℝ))
    (calls : List (List (List ℝ))) (M : Nat) (hne : calls ≠ [])
    (hrect : ∀ fits ∈ calls, fits ≠ [] ∧ ∀ r ∈ fits, r.length = M) :
    ∃ b, (memAfter solve Mem.init calls).best = some b ∧ b.length = M ∧
      ∀ j (hj : j < M) (hb : j < b.length),
        (∀ fits ∈ calls, ∀ r ∈ fits, ∀ hr : j < r.length, b[j] ≤ r[j]) ∧
        (∃ fits ∈ calls, ∃ r ∈ fits, ∃ hr : j < r.length, b[j] = r[j]) := by
  obtain ⟨b, hb, hl, hE⟩ := pointAfter_none (R := fun a b => a ≤ b)
    (fun _ _ _ => le_trans) idealPoint stepSpec_ideal M calls hne hrect
  refine ⟨b, by rw [memAfter_best_eq]; exact hb, hl, fun j hj hbj => ?_⟩
  obtain ⟨h1, r, hr, hrl, h2⟩ := hE j hj hbj
  constructor
  · intro fits hf r hr hrl
    exact h1 r (List.mem_flatten.2 ⟨fits, hf, hr⟩) hrl
  · obtain ⟨fits, hf, hr'⟩ := List.mem_flatten.1 hr
    exact ⟨fits, hf, r, hr', hrl, h2⟩

/-- a concrete instance of the hypotheses: two calls, widths 2 -/
example : ([[[(1 : ℝ), 2], [3, 0]], [[0, 5]]] : List (List (List ℝ))) ≠ [] ∧
    ∀ fits ∈ ([[[(1 : ℝ), 2], [3, 0]], [[0, 5]]] : List (List (List ℝ))),
      fits ≠ [] ∧ ∀ r ∈ fits, r.length = 2 := by
  refine ⟨List.cons_ne_nil _ _, ?_⟩
  intro fits hf
  simp only [List.mem_cons, List.not_mem_nil, or_false] at hf
  rcases hf with rfl | rfl
  · refine ⟨List.cons_ne_nil _ _, ?_⟩
    intro r hr
    simp only [List.mem_cons, List.not_mem_nil, or_false] at hr
    rcases hr with rfl | rfl <;> rfl
  · refine ⟨List.cons_ne_nil _ _, ?_⟩
    intro r hr
    simp only [List.mem_cons, List.not_mem_nil, or_false] at hr
    rcases hr with rfl
    rfl

/-- the remembered worst point after any non-empty sequence of calls is, componentwise, the
maximum of every objective vector seen in all calls: an upper bound that is attained. -/
theorem memAfter_worst (solve : List (List ℝ) → List ℝ → Option (List ℝ))
    (calls : List (List (List ℝ))) (M : Nat) (hne : calls ≠ [])
    (hrect : ∀ fits ∈ calls, fits ≠ [] ∧ ∀ r ∈ fits, r.length = M) :
    ∃ w, (memAfter solve Mem.init calls).worst = some w ∧ w.length = M ∧
      ∀ j (hj : j < M) (hw : j < w.length),
        (∀ fits ∈ calls, ∀ r ∈ fits, ∀ hr : j < r.length, r[j] ≤ w[j]) ∧
        (∃ fits ∈ calls, ∃ r ∈ fits, ∃ hr : j < r.length, w[j] = r[j]) := by
  obtain ⟨w, hw, hl, hE⟩ := pointAfter_none (R := fun a b => b ≤ a)
    (fun _ _ _ h1 h2 => le_trans h2 h1) worstPoint stepSpec_worst M calls hne hrect
  refine ⟨w, by rw [memAfter_worst_eq]; exact hw, hl, fun j hj hwj => ?_⟩
  obtain ⟨h1, r, hr, hrl, h2⟩ := hE j hj hwj
  constructor
  · intro fits hf r hr hrl
    exact h1 r (List.mem_flatten.2 ⟨fits, hf, hr⟩) hrl
  · obtain ⟨fits, hf, hr'⟩ := List.mem_flatten.1 hr
    exact ⟨fits, hf, r, hr', hrl, h2⟩

/-- a concrete instance of the hypotheses: three calls, width 3 -/
example : ([[[(1 : ℝ), 2, 7]], [[3, 0, 4]], [[0, 5, 9]]] : List (List (List ℝ))) ≠ [] ∧
    ∀ fits ∈ ([[[(1 : ℝ), 2, 7]], [[3, 0, 4]], [[0, 5, 9]]] : List (List (List ℝ))),
      fits ≠ [] ∧ ∀ r ∈ fits, r.length = 3 := by
  refine ⟨List.cons_ne_nil _ _, ?_⟩
  intro fits hf
  simp only [List.mem_cons, List.not_mem_nil, or_false] at hf
  rcases hf with rfl | rfl | rfl <;>
  · refine ⟨List.cons_ne_nil _ _, ?_⟩
    intro r hr
    simp only [List.mem_cons, List.not_mem_nil, or_false] at hr
    rcases hr with rfl
    rfl

/-! ### TASK 2: the association, all vectors of dimension `M` -/

theorem normalise_length (M : Nat) (best intercepts f : List ℝ) (hb : best.length = M)
    (hi : intercepts.length = M) (hf : f.length = M) :
    (normalise best intercepts f).length = M := by
  unfold normalise
  simp only [List.length_zipWith, hb, hi, hf, Nat.min_self]

theorem normalise_getElem (best intercepts f : List ℝ) (m : Nat)
    (h1 : m < (normalise best intercepts f).length) (h2 : m < f.length) (h3 : m < best.length)
    (h4 : m < intercepts.length) :
    (normalise best intercepts f)[m] = (f[m] - best[m]) / (intercepts[m] - best[m] + eps) := by
  have key : ∀ h : m < (List.zipWith (fun (fb ib : ℝ) => fb / ib)
        (List.zipWith (fun (x y : ℝ) => x - y) f best)
        (List.zipWith (fun (i b : ℝ) => i - b + (eps : ℝ)) intercepts best)).length,
      (List.zipWith (fun (fb ib : ℝ) => fb / ib) (List.zipWith (fun (x y : ℝ) => x - y) f best)
        (List.zipWith (fun (i b : ℝ) => i - b + (eps : ℝ)) intercepts best))[m]
        = (f[m] - best[m]) / (intercepts[m] - best[m] + eps) := by
    intro h
    rw [List.getElem_zipWith, List.getElem_zipWith, List.getElem_zipWith]
  exact key h1

example : (1 : Nat) < (normalise [(0 : ℝ), 0] [1, 2] [1 / 2, 1]).length := by
  rw [normalise_length 2 _ _ _ rfl rfl rfl]
  exact Nat.one_lt_two

/-- `associate_to_niche` for one individual, every vector of dimension `M`, non-zero reference
directions, non-zero denominators: the normalised point has `M` coordinates given by line 627, the
chosen niche is a valid index, its distance is ≤ the distance from the normalised point to every
point `t·r` of every reference line, and is the distance to the orthogonal projection on the chosen
line. -/
theorem associate_correct (M : Nat) (refs : List (List ℝ)) (best intercepts f : List ℝ)
    (hne : refs ≠ [])
    (hrefs : ∀ r ∈ refs, r.length = M ∧ ∃ x ∈ r, x ≠ 0)
    (hb : best.length = M) (hi : intercepts.length = M) (hf : f.length = M)
    (hden : ∀ d ∈ List.zipWith (fun i b => i - b + (eps : ℝ)) intercepts best, d ≠ 0) :
    let fn := normalise best intercepts f
    let res := associate1 refs best intercepts f
    fn.length = M ∧
    (∀ m (hm : m < M) (h1 : m < fn.length) (h2 : m < f.length) (h3 : m < best.length)
        (h4 : m < intercepts.length),
        fn[m] = (f[m] - best[m]) / (intercepts[m] - best[m] + eps)) ∧
    res.1 < refs.length ∧
    (∀ r ∈ refs, ∀ t : ℝ,
      res.2 ≤ Real.sqrt ((List.zipWith (fun a x => (a - t * x) ^ 2) fn r).sum)) ∧
    res.2 = Real.sqrt ((List.zipWith (fun a x =>
      (a - (sdot fn (refs.getD res.1 []) / sdot (refs.getD res.1 []) (refs.getD res.1 [])) * x) ^ 2)
        fn (refs.getD res.1 [])).sum) := by
  intro fn res
  have _ := hden
  have hfn : fn.length = M := normalise_length M best intercepts f hb hi hf
  obtain ⟨a1, a2, a3⟩ := associate1_argmin refs best intercepts f hne
  have hmem : refs.getD res.1 [] ∈ refs := by
    rw [List.getD_eq_getElem _ _ a1]
    exact List.getElem_mem a1
  refine ⟨hfn, ?_, a1, ?_, ?_⟩
  · intro m hm h1 h2 h3 h4
    exact normalise_getElem best intercepts f m h1 h2 h3 h4
  · intro r hr t
    obtain ⟨hrl, hr0⟩ := hrefs r hr
    exact le_trans (a2 r hr) (perpDist_le_line fn r (by rw [hfn, hrl]) hr0 t)
  · obtain ⟨hrl, hr0⟩ := hrefs _ hmem
    rw [← perpDist_eq fn _ (by rw [hfn, hrl]) hr0]
    exact a3

/-- a concrete instance of the hypotheses: three reference directions in dimension 2 -/
example : ([[(1 : ℝ), 0], [0, 1], [1, 1]] : List (List ℝ)) ≠ [] ∧
    (∀ r ∈ ([[(1 : ℝ), 0], [0, 1], [1, 1]] : List (List ℝ)), r.length = 2 ∧ ∃ x ∈ r, x ≠ 0) ∧
    [(0 : ℝ), 0].length = 2 ∧ [(1 : ℝ), 2].length = 2 ∧ [(1 / 2 : ℝ), 1].length = 2 ∧
    (∀ d ∈ List.zipWith (fun i b => i - b + (eps : ℝ)) [(1 : ℝ), 2] [(0 : ℝ), 0], d ≠ 0) := by
  refine ⟨List.cons_ne_nil _ _, ?_, rfl, rfl, rfl, ?_⟩
  · intro r hr
    simp only [List.mem_cons, List.not_mem_nil, or_false] at hr
    rcases hr with rfl | rfl | rfl
    · exact ⟨rfl, 1, List.mem_cons_self, one_ne_zero⟩
    · exact ⟨rfl, 1, List.mem_cons_of_mem _ List.mem_cons_self, one_ne_zero⟩
    · exact ⟨rfl, 1, List.mem_cons_self, one_ne_zero⟩
  · intro d hd
    have he := eps_pos
    simp only [List.zipWith_cons_cons, List.zipWith_nil_right, List.mem_cons, List.not_mem_nil,
      or_false] at hd
    rcases hd with rfl | rfl
    · have : (0 : ℝ) < 1 - 0 + eps := by linarith
      exact this.ne'
    · have : (0 : ℝ) < 2 - 0 + eps := by linarith
      exact this.ne'

end C07L
