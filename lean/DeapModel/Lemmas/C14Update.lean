/-
C14 helper lemmas: the matrix updates of the model (`MO.rankOneUpdate`, `Active.applyAB` with its
three branches, `Active.aPrime`/`infeasibleUpdate`, `OnePlus.covUpdate`) at `α = ℝ`, expressed
with Mathlib matrices.
-/
import DeapModel.Lemmas.C14Bridge
import DeapModel.Lemmas.C14Matrix
import Mathlib.LinearAlgebra.Matrix.NonsingularInverse

set_option linter.unusedSectionVars false
set_option linter.unusedVariables false
set_option linter.unusedSimpArgs false

namespace C14Update
open CmaElitist CmaElitist.LA C14Bridge Matrix

/-! ### norms -/
theorem normSq_cons (x : ℝ) (w : List ℝ) : normSq (x :: w) = x * x + normSq w := by
  unfold normSq; rw [rsum_eq, rsum_eq]; simp only [List.map_cons, List.sum_cons]

theorem normSq_nil : normSq ([] : List ℝ) = 0 := by unfold normSq; rw [rsum_eq]; simp

theorem normSq_nonneg (w : List ℝ) : 0 ≤ normSq w := by
  induction w with
  | nil => rw [normSq_nil]
  | cons x w ih => rw [normSq_cons]; nlinarith [mul_self_nonneg x]

theorem normSq_eq_zero (w : List ℝ) (h : normSq w = 0) : ∀ x ∈ w, x = 0 := by
  induction w with
  | nil => simp
  | cons x w ih =>
    rw [normSq_cons] at h
    have h1 := normSq_nonneg w
    have h2 := mul_self_nonneg x
    have hx : x * x = 0 := by linarith
    have hw : normSq w = 0 := by linarith
    intro y hy
    rcases List.mem_cons.1 hy with rfl | hy
    · exact mul_self_eq_zero.1 hx
    · exact ih hw y hy

theorem maxAbs_fold_zero (w : List ℝ) (hz : ∀ x ∈ w, x = 0) (m : ℝ) (hm : 0 ≤ m) :
    w.foldl (fun m x => RealLike.pmax m (RealLike.abs x)) m = m := by
  induction w generalizing m with
  | nil => rfl
  | cons x w ih =>
    have hx : x = 0 := hz x (by simp)
    subst hx
    simp only [List.foldl_cons]
    have : RealLike.pmax m (RealLike.abs (0 : ℝ)) = m := by
      unfold RealLike.pmax
      rw [if_neg]
      simp only [RealLike.real_abs, abs_zero]
      exact not_lt.2 hm
    rw [this]; exact ih (fun y hy => hz y (by simp [hy])) m hm

/-- The guard of `_rankOneUpdate` (`|w|.max() > 1e-20`) implies `‖w‖² > 0`, whatever the signs. -/
theorem normSq_pos_of_guard (w : List ℝ)
    (hg : RealLike.ofRatio 1 100000000000000000000 < maxAbs w) : 0 < normSq w := by
  rcases (normSq_nonneg w).lt_or_eq with h | h
  · exact h
  · exfalso
    have hz := normSq_eq_zero w h.symm
    have : maxAbs w = 0 := by
      unfold maxAbs; rw [rl_zero]; exact maxAbs_fold_zero w hz 0 le_rfl
    rw [this] at hg
    simp only [RealLike.real_ofRatio] at hg
    norm_num at hg

theorem normSqrd_eq (w : List ℝ) : Active.normSqrd w = normSq w := by
  unfold Active.normSqrd
  simp only [RealLike.real_sqrt]
  exact Real.mul_self_sqrt (normSq_nonneg w)

/-! ### `StrategyMultiObjective._rankOneUpdate` -/

/-- The guard does not fire: nothing changes. -/
theorem rankOne_skip (n : Nat) (invCh A : List (List ℝ)) (α β : ℝ) (v : List ℝ)
    (hg : ¬ RealLike.ofRatio 1 100000000000000000000 < maxAbs (matVec invCh v)) :
    MO.rankOneUpdate n invCh A α β v = (invCh, A) := by
  unfold MO.rankOneUpdate; simp only []; rw [if_neg hg]

/-- The update in matrix form: with `w = invCh·v`, `a = √α`, `r = √(1 + β/α‖w‖²)`,
`b = a/‖w‖²(r - 1)`. -/
theorem rankOne_mat (n : Nat) (invCh A : List (List ℝ)) (α β : ℝ) (v : List ℝ)
    (hI : IsMat n invCh) (hA : IsMat n A) (hv : v.length = n)
    (hg : RealLike.ofRatio 1 100000000000000000000 < maxAbs (matVec invCh v)) :
    let w := matOf n invCh *ᵥ vecOf n v
    let a := Real.sqrt α
    let b := a / (w ⬝ᵥ w) * (Real.sqrt (1 + β / α * (w ⬝ᵥ w)) - 1)
    IsMat n (MO.rankOneUpdate n invCh A α β v).1 ∧ IsMat n (MO.rankOneUpdate n invCh A α β v).2 ∧
    matOf n (MO.rankOneUpdate n invCh A α β v).2 = a • matOf n A + b • vecMulVec (vecOf n v) w ∧
    matOf n (MO.rankOneUpdate n invCh A α β v).1 =
      (1 / a) • matOf n invCh - (b / (a * a + a * b * (w ⬝ᵥ w))) • (vecMulVec w w * matOf n invCh) := by
  intro w a b
  have hwl : (matVec invCh v).length = n := by simp [hI.1]
  have hw : vecOf n (matVec invCh v) = w := vecOf_matVec n invCh v hI hv
  have hn : normSq (matVec invCh v) = w ⬝ᵥ w := by rw [normSq_eq n _ hwl, hw]
  have hwi : (vecMat n (matVec invCh v) invCh).length = n := by simp
  unfold MO.rankOneUpdate
  simp only []
  rw [if_pos hg]
  simp only [RealLike.real_sqrt, RealLike.real_add, RealLike.real_mul, RealLike.real_div,
    RealLike.real_sub, rl_one]
  refine ⟨isMat_msub (isMat_mscale _ hI) (isMat_mscale _ (isMat_outer hwl hwi)),
    isMat_madd (isMat_mscale _ hA) (isMat_mscale _ (isMat_outer hv hwl)), ?_, ?_⟩
  · rw [matOf_madd n _ _ (isMat_mscale _ hA) (isMat_mscale _ (isMat_outer hv hwl)),
      matOf_mscale, matOf_mscale, matOf_outer n _ _ hv, hw, hn]
  · rw [matOf_msub n _ _ (isMat_mscale _ hI) (isMat_mscale _ (isMat_outer hwl hwi)),
      matOf_mscale, matOf_mscale, matOf_outer n _ _ hwl, vecOf_vecMat n invCh _ hI.1 hwl, hw, hn,
      vecMulVec_mul]

/-- Left inverse ⇒ right inverse for square real matrices, and `A (A⁻¹ v) = v`. -/
theorem mulVec_inv (n : Nat) (A invA : Matrix (Fin n) (Fin n) ℝ) (h : invA * A = 1) (v : Fin n → ℝ) :
    A *ᵥ (invA *ᵥ v) = v := by
  rw [mulVec_mulVec, mul_eq_one_comm.1 h, one_mulVec]

/-- `_rankOneUpdate` on an exact inverse pair: rank-one identity and (for `1 + β/α‖w‖² > 0`)
the stored inverse stays the inverse. -/
theorem rankOne_main (n : Nat) (invCh A : List (List ℝ)) (α β : ℝ) (v : List ℝ)
    (hI : IsMat n invCh) (hA : IsMat n A) (hv : v.length = n)
    (hinv : matOf n invCh * matOf n A = 1) (hα : 0 < α)
    (hg : RealLike.ofRatio 1 100000000000000000000 < maxAbs (matVec invCh v))
    (ht : 0 ≤ 1 + β / α * normSq (matVec invCh v)) :
    matOf n (MO.rankOneUpdate n invCh A α β v).2 * (matOf n (MO.rankOneUpdate n invCh A α β v).2)ᵀ
      = α • (matOf n A * (matOf n A)ᵀ) + β • vecMulVec (vecOf n v) (vecOf n v) ∧
    (0 < 1 + β / α * normSq (matVec invCh v) →
      matOf n (MO.rankOneUpdate n invCh A α β v).1 * matOf n (MO.rankOneUpdate n invCh A α β v).2 = 1) := by
  obtain ⟨_, _, hA', hI'⟩ := rankOne_mat n invCh A α β v hI hA hv hg
  have hwl : (matVec invCh v).length = n := by simp [hI.1]
  have hw : vecOf n (matVec invCh v) = matOf n invCh *ᵥ vecOf n v := vecOf_matVec n invCh v hI hv
  have hn : normSq (matVec invCh v) = (matOf n invCh *ᵥ vecOf n v) ⬝ᵥ (matOf n invCh *ᵥ vecOf n v) := by
    rw [normSq_eq n _ hwl, hw]
  have hpos := normSq_pos_of_guard _ hg
  rw [hn] at ht hpos
  have hAw : matOf n A *ᵥ (matOf n invCh *ᵥ vecOf n v) = vecOf n v := mulVec_inv n _ _ hinv _
  obtain ⟨k1, k2⟩ := C14Matrix.coded_update (matOf n A) (matOf n invCh) (matOf n invCh *ᵥ vecOf n v) α β
    (Real.sqrt α) (Real.sqrt (1 + β / α * ((matOf n invCh *ᵥ vecOf n v) ⬝ᵥ (matOf n invCh *ᵥ vecOf n v))))
    hinv hpos.ne' hα.ne' (Real.mul_self_sqrt hα.le) (Real.mul_self_sqrt ht)
  rw [hAw] at k1 k2
  rw [hA', hI']
  refine ⟨k1, fun hpos' => k2 ?_⟩
  rw [hn] at hpos'
  exact (Real.sqrt_pos.2 hpos').ne'

/-! ### `StrategyActiveOnePlusLambda`: the common `A` / `invA` formulas -/

theorem applyAB_mat (n : Nat) (A invA : List (List ℝ)) (a b nrm : ℝ) (w : List ℝ)
    (hA : IsMat n A) (hI : IsMat n invA) (hw : w.length = n) :
    IsMat n (Active.applyAB n A invA a b nrm w).1 ∧ IsMat n (Active.applyAB n A invA a b nrm w).2 ∧
    matOf n (Active.applyAB n A invA a b nrm w).1
      = a • matOf n A + b • vecMulVec (matOf n A *ᵥ vecOf n w) (vecOf n w) ∧
    matOf n (Active.applyAB n A invA a b nrm w).2
      = (1 / a) • matOf n invA - (b / (a * a + a * b * nrm)) • (vecMulVec (vecOf n w) (vecOf n w) * matOf n invA) := by
  have hAw : (matVec A w).length = n := by simp [hA.1]
  have hO : IsMat n (outer w w) := isMat_outer hw hw
  unfold Active.applyAB
  simp only [RealLike.real_add, RealLike.real_mul, RealLike.real_div, rl_one]
  refine ⟨isMat_madd (isMat_mscale _ hA) (isMat_mscale _ (isMat_outer hAw hw)),
    isMat_msub (isMat_mscale _ hI) (isMat_mscale _ (isMat_matMul _ hO.1)), ?_, ?_⟩
  · rw [matOf_madd n _ _ (isMat_mscale _ hA) (isMat_mscale _ (isMat_outer hAw hw)),
      matOf_mscale, matOf_mscale, matOf_outer n _ _ hAw, vecOf_matVec n A w hA hw]
  · rw [matOf_msub n _ _ (isMat_mscale _ hI) (isMat_mscale _ (isMat_matMul _ hO.1)),
      matOf_mscale, matOf_mscale, matOf_matMul n _ _ hO hI.1, matOf_outer n _ _ hw]

/-- The branch data of the successful update: `w = invA·pc'`, `‖w‖²`, and the coded `a`, `b`. -/
theorem positiveABW_spec (p : Active.Params ℝ) (psucc : ℝ) (pc : List ℝ) (invA : List (List ℝ)) (y : List ℝ) :
    (Active.positiveABW p psucc pc invA y).2.w = matVec invA (Active.positiveABW p psucc pc invA y).1 ∧
    (Active.positiveABW p psucc pc invA y).2.nrm = normSq (Active.positiveABW p psucc pc invA y).2.w ∧
    ((psucc < p.pthresh ∨ Active.allClose0 pc = true) →
      (Active.positiveABW p psucc pc invA y).1
        = vadd (vscale (1 - p.cc) pc) (vscale (Real.sqrt (p.cc * (2 - p.cc))) y) ∧
      (Active.positiveABW p psucc pc invA y).2.a = Real.sqrt (1 - p.ccovp) ∧
      (Active.positiveABW p psucc pc invA y).2.b
        = Real.sqrt (1 - p.ccovp) / (Active.positiveABW p psucc pc invA y).2.nrm
          * (Real.sqrt (1 + p.ccovp / (1 - p.ccovp) * (Active.positiveABW p psucc pc invA y).2.nrm) - 1)) ∧
    (¬ (psucc < p.pthresh ∨ Active.allClose0 pc = true) →
      (Active.positiveABW p psucc pc invA y).1 = vscale (1 - p.cc) pc ∧
      (Active.positiveABW p psucc pc invA y).2.a = Real.sqrt (1 - p.ccovp * (1 + p.cc * (2 - p.cc))) ∧
      (Active.positiveABW p psucc pc invA y).2.b
        = Real.sqrt (1 - p.ccovp * (1 + p.cc * (2 - p.cc)))
          * (Real.sqrt (1 + p.ccovp * (Active.positiveABW p psucc pc invA y).2.nrm
              / (1 - p.ccovp * (1 + p.cc * (2 - p.cc)))) - 1)
          / (Active.positiveABW p psucc pc invA y).2.nrm) := by
  unfold Active.positiveABW
  by_cases hc : (psucc < p.pthresh ∨ Active.allClose0 pc = true)
  · have hc' : @LT.lt ℝ RealLike.toLT psucc p.pthresh ∨ Active.allClose0 pc = true := hc
    rw [if_pos hc']
    refine ⟨rfl, normSqrd_eq _, fun _ => ⟨?_, ?_, ?_⟩, fun h => absurd hc h⟩
    all_goals simp only [RealLike.real_sqrt, RealLike.real_add, RealLike.real_mul, RealLike.real_div,
      RealLike.real_sub, rl_one, rl_two]
  · have hc' : ¬ (@LT.lt ℝ RealLike.toLT psucc p.pthresh ∨ Active.allClose0 pc = true) := hc
    rw [if_neg hc']
    refine ⟨rfl, normSqrd_eq _, fun h => absurd h hc, fun _ => ⟨?_, ?_, ?_⟩⟩
    all_goals simp only [RealLike.real_sqrt, RealLike.real_add, RealLike.real_mul, RealLike.real_div,
      RealLike.real_sub, rl_one, rl_two]

/-- The branch data of the active (negative) update. -/
theorem negativeABW_spec (p : Active.Params ℝ) (z : List ℝ) :
    let c := if 1 < p.ccovn * (2 * normSq z - 1) then 1 / (2 * normSq z - 1) else p.ccovn
    (Active.negativeABW p z).w = z ∧ (Active.negativeABW p z).nrm = normSq z ∧
    (Active.negativeABW p z).a = Real.sqrt (1 + c) ∧
    (Active.negativeABW p z).b = Real.sqrt (1 + c) / normSq z * (Real.sqrt (1 - c / (1 + c) * normSq z) - 1) := by
  intro c
  unfold Active.negativeABW
  simp only [normSqrd_eq, RealLike.real_sqrt, RealLike.real_add, RealLike.real_mul, RealLike.real_div,
    RealLike.real_sub, rl_one, rl_two, RealLike.real_lt]
  refine ⟨trivial, trivial, ?_, ?_⟩ <;> congr

/-- Generic step used by the three branches of the active update: for `w` (a list of length `n`)
with `A·w = u`, coded scalars `a² = α`, `b = a/‖w‖²·(r-1)`, `r² = 1 + β/α‖w‖²`, `r ≠ 0`. -/
theorem applyAB_main (n : Nat) (A invA : List (List ℝ)) (w : List ℝ) (α β a r : ℝ)
    (hA : IsMat n A) (hI : IsMat n invA) (hw : w.length = n)
    (hinv : matOf n invA * matOf n A = 1) (hn : normSq w ≠ 0) (hα : α ≠ 0) (ha : a * a = α)
    (hr : r * r = 1 + β / α * normSq w) (hr0 : r ≠ 0) :
    IsMat n (Active.applyAB n A invA a (a / normSq w * (r - 1)) (normSq w) w).1 ∧
    IsMat n (Active.applyAB n A invA a (a / normSq w * (r - 1)) (normSq w) w).2 ∧
    matOf n (Active.applyAB n A invA a (a / normSq w * (r - 1)) (normSq w) w).1
        * (matOf n (Active.applyAB n A invA a (a / normSq w * (r - 1)) (normSq w) w).1)ᵀ
      = α • (matOf n A * (matOf n A)ᵀ)
        + β • vecMulVec (matOf n A *ᵥ vecOf n w) (matOf n A *ᵥ vecOf n w) ∧
    matOf n (Active.applyAB n A invA a (a / normSq w * (r - 1)) (normSq w) w).2
        * matOf n (Active.applyAB n A invA a (a / normSq w * (r - 1)) (normSq w) w).1 = 1 := by
  obtain ⟨s1, s2, m1, m2⟩ := applyAB_mat n A invA a (a / normSq w * (r - 1)) (normSq w) w hA hI hw
  have hnw : normSq w = vecOf n w ⬝ᵥ vecOf n w := normSq_eq n w hw
  rw [hnw] at hn hr m1 m2
  obtain ⟨k1, k2⟩ := C14Matrix.coded_update (matOf n A) (matOf n invA) (vecOf n w) α β a r hinv hn hα ha hr
  refine ⟨s1, s2, ?_, ?_⟩
  · rw [hnw, m1]; exact k1
  · rw [hnw, m2, m1]; exact k2 hr0

/-- Successful update of the active strategy (either branch of cma.py:750-770): the new factor
satisfies `A'A'ᵀ = α·AAᵀ + ccovp·pc' pc'ᵀ` with `α = 1 - ccovp` resp. `1 - ccovp(1 + cc(2-cc))`, and the
coded `invA'` is its inverse. -/
theorem positive_main (n : Nat) (p : Active.Params ℝ) (psucc : ℝ) (pc y : List ℝ) (A invA : List (List ℝ))
    (hA : IsMat n A) (hI : IsMat n invA) (hpc : pc.length = n) (hy : y.length = n)
    (hinv : matOf n invA * matOf n A = 1)
    (h0 : 0 < p.ccovp) (h1 : p.ccovp < 1) (hd : p.ccovp * (1 + p.cc * (2 - p.cc)) < 1)
    (hn : normSq (Active.positiveABW p psucc pc invA y).2.w ≠ 0) :
    let r := Active.positiveABW p psucc pc invA y
    let m := Active.applyAB n A invA r.2.a r.2.b r.2.nrm r.2.w
    let α := if (psucc < p.pthresh ∨ Active.allClose0 pc = true) then 1 - p.ccovp
             else 1 - p.ccovp * (1 + p.cc * (2 - p.cc))
    IsMat n m.1 ∧ IsMat n m.2 ∧ r.1.length = n ∧
    matOf n m.1 * (matOf n m.1)ᵀ
      = α • (matOf n A * (matOf n A)ᵀ) + p.ccovp • vecMulVec (vecOf n r.1) (vecOf n r.1) ∧
    matOf n m.2 * matOf n m.1 = 1 := by
  dsimp only
  obtain ⟨e1, e2, e3, e4⟩ := positiveABW_spec p psucc pc invA y
  have hnn := normSq_nonneg (Active.positiveABW p psucc pc invA y).2.w
  have hpcl : (Active.positiveABW p psucc pc invA y).1.length = n := by
    by_cases hc : (psucc < p.pthresh ∨ Active.allClose0 pc = true)
    · rw [(e3 hc).1]; simp [hpc, hy]
    · rw [(e4 hc).1]; simp [hpc]
  have hwl : (Active.positiveABW p psucc pc invA y).2.w.length = n := by rw [e1]; simp [hI.1]
  have hAw : matOf n A *ᵥ vecOf n (Active.positiveABW p psucc pc invA y).2.w = vecOf n (Active.positiveABW p psucc pc invA y).1 := by
    rw [e1, vecOf_matVec n invA _ hI hpcl]; exact mulVec_inv n _ _ hinv _
  by_cases hc : (psucc < p.pthresh ∨ Active.allClose0 pc = true)
  · obtain ⟨_, ea, eb⟩ := e3 hc
    have hα : (0 : ℝ) < 1 - p.ccovp := by linarith
    have ht : 0 < 1 + p.ccovp / (1 - p.ccovp) * normSq (Active.positiveABW p psucc pc invA y).2.w := by
      have : 0 ≤ p.ccovp / (1 - p.ccovp) := div_nonneg h0.le hα.le
      nlinarith [mul_nonneg this hnn]
    have := applyAB_main n A invA _ (1 - p.ccovp) p.ccovp (Real.sqrt (1 - p.ccovp))
      (Real.sqrt (1 + p.ccovp / (1 - p.ccovp) * normSq (Active.positiveABW p psucc pc invA y).2.w))
      hA hI hwl hinv hn hα.ne' (Real.mul_self_sqrt hα.le) (Real.mul_self_sqrt ht.le)
      (Real.sqrt_pos.2 ht).ne'
    rw [ea, eb, e2, if_pos hc]
    obtain ⟨t1, t2, t3, t4⟩ := this
    rw [hAw] at t3
    exact ⟨t1, t2, hpcl, t3, t4⟩
  · obtain ⟨_, ea, eb⟩ := e4 hc
    have hα : (0 : ℝ) < 1 - p.ccovp * (1 + p.cc * (2 - p.cc)) := by linarith
    have ht : 0 < 1 + p.ccovp / (1 - p.ccovp * (1 + p.cc * (2 - p.cc))) * normSq (Active.positiveABW p psucc pc invA y).2.w := by
      have : 0 ≤ p.ccovp / (1 - p.ccovp * (1 + p.cc * (2 - p.cc))) := div_nonneg h0.le hα.le
      nlinarith [mul_nonneg this hnn]
    have := applyAB_main n A invA _ (1 - p.ccovp * (1 + p.cc * (2 - p.cc))) p.ccovp
      (Real.sqrt (1 - p.ccovp * (1 + p.cc * (2 - p.cc))))
      (Real.sqrt (1 + p.ccovp / (1 - p.ccovp * (1 + p.cc * (2 - p.cc))) * normSq (Active.positiveABW p psucc pc invA y).2.w))
      hA hI hwl hinv hn hα.ne' (Real.mul_self_sqrt hα.le) (Real.mul_self_sqrt ht.le)
      (Real.sqrt_pos.2 ht).ne'
    have hb : (Active.positiveABW p psucc pc invA y).2.b
        = Real.sqrt (1 - p.ccovp * (1 + p.cc * (2 - p.cc))) / normSq (Active.positiveABW p psucc pc invA y).2.w
          * (Real.sqrt (1 + p.ccovp / (1 - p.ccovp * (1 + p.cc * (2 - p.cc))) * normSq (Active.positiveABW p psucc pc invA y).2.w) - 1) := by
      rw [eb, e2]
      have : p.ccovp * normSq (Active.positiveABW p psucc pc invA y).2.w / (1 - p.ccovp * (1 + p.cc * (2 - p.cc)))
          = p.ccovp / (1 - p.ccovp * (1 + p.cc * (2 - p.cc))) * normSq (Active.positiveABW p psucc pc invA y).2.w := by ring
      rw [this]; ring
    rw [ea, hb, e2, if_neg hc]
    obtain ⟨t1, t2, t3, t4⟩ := this
    rw [hAw] at t3
    exact ⟨t1, t2, hpcl, t3, t4⟩

/-- Active (negative) update, cma.py:778-794: `A'A'ᵀ = (1+c)·AAᵀ - c·(Az)(Az)ᵀ` with the capped
`c`, and the coded `invA'` is the inverse of `A'`. -/
theorem negative_main (n : Nat) (p : Active.Params ℝ) (z : List ℝ) (A invA : List (List ℝ))
    (hA : IsMat n A) (hI : IsMat n invA) (hz : z.length = n)
    (hinv : matOf n invA * matOf n A = 1) (hc0 : 0 < p.ccovn) (hn : normSq z ≠ 0) :
    let r := Active.negativeABW p z
    let m := Active.applyAB n A invA r.a r.b r.nrm r.w
    let c := if 1 < p.ccovn * (2 * normSq z - 1) then 1 / (2 * normSq z - 1) else p.ccovn
    IsMat n m.1 ∧ IsMat n m.2 ∧ 0 < c ∧
    matOf n m.1 * (matOf n m.1)ᵀ
      = (1 + c) • (matOf n A * (matOf n A)ᵀ)
        + (-c) • vecMulVec (matOf n A *ᵥ vecOf n z) (matOf n A *ᵥ vecOf n z) ∧
    matOf n m.2 * matOf n m.1 = 1 := by
  dsimp only
  obtain ⟨e1, e2, e3, e4⟩ := negativeABW_spec p z
  obtain ⟨c1, c2⟩ := C14Matrix.neg_cap p.ccovn (normSq z) hc0 (normSq_nonneg z)
  generalize (if 1 < p.ccovn * (2 * normSq z - 1) then 1 / (2 * normSq z - 1) else p.ccovn) = c
    at e3 e4 c1 c2 ⊢
  have hα : (0 : ℝ) < 1 + c := by linarith
  have hte : 1 + (-c) / (1 + c) * normSq z = 1 - c / (1 + c) * normSq z := by ring
  have ht0 : 0 < 1 + (-c) / (1 + c) * normSq z := by rw [hte]; linarith
  have := applyAB_main n A invA z (1 + c) (-c) (Real.sqrt (1 + c))
    (Real.sqrt (1 + (-c) / (1 + c) * normSq z)) hA hI hz hinv hn hα.ne'
    (Real.mul_self_sqrt hα.le) (Real.mul_self_sqrt ht0.le) (Real.sqrt_pos.2 ht0).ne'
  have hb : (Active.negativeABW p z).b
      = Real.sqrt (1 + c) / normSq z * (Real.sqrt (1 + (-c) / (1 + c) * normSq z) - 1) := by
    rw [e4, hte]
  rw [e1, e2, e3, hb]
  obtain ⟨t1, t2, t3, t4⟩ := this
  exact ⟨t1, t2, c1, t3, t4⟩

end C14Update
