/-
C04 lemmas, part 3: the model of `sortNondominated` computes the peeling.
Phase 1 (`rankFirst`): after the double loop the counter of every fitness is its number of
dominators, `dominated_fits[f]` lists what `f` dominates, `current_front` is the non-dominated set.
Phase 2 (`whileLoop`): invariant "the counters of the remaining fitnesses count their remaining
dominators"; every iteration emits exactly the next front.
-/
import DeapModel.Lemmas.C04Dict

set_option linter.unusedSectionVars false
set_option linter.unusedSimpArgs false
set_option linter.unusedVariables false
set_option linter.unnecessarySeqFocus false

namespace C04L
open NDSort

variable {α : Type} [LinearOrder α]

/-- number of dominators of `f` inside `R` (as the Python `int` counter) -/
def cntOf (R : List (List α)) (f : List α) : Int := ((R.filter (fun g => domW g f)).length : Int)

theorem cntOf_append (P Q : List (List α)) (f : List α) : cntOf (P ++ Q) f = cntOf P f + cntOf Q f := by
  simp [cntOf, List.filter_append]

theorem cntOf_eq_zero_iff (R : List (List α)) (f : List α) :
    cntOf R f = 0 ↔ (R.any (fun g => domW g f)) = false := by
  simp only [cntOf, Int.natCast_eq_zero, List.length_eq_zero_iff, List.filter_eq_nil_iff,
    Bool.not_eq_true, List.any_eq_false]

theorem cntOf_perm {R R' : List (List α)} (h : R.Perm R') (f : List α) : cntOf R f = cntOf R' f := by
  simp only [cntOf]; rw [(h.filter _).length_eq]

/-! ### Phase 1 -/

theorem pairStep_current (fi fj : List α) (s : StdState α) : (pairStep fi fj s).current = s.current := by
  simp only [pairStep]; split
  · rfl
  · split <;> rfl

/-- one row `for fit_j in fits[i+1:]` -/
theorem row_spec (fi : List α) : ∀ (rest : List (List α)) (s : StdState α), fi ∉ rest → rest.Nodup →
    (∀ b ∈ rest, domW fi b = true → domW b fi = false) →
    (rest.foldl (fun s fj => pairStep fi fj s) s).current = s.current ∧
    (∀ f, dget (rest.foldl (fun s fj => pairStep fi fj s) s).cnt 0 f = dget s.cnt 0 f +
        (if f = fi then cntOf rest fi else if f ∈ rest ∧ domW fi f = true then 1 else 0)) ∧
    (∀ f, dget (rest.foldl (fun s fj => pairStep fi fj s) s).dominated [] f = dget s.dominated [] f ++
        (if f = fi then rest.filter (fun b => domW fi b)
         else if f ∈ rest ∧ domW f fi = true then [fi] else []))
  | [], s, _, _, _ => by simp [cntOf]
  | b :: rest, s, hfi, hnd, hasym => by
    have hb : b ≠ fi := fun e => hfi (by simp [e])
    have hfi' : fi ∉ rest := fun h => hfi (by simp [h])
    have hbr : b ∉ rest := (List.nodup_cons.1 hnd).1
    obtain ⟨ih1, ih2, ih3⟩ := row_spec fi rest (pairStep fi b s) hfi' (List.nodup_cons.1 hnd).2
      (fun c hc => hasym c (by simp [hc]))
    simp only [List.foldl_cons]
    refine ⟨by rw [ih1, pairStep_current], fun f => ?_, fun f => ?_⟩
    · rw [ih2 f]
      have hcons : cntOf (b :: rest) fi = (if domW b fi = true then 1 else 0) + cntOf rest fi := by
        simp only [cntOf, List.filter_cons]; split <;> simp <;> omega
      by_cases h1 : domW fi b = true
      · have h2 : domW b fi = false := hasym b (by simp) h1
        simp only [pairStep, h1, ↓reduceIte, dget_dset]
        by_cases hf : f = fi
        · subst hf; simp [hb, hcons, h2]
        · by_cases hfb : f = b
          · subst hfb; simp [hf, hbr, h1]
          · have : ¬ b = f := fun e => hfb e.symm
            simp [hf, hfb, this]
      · by_cases h2 : domW b fi = true
        · simp only [pairStep, h1, h2, Bool.false_eq_true, ↓reduceIte, dget_dset]
          by_cases hf : f = fi
          · subst hf; simp [hcons, h2]; omega
          · have : ¬ fi = f := fun e => hf e.symm
            by_cases hfb : f = b
            · subst hfb; simp [hf, hbr, h1, this]
            · simp [hf, hfb, this]
        · simp only [pairStep, h1, h2, Bool.false_eq_true, ↓reduceIte]
          by_cases hf : f = fi
          · subst hf; simp [hcons, h2]
          · by_cases hfb : f = b
            · subst hfb; simp [hf, hbr, h1]
            · simp [hf, hfb]
    · rw [ih3 f]
      by_cases h1 : domW fi b = true
      · have h2 : domW b fi = false := hasym b (by simp) h1
        simp only [pairStep, h1, ↓reduceIte, dget_dset]
        by_cases hf : f = fi
        · subst hf; simp [List.filter_cons, h1]
        · have : ¬ fi = f := fun e => hf e.symm
          by_cases hfb : f = b
          · subst hfb; simp [hf, hbr, h2, this]
          · simp [hf, hfb, this]
      · by_cases h2 : domW b fi = true
        · simp only [pairStep, h1, h2, Bool.false_eq_true, ↓reduceIte, dget_dset]
          by_cases hf : f = fi
          · subst hf; simp [List.filter_cons, h1, hb]
          · by_cases hfb : f = b
            · subst hfb; simp [hf, hbr, h2]
            · have : ¬ b = f := fun e => hfb e.symm
              simp [hf, hfb, this]
        · simp only [pairStep, h1, h2, Bool.false_eq_true, ↓reduceIte]
          by_cases hf : f = fi
          · subst hf; simp [List.filter_cons, h1]
          · by_cases hfb : f = b
            · subst hfb; simp [hf, hbr, h2]
            · simp [hf, hfb]

/-- the double loop, started after the rows of `P` have been processed -/
theorem rankFirst_inv : ∀ (Q P : List (List α)) (s : StdState α), (P ++ Q).Nodup → SPO domW (P ++ Q) →
    (∀ f ∈ Q, dget s.cnt 0 f = cntOf P f) → (∀ f ∈ P, dget s.cnt 0 f = cntOf (P ++ Q) f) →
    (∀ f ∈ Q, dget s.dominated [] f = P.filter (fun g => domW f g)) →
    (∀ f ∈ P, dget s.dominated [] f = (P ++ Q).filter (fun g => domW f g)) →
    s.current = P.filter (fun f => !(P ++ Q).any (fun g => domW g f)) →
    (∀ f ∈ P ++ Q, dget (rankFirst Q s).cnt 0 f = cntOf (P ++ Q) f) ∧
    (∀ f ∈ P ++ Q, dget (rankFirst Q s).dominated [] f = (P ++ Q).filter (fun g => domW f g)) ∧
    (rankFirst Q s).current = nondom domW (P ++ Q)
  | [], P, s, _, _, _, hc2, _, hd2, hcur => by
    simp only [List.append_nil] at *
    exact ⟨hc2, hd2, hcur⟩
  | fi :: rest, P, s, hnd, hspo, hc1, hc2, hd1, hd2, hcur => by
    have hnd' : (P ++ [fi] ++ rest).Nodup := by simpa using hnd
    have heq : P ++ [fi] ++ rest = P ++ fi :: rest := by simp
    have hfiP : fi ∉ P := by
      intro h; rw [List.nodup_append] at hnd; exact hnd.2.2 fi h fi (by simp) rfl
    have hndQ : (fi :: rest).Nodup := (List.nodup_append.1 hnd).2.1
    have hfir : fi ∉ rest := (List.nodup_cons.1 hndQ).1
    have hasym : ∀ b ∈ rest, domW fi b = true → domW b fi = false := fun b hb h =>
      hspo.asymm (by simp) (by simp [hb]) h
    obtain ⟨r1, r2, r3⟩ := row_spec fi rest s hfir (List.nodup_cons.1 hndQ).2 hasym
    have hirr : domW fi fi = false := domW_irrefl fi
    -- counter of `fi` at the time of its test
    have hcfi : dget (rest.foldl (fun s fj => pairStep fi fj s) s).cnt 0 fi = cntOf (P ++ fi :: rest) fi := by
      rw [r2 fi, hc1 fi (by simp)]
      simp [cntOf_append, cntOf, List.filter_cons, hirr]
    rw [rankFirst]
    have key := rankFirst_inv rest (P ++ [fi])
      (if dget (rest.foldl (fun s fj => pairStep fi fj s) s).cnt 0 fi = 0 then
        { rest.foldl (fun s fj => pairStep fi fj s) s with
          current := (rest.foldl (fun s fj => pairStep fi fj s) s).current ++ [fi] }
       else rest.foldl (fun s fj => pairStep fi fj s) s) hnd' (heq ▸ hspo)
    have hcnt : ∀ st : StdState α, (if dget (rest.foldl (fun s fj => pairStep fi fj s) s).cnt 0 fi = 0 then
        { rest.foldl (fun s fj => pairStep fi fj s) s with current := st.current ++ [fi] }
       else rest.foldl (fun s fj => pairStep fi fj s) s).cnt = (rest.foldl (fun s fj => pairStep fi fj s) s).cnt := by
      intro st; split <;> rfl
    have hdom : ∀ st : StdState α, (if dget (rest.foldl (fun s fj => pairStep fi fj s) s).cnt 0 fi = 0 then
        { rest.foldl (fun s fj => pairStep fi fj s) s with current := st.current ++ [fi] }
       else rest.foldl (fun s fj => pairStep fi fj s) s).dominated = (rest.foldl (fun s fj => pairStep fi fj s) s).dominated := by
      intro st; split <;> rfl
    rw [heq] at key
    apply key
    · intro f hf
      have hne : f ≠ fi := fun e => hfir (e ▸ hf)
      rw [hcnt, r2 f, hc1 f (by simp [hf])]
      simp only [hne, ↓reduceIte, hf, true_and, cntOf_append]
      simp only [cntOf, List.filter_cons, List.filter_nil]
      split <;> simp
    · intro f hf
      rw [hcnt, r2 f]
      rcases List.mem_append.1 hf with hf | hf
      · have hne : f ≠ fi := fun e => hfiP (e ▸ hf)
        have hnr : f ∉ rest := by
          intro h; rw [List.nodup_append] at hnd; exact hnd.2.2 f hf f (by simp [h]) rfl
        rw [hc2 f hf]; simp [hne, hnr]
      · simp only [List.mem_singleton] at hf; subst hf
        rw [← r2 f, hcfi]
    · intro f hf
      have hne : f ≠ fi := fun e => hfir (e ▸ hf)
      rw [hdom, r3 f, hd1 f (by simp [hf])]
      simp only [hne, ↓reduceIte, hf, true_and, List.filter_append, List.filter_cons, List.filter_nil]
    · intro f hf
      rw [hdom, r3 f]
      rcases List.mem_append.1 hf with hf | hf
      · have hne : f ≠ fi := fun e => hfiP (e ▸ hf)
        have hnr : f ∉ rest := by
          intro h; rw [List.nodup_append] at hnd; exact hnd.2.2 f hf f (by simp [h]) rfl
        rw [hd2 f hf]; simp [hne, hnr]
      · simp only [List.mem_singleton] at hf; subst hf
        rw [hd1 f (by simp)]
        simp [List.filter_append, List.filter_cons, hirr]
    · have hz : (dget (rest.foldl (fun s fj => pairStep fi fj s) s).cnt 0 fi = 0) ↔
          ((P ++ fi :: rest).any (fun g => domW g fi)) = false := by
        rw [hcfi]; exact cntOf_eq_zero_iff _ _
      rw [List.filter_append]
      by_cases h0 : dget (rest.foldl (fun s fj => pairStep fi fj s) s).cnt 0 fi = 0
      · rw [if_pos h0]
        simp only [r1, hcur, List.filter_cons, List.filter_nil, hz.1 h0, Bool.not_false, ↓reduceIte]
      · rw [if_neg h0]
        have : ((P ++ fi :: rest).any (fun g => domW g fi)) = true := by
          cases h : (P ++ fi :: rest).any (fun g => domW g fi) with
          | true => rfl
          | false => exact absurd (hz.2 h) h0
        simp only [r1, hcur, List.filter_cons, List.filter_nil, this, Bool.not_true, Bool.false_eq_true,
          ↓reduceIte, List.append_nil]

/-- Phase 1 summary. -/
theorem rankFirst_spec (fits : List (List α)) (hnd : fits.Nodup) (hspo : SPO domW fits) :
    (∀ f ∈ fits, dget (rankFirst fits ⟨[], [], []⟩).cnt 0 f = cntOf fits f) ∧
    (∀ f ∈ fits, dget (rankFirst fits ⟨[], [], []⟩).dominated [] f = fits.filter (fun g => domW f g)) ∧
    (rankFirst fits ⟨[], [], []⟩).current = nondom domW fits := by
  have := rankFirst_inv fits [] ⟨[], [], []⟩ (by simpa using hnd) (by simpa using hspo)
    (by intro f _; simp [dget, cntOf]) (by simp) (by intro f _; simp [dget]) (by simp) (by simp)
  simpa using this

/-! ### Phase 2 -/

theorem foldl_append_flatMap {γ δ : Type} (g : γ → List δ) : ∀ (l : List γ) (init : List δ),
    l.foldl (fun acc f => acc ++ g f) init = init ++ l.flatMap g
  | [], init => by simp
  | a :: l, init => by simp [foldl_append_flatMap g l, List.append_assoc]

/-- the inner `for fit_d in …` loops of one `while` iteration, over the concatenated work list -/
theorem decFold_spec (grp : List (List α × List (Ind α))) : ∀ (todo : List (List α)) (st : LoopState α),
    (∀ f ∈ todo, (List.count f todo : Int) ≤ dget st.cnt 0 f) →
    ∃ new : List (List α),
      (todo.foldl (decStep grp) st).next = st.next ++ new ∧
      (todo.foldl (decStep grp) st).front = st.front ++ new.flatMap (dget grp []) ∧
      (todo.foldl (decStep grp) st).sorted = st.sorted + (new.flatMap (dget grp [])).length ∧
      (∀ f, dget (todo.foldl (decStep grp) st).cnt 0 f = dget st.cnt 0 f - List.count f todo) ∧
      new.Nodup ∧ (∀ f, f ∈ new ↔ f ∈ todo ∧ dget st.cnt 0 f = List.count f todo)
  | [], st, _ => ⟨[], by simp⟩
  | d :: t, st, hle => by
    have hcnt1 : ∀ f, dget (decStep grp st d).cnt 0 f = if d = f then dget st.cnt 0 d - 1 else dget st.cnt 0 f := by
      intro f; simp only [decStep]; split <;> simp [dget_dset]
    have hcount : ∀ f, (List.count f (d :: t) : Int) = List.count f t + (if d = f then 1 else 0) := by
      intro f; rw [List.count_cons]; by_cases h : d = f <;> simp [h]
    have hle1 : ∀ f ∈ t, (List.count f t : Int) ≤ dget (decStep grp st d).cnt 0 f := by
      intro f hf
      have := hle f (by simp [hf])
      rw [hcount f] at this; rw [hcnt1 f]
      by_cases h : d = f
      · simp only [h, ↓reduceIte] at this ⊢; omega
      · simp only [h, ↓reduceIte] at this ⊢; omega
    obtain ⟨new', n1, n2, n3, n4, n5, n6⟩ := decFold_spec grp t (decStep grp st d) hle1
    have hd := hle d (by simp)
    rw [hcount d] at hd; simp only [↓reduceIte] at hd
    by_cases hc : dget st.cnt 0 d - 1 = 0
    · -- the counter of `d` reaches zero: `d` joins the next front
      have hdt : List.count d t = 0 := by omega
      have hnotin : d ∉ new' := by
        rw [n6 d]; rintro ⟨hmem, _⟩
        exact absurd (List.count_pos_iff.2 hmem) (by omega)
      refine ⟨d :: new', ?_, ?_, ?_, ?_, List.nodup_cons.2 ⟨hnotin, n5⟩, ?_⟩
      · simp only [List.foldl_cons, n1]; simp [decStep, hc]
      · simp only [List.foldl_cons, n2]; simp [decStep, hc, List.append_assoc]
      · simp only [List.foldl_cons, n3]; simp [decStep, hc]; omega
      · intro f; simp only [List.foldl_cons]; rw [n4 f, hcnt1 f, hcount f]
        by_cases h : d = f
        · simp only [h, ↓reduceIte]; omega
        · simp only [h, ↓reduceIte]; omega
      · intro f
        by_cases hf : d = f
        · subst hf; simp; omega
        · have hf' : ¬ f = d := fun e => hf e.symm
          simp only [List.mem_cons, hf', false_or, n6 f, hcnt1 f, hf, ↓reduceIte, hcount f]
          simp
    · refine ⟨new', ?_, ?_, ?_, ?_, n5, ?_⟩
      · simp only [List.foldl_cons, n1]; simp [decStep, hc]
      · simp only [List.foldl_cons, n2]; simp [decStep, hc]
      · simp only [List.foldl_cons, n3]; simp [decStep, hc]
      · intro f; simp only [List.foldl_cons]; rw [n4 f, hcnt1 f, hcount f]
        by_cases h : d = f
        · simp only [h, ↓reduceIte]; omega
        · simp only [h, ↓reduceIte]; omega
      · intro f
        by_cases hf : d = f
        · subst hf
          simp only [n6 d, hcnt1 d, ↓reduceIte, List.mem_cons, true_or, true_and, hcount d]
          constructor
          · rintro ⟨_, h⟩; omega
          · intro h
            have : 0 < List.count d t := by omega
            exact ⟨List.count_pos_iff.1 this, by omega⟩
        · have hf' : ¬ f = d := fun e => hf e.symm
          simp only [List.mem_cons, hf', false_or, n6 f, hcnt1 f, hf, ↓reduceIte, hcount f]
          simp

theorem sweepFront_eq (grp : List (List α × List (Ind α))) (dominated : List (List α × List (List α)))
    (current : List (List α)) (cnt : List (List α × Int)) (sorted : Nat) :
    sweepFront grp dominated current cnt sorted =
      (current.flatMap (dget dominated [])).foldl (decStep grp) ⟨cnt, [], [], sorted⟩ := by
  rw [sweepFront, List.foldl_flatMap]

/-- how often `f` occurs in the work list built from the fronts `L` -/
theorem count_todo (fits : List (List α)) (hnd : fits.Nodup) (dominated : List (List α × List (List α)))
    (hdom : ∀ p ∈ fits, dget dominated [] p = fits.filter (fun g => domW p g)) :
    ∀ (L : List (List α)), (∀ p ∈ L, p ∈ fits) → ∀ f,
      (List.count f (L.flatMap (dget dominated [])) : Int) = if f ∈ fits then cntOf L f else 0
  | [], _, f => by simp [cntOf]
  | p :: L, hL, f => by
    have ih := count_todo fits hnd dominated hdom L (fun q hq => hL q (by simp [hq])) f
    rw [List.flatMap_cons, List.count_append, Nat.cast_add, ih, hdom p (hL p (by simp))]
    have : List.count f (fits.filter (fun g => domW p g)) = if f ∈ fits ∧ domW p f = true then 1 else 0 := by
      rw [List.Nodup.count (l := fits.filter (fun g => domW p g)) (List.Pairwise.filter _ hnd)]; simp [List.mem_filter]
    rw [this]
    by_cases hf : f ∈ fits
    · simp only [hf, true_and, ↓reduceIte, cntOf, List.filter_cons]
      split <;> simp <;> omega
    · simp [hf]

theorem cntOf_split (R : List (List α)) (f : List α) :
    cntOf R f = cntOf (nondom domW R) f + cntOf (dominatedPart domW R) f := by
  rw [← cntOf_append]; exact (cntOf_perm (nondom_perm domW R) f).symm

theorem cntOf_pos_iff (R : List (List α)) (f : List α) : 0 < cntOf R f ↔ ∃ g ∈ R, domW g f = true := by
  simp only [cntOf, Int.natCast_pos, List.length_pos_iff, ne_eq, List.filter_eq_nil_iff, not_forall]
  constructor
  · rintro ⟨g, hg, h⟩; exact ⟨g, hg, by simpa using h⟩
  · rintro ⟨g, hg, h⟩; exact ⟨g, hg, by simp [h]⟩

theorem cntOf_nonneg (R : List (List α)) (f : List α) : 0 ≤ cntOf R f := by simp [cntOf]

/-- One `while` iteration emits exactly the next front and re-establishes the counter invariant. -/
theorem sweep_spec (grp : List (List α × List (Ind α))) (fits : List (List α)) (hnd : fits.Nodup)
    (dominated : List (List α × List (List α)))
    (hdom : ∀ p ∈ fits, dget dominated [] p = fits.filter (fun g => domW p g))
    (R : List (List α)) (hRsub : ∀ f ∈ R, f ∈ fits)
    (hdown : ∀ p ∈ R, ∀ f ∈ fits, domW p f = true → f ∈ R)
    (current : List (List α)) (hcur : current.Perm (nondom domW R))
    (cnt : List (List α × Int)) (hcnt : ∀ f ∈ R, dget cnt 0 f = cntOf R f) (sorted : Nat) :
    ∃ new : List (List α),
      (sweepFront grp dominated current cnt sorted).next = new ∧
      (sweepFront grp dominated current cnt sorted).front = new.flatMap (dget grp []) ∧
      (sweepFront grp dominated current cnt sorted).sorted = sorted + (new.flatMap (dget grp [])).length ∧
      (∀ f ∈ dominatedPart domW R, dget (sweepFront grp dominated current cnt sorted).cnt 0 f =
        cntOf (dominatedPart domW R) f) ∧
      new.Nodup ∧ (∀ f, f ∈ new ↔ f ∈ nondom domW (dominatedPart domW R)) := by
  have hndsub : ∀ p ∈ nondom domW R, p ∈ fits := fun p hp => hRsub p (mem_nondom.1 hp).1
  have hcount : ∀ f, (List.count f (current.flatMap (dget dominated [])) : Int) =
      if f ∈ fits then cntOf (nondom domW R) f else 0 := by
    intro f
    rw [(hcur.flatMap_right (dget dominated [])).count_eq f]
    exact count_todo fits hnd dominated hdom _ hndsub f
  -- a member of the work list is a remaining fitness dominated by a member of the current front
  have hmem : ∀ f, f ∈ current.flatMap (dget dominated []) → f ∈ fits ∧ 0 < cntOf (nondom domW R) f ∧ f ∈ R := by
    intro f hf
    have hpos : 0 < (List.count f (current.flatMap (dget dominated [])) : Int) := by
      exact_mod_cast List.count_pos_iff.2 hf
    rw [hcount f] at hpos
    by_cases hfit : f ∈ fits
    · rw [if_pos hfit] at hpos
      obtain ⟨g, hg, hd⟩ := (cntOf_pos_iff _ _).1 hpos
      exact ⟨hfit, hpos, hdown g (mem_nondom.1 hg).1 f hfit hd⟩
    · rw [if_neg hfit] at hpos; omega
  have hle : ∀ f ∈ current.flatMap (dget dominated []),
      (List.count f (current.flatMap (dget dominated [])) : Int) ≤
        dget (⟨cnt, [], [], sorted⟩ : LoopState α).cnt 0 f := by
    intro f hf
    obtain ⟨hfit, _, hR⟩ := hmem f hf
    rw [hcount f, if_pos hfit]
    show _ ≤ dget cnt 0 f
    rw [hcnt f hR, cntOf_split R f]
    have := cntOf_nonneg (dominatedPart domW R) f; omega
  obtain ⟨new, n1, n2, n3, n4, n5, n6⟩ := decFold_spec grp _ ⟨cnt, [], [], sorted⟩ hle
  rw [sweepFront_eq]
  refine ⟨new, by simpa using n1, by simpa using n2, by simpa using n3, ?_, n5, ?_⟩
  · intro f hf
    have hR : f ∈ R := dominatedPart_subset f hf
    rw [n4 f, hcount f, if_pos (hRsub f hR)]
    show dget cnt 0 f - _ = _
    rw [hcnt f hR, cntOf_split R f]; omega
  · intro f
    rw [n6 f]
    show f ∈ _ ∧ dget cnt 0 f = _ ↔ _
    constructor
    · rintro ⟨hf, he⟩
      obtain ⟨hfit, hpos, hR⟩ := hmem f hf
      rw [hcount f, if_pos hfit, hcnt f hR, cntOf_split R f] at he
      have hz : cntOf (dominatedPart domW R) f = 0 := by omega
      obtain ⟨g, hg, hd⟩ := (cntOf_pos_iff _ _).1 hpos
      rw [mem_nondom]
      refine ⟨mem_dominatedPart.2 ⟨hR, g, (mem_nondom.1 hg).1, hd⟩, ?_⟩
      intro y hy
      have := (cntOf_eq_zero_iff _ _).1 hz
      rw [List.any_eq_false] at this
      simpa using this y hy
    · intro hf
      obtain ⟨hfd, hmax⟩ := mem_nondom.1 hf
      obtain ⟨hR, g, hg, hd⟩ := mem_dominatedPart.1 hfd
      have hgn : g ∈ nondom domW R := by
        by_contra hgn
        have := hmax g (mem_dominatedPart_of_not_nondom hg hgn)
        rw [this] at hd; exact Bool.noConfusion hd
      have hpos : 0 < cntOf (nondom domW R) f := (cntOf_pos_iff _ _).2 ⟨g, hgn, hd⟩
      have hz : cntOf (dominatedPart domW R) f = 0 := by
        rw [cntOf_eq_zero_iff, List.any_eq_false]
        intro y hy; simp [hmax y hy]
      have hfit := hRsub f hR
      refine ⟨?_, ?_⟩
      · have : 0 < List.count f (current.flatMap (dget dominated [])) := by
          have := hcount f; rw [if_pos hfit] at this; omega
        exact List.count_pos_iff.1 this
      · rw [hcount f, if_pos hfit, hcnt f hR, cntOf_split R f]; omega

/-! ### The `while` loop and the top level -/

section Top
variable (pop : List (Ind α))

theorem grp_get_eq : dget (mapFitInd pop) [] = fun f => pop.filter (fun x => decide (x.w = f)) :=
  funext (mapFitInd_get pop)

theorem fits_rep : ∀ f ∈ dkeys (mapFitInd pop), ∃ x ∈ pop, x.w = f :=
  fun f hf => (mem_mapFitInd_keys pop f).1 hf

theorem fits_spo (m : Nat) (hlen : ∀ x ∈ pop, x.w.length = m) : SPO domW (dkeys (mapFitInd pop)) := by
  apply spo_domW m
  intro f hf
  obtain ⟨x, hx, rfl⟩ := fits_rep pop f hf
  exact hlen x hx

theorem carriers_fits : carriers pop (dkeys (mapFitInd pop)) = pop := by
  rw [carriers, List.filter_eq_self]
  intro x hx
  simpa using (mem_mapFitInd_keys pop x.w).2 ⟨x, hx, rfl⟩

theorem carriers_nil : carriers pop [] = [] := by simp [carriers]

theorem carriers_length_split (R : List (List α)) (hrep : ∀ f ∈ R, ∃ x ∈ pop, x.w = f) :
    (carriers pop R).length =
      (carriers pop (nondom domW R)).length + (carriers pop (dominatedPart domW R)).length := by
  have := length_nondom_add domI (carriers pop R)
  rw [nondom_carriers pop R hrep, dominatedPart_carriers pop R hrep] at this
  omega

theorem carriers_ne_nil (R : List (List α)) (hrep : ∀ f ∈ R, ∃ x ∈ pop, x.w = f) (hne : R ≠ []) :
    carriers pop R ≠ [] := by
  obtain ⟨f, hf⟩ := List.exists_mem_of_ne_nil R hne
  obtain ⟨x, hx, rfl⟩ := hrep f hf
  exact List.ne_nil_of_mem (mem_carriers.2 ⟨hx, hf⟩)

/-- the front the model builds from a duplicate-free enumeration `new` of the fitness front `F` -/
theorem front_perm (new F : List (List α)) (hnew : new.Nodup) (hmem : ∀ f, f ∈ new ↔ f ∈ F) :
    (new.flatMap (dget (mapFitInd pop) [])).Perm (carriers pop F) := by
  rw [grp_get_eq]
  have h := flatMap_group_perm pop new hnew
  have e : pop.filter (fun x => decide (x.w ∈ new)) = carriers pop F := by
    rw [carriers]; apply List.filter_congr; intro x _; simp [hmem]
  rw [← e]; exact h

theorem whileLoop_spec (m : Nat) (hlen : ∀ x ∈ pop, x.w.length = m)
    (dominated : List (List α × List (List α)))
    (hdom : ∀ p ∈ dkeys (mapFitInd pop),
      dget dominated [] p = (dkeys (mapFitInd pop)).filter (fun g => domW p g)) (k : Nat) :
    ∀ (fuel : Nat) (R : List (List α)) (cnt : List (List α × Int)) (current : List (List α))
      (fronts : List (List (Ind α))) (sorted : Nat),
      R.Nodup → (∀ f ∈ R, f ∈ dkeys (mapFitInd pop)) →
      (∀ p ∈ R, ∀ f ∈ dkeys (mapFitInd pop), domW p f = true → f ∈ R) →
      current.Perm (nondom domW R) → (∀ f ∈ R, dget cnt 0 f = cntOf R f) →
      sorted + (carriers pop (dominatedPart domW R)).length = pop.length →
      (dominatedPart domW R).length ≤ fuel →
      ∃ extra, whileLoop (mapFitInd pop) dominated (min pop.length k) fuel cnt current fronts sorted
          = some (fronts ++ extra) ∧
        List.Forall₂ List.Perm extra
          (leading ((peel domW (dominatedPart domW R)).map (carriers pop)) (k - sorted)) := by
  have hfnd := mapFitInd_nodup pop
  have hfspo := fits_spo pop m hlen
  intro fuel
  induction fuel with
  | zero =>
    intro R cnt current fronts sorted hRnd hRsub hdown hcur hcnt hsorted hfuel
    have hnil : dominatedPart domW R = [] := List.eq_nil_of_length_eq_zero (by omega)
    rw [hnil, carriers_nil] at hsorted
    refine ⟨[], ?_, ?_⟩
    · rw [whileLoop]; simp only [List.length_nil] at hsorted
      rw [if_neg (by omega)]; simp
    · rw [hnil, peel_nil]; simp [leading]
  | succ fuel ih =>
    intro R cnt current fronts sorted hRnd hRsub hdown hcur hcnt hsorted hfuel
    have hRrep : ∀ f ∈ dominatedPart domW R, ∃ x ∈ pop, x.w = f :=
      fun f hf => fits_rep pop f (hRsub f (dominatedPart_subset f hf))
    by_cases hlt : sorted < min pop.length k
    · -- one more iteration
      have hne : dominatedPart domW R ≠ [] := by
        intro h; rw [h, carriers_nil] at hsorted; simp only [List.length_nil] at hsorted; omega
      have hspo' : SPO domW (dominatedPart domW R) :=
        hfspo.mono (fun f hf => hRsub f (dominatedPart_subset f hf))
      obtain ⟨new, n1, n2, n3, n4, n5, n6⟩ := sweep_spec (mapFitInd pop) _ hfnd dominated hdom R hRsub hdown
        current hcur cnt hcnt sorted
      have hnd' : (dominatedPart domW R).Nodup := List.Pairwise.filter _ hRnd
      have hperm : (new.flatMap (dget (mapFitInd pop) [])).Perm
          (carriers pop (nondom domW (dominatedPart domW R))) := front_perm pop new _ n5 n6
      have hsplit := carriers_length_split pop (dominatedPart domW R) hRrep
      have hlenf := hperm.length_eq
      obtain ⟨extra, e1, e2⟩ := ih (dominatedPart domW R)
        (sweepFront (mapFitInd pop) dominated current cnt sorted).cnt
        (sweepFront (mapFitInd pop) dominated current cnt sorted).next
        (fronts ++ [(sweepFront (mapFitInd pop) dominated current cnt sorted).front])
        (sweepFront (mapFitInd pop) dominated current cnt sorted).sorted
        hnd' (fun f hf => hRsub f (dominatedPart_subset f hf))
        (by
          intro p hp f hf hd
          have hpR := dominatedPart_subset p hp
          exact mem_dominatedPart.2 ⟨hdown p hpR f hf hd, p, hpR, hd⟩)
        (by
          rw [n1]
          exact (List.perm_ext_iff_of_nodup n5 (List.Pairwise.filter _ hnd')).2 n6)
        n4
        (by rw [n3]; omega)
        (by have := length_dominatedPart_lt hne hspo'; omega)
      refine ⟨(sweepFront (mapFitInd pop) dominated current cnt sorted).front :: extra, ?_, ?_⟩
      · rw [whileLoop, if_pos hlt]
        simp only []
        rw [e1]; simp
      · rw [peel_eq hne hspo', List.map_cons, leading, if_neg (by omega)]
        refine List.Forall₂.cons (by rw [n2]; exact hperm) ?_
        have : k - (sweepFront (mapFitInd pop) dominated current cnt sorted).sorted =
            k - sorted - (carriers pop (nondom domW (dominatedPart domW R))).length := by
          rw [n3]; omega
        rw [← this]; exact e2
    · refine ⟨[], ?_, ?_⟩
      · rw [whileLoop, if_neg hlt]; simp
      · by_cases hne : dominatedPart domW R = []
        · rw [hne, peel_nil]; simp [leading]
        · have := List.length_pos_iff.2 (carriers_ne_nil pop _ hRrep hne)
          have : k - sorted = 0 := by omega
          rw [this, leading_zero]; exact List.Forall₂.nil

theorem fits_ne_nil (hpop : pop ≠ []) : dkeys (mapFitInd pop) ≠ [] := by
  obtain ⟨x, hx⟩ := List.exists_mem_of_ne_nil pop hpop
  exact List.ne_nil_of_mem ((mem_mapFitInd_keys pop x.w).2 ⟨x, hx, rfl⟩)

theorem front0_perm (m : Nat) (hlen : ∀ x ∈ pop, x.w.length = m) :
    ((rankFirst (dkeys (mapFitInd pop)) ⟨[], [], []⟩).current.foldl
      (fun acc f => acc ++ dget (mapFitInd pop) [] f) []).Perm
      (carriers pop (nondom domW (dkeys (mapFitInd pop)))) := by
  have hfnd := mapFitInd_nodup pop
  obtain ⟨_, _, p3⟩ := rankFirst_spec (dkeys (mapFitInd pop)) hfnd (fits_spo pop m hlen)
  rw [foldl_append_flatMap, List.nil_append, p3]
  exact front_perm pop _ _ (List.Pairwise.filter _ hfnd) (fun _ => Iff.rfl)

/-- Model A returns the leading fronts of the Pareto ranking (each front up to the order of its
members), for every non-empty population of equal-length fitnesses and every `k > 0`. -/
theorem sortStd_full (hpop : pop ≠ []) (m : Nat) (hlen : ∀ x ∈ pop, x.w.length = m) (k : Nat) (hk : k ≠ 0) :
    ∃ fronts, sortStd pop k false = some fronts ∧
      List.Forall₂ List.Perm fronts (leading (peel domI pop) k) := by
  have hfnd := mapFitInd_nodup pop
  have hfspo := fits_spo pop m hlen
  obtain ⟨p1, p2, p3⟩ := rankFirst_spec (dkeys (mapFitInd pop)) hfnd hfspo
  have hrep := fits_rep pop
  have hpeel : peel domI pop = (peel domW (dkeys (mapFitInd pop))).map (carriers pop) := by
    have := peel_carriers m pop hlen _ hfspo hrep
    rwa [carriers_fits] at this
  have hfront0 := front0_perm pop m hlen
  have hsplit := carriers_length_split pop _ hrep
  rw [carriers_fits] at hsplit
  have hl0 := hfront0.length_eq
  obtain ⟨extra, e1, e2⟩ := whileLoop_spec pop m hlen _ p2 k (dkeys (mapFitInd pop)).length
    (dkeys (mapFitInd pop)) (rankFirst (dkeys (mapFitInd pop)) ⟨[], [], []⟩).cnt
    (rankFirst (dkeys (mapFitInd pop)) ⟨[], [], []⟩).current
    [(rankFirst (dkeys (mapFitInd pop)) ⟨[], [], []⟩).current.foldl
      (fun acc f => acc ++ dget (mapFitInd pop) [] f) []]
    ((rankFirst (dkeys (mapFitInd pop)) ⟨[], [], []⟩).current.foldl
      (fun acc f => acc ++ dget (mapFitInd pop) [] f) []).length
    hfnd (fun _ h => h) (fun _ _ _ h _ => h) (by rw [p3]) p1 (by omega)
    (List.length_filter_le _ _)
  refine ⟨_, Eq.trans (by simp only [sortStd, hk, ↓reduceIte, Bool.false_eq_true]) e1, ?_⟩
  · rw [hpeel, peel_eq (fits_ne_nil pop hpop) hfspo, List.map_cons, leading, if_neg hk]
    refine List.Forall₂.cons hfront0 ?_
    rw [← hl0]; exact e2

/-- `first_front_only=True`: exactly the non-dominated individuals. -/
theorem sortStd_first (m : Nat) (hlen : ∀ x ∈ pop, x.w.length = m) (k : Nat) (hk : k ≠ 0) :
    ∃ front, sortStd pop k true = some [front] ∧ front.Perm (nondom domI pop) := by
  have h := front0_perm pop m hlen
  have := nondom_carriers pop _ (fits_rep pop)
  rw [carriers_fits] at this
  rw [← this] at h
  exact ⟨_, by simp only [sortStd, hk, ↓reduceIte], h⟩

end Top

end C04L
