/-
Helper lemmas for C11: the pools filled by `PrimitiveSetTyped._add` only hold compatible nodes.
-/
import DeapModel.Core.GpTree

namespace GpTree

/-- every item stored under key `τ` returns a subclass of `τ` and satisfies `Q` -/
def DictInv (sub : Nat → Nat → Bool) (Q : Prim → Prop) (d : List (Nat × List Prim)) : Prop :=
  ∀ e ∈ d, ∀ x ∈ e.2, sub x.ret e.1 = true ∧ Q x

theorem appendNew_mem {acc items : List Prim} {x : Prim} (h : x ∈ appendNew acc items) : x ∈ acc ∨ x ∈ items := by
  unfold appendNew at h
  induction items generalizing acc with
  | nil => simp at h; exact Or.inl h
  | cons y ys ih =>
    simp only [List.foldl_cons] at h
    rcases ih h with h' | h'
    · split at h'
      · exact Or.inl h'
      · rcases List.mem_append.1 h' with h'' | h''
        · exact Or.inl h''
        · simp at h''; subst h''; exact Or.inr (by simp)
    · exact Or.inr (List.mem_cons_of_mem _ h')

theorem collect_mem {sub : Nat → Nat → Bool} {τ : Nat} {x : Prim} :
    ∀ (d : List (Nat × List Prim)) (acc : List Prim),
      x ∈ d.foldl (fun acc e => if sub e.1 τ then appendNew acc e.2 else acc) acc →
      x ∈ acc ∨ ∃ e ∈ d, sub e.1 τ = true ∧ x ∈ e.2
  | [], acc, h => Or.inl (by simpa using h)
  | e :: d, acc, h => by
    simp only [List.foldl_cons] at h
    rcases collect_mem d _ h with h' | ⟨e', he', h1, h2⟩
    · split at h'
      · rename_i hs
        rcases appendNew_mem h' with h'' | h''
        · exact Or.inl h''
        · exact Or.inr ⟨e, by simp, hs, h''⟩
      · exact Or.inl h'
    · exact Or.inr ⟨e', List.mem_cons_of_mem _ he', h1, h2⟩

theorem addType_inv {sub : Nat → Nat → Bool} (trans : ∀ a b c, sub a b = true → sub b c = true → sub a c = true)
    {Q : Prim → Prop} {d : List (Nat × List Prim)} (τ : Nat) (h : DictInv sub Q d) : DictInv sub Q (addType sub d τ) := by
  unfold addType
  split
  · exact h
  · intro e he x hx
    rcases List.mem_append.1 he with he | he
    · exact h e he x hx
    · simp at he; subst he
      simp only at hx
      rcases collect_mem d [] hx with h' | ⟨e', he', h1, h2⟩
      · simp at h'
      · obtain ⟨h3, h4⟩ := h e' he' x h2
        exact ⟨trans _ _ _ h3 h1, h4⟩

theorem foldl_addType_inv {sub : Nat → Nat → Bool} (trans : ∀ a b c, sub a b = true → sub b c = true → sub a c = true)
    {Q : Prim → Prop} : ∀ (ts : List Nat) {d : List (Nat × List Prim)}, DictInv sub Q d →
    DictInv sub Q (ts.foldl (addType sub) d)
  | [], _, h => by simpa using h
  | t :: ts, d, h => by
    simp only [List.foldl_cons]; exact foldl_addType_inv trans ts (addType_inv trans t h)

theorem appendCompat_inv {sub : Nat → Nat → Bool} {Q : Prim → Prop} {d : List (Nat × List Prim)} {p : Prim}
    (h : DictInv sub Q d) (hp : Q p) : DictInv sub Q (appendCompat sub d p) := by
  intro e he x hx
  unfold appendCompat at he
  obtain ⟨e0, he0, rfl⟩ := List.mem_map.1 he
  by_cases hs : sub p.ret e0.1 = true
  · simp only [hs, if_true] at hx ⊢
    simp at hx
    rcases hx with hx | rfl
    · exact h e0 he0 x hx
    · exact ⟨hs, hp⟩
  · simp only [hs] at hx ⊢
    exact h e0 he0 x hx

theorem addPrim_inv {sub : Nat → Nat → Bool} (trans : ∀ a b c, sub a b = true → sub b c = true → sub a c = true)
    {ds : Dicts} (p : Prim)
    (h1 : DictInv sub (fun x => x.kind = .prim) ds.prims) (h2 : DictInv sub (fun x => x.kind ≠ .prim) ds.terms) :
    DictInv sub (fun x => x.kind = .prim) (addPrim sub ds p).prims ∧
    DictInv sub (fun x => x.kind ≠ .prim) (addPrim sub ds p).terms := by
  unfold addPrim
  simp only
  split
  · rename_i hk
    exact ⟨appendCompat_inv (foldl_addType_inv trans _ (addType_inv trans _ h1)) hk,
      foldl_addType_inv trans _ (addType_inv trans _ h2)⟩
  · rename_i hk
    exact ⟨addType_inv trans _ h1, appendCompat_inv (addType_inv trans _ h2) hk⟩

theorem foldl_addPrim_inv {sub : Nat → Nat → Bool} (trans : ∀ a b c, sub a b = true → sub b c = true → sub a c = true) :
    ∀ (nodes : List Prim) (ds : Dicts),
    DictInv sub (fun x => x.kind = .prim) ds.prims → DictInv sub (fun x => x.kind ≠ .prim) ds.terms →
    DictInv sub (fun x => x.kind = .prim) (nodes.foldl (addPrim sub) ds).prims ∧
    DictInv sub (fun x => x.kind ≠ .prim) (nodes.foldl (addPrim sub) ds).terms
  | [], _, h1, h2 => ⟨h1, h2⟩
  | p :: nodes, ds, h1, h2 => by
    simp only [List.foldl_cons]
    obtain ⟨h3, h4⟩ := addPrim_inv trans p h1 h2
    exact foldl_addPrim_inv trans nodes _ h3 h4

theorem dictGet_mem {d : List (Nat × List Prim)} {τ : Nat} {x : Prim} (h : x ∈ dictGet d τ) :
    ∃ e ∈ d, e.1 = τ ∧ x ∈ e.2 := by
  unfold dictGet at h
  split at h
  · rename_i e he
    have := List.find?_some he
    exact ⟨e, List.mem_of_find?_eq_some he, by simpa using this, h⟩
  · simp at h

/-- the same invariant for arbitrary predicates on the registered primitives / terminals -/
theorem addPrim_invQ {sub : Nat → Nat → Bool} (trans : ∀ a b c, sub a b = true → sub b c = true → sub a c = true)
    {Q1 Q2 : Prim → Prop} {ds : Dicts} (p : Prim) (hp1 : p.kind = .prim → Q1 p) (hp2 : p.kind ≠ .prim → Q2 p)
    (h1 : DictInv sub Q1 ds.prims) (h2 : DictInv sub Q2 ds.terms) :
    DictInv sub Q1 (addPrim sub ds p).prims ∧ DictInv sub Q2 (addPrim sub ds p).terms := by
  unfold addPrim
  simp only
  split
  · rename_i hk
    exact ⟨appendCompat_inv (foldl_addType_inv trans _ (addType_inv trans _ h1)) (hp1 hk),
      foldl_addType_inv trans _ (addType_inv trans _ h2)⟩
  · rename_i hk
    exact ⟨addType_inv trans _ h1, appendCompat_inv (addType_inv trans _ h2) (hp2 hk)⟩

theorem foldl_addPrim_invQ {sub : Nat → Nat → Bool} (trans : ∀ a b c, sub a b = true → sub b c = true → sub a c = true)
    {Q1 Q2 : Prim → Prop} :
    ∀ (nodes : List Prim) (ds : Dicts), (∀ p ∈ nodes, (p.kind = .prim → Q1 p) ∧ (p.kind ≠ .prim → Q2 p)) →
    DictInv sub Q1 ds.prims → DictInv sub Q2 ds.terms →
    DictInv sub Q1 (nodes.foldl (addPrim sub) ds).prims ∧ DictInv sub Q2 (nodes.foldl (addPrim sub) ds).terms
  | [], _, _, h1, h2 => ⟨h1, h2⟩
  | p :: nodes, ds, hn, h1, h2 => by
    simp only [List.foldl_cons]
    obtain ⟨h3, h4⟩ := addPrim_invQ trans p (hn p (by simp)).1 (hn p (by simp)).2 h1 h2
    exact foldl_addPrim_invQ trans nodes _ (fun q hq => hn q (by simp [hq])) h3 h4

end GpTree
