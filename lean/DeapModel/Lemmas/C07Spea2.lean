/-
C07 — `selSPEA2`: the non-dominated set, the fill branch, deletion in descending order, and the
four clauses of the property for the whole function.
-/
import DeapModel.Lemmas.C07Trunc
import Mathlib.Data.List.Basic
import Mathlib.Data.List.Nodup
import Mathlib.Order.Defs.LinearOrder

set_option linter.unusedSectionVars false
set_option linter.unusedVariables false

namespace C07L
open Spea2

/-! ### strength / raw fitness -/

section Strength
variable (dom : Nat → Nat → Bool) (N : Nat)

/-- with an asymmetric dominance the double loop registers exactly the dominance relation -/
theorem reg_eq (hasym : ∀ i j, dom i j = true → dom j i = false) (i j : Nat) :
    reg dom i j = dom i j := by
  unfold reg
  by_cases h1 : i < j
  · simp [h1]
  · by_cases h2 : j < i
    · simp only [h1, h2, if_true, if_false]
      cases h : dom i j
      · simp
      · simp [hasym i j h]
    · have : i = j := by omega
      subst this
      simp only [Nat.lt_irrefl, if_false]
      cases h : dom i i
      · rfl
      · have := hasym i i h; rw [h] at this; exact this.symm

theorem nat_sum_eq_zero_iff (l : List Nat) : l.sum = 0 ↔ ∀ x ∈ l, x = 0 := by
  induction l with
  | nil => simp
  | cons a t ih => simp [ih]

theorem rawFit_eq_zero_iff (i : Nat) (hi : i < N) :
    rawFit dom N i = 0 ↔ ∀ j, j < N → reg dom j i = false := by
  unfold rawFit dominating
  rw [nat_sum_eq_zero_iff]
  constructor
  · intro h j hj
    by_contra hc
    have hc : reg dom j i = true := by simpa using hc
    have h0 := h (strength dom N j)
      (List.mem_map.2 ⟨j, List.mem_filter.2 ⟨List.mem_range.2 hj, hc⟩, rfl⟩)
    unfold strength at h0
    have : i ∈ (List.range N).filter (fun j' => reg dom j j') :=
      List.mem_filter.2 ⟨List.mem_range.2 hi, hc⟩
    rw [List.length_eq_zero_iff] at h0
    rw [h0] at this; simp at this
  · intro h x hx
    obtain ⟨j, hj, _⟩ := List.mem_map.1 hx
    obtain ⟨hj1, hj2⟩ := List.mem_filter.1 hj
    rw [h j (List.mem_range.1 hj1)] at hj2
    exact absurd hj2 (by simp)

/-- `i` is non-dominated in the population `0..N-1`. -/
def NonDom (i : Nat) : Prop := ∀ j, j < N → dom j i = false

instance (i : Nat) : Decidable (NonDom dom N i) := by unfold NonDom; exact Nat.decidableBallLT _ _

theorem mem_chosen0 (hasym : ∀ i j, dom i j = true → dom j i = false) (i : Nat) :
    i ∈ chosen0 dom N ↔ i < N ∧ NonDom dom N i := by
  unfold chosen0
  rw [List.mem_filter, List.mem_range]
  constructor
  · rintro ⟨hi, h⟩
    refine ⟨hi, ?_⟩
    have h : rawFit dom N i = 0 := by simp at h; exact h
    intro j hj
    rw [← reg_eq dom hasym]; exact (rawFit_eq_zero_iff dom N i hi).1 h j hj
  · rintro ⟨hi, h⟩
    refine ⟨hi, ?_⟩
    have : rawFit dom N i = 0 := (rawFit_eq_zero_iff dom N i hi).2
      (fun j hj => by rw [reg_eq dom hasym]; exact h j hj)
    simp [this]

theorem chosen0_nodup : (chosen0 dom N).Nodup := List.Nodup.filter _ List.nodup_range

theorem chosen0_lt : ∀ i ∈ chosen0 dom N, i < N := fun i hi =>
  List.mem_range.1 (List.mem_filter.1 hi).1

theorem chosen0_length_le : (chosen0 dom N).length ≤ N := by
  have := List.length_filter_le (fun i => decide (rawFit dom N i < 1)) (List.range N)
  simpa [chosen0] using this

end Strength

/-! ### archive too small -/

section Fill
variable {α : Type} [DecidableEq α] [LT α] [DecidableLT α]

theorem fill_spec (N : Nat) (fits : Nat → α) (k : Nat) (chosen : List Nat)
    (hnd : chosen.Nodup) (hlt : ∀ i ∈ chosen, i < N) (hk : k ≤ N) (hck : chosen.length ≤ k) :
    (fill N fits k chosen).length = k ∧ (fill N fits k chosen).Nodup ∧
    (∀ i ∈ fill N fits k chosen, i < N) ∧ (∀ i ∈ chosen, i ∈ fill N fits k chosen) := by
  unfold fill
  simp only []
  set rest := (List.range N).filter (fun i => !chosen.contains i) with hrest
  set srt := (rest.map (fun i => (fits i, i))).mergeSort (fun x y => !keyLt y x) with hsrt
  have hperm : (srt.map (·.2)).Perm rest := by
    have := (List.mergeSort_perm (rest.map (fun i => (fits i, i))) (fun x y => !keyLt y x)).map (·.2)
    simpa [List.map_map, Function.comp_def] using this
  have hrest_nd : rest.Nodup := List.Nodup.filter _ List.nodup_range
  have hsnd : (srt.map (·.2)).Nodup := hperm.nodup_iff.2 hrest_nd
  -- length of the rest
  have hlen_rest : rest.length = N - chosen.length := by
    have h1 := List.length_eq_length_filter_add (l := List.range N) (fun i => chosen.contains i)
    have h2 : ((List.range N).filter (fun i => chosen.contains i)).Perm chosen := by
      apply (List.perm_ext_iff_of_nodup (List.Nodup.filter _ List.nodup_range) hnd).2
      intro a
      simp only [List.mem_filter, List.mem_range, List.contains_iff_mem]
      exact ⟨fun h => h.2, fun h => ⟨hlt a h, h⟩⟩
    have h3 := h2.length_eq
    simp only [List.length_range] at h1
    rw [hrest]; omega
  have hsl : srt.length = N - chosen.length := by
    rw [← hlen_rest, hsrt, (List.mergeSort_perm _ _).length_eq]; simp
  have hsub : ((srt.take (k - chosen.length)).map (·.2)).Sublist (srt.map (·.2)) :=
    (List.take_sublist _ _).map _
  refine ⟨?_, ?_, ?_, ?_⟩
  · simp only [List.length_append, List.length_map, List.length_take, hsl]; omega
  · refine List.nodup_append.2 ⟨hnd, hsub.nodup hsnd, ?_⟩
    intro a ha b hb hab
    subst hab
    have : a ∈ rest := hperm.subset (hsub.subset hb)
    rw [hrest, List.mem_filter] at this
    simp [ha] at this
  · intro i hi
    rcases List.mem_append.1 hi with h | h
    · exact hlt i h
    · have : i ∈ rest := hperm.subset (hsub.subset h)
      rw [hrest, List.mem_filter, List.mem_range] at this
      exact this.1
  · intro i hi; exact List.mem_append_left _ hi

end Fill

/-! ### deletion in descending order -/

theorem foldl_eraseIdx_sublist (desc : List Nat) : ∀ (l : List Nat),
    (desc.foldl (fun l i => l.eraseIdx i) l).Sublist l := by
  induction desc with
  | nil => intro l; exact List.Sublist.refl _
  | cons a t ih => intro l; exact (ih (l.eraseIdx a)).trans (List.eraseIdx_sublist l a)

theorem foldl_eraseIdx_length (desc : List Nat) : ∀ (l : List Nat),
    desc.Pairwise (· > ·) → (∀ i ∈ desc, i < l.length) →
    (desc.foldl (fun l i => l.eraseIdx i) l).length = l.length - desc.length := by
  induction desc with
  | nil => intro l _ _; simp
  | cons a t ih =>
    intro l hp hlt
    have ha : a < l.length := hlt a (by simp)
    rw [List.pairwise_cons] at hp
    have hl : (l.eraseIdx a).length = l.length - 1 := by rw [List.length_eraseIdx, if_pos ha]
    rw [List.foldl_cons, ih (l.eraseIdx a) hp.2 (by
      intro i hi; have := hp.1 i hi; rw [hl]; omega), hl]
    simp; omega

theorem delDesc_spec (chosen rem : List Nat) (hnd : rem.Nodup) (hlt : ∀ r ∈ rem, r < chosen.length) :
    (delDesc chosen rem).length = chosen.length - rem.length ∧ (delDesc chosen rem).Sublist chosen := by
  unfold delDesc
  set srt := rem.mergeSort (fun a b => decide (a ≤ b)) with hsrt
  have hperm : srt.Perm rem := List.mergeSort_perm _ _
  have hpw : srt.Pairwise (fun a b => a ≤ b) := by
    have := List.pairwise_mergeSort (le := fun a b : Nat => decide (a ≤ b))
      (by intro a b c; simp; omega) (by intro a b; simp; omega) rem
    simpa using this
  have hsnd : srt.Nodup := hperm.nodup_iff.2 hnd
  have hlt' : srt.Pairwise (· < ·) := by
    have := hpw.and hsnd
    exact this.imp (fun ⟨h1, h2⟩ => Nat.lt_of_le_of_ne h1 h2)
  have hrev : srt.reverse.Pairwise (· > ·) := by
    rw [List.pairwise_reverse]; exact hlt'
  refine ⟨?_, foldl_eraseIdx_sublist _ _⟩
  rw [foldl_eraseIdx_length srt.reverse chosen hrev (by
    intro i hi; exact hlt i (hperm.subset (List.mem_reverse.1 hi)))]
  rw [List.length_reverse, hperm.length_eq]

/-! ### the whole function -/

section Sel
variable {α : Type} [DecidableEq α] [LT α] [DecidableLT α]

theorem truncate_spec (D : Nat → Nat → α) (k : Nat) (chosen : List Nat) (hk : 1 ≤ k)
    (hkc : k ≤ chosen.length) :
    (truncate D k chosen).length = k ∧ (truncate D k chosen).Sublist chosen := by
  unfold truncate
  obtain ⟨h1, h2, h3⟩ :=
    toRemove_spec (fun a b => D (chosen.getD a 0) (chosen.getD b 0)) chosen.length k hk hkc
  obtain ⟨a, b⟩ := delDesc_spec chosen _ h1 h2
  refine ⟨?_, b⟩
  rw [a, h3]; omega

variable (dom : Nat → Nat → Bool) (N k : Nat) (fits : Nat → α) (D : Nat → Nat → α)

theorem selSPEA2_length (hk : 1 ≤ k) (hkN : k ≤ N) : (selSPEA2 dom N k fits D).length = k := by
  unfold selSPEA2
  simp only []
  split
  · next h =>
    exact (fill_spec N fits k _ (chosen0_nodup dom N) (chosen0_lt dom N) hkN (by omega)).1
  · split
    · next h => exact (truncate_spec D k _ hk (by omega)).1
    · omega

theorem selSPEA2_nodup (hk : 1 ≤ k) (hkN : k ≤ N) :
    (selSPEA2 dom N k fits D).Nodup ∧ ∀ i ∈ selSPEA2 dom N k fits D, i < N := by
  unfold selSPEA2
  simp only []
  split
  · next h =>
    have := fill_spec N fits k _ (chosen0_nodup dom N) (chosen0_lt dom N) hkN (by omega)
    exact ⟨this.2.1, this.2.2.1⟩
  · split
    · next h =>
      have := (truncate_spec D k (chosen0 dom N) hk (by omega)).2
      exact ⟨this.nodup (chosen0_nodup dom N), fun i hi => chosen0_lt dom N i (this.subset hi)⟩
    · exact ⟨chosen0_nodup dom N, chosen0_lt dom N⟩

/-- when at most `k` individuals are non-dominated, every one of them is selected -/
theorem selSPEA2_all_nd (hasym : ∀ i j, dom i j = true → dom j i = false)
    (hk : 1 ≤ k) (hkN : k ≤ N) (hfew : (chosen0 dom N).length ≤ k) :
    ∀ i, i < N → NonDom dom N i → i ∈ selSPEA2 dom N k fits D := by
  intro i hi hnd
  have hc : i ∈ chosen0 dom N := (mem_chosen0 dom N hasym i).2 ⟨hi, hnd⟩
  unfold selSPEA2
  simp only []
  split
  · next h =>
    exact (fill_spec N fits k _ (chosen0_nodup dom N) (chosen0_lt dom N) hkN (by omega)).2.2.2 i hc
  · split
    · omega
    · exact hc

/-- when at least `k` individuals are non-dominated, only non-dominated ones are selected -/
theorem selSPEA2_only_nd (hasym : ∀ i j, dom i j = true → dom j i = false)
    (hk : 1 ≤ k) (hmany : k ≤ (chosen0 dom N).length) :
    ∀ i ∈ selSPEA2 dom N k fits D, NonDom dom N i := by
  intro i hi
  unfold selSPEA2 at hi
  simp only [] at hi
  split at hi
  · omega
  · split at hi
    · next h =>
      have := (truncate_spec D k (chosen0 dom N) hk (by omega)).2
      exact ((mem_chosen0 dom N hasym i).1 (this.subset hi)).2
    · exact ((mem_chosen0 dom N hasym i).1 hi).2

/-- the number of non-dominated individuals is the length of `chosen0` -/
theorem chosen0_eq_filter (hasym : ∀ i j, dom i j = true → dom j i = false) :
    chosen0 dom N = (List.range N).filter (fun i => decide (NonDom dom N i)) := by
  unfold chosen0
  apply List.filter_congr
  intro i hi
  have hi' := List.mem_range.1 hi
  have := mem_chosen0 dom N hasym i
  unfold chosen0 at this
  rw [List.mem_filter] at this
  by_cases h : NonDom dom N i
  · simp only [h, decide_true]
    exact (this.2 ⟨hi', h⟩).2
  · simp only [h, decide_false]
    by_contra hc
    have hc : decide (rawFit dom N i < 1) = true := by simpa using hc
    exact h (this.1 ⟨hi, hc⟩).2

end Sel

/-! ### dominance of weighted values is asymmetric -/

section DomW
variable {α : Type} [LinearOrder α]

theorem dominatesLoop_iff (xs ys : List α) (ne : Bool) :
    Fitness.dominatesLoop xs ys ne = true ↔
      (∀ p ∈ xs.zip ys, p.2 ≤ p.1) ∧ (ne = true ∨ ∃ p ∈ xs.zip ys, p.2 < p.1) := by
  induction xs generalizing ys ne with
  | nil => simp [Fitness.dominatesLoop]
  | cons x xs ih =>
    cases ys with
    | nil => simp [Fitness.dominatesLoop]
    | cons y ys =>
      simp only [Fitness.dominatesLoop, List.zip_cons_cons, List.mem_cons, forall_eq_or_imp,
        exists_eq_or_imp]
      split
      · next h => rw [ih]; simp [h, le_of_lt h]
      · next h =>
        split
        · next h' => simp [not_le.2 h']
        · next h' =>
          have : y = x := le_antisymm (not_lt.1 h') (not_lt.1 h)
          subst this; rw [ih]; simp [lt_irrefl]

theorem mem_zip_swap' {β : Type} (a b : β) : ∀ (xs ys : List β), (a, b) ∈ xs.zip ys → (b, a) ∈ ys.zip xs := by
  intro xs
  induction xs with
  | nil => intro ys h; simp at h
  | cons x xs ih =>
    intro ys h
    cases ys with
    | nil => simp at h
    | cons y ys =>
      simp only [List.zip_cons_cons, List.mem_cons, Prod.mk.injEq] at h ⊢
      rcases h with ⟨h1, h2⟩ | h
      · left; exact ⟨h2, h1⟩
      · right; exact ih ys h

theorem domW_asymm (pop : List (List α)) (i j : Nat) (h : domW pop i j = true) :
    domW pop j i = false := by
  unfold domW at *
  rw [dominatesLoop_iff] at h
  obtain ⟨h1, h2⟩ := h
  simp only [Bool.false_eq_true, false_or] at h2
  obtain ⟨p, hp, hlt⟩ := h2
  by_contra hc
  have hc : Fitness.dominatesLoop (pop.getD j []) (pop.getD i []) false = true := by simpa using hc
  rw [dominatesLoop_iff] at hc
  have hsw : (p.2, p.1) ∈ (pop.getD j []).zip (pop.getD i []) := mem_zip_swap' p.1 p.2 _ _ hp
  have := hc.1 (p.2, p.1) hsw
  simp at this
  exact absurd hlt (not_lt.2 this)

end DomW

end C07L
