/-
C04 lemmas, part 1: the abstract theory of ranking by peeling over a decidable relation that is a
strict partial order on the members of the list: existence of a maximal element, `peel` unfolds,
the fronts partition the list, the two local ranking conditions hold for `depth` and determine it.
-/
import DeapModel.Core.NDSort
import Mathlib.Data.List.Basic
import Mathlib.Data.List.Perm.Basic

set_option linter.unusedSectionVars false
set_option linter.unusedSimpArgs false
set_option linter.unusedVariables false

namespace C04L
open NDSort

variable {β : Type}

/-- `dom` is a strict partial order on the members of `S`. -/
structure SPO (dom : β → β → Bool) (S : List β) : Prop where
  irrefl : ∀ x ∈ S, dom x x = false
  trans : ∀ x ∈ S, ∀ y ∈ S, ∀ z ∈ S, dom x y = true → dom y z = true → dom x z = true

theorem SPO.mono {dom : β → β → Bool} {S S' : List β} (h : SPO dom S) (hs : ∀ x ∈ S', x ∈ S) :
    SPO dom S' :=
  ⟨fun x hx => h.irrefl x (hs x hx),
   fun x hx y hy z hz => h.trans x (hs x hx) y (hs y hy) z (hs z hz)⟩

theorem SPO.asymm {dom : β → β → Bool} {S : List β} (h : SPO dom S) {x y : β} (hx : x ∈ S) (hy : y ∈ S)
    (hxy : dom x y = true) : dom y x = false := by
  by_contra hc
  have hc' : dom y x = true := by simpa using hc
  have := h.trans x hx y hy x hx hxy hc'
  rw [h.irrefl x hx] at this; exact Bool.noConfusion this

/-- A non-empty finite strict partial order has a maximal (non-dominated) element. -/
theorem exists_maximal (dom : β → β → Bool) : ∀ (S : List β), S ≠ [] → SPO dom S →
    ∃ x ∈ S, ∀ y ∈ S, dom y x = false
  | [], h, _ => absurd rfl h
  | [x], _, hS => ⟨x, by simp, by intro y hy; simp at hy; subst hy; exact hS.irrefl y (by simp)⟩
  | x :: x' :: S', _, hS => by
    have hS' : SPO dom (x' :: S') := hS.mono (by intro y hy; exact List.mem_cons_of_mem _ hy)
    obtain ⟨m, hm, hmax⟩ := exists_maximal dom (x' :: S') (by simp) hS'
    have hmS : m ∈ x :: x' :: S' := List.mem_cons_of_mem _ hm
    cases hxm : dom x m with
    | false =>
      refine ⟨m, hmS, ?_⟩
      intro y hy
      rcases List.mem_cons.1 hy with rfl | hy
      · exact hxm
      · exact hmax y hy
    | true =>
      refine ⟨x, by simp, ?_⟩
      intro y hy
      rcases List.mem_cons.1 hy with rfl | hy'
      · exact hS.irrefl y (by simp)
      · by_contra hc
        have hc' : dom y x = true := by simpa using hc
        have := hS.trans y hy x (by simp) m hmS hc' hxm
        rw [hmax y hy'] at this; exact Bool.noConfusion this

theorem mem_nondom {dom : β → β → Bool} {S : List β} {x : β} :
    x ∈ nondom dom S ↔ x ∈ S ∧ ∀ y ∈ S, dom y x = false := by
  simp [nondom]

theorem mem_dominatedPart {dom : β → β → Bool} {S : List β} {x : β} :
    x ∈ dominatedPart dom S ↔ x ∈ S ∧ ∃ y ∈ S, dom y x = true := by
  simp [dominatedPart]

theorem mem_dominatedPart_of_not_nondom {dom : β → β → Bool} {S : List β} {x : β} (hx : x ∈ S)
    (h : x ∉ nondom dom S) : x ∈ dominatedPart dom S := by
  rw [mem_dominatedPart]; refine ⟨hx, ?_⟩
  by_contra hc
  apply h; rw [mem_nondom]; refine ⟨hx, ?_⟩
  intro y hy
  cases hd : dom y x with
  | false => rfl
  | true => exact absurd ⟨y, hy, hd⟩ hc

theorem not_nondom_of_mem_dominatedPart {dom : β → β → Bool} {S : List β} {x : β}
    (h : x ∈ dominatedPart dom S) : x ∉ nondom dom S := by
  rw [mem_dominatedPart] at h; rw [mem_nondom]
  rintro ⟨_, hn⟩
  obtain ⟨_, y, hy, hd⟩ := h
  rw [hn y hy] at hd; exact Bool.noConfusion hd

theorem dominatedPart_subset {dom : β → β → Bool} {S : List β} : ∀ x ∈ dominatedPart dom S, x ∈ S :=
  fun _ hx => (mem_dominatedPart.1 hx).1

theorem nondom_perm (dom : β → β → Bool) (S : List β) :
    (nondom dom S ++ dominatedPart dom S).Perm S := by
  have := List.filter_append_perm (fun x => S.any (fun y => dom y x)) S
  exact (List.perm_append_comm).trans this

theorem length_nondom_add (dom : β → β → Bool) (S : List β) :
    (nondom dom S).length + (dominatedPart dom S).length = S.length := by
  have := (nondom_perm dom S).length_eq
  simpa using this

theorem nondom_ne_nil {dom : β → β → Bool} {S : List β} (hne : S ≠ []) (hS : SPO dom S) :
    nondom dom S ≠ [] := by
  obtain ⟨x, hx, hmax⟩ := exists_maximal dom S hne hS
  intro h
  have : x ∈ nondom dom S := mem_nondom.2 ⟨hx, hmax⟩
  rw [h] at this; exact absurd this (List.not_mem_nil)

/-- Removing the non-dominated elements of a non-empty strict partial order makes it shorter:
this is why `S.length` rounds of peeling suffice. -/
theorem length_dominatedPart_lt {dom : β → β → Bool} {S : List β} (hne : S ≠ []) (hS : SPO dom S) :
    (dominatedPart dom S).length < S.length := by
  have h1 := length_nondom_add dom S
  have h2 : 0 < (nondom dom S).length := List.length_pos_iff.2 (nondom_ne_nil hne hS)
  omega

theorem SPO.dominatedPart {dom : β → β → Bool} {S : List β} (hS : SPO dom S) :
    SPO dom (dominatedPart dom S) := hS.mono dominatedPart_subset

theorem peelAux_succ (dom : β → β → Bool) : ∀ (n : Nat) (S : List β), SPO dom S → S.length ≤ n →
    peelAux dom (n + 1) S = peelAux dom n S
  | 0, S, _, h => by
    have : S = [] := List.eq_nil_of_length_eq_zero (by omega)
    subst this; simp [peelAux]
  | n + 1, S, hS, h => by
    by_cases hne : S = []
    · subst hne; simp [peelAux]
    · have hlt := length_dominatedPart_lt hne hS
      have hemp : S.isEmpty = false := by simpa using hne
      rw [peelAux, peelAux.eq_def dom (n + 1) S]
      simp only [hemp, Bool.false_eq_true, ↓reduceIte]
      rw [peelAux_succ dom n _ hS.dominatedPart (by omega)]

theorem peelAux_add (dom : β → β → Bool) (S : List β) (hS : SPO dom S) :
    ∀ d, peelAux dom (S.length + d) S = peelAux dom S.length S
  | 0 => rfl
  | d + 1 => by
    rw [← Nat.add_assoc, peelAux_succ dom _ S hS (by omega)]; exact peelAux_add dom S hS d

theorem peel_nil (dom : β → β → Bool) : peel dom ([] : List β) = [] := by simp [peel, peelAux]

/-- `peel` unfolds: the first front is the non-dominated set, the rest is the peeling of the
dominated part.  (The definition runs `S.length` rounds; this shows no round is wasted.) -/
theorem peel_eq {dom : β → β → Bool} {S : List β} (hne : S ≠ []) (hS : SPO dom S) :
    peel dom S = nondom dom S :: peel dom (dominatedPart dom S) := by
  have hlt := length_dominatedPart_lt hne hS
  have hemp : S.isEmpty = false := by simpa using hne
  obtain ⟨l, hl⟩ : ∃ l, S.length = l + 1 := ⟨S.length - 1, by omega⟩
  unfold peel
  rw [hl, peelAux]
  simp only [hemp, Bool.false_eq_true, ↓reduceIte, List.cons.injEq, true_and]
  obtain ⟨d, hd⟩ : ∃ d, l = (dominatedPart dom S).length + d := ⟨l - (dominatedPart dom S).length, by omega⟩
  rw [hd]; exact peelAux_add dom _ hS.dominatedPart d

/-- Induction along the peeling of a strict partial order. -/
theorem peel_induction {dom : β → β → Bool} {P : List β → Prop} (hnil : P [])
    (hstep : ∀ S, S ≠ [] → SPO dom S → P (dominatedPart dom S) → P S) :
    ∀ S, SPO dom S → P S := by
  intro S
  induction hn : S.length using Nat.strongRecOn generalizing S with
  | _ n ih =>
    intro hS
    by_cases hne : S = []
    · subst hne; exact hnil
    · exact hstep S hne hS (ih _ (by rw [← hn]; exact length_dominatedPart_lt hne hS) _ rfl hS.dominatedPart)

/-- Every element gets a front: the fronts together are a permutation of the list. -/
theorem peel_flatten_perm {dom : β → β → Bool} : ∀ S, SPO dom S → (peel dom S).flatten.Perm S := by
  apply peel_induction
  · simp [peel_nil]
  · intro S hne hS ih
    rw [peel_eq hne hS, List.flatten_cons]
    exact (List.Perm.append_left _ ih).trans (nondom_perm dom S)

theorem peel_fronts_ne_nil {dom : β → β → Bool} : ∀ S, SPO dom S → ∀ f ∈ peel dom S, f ≠ [] := by
  apply peel_induction
  · simp [peel_nil]
  · intro S hne hS ih f hf
    rw [peel_eq hne hS] at hf
    rcases List.mem_cons.1 hf with rfl | hf
    · exact nondom_ne_nil hne hS
    · exact ih f hf

section Depth
variable [DecidableEq β]

theorem depth_eq {dom : β → β → Bool} {S : List β} (hne : S ≠ []) (hS : SPO dom S) (x : β) :
    depth dom S x = if x ∈ nondom dom S then 0 else depth dom (dominatedPart dom S) x + 1 := by
  simp only [depth, peel_eq hne hS, frontIdx]

theorem depth_zero_iff {dom : β → β → Bool} {S : List β} (hne : S ≠ []) (hS : SPO dom S) (x : β) :
    depth dom S x = 0 ↔ x ∈ nondom dom S := by
  rw [depth_eq hne hS]; split <;> simp_all

/-- Ranking condition 1 holds for `depth`: a dominator lies in a strictly earlier front. -/
theorem depth_lt_of_dom {dom : β → β → Bool} : ∀ S, SPO dom S →
    ∀ x ∈ S, ∀ y ∈ S, dom y x = true → depth dom S y < depth dom S x := by
  apply peel_induction
  · simp
  · intro S hne hS ih x hx y hy hd
    have hxn : x ∉ nondom dom S := by
      rw [mem_nondom]; rintro ⟨_, h⟩; rw [h y hy] at hd; exact Bool.noConfusion hd
    rw [depth_eq hne hS x, depth_eq hne hS y, if_neg hxn]
    by_cases hyn : y ∈ nondom dom S
    · rw [if_pos hyn]; omega
    · rw [if_neg hyn]
      have := ih x (mem_dominatedPart_of_not_nondom hx hxn) y (mem_dominatedPart_of_not_nondom hy hyn) hd
      omega

/-- Ranking condition 2 holds for `depth`: an element of positive depth has a dominator exactly
one front earlier. -/
theorem depth_pred {dom : β → β → Bool} : ∀ S, SPO dom S →
    ∀ x ∈ S, 0 < depth dom S x → ∃ y ∈ S, dom y x = true ∧ depth dom S y + 1 = depth dom S x := by
  apply peel_induction
  · simp
  · intro S hne hS ih x hx hpos
    have hxn : x ∉ nondom dom S := by
      intro h; rw [(depth_zero_iff hne hS x).2 h] at hpos; omega
    have hxd := mem_dominatedPart_of_not_nondom hx hxn
    have hne' : dominatedPart dom S ≠ [] := List.ne_nil_of_mem hxd
    rw [depth_eq hne hS x, if_neg hxn]
    by_cases h0 : depth dom (dominatedPart dom S) x = 0
    · obtain ⟨_, y, hy, hd⟩ := mem_dominatedPart.1 hxd
      refine ⟨y, hy, hd, ?_⟩
      have hyn : y ∈ nondom dom S := by
        by_contra hyn
        have hyd := mem_dominatedPart_of_not_nondom hy hyn
        have := (depth_zero_iff hne' hS.dominatedPart x).1 h0
        rw [mem_nondom] at this
        rw [this.2 y hyd] at hd; exact Bool.noConfusion hd
      rw [(depth_zero_iff hne hS y).2 hyn, h0]
    · obtain ⟨y, hy, hd, he⟩ := ih x hxd (by omega)
      refine ⟨y, dominatedPart_subset y hy, hd, ?_⟩
      rw [depth_eq hne hS y, if_neg (not_nondom_of_mem_dominatedPart hy)]; omega

/-- Two rank functions satisfying both local conditions agree on `S`. -/
theorem cert_unique {dom : β → β → Bool} {S : List β} (r d : β → Nat)
    (r1 : ∀ x ∈ S, ∀ y ∈ S, dom y x = true → r y < r x)
    (r2 : ∀ x ∈ S, 0 < r x → ∃ y ∈ S, dom y x = true ∧ r y + 1 = r x)
    (d1 : ∀ x ∈ S, ∀ y ∈ S, dom y x = true → d y < d x)
    (d2 : ∀ x ∈ S, 0 < d x → ∃ y ∈ S, dom y x = true ∧ d y + 1 = d x) :
    ∀ x ∈ S, r x = d x := by
  have key : ∀ n, ∀ x ∈ S, (r x = n ∨ d x = n) → r x = d x := by
    intro n
    induction n using Nat.strongRecOn with
    | _ n ih =>
      intro x hx h
      rcases h with h | h
      · by_cases hn : n = 0
        · by_contra hc
          obtain ⟨y, hy, hd, _⟩ := d2 x hx (by omega)
          have := r1 x hx y hy hd; omega
        · obtain ⟨y, hy, hd, he⟩ := r2 x hx (by omega)
          have e1 := ih (r y) (by omega) y hy (Or.inl rfl)
          have l1 := d1 x hx y hy hd
          by_contra hc
          obtain ⟨z, hz, hzd, hze⟩ := d2 x hx (by omega)
          have l2 := r1 x hx z hz hzd
          have e2 := ih (r z) (by omega) z hz (Or.inl rfl)
          omega
      · by_cases hn : n = 0
        · by_contra hc
          obtain ⟨y, hy, hd, _⟩ := r2 x hx (by omega)
          have := d1 x hx y hy hd; omega
        · obtain ⟨y, hy, hd, he⟩ := d2 x hx (by omega)
          have e1 := ih (d y) (by omega) y hy (Or.inr rfl)
          have l1 := r1 x hx y hy hd
          by_contra hc
          obtain ⟨z, hz, hzd, hze⟩ := r2 x hx (by omega)
          have l2 := d1 x hx z hz hzd
          have e2 := ih (d z) (by omega) z hz (Or.inr rfl)
          omega
  intro x hx; exact key (r x) x hx (Or.inl rfl)

theorem checkCert_iff (dom : β → β → Bool) (S : List β) (r : β → Nat) :
    checkCert dom S r = true ↔
      (∀ x ∈ S, ∀ y ∈ S, dom y x = true → r y < r x) ∧
      (∀ x ∈ S, 0 < r x → ∃ y ∈ S, dom y x = true ∧ r y + 1 = r x) := by
  simp only [checkCert, Bool.and_eq_true, List.all_eq_true, Bool.or_eq_true, Bool.not_eq_true',
    decide_eq_true_eq, List.any_eq_true]
  constructor
  · rintro ⟨h1, h2⟩
    refine ⟨fun x hx y hy hd => ?_, fun x hx hp => ?_⟩
    · rcases h1 x hx y hy with h | h
      · rw [h] at hd; exact Bool.noConfusion hd
      · exact h
    · rcases h2 x hx with h | h
      · omega
      · exact h
  · rintro ⟨h1, h2⟩
    refine ⟨fun x hx y hy => ?_, fun x hx => ?_⟩
    · cases hd : dom y x with
      | false => exact Or.inl rfl
      | true => exact Or.inr (h1 x hx y hy hd)
    · by_cases h0 : r x = 0
      · exact Or.inl h0
      · exact Or.inr (h2 x hx (by omega))

/-- Front `i` of the peeling holds exactly the elements of depth `i`. -/
theorem mem_peel_iff {dom : β → β → Bool} : ∀ S, SPO dom S → ∀ (i : Nat) (f : List β),
    (peel dom S)[i]? = some f → ∀ x, (x ∈ f ↔ x ∈ S ∧ depth dom S x = i) := by
  apply peel_induction
  · intro i f h; simp [peel_nil] at h
  · intro S hne hS ih i f h x
    rw [peel_eq hne hS] at h
    rw [depth_eq hne hS x]
    cases i with
    | zero =>
      simp only [List.getElem?_cons_zero, Option.some.injEq] at h; subst h
      constructor
      · intro hx; exact ⟨(mem_nondom.1 hx).1, by rw [if_pos hx]⟩
      · rintro ⟨_, h0⟩; by_contra hc; rw [if_neg hc] at h0; omega
    | succ j =>
      simp only [List.getElem?_cons_succ] at h
      rw [ih j f h x]
      constructor
      · rintro ⟨hx, hd⟩
        exact ⟨dominatedPart_subset x hx, by rw [if_neg (not_nondom_of_mem_dominatedPart hx), hd]⟩
      · rintro ⟨hx, hd⟩
        by_cases hc : x ∈ nondom dom S
        · rw [if_pos hc] at hd; omega
        · rw [if_neg hc] at hd
          exact ⟨mem_dominatedPart_of_not_nondom hx hc, by omega⟩

/-- Elements that are dominated by the same elements have the same depth. -/
theorem depth_congr {dom : β → β → Bool} : ∀ S, SPO dom S → ∀ x ∈ S, ∀ y ∈ S,
    (∀ z, dom z x = dom z y) → depth dom S x = depth dom S y := by
  apply peel_induction
  · simp
  · intro S hne hS ih x hx y hy h
    rw [depth_eq hne hS x, depth_eq hne hS y]
    have hiff : x ∈ nondom dom S ↔ y ∈ nondom dom S := by
      simp only [mem_nondom, hx, hy, true_and, h]
    by_cases hc : x ∈ nondom dom S
    · rw [if_pos hc, if_pos (hiff.1 hc)]
    · rw [if_neg hc, if_neg (fun h' => hc (hiff.2 h'))]
      rw [ih x (mem_dominatedPart_of_not_nondom hx hc) y
        (mem_dominatedPart_of_not_nondom hy (fun h' => hc (hiff.2 h'))) h]

end Depth

theorem forall₂_perm_flatten {γ : Type} : ∀ {l₁ l₂ : List (List γ)}, List.Forall₂ List.Perm l₁ l₂ →
    l₁.flatten.Perm l₂.flatten
  | _, _, .nil => by simp
  | _, _, .cons h t => by
    simp only [List.flatten_cons]; exact List.Perm.append h (forall₂_perm_flatten t)

theorem forall₂_getElem? {γ δ : Type} {R : γ → δ → Prop} : ∀ {l₁ : List γ} {l₂ : List δ},
    List.Forall₂ R l₁ l₂ → ∀ (i : Nat) (a : γ), l₁[i]? = some a → ∃ b, l₂[i]? = some b ∧ R a b
  | _, _, .nil, i, a, h => by simp at h
  | _, _, .cons hr t, 0, a, h => by
    simp only [List.getElem?_cons_zero, Option.some.injEq] at h; subst h; exact ⟨_, by simp, hr⟩
  | _, _, .cons hr t, i + 1, a, h => by
    simp only [List.getElem?_cons_succ] at h ⊢; exact forall₂_getElem? t i a h

theorem prefix_flatten_sublist {γ : Type} {l₁ l₂ : List (List γ)} (h : l₁ <+: l₂) :
    l₁.flatten.Sublist l₂.flatten := by
  obtain ⟨t, rfl⟩ := h
  rw [List.flatten_append]; exact List.sublist_append_left _ _

theorem prefix_getElem? {γ : Type} {l₁ l₂ : List γ} (h : l₁ <+: l₂) (i : Nat) (a : γ)
    (ha : l₁[i]? = some a) : l₂[i]? = some a := by
  obtain ⟨t, rfl⟩ := h
  have hi : i < l₁.length := by
    by_contra hc; rw [List.getElem?_eq_none (by omega)] at ha; simp at ha
  rw [List.getElem?_append_left hi]; exact ha

/-! ### `leading` -/

theorem leading_zero (fs : List (List β)) : leading fs 0 = [] := by
  cases fs <;> simp [leading]

theorem leading_prefix : ∀ (fs : List (List β)) (k : Nat), leading fs k <+: fs
  | [], _ => by simp [leading]
  | f :: fs, k => by
    rw [leading]; split
    · exact List.nil_prefix
    · exact (List.prefix_cons_inj f).2 (leading_prefix fs _)

/-- enough: the leading fronts hold at least `min k (total)` elements -/
theorem leading_enough : ∀ (fs : List (List β)) (k : Nat),
    min k fs.flatten.length ≤ (leading fs k).flatten.length
  | [], _ => by simp [leading]
  | f :: fs, k => by
    rw [leading]; split
    · next h => subst h; simp
    · have := leading_enough fs (k - f.length)
      simp only [List.flatten_cons, List.length_append] at this ⊢
      omega

/-- minimal: without its last front the selection holds fewer than `k` elements -/
theorem leading_minimal : ∀ (fs : List (List β)) (k : Nat), leading fs k ≠ [] →
    (leading fs k).dropLast.flatten.length < k
  | [], _, h => by simp [leading] at h
  | f :: fs, k, h => by
    rw [leading] at h ⊢
    split
    · next hk => simp [hk] at h
    · next hk =>
      by_cases hr : leading fs (k - f.length) = []
      · rw [hr]; simp; omega
      · have := leading_minimal fs (k - f.length) hr
        rw [List.dropLast_cons_of_ne_nil hr]
        simp only [List.flatten_cons, List.length_append]
        omega

theorem leading_all (fs : List (List β)) (k : Nat) (hne : ∀ f ∈ fs, f ≠ [])
    (hk : fs.flatten.length ≤ k) : leading fs k = fs := by
  induction fs generalizing k with
  | nil => simp [leading]
  | cons f fs ih =>
    have hf : 0 < f.length := List.length_pos_iff.2 (hne f (by simp))
    simp only [List.flatten_cons, List.length_append] at hk
    rw [leading, if_neg (by omega), ih _ (fun g hg => hne g (by simp [hg])) (by omega)]

end C04L
