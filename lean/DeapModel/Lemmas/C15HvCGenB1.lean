import DeapModel.Lemmas.C15HvCGen0
/-!
C15 — the general case of `hv_recursive` in `_hv.c`, second phase (the reinsertion loop l.780-808): small facts about
the setters of `HvC.St`, and the code of `general` / `reinsLoop` cut into named pieces (`promo`, `bodyR`, `startR`).
-/
namespace HvC
set_option linter.unusedVariables false
open Hypervolume
open HvSweep (GCtx Hj RL preSet pos ARv VOLv ids Shaped)

/-! ### setters -/

theorem gB_ar_setAr_self {d n : ℕ} {S : St} (h : Shaped (n + 1) d S.area) {a i : ℕ} (ha : a ≤ n) (hi : i < d) (v : ℚ) :
    ar (setAr S a i v) a i = v := by
  unfold ar setAr
  exact HvSweep.tget_tset_self _ _ _ _ _ (by rw [h.1]; omega) (by rw [h.2 a (by omega)]; exact hi)

theorem gB_ar_setAr_ne (S : St) (a i a' i' : ℕ) (v : ℚ) (h : a' ≠ a ∨ i' ≠ i) : ar (setAr S a i v) a' i' = ar S a' i' := by
  unfold ar setAr; exact HvSweep.tget_tset_ne _ _ _ _ _ _ _ h

theorem gB_vl_setVl_self {d n : ℕ} {S : St} (h : Shaped (n + 1) d S.vol) {a i : ℕ} (ha : a ≤ n) (hi : i < d) (v : ℚ) :
    vl (setVl S a i v) a i = v := by
  unfold vl setVl
  exact HvSweep.tget_tset_self _ _ _ _ _ (by rw [h.1]; omega) (by rw [h.2 a (by omega)]; exact hi)

theorem gB_vl_setVl_ne (S : St) (a i a' i' : ℕ) (v : ℚ) (h : a' ≠ a ∨ i' ≠ i) : vl (setVl S a i v) a' i' = vl S a' i' := by
  unfold vl setVl; exact HvSweep.tget_tset_ne _ _ _ _ _ _ _ h

theorem gB_ign_setIgn_self (S : St) (a : ℕ) (v : ℤ) (h : a < S.ignore.length) : ign (setIgn S a v) a = v := by
  unfold ign setIgn; exact HvSweep.getD_set_self _ _ _ _ h

theorem gB_ign_setIgn_ne (S : St) (a b : ℕ) (v : ℤ) (h : b ≠ a) : ign (setIgn S a v) b = ign S b := by
  unfold ign setIgn; exact HvSweep.getD_set_ne _ _ _ _ _ h

theorem gB_bound_setBound_ne (S : St) (i j : ℕ) (v : ℚ) (h : j ≠ i) :
    (setBound S i v).bound.getD j none = S.bound.getD j none := by
  unfold setBound; exact HvSweep.getD_set_ne _ _ _ _ _ h

theorem gB_bound_setBound_self (S : St) (i : ℕ) (v : ℚ) (h : i < S.bound.length) :
    (setBound S i v).bound.getD i none = some v := by
  unfold setBound; exact HvSweep.getD_set_self _ _ _ _ h

theorem gB_ar_of_area {S T : St} (h : T.area = S.area) (a i : ℕ) : ar T a i = ar S a i := by unfold ar; rw [h]
theorem gB_vl_of_vol {S T : St} (h : T.vol = S.vol) (a i : ℕ) : vl T a i = vl S a i := by unfold vl; rw [h]
theorem gB_ign_of_ignore {S T : St} (h : T.ignore = S.ignore) (a : ℕ) : ign T a = ign S a := by unfold ign; rw [h]
theorem gB_dr_of_domr {S T : St} (h : T.domr = S.domr) (a : ℕ) : dr T a = dr S a := by unfold dr; rw [h]

theorem gB_tsh_setAr {d n : ℕ} {S : St} (h : TSh d n S) (a i : ℕ) (v : ℚ) : TSh d n (setAr S a i v) :=
  ⟨HvSweep.shaped_tset h.area a i v, h.vol, h.ign, h.domr, h.bound⟩
theorem gB_tsh_setVl {d n : ℕ} {S : St} (h : TSh d n S) (a i : ℕ) (v : ℚ) : TSh d n (setVl S a i v) :=
  ⟨h.area, HvSweep.shaped_tset h.vol a i v, h.ign, h.domr, h.bound⟩
theorem gB_tsh_setIgn {d n : ℕ} {S : St} (h : TSh d n S) (a : ℕ) (v : ℤ) : TSh d n (setIgn S a v) :=
  ⟨h.area, h.vol, by show (S.ignore.set a v).length = _; rw [List.length_set]; exact h.ign, h.domr, h.bound⟩
theorem gB_tsh_setBound {d n : ℕ} {S : St} (h : TSh d n S) (i : ℕ) (v : ℚ) : TSh d n (setBound S i v) :=
  ⟨h.area, h.vol, h.ign, h.domr, by show (S.bound.set i (some v)).length = _; rw [List.length_set]; exact h.bound⟩
theorem gB_tsh_of_fields {d n : ℕ} {S T : St} (h : TSh d n S) (h1 : T.area = S.area) (h2 : T.vol = S.vol)
    (h3 : T.ignore.length = n + 1) (h4 : T.domr = S.domr) (h5 : T.bound.length = d) : TSh d n T :=
  ⟨by rw [h1]; exact h.area, by rw [h2]; exact h.vol, h3, by rw [h4]; exact h.domr, h5⟩

theorem gB_toSw_eq_of {S S' : St} (h1 : S'.next = S.next) (h2 : S'.prev = S.prev) : toSw S' = toSw S := by
  unfold toSw; rw [h1, h2]

theorem PtrEqC.refl (S : St) : PtrEqC S S := fun _ _ => ⟨rfl, rfl⟩
theorem PtrEqC.trans {S T U : St} (h₁ : PtrEqC S T) (h₂ : PtrEqC T U) : PtrEqC S U :=
  fun i a => ⟨(h₂ i a).1.trans (h₁ i a).1, (h₂ i a).2.trans (h₁ i a).2⟩
theorem PtrEqC.symm {S T : St} (h : PtrEqC S T) : PtrEqC T S := fun i a => ⟨(h i a).1.symm, (h i a).2.symm⟩
theorem ptrEqC_of_fields {S T : St} (h1 : T.next = S.next) (h2 : T.prev = S.prev) : PtrEqC S T := by
  intro i a; unfold nx pv; rw [h1, h2]; exact ⟨rfl, rfl⟩

theorem dlc_ptrEqC {n : ℕ} {S T : St} {i : ℕ} {L : List ℕ} (h : PtrEqC S T) (hd : DLc n S i L) : DLc n T i L :=
  HvSweep.dl_congr (S := toSw S) (T := toSw T) (fun a => h i a) hd

theorem delSeq_snoc (C : Cargo) (dim : ℕ) (S : St) (rs : List ℕ) (y : ℕ) :
    delSeq C dim S (rs ++ [y]) = delStep C dim (delSeq C dim S rs) y := by
  unfold delSeq; rw [List.foldl_append]; rfl

/-! ### the code of `reinsLoop` / `general` in named pieces -/

/-- l.766-769 / l.796-798 after the recursive call returned `a`: store the area, promote the mark `dim - 1` to `dim` -/
def promo (T : St) (p dim : ℕ) (a : ℚ) : St :=
  if ign (setAr T p dim a) p = (dim : Int) - 1 then setIgn (setAr T p dim a) p dim else setAr T p dim a

/-- l.789-798: the reinsertion of `p0` and the computation of its area -/
def bodyR (rec : ℕ → St → Option (ℚ × St)) (C : Cargo) (dim p0 p1 c : ℕ) (S : St) : Option St :=
  if (dim : Int) ≤ ign S p0 then
    some (setAr (reinsertDom C S p0 dim) p0 dim (ar (reinsertDom C S p0 dim) p1 dim))
  else
    match rec c (reinsert C S p0 dim) with
    | none => none
    | some (a, S1) => some (promo S1 p0 dim a)

theorem reinsLoop_succ (rec : ℕ → St → Option (ℚ × St)) (C : Cargo) (dim f p0 p1 : ℕ) (hv : ℚ) (c : ℕ) (S : St) :
    reinsLoop rec C dim (f + 1) p0 p1 hv c S =
      if p0 = 0 then some (p1, hv, S)
      else match bodyR rec C dim p0 p1 (c + 1) S with
        | none => none
        | some S' => reinsLoop rec C dim f (nx S' dim p0) p0 (hv + ar S p1 dim * (cg C p0 dim - cg C p1 dim)) (c + 1)
            (setVl S' p0 dim (hv + ar S p1 dim * (cg C p0 dim - cg C p1 dim))) := by
  rfl

theorem reinsLoop_zero_head (rec : ℕ → St → Option (ℚ × St)) (C : Cargo) (dim f p1 : ℕ) (hv : ℚ) (c : ℕ) (S : St) :
    reinsLoop rec C dim f 0 p1 hv c S = some (p1, hv, S) := by
  cases f <;> simp [reinsLoop]

/-- l.756-775: the area of the last node that stays, and the volume up to it -/
def startR (rec : ℕ → St → Option (ℚ × St)) (C : Cargo) (R : List ℚ) (dim p1 c : ℕ) (S : St) : Option (ℚ × St) :=
  if 1 < c then
    if (dim : Int) ≤ ign S p1 then
      some (vl S (pv S dim p1) dim + ar S (pv S dim p1) dim * (cg C p1 dim - cg C (pv S dim p1) dim),
        setAr S p1 dim (ar S (pv S dim p1) dim))
    else
      match rec c S with
      | none => none
      | some (a, S1) =>
        some (vl S (pv S dim p1) dim + ar S (pv S dim p1) dim * (cg C p1 dim - cg C (pv S dim p1) dim), promo S1 p1 dim a)
  else some (0, areaInit C R S p1 dim)

theorem general_eq (rec : ℕ → St → Option (ℚ × St)) (C : Cargo) (R : List ℚ) (fuel dim c : ℕ) (S : St) :
    general rec C R fuel dim c S =
      match resetLoop dim fuel (pv S dim 0) S with
      | none => none
      | some S1 =>
        match startR rec C R dim (deleteLoop C dim c 0 (pv S dim 0) S1).2.1 (deleteLoop C dim c 0 (pv S dim 0) S1).2.2.1
            (deleteLoop C dim c 0 (pv S dim 0) S1).2.2.2 with
        | none => none
        | some (hv, S2) =>
          match reinsLoop rec C dim fuel (deleteLoop C dim c 0 (pv S dim 0) S1).1 (deleteLoop C dim c 0 (pv S dim 0) S1).2.1 hv
              (deleteLoop C dim c 0 (pv S dim 0) S1).2.2.1 (setVl S2 (deleteLoop C dim c 0 (pv S dim 0) S1).2.1 dim hv) with
          | none => none
          | some (p1, hv', S3) =>
            some (hv' + ar (setBound S3 dim (cg C p1 dim)) p1 dim * (rf R dim - cg C p1 dim), setBound S3 dim (cg C p1 dim)) := by
  rfl

end HvC
