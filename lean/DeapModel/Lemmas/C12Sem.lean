/-
Helper lemmas for C12: `GpCompile.evalTree` is the value-generic `GpTree.evalG` at the carrier `PyLang.Val`.
-/
import DeapModel.Core.GpCompile
import DeapModel.Core.GpSemantic

namespace GpCompile
open GpTree

/-- the `evalG` environment of a compile environment -/
def toEnvG (env : Env) : EnvG Val := ⟨env.funs, env.vars, env.lit⟩

mutual
theorem evalTree_eq_evalG (env : Env) : ∀ t : Tree, evalTree env t = evalG (toEnvG env) t
  | .node p as => by
    rw [evalTree, evalG, evalF_eq_evalGF env as]
    by_cases hk : p.kind = .prim
    · simp only [hk, if_true, toEnvG]
      cases env.funs p.name.toList <;> cases evalGF ⟨env.funs, env.vars, env.lit⟩ as <;> rfl
    · simp only [hk, if_false, toEnvG]
      cases env.vars p.text.toList <;> rfl
theorem evalF_eq_evalGF (env : Env) : ∀ ts : List Tree, evalF env ts = evalGF (toEnvG env) ts
  | [] => by rw [evalF, evalGF]
  | t :: ts => by
    rw [evalF, evalGF, evalTree_eq_evalG env t, evalF_eq_evalGF env ts]
    cases evalG (toEnvG env) t <;> cases evalGF (toEnvG env) ts <;> rfl
end

end GpCompile
