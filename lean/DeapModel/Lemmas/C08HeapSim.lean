/-
C08 at heap level — the heap-level `update` of `HallOfFame` and `ParetoFront` runs in lockstep with the pure
`update` of `Core/Archive.lean` on the individuals' views: same result up to the identities of the members
(`Rel`), same exceptions, and the invariant of the heap-level archive (`Inv`) is kept.
-/
import DeapModel.Lemmas.C08HeapInsert

set_option linter.unusedSectionVars false
set_option linter.unusedSimpArgs false
set_option linter.unusedVariables false

namespace C08H
open Heap Heap.Copy ArchiveHeap
open Archive (Ind HoF)
open Fitness (Fit)
open C08L (mem_insertAt map_insertAt reverse_insertAt pairwise_insertAt length_insertAt map_eraseIdx'
  reverse_eraseIdx removeAt_eq_eraseIdx)

variable {α : Type} [LinearOrder α]

/-- Lockstep of a heap-level result with a pure result: both raise, or both succeed with related states. -/
def Lock (P : Params α) (base : Nat) (hs : HState) : Option HState → Option (HoF PV α) → Prop
  | none, none => True
  | some hs', some h' => Inv P base hs' ∧ Rel P hs' h' ∧ HExt hs hs'
  | _, _ => False

theorem Lock.trans {P : Params α} {base : Nat} {hs hs1 : HState} (hE : HExt hs hs1)
    {r : Option HState} {r' : Option (HoF PV α)} (h : Lock P base hs1 r r') : Lock P base hs r r' := by
  cases r <;> cases r' <;> simp only [Lock] at h ⊢
  exact ⟨h.1, h.2.1, hE.trans h.2.2⟩

section
variable {P : Params α} {base : Nat} {hs : HState} {h : HoF PV α}

theorem Rel.len (hR : Rel P hs h) : hs.items.length = h.items.length := by
  have := congrArg List.length hR.items
  simpa using this

/-! ### insert, remove -/

theorem insert_lock (hct : CTOk P.ct) (hI : Inv P base hs) (hR : Rel P hs h) {x : Oid} (hx : Subm P hs x)
    {vx : Ind PV α} (hv : viewInd P hs.objs x = some vx) :
    Lock P base hs (insertH P hs x) (some (Archive.insert h vx)) := by
  obtain ⟨hnl, hw, f, hf⟩ := hx
  obtain ⟨hs', f', he, hI', hE, hitems, hkeys, habs, hf', hfv, _⟩ := insertH_spec hct hI hnl hw hf
  rw [he]
  refine ⟨hI', ?_, hE⟩
  rw [viewInd_of_instFit hf] at hv
  cases hv
  obtain ⟨_, hmv, hkv⟩ := hI.ext_items hE
  have hlen := hR.len
  refine ⟨by rw [hE.maxsize]; exact hR.msz, ?_, ?_⟩
  · rw [C08L.insert_keys, hkeys, map_insertAt, hkv, hfv, ← hR.keys]
  · rw [C08L.insert_items, hitems, map_insertAt, map_insertAt, hmv, hR.items, ← hR.keys, hlen]
    congr 1
    rw [viewInd_of_instFit hf']
    simp only [Option.map_some, erase, Archive.copyInd, habs, hfv]
    rfl

theorem remove_lock (hI : Inv P base hs) (hR : Rel P hs h) (index : Int) :
    Lock P base hs (removeH hs index) (Archive.remove h index) := by
  have hlen := hR.len
  by_cases hl : h.items.length = 0
  · have hl' : hs.items.length = 0 := by omega
    simp only [removeH, Archive.remove, hl, hl', ↓reduceIte, Lock]
  · cases hj : Archive.pyIndex h.items.length index with
    | none =>
      have hl' : hs.items.length ≠ 0 := by omega
      simp only [removeH, Archive.remove, hl, hl', ↓reduceIte, hlen, hj, Lock]
    | some j =>
      obtain ⟨hjl, e⟩ := C08L.remove_spec h index j hj
      obtain ⟨_, e'⟩ := removeH_spec hs index j (by rw [hlen]; exact hj)
      rw [e, e']
      exact ⟨erasedH_inv hI j (by omega), erasedH_rel hR j, erasedH_ext hs j⟩

/-! ### One iteration of `HallOfFame.update` -/

theorem any_rel (hsim : SimErase P.sim) (objs : Oid → Option Obj) (vi : Ind PV α) :
    ∀ (l : List Oid) (l' : List (Ind PV α)),
      l.map (fun x => (viewInd P objs x).map erase) = l'.map (fun it => some (erase it)) →
      l.any (similarTo P objs vi) = l'.any (fun hofer => P.sim vi hofer) := by
  intro l
  induction l with
  | nil =>
    intro l' e
    cases l' with
    | nil => rfl
    | cons a t => simp at e
  | cons x xs ih =>
    intro l' e
    cases l' with
    | nil => simp at e
    | cons a t =>
      simp only [List.map_cons, List.cons.injEq] at e
      obtain ⟨e1, e2⟩ := e
      simp only [List.any_cons, ih t e2]
      congr 1
      cases hv : viewInd P objs x with
      | none => rw [hv] at e1; simp at e1
      | some vh =>
        rw [hv] at e1
        simp only [Option.map_some, Option.some.injEq] at e1
        simp only [similarTo, hv]
        exact hsim _ _ _ _ rfl e1

theorem step_lock (hsim : SimErase P.sim) (hct : CTOk P.ct) (hI : Inv P base hs) (hR : Rel P hs h)
    {p0 ind : Oid} {vp0 vi : Ind PV α} (hp0 : Subm P hs p0) (hind : Subm P hs ind)
    (hv0 : viewInd P hs.objs p0 = some vp0) (hvi : viewInd P hs.objs ind = some vi) :
    Lock P base hs (stepH P p0 hs ind) (Archive.step P.sim vp0 h vi) := by
  have hlen := hR.len
  have hmsz := hR.msz
  unfold stepH Archive.step
  rw [hlen, ← hmsz]
  by_cases hc : h.items.length = 0 ∧ h.maxsize ≠ 0
  · rw [if_pos hc, if_pos hc]
    exact insert_lock hct hI hR hp0 hv0
  · rw [if_neg hc, if_neg hc]
    simp only [hvi]
    have hlast := congrArg List.getLast? hR.items
    rw [List.getLast?_map, List.getLast?_map] at hlast
    cases hw : h.items.getLast? with
    | none =>
      rw [hw] at hlast
      have : hs.items.getLast? = none := by simpa using hlast
      rw [this]
      trivial
    | some w =>
      rw [hw] at hlast
      cases hwh : hs.items.getLast? with
      | none => rw [hwh] at hlast; simp at hlast
      | some worst =>
        rw [hwh] at hlast
        simp only [Option.map_some, Option.some.injEq] at hlast
        cases hvw : viewInd P hs.objs worst with
        | none => rw [hvw] at hlast; simp at hlast
        | some vw =>
          rw [hvw] at hlast
          simp only [Option.map_some, Option.some.injEq] at hlast
          have hfit : vw.fit = w.fit := congrArg Prod.snd hlast
          simp only [hvw, hfit, any_rel hsim hs.objs vi hs.items h.items hR.items]
          by_cases hadm : (Fitness.gt vi.fit w.fit || decide (h.items.length < h.maxsize)) = true
          · rw [if_pos hadm, if_pos hadm]
            by_cases hs' : (h.items.any fun hofer => P.sim vi hofer) = true
            · rw [if_pos hs', if_pos hs']
              exact ⟨hI, hR, HExt.refl hs⟩
            · rw [if_neg hs', if_neg hs']
              by_cases hfull : h.items.length ≥ h.maxsize
              · rw [if_pos hfull, if_pos hfull]
                have hrl := remove_lock hI hR (-1)
                cases hr : Archive.remove h (-1) with
                | none =>
                  rw [hr] at hrl
                  cases hr' : removeH hs (-1) with
                  | none => trivial
                  | some _ => rw [hr'] at hrl; exact hrl.elim
                | some h1 =>
                  rw [hr] at hrl
                  cases hr' : removeH hs (-1) with
                  | none => rw [hr'] at hrl; exact hrl.elim
                  | some hs1 =>
                    rw [hr'] at hrl
                    obtain ⟨hI1, hR1, hE1⟩ := hrl
                    obtain ⟨hind1, hvi1⟩ := hind.ext hI hE1
                    exact Lock.trans hE1 (insert_lock hct hI1 hR1 hind1 (hvi1.trans hvi))
              · rw [if_neg hfull, if_neg hfull]
                exact insert_lock hct hI hR hind hvi
          · rw [if_neg hadm, if_neg hadm]
            exact ⟨hI, hR, HExt.refl hs⟩

end

/-! ### The loops -/

theorem updateLoop_lock {P : Params α} {base : Nat} (hsim : SimErase P.sim) (hct : CTOk P.ct)
    {p0 : Oid} {vp0 : Ind PV α} :
    ∀ (pop : List Oid) (vs : List (Ind PV α)) (hs : HState) (h : HoF PV α), Inv P base hs → Rel P hs h →
      Subm P hs p0 → viewInd P hs.objs p0 = some vp0 → (∀ x ∈ pop, Subm P hs x) →
      pop.map (viewInd P hs.objs) = vs.map some →
      Lock P base hs (updateLoopH P p0 hs pop) (Archive.updateLoop P.sim vp0 h vs) := by
  intro pop
  induction pop with
  | nil =>
    intro vs hs h hI hR _ _ _ e
    cases vs with
    | nil => exact ⟨hI, hR, HExt.refl hs⟩
    | cons a t => simp at e
  | cons ind rest ih =>
    intro vs hs h hI hR hp0 hv0 hpop e
    cases vs with
    | nil => simp at e
    | cons vi vs' =>
      simp only [List.map_cons, List.cons.injEq] at e
      obtain ⟨e1, e2⟩ := e
      have hl := step_lock hsim hct hI hR hp0 (hpop ind List.mem_cons_self) hv0 e1
      simp only [updateLoopH, Archive.updateLoop]
      cases hr : Archive.step P.sim vp0 h vi with
      | none =>
        rw [hr] at hl
        cases hr' : stepH P p0 hs ind with
        | none => trivial
        | some _ => rw [hr'] at hl; exact hl.elim
      | some h1 =>
        rw [hr] at hl
        cases hr' : stepH P p0 hs ind with
        | none => rw [hr'] at hl; exact hl.elim
        | some hs1 =>
          rw [hr'] at hl
          obtain ⟨hI1, hR1, hE1⟩ := hl
          obtain ⟨hp01, hv01⟩ := hp0.ext hI hE1
          refine Lock.trans hE1 (ih vs' hs1 h1 hI1 hR1 hp01 (hv01.trans hv0)
            (fun x hx => ((hpop x (List.mem_cons_of_mem _ hx)).ext hI hE1).1) ?_)
          rw [← e2]
          apply List.map_congr_left
          intro x hx
          exact ((hpop x (List.mem_cons_of_mem _ hx)).ext hI hE1).2

theorem update_lock {P : Params α} {base : Nat} (hsim : SimErase P.sim) (hct : CTOk P.ct)
    {hs : HState} {h : HoF PV α} (hI : Inv P base hs) (hR : Rel P hs h) (pop : List Oid)
    (vs : List (Ind PV α)) (hpop : ∀ x ∈ pop, Subm P hs x) (e : pop.map (viewInd P hs.objs) = vs.map some) :
    Lock P base hs (updateH P hs pop) (Archive.update P.sim h vs) := by
  cases pop with
  | nil =>
    cases vs with
    | nil => exact ⟨hI, hR, HExt.refl hs⟩
    | cons a t => simp at e
  | cons p0 rest =>
    cases vs with
    | nil => simp at e
    | cons vp0 vs' =>
      have e1 : viewInd P hs.objs p0 = some vp0 := by
        simp only [List.map_cons, List.cons.injEq] at e
        exact e.1
      exact updateLoop_lock hsim hct (p0 :: rest) (vp0 :: vs') hs h hI hR (hpop p0 List.mem_cons_self) e1
        hpop e

/-! ### ParetoFront -/

theorem viewAll_rel {P : Params α} (objs : Oid → Option Obj) :
    ∀ (l : List Oid) (l' : List (Ind PV α)),
      l.map (fun x => (viewInd P objs x).map erase) = l'.map (fun it => some (erase it)) →
      ∃ vs, viewAll P objs l = some vs ∧ vs.map erase = l'.map erase := by
  intro l
  induction l with
  | nil =>
    intro l' e
    cases l' with
    | nil => exact ⟨[], rfl, rfl⟩
    | cons a t => simp at e
  | cons x xs ih =>
    intro l' e
    cases l' with
    | nil => simp at e
    | cons a t =>
      simp only [List.map_cons, List.cons.injEq] at e
      obtain ⟨e1, e2⟩ := e
      obtain ⟨vs, hvs, hm⟩ := ih t e2
      cases hv : viewInd P objs x with
      | none => rw [hv] at e1; simp at e1
      | some vh =>
        rw [hv] at e1
        simp only [Option.map_some, Option.some.injEq] at e1
        exact ⟨vh :: vs, by simp only [viewAll, hv, hvs], by simp only [List.map_cons, e1, hm]⟩

theorem scan_erase {sim : Ind PV α → Ind PV α → Bool} (hsim : SimErase sim) (vi : Ind PV α) :
    ∀ (l l' : List (Ind PV α)) (i : Nat) (s : Archive.Scan), l.map erase = l'.map erase →
      Archive.scan sim vi l i s = Archive.scan sim vi l' i s := by
  intro l
  induction l with
  | nil =>
    intro l' i s e
    cases l' with
    | nil => rfl
    | cons a t => simp at e
  | cons x xs ih =>
    intro l' i s e
    cases l' with
    | nil => simp at e
    | cons a t =>
      simp only [List.map_cons, List.cons.injEq] at e
      obtain ⟨e1, e2⟩ := e
      have hfit : x.fit = a.fit := congrArg Prod.snd e1
      have hs : sim vi x = sim vi a := hsim _ _ _ _ rfl e1
      simp only [Archive.scan, hfit, hs, ih t _ _ e2]

theorem removeAll_lock {P : Params α} {base : Nat} :
    ∀ (js : List Nat) (hs : HState) (h : HoF PV α), Inv P base hs → Rel P hs h →
      Lock P base hs (removeAllH hs js) (Archive.removeAll h js) := by
  intro js
  induction js with
  | nil => intro hs h hI hR; exact ⟨hI, hR, HExt.refl hs⟩
  | cons j js ih =>
    intro hs h hI hR
    have hl := remove_lock hI hR (j : Int)
    simp only [removeAllH, Archive.removeAll]
    cases hr : Archive.remove h (j : Int) with
    | none =>
      rw [hr] at hl
      cases hr' : removeH hs (j : Int) with
      | none => trivial
      | some _ => rw [hr'] at hl; exact hl.elim
    | some h1 =>
      rw [hr] at hl
      cases hr' : removeH hs (j : Int) with
      | none => rw [hr'] at hl; exact hl.elim
      | some hs1 =>
        rw [hr'] at hl
        obtain ⟨hI1, hR1, hE1⟩ := hl
        exact Lock.trans hE1 (ih hs1 h1 hI1 hR1)

theorem pfStep_lock {P : Params α} {base : Nat} (hsim : SimErase P.sim) (hct : CTOk P.ct)
    {hs : HState} {h : HoF PV α} (hI : Inv P base hs) (hR : Rel P hs h) {ind : Oid} {vi : Ind PV α}
    (hind : Subm P hs ind) (hvi : viewInd P hs.objs ind = some vi) :
    Lock P base hs (pfStepH P hs ind) (Archive.pfStep P.sim h vi) := by
  obtain ⟨vs, hvs, hm⟩ := viewAll_rel (P := P) hs.objs hs.items h.items hR.items
  have hscan := scan_erase hsim vi vs h.items 0 {} hm
  simp only [pfStepH, Archive.pfStep, hvi, hvs, hscan]
  have hl := removeAll_lock (Archive.scan P.sim vi h.items 0 {}).toRemove.reverse hs h hI hR
  cases hr : Archive.removeAll h (Archive.scan P.sim vi h.items 0 {}).toRemove.reverse with
  | none =>
    rw [hr] at hl
    cases hr' : removeAllH hs (Archive.scan P.sim vi h.items 0 {}).toRemove.reverse with
    | none => trivial
    | some _ => rw [hr'] at hl; exact hl.elim
  | some h1 =>
    rw [hr] at hl
    cases hr' : removeAllH hs (Archive.scan P.sim vi h.items 0 {}).toRemove.reverse with
    | none => rw [hr'] at hl; exact hl.elim
    | some hs1 =>
      rw [hr'] at hl
      obtain ⟨hI1, hR1, hE1⟩ := hl
      simp only
      split
      · obtain ⟨hind1, hvi1⟩ := hind.ext hI hE1
        exact Lock.trans hE1 (insert_lock hct hI1 hR1 hind1 (hvi1.trans hvi))
      · exact ⟨hI1, hR1, hE1⟩

theorem pfUpdate_lock {P : Params α} {base : Nat} (hsim : SimErase P.sim) (hct : CTOk P.ct) :
    ∀ (pop : List Oid) (vs : List (Ind PV α)) (hs : HState) (h : HoF PV α), Inv P base hs → Rel P hs h →
      (∀ x ∈ pop, Subm P hs x) → pop.map (viewInd P hs.objs) = vs.map some →
      Lock P base hs (pfUpdateH P hs pop) (Archive.pfUpdate P.sim h vs) := by
  intro pop
  induction pop with
  | nil =>
    intro vs hs h hI hR _ e
    cases vs with
    | nil => exact ⟨hI, hR, HExt.refl hs⟩
    | cons a t => simp at e
  | cons ind rest ih =>
    intro vs hs h hI hR hpop e
    cases vs with
    | nil => simp at e
    | cons vi vs' =>
      simp only [List.map_cons, List.cons.injEq] at e
      obtain ⟨e1, e2⟩ := e
      have hl := pfStep_lock hsim hct hI hR (hpop ind List.mem_cons_self) e1
      simp only [pfUpdateH, Archive.pfUpdate]
      cases hr : Archive.pfStep P.sim h vi with
      | none =>
        rw [hr] at hl
        cases hr' : pfStepH P hs ind with
        | none => trivial
        | some _ => rw [hr'] at hl; exact hl.elim
      | some h1 =>
        rw [hr] at hl
        cases hr' : pfStepH P hs ind with
        | none => rw [hr'] at hl; exact hl.elim
        | some hs1 =>
          rw [hr'] at hl
          obtain ⟨hI1, hR1, hE1⟩ := hl
          refine Lock.trans hE1 (ih vs' hs1 h1 hI1 hR1
            (fun x hx => ((hpop x (List.mem_cons_of_mem _ hx)).ext hI hE1).1) ?_)
          rw [← e2]
          apply List.map_congr_left
          intro x hx
          exact ((hpop x (List.mem_cons_of_mem _ hx)).ext hI hE1).2

end C08H
