/-
C07 (NSGA-III reference points): `uniform_reference_points(nobj, p, scaling)` produces the
Das–Dennis simplex lattice: `C(nobj + p - 1, p)` pairwise distinct points with `nobj` non-negative
coordinates summing to one.
-/
import DeapModel.Core.Nsga3
import Mathlib.Data.Nat.Choose.Basic
import Mathlib.Data.List.Nodup
import Mathlib.Data.List.Basic
import Mathlib.Algebra.Order.Field.Basic
import Mathlib.Algebra.Order.Field.Rat
import Mathlib.Data.Rat.Cast.Defs
import Mathlib.Tactic.FieldSimp
import Mathlib.Tactic.Ring
import Mathlib.Tactic.Linarith
import Mathlib.Tactic.Positivity

namespace C07L
open Nsga3

/-! ### counting -/

/-- hockey-stick identity in the shape produced by `List.length_flatMap` on `genRefs`. -/
theorem hockey (rem : Nat) : ∀ left : Nat,
    ((List.range (left + 1)).map (fun i => Nat.choose (rem + (left - i)) (left - i))).sum
      = Nat.choose (rem + 1 + left) left := by
  intro left
  induction left with
  | zero => simp
  | succ n ih =>
    rw [List.range_succ_eq_map, List.map_cons, List.sum_cons, List.map_map]
    have h : ((fun i => Nat.choose (rem + (n + 1 - i)) (n + 1 - i)) ∘ Nat.succ)
        = (fun i => Nat.choose (rem + (n - i)) (n - i)) := by
      funext i
      simp [Nat.succ_sub_succ]
    rw [h, ih]
    have e1 : rem + (n + 1) = rem + 1 + n := by omega
    have e2 : rem + 1 + (n + 1) = (rem + 1 + n) + 1 := by omega
    rw [Nat.sub_zero, e1, e2, Nat.choose_succ_succ (rem + 1 + n) n, Nat.add_comm]

theorem genRefs_length (total : Nat) : ∀ (rem : Nat) (ref : List Rat) (left depth : Nat),
    (genRefs total rem ref left depth).length = Nat.choose (rem + left) left := by
  intro rem
  induction rem with
  | zero => intro ref left depth; simp [genRefs]
  | succ rem ih =>
    intro ref left depth
    simp only [genRefs, List.length_flatMap, ih, Nat.sub_eq]
    exact hockey rem left

/-! ### shape of the generated points -/

theorem take_succ_set (ref : List Rat) (depth : Nat) (v : Rat) (h : depth < ref.length) :
    (ref.set depth v).take (depth + 1) = ref.take depth ++ [v] := by
  have h' : depth < (ref.set depth v).length := by simpa using h
  rw [List.take_succ_eq_append_getElem h', List.take_set_of_le (Nat.le_refl _),
    List.getElem_set_self]

/-- every generated point keeps the first `depth` coordinates of `ref`; the remaining `rem + 1`
coordinates are non-negative and sum to `left / total`. -/
theorem genRefs_spec (total : Nat) : ∀ (rem : Nat) (ref : List Rat) (left depth : Nat),
    ref.length = depth + rem + 1 →
    ∀ pt ∈ genRefs total rem ref left depth,
      ∃ tail : List Rat, pt = ref.take depth ++ tail ∧ tail.length = rem + 1 ∧
        tail.sum = (left : Rat) / (total : Rat) ∧ ∀ x ∈ tail, 0 ≤ x := by
  intro rem
  induction rem with
  | zero =>
    intro ref left depth hlen pt hpt
    simp only [genRefs, List.mem_singleton] at hpt
    refine ⟨[(left : Rat) / (total : Rat)], ?_, rfl, by simp, ?_⟩
    · have hd : depth < ref.length := by omega
      have hdrop : ref.drop (depth + 1) = [] := List.drop_eq_nil_of_le (by omega)
      rw [hpt, List.set_eq_take_append_cons_drop, if_pos hd, hdrop]
    · intro x hx
      rw [List.mem_singleton] at hx
      subst hx
      exact div_nonneg (Nat.cast_nonneg _) (Nat.cast_nonneg _)
  | succ rem ih =>
    intro ref left depth hlen pt hpt
    simp only [genRefs, List.mem_flatMap, List.mem_range, Nat.sub_eq] at hpt
    obtain ⟨i, hi, hpt⟩ := hpt
    have hd : depth < ref.length := by omega
    obtain ⟨tail, h1, h2, h3, h4⟩ :=
      ih (ref.set depth ((i : Rat) / (total : Rat))) (left - i) (depth + 1)
        (by rw [List.length_set]; omega) pt hpt
    refine ⟨((i : Rat) / (total : Rat)) :: tail, ?_, by simp [h2], ?_, ?_⟩
    · rw [h1, take_succ_set ref depth _ hd, List.append_assoc]; rfl
    · rw [List.sum_cons, h3, Nat.cast_sub (by omega), ← add_div]
      congr 1
      ring
    · intro x hx
      rcases List.mem_cons.1 hx with hx | hx
      · subst hx
        exact div_nonneg (Nat.cast_nonneg _) (Nat.cast_nonneg _)
      · exact h4 x hx

/-- inside the branch `i` of the recursion, coordinate `depth` is `i / total`. -/
theorem genRefs_branch (total rem : Nat) (ref : List Rat) (left depth : Nat) (v : Rat)
    (hlen : ref.length = depth + (rem + 1) + 1) :
    ∀ pt ∈ genRefs total rem (ref.set depth v) left (depth + 1),
      ∃ tail : List Rat, pt = (ref.take depth ++ [v]) ++ tail := by
  intro pt hpt
  obtain ⟨tail, h1, _⟩ :=
    genRefs_spec total rem (ref.set depth v) left (depth + 1)
      (by rw [List.length_set]; omega) pt hpt
  exact ⟨tail, by rw [h1, take_succ_set ref depth v (by omega)]⟩

theorem genRefs_nodup (total : Nat) (ht : total ≠ 0) :
    ∀ (rem : Nat) (ref : List Rat) (left depth : Nat),
      ref.length = depth + rem + 1 → (genRefs total rem ref left depth).Nodup := by
  intro rem
  induction rem with
  | zero => intro ref left depth _; simp [genRefs]
  | succ rem ih =>
    intro ref left depth hlen
    simp only [genRefs]
    rw [List.nodup_flatMap]
    refine ⟨fun i _ => ih _ _ _ (by rw [List.length_set]; omega), ?_⟩
    refine List.Pairwise.imp_of_mem ?_ (List.nodup_range (n := left + 1))
    intro i j _ _ hij
    show List.Disjoint _ _
    rw [List.disjoint_left]
    intro pt hi hj
    obtain ⟨t1, e1⟩ := genRefs_branch total rem ref _ depth _ hlen pt hi
    obtain ⟨t2, e2⟩ := genRefs_branch total rem ref _ depth _ hlen pt hj
    have := (List.append_inj (e1.symm.trans e2) (by simp)).1
    have hv : (i : Rat) / (total : Rat) = (j : Rat) / (total : Rat) := by
      simpa using this
    have ht' : (total : Rat) ≠ 0 := Nat.cast_ne_zero.2 ht
    have : (i : Rat) = (j : Rat) := by
      field_simp at hv
      exact hv
    exact hij (Nat.cast_injective this)

/-! ### the unscaled points -/

theorem base_mem (nobj p : Nat) (hn : 1 ≤ nobj) :
    ∀ pt ∈ genRefs p (nobj - 1) (List.replicate nobj 0) p 0,
      pt.length = nobj ∧ pt.sum = (p : Rat) / (p : Rat) ∧ ∀ x ∈ pt, 0 ≤ x := by
  intro pt hpt
  obtain ⟨tail, h1, h2, h3, h4⟩ :=
    genRefs_spec p (nobj - 1) (List.replicate nobj 0) p 0 (by simp; omega) pt hpt
  have : pt = tail := by simpa using h1
  subst this
  exact ⟨by omega, h3, h4⟩

/-! ### scaling -/

theorem sum_map_affine (s c : Rat) : ∀ l : List Rat,
    (l.map (fun x => x * s + c)).sum = l.sum * s + (l.length : Rat) * c := by
  intro l
  induction l with
  | nil => simp
  | cons a l ih =>
    simp only [List.map_cons, List.sum_cons, ih, List.length_cons, Nat.cast_succ]
    ring

theorem affine_injective (s c : Rat) (hs : s ≠ 0) :
    Function.Injective (fun x : Rat => x * s + c) := by
  intro a b h
  have h' : a * s = b * s := add_right_cancel h
  exact mul_right_cancel₀ hs h'

/-! ### main theorems -/

theorem refs_length (nobj p : Nat) (hn : 1 ≤ nobj) (hp : 1 ≤ p) (s : Option Rat) :
    (uniformRefPoints nobj p s).length = Nat.choose (nobj + p - 1) p := by
  have e : nobj - 1 + p = nobj + p - 1 := by omega
  cases s with
  | none => simp only [uniformRefPoints, genRefs_length, e]
  | some s => simp only [uniformRefPoints, List.length_map, genRefs_length, e]

example : (uniformRefPoints 3 2 none).length = 6 := by decide
example : (uniformRefPoints 3 4 (some (1 / 2))).length = Nat.choose 6 4 :=
  refs_length 3 4 (by decide) (by decide) _

theorem refs_coord_count (nobj p : Nat) (hn : 1 ≤ nobj) (s : Option Rat) :
    ∀ pt ∈ uniformRefPoints nobj p s, pt.length = nobj := by
  cases s with
  | none => exact fun pt hpt => (base_mem nobj p hn pt hpt).1
  | some s =>
    intro pt hpt
    simp only [uniformRefPoints, List.mem_map] at hpt
    obtain ⟨q, hq, rfl⟩ := hpt
    rw [List.length_map]
    exact (base_mem nobj p hn q hq).1

example : ∀ pt ∈ uniformRefPoints 3 2 none, pt.length = 3 := by decide

theorem refs_sum_one (nobj p : Nat) (hn : 1 ≤ nobj) (hp : 1 ≤ p) (s : Option Rat) :
    ∀ pt ∈ uniformRefPoints nobj p s, pt.sum = 1 := by
  have hp' : (p : Rat) ≠ 0 := Nat.cast_ne_zero.2 (by omega)
  have hn' : (nobj : Rat) ≠ 0 := Nat.cast_ne_zero.2 (by omega)
  cases s with
  | none =>
    intro pt hpt
    rw [(base_mem nobj p hn pt hpt).2.1, div_self hp']
  | some s =>
    intro pt hpt
    simp only [uniformRefPoints, List.mem_map] at hpt
    obtain ⟨q, hq, rfl⟩ := hpt
    obtain ⟨h1, h2, _⟩ := base_mem nobj p hn q hq
    rw [sum_map_affine, h1, h2, div_self hp']
    field_simp
    ring

example : ∀ pt ∈ uniformRefPoints 3 2 none, pt.sum = 1 := by
  simp [uniformRefPoints, genRefs, List.range_succ]
  norm_num

set_option linter.unusedVariables false in
theorem refs_nonneg (nobj p : Nat) (hn : 1 ≤ nobj) (hp : 1 ≤ p) :
    ∀ pt ∈ uniformRefPoints nobj p none, ∀ x ∈ pt, 0 ≤ x :=
  fun pt hpt => (base_mem nobj p hn pt hpt).2.2

example : ∀ pt ∈ uniformRefPoints 3 2 none, ∀ x ∈ pt, 0 ≤ x := by
  simp [uniformRefPoints, genRefs, List.range_succ]

set_option linter.unusedVariables false in
theorem refs_nonneg_scaled (nobj p : Nat) (hn : 1 ≤ nobj) (hp : 1 ≤ p) (s : Rat) (h0 : 0 ≤ s)
    (h1 : s ≤ 1) : ∀ pt ∈ uniformRefPoints nobj p (some s), ∀ x ∈ pt, 0 ≤ x := by
  intro pt hpt x hx
  simp only [uniformRefPoints, List.mem_map] at hpt
  obtain ⟨q, hq, rfl⟩ := hpt
  obtain ⟨y, hy, rfl⟩ := List.mem_map.1 hx
  have hy0 : 0 ≤ y := (base_mem nobj p hn q hq).2.2 y hy
  exact add_nonneg (mul_nonneg hy0 h0) (div_nonneg (by linarith) (Nat.cast_nonneg _))

example : ∀ pt ∈ uniformRefPoints 3 2 (some (1 / 2)), ∀ x ∈ pt, 0 ≤ x := by
  simp [uniformRefPoints, genRefs, List.range_succ]
  norm_num

theorem refs_nodup (nobj p : Nat) (hn : 1 ≤ nobj) (hp : 1 ≤ p) :
    (uniformRefPoints nobj p none).Nodup :=
  genRefs_nodup p (by omega) (nobj - 1) _ p 0 (by simp; omega)

example : (uniformRefPoints 3 2 none).Nodup := by
  simp [uniformRefPoints, genRefs, List.range_succ]

theorem refs_nodup_scaled (nobj p : Nat) (hn : 1 ≤ nobj) (hp : 1 ≤ p) (s : Rat) (hs : s ≠ 0) :
    (uniformRefPoints nobj p (some s)).Nodup := by
  simp only [uniformRefPoints]
  exact List.Nodup.map (List.map_injective_iff.2 (affine_injective s _ hs))
    (genRefs_nodup p (by omega) (nobj - 1) _ p 0 (by simp; omega))

example : (uniformRefPoints 3 2 (some (1 / 2))).Nodup := by
  simp [uniformRefPoints, genRefs, List.range_succ]

end C07L
