/-
C16 — lemmas about `copyVal` / `clone`: generic facts on `lookup`, `dictUpdate`, `abs`, `Within`,
`Reach` (this file); the copying invariant is in `C16CopyInv.lean`, the induction in `C16CopyMain.lean`,
the facts about `clone` / `cloneChain` in `C16Copy.lean`.
-/
import DeapModel.Core.Heap
import DeapModel.Lemmas.C16Defs
import DeapModel.Lemmas.C16Inst

/-! All helper lemmas of the clone proofs live in the sub-namespace `Heap.Copy`, so that their names
cannot clash with those of the instantiation / pickle lemma files. -/
namespace Heap.Copy

/-! ### `lookup`, `dictSet`, `dictUpdate` -/

theorem lookup_mem {β : Type} (k : Nat) (l : List (Nat × β)) (v : β)
    (h : lookup k l = some v) : (k, v) ∈ l := by
  induction l with
  | nil => simp [lookup] at h
  | cons p r ih =>
    obtain ⟨k', v'⟩ := p
    simp only [lookup] at h
    split at h
    · simp_all
    · simp [ih h]

theorem lookup_mem_snd {β : Type} (k : Nat) (l : List (Nat × β)) (v : β)
    (h : lookup k l = some v) : v ∈ l.map (·.2) :=
  List.mem_map.2 ⟨(k, v), lookup_mem k l v h, rfl⟩

theorem lookup_isSome_iff {β : Type} (k : Nat) (l : List (Nat × β)) :
    (lookup k l).isSome = true ↔ k ∈ l.map (·.1) := by
  induction l with
  | nil => simp [lookup]
  | cons p r ih =>
    obtain ⟨k', v'⟩ := p
    simp only [lookup, List.map_cons, List.mem_cons]
    split
    · simp_all
    · rename_i hne
      rw [ih]
      constructor
      · exact Or.inr
      · rintro (h | h)
        · exact absurd h.symm hne
        · exact h

theorem lookup_eq_none_iff {β : Type} (k : Nat) (l : List (Nat × β)) :
    lookup k l = none ↔ k ∉ l.map (·.1) := by
  rw [← lookup_isSome_iff]
  cases lookup k l <;> simp

theorem lookup_dictSet (k k' : Name) (v : Val) (l : List (Name × Val)) :
    lookup k' (dictSet k v l) = if k = k' then some v else lookup k' l := by
  induction l with
  | nil => simp [dictSet, lookup]
  | cons p r ih =>
    obtain ⟨a, b⟩ := p
    simp only [dictSet]
    split
    · rename_i h
      subst h
      simp only [lookup]
      split <;> rfl
    · rename_i h
      simp only [lookup, ih]
      by_cases h1 : a = k'
      · subst h1
        simp [Ne.symm h]
      · simp [h1]

theorem lookup_dictUpdate (k : Name) (base new : List (Name × Val)) :
    lookup k (dictUpdate base new) =
      match lookup k new with
      | some v => some v
      | none => lookup k base := by
  induction new with
  | nil => simp [dictUpdate, lookup]
  | cons p r ih =>
    have : dictUpdate base (p :: r) = dictSet p.1 p.2 (dictUpdate base r) := rfl
    rw [this, lookup_dictSet, ih]
    obtain ⟨a, b⟩ := p
    simp only [lookup]
    split <;> rfl

theorem mem_dictSet {q : Name × Val} {k : Name} {v : Val} {l : List (Name × Val)}
    (h : q ∈ dictSet k v l) : q = (k, v) ∨ q ∈ l := by
  induction l with
  | nil => simpa [dictSet] using h
  | cons p r ih =>
    obtain ⟨a, b⟩ := p
    simp only [dictSet] at h
    split at h
    · rcases List.mem_cons.1 h with h | h
      · exact Or.inl h
      · exact Or.inr (List.mem_cons_of_mem _ h)
    · rcases List.mem_cons.1 h with h | h
      · exact Or.inr (h ▸ List.mem_cons_self)
      · rcases ih h with h | h
        · exact Or.inl h
        · exact Or.inr (List.mem_cons_of_mem _ h)

theorem mem_dictUpdate {q : Name × Val} {base new : List (Name × Val)}
    (h : q ∈ dictUpdate base new) : q ∈ new ∨ q ∈ base := by
  induction new with
  | nil => exact Or.inr h
  | cons p r ih =>
    have e : dictUpdate base (p :: r) = dictSet p.1 p.2 (dictUpdate base r) := rfl
    rw [e] at h
    rcases mem_dictSet h with h | h
    · exact Or.inl (h ▸ List.mem_cons_self)
    · rcases ih h with h | h
      · exact Or.inl (List.mem_cons_of_mem _ h)
      · exact Or.inr h

theorem mem_dictSet_nodup {q : Name × Val} {k : Name} {v : Val} {l : List (Name × Val)}
    (hn : (l.map (·.1)).Nodup) (h : q ∈ dictSet k v l) : q = (k, v) ∨ (q ∈ l ∧ q.1 ≠ k) := by
  induction l with
  | nil => simpa [dictSet] using h
  | cons p r ih =>
    obtain ⟨a, b⟩ := p
    simp only [List.map_cons, List.nodup_cons] at hn
    simp only [dictSet] at h
    split at h
    · rename_i hak
      subst hak
      rcases List.mem_cons.1 h with h | h
      · exact Or.inl h
      · refine Or.inr ⟨List.mem_cons_of_mem _ h, fun hq => hn.1 ?_⟩
        exact hq ▸ List.mem_map.2 ⟨q, h, rfl⟩
    · rename_i hak
      rcases List.mem_cons.1 h with h | h
      · subst h
        exact Or.inr ⟨List.mem_cons_self, hak⟩
      · rcases ih hn.2 h with h | h
        · exact Or.inl h
        · exact Or.inr ⟨List.mem_cons_of_mem _ h.1, h.2⟩

theorem nodup_dictSet {k : Name} {v : Val} {l : List (Name × Val)}
    (hn : (l.map (·.1)).Nodup) : ((dictSet k v l).map (·.1)).Nodup := by
  induction l with
  | nil => simp [dictSet]
  | cons p r ih =>
    obtain ⟨a, b⟩ := p
    simp only [List.map_cons, List.nodup_cons] at hn
    simp only [dictSet]
    split
    · rename_i hak
      subst hak
      simpa using hn
    · rename_i hak
      simp only [List.map_cons, List.nodup_cons]
      refine ⟨fun hmem => ?_, ih hn.2⟩
      obtain ⟨q, hq, hqa⟩ := List.mem_map.1 hmem
      rcases mem_dictSet hq with h | h
      · subst h
        exact hak hqa.symm
      · exact hn.1 (hqa ▸ List.mem_map.2 ⟨q, h, rfl⟩)

theorem nodup_dictUpdate {base new : List (Name × Val)}
    (hn : (base.map (·.1)).Nodup) : ((dictUpdate base new).map (·.1)).Nodup := by
  induction new with
  | nil => exact hn
  | cons p r ih => exact nodup_dictSet ih

/-- With unique keys in `base`, an entry of `base.update(new)` is an entry of `new` or an entry of
`base` whose key `new` does not mention. -/
theorem mem_dictUpdate_nodup {q : Name × Val} {base new : List (Name × Val)}
    (hn : (base.map (·.1)).Nodup) (h : q ∈ dictUpdate base new) :
    q ∈ new ∨ (q ∈ base ∧ q.1 ∉ new.map (·.1)) := by
  induction new with
  | nil => exact Or.inr ⟨h, by simp⟩
  | cons p r ih =>
    have e : dictUpdate base (p :: r) = dictSet p.1 p.2 (dictUpdate base r) := rfl
    rw [e] at h
    rcases mem_dictSet_nodup (nodup_dictUpdate hn) h with h | h
    · exact Or.inl (h ▸ List.mem_cons_self)
    · rcases ih h.1 with h1 | h1
      · exact Or.inl (List.mem_cons_of_mem _ h1)
      · refine Or.inr ⟨h1.1, ?_⟩
        simp only [List.map_cons, List.mem_cons, not_or]
        exact ⟨h.2, h1.2⟩

/-! ### `abs` under heap extension -/

theorem abs_atom (objs : Oid → Option Obj) (m : Nat) (a : Int) : abs objs m (.atom a) = .atom a := by
  cases m <;> rfl

/-- If `objs'` extends `objs` (defined objects are kept) and `objs` has no dangling references,
values living in `objs` denote the same in `objs'`. -/
theorem abs_ext (objs objs' : Oid → Option Obj)
    (hrefs : ∀ x o, objs x = some o → ∀ y, Val.ref y ∈ o.children → (objs y).isSome = true)
    (hext : ∀ x o, objs x = some o → objs' x = some o) :
    ∀ m v, (∀ x, v = .ref x → (objs x).isSome = true) → abs objs' m v = abs objs m v := by
  intro m
  induction m with
  | zero =>
    intro v _
    cases v <;> rfl
  | succ m ih =>
    intro v hv
    cases v with
    | atom a => rfl
    | ref x =>
      have hx := hv x rfl
      obtain ⟨o, ho⟩ := Option.isSome_iff_exists.1 hx
      have ho' := hext x o ho
      have hch : ∀ c ∈ o.children, abs objs' m c = abs objs m c := by
        intro c hc
        apply ih
        intro y hy
        subst hy
        exact hrefs x o ho y hc
      simp only [abs, ho, ho']
      congr 1
      · apply List.map_congr_left
        intro c hc
        exact hch c (List.mem_append_left _ hc)
      · funext k
        cases hl : lookup k o.attrs with
        | none => rfl
        | some w =>
          exact hch w (List.mem_append_right _ (lookup_mem_snd k _ w hl))

/-! ### `Within`: monotone in the depth and in the heap -/

theorem Within_succ (ct : ClassTable) (P : (Oid → Option Obj) → ClassInfo → Obj → Prop)
    (objs : Oid → Option Obj) : ∀ n v, Within ct P objs n v → Within ct P objs (n + 1) v := by
  intro n
  induction n with
  | zero =>
    intro v h
    cases v with
    | atom a => trivial
    | ref x => exact h.elim
  | succ n ih =>
    intro v h
    cases v with
    | atom a => trivial
    | ref x =>
      obtain ⟨o, ci, ho, hci, hp, hch⟩ := h
      exact ⟨o, ci, ho, hci, hp, fun c hc => ih c (hch c hc)⟩

theorem Within_le (ct : ClassTable) (P : (Oid → Option Obj) → ClassInfo → Obj → Prop)
    (objs : Oid → Option Obj) {n m : Nat} (h : n ≤ m) (v : Val) (hv : Within ct P objs n v) :
    Within ct P objs m v := by
  induction h with
  | refl => exact hv
  | step _ ih => exact Within_succ ct P objs _ v ih

theorem Within_atom (ct : ClassTable) (P : (Oid → Option Obj) → ClassInfo → Obj → Prop)
    (objs : Oid → Option Obj) (n : Nat) (a : Int) : Within ct P objs n (.atom a) := by
  cases n <;> trivial

theorem Within_defined (ct : ClassTable) (P : (Oid → Option Obj) → ClassInfo → Obj → Prop)
    (objs : Oid → Option Obj) (n : Nat) (x : Oid) (h : Within ct P objs n (.ref x)) :
    (objs x).isSome = true := by
  cases n with
  | zero => exact h.elim
  | succ n =>
    obtain ⟨o, ci, ho, _⟩ := h
    simp [ho]

theorem ImmLeaf_ext (objs objs' : Oid → Option Obj)
    (hext : ∀ x o, objs x = some o → objs' x = some o) (c : Val) (h : ImmLeaf objs c) :
    ImmLeaf objs' c := by
  cases c with
  | atom a => trivial
  | ref y =>
    obtain ⟨o, ho, hm, hc⟩ := h
    exact ⟨o, hext y o ho, hm, hc⟩

theorem CopyOK_ext (objs objs' : Oid → Option Obj)
    (hext : ∀ x o, objs x = some o → objs' x = some o) (ci : ClassInfo) (o : Obj)
    (h : CopyOK objs ci o) : CopyOK objs' ci o := by
  obtain ⟨h1, h2, h3, h4, h5⟩ := h
  exact ⟨h1, h2, h3, h4, fun hk c hc => ImmLeaf_ext objs objs' hext c (h5 hk c hc)⟩

theorem Within_ext (ct : ClassTable) (objs objs' : Oid → Option Obj)
    (hext : ∀ x o, objs x = some o → objs' x = some o) :
    ∀ n v, Within ct CopyOK objs n v → Within ct CopyOK objs' n v := by
  intro n
  induction n with
  | zero =>
    intro v h
    cases v with
    | atom a => trivial
    | ref x => exact h.elim
  | succ n ih =>
    intro v h
    cases v with
    | atom a => trivial
    | ref x =>
      obtain ⟨o, ci, ho, hci, hp, hch⟩ := h
      exact ⟨o, ci, hext x o ho, hci, CopyOK_ext objs objs' hext ci o hp,
        fun c hc => ih c (hch c hc)⟩

/-! ### `Reach` -/

theorem Reach_atom (objs : Oid → Option Obj) (a : Int) (y : Oid) : ¬ Reach objs (.atom a) y := by
  intro h
  cases h

/-- In a closed heap, and in every heap that agrees with it below `N`, whatever is reachable from
an old reference is old, and reachable already in the closed heap. -/
theorem Reach_old (objs objs' : Oid → Option Obj) (N : Nat) (hcl : Closed objs N)
    (hag : ∀ y, y < N → objs' y = objs y) (v : Val) (y : Oid) (h : Reach objs' v y) :
    (∀ x, v = .ref x → x < N) → y < N ∧ Reach objs v y := by
  induction h with
  | here x => exact fun hx => ⟨hx x rfl, Reach.here x⟩
  | step x o c y ho hc _ ih =>
    intro hx
    have hxN := hx x rfl
    have ho0 : objs x = some o := by rw [← hag x hxN]; exact ho
    have hcN : ∀ z, c = .ref z → z < N := by
      intro z hz
      subst hz
      have hd := hcl.refs x o ho0 z hc
      apply Nat.lt_of_not_le
      intro hle
      rw [hcl.bound z hle] at hd
      simp at hd
    obtain ⟨h1, h2⟩ := ih hcN
    exact ⟨h1, Reach.step x o c y ho0 hc h2⟩

/-- A write to an object that is not reachable from `v` does not change what `v` denotes. -/
theorem abs_write (objs : Oid → Option Obj) (y : Oid) (w : Obj) :
    ∀ m v, ¬ Reach objs v y → abs (write objs y w) m v = abs objs m v := by
  intro m
  induction m with
  | zero =>
    intro v _
    cases v <;> rfl
  | succ m ih =>
    intro v hv
    cases v with
    | atom a => rfl
    | ref x =>
      have hxy : x ≠ y := fun e => hv (e ▸ Reach.here x)
      have hw : write objs y w x = objs x := by simp [write, define, hxy]
      simp only [abs, hw]
      cases ho : objs x with
      | none => rfl
      | some o =>
        have hch : ∀ c ∈ o.children, abs (write objs y w) m c = abs objs m c :=
          fun c hc => ih c (fun hr => hv (Reach.step x o c y ho hc hr))
        simp only
        congr 1
        · apply List.map_congr_left
          intro c hc
          exact hch c (List.mem_append_left _ hc)
        · funext k
          cases hl : lookup k o.attrs with
          | none => rfl
          | some u =>
            exact hch u (List.mem_append_right _ (lookup_mem_snd k _ u hl))

end Heap.Copy
