/-
Helper lemmas for C06: the dominance / crowding-distance tournament `selTournamentDCD`.
-/
import DeapModel.Lemmas.C06
import Mathlib.Data.List.Nodup

set_option linter.unusedSectionVars false
set_option linter.unusedSimpArgs false
set_option linter.unusedVariables false

namespace C06L
open Selection

theorem popSample_some {n : Nat} {t t' : Tape} {p : List Nat} :
    popSample n t = some (p, t') ↔ t = Draw.sample p :: t' ∧ p.Perm (List.range n) := by
  cases t with
  | nil => simp [popSample]
  | cons d t =>
    cases d <;> simp [popSample]
    rename_i q
    rw [List.isPerm_iff]
    constructor
    · rintro ⟨h, rfl, rfl⟩; exact ⟨⟨rfl, rfl⟩, h⟩
    · rintro ⟨⟨rfl, rfl⟩, h⟩; exact ⟨h, rfl, rfl⟩

/-- `tourn(ind1, ind2)` returns one of its two arguments. -/
theorem dcdTourn_mem {pop : Pop} {a b w : Nat} {t t' : Tape} (h : dcdTourn pop a b t = some (w, t')) :
    w = a ∨ w = b := by
  unfold dcdTourn at h
  split at h
  · simp at h; exact Or.inl h.1.symm
  · split at h
    · simp at h; exact Or.inr h.1.symm
    · split at h
      · simp at h; exact Or.inr h.1.symm
      · split at h
        · simp at h; exact Or.inl h.1.symm
        · cases hr : popRandom t with
          | none => simp [hr] at h
          | some p =>
            simp only [hr, Option.some.injEq, Prod.mk.injEq] at h
            rw [← h.1]
            split <;> simp

theorem ite_count_le {w a b x : Nat} (h : w = a ∨ w = b) :
    (if (w == x) = true then 1 else 0) ≤ (if (a == x) = true then 1 else 0) + (if (b == x) = true then 1 else 0) := by
  rcases h with rfl | rfl <;> split <;> simp

/-- The loop returns `4·m` individuals, each taken from one of the two shuffled lists, and no
individual more often than it occurs in the two lists together. -/
theorem dcdLoop_spec {pop : Pop} {m : Nat} {l1 l2 res : List Nat} {t t' : Tape}
    (h : dcdLoop pop m l1 l2 t = some (res, t')) :
    res.length = 4 * m ∧ (∀ x, res.count x ≤ l1.count x + l2.count x) ∧ (∀ x ∈ res, x ∈ l1 ∨ x ∈ l2) := by
  induction m generalizing l1 l2 res t with
  | zero =>
    simp only [dcdLoop, Option.some.injEq, Prod.mk.injEq] at h
    obtain ⟨rfl, rfl⟩ := h
    simp
  | succ m ih =>
    match l1, l2, h with
    | a :: b :: c :: d :: r1, e :: f :: g :: hh :: r2, h =>
      simp only [dcdLoop] at h
      cases h1 : dcdTourn pop a b t with
      | none => simp [h1] at h
      | some p1 =>
        obtain ⟨w1, t1⟩ := p1
        simp only [h1] at h
        cases h2 : dcdTourn pop c d t1 with
        | none => simp [h2] at h
        | some p2 =>
          obtain ⟨w2, t2⟩ := p2
          simp only [h2] at h
          cases h3 : dcdTourn pop e f t2 with
          | none => simp [h3] at h
          | some p3 =>
            obtain ⟨w3, t3⟩ := p3
            simp only [h3] at h
            cases h4 : dcdTourn pop g hh t3 with
            | none => simp [h4] at h
            | some p4 =>
              obtain ⟨w4, t4⟩ := p4
              simp only [h4] at h
              cases h5 : dcdLoop pop m r1 r2 t4 with
              | none => simp [h5] at h
              | some p5 =>
                obtain ⟨l, t5⟩ := p5
                simp only [h5, Option.some.injEq, Prod.mk.injEq] at h
                obtain ⟨rfl, rfl⟩ := h
                obtain ⟨ihl, ihc, ihm⟩ := ih h5
                have m1 := dcdTourn_mem h1
                have m2 := dcdTourn_mem h2
                have m3 := dcdTourn_mem h3
                have m4 := dcdTourn_mem h4
                refine ⟨by simp [ihl]; omega, ?_, ?_⟩
                · intro x
                  have c1 := ite_count_le (x := x) m1
                  have c2 := ite_count_le (x := x) m2
                  have c3 := ite_count_le (x := x) m3
                  have c4 := ite_count_le (x := x) m4
                  have := ihc x
                  simp only [List.count_cons]
                  omega
                · intro x hx
                  simp only [List.mem_cons] at hx ⊢
                  rcases hx with rfl | rfl | rfl | rfl | hx
                  · rcases m1 with rfl | rfl <;> simp
                  · rcases m2 with rfl | rfl <;> simp
                  · rcases m3 with rfl | rfl <;> simp
                  · rcases m4 with rfl | rfl <;> simp
                  · rcases ihm x hx with h' | h' <;> simp [h']
    | [], _, h => simp [dcdLoop] at h
    | [_], _, h => simp [dcdLoop] at h
    | [_, _], _, h => simp [dcdLoop] at h
    | [_, _, _], _, h => simp [dcdLoop] at h
    | _ :: _ :: _ :: _ :: _, [], h => simp [dcdLoop] at h
    | _ :: _ :: _ :: _ :: _, [_], h => simp [dcdLoop] at h
    | _ :: _ :: _ :: _ :: _, [_, _], h => simp [dcdLoop] at h
    | _ :: _ :: _ :: _ :: _, [_, _, _], h => simp [dcdLoop] at h

/-- With a supply of valid coins a single tournament always returns, using at most one coin. -/
theorem dcdTourn_total (pop : Pop) (a b : Nat) (coins : List Rat) (t : Tape) (hne : coins ≠ [])
    (hv : ∀ r ∈ coins, 0 ≤ r ∧ r < 1) :
    ∃ (w : Nat) (coins' : List Rat),
      dcdTourn pop a b (coins.map Draw.random ++ t) = some (w, coins'.map Draw.random ++ t) ∧
      coins.length ≤ coins'.length + 1 ∧ ∀ r ∈ coins', r ∈ coins := by
  unfold dcdTourn
  split
  · exact ⟨a, coins, rfl, by omega, fun r h => h⟩
  · split
    · exact ⟨b, coins, rfl, by omega, fun r h => h⟩
    · split
      · exact ⟨b, coins, rfl, by omega, fun r h => h⟩
      · split
        · exact ⟨a, coins, rfl, by omega, fun r h => h⟩
        · cases coins with
          | nil => exact absurd rfl hne
          | cons r rest =>
            have hr := hv r (by simp)
            simp only [List.map_cons, List.cons_append, popRandom, hr.1, hr.2, and_self, ↓reduceIte]
            exact ⟨_, rest, rfl, by simp, fun q hq => by simp [hq]⟩

theorem dcdLoop_total (pop : Pop) (m : Nat) (l1 l2 : List Nat) (coins : List Rat) (t : Tape)
    (h1 : 4 * m ≤ l1.length) (h2 : 4 * m ≤ l2.length) (hc : 4 * m ≤ coins.length)
    (hv : ∀ r ∈ coins, 0 ≤ r ∧ r < 1) :
    ∃ (res : List Nat) (coins' : List Rat),
      dcdLoop pop m l1 l2 (coins.map Draw.random ++ t) = some (res, coins'.map Draw.random ++ t) := by
  induction m generalizing l1 l2 coins with
  | zero => exact ⟨[], coins, rfl⟩
  | succ m ih =>
    match l1, l2, h1, h2 with
    | a :: b :: c :: d :: r1, e :: f :: g :: hh :: r2, h1, h2 =>
      simp only [dcdLoop]
      have hne : ∀ (cs : List Rat), 4 * m + 1 ≤ cs.length → cs ≠ [] := by
        intro cs h hnil; rw [hnil] at h; simp at h
      obtain ⟨w1, c1, e1, n1, v1⟩ := dcdTourn_total pop a b coins t (hne _ (by omega)) hv
      have hv1 : ∀ r ∈ c1, 0 ≤ r ∧ r < 1 := fun r hr => hv r (v1 r hr)
      obtain ⟨w2, c2, e2, n2, v2⟩ := dcdTourn_total pop c d c1 t (hne _ (by omega)) hv1
      have hv2 : ∀ r ∈ c2, 0 ≤ r ∧ r < 1 := fun r hr => hv1 r (v2 r hr)
      obtain ⟨w3, c3, e3, n3, v3⟩ := dcdTourn_total pop e f c2 t (hne _ (by omega)) hv2
      have hv3 : ∀ r ∈ c3, 0 ≤ r ∧ r < 1 := fun r hr => hv2 r (v3 r hr)
      obtain ⟨w4, c4, e4, n4, v4⟩ := dcdTourn_total pop g hh c3 t (hne _ (by omega)) hv3
      have hv4 : ∀ r ∈ c4, 0 ≤ r ∧ r < 1 := fun r hr => hv3 r (v4 r hr)
      obtain ⟨res, c5, e5⟩ := ih r1 r2 c4 (by simp at h1; omega) (by simp at h2; omega) (by omega) hv4
      simp only [e1, e2, e3, e4, e5]
      exact ⟨_, c5, rfl⟩
    | [], _, h1, _ => simp at h1
    | [_], _, h1, _ => simp at h1; omega
    | [_, _], _, h1, _ => simp at h1; omega
    | [_, _, _], _, h1, _ => simp at h1; omega
    | _ :: _ :: _ :: _ :: _, [], _, h2 => simp at h2
    | _ :: _ :: _ :: _ :: _, [_], _, h2 => simp at h2; omega
    | _ :: _ :: _ :: _ :: _, [_, _], _, h2 => simp at h2; omega
    | _ :: _ :: _ :: _ :: _, [_, _, _], _, h2 => simp at h2; omega

theorem selTournamentDCD_some {pop : Pop} {k : Nat} {t t' : Tape} {res : List Nat}
    (h : selTournamentDCD pop k t = some (res, t')) :
    k ≤ pop.length ∧ ∃ p1 p2 t2, t = Draw.sample p1 :: Draw.sample p2 :: t2 ∧
      p1.Perm (List.range pop.length) ∧ p2.Perm (List.range pop.length) ∧
      dcdLoop pop ((k + 3) / 4) p1 p2 t2 = some (res, t') := by
  unfold selTournamentDCD at h
  simp only at h
  split at h
  · simp at h
  · next hk =>
    split at h
    · simp at h
    · cases h1 : popSample pop.length t with
      | none => simp [h1] at h
      | some q1 =>
        obtain ⟨p1, t1⟩ := q1
        simp only [h1] at h
        cases h2 : popSample pop.length t1 with
        | none => simp [h2] at h
        | some q2 =>
          obtain ⟨p2, t2⟩ := q2
          simp only [h2] at h
          obtain ⟨rfl, hp1⟩ := popSample_some.1 h1
          obtain ⟨rfl, hp2⟩ := popSample_some.1 h2
          exact ⟨by omega, p1, p2, t2, rfl, hp1, hp2, h⟩

end C06L
