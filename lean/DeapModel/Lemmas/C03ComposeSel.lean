/-
C03 composed with C06: the loops run with the library's selection operators (`Core/Selection.lean`) reading
the fitnesses of the loop's heap.  The composed steps meet the `StepContract` of the generic C03 theorems
(a selector returns references to members of the list it is given: C06 `refs_*`), sizes follow from C06
`length_*`, and μ+λ with `selBest` never loses its best individual (C06 `best_sorted`).
-/
import DeapModel.Lemmas.C03
import DeapModel.Props.C06
import DeapModel.Core.LoopsCompose

set_option linter.unusedSectionVars false
set_option linter.unusedSimpArgs false
set_option linter.unusedVariables false

namespace LoopsC
open Variation Loops

/-! ### Int-valued keys of the loop model vs Rat-valued keys of the selection model -/

theorem map_cast_lt_iff : ∀ (a b : List Int),
    a.map (fun x : Int => (x : Rat)) < b.map (fun x : Int => (x : Rat)) ↔ a < b
  | [], [] => by simp
  | [], _ :: _ => by simp
  | _ :: _, [] => by simp
  | x :: xs, y :: ys => by
    simp only [List.map_cons, List.cons_lt_cons_iff, Int.cast_lt, Int.cast_inj, map_cast_lt_iff xs ys]

theorem ratKey_le_iff (h : Heap) (p q : Nat) : ratKey h p ≤ ratKey h q ↔ keyLe (fitKey h p) (fitKey h q) := by
  rw [← not_lt]
  show ¬ (ratKey h q < ratKey h p) ↔ ¬ (fitKey h q < fitKey h p)
  rw [ratKey, ratKey, map_cast_lt_iff]

theorem toPop_length (h : Heap) (l : List Nat) : (toPop h l).length = l.length := by simp [toPop]

theorem wvAt_toPop (h : Heap) (l : List Nat) (i : Nat) (hi : i < l.length) :
    Selection.wvAt (toPop h l) i = ratKey h l[i] := by
  simp [Selection.wvAt, toPop, hi]

/-! ### a selector returns references to members of its input -/

theorem pickAll_total (l : List Nat) : ∀ (idx : List Nat), (∀ i ∈ idx, i < l.length) → ∃ r, pickAll l idx = some r
  | [], _ => ⟨[], rfl⟩
  | i :: is, h => by
    obtain ⟨r, hr⟩ := pickAll_total l is (fun j hj => h j (by simp [hj]))
    have hi : i < l.length := h i (by simp)
    exact ⟨l[i] :: r, by simp [pickAll, hr, hi]⟩

theorem pickAll_getElem (l : List Nat) : ∀ (idx r : List Nat), pickAll l idx = some r →
    ∀ o ∈ r, ∃ i ∈ idx, l[i]? = some o
  | [], r, h => by simp [pickAll] at h; subst h; simp
  | i :: is, r, h => by
    simp only [pickAll] at h
    split at h
    next x xs hx hxs =>
      simp only [Option.some.injEq] at h
      subst h
      intro o ho
      rcases List.mem_cons.1 ho with e | e
      · subst e; exact ⟨i, by simp, hx⟩
      · obtain ⟨j, hj, hjo⟩ := pickAll_getElem l is xs hxs o e
        exact ⟨j, by simp [hj], hjo⟩
    · simp at h

theorem pickAll_mem_of_idx (l : List Nat) : ∀ (idx r : List Nat), pickAll l idx = some r →
    ∀ i ∈ idx, ∃ o ∈ r, l[i]? = some o
  | [], r, h => by simp
  | i :: is, r, h => by
    simp only [pickAll] at h
    split at h
    next x xs hx hxs =>
      simp only [Option.some.injEq] at h
      subst h
      intro j hj
      rcases List.mem_cons.1 hj with e | e
      · subst e; exact ⟨x, by simp, hx⟩
      · obtain ⟨o, ho, hjo⟩ := pickAll_mem_of_idx l is xs hxs j e
        exact ⟨o, by simp [ho], hjo⟩
    · simp at h

theorem select_unfold {sel : Sel} {h : Heap} {l : List Nat} {k : Nat} {r : List Nat}
    (hs : select sel h l k = some r) : ∃ idx, sel.positions h l k = some idx ∧ pickAll l idx = some r := by
  simp only [select] at hs
  split at hs
  · simp at hs
  next idx hidx => exact ⟨idx, hidx, hs⟩

theorem select_mem {sel : Sel} {h : Heap} {l : List Nat} {k : Nat} {r : List Nat}
    (hs : select sel h l k = some r) : ∀ o ∈ r, o ∈ l := by
  obtain ⟨idx, _, hp⟩ := select_unfold hs
  exact (pickAll_spec l idx r hp).2

theorem usedUp_some {x : Option (List Nat × Selection.Tape)} {idx : List Nat} (h : usedUp x = some idx) :
    x = some (idx, []) := by
  unfold usedUp at h
  split at h
  · simp only [Option.some.injEq] at h; subst h; rfl
  · simp at h

/-- C06 `length_*`: the number of selected individuals -/
theorem positions_length {sel : Sel} {h : Heap} {l : List Nat} {k : Nat} {idx : List Nat}
    (hs : sel.positions h l k = some idx) :
    idx.length = match sel with
      | .best => min k l.length
      | .worst => min k l.length
      | _ => k := by
  cases sel with
  | best =>
    simp only [Sel.positions, Option.some.injEq] at hs
    subst hs
    rw [C06.length_best, toPop_length]
  | worst =>
    simp only [Sel.positions, Option.some.injEq] at hs
    subst hs
    rw [C06.length_worst, toPop_length]
  | random ds => exact C06.length_random _ _ _ _ _ (usedUp_some hs)
  | tournament ts ds => exact C06.length_tournament _ _ _ _ _ _ (usedUp_some hs)
  | given idx0 =>
    simp only [Sel.positions] at hs
    split at hs
    next hc => simp only [Option.some.injEq] at hs; subst hs; exact hc.1
    · simp at hs

/-- C06 `refs_*`: every selected position is a position of the candidate list -/
theorem positions_lt {sel : Sel} {h : Heap} {l : List Nat} {k : Nat} {idx : List Nat}
    (hs : sel.positions h l k = some idx) : ∀ i ∈ idx, i < l.length := by
  cases sel with
  | best =>
    simp only [Sel.positions, Option.some.injEq] at hs
    subst hs
    intro i hi
    have := C06.refs_best _ _ i hi
    rwa [toPop_length] at this
  | worst =>
    simp only [Sel.positions, Option.some.injEq] at hs
    subst hs
    intro i hi
    have := C06.refs_worst _ _ i hi
    rwa [toPop_length] at this
  | random ds => exact C06.refs_random _ _ _ _ _ (usedUp_some hs)
  | tournament ts ds =>
    intro i hi
    have := C06.refs_tournament _ _ _ _ _ _ (usedUp_some hs) i hi
    rwa [toPop_length] at this
  | given idx0 =>
    simp only [Sel.positions] at hs
    split at hs
    next hc =>
      simp only [Option.some.injEq] at hs
      subst hs
      intro i hi
      have := List.all_eq_true.1 hc.2 i hi
      simpa using this
    · simp at hs

/-- a selector that answers never makes the loop fail: its positions are valid -/
theorem select_total {sel : Sel} {h : Heap} {l : List Nat} {k : Nat} {idx : List Nat}
    (hs : sel.positions h l k = some idx) : ∃ r, select sel h l k = some r ∧ r.length = idx.length := by
  obtain ⟨r, hr⟩ := pickAll_total l idx (positions_lt hs)
  exact ⟨r, by simp [select, hs, hr], (pickAll_spec l idx r hr).1⟩

theorem select_length {sel : Sel} {h : Heap} {l : List Nat} {k : Nat} {r : List Nat}
    (hs : select sel h l k = some r) (hk : k ≤ l.length) : r.length = k := by
  obtain ⟨idx, hidx, hp⟩ := select_unfold hs
  rw [(pickAll_spec l idx r hp).1, positions_length hidx]
  cases sel <;> simp <;> omega

/-! ### the composed steps meet the contract of the generic theorems -/

theorem simpleSel_produce {σ : Type} {ops : Ops σ} {d : SimpleSelDec} {t : σ} {st : St} {pop : List Nat}
    {r : Res σ} (h : (simpleSelStep ops d).produce t st pop = some r) :
    ∃ chosen, select d.sel st.heap pop pop.length = some chosen ∧
      varAnd ops t st chosen d.mateD d.mutD = some r := by
  simp only [simpleSelStep] at h
  split at h
  · simp at h
  next chosen hch => exact ⟨chosen, hch, h⟩

theorem simpleSelStep_contract {σ : Type} {ops : Ops σ} (hc : OpContract ops) (d : SimpleSelDec) :
    StepContract (simpleSelStep ops d) where
  next_le := by
    intro t st pop r _ h
    obtain ⟨chosen, _, hv⟩ := simpleSel_produce h
    exact C02.varAnd_next_le hc hv
  off_alloc := by
    intro t st pop r _ h o ho
    obtain ⟨chosen, _, hv⟩ := simpleSel_produce h
    exact (C02.varAnd_fresh hc hv o ho).2
  frame := by
    intro _ t st pop r _ h
    obtain ⟨chosen, _, hv⟩ := simpleSel_produce h
    exact C02.varAnd_parents_unchanged hc hv
  fresh := by
    intro _ t st pop r _ h
    obtain ⟨chosen, _, hv⟩ := simpleSel_produce h
    exact C02.varAnd_fresh hc hv
  nodup := by
    intro t st pop r _ h
    obtain ⟨chosen, _, hv⟩ := simpleSel_produce h
    exact C02.varAnd_distinct hc hv
  copy_or_invalid := by
    intro _ t st pop r hpop h o ho
    obtain ⟨chosen, hch, hv⟩ := simpleSel_produce h
    have hsub := select_mem hch
    have hchosen : ∀ p ∈ chosen, p < st.next := fun p hp => hpop p (hsub p hp)
    obtain ⟨k, hk, hko⟩ := List.mem_iff_getElem.1 ho
    have hko' : r.off[k]? = some o := by rw [List.getElem?_eq_getElem hk, hko]
    cases hf : (r.st.heap o).fit with
    | none => exact Or.inl rfl
    | some f =>
      obtain ⟨p, hp, hcopy, _⟩ := C02.varAnd_valid_is_parent_copy hc hchosen hv k o f hko' hf
      exact Or.inr ⟨p, hsub p (List.mem_of_getElem? hp), hcopy⟩
  replace_mem := by
    intro h pop off np hr o ho
    simp only [simpleSelStep, Option.some.injEq] at hr
    subst hr
    exact Or.inr ho
  replace_off := by intro hall; simp [simpleSelStep] at hall

theorem simpleSelStep_size {σ : Type} {ops : Ops σ} (hc : OpContract ops) (d : SimpleSelDec) :
    SizeIs (simpleSelStep ops d) id := by
  intro t st pop r h np _ hp hr
  obtain ⟨chosen, hch, hv⟩ := simpleSel_produce hp
  simp only [simpleSelStep, Option.some.injEq] at hr
  subst hr
  rw [C02.varAnd_count hc hv, select_length hch (Nat.le_refl _)]
  rfl

theorem plusSelStep_contract {σ : Type} {ops : Ops σ} (hc : OpContract ops) (mu lam : Nat) (d : MuLamSelDec) :
    StepContract (plusSelStep ops mu lam d) where
  next_le := fun _ _ _ _ hpop h => (varOr_contract_facts hc hpop h).1
  off_alloc := fun _ _ _ _ hpop h o ho => ((varOr_contract_facts hc hpop h).2.2.1 o ho).2
  frame := fun _ _ _ _ _ hpop h => (varOr_contract_facts hc hpop h).2.1
  fresh := fun _ _ _ _ _ hpop h => (varOr_contract_facts hc hpop h).2.2.1
  nodup := fun _ _ _ _ hpop h => (varOr_contract_facts hc hpop h).2.2.2.1
  copy_or_invalid := fun _ _ _ _ _ hpop h => (varOr_contract_facts hc hpop h).2.2.2.2
  replace_mem := by
    intro h pop off np hr o ho
    exact List.mem_append.1 (select_mem (sel := d.sel) hr o ho)
  replace_off := by intro hall; simp [plusSelStep] at hall

theorem commaSelStep_contract {σ : Type} {ops : Ops σ} (hc : OpContract ops) (mu lam : Nat) (d : MuLamSelDec) :
    StepContract (commaSelStep ops mu lam d) where
  next_le := fun _ _ _ _ hpop h => (varOr_contract_facts hc hpop h).1
  off_alloc := fun _ _ _ _ hpop h o ho => ((varOr_contract_facts hc hpop h).2.2.1 o ho).2
  frame := fun _ _ _ _ _ hpop h => (varOr_contract_facts hc hpop h).2.1
  fresh := fun _ _ _ _ _ hpop h => (varOr_contract_facts hc hpop h).2.2.1
  nodup := fun _ _ _ _ hpop h => (varOr_contract_facts hc hpop h).2.2.2.1
  copy_or_invalid := fun _ _ _ _ _ hpop h => (varOr_contract_facts hc hpop h).2.2.2.2
  replace_mem := by
    intro h pop off np hr o ho
    exact Or.inr (select_mem (sel := d.sel) hr o ho)
  replace_off := by intro hall; simp [commaSelStep] at hall

/-- μ+λ, μ ≤ λ: `select(population + offspring, mu)` finds μ individuals -/
theorem plusSelStep_size {σ : Type} {ops : Ops σ} (hc : OpContract ops) (mu lam : Nat) (hle : mu ≤ lam)
    (d : MuLamSelDec) : SizeIs (plusSelStep ops mu lam d) (fun _ => mu) := by
  intro t st pop r h np hpop hp hr
  have hcount : r.off.length = lam := C02.varOr_count hc hpop hp
  show np.length = mu
  exact select_length (sel := d.sel) hr (by rw [List.length_append, hcount]; omega)

/-- μ,λ, μ ≤ λ: `select(offspring, mu)` finds μ individuals -/
theorem commaSelStep_size {σ : Type} {ops : Ops σ} (hc : OpContract ops) (mu lam : Nat) (hle : mu ≤ lam)
    (d : MuLamSelDec) : SizeIs (commaSelStep ops mu lam d) (fun _ => mu) := by
  intro t st pop r h np hpop hp hr
  have hcount : r.off.length = lam := C02.varOr_count hc hpop hp
  show np.length = mu
  exact select_length (sel := d.sel) hr (by rw [hcount]; exact hle)

/-! ### truncation selection (C06 `selBest`) keeps a best individual -/

theorem selectBest_keeps_best (h : Heap) (l : List Nat) (k : Nat) (hk : 0 < k) (r : List Nat)
    (hs : select .best h l k = some r) (p : Nat) (hp : p ∈ l) :
    ∃ q ∈ r, keyLe (fitKey h p) (fitKey h q) := by
  obtain ⟨idx, hidx, hpick⟩ := select_unfold hs
  simp only [Sel.positions, Option.some.injEq] at hidx
  obtain ⟨i, hi, hip⟩ := List.mem_iff_getElem.1 hp
  have hsorted := (C06.best_sorted (toPop h l) k).2.2
  have hlen : idx.length = min k l.length := by rw [← hidx, C06.length_best, toPop_length]
  by_cases hin : i ∈ idx
  · obtain ⟨o, ho, hio⟩ := pickAll_mem_of_idx l idx r hpick i hin
    rw [List.getElem?_eq_getElem hi, hip, Option.some.injEq] at hio
    subst hio
    exact ⟨p, ho, List.le_refl _⟩
  · -- some position is selected (k ≥ 1, the candidate list is not empty), and it is not worse than `i`
    have hne : idx ≠ [] := by
      intro e; rw [e] at hlen; simp at hlen; omega
    obtain ⟨j, hj⟩ := List.exists_mem_of_ne_nil idx hne
    have hjlt : j < l.length := positions_lt (sel := .best) (h := h) (k := k) (by simp [Sel.positions, hidx]) j hj
    have hfl := hsorted i (by rw [toPop_length]; exact hi) (by rw [hidx]; exact hin) j (by rw [hidx]; exact hj)
    rw [C06L.fitLt_false_iff, wvAt_toPop h l i hi, wvAt_toPop h l j hjlt, ratKey_le_iff] at hfl
    obtain ⟨o, ho, hjo⟩ := pickAll_mem_of_idx l idx r hpick j hj
    rw [List.getElem?_eq_getElem hjlt, Option.some.injEq] at hjo
    refine ⟨o, ho, ?_⟩
    rw [← hjo, ← hip]
    exact hfl

/-- eaMuPlusLambda with `toolbox.select = tools.selBest` (the C06 model), one generation -/
theorem plusSelBest_generation_monotone {σ : Type} {ops : Ops σ} (hc : OpContract ops)
    {ev : List Int → List Int} {mu lam : Nat} (hmu : 0 < mu) {choices : List Choice} {g : Nat} {t t' : σ}
    {s s' : LState} (hinv : Inv ev g s)
    (h : generation ev (plusSelStep ops mu lam ⟨choices, .best⟩) g t s = some (t', s')) :
    ∀ p ∈ s.pop, ∃ q ∈ s'.pop, keyLe (fitKey s.st.heap p) (fitKey s'.st.heap q) := by
  have hsc := plusSelStep_contract hc mu lam ⟨choices, .best⟩
  obtain ⟨r, np, hr, hnp, _, hpop, hheap, _⟩ := generation_unfold h
  intro p hp
  have hfresh := hsc.fresh rfl t s.st s.pop r hinv.alloc hr
  have hfr := hsc.frame rfl t s.st s.pop r hinv.alloc hr
  obtain ⟨q, hq, hle⟩ := selectBest_keeps_best _ (s.pop ++ r.off) mu hmu np hnp p (List.mem_append_left _ hp)
  refine ⟨q, by rw [hpop]; exact hq, ?_⟩
  rw [hheap]
  have hnot : p ∉ evalSet (plusSelStep ops mu lam ⟨choices, .best⟩) r := by
    intro hin
    have := (hfresh p (evalSet_sub _ r p hin)).1
    have := hinv.alloc p hp
    omega
  have hkey : fitKey (assignFits ev r.st.heap (evalSet (plusSelStep ops mu lam ⟨choices, .best⟩) r)) p =
      fitKey s.st.heap p := by
    simp only [fitKey]
    rw [assignFits_not_mem _ _ _ _ hnot, hfr p (hinv.alloc p hp)]
  rw [← hkey]
  exact hle

theorem plusSelBest_run_monotone {σ : Type} {ops : Ops σ} (hc : OpContract ops) {ev : List Int → List Int}
    {mu lam : Nat} (hmu : 0 < mu) :
    ∀ (decs : List (List Choice)) (g : Nat) (t t' : σ) (s s' : LState), Inv ev g s →
      runGens ev (decs.map (fun ch => plusSelStep ops mu lam ⟨ch, .best⟩)) g t s = some (t', s') →
      ∀ p ∈ s.pop, ∃ q ∈ s'.pop, keyLe (fitKey s.st.heap p) (fitKey s'.st.heap q)
  | [], g, t, t', s, s', _, h => by
    simp only [List.map_nil, runGens, Option.some.injEq, Prod.mk.injEq] at h
    obtain ⟨_, rfl⟩ := h
    exact fun p hp => ⟨p, hp, List.le_refl _⟩
  | d :: rest, g, t, t', s, s', hinv, h => by
    simp only [List.map_cons, runGens] at h
    split at h
    · simp at h
    next t1 s1 hgen =>
      have h1 := generation_inv (plusSelStep_contract hc mu lam ⟨d, .best⟩) hinv hgen
      intro p hp
      obtain ⟨q1, hq1, hle1⟩ := plusSelBest_generation_monotone hc hmu hinv hgen p hp
      obtain ⟨q, hq, hle⟩ := plusSelBest_run_monotone hc hmu rest (g + 1) t1 t' s1 s' h1 h q1 hq1
      exact ⟨q, hq, List.le_trans hle1 hle⟩


/-! ### evaluating `sorted` inside proofs

`List.mergeSort` is defined by well-founded recursion, which the kernel does not unfold; the stable insertion
sort below is structural, and equal to it (core's `List.mergeSort_cons`: merge sort inserts the head after the
elements strictly before it).  Used only to evaluate the concrete `example`s of `Props/C03.lean`. -/

def insStable {α : Type} (le : α → α → Bool) (a : α) : List α → List α
  | [] => [a]
  | b :: s => if le a b then a :: b :: s else b :: insStable le a s

def isort {α : Type} (le : α → α → Bool) : List α → List α
  | [] => []
  | a :: l => insStable le a (isort le l)

theorem insStable_append {α : Type} (le : α → α → Bool) (a : α) (l₁ l₂ : List α)
    (h : ∀ b ∈ l₁, (!le a b) = true) : insStable le a (l₁ ++ l₂) = l₁ ++ insStable le a l₂ := by
  induction l₁ with
  | nil => rfl
  | cons b s ih =>
    have hb : le a b = false := by simpa using h b (by simp)
    simp only [List.cons_append, insStable, hb, Bool.false_eq_true, ↓reduceIte]
    rw [ih (fun c hc => h c (by simp [hc]))]

theorem insStable_head {α : Type} (le : α → α → Bool) (a : α) (l : List α) (h : ∀ b ∈ l, le a b = true) :
    insStable le a l = a :: l := by
  cases l with
  | nil => rfl
  | cons b s => simp [insStable, h b (by simp)]

theorem mergeSort_eq_isort {α : Type} {le : α → α → Bool}
    (trans : ∀ a b c, le a b = true → le b c = true → le a c = true)
    (total : ∀ a b, (le a b || le b a) = true) (l : List α) : l.mergeSort le = isort le l := by
  induction l with
  | nil => simp [isort]
  | cons a l ih =>
    obtain ⟨l₁, l₂, h1, h2, h3⟩ := List.mergeSort_cons trans total a l
    have hsorted := List.pairwise_mergeSort trans total (a :: l)
    rw [h1] at hsorted
    have hl₂ : ∀ b ∈ l₂, le a b = true := by
      have := (List.pairwise_append.1 hsorted).2.1
      exact (List.pairwise_cons.1 this).1
    rw [h1, isort, ← ih, h2, insStable_append le a l₁ l₂ h3, insStable_head le a l₂ hl₂]

/-- `tools.selBest` on the loop's heap, with the structural sort -/
theorem select_best_eq (h : Heap) (l : List Nat) (k : Nat) :
    select .best h l k =
      pickAll l ((isort (fun a b => !Selection.fitLt (toPop h l) a b) (List.range l.length)).take k) := by
  simp only [select, Sel.positions, Selection.selBest, Selection.sortedDesc, toPop_length]
  rw [mergeSort_eq_isort]
  · intro a b c h1 h2
    simp only [Bool.not_eq_true', C06L.fitLt_false_iff] at *
    exact le_trans h2 h1
  · intro a b
    simp only [Bool.or_eq_true, Bool.not_eq_true', C06L.fitLt_false_iff]
    exact le_total _ _

/-- the steps with `selBest`, in a form the kernel can evaluate -/
def plusBestEval {σ : Type} (ops : Ops σ) (mu lam : Nat) (choices : List Choice) : Step σ where
  produce := fun t st pop => varOr ops t st pop lam choices
  replace := fun h pop off => pickAll (pop ++ off)
    ((isort (fun a b => !Selection.fitLt (toPop h (pop ++ off)) a b) (List.range (pop ++ off).length)).take mu)

def commaBestEval {σ : Type} (ops : Ops σ) (mu lam : Nat) (choices : List Choice) : Step σ where
  produce := fun t st pop => varOr ops t st pop lam choices
  replace := fun h _ off => pickAll off
    ((isort (fun a b => !Selection.fitLt (toPop h off) a b) (List.range off.length)).take mu)

theorem plusSelStep_best_eval {σ : Type} (ops : Ops σ) (mu lam : Nat) (choices : List Choice) :
    plusSelStep ops mu lam ⟨choices, .best⟩ = plusBestEval ops mu lam choices := by
  simp only [plusSelStep, plusBestEval, select_best_eq]

theorem commaSelStep_best_eval {σ : Type} (ops : Ops σ) (mu lam : Nat) (choices : List Choice) :
    commaSelStep ops mu lam ⟨choices, .best⟩ = commaBestEval ops mu lam choices := by
  simp only [commaSelStep, commaBestEval, select_best_eq]

theorem inPlace_fst {σ : Type} (steps : List (Step σ)) : (inPlace steps).map (·.1) = steps := by
  simp [inPlace, Function.comp_def]


/-! ### the truncation selection of `Core/Loops.lean` is the C06 model of `tools.selBest` -/

theorem pickAll_eq_map (l : List Nat) : ∀ (idx : List Nat), (∀ i ∈ idx, i < l.length) →
    pickAll l idx = some (idx.map (fun i => l.getD i 0))
  | [], _ => rfl
  | i :: is, h => by
    have hi : i < l.length := h i (by simp)
    simp [pickAll, pickAll_eq_map l is (fun j hj => h j (by simp [hj])), hi, List.getD]

theorem map_getD_range (l : List Nat) : (List.range l.length).map (fun i => l.getD i 0) = l := by
  apply List.ext_getElem
  · simp
  · intro i h1 h2
    simp at h1
    simp [List.getD, h1]

/-- `Loops.selBest` (a stable descending sort of the candidates themselves on core's lexicographic order of the
`Int` keys) and `Selection.selBest` (a stable descending sort of the candidate POSITIONS on `Fitness.lt` of the
`Rat` keys) select the same individuals in the same order. -/
theorem select_best_eq_selBest (h : Heap) (l : List Nat) (k : Nat) :
    select .best h l k = some (Loops.selBest h l k) := by
  have hidx : Sel.positions .best h l k = some (Selection.selBest (toPop h l) k) := rfl
  have hlt := positions_lt hidx
  simp only [select, hidx]
  rw [pickAll_eq_map l _ hlt]
  congr 1
  simp only [Selection.selBest, Selection.sortedDesc, Loops.selBest, toPop_length, List.map_take]
  congr 1
  have key : ∀ a ∈ List.range l.length, ∀ b ∈ List.range l.length,
      (!Selection.fitLt (toPop h l) a b) =
        decide (@LE.le (List Int) List.instLE (fitKey h (l.getD b 0)) (fitKey h (l.getD a 0))) := by
    intro a ha b hb
    simp only [List.mem_range] at ha hb
    have ha' : l.getD a 0 = l[a] := by simp [List.getD, ha]
    have hb' : l.getD b 0 = l[b] := by simp [List.getD, hb]
    rw [ha', hb']
    cases hf : Selection.fitLt (toPop h l) a b with
    | false =>
      rw [C06L.fitLt_false_iff, wvAt_toPop h l a ha, wvAt_toPop h l b hb, ratKey_le_iff] at hf
      simp only [Bool.not_false]
      have hf' : @LE.le (List Int) List.instLE (fitKey h l[b]) (fitKey h l[a]) := hf
      exact (decide_eq_true hf').symm
    | true =>
      rw [C06L.fitLt_iff, wvAt_toPop h l a ha, wvAt_toPop h l b hb, ratKey, ratKey, map_cast_lt_iff] at hf
      simp only [Bool.not_true]
      exact (decide_eq_false
        (fun hle : @LE.le (List Int) List.instLE (fitKey h l[b]) (fitKey h l[a]) => hle hf)).symm
  rw [List.map_mergeSort (s := fun a b => decide (@LE.le (List Int) List.instLE (fitKey h b) (fitKey h a))) key,
    map_getD_range]

theorem plusBestStep_eq_plusSelStep {σ : Type} (ops : Ops σ) (mu lam : Nat) (choices : List Choice) :
    plusBestStep ops mu lam choices = plusSelStep ops mu lam ⟨choices, .best⟩ := by
  simp only [plusBestStep, plusSelStep, select_best_eq_selBest]

end LoopsC
