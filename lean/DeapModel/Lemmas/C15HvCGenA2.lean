import DeapModel.Lemmas.C15HvCGenA1
/-!
C15 — the general case of `hv_recursive` in `_hv.c`, first phase: what one `delete` / `delete_dom` does to the lists
`2 .. dim-1` (unlinking) and to the bounds; static helpers about the orders.
-/
namespace HvC
set_option linter.unusedVariables false
open Hypervolume
open HvSweep (GCtx Hj RL preSet pos ARv VOLv ids Shaped Seg)

/-! ### pointers: `delete` / `delete_dom` unlink the node from the lists `2 .. dim-1` -/

theorem gA_toSw_of_ptr {S T : St} (h1 : T.next = S.next) (h2 : T.prev = S.prev) : toSw T = toSw S := by
  unfold toSw; rw [h1, h2]

/-- in a well-formed list the two assignments are `unlink` -/
theorem gA_toSw_ulStep {n : ℕ} {S : St} {i x : ℕ} (nf : HvSweep.NodeFacts n (toSw S) i x) :
    toSw (gA_ulStep x S i) = HvSweep.unlink (toSw S) i x := by
  unfold gA_ulStep
  simp only
  have h1 : nx (setNx S i (pv S i x) (nx S i x)) i x = nx S i x :=
    nx_setNx_ne _ _ _ _ _ _ (Or.inr (fun e => nf.pv_ne e.symm))
  rw [h1, pv_setNx]
  rfl

theorem gA_toSw_dlStep (C : Cargo) (x : ℕ) (S : St) (i : ℕ) : toSw (gA_dlStep C x S i) = toSw (gA_ulStep x S i) := by
  obtain ⟨h1, h2, _, _⟩ := gA_lowerBound_ptr C (gA_ulStep x S i) x i
  exact gA_toSw_of_ptr h1 h2

/-- a fold of unlinking steps over the dimensions `is` -/
theorem gA_fold_lists {d n : ℕ} (step : St → ℕ → St) (x : ℕ)
    (hstep : ∀ S i, toSw (step S i) = toSw (gA_ulStep x S i)) (Ls : ℕ → List ℕ) :
    ∀ (is : List ℕ) (S : St), is.Nodup → (∀ i ∈ is, i < d) → ShapeC d n S → (∀ i ∈ is, DLc n S i (Ls i) ∧ x ∈ Ls i) →
      ShapeC d n (is.foldl step S) ∧ (∀ i ∈ is, DLc n (is.foldl step S) i ((Ls i).erase x)) ∧
      (∀ j, j ∉ is → ∀ a, nx (is.foldl step S) j a = nx S j a ∧ pv (is.foldl step S) j a = pv S j a)
  | [], S, _, _, hS, _ => ⟨hS, fun i hi => by simp at hi, fun _ _ _ => ⟨rfl, rfl⟩⟩
  | i :: is, S, hnd, hlt, hS, hL => by
    have hnd' := List.nodup_cons.mp hnd
    obtain ⟨hd, hx⟩ := hL i (by simp)
    have hid : i < d := hlt i (by simp)
    have nf := HvSweep.dl_nodeFacts hd hx
    have hun := HvSweep.dl_unlink hS hid hd hx
    have hS1 : toSw (step S i) = HvSweep.unlink (toSw S) i x := by rw [hstep, gA_toSw_ulStep nf]
    have hother : ∀ j, j ≠ i → ∀ a, nx (step S i) j a = nx S j a ∧ pv (step S i) j a = pv S j a := by
      intro j hj a
      have := HvSweep.unlink_other (toSw S) i x j hj a
      rw [← hS1] at this
      exact this
    have hsh1 : ShapeC d n (step S i) := by
      unfold ShapeC; rw [hS1]; exact HvSweep.shape_unlink hS i x
    obtain ⟨e1, e2, e3⟩ := gA_fold_lists step x hstep Ls is (step S i) hnd'.2 (fun i' hi' => hlt i' (by simp [hi'])) hsh1
      (by
        intro i' hi'
        have hne : i' ≠ i := fun e => hnd'.1 (e ▸ hi')
        obtain ⟨hd', hx'⟩ := hL i' (by simp [hi'])
        exact ⟨HvSweep.dl_congr (S := toSw S) (T := toSw (step S i)) (fun a => hother i' hne a) hd', hx'⟩)
    rw [List.foldl_cons]
    refine ⟨e1, ?_, ?_⟩
    · intro i' hi'
      rcases List.mem_cons.mp hi' with rfl | hi'
      · have h1 : DLc n (step S i') i' ((Ls i').erase x) := by
          unfold DLc; rw [hS1]; exact hun.1
        exact HvSweep.dl_congr (S := toSw (step S i')) (T := toSw (is.foldl step (step S i')))
          (fun a => e3 i' hnd'.1 a) h1
      · exact e2 i' hi'
    · intro j hj a
      have hji : j ≠ i := fun e => hj (by simp [e])
      have hjs : j ∉ is := fun h => hj (by simp [h])
      exact ⟨(e3 j hjs a).1.trans (hother j hji a).1, (e3 j hjs a).2.trans (hother j hji a).2⟩

/-- one iteration of the deletion loop unlinks the node from the lists `2 .. k-1` -/
theorem gA_delStep_lists {d n : ℕ} (C : Cargo) (k : ℕ) (hk : k ≤ d) (S : St) (x : ℕ) (Ls : ℕ → List ℕ)
    (hS : ShapeC d n S) (hL : ∀ i, 2 ≤ i → i < k → DLc n S i (Ls i) ∧ x ∈ Ls i) :
    ShapeC d n (delStep C k S x) ∧ ∀ i, 2 ≤ i → i < k → DLc n (delStep C k S x) i ((Ls i).erase x) := by
  have hlt : ∀ i ∈ dimRange k, i < d := fun i hi => by have := (gA_mem_dimRange k i).mp hi; omega
  have hL' : ∀ i ∈ dimRange k, DLc n S i (Ls i) ∧ x ∈ Ls i := fun i hi =>
    hL i ((gA_mem_dimRange k i).mp hi).1 ((gA_mem_dimRange k i).mp hi).2
  unfold delStep
  split
  · rw [gA_deleteDom_eq]
    obtain ⟨e1, e2, _⟩ := gA_fold_lists (gA_ulStep x) x (fun _ _ => rfl) Ls (dimRange k) S (gA_dimRange_nodup k) hlt hS hL'
    exact ⟨e1, fun i h1 h2 => e2 i ((gA_mem_dimRange k i).mpr ⟨h1, h2⟩)⟩
  · rw [gA_delete_eq]
    obtain ⟨e1, e2, _⟩ := gA_fold_lists (gA_dlStep C x) x (gA_toSw_dlStep C x) Ls (dimRange k) S (gA_dimRange_nodup k) hlt hS hL'
    exact ⟨e1, fun i h1 h2 => e2 i ((gA_mem_dimRange k i).mpr ⟨h1, h2⟩)⟩

/-! ### bounds -/

theorem gA_dlFold_bound (C : Cargo) (x : ℕ) : ∀ (is : List ℕ) (S : St), is.Nodup → ∀ i ∈ is, ∀ b',
    (is.foldl (gA_dlStep C x) S).bound.getD i none = some b' →
      ∃ b, S.bound.getD i none = some b ∧ b' ≤ b ∧ b' ≤ cg C x i
  | [], S, _, i, hi, _, _ => by simp at hi
  | i0 :: is, S, hnd, i, hi, b', hb' => by
    have hnd' := List.nodup_cons.mp hnd
    obtain ⟨b1, b2⟩ := gA_lowerBound_bound C (gA_ulStep x S i0) x i0
    rw [List.foldl_cons] at hb'
    rcases List.mem_cons.mp hi with rfl | hi'
    · obtain ⟨_, _, f3, _⟩ := gA_dlFold_frame C x is (gA_dlStep C x S i)
      rw [f3 i hnd'.1] at hb'
      exact b2 b' hb'
    · have hne : i ≠ i0 := fun e => hnd'.1 (e ▸ hi')
      obtain ⟨b, h1, h2, h3⟩ := gA_dlFold_bound C x is (gA_dlStep C x S i0) hnd'.2 i hi' b' hb'
      refine ⟨b, ?_, h2, h3⟩
      rw [← h1]
      exact (b1 i hne).symm

/-- `delete` lowers the bounds `2 .. k-1` to the coordinates of the deleted node -/
theorem gA_delStep_bound_delete (C : Cargo) (k : ℕ) (S : St) (x : ℕ) (h : ¬ (k : ℤ) ≤ ign S x) :
    ∀ i, 2 ≤ i → i < k → ∀ b', (delStep C k S x).bound.getD i none = some b' →
      ∃ b, S.bound.getD i none = some b ∧ b' ≤ b ∧ b' ≤ cg C x i := by
  intro i h1 h2 b' hb'
  unfold delStep at hb'
  rw [if_neg h, gA_delete_eq] at hb'
  exact gA_dlFold_bound C x (dimRange k) S (gA_dimRange_nodup k) i ((gA_mem_dimRange k i).mpr ⟨h1, h2⟩) b' hb'

/-- `delete_dom` leaves the bounds alone -/
theorem gA_delStep_bound_dom (C : Cargo) (k : ℕ) (S : St) (x : ℕ) (h : (k : ℤ) ≤ ign S x) :
    (delStep C k S x).bound = S.bound := by
  unfold delStep
  rw [if_pos h, gA_deleteDom_eq]
  exact (gA_ulFold_frame x (dimRange k) S).2.1

/-! ### the static picture in the coordinates of `_hv.c` -/

section ctx
variable {C : Cargo} {R : List ℚ} {d n : ℕ} {O : ℕ → List ℕ}

theorem gA_le_of_pos (c : CCtx C R d n O) {i : ℕ} (hi : i < d) {a b : ℕ} (ha : a ∈ ids n) (hb : b ∈ ids n)
    (h : pos O i b ≤ pos O i a) : cg C b i ≤ cg C a i := by
  exact c.le_of_pos hi ha hb h

theorem gA_pos_lt_of_lt (c : CCtx C R d n O) {i : ℕ} (hi : i < d) {a b : ℕ} (ha : a ∈ ids n) (hb : b ∈ ids n)
    (h : cg C a i < cg C b i) : pos O i a < pos O i b := by
  exact c.pos_lt_of_lt hi ha hb h

theorem gA_pos_inj (c : CCtx C R d n O) {i : ℕ} (hi : i < d) {a b : ℕ} (ha : a ∈ ids n) (hb : b ∈ ids n)
    (h : pos O i a = pos O i b) : a = b :=
  HvSweep.pos_inj O i a b ((c.g.mem hi a).mpr ha) ((c.g.mem hi b).mpr hb) h

/-- erasing a node from a restricted list -/
theorem gA_RL_erase (c : CCtx C R d n O) {i : ℕ} (hi : i < d) (A B : List ℕ) (x : ℕ)
    (hB : ∀ a, a ∈ B ↔ a ∈ A ∧ a ≠ x) : (RL O i A).erase x = RL O i B := by
  rw [(HvSweep.RL_nodup c.g hi A).erase_eq_filter]
  unfold RL
  rw [List.filter_filter]
  apply List.filter_congr
  intro a _
  have := hB a
  by_cases h1 : a ∈ A <;> by_cases h2 : a = x <;> simp_all

/-- membership in the restricted list -/
theorem gA_mem_RL (c : CCtx C R d n O) {i : ℕ} (hi : i < d) {A : List ℕ} (hA : ∀ a ∈ A, a ∈ ids n) (a : ℕ) :
    a ∈ RL O i A ↔ a ∈ A := by
  rw [HvSweep.mem_RL]
  exact ⟨fun h => h.2, fun h => ⟨(c.g.mem hi a).mpr (hA a h), h⟩⟩

/-- the last node of the restricted list is behind every other node of the set -/
theorem gA_last_pos (c : CCtx C R d n O) {i : ℕ} (hi : i < d) {A : List ℕ} (hA : ∀ a ∈ A, a ∈ ids n) (l : List ℕ) (x : ℕ)
    (hL : RL O i A = l ++ [x]) : x ∈ A ∧ x ∉ l ∧ ∀ a ∈ A, a ≠ x → pos O i a < pos O i x := by
  have hxA : x ∈ A := (gA_mem_RL c hi hA x).mp (by rw [hL]; simp)
  have hnd : (l ++ [x]).Nodup := hL ▸ HvSweep.RL_nodup c.g hi A
  have hxl : x ∉ l := fun h => (List.nodup_append.mp hnd).2.2 x h x (by simp) rfl
  obtain ⟨h1, _⟩ := HvSweep.pos_lt_of_split O i (c.g.nodup hi) (RL O i A) l [] x (HvSweep.RL_sublist O i A) hL
  refine ⟨hxA, hxl, ?_⟩
  intro a ha hax
  have : a ∈ l ++ [x] := by rw [← hL]; exact (gA_mem_RL c hi hA a).mpr ha
  rcases List.mem_append.mp this with h | h
  · exact h1 a h
  · simp at h; exact absurd h hax

/-- the restricted list of the set without its last node -/
theorem gA_RL_init (c : CCtx C R d n O) {i : ℕ} (hi : i < d) {A : List ℕ} (hA : ∀ a ∈ A, a ∈ ids n) (l : List ℕ) (x : ℕ)
    (hL : RL O i A = l ++ [x]) (B : List ℕ) (hB : ∀ a, a ∈ B ↔ a ∈ A ∧ a ≠ x) : RL O i B = l := by
  obtain ⟨_, hxl, _⟩ := gA_last_pos c hi hA l x hL
  rw [← gA_RL_erase c hi A B x hB, hL, List.erase_append_right _ hxl]
  simp

end ctx

end HvC
