import DeapModel.Core.HvSweep
import Mathlib.Tactic.Linarith
import Mathlib.Data.List.Basic
import Mathlib.Data.List.Nodup
/-!
C15 — pointer-level lemmas about the transcription `Core/HvSweep.lean` of pyhv's multi-list:
tables, the doubly linked lists built by `preProcess`, `remove` / `reinsert` are mutually inverse.
-/
namespace HvSweep
set_option linter.unusedVariables false

/-! ### tables -/

theorem getD_set_self {α : Type} (l : List α) (i : ℕ) (v d : α) (h : i < l.length) : (l.set i v).getD i d = v := by
  simp [List.getD_eq_getElem?_getD, List.getElem?_set_self h]

theorem getD_set_ne {α : Type} (l : List α) (i j : ℕ) (v d : α) (h : j ≠ i) : (l.set i v).getD j d = l.getD j d := by
  simp [List.getD_eq_getElem?_getD, List.getElem?_set_ne (Ne.symm h)]

theorem tget_tset_self {α : Type} (t : List (List α)) (i a : ℕ) (v d : α)
    (hi : i < t.length) (ha : a < (t.getD i []).length) : tget (tset t i a v) i a d = v := by
  unfold tget tset
  rw [getD_set_self _ _ _ _ hi, getD_set_self _ _ _ _ ha]

theorem tget_tset_ne {α : Type} (t : List (List α)) (i a j b : ℕ) (v d : α) (h : j ≠ i ∨ b ≠ a) :
    tget (tset t i a v) j b d = tget t j b d := by
  unfold tget tset
  by_cases hj : j = i
  · subst hj
    have hb : b ≠ a := by rcases h with h | h; exact absurd rfl h; exact h
    by_cases hi : j < t.length
    · rw [getD_set_self _ _ _ _ hi, getD_set_ne _ _ _ _ _ hb]
    · rw [List.set_eq_of_length_le (by omega)]
  · rw [getD_set_ne _ _ _ _ _ hj]

/-- a table with `rows` rows of `cols` entries -/
def Shaped {α : Type} (rows cols : ℕ) (t : List (List α)) : Prop :=
  t.length = rows ∧ ∀ j < rows, (t.getD j []).length = cols

theorem shaped_tset {α : Type} {rows cols : ℕ} {t : List (List α)} (h : Shaped rows cols t) (i a : ℕ) (v : α) :
    Shaped rows cols (tset t i a v) := by
  unfold tset
  refine ⟨by simp [h.1], fun j hj => ?_⟩
  by_cases hji : j = i
  · subst hji
    rw [getD_set_self _ _ _ _ (by rw [h.1]; exact hj), List.length_set]
    exact h.2 j hj
  · rw [getD_set_ne _ _ _ _ _ hji]
    exact h.2 j hj

theorem shaped_replicate {α : Type} (rows cols : ℕ) (x : α) :
    Shaped rows cols (List.replicate rows (List.replicate cols x)) := by
  refine ⟨by simp, fun j hj => ?_⟩
  rw [List.getD_eq_getElem?_getD, List.getElem?_replicate]
  simp [hj]

/-! ### pointer view of the state -/

/-- `next` and `prev` have `dims` rows for the ids `0..n` -/
def Shape (dims n : ℕ) (S : St) : Prop := Shaped dims (n + 1) S.next ∧ Shaped dims (n + 1) S.prev

theorem nx_setNx_self {dims n : ℕ} {S : St} (h : Shape dims n S) {i a : ℕ} (hi : i < dims) (ha : a ≤ n) (v : ℕ) :
    nx (setNx S i a v) i a = v := by
  unfold nx setNx
  exact tget_tset_self _ _ _ _ _ (by rw [h.1.1]; exact hi) (by rw [h.1.2 i hi]; omega)

theorem nx_setNx_ne (S : St) (i a j b v : ℕ) (h : j ≠ i ∨ b ≠ a) : nx (setNx S i a v) j b = nx S j b := by
  unfold nx setNx; exact tget_tset_ne _ _ _ _ _ _ _ h

theorem pv_setPv_self {dims n : ℕ} {S : St} (h : Shape dims n S) {i a : ℕ} (hi : i < dims) (ha : a ≤ n) (v : ℕ) :
    pv (setPv S i a v) i a = v := by
  unfold pv setPv
  exact tget_tset_self _ _ _ _ _ (by rw [h.2.1]; exact hi) (by rw [h.2.2 i hi]; omega)

theorem pv_setPv_ne (S : St) (i a j b v : ℕ) (h : j ≠ i ∨ b ≠ a) : pv (setPv S i a v) j b = pv S j b := by
  unfold pv setPv; exact tget_tset_ne _ _ _ _ _ _ _ h

@[simp] theorem nx_setPv (S : St) (i a v j b : ℕ) : nx (setPv S i a v) j b = nx S j b := rfl
@[simp] theorem pv_setNx (S : St) (i a v j b : ℕ) : pv (setNx S i a v) j b = pv S j b := rfl
@[simp] theorem nx_setAr (S : St) (a i : ℕ) (v : ℚ) (j b : ℕ) : nx (setAr S a i v) j b = nx S j b := rfl
@[simp] theorem pv_setAr (S : St) (a i : ℕ) (v : ℚ) (j b : ℕ) : pv (setAr S a i v) j b = pv S j b := rfl
@[simp] theorem nx_setVl (S : St) (a i : ℕ) (v : ℚ) (j b : ℕ) : nx (setVl S a i v) j b = nx S j b := rfl
@[simp] theorem pv_setVl (S : St) (a i : ℕ) (v : ℚ) (j b : ℕ) : pv (setVl S a i v) j b = pv S j b := rfl
@[simp] theorem nx_setIgn (S : St) (a v j b : ℕ) : nx (setIgn S a v) j b = nx S j b := rfl
@[simp] theorem pv_setIgn (S : St) (a v j b : ℕ) : pv (setIgn S a v) j b = pv S j b := rfl
@[simp] theorem nx_setBound (S : St) (i : ℕ) (v : ℚ) (j b : ℕ) : nx (setBound S i v) j b = nx S j b := rfl
@[simp] theorem pv_setBound (S : St) (i : ℕ) (v : ℚ) (j b : ℕ) : pv (setBound S i v) j b = pv S j b := rfl
@[simp] theorem nx_tick (S : St) (i j b : ℕ) : nx (tick S i) j b = nx S j b := rfl
@[simp] theorem pv_tick (S : St) (i j b : ℕ) : pv (tick S i) j b = pv S j b := rfl

theorem nx_lowerBound (C : Cargo) (S : St) (node i j b : ℕ) : nx (lowerBound C S node i) j b = nx S j b := by
  unfold lowerBound; split <;> rfl
theorem pv_lowerBound (C : Cargo) (S : St) (node i j b : ℕ) : pv (lowerBound C S node i) j b = pv S j b := by
  unfold lowerBound; split <;> rfl

theorem shape_setNx {dims n : ℕ} {S : St} (h : Shape dims n S) (i a v : ℕ) : Shape dims n (setNx S i a v) :=
  ⟨shaped_tset h.1 i a v, h.2⟩
theorem shape_setPv {dims n : ℕ} {S : St} (h : Shape dims n S) (i a v : ℕ) : Shape dims n (setPv S i a v) :=
  ⟨h.1, shaped_tset h.2 i a v⟩
theorem shape_lowerBound {dims n : ℕ} {S : St} (h : Shape dims n S) (C : Cargo) (node i : ℕ) :
    Shape dims n (lowerBound C S node i) := by
  unfold lowerBound; split <;> exact h

/-- two states have the same pointers -/
def PtrEq (S T : St) : Prop := ∀ i a, nx T i a = nx S i a ∧ pv T i a = pv S i a

theorem PtrEq.refl (S : St) : PtrEq S S := fun _ _ => ⟨rfl, rfl⟩
theorem PtrEq.symm {S T : St} (h : PtrEq S T) : PtrEq T S := fun i a => ⟨(h i a).1.symm, (h i a).2.symm⟩
theorem PtrEq.trans {S T U : St} (h₁ : PtrEq S T) (h₂ : PtrEq T U) : PtrEq S U :=
  fun i a => ⟨(h₂ i a).1.trans (h₁ i a).1, (h₂ i a).2.trans (h₁ i a).2⟩

/-! ### doubly linked lists -/

/-- `a` and `b` are neighbours in the list of dimension `i` -/
def Link (S : St) (i a b : ℕ) : Prop := nx S i a = b ∧ pv S i b = a

/-- the nodes `l` are linked, in this order, between `a` and `e` -/
def Seg (S : St) (i : ℕ) : ℕ → List ℕ → ℕ → Prop
  | a, [], e => Link S i a e
  | a, b :: l, e => Link S i a b ∧ Seg S i b l e

/-- the list of dimension `i` is the circular doubly linked list `sentinel, L…, sentinel` -/
def DL (n : ℕ) (S : St) (i : ℕ) (L : List ℕ) : Prop :=
  Seg S i 0 L 0 ∧ L.Nodup ∧ ∀ a ∈ L, 1 ≤ a ∧ a ≤ n

theorem seg_append (S : St) (i : ℕ) : ∀ (l₁ : List ℕ) (a b : ℕ) (l₂ : List ℕ) (e : ℕ),
    Seg S i a (l₁ ++ b :: l₂) e ↔ Seg S i a l₁ b ∧ Seg S i b l₂ e
  | [], a, b, l₂, e => by simp [Seg]
  | c :: l₁, a, b, l₂, e => by
    simp only [List.cons_append, Seg, seg_append S i l₁ c b l₂ e, and_assoc]

theorem seg_congr {S T : St} {i : ℕ} (h : ∀ a, nx T i a = nx S i a ∧ pv T i a = pv S i a) :
    ∀ (l : List ℕ) (a e : ℕ), Seg S i a l e → Seg T i a l e
  | [], a, e, hs => ⟨(h a).1.trans hs.1, (h e).2.trans hs.2⟩
  | b :: l, a, e, hs => ⟨⟨(h a).1.trans hs.1.1, (h b).2.trans hs.1.2⟩, seg_congr h l b e hs.2⟩

theorem dl_congr {n : ℕ} {S T : St} {i : ℕ} {L : List ℕ}
    (h : ∀ a, nx T i a = nx S i a ∧ pv T i a = pv S i a) (hd : DL n S i L) : DL n T i L :=
  ⟨seg_congr h L 0 0 hd.1, hd.2⟩

theorem dl_ptrEq {n : ℕ} {S T : St} {i : ℕ} {L : List ℕ} (h : PtrEq S T) (hd : DL n S i L) : DL n T i L :=
  dl_congr (fun a => h i a) hd

/-- the last node before `e` -/
theorem seg_pv_end (S : St) (i : ℕ) : ∀ (l : List ℕ) (a e : ℕ), Seg S i a l e → pv S i e = (a :: l).getLast (by simp)
  | [], a, e, h => h.2
  | b :: l, a, e, h => by
    rw [List.getLast_cons (by simp)]
    exact seg_pv_end S i l b e h.2

theorem seg_nx_start (S : St) (i : ℕ) (l : List ℕ) (a e : ℕ) (h : Seg S i a l e) :
    nx S i a = (l ++ [e]).head (by simp) := by
  cases l with
  | nil => exact h.1
  | cons b l => exact h.1.1

/-! ### `extend` -/

/-- one iteration of the loop of `extend` -/
def extendStep (S : St) (index node : ℕ) : St :=
  let lastButOne := pv S index 0
  setNx (setPv (setPv (setNx S index node 0) index node lastButOne) index 0 node) index lastButOne node

theorem extend_cons (S : St) (x : ℕ) (xs : List ℕ) (i : ℕ) :
    extend S (x :: xs) i = extend (extendStep S i x) xs i := rfl

theorem shape_extendStep {dims n : ℕ} {S : St} (h : Shape dims n S) (i x : ℕ) : Shape dims n (extendStep S i x) :=
  shape_setNx (shape_setPv (shape_setPv (shape_setNx h _ _ _) _ _ _) _ _ _) _ _ _

theorem extendStep_other (S : St) (i x j a : ℕ) (hj : j ≠ i) :
    nx (extendStep S i x) j a = nx S j a ∧ pv (extendStep S i x) j a = pv S j a := by
  unfold extendStep
  refine ⟨?_, ?_⟩
  · rw [nx_setNx_ne _ _ _ _ _ _ (Or.inl hj), nx_setPv, nx_setPv, nx_setNx_ne _ _ _ _ _ _ (Or.inl hj)]
  · rw [pv_setNx, pv_setPv_ne _ _ _ _ _ _ (Or.inl hj), pv_setPv_ne _ _ _ _ _ _ (Or.inl hj), pv_setNx]

/-- pointers of `extendStep` written out -/
theorem extendStep_nx {dims n : ℕ} {S : St} (h : Shape dims n S) {i x : ℕ} (hi : i < dims) (hx : x ≤ n)
    (hlb : pv S i 0 ≤ n) (hne : pv S i 0 ≠ x) (a : ℕ) :
    nx (extendStep S i x) i a = if a = pv S i 0 then x else if a = x then 0 else nx S i a := by
  unfold extendStep
  simp only
  by_cases h1 : a = pv S i 0
  · rw [if_pos h1, h1]
    exact nx_setNx_self (shape_setPv (shape_setPv (shape_setNx h _ _ _) _ _ _) _ _ _) hi hlb _
  · rw [if_neg h1, nx_setNx_ne _ _ _ _ _ _ (Or.inr h1)]
    simp only [nx_setPv]
    by_cases h2 : a = x
    · rw [if_pos h2, h2]; exact nx_setNx_self h hi hx _
    · rw [if_neg h2, nx_setNx_ne _ _ _ _ _ _ (Or.inr h2)]

theorem extendStep_pv {dims n : ℕ} {S : St} (h : Shape dims n S) {i x : ℕ} (hi : i < dims) (hx : x ≤ n)
    (hx0 : x ≠ 0) (a : ℕ) :
    pv (extendStep S i x) i a = if a = 0 then x else if a = x then pv S i 0 else pv S i a := by
  unfold extendStep
  simp only [pv_setNx]
  by_cases h1 : a = 0
  · rw [if_pos h1, h1]
    exact pv_setPv_self (shape_setPv (shape_setNx h _ _ _) _ _ _) hi (Nat.zero_le _) _
  · rw [if_neg h1, pv_setPv_ne _ _ _ _ _ _ (Or.inr h1)]
    by_cases h2 : a = x
    · rw [if_pos h2, h2]; exact pv_setPv_self (shape_setNx h _ _ _) hi hx _
    · rw [if_neg h2, pv_setPv_ne _ _ _ _ _ _ (Or.inr h2)]
      rfl

theorem seg_extendStep {dims n : ℕ} {S : St} (h : Shape dims n S) {i x : ℕ} (hi : i < dims) (hx : x ≤ n)
    (hx0 : x ≠ 0) (hlb : pv S i 0 ≤ n) :
    ∀ (l : List ℕ) (a : ℕ), Seg S i a l 0 → (a :: l).Nodup → x ∉ a :: l → 0 ∉ l →
      Seg (extendStep S i x) i a (l ++ [x]) 0
  | [], a, hs, _, hx', _ => by
    have hlast : pv S i 0 = a := hs.2
    have hax : a ≠ x := fun e => hx' (by simp [e])
    have hne : pv S i 0 ≠ x := by rw [hlast]; exact hax
    refine ⟨⟨?_, ?_⟩, ⟨?_, ?_⟩⟩
    · rw [extendStep_nx h hi hx hlb hne, if_pos hlast.symm]
    · rw [extendStep_pv h hi hx hx0, if_neg hx0, if_pos rfl, hlast]
    · rw [extendStep_nx h hi hx hlb hne, if_neg (by rw [hlast]; exact fun e => hax e.symm), if_pos rfl]
    · rw [extendStep_pv h hi hx hx0, if_pos rfl]
  | b :: l, a, hs, hnd, hx', h0 => by
    have hlast : pv S i 0 = (b :: l).getLast (by simp) := seg_pv_end S i l b 0 hs.2
    have hlast_mem : pv S i 0 ∈ b :: l := by rw [hlast]; exact List.getLast_mem _
    have hne : pv S i 0 ≠ x := fun e => hx' (by rw [← e]; exact List.mem_cons_of_mem _ hlast_mem)
    have hnd' := List.nodup_cons.mp hnd
    have ha_lb : a ≠ pv S i 0 := fun e => hnd'.1 (e ▸ hlast_mem)
    have hax : a ≠ x := fun e => hx' (by simp [e])
    have hbx : b ≠ x := fun e => hx' (by simp [e])
    have hb0 : b ≠ 0 := fun e => h0 (by simp [e])
    refine ⟨⟨?_, ?_⟩, ?_⟩
    · rw [extendStep_nx h hi hx hlb hne, if_neg ha_lb, if_neg hax]; exact hs.1.1
    · rw [extendStep_pv h hi hx hx0, if_neg hb0, if_neg hbx]; exact hs.1.2
    · exact seg_extendStep h hi hx hx0 hlb l b hs.2 hnd'.2
        (fun hm => hx' (List.mem_cons_of_mem _ hm)) (fun hm => h0 (List.mem_cons_of_mem _ hm))

/-- `extend` appends the nodes to the list of dimension `i` and leaves the other dimensions alone. -/
theorem dl_extend {dims n : ℕ} {i : ℕ} (hi : i < dims) : ∀ (xs : List ℕ) (S : St) (L : List ℕ),
    Shape dims n S → DL n S i L → (L ++ xs).Nodup → (∀ x ∈ xs, 1 ≤ x ∧ x ≤ n) →
    Shape dims n (extend S xs i) ∧ DL n (extend S xs i) i (L ++ xs) ∧
      ∀ j a, j ≠ i → nx (extend S xs i) j a = nx S j a ∧ pv (extend S xs i) j a = pv S j a
  | [], S, L, hS, hd, _, _ => by
    simp only [List.append_nil]
    exact ⟨hS, hd, fun _ _ _ => ⟨rfl, rfl⟩⟩
  | x :: xs, S, L, hS, hd, hnd, hr => by
    rw [extend_cons]
    have hx := hr x (by simp)
    have hxL : x ∉ L := by
      intro hm
      have := List.nodup_append.mp hnd
      exact this.2.2 x hm x (by simp) rfl
    have hlb : pv S i 0 ≤ n := by
      rw [seg_pv_end S i L 0 0 hd.1]
      have := List.getLast_mem (l := 0 :: L) (by simp)
      rcases List.mem_cons.mp this with h0 | hm
      · rw [h0]; exact Nat.zero_le _
      · exact (hd.2.2 _ hm).2
    have h0L : 0 ∉ L := fun hm => by have := (hd.2.2 0 hm).1; omega
    have hseg := seg_extendStep hS hi hx.2 (by omega) hlb L 0 hd.1
      (List.nodup_cons.mpr ⟨h0L, hd.2.1⟩)
      (by intro hm; rcases List.mem_cons.mp hm with h | h; omega; exact hxL h) h0L
    have hnd1 : (L ++ [x]).Nodup := by
      have := hnd
      rw [show L ++ x :: xs = (L ++ [x]) ++ xs by simp] at this
      exact (List.nodup_append.mp this).1
    have hdl : DL n (extendStep S i x) i (L ++ [x]) := by
      refine ⟨hseg, hnd1, ?_⟩
      intro a ha
      rcases List.mem_append.mp ha with h | h
      · exact hd.2.2 a h
      · simp at h; rw [h]; exact hx
    obtain ⟨h1, h2, h3⟩ := dl_extend hi xs (extendStep S i x) (L ++ [x]) (shape_extendStep hS i x) hdl
      (by simpa using hnd) (fun y hy => hr y (by simp [hy]))
    refine ⟨h1, by simpa using h2, ?_⟩
    intro j a hj
    have := extendStep_other S i x j a hj
    exact ⟨(h3 j a hj).1.trans this.1, (h3 j a hj).2.trans this.2⟩

/-! ### `preProcess` -/

/-- the node orders produced by the loop of `preProcess`: dimension `i` of `is` gets the stable sort by
coordinate `i` of the order of the previous dimension -/
def cum (C : Cargo) : List ℕ → List ℕ → List (ℕ × List ℕ)
  | [], _ => []
  | i :: is, nodes => (i, sortByDimension C nodes i) :: cum C is (sortByDimension C nodes i)

theorem sortByDimension_perm (C : Cargo) (nodes : List ℕ) (i : ℕ) : (sortByDimension C nodes i).Perm nodes :=
  List.mergeSort_perm _ _

theorem cum_perm (C : Cargo) : ∀ (is nodes : List ℕ) (i : ℕ) (L : List ℕ), (i, L) ∈ cum C is nodes → L.Perm nodes
  | [], _, _, _, h => by simp [cum] at h
  | j :: is, nodes, i, L, h => by
    simp only [cum, List.mem_cons, Prod.mk.injEq] at h
    rcases h with ⟨_, rfl⟩ | h
    · exact sortByDimension_perm C nodes j
    · exact (cum_perm C is _ i L h).trans (sortByDimension_perm C nodes j)

theorem cum_fst (C : Cargo) : ∀ (is nodes : List ℕ) (i : ℕ) (L : List ℕ), (i, L) ∈ cum C is nodes → i ∈ is
  | [], _, _, _, h => by simp [cum] at h
  | j :: is, nodes, i, L, h => by
    simp only [cum, List.mem_cons, Prod.mk.injEq] at h
    rcases h with ⟨rfl, _⟩ | h
    · simp
    · exact List.mem_cons_of_mem _ (cum_fst C is _ i L h)

theorem cum_exists (C : Cargo) : ∀ (is nodes : List ℕ) (i : ℕ), i ∈ is → ∃ L, (i, L) ∈ cum C is nodes
  | j :: is, nodes, i, h => by
    rcases List.mem_cons.mp h with rfl | h
    · exact ⟨sortByDimension C nodes i, by simp [cum]⟩
    · obtain ⟨L, hL⟩ := cum_exists C is (sortByDimension C nodes j) i h
      exact ⟨L, by simp [cum, hL]⟩

theorem preLoop_spec (C : Cargo) {dims n : ℕ} : ∀ (is : List ℕ) (S : St) (nodes : List ℕ),
    is.Nodup → (∀ i ∈ is, i < dims) → Shape dims n S → nodes.Nodup → (∀ x ∈ nodes, 1 ≤ x ∧ x ≤ n) →
    (∀ i ∈ is, DL n S i []) →
    Shape dims n (preLoop C is S nodes) ∧ (∀ i L, (i, L) ∈ cum C is nodes → DL n (preLoop C is S nodes) i L) ∧
      ∀ j a, j ∉ is → nx (preLoop C is S nodes) j a = nx S j a ∧ pv (preLoop C is S nodes) j a = pv S j a
  | [], S, nodes, _, _, hS, _, _, _ => ⟨hS, by simp [cum], fun _ _ _ => ⟨rfl, rfl⟩⟩
  | i :: is, S, nodes, hnd, hlt, hS, hn, hr, hd => by
    have hnd' := List.nodup_cons.mp hnd
    have hperm := sortByDimension_perm C nodes i
    have hn' : (sortByDimension C nodes i).Nodup := hperm.nodup_iff.mpr hn
    have hr' : ∀ x ∈ sortByDimension C nodes i, 1 ≤ x ∧ x ≤ n := fun x hx => hr x (hperm.mem_iff.mp hx)
    obtain ⟨e1, e2, e3⟩ := dl_extend (hlt i (by simp)) (sortByDimension C nodes i) S [] hS (hd i (by simp))
      (by simpa using hn') hr'
    simp only [List.nil_append] at e2
    have hd' : ∀ j ∈ is, DL n (extend S (sortByDimension C nodes i) i) j [] := by
      intro j hj
      have hji : j ≠ i := fun e => hnd'.1 (e ▸ hj)
      exact dl_congr (fun a => e3 j a hji) (hd j (by simp [hj]))
    obtain ⟨f1, f2, f3⟩ := preLoop_spec C is (extend S (sortByDimension C nodes i) i) (sortByDimension C nodes i)
      hnd'.2 (fun j hj => hlt j (by simp [hj])) e1 hn' hr' hd'
    refine ⟨f1, ?_, ?_⟩
    · intro j L hjL
      simp only [cum, List.mem_cons, Prod.mk.injEq] at hjL
      rcases hjL with ⟨rfl, rfl⟩ | hjL
      · exact dl_congr (fun a => f3 j a hnd'.1) e2
      · exact f2 j L hjL
    · intro j a hj
      have hji : j ≠ i := fun e => hj (by simp [e])
      have hjs : j ∉ is := fun h => hj (by simp [h])
      exact ⟨(f3 j a hjs).1.trans (e3 j a hji).1, (f3 j a hjs).2.trans (e3 j a hji).2⟩

theorem shape_initSt (dims n : ℕ) : Shape dims n (initSt dims n) :=
  ⟨shaped_replicate dims (n + 1) 0, shaped_replicate dims (n + 1) 0⟩

theorem getD_replicate_self {α : Type} (m a : ℕ) (x : α) : (List.replicate m x).getD a x = x := by
  rw [List.getD_eq_getElem?_getD, List.getElem?_replicate]
  split <;> rfl

theorem tget_replicate_zero (dims m i a : ℕ) : tget (List.replicate dims (List.replicate m 0)) i a 0 = 0 := by
  unfold tget
  by_cases h : i < dims
  · have : (List.replicate dims (List.replicate m 0)).getD i [] = List.replicate m 0 := by
      rw [List.getD_eq_getElem?_getD, List.getElem?_replicate, if_pos h]; rfl
    rw [this, getD_replicate_self]
  · have : (List.replicate dims (List.replicate m 0)).getD i [] = [] := by
      rw [List.getD_eq_getElem?_getD, List.getElem?_replicate, if_neg h]; rfl
    rw [this]; rfl

theorem dl_initSt (dims n i : ℕ) : DL n (initSt dims n) i [] :=
  ⟨⟨tget_replicate_zero _ _ _ _, tget_replicate_zero _ _ _ _⟩, List.nodup_nil, by simp⟩

/-- the ids `1..n` -/
def ids (n : ℕ) : List ℕ := (List.range n).map (· + 1)

theorem ids_nodup (n : ℕ) : (ids n).Nodup :=
  List.Nodup.map (fun a b h => by simpa using h) List.nodup_range

theorem mem_ids (n x : ℕ) : x ∈ ids n ↔ 1 ≤ x ∧ x ≤ n := by
  unfold ids
  simp only [List.mem_map, List.mem_range]
  constructor
  · rintro ⟨a, ha, rfl⟩; omega
  · rintro ⟨h1, h2⟩; exact ⟨x - 1, by omega, by omega⟩

/-- **`preProcess` builds, in every dimension, the doubly linked list of the cumulative stable sort.** -/
theorem preProcess_spec (C : Cargo) (dims n : ℕ) :
    Shape dims n (preProcess C dims n) ∧
      ∀ i L, (i, L) ∈ cum C (List.range dims) (ids n) → DL n (preProcess C dims n) i L := by
  obtain ⟨h1, h2, _⟩ := preLoop_spec C (dims := dims) (n := n) (List.range dims) (initSt dims n) (ids n)
    List.nodup_range (fun i hi => List.mem_range.mp hi) (shape_initSt dims n) (ids_nodup n)
    (fun x hx => (mem_ids n x).mp hx) (fun i _ => dl_initSt dims n i)
  exact ⟨h1, h2⟩

/-! ### unlink / relink in one dimension (the bodies of `remove` and `reinsert`) -/

/-- same pointers in dimension `i` -/
def DimEq (i : ℕ) (S T : St) : Prop := ∀ a, nx T i a = nx S i a ∧ pv T i a = pv S i a

theorem DimEq.refl (i : ℕ) (S : St) : DimEq i S S := fun _ => ⟨rfl, rfl⟩
theorem DimEq.symm {i : ℕ} {S T : St} (h : DimEq i S T) : DimEq i T S := fun a => ⟨(h a).1.symm, (h a).2.symm⟩
theorem DimEq.trans {i : ℕ} {S T U : St} (h₁ : DimEq i S T) (h₂ : DimEq i T U) : DimEq i S U :=
  fun a => ⟨(h₂ a).1.trans (h₁ a).1, (h₂ a).2.trans (h₁ a).2⟩
theorem PtrEq.dim {S T : St} (h : PtrEq S T) (i : ℕ) : DimEq i S T := fun a => h i a
theorem ptrEq_of_dims {S T : St} (h : ∀ i, DimEq i S T) : PtrEq S T := fun i a => h i a

/-- l.282-285 -/
def unlink (S : St) (i x : ℕ) : St := setPv (setNx S i (pv S i x) (nx S i x)) i (nx S i x) (pv S i x)

/-- l.298-299 -/
def relink (S : St) (i x : ℕ) : St :=
  let S₁ := setNx S i (pv S i x) x
  setPv S₁ i (nx S₁ i x) x

theorem shape_unlink {dims n : ℕ} {S : St} (h : Shape dims n S) (i x : ℕ) : Shape dims n (unlink S i x) :=
  shape_setPv (shape_setNx h _ _ _) _ _ _
theorem shape_relink {dims n : ℕ} {S : St} (h : Shape dims n S) (i x : ℕ) : Shape dims n (relink S i x) :=
  shape_setPv (shape_setNx h _ _ _) _ _ _

theorem unlink_other (S : St) (i x j : ℕ) (hj : j ≠ i) : DimEq j S (unlink S i x) := by
  intro a
  unfold unlink
  exact ⟨by rw [nx_setPv, nx_setNx_ne _ _ _ _ _ _ (Or.inl hj)], by rw [pv_setPv_ne _ _ _ _ _ _ (Or.inl hj), pv_setNx]⟩

theorem relink_other (S : St) (i x j : ℕ) (hj : j ≠ i) : DimEq j S (relink S i x) := by
  intro a
  unfold relink
  simp only
  exact ⟨by rw [nx_setPv, nx_setNx_ne _ _ _ _ _ _ (Or.inl hj)], by rw [pv_setPv_ne _ _ _ _ _ _ (Or.inl hj), pv_setNx]⟩

theorem nx_unlink {dims n : ℕ} {S : St} (h : Shape dims n S) {i x : ℕ} (hi : i < dims) (hp : pv S i x ≤ n) (a : ℕ) :
    nx (unlink S i x) i a = if a = pv S i x then nx S i x else nx S i a := by
  unfold unlink
  rw [nx_setPv]
  by_cases ha : a = pv S i x
  · rw [if_pos ha, ha]; exact nx_setNx_self h hi hp _
  · rw [if_neg ha, nx_setNx_ne _ _ _ _ _ _ (Or.inr ha)]

theorem pv_unlink {dims n : ℕ} {S : St} (h : Shape dims n S) {i x : ℕ} (hi : i < dims) (hn : nx S i x ≤ n) (a : ℕ) :
    pv (unlink S i x) i a = if a = nx S i x then pv S i x else pv S i a := by
  unfold unlink
  by_cases ha : a = nx S i x
  · rw [if_pos ha, ha]; exact pv_setPv_self (shape_setNx h _ _ _) hi hn _
  · rw [if_neg ha, pv_setPv_ne _ _ _ _ _ _ (Or.inr ha), pv_setNx]

theorem nx_relink {dims n : ℕ} {S : St} (h : Shape dims n S) {i x : ℕ} (hi : i < dims) (hp : pv S i x ≤ n) (a : ℕ) :
    nx (relink S i x) i a = if a = pv S i x then x else nx S i a := by
  unfold relink
  simp only
  rw [nx_setPv]
  by_cases ha : a = pv S i x
  · rw [if_pos ha, ha]; exact nx_setNx_self h hi hp _
  · rw [if_neg ha, nx_setNx_ne _ _ _ _ _ _ (Or.inr ha)]

theorem pv_relink {dims n : ℕ} {S : St} (h : Shape dims n S) {i x : ℕ} (hi : i < dims) (hn : nx S i x ≤ n)
    (hpx : pv S i x ≠ x) (a : ℕ) :
    pv (relink S i x) i a = if a = nx S i x then x else pv S i a := by
  unfold relink
  simp only
  have h1 : nx (setNx S i (pv S i x) x) i x = nx S i x := nx_setNx_ne _ _ _ _ _ _ (Or.inr (Ne.symm hpx))
  rw [h1]
  by_cases ha : a = nx S i x
  · rw [if_pos ha, ha]; exact pv_setPv_self (shape_setNx h _ _ _) hi hn _
  · rw [if_neg ha, pv_setPv_ne _ _ _ _ _ _ (Or.inr ha), pv_setNx]

theorem seg_frame {S T : St} {i : ℕ} : ∀ (l : List ℕ) (a e : ℕ), Seg S i a l e →
    (∀ c ∈ a :: l, nx T i c = nx S i c) → (∀ c ∈ l ++ [e], pv T i c = pv S i c) → Seg T i a l e
  | [], a, e, hs, h1, h2 => ⟨(h1 a (by simp)).trans hs.1, (h2 e (by simp)).trans hs.2⟩
  | b :: l, a, e, hs, h1, h2 =>
    ⟨⟨(h1 a (by simp)).trans hs.1.1, (h2 b (by simp)).trans hs.1.2⟩,
     seg_frame l b e hs.2 (fun c hc => h1 c (List.mem_cons_of_mem _ hc)) (fun c hc => h2 c (List.mem_cons_of_mem _ hc))⟩

/-- the facts about a node `x` of a well-formed list -/
theorem seg_node (S : St) (i : ℕ) : ∀ (l₁ : List ℕ) (s x : ℕ) (l₂ : List ℕ) (e : ℕ), Seg S i s (l₁ ++ x :: l₂) e →
    pv S i x = (s :: l₁).getLast (by simp) ∧ nx S i x = (l₂ ++ [e]).head (by simp) ∧
      nx S i (pv S i x) = x ∧ pv S i (nx S i x) = x
  | [], s, x, l₂, e, h => by
    have h1 : Link S i s x := h.1
    have h2 := seg_nx_start S i l₂ x e h.2
    refine ⟨h1.2, h2, by rw [h1.2]; exact h1.1, ?_⟩
    cases l₂ with
    | nil => have := h.2.1; rw [this]; exact h.2.2
    | cons b l => have := h.2.1.1; rw [this]; exact h.2.1.2
  | b :: l₁, s, x, l₂, e, h => by
    obtain ⟨e1, e2, e3, e4⟩ := seg_node S i l₁ b x l₂ e h.2
    exact ⟨by rw [List.getLast_cons (by simp)]; exact e1, e2, e3, e4⟩

/-- unlinking `x` from the segment -/
theorem seg_unlink {dims n : ℕ} {S : St} (hS : Shape dims n S) {i x : ℕ} (hi : i < dims)
    (hp : pv S i x ≤ n) (hn : nx S i x ≤ n) :
    ∀ (l₁ : List ℕ) (s : ℕ) (l₂ : List ℕ) (e : ℕ), Seg S i s (l₁ ++ x :: l₂) e →
      (s :: (l₁ ++ x :: l₂)).Nodup → e ∉ l₁ ++ x :: l₂ → Seg (unlink S i x) i s (l₁ ++ l₂) e
  | [], s, l₂, e, h, hnd, he => by
    have hsx : Link S i s x := h.1
    have hu : pv S i x = s := hsx.2
    have hw := seg_nx_start S i l₂ x e h.2
    simp only [List.nil_append] at *
    have hnd' := List.nodup_cons.mp hnd
    cases l₂ with
    | nil =>
      simp only [List.nil_append, List.head_cons] at hw
      refine ⟨?_, ?_⟩
      · rw [nx_unlink hS hi hp, if_pos hu.symm, hw]
      · rw [pv_unlink hS hi hn, if_pos hw.symm, hu]
    | cons w l =>
      simp only [List.cons_append, List.head_cons] at hw
      have hseg : Seg S i w l e := h.2.2
      have hnd2 := List.nodup_cons.mp hnd'.2
      have hnd3 := List.nodup_cons.mp hnd2.2
      refine ⟨⟨?_, ?_⟩, ?_⟩
      · rw [nx_unlink hS hi hp, if_pos hu.symm, hw]
      · rw [pv_unlink hS hi hn, if_pos hw.symm, hu]
      · apply seg_frame l w e hseg
        · intro c hc
          rw [nx_unlink hS hi hp, if_neg]
          rw [hu]
          intro hcs
          exact hnd'.1 (by rw [← hcs]; exact List.mem_cons_of_mem _ hc)
        · intro c hc
          rw [pv_unlink hS hi hn, if_neg]
          rw [hw]
          intro hcw
          rcases List.mem_append.mp hc with h1 | h1
          · exact hnd3.1 (hcw ▸ h1)
          · simp at h1; exact he (by rw [← h1, hcw]; simp)
  | b :: l₁, s, l₂, e, h, hnd, he => by
    have hnd' := List.nodup_cons.mp hnd
    have ih := seg_unlink hS hi hp hn l₁ b l₂ e h.2 hnd'.2 (fun hm => he (List.mem_cons_of_mem _ hm))
    obtain ⟨e1, e2, _, _⟩ := seg_node S i l₁ b x l₂ e h.2
    refine ⟨⟨?_, ?_⟩, ih⟩
    · rw [nx_unlink hS hi hp, if_neg]
      · exact h.1.1
      · rw [e1]; intro hs
        have : s ∈ b :: l₁ := hs ▸ List.getLast_mem _
        exact hnd'.1 (by
          rcases List.mem_cons.mp this with h1 | h1
          · simp [h1]
          · exact List.mem_cons_of_mem _ (List.mem_append_left _ h1))
    · rw [pv_unlink hS hi hn, if_neg]
      · exact h.1.2
      · rw [e2]; intro hb
        have : b ∈ l₂ ++ [e] := hb ▸ List.head_mem _
        have hnd2 := List.nodup_cons.mp hnd'.2
        rcases List.mem_append.mp this with h1 | h1
        · exact hnd2.1 (List.mem_append_right _ (List.mem_cons_of_mem _ h1))
        · simp at h1; exact he (by rw [← h1]; simp)

/-- what a well-formed list says about one of its nodes -/
structure NodeFacts (n : ℕ) (S : St) (i x : ℕ) : Prop where
  pv_le : pv S i x ≤ n
  nx_le : nx S i x ≤ n
  pv_ne : pv S i x ≠ x
  nx_ne : nx S i x ≠ x
  nx_pv : nx S i (pv S i x) = x
  pv_nx : pv S i (nx S i x) = x

theorem dl_zero_notMem {n : ℕ} {S : St} {i : ℕ} {L : List ℕ} (hd : DL n S i L) : 0 ∉ L :=
  fun hm => by have := (hd.2.2 0 hm).1; omega

theorem dl_nodeFacts {n : ℕ} {S : St} {i : ℕ} {L : List ℕ} (hd : DL n S i L) {x : ℕ} (hx : x ∈ L) :
    NodeFacts n S i x := by
  obtain ⟨l₁, l₂, rfl⟩ := List.append_of_mem hx
  obtain ⟨e1, e2, e3, e4⟩ := seg_node S i l₁ 0 x l₂ 0 hd.1
  have hnd := List.nodup_append.mp hd.2.1
  have hnd2 := List.nodup_cons.mp hnd.2.1
  have hx0 : x ≠ 0 := fun h => dl_zero_notMem hd (h ▸ hx)
  have hpm : pv S i x ∈ 0 :: l₁ := e1 ▸ List.getLast_mem _
  have hnm : nx S i x ∈ l₂ ++ [0] := e2 ▸ List.head_mem _
  refine ⟨?_, ?_, ?_, ?_, e3, e4⟩
  · rcases List.mem_cons.mp hpm with h | h
    · rw [h]; exact Nat.zero_le _
    · exact (hd.2.2 _ (List.mem_append_left _ h)).2
  · rcases List.mem_append.mp hnm with h | h
    · exact (hd.2.2 _ (List.mem_append_right _ (List.mem_cons_of_mem _ h))).2
    · simp at h; rw [h]; exact Nat.zero_le _
  · intro h
    rw [h] at hpm
    rcases List.mem_cons.mp hpm with h' | h'
    · exact hx0 h'
    · exact hnd.2.2 x h' x (by simp) rfl
  · intro h
    rw [h] at hnm
    rcases List.mem_append.mp hnm with h' | h'
    · exact hnd2.1 h'
    · simp at h'; exact hx0 h'

/-- unlinking a node of a well-formed list leaves the well-formed list without it; the node keeps its pointers -/
theorem dl_unlink {dims n : ℕ} {S : St} (hS : Shape dims n S) {i : ℕ} (hi : i < dims) {L : List ℕ}
    (hd : DL n S i L) {x : ℕ} (hx : x ∈ L) :
    DL n (unlink S i x) i (L.erase x) ∧ nx (unlink S i x) i x = nx S i x ∧ pv (unlink S i x) i x = pv S i x := by
  have nf := dl_nodeFacts hd hx
  obtain ⟨l₁, l₂, rfl⟩ := List.append_of_mem hx
  have hnd := List.nodup_append.mp hd.2.1
  have hnd2 := List.nodup_cons.mp hnd.2.1
  have hxl1 : x ∉ l₁ := fun h => hnd.2.2 x h x (by simp) rfl
  have herase : (l₁ ++ x :: l₂).erase x = l₁ ++ l₂ := by
    rw [List.erase_append_right _ hxl1, List.erase_cons_head]
  have h0 := dl_zero_notMem hd
  refine ⟨⟨?_, ?_, ?_⟩, ?_, ?_⟩
  · rw [herase]
    exact seg_unlink hS hi nf.pv_le nf.nx_le l₁ 0 l₂ 0 hd.1 (List.nodup_cons.mpr ⟨h0, hd.2.1⟩) h0
  · rw [herase]
    exact List.nodup_append.mpr ⟨hnd.1, hnd2.2, fun a ha b hb => hnd.2.2 a ha b (List.mem_cons_of_mem _ hb)⟩
  · intro a ha
    exact hd.2.2 a (List.mem_of_mem_erase ha)
  · rw [nx_unlink hS hi nf.pv_le, if_neg (Ne.symm nf.pv_ne)]
  · rw [pv_unlink hS hi nf.nx_le, if_neg (Ne.symm nf.nx_ne)]

/-- relinking undoes unlinking (in the dimension concerned), whatever happened to the other fields in between -/
theorem relink_unlink {dims n : ℕ} {S T : St} (hS : Shape dims n S) (hT : Shape dims n T) {i x : ℕ} (hi : i < dims)
    (nf : NodeFacts n S i x) (h : DimEq i (unlink S i x) T) : DimEq i S (relink T i x) := by
  have hpx : pv T i x = pv S i x := by
    rw [(h x).2, pv_unlink hS hi nf.nx_le, if_neg (Ne.symm nf.nx_ne)]
  have hnx : nx T i x = nx S i x := by
    rw [(h x).1, nx_unlink hS hi nf.pv_le, if_neg (Ne.symm nf.pv_ne)]
  intro a
  refine ⟨?_, ?_⟩
  · rw [nx_relink hT hi (by rw [hpx]; exact nf.pv_le), hpx]
    by_cases ha : a = pv S i x
    · rw [if_pos ha, ha, nf.nx_pv]
    · rw [if_neg ha, (h a).1, nx_unlink hS hi nf.pv_le, if_neg ha]
  · rw [pv_relink hT hi (by rw [hnx]; exact nf.nx_le) (by rw [hpx]; exact nf.pv_ne), hnx]
    by_cases ha : a = nx S i x
    · rw [if_pos ha, ha, nf.pv_nx]
    · rw [if_neg ha, (h a).2, pv_unlink hS hi nf.nx_le, if_neg ha]

/-! ### `remove` / `reinsert` over the dimensions `0 .. k-1` -/

/-- the body of the loop of `remove` -/
def rmStep (C : Cargo) (x : ℕ) (S : St) (i : ℕ) : St := lowerBound C (unlink S i x) x i
/-- the body of the loop of `reinsert` -/
def riStep (C : Cargo) (x : ℕ) (S : St) (i : ℕ) : St := lowerBound C (relink S i x) x i

theorem remove_eq (C : Cargo) (S : St) (x k : ℕ) : remove C S x k = (List.range k).foldl (rmStep C x) S := rfl
theorem reinsert_eq (C : Cargo) (S : St) (x k : ℕ) : reinsert C S x k = (List.range k).foldl (riStep C x) S := rfl

theorem remove_succ (C : Cargo) (S : St) (x k : ℕ) : remove C S x (k + 1) = rmStep C x (remove C S x k) k := by
  rw [remove_eq, remove_eq, List.range_succ, List.foldl_append]; rfl
theorem reinsert_succ (C : Cargo) (S : St) (x k : ℕ) : reinsert C S x (k + 1) = riStep C x (reinsert C S x k) k := by
  rw [reinsert_eq, reinsert_eq, List.range_succ, List.foldl_append]; rfl

theorem dimEq_lowerBound (C : Cargo) (S : St) (x i j : ℕ) : DimEq j S (lowerBound C S x i) :=
  fun a => ⟨nx_lowerBound C S x i j a, pv_lowerBound C S x i j a⟩

theorem rmStep_other (C : Cargo) (x : ℕ) (S : St) (i j : ℕ) (hj : j ≠ i) : DimEq j S (rmStep C x S i) :=
  (unlink_other S i x j hj).trans (dimEq_lowerBound C _ x i j)
theorem riStep_other (C : Cargo) (x : ℕ) (S : St) (i j : ℕ) (hj : j ≠ i) : DimEq j S (riStep C x S i) :=
  (relink_other S i x j hj).trans (dimEq_lowerBound C _ x i j)

theorem shape_remove {dims n : ℕ} (C : Cargo) (x : ℕ) : ∀ (k : ℕ) (S : St), Shape dims n S → Shape dims n (remove C S x k)
  | 0, S, h => h
  | k + 1, S, h => by
    rw [remove_succ]; exact shape_lowerBound (shape_unlink (shape_remove C x k S h) _ _) _ _ _
theorem shape_reinsert {dims n : ℕ} (C : Cargo) (x : ℕ) : ∀ (k : ℕ) (S : St), Shape dims n S → Shape dims n (reinsert C S x k)
  | 0, S, h => h
  | k + 1, S, h => by
    rw [reinsert_succ]; exact shape_lowerBound (shape_relink (shape_reinsert C x k S h) _ _) _ _ _

/-- dimensions `≥ k` are not touched -/
theorem remove_ge (C : Cargo) (x : ℕ) : ∀ (k : ℕ) (S : St) (j : ℕ), k ≤ j → DimEq j S (remove C S x k)
  | 0, S, j, _ => DimEq.refl j S
  | k + 1, S, j, h => by
    rw [remove_succ]
    exact (remove_ge C x k S j (by omega)).trans (rmStep_other C x _ k j (by omega))
theorem reinsert_ge (C : Cargo) (x : ℕ) : ∀ (k : ℕ) (S : St) (j : ℕ), k ≤ j → DimEq j S (reinsert C S x k)
  | 0, S, j, _ => DimEq.refl j S
  | k + 1, S, j, h => by
    rw [reinsert_succ]
    exact (reinsert_ge C x k S j (by omega)).trans (riStep_other C x _ k j (by omega))

/-- in a dimension `i < k`, `remove` is `unlink` (pointerwise) -/
theorem remove_lt {dims n : ℕ} (C : Cargo) (x : ℕ) : ∀ (k : ℕ) (S : St), Shape dims n S → k ≤ dims →
    (∀ i < k, NodeFacts n S i x) → ∀ i < k, DimEq i (unlink S i x) (remove C S x k)
  | 0, _, _, _, _, i, hi => by omega
  | k + 1, S, hS, hk, hnf, i, hi => by
    rw [remove_succ]
    by_cases hik : i = k
    · subst hik
      have hge := remove_ge C x i S i (le_refl _)
      have hS' := shape_remove (dims := dims) (n := n) C x i S hS
      have nf := hnf i (by omega)
      refine DimEq.trans ?_ (dimEq_lowerBound C _ x i i)
      intro a
      have hp : pv (remove C S x i) i x = pv S i x := (hge x).2
      have hn : nx (remove C S x i) i x = nx S i x := (hge x).1
      refine ⟨?_, ?_⟩
      · rw [nx_unlink hS' (by omega) (by rw [hp]; exact nf.pv_le), nx_unlink hS (by omega) nf.pv_le, hp, hn, (hge a).1]
      · rw [pv_unlink hS' (by omega) (by rw [hn]; exact nf.nx_le), pv_unlink hS (by omega) nf.nx_le, hp, hn, (hge a).2]
    · have := remove_lt C x k S hS (by omega) (fun j hj => hnf j (by omega)) i (by omega)
      exact this.trans (rmStep_other C x _ k i hik)

/-- `reinsert` undoes `remove` on the pointers, whatever happened to the other fields in between -/
theorem reinsert_remove {dims n : ℕ} (C : Cargo) (x : ℕ) (k : ℕ) (S T : St) (hS : Shape dims n S) (hT : Shape dims n T)
    (hk : k ≤ dims) (hnf : ∀ i < k, NodeFacts n S i x) (h : PtrEq (remove C S x k) T) :
    PtrEq S (reinsert C T x k) := by
  apply ptrEq_of_dims
  intro i
  by_cases hik : i < k
  · -- dimension i: relink after unlink
    have h1 : DimEq i (unlink S i x) T := (remove_lt C x k S hS hk hnf i hik).trans (h.dim i)
    -- reinsert = fold; isolate step i
    have key : ∀ (m : ℕ), m ≤ k →
        (m ≤ i → DimEq i T (reinsert C T x m)) ∧ (i < m → DimEq i S (reinsert C T x m)) := by
      intro m
      induction m with
      | zero => intro _; exact ⟨fun _ => DimEq.refl i T, fun h => by omega⟩
      | succ m ih =>
        intro hm
        obtain ⟨ih1, ih2⟩ := ih (by omega)
        rw [reinsert_succ]
        refine ⟨fun hle => ?_, fun hlt => ?_⟩
        · exact (ih1 (by omega)).trans (riStep_other C x _ m i (by omega))
        · by_cases him : i = m
          · subst him
            have hTm := shape_reinsert (dims := dims) (n := n) C x i T hT
            have h2 : DimEq i (unlink S i x) (reinsert C T x i) := h1.trans (ih1 (le_refl _))
            exact (relink_unlink hS hTm (by omega) (hnf i hik) h2).trans (dimEq_lowerBound C _ x i i)
          · exact (ih2 (by omega)).trans (riStep_other C x _ m i him)
    exact (key k (le_refl _)).2 hik
  · have hge : k ≤ i := by omega
    exact ((remove_ge C x k S i hge).trans (h.dim i)).trans (reinsert_ge C x k T i hge)

end HvSweep
