/-
C06 — translator tie: helper lemmas about the tape monad of Core/GenPreludeC06.lean (`GenS.M`) and the bridges from the
control structures the translator emits (`mapM`, `forLoop`, `whileLoop`) to the recursive functions of the hand-written
model (`repeatM`, `spin`, `susWalk`).
-/
import DeapModel.Core.GenPreludeC06
import DeapModel.Lemmas.C06Wheel

set_option linter.unusedSectionVars false
set_option linter.unusedSimpArgs false
set_option linter.unusedVariables false

namespace C06G
open Selection C06L

variable {α β γ σ : Type}

/-! ### monad laws -/

@[simp] theorem pure_bind (a : α) (f : α → GenS.M β) : GenS.bind (GenS.pure a) f = f a := rfl

@[simp] theorem bind_pure (m : GenS.M α) : GenS.bind m GenS.pure = m := by
  funext t; unfold GenS.bind GenS.pure; cases m t with
  | none => rfl
  | some p => rfl

@[simp] theorem bind_pure' (m : GenS.M α) : (GenS.bind m fun x => GenS.pure x) = m := bind_pure m

theorem bind_assoc (m : GenS.M α) (f : α → GenS.M β) (g : β → GenS.M γ) :
    GenS.bind (GenS.bind m f) g = GenS.bind m fun x => GenS.bind (f x) g := by
  funext t; unfold GenS.bind; cases m t with
  | none => rfl
  | some p => rfl

@[simp] theorem raise_bind (f : α → GenS.M β) : GenS.bind GenS.raise f = GenS.raise := rfl
@[simp] theorem lift_some (a : α) : GenS.lift (some a) = GenS.pure a := rfl
@[simp] theorem lift_none : (GenS.lift none : GenS.M α) = GenS.raise := rfl

theorem bind_congr {m : GenS.M α} {f g : α → GenS.M β} (h : ∀ a, f a = g a) : GenS.bind m f = GenS.bind m g := by
  have : f = g := funext h
  rw [this]

/-- evaluation of a GenS.bind on a tape -/
theorem bind_apply (m : GenS.M α) (f : α → GenS.M β) (t : Tape) :
    GenS.bind m f t = match m t with | none => none | some (a, t') => f a t' := rfl

/-! ### comprehensions -/

/-- `[step() for _ in range(k)]` -/
theorem mapM_const (step : GenS.M β) (l : List α) : GenS.mapM (fun _ => step) l = repeatM step l.length := by
  induction l with
  | nil => rfl
  | cons x xs ih =>
    funext t
    simp only [GenS.mapM, List.length_cons, Selection.repeatM, ih, bind_apply]
    cases step t with
    | none => rfl
    | some p =>
      obtain ⟨a, t1⟩ := p
      simp only
      cases repeatM step xs.length t1 with
      | none => rfl
      | some q => rfl

/-- a comprehension whose element may GenS.raise but draws nothing -/
theorem mapM_lift (f : α → Option β) (l : List α) : GenS.mapM (fun x => GenS.lift (f x)) l = GenS.lift (l.mapM f) := by
  induction l with
  | nil => rfl
  | cons x xs ih =>
    simp only [GenS.mapM, ih, List.mapM_cons]
    cases f x with
    | none => rfl
    | some y =>
      cases List.mapM f xs with
      | none => rfl
      | some ys => rfl

/-- `random.choice(individuals)` on the list of all positions is the model's `popChoice` -/
theorem choice_range (n : Nat) : GenS.choice (List.range n) = popChoice n := by
  funext t
  unfold GenS.choice
  simp only [List.length_range]
  cases h : popChoice n t with
  | none => rfl
  | some p =>
    obtain ⟨i, t'⟩ := p
    have hi : i < n := (popChoice_some.1 h).2
    simp [List.getElem?_range hi]

/-! ### loops that collect one element per iteration -/

/-- `for x in l: …; acc.append(y)` -/
theorem forLoop_collect (step : α → GenS.M β) (body : α → List β → GenS.M (Bool × List β))
    (h : ∀ x acc, body x acc = GenS.bind (step x) fun y => GenS.pure (false, acc ++ [y])) (l : List α) (acc : List β) :
    GenS.forLoop body l acc = GenS.bind (GenS.mapM step l) fun ys => GenS.pure (acc ++ ys) := by
  induction l generalizing acc with
  | nil => simp [GenS.forLoop, GenS.mapM]
  | cons x xs ih =>
    simp only [GenS.forLoop, GenS.mapM, h, bind_assoc, pure_bind, Bool.false_eq_true, ↓reduceIte, ih]
    refine bind_congr fun y => bind_congr fun ys => ?_
    simp

/-- `for x in l: …; if found: acc.append(y)` (at most one append per iteration) -/
theorem forLoop_collect_opt (step : α → GenS.M (Option β)) (body : α → List β → GenS.M (Bool × List β))
    (h : ∀ x acc, body x acc = GenS.bind (step x) fun y => GenS.pure (false, acc ++ y.toList)) (l : List α) (acc : List β) :
    GenS.forLoop body l acc = GenS.bind (GenS.mapM step l) fun ys => GenS.pure (acc ++ ys.filterMap id) := by
  induction l generalizing acc with
  | nil => simp [GenS.forLoop, GenS.mapM]
  | cons x xs ih =>
    simp only [GenS.forLoop, GenS.mapM, h, bind_assoc, pure_bind, Bool.false_eq_true, ↓reduceIte, ih]
    refine bind_congr fun y => bind_congr fun ys => ?_
    cases y <;> simp

/-! ### attribute access on the positions of the whole population -/

theorem valuesAt_lt {w : List Rat} {pop : Pop} {i : Nat} (h : i < pop.length) :
    GenS.valuesAt w pop i = values w pop[i] := by
  simp [GenS.valuesAt, List.getElem?_eq_getElem h]

/-- `[getattr(ind, fit_attr).values[0] for ind in individuals]` = the model's `firstVals` -/
theorem mapM_firstVals (w : List Rat) (pop : Pop) :
    (List.range pop.length).mapM (fun i => (GenS.valuesAt w pop i)[0]?) = firstVals w pop := by
  unfold firstVals
  induction pop with
  | nil => rfl
  | cons x xs ih =>
    rw [List.length_cons, List.range_succ_eq_map, List.mapM_cons, List.mapM_cons, List.mapM_map]
    have : (fun i => (GenS.valuesAt w (x :: xs) (Nat.succ i))[0]?) = fun i => (GenS.valuesAt w xs i)[0]? := by
      funext i; simp [GenS.valuesAt]
    simp only [Function.comp_def, this, ih]
    simp [GenS.valuesAt, List.head?_eq_getElem?]

/-- with `firstVals = some fs`, the first value of position `i` is `fs[i]` -/
theorem first_value {w : List Rat} {pop : Pop} {fs : List Rat} (h : firstVals w pop = some fs) {i : Nat}
    (hi : i < pop.length) : (GenS.valuesAt w pop i)[0]? = some (fs.getD i 0) := by
  unfold firstVals at h
  induction pop generalizing fs i with
  | nil => simp at hi
  | cons x xs ih =>
    obtain ⟨y, ys, h1, h2, rfl⟩ := (mapM_cons_some _ x xs fs).1 h
    cases i with
    | zero => simpa [GenS.valuesAt, List.head?_eq_getElem?] using h1
    | succ j =>
      have := ih h2 (Nat.lt_of_succ_lt_succ hi)
      simpa [GenS.valuesAt] using this

/-- reading the first value of the individual at `l[i]` -/
theorem lift_index_first {w : List Rat} {pop : Pop} {fs : List Rat} (h : firstVals w pop = some fs) {l : List Nat}
    (hl : ∀ x ∈ l, x < pop.length) (i : Nat) (f : Nat → Rat → GenS.M β) :
    (GenS.bind (GenS.lift (l[i]?)) fun x => GenS.bind (GenS.lift ((GenS.valuesAt w pop x)[0]?)) (f x))
      = GenS.bind (GenS.lift (l[i]?)) fun x => f x (fs.getD x 0) := by
  cases hx : l[i]? with
  | none => rfl
  | some x =>
    have : x ∈ l := List.mem_of_getElem? hx
    simp [first_value h (hl x this)]

/-! ### the roulette wheel -/

/-- the running sum when the inner loop of `selRoulette` stops -/
def spinSum (fs : List Rat) (u : Rat) : List Nat → Rat → Rat
  | [], s => s
  | i :: rest, s => if s + fs.getD i 0 > u then s + fs.getD i 0 else spinSum fs u rest (s + fs.getD i 0)

/-- the inner `for ind in s_inds` loop of `selRoulette` is the model's `spin` -/
theorem forLoop_spin {w : List Rat} {pop : Pop} {fs : List Rat} (h : firstVals w pop = some fs) (u : Rat)
    (l : List Nat) (hl : ∀ x ∈ l, x < pop.length) (ch : List Nat) (s : Rat) :
    GenS.forLoop (fun (ind : Nat) (st : List Nat × Rat) =>
        GenS.bind (GenS.lift ((GenS.valuesAt w pop ind)[0]?)) fun x =>
          if st.2 + x > u then GenS.pure (true, (st.1 ++ [ind], st.2 + x)) else GenS.pure (false, (st.1, st.2 + x))) l (ch, s)
      = GenS.pure (ch ++ (spin fs u l s).toList, spinSum fs u l s) := by
  induction l generalizing s with
  | nil => simp [GenS.forLoop, spin, spinSum]
  | cons i rest ih =>
    have hi : i < pop.length := hl i (by simp)
    simp only [GenS.forLoop, first_value h hi, lift_some, pure_bind, spin, spinSum]
    split
    · rfl
    · simp only [pure_bind, Bool.false_eq_true, ↓reduceIte]
      exact ih (fun x hx => hl x (by simp [hx])) _

theorem rouletteStep_eq (fs : List Rat) (o : List Nat) (S : Rat) :
    rouletteStep fs o S = GenS.bind popRandom fun r => GenS.pure (spin fs (r * S) o 0) := by
  funext t
  simp only [rouletteStep, bind_apply]
  cases popRandom t with
  | none => rfl
  | some p => rfl

/-! ### stochastic universal sampling -/

/-- the `while sum_ < p` walk of `selStochasticUniversalSampling` followed by `s_inds[i]` is the model's `susWalk` -/
theorem while_susWalk (fs : List Rat) (p : Rat) (o : List Nat) (rest : List Nat) :
    ∀ (cur : Nat) (pre : List Nat) (s : Rat) (fuel : Nat), o = pre ++ cur :: rest → rest.length + 1 ≤ fuel →
    (GenS.bind (GenS.whileLoop (fun (st : Nat × Rat) => decide (st.2 < p))
        (fun (st : Nat × Rat) => GenS.bind (GenS.lift (o[st.1 + 1]?)) fun x => GenS.pure (false, (st.1 + 1, st.2 + fs.getD x 0)))
        fuel (pre.length, s)) fun st => GenS.lift (o[st.1]?))
      = GenS.lift (susWalk fs p cur s rest) := by
  induction rest with
  | nil =>
    intro cur pre s fuel ho hf
    obtain ⟨f, rfl⟩ : ∃ f, fuel = f + 1 := ⟨fuel - 1, by omega⟩
    subst ho
    by_cases hc : s < p
    · simp [GenS.whileLoop, susWalk, hc]
    · simp [GenS.whileLoop, susWalk, hc]
  | cons j rest' ih =>
    intro cur pre s fuel ho hf
    obtain ⟨f, rfl⟩ : ∃ f, fuel = f + 1 := ⟨fuel - 1, by simp at hf; omega⟩
    by_cases hc : s < p
    · have hj : o[pre.length + 1]? = some j := by subst ho; simp
      have ho' : o = (pre ++ [cur]) ++ j :: rest' := by simp [ho]
      have := ih j (pre ++ [cur]) (s + fs.getD j 0) f ho' (by simp at hf ⊢; omega)
      simp only [List.length_append, List.length_cons, List.length_nil, Nat.zero_add] at this
      simp only [GenS.whileLoop, susWalk, hc, decide_true, ↓reduceIte, hj, lift_some, pure_bind, Bool.false_eq_true]
      exact this
    · subst ho
      simp [GenS.whileLoop, susWalk, hc]

/-- one pointer of `selStochasticUniversalSampling` (`i = 0; sum_ = …; while sum_ < p: …; chosen.append(s_inds[i])`)
is the model's `susPoint` -/
theorem sus_body {w : List Rat} {pop : Pop} {fs : List Rat} (h : firstVals w pop = some fs) {o : List Nat}
    (hl : ∀ x ∈ o, x < pop.length) (p : Rat) (acc : List Nat) :
    (GenS.bind (GenS.lift (o[(0 : Nat)]?)) fun x10 => GenS.bind (GenS.lift ((GenS.valuesAt w pop x10)[(0 : Nat)]?)) fun x11 =>
      GenS.bind (GenS.whileLoop (fun (st : Nat × Rat) => decide (st.2 < p))
        (fun (st : Nat × Rat) => GenS.bind (GenS.lift (o[st.1 + (1 : Nat)]?)) fun x12 =>
          GenS.bind (GenS.lift ((GenS.valuesAt w pop x12)[(0 : Nat)]?)) fun x13 => GenS.pure (false, (st.1 + (1 : Nat), st.2 + x13)))
        (o.length + 1) ((0 : Nat), x11)) fun s14 =>
        GenS.bind (GenS.lift (o[s14.1]?)) fun x15 => GenS.pure (false, acc ++ [x15]))
      = GenS.bind (GenS.lift (susPoint fs o p)) fun y => GenS.pure (false, acc ++ [y]) := by
  have hb : (fun (st : Nat × Rat) => GenS.bind (GenS.lift (o[st.1 + (1 : Nat)]?)) fun x12 =>
        GenS.bind (GenS.lift ((GenS.valuesAt w pop x12)[(0 : Nat)]?)) fun x13 =>
          (GenS.pure (false, (st.1 + (1 : Nat), st.2 + x13)) : GenS.M (Bool × (Nat × Rat))))
      = fun st => GenS.bind (GenS.lift (o[st.1 + 1]?)) fun x => GenS.pure (false, (st.1 + 1, st.2 + fs.getD x 0)) :=
    funext fun st => lift_index_first h hl _ _
  rw [hb, lift_index_first h hl 0]
  cases o with
  | nil => rfl
  | cons i rest =>
    simp only [List.getElem?_cons_zero, lift_some, pure_bind, susPoint]
    rw [← bind_assoc]
    have := while_susWalk fs p (i :: rest) rest i [] (fs.getD i 0) ((i :: rest).length + 1) rfl (by simp)
    simp only [List.length_nil] at this
    rw [this]

/-! ### one tournament -/

/-- `max(selRandom(individuals, tournsize), key=attrgetter(fit_attr))`, followed by `g` -/
theorem tournStep_bind (pop : Pop) (ts : Nat) (g : Nat → GenS.M β) :
    (GenS.bind (Selection.repeatM (popChoice pop.length) ts) fun f => GenS.bind (GenS.lift (pyMax (fitGt pop) f)) g)
      = GenS.bind (tournStep pop ts) g := by
  funext t
  simp only [tournStep, Selection.selRandom, bind_apply]
  cases Selection.repeatM (popChoice pop.length) ts t with
  | none => rfl
  | some p =>
    obtain ⟨a, t1⟩ := p
    simp only [GenS.lift]
    cases pyMax (fitGt pop) a <;> rfl

theorem tournStep_eq (pop : Pop) (ts : Nat) :
    (GenS.bind (Selection.repeatM (popChoice pop.length) ts) fun f => GenS.lift (pyMax (fitGt pop) f)) = tournStep pop ts := by
  have := tournStep_bind pop ts (GenS.pure)
  simpa using this

end C06G
