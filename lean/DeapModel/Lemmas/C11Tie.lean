/-
Helper lemmas of the C11 translator tie (GenEq/C11.lean.tmpl): the Python notions of Core/GenPreludeC11.lean against the
hand-written list-level models of Core/GpTree.lean / GpCompile.lean.
-/
import DeapModel.Core.GenPreludeC11
import DeapModel.Core.GpCompile
import DeapModel.Core.GpGraph

namespace Gen11
open GpTree

theorem index_nat {α : Type} (l : List α) (n : Nat) : index l (n : Int) = l[n]? := by
  simp [index]

theorem pop_nil {α : Type} : pop ([] : List α) = none := rfl

theorem pop_snoc {α : Type} (l : List α) (a : α) : pop (l ++ [a]) = some (a, l) := by
  simp [pop]

theorem rep_single {α : Type} (x : α) (n : Nat) : rep [x] (n : Int) = List.replicate n x := by
  simp [rep]

theorem arity_eq (p : Node) : arity p = (p.arity : Int) := rfl

/-- a `for` loop whose body cannot raise is a left fold -/
theorem forM_pure {α σ : Type} (f : α → σ → Option σ) (g : σ → α → σ) (h : ∀ a s, f a s = some (g s a)) :
    ∀ (l : List α) (s : σ), forM l s f = some (l.foldl g s)
  | [], s => rfl
  | a :: as, s => by simp [forM, h, forM_pure f g h as]

/-- the loop of `height`: Python's stack (top = last element) is the model's stack reversed -/
theorem height_forM (f : Node → List Int × Int → Option (List Int × Int))
    (h0 : ∀ e m, f e ([], m) = none)
    (h1 : ∀ e (st : List Int) d m, f e (st ++ [d], m) = some (st ++ rep [d + 1] (arity e), max m d)) :
    ∀ (l : List Prim) (st : List Nat) (m : Nat),
      (forM l ((st.map Int.ofNat).reverse, (m : Int)) f).map Prod.snd = (heightGo l st m).map Int.ofNat
  | [], st, m => by simp [forM, heightGo]
  | p :: rest, [], m => by simp [forM, heightGo, h0]
  | p :: rest, d :: st, m => by
    have e1 : ((d :: st).map Int.ofNat).reverse = (st.map Int.ofNat).reverse ++ [(d : Int)] := by simp
    rw [e1]
    simp only [forM, h1, heightGo]
    have e2 : (st.map Int.ofNat).reverse ++ rep [(d : Int) + 1] (arity p)
        = ((List.replicate p.arity (d + 1) ++ st).map Int.ofNat).reverse := by
      rw [arity_eq, show ((d : Int) + 1) = ((d + 1 : Nat) : Int) from rfl, rep_single]
      simp
    have e3 : max (m : Int) (d : Int) = ((max m d : Nat) : Int) := by omega
    rw [e2, e3]
    exact height_forM f h0 h1 rest _ _

/-- the `while total > 0` loop of `searchSubtree` over non-negative positions -/
theorem walk_whileM (l : List Prim) (c : Int × Int → Option Bool) (body : Int × Int → Option (Bool × (Int × Int)))
    (hc : ∀ t e, c (t, e) = some (decide (0 < t)))
    (hb : ∀ t e, body (t, e) = (index l e).map (fun x => (true, (t + (arity x - 1), e + 1)))) :
    ∀ (fuel e t : Nat), e ≤ l.length → l.length + 1 ≤ fuel + e →
      whileM fuel ((t : Int), (e : Int)) c body = (walk (l.drop e) t e).map (fun e' => ((0 : Int), (e' : Int)))
  | 0, e, t, h1, h2 => by omega
  | fuel + 1, e, 0, h1, h2 => by
    cases h : l.drop e <;> simp [whileM, hc, walk]
  | fuel + 1, e, t + 1, h1, h2 => by
    have ht : (0 : Int) < ((t + 1 : Nat) : Int) := by omega
    simp only [whileM, hc, ht, decide_true, hb, index_nat]
    by_cases he : e < l.length
    · have hd : l.drop e = l[e] :: l.drop (e + 1) := by simp
      rw [hd]
      simp only [List.getElem?_eq_getElem he, Option.map_some, walk]
      have := walk_whileM l c body hc hb fuel (e + 1) (t + l[e].arity) (by omega) (by omega)
      rw [← this]
      congr 2
      simp [arity_eq]
      omega
    · have : l.drop e = [] := List.drop_eq_nil_of_le (by omega)
      rw [this]
      simp [walk, List.getElem?_eq_none (Nat.le_of_not_lt he)]

theorem setSlice_nat {α : Type} (l : List α) (b e : Nat) (val : List α) (hbe : b ≤ e) (hb : b < l.length) :
    setSlice l ((b : Int), (e : Int)) val = l.take b ++ val ++ l.drop e := by
  have c1 : ∀ k : Nat, clip l.length (k : Int) = min k l.length := by
    intro k; simp [clip]; omega
  simp only [setSlice, c1]
  rw [Nat.min_eq_left (Nat.le_of_lt hb)]
  by_cases h : e ≤ l.length
  · rw [Nat.min_eq_left h, Nat.max_eq_right hbe]
  · rw [Nat.min_eq_right (by omega), Nat.max_eq_right (Nat.le_of_lt hb)]
    rw [List.drop_eq_nil_of_le (Nat.le_refl _), List.drop_eq_nil_of_le (by omega)]

/-- `searchSubtreePy` where the normalised index is a natural number -/
theorem searchSubtreePy_nat (l : List Prim) (i : Int) (b : Nat) (h : pyIndex l.length i = (b : Int)) :
    searchSubtreePy l i = (searchSubtree l b).map (fun be => ((be.1 : Int), (be.2 : Int))) := by
  simp [searchSubtreePy, h]

end Gen11

/-! ## `__str__` -/

namespace Gen11
open GpTree GpCompile

/-- a terminal / ephemeral node has arity 0 (gp.py:242-244) -/
def NodeOK (p : Node) : Prop := p.kind ≠ .prim → p.args = []

theorem join_eq : ∀ (l : List Str), join l = joinArgs l
  | [] => rfl
  | [a] => rfl
  | a :: b :: rest => by simp [join, joinArgs, join_eq (b :: rest)]

theorem format_eq (p : Node) (a : List Str) (hp : NodeOK p) (h : a.length = p.arity) :
    format p a = some (fmt p a) := by
  unfold format fmt
  by_cases hk : p.kind = .prim
  · simp [hk, Prim.arity] at *
    simp [← h, join_eq]
  · have := hp hk
    simp [hk, Prim.arity, this] at *
    exact h

/-- the inner `while` of `__str__`: Python's stack (top = last) is the model's frame list reversed -/
theorem unwind_whileM (c : List (Node × List Str) × Str → Option Bool)
    (body : List (Node × List Str) × Str → Option (Bool × (List (Node × List Str) × Str)))
    (hc : ∀ S p a s, c (S ++ [(p, a)], s) = some (decide (len a = arity p)))
    (hb0 : ∀ p a s, body ([(p, a)], s) = (format p a).map (fun str => (false, ([], str))))
    (hb1 : ∀ S q qa p a s, body (S ++ [(q, qa)] ++ [(p, a)], s)
        = (format p a).map (fun str => (true, (S ++ [(q, qa ++ [str])], str)))) :
    ∀ (st : List (Prim × List Str)) (fuel : Nat) (p : Prim) (a : List Str) (s : Str),
      st.length + 1 ≤ fuel → NodeOK p → (∀ x ∈ st, NodeOK x.1) →
      whileM fuel (st.reverse ++ [(p, a)], s) c body
        = some ((unwind p a st s).2.reverse, (unwind p a st s).1)
  | _, 0, _, _, _, h, _, _ => by omega
  | [], fuel + 1, p, a, s, _, hp, _ => by
    have h0 : ([] : List (Prim × List Str)).reverse ++ [(p, a)] = [] ++ [(p, a)] := rfl
    rw [h0]
    simp only [whileM, hc, unwind]
    by_cases h : a.length = p.arity
    · have : len a = arity p := by simp [len, arity_eq, h]
      simp [this, h, hb0, format_eq p a hp h]
    · have : ¬ len a = arity p := by simp [len, arity_eq]; omega
      simp [this, h]
  | (q, qa) :: st, fuel + 1, p, a, s, hf, hp, hst => by
    have h0 : ((q, qa) :: st).reverse ++ [(p, a)] = st.reverse ++ [(q, qa)] ++ [(p, a)] := by simp
    rw [h0]
    simp only [whileM, hc, unwind]
    by_cases h : a.length = p.arity
    · have : len a = arity p := by simp [len, arity_eq, h]
      simp only [this, h, hb1, format_eq p a hp h, decide_true, if_true, Option.map_some]
      exact unwind_whileM c body hc hb0 hb1 st fuel q _ _ (by simp at hf; omega)
        (hst (q, qa) (by simp)) (fun x hx => hst x (by simp [hx]))
    · have : ¬ len a = arity p := by simp [len, arity_eq]; omega
      simp [this, h]

theorem unwind_frames : ∀ (st : List (Prim × List Str)) (p : Prim) (a : List Str) (s : Str),
    NodeOK p → (∀ x ∈ st, NodeOK x.1) → ∀ x ∈ (unwind p a st s).2, NodeOK x.1
  | [], p, a, s, hp, _ => by
    unfold unwind; split <;> simp; exact hp
  | (q, qa) :: st, p, a, s, hp, hst => by
    unfold unwind; split
    · exact unwind_frames st q _ _ (hst (q, qa) (by simp)) (fun x hx => hst x (by simp [hx]))
    · intro x hx
      rcases List.mem_cons.1 hx with rfl | hx
      · exact hp
      · exact hst x hx

theorem unwind_length : ∀ (st : List (Prim × List Str)) (p : Prim) (a : List Str) (s : Str),
    (unwind p a st s).2.length ≤ st.length + 1
  | [], p, a, s => by unfold unwind; split <;> simp
  | (q, qa) :: st, p, a, s => by
    unfold unwind; split
    · have := unwind_length st q (qa ++ [fmt p a]) (fmt p a); simp only [List.length_cons]; omega
    · simp

/-- the `for node in self` loop of `__str__` -/
theorem str_forM (f : Node → List (Node × List Str) × Str → Option (List (Node × List Str) × Str))
    (hf : ∀ node (st : List (Prim × List Str)) s, NodeOK node → (∀ x ∈ st, NodeOK x.1) →
      f node (st.reverse, s) = some ((unwind node [] st s).2.reverse, (unwind node [] st s).1)) :
    ∀ (l : List Prim) (st : List (Prim × List Str)) (s : Str), (∀ p ∈ l, NodeOK p) → (∀ x ∈ st, NodeOK x.1) →
      (forM l (st.reverse, s) f).map Prod.snd
        = some (l.foldl (fun (state : Str × List (Prim × List Str)) node => unwind node [] state.2 state.1) (s, st)).1
  | [], st, s, _, _ => by simp [forM]
  | p :: rest, st, s, hl, hst => by
    simp only [forM, hf p st s (hl p (by simp)) hst, List.foldl_cons]
    exact str_forM f hf rest _ _ (fun x hx => hl x (by simp [hx]))
      (unwind_frames st p [] s (hl p (by simp)) hst)

end Gen11

namespace Gen11
theorem index_last {α : Type} (S : List α) (x : α) : index (S ++ [x]) (-1) = some x := by
  have h1 : ¬ (0 : Int) ≤ -1 := by omega
  have h2 : (0 : Int) ≤ -1 + ((S ++ [x]).length : Int) := by simp; omega
  have h3 : (-1 + ((S ++ [x]).length : Int)).toNat = S.length := by simp; omega
  simp only [index, h1, h2, h3, if_true, if_false]
  simp
theorem pop_snoc2 {α : Type} (S : List α) (y x : α) : pop (S ++ [y, x]) = some (x, S ++ [y]) := by
  have : S ++ [y, x] = (S ++ [y]) ++ [x] := by simp
  rw [this, pop_snoc]
theorem pop_singleton {α : Type} (x : α) : pop [x] = some (x, []) := rfl
theorem modLast_snoc {α : Type} (S : List α) (x : α) (f : α → α) : modLast (S ++ [x]) f = some (S ++ [f x]) := by
  simp [modLast]
end Gen11

/-! ## `searchSubtree`: any Python int -/

namespace Gen11
open GpTree

/-- the `while total > 0` loop of `searchSubtree` reading the positions `off, off+1, …` of a virtual list `L` -/
theorem walk_whileM_off (L : List Prim) (off : Int) (get : Int → Option Prim)
    (hget : ∀ k : Nat, k ≤ L.length → get (off + (k : Int)) = L[k]?)
    (c : Int × Int → Option Bool) (body : Int × Int → Option (Bool × (Int × Int)))
    (hc : ∀ t e, c (t, e) = some (decide (0 < t)))
    (hb : ∀ t e, body (t, e) = (get e).map (fun x => (true, (t + (arity x - 1), e + 1)))) :
    ∀ (fuel k t : Nat), k ≤ L.length → L.length + 1 ≤ fuel + k →
      whileM fuel ((t : Int), off + (k : Int)) c body = (walk (L.drop k) t k).map (fun (k' : Nat) => ((0 : Int), off + (k' : Int)))
  | 0, k, t, h1, h2 => by omega
  | fuel + 1, k, 0, h1, h2 => by
    cases h : L.drop k <;> simp [whileM, hc, walk]
  | fuel + 1, k, t + 1, h1, h2 => by
    have ht : (0 : Int) < ((t + 1 : Nat) : Int) := by omega
    simp only [whileM, hc, ht, decide_true, hb, hget k h1]
    by_cases he : k < L.length
    · have hd : L.drop k = L[k] :: L.drop (k + 1) := by simp
      rw [hd]
      simp only [List.getElem?_eq_getElem he, Option.map_some, walk]
      have := walk_whileM_off L off get hget c body hc hb fuel (k + 1) (t + L[k].arity) (by omega) (by omega)
      rw [← this]
      congr 2
      · simp [arity_eq]; omega
      · omega
    · have : L.drop k = [] := List.drop_eq_nil_of_le (by omega)
      rw [this]
      simp [walk, List.getElem?_eq_none (Nat.le_of_not_lt he)]

/-- Python's reading of the positions `b, b+1, …` for a negative `b ≥ -len`: first the tail from `b+len`, then the list
again from 0 -/
theorem index_wrap (l : List Prim) (b : Int) (hb : b < 0) (hb2 : 0 ≤ b + (l.length : Int)) :
    ∀ k : Nat, k ≤ (l.drop (b + (l.length : Int)).toNat ++ l).length →
      index l (b + (k : Int)) = (l.drop (b + (l.length : Int)).toNat ++ l)[k]? := by
  intro k hk
  simp only [List.length_append, List.length_drop] at hk
  unfold index
  by_cases h1 : 0 ≤ b + (k : Int)
  · have : (l.drop (b + (l.length : Int)).toNat).length ≤ k := by simp; omega
    rw [if_pos h1, List.getElem?_append_right this]
    congr 1
    simp; omega
  · have h2 : 0 ≤ b + (k : Int) + (l.length : Int) := by omega
    have : k < (l.drop (b + (l.length : Int)).toNat).length := by simp; omega
    rw [if_neg h1, if_pos h2, List.getElem?_append_left this, List.getElem?_drop]
    congr 1
    omega

end Gen11

/-! ## `graph` -/
namespace Gen11
open GpTree

def castP (x : Nat × Nat) : Int × Int := ((x.1 : Int), (x.2 : Int))
/-- Python's stack of `[i, remaining]` pairs (top = last) for the model's stack (top = head) -/
def SP (st : List (Nat × Nat)) : List (Int × Int) := (st.map castP).reverse

theorem SP_cons (x : Nat × Nat) (st : List (Nat × Nat)) : SP (x :: st) = SP st ++ [castP x] := by simp [SP]
theorem SP_nil : SP [] = [] := rfl

def TopPos : List (Nat × Nat) → Prop
  | [] => True
  | (_, r) :: _ => 0 < r

theorem popDone_topPos : ∀ st : List (Nat × Nat), TopPos (popDone st)
  | [] => by simp [popDone, TopPos]
  | (j, 0) :: st => by simp only [popDone]; exact popDone_topPos st
  | (j, r + 1) :: st => by simp [popDone, TopPos]

theorem dictSet_fresh : ∀ (L : Dict) (k : Int) (v : String), (∀ x ∈ L, x.1 < k) → dictSet L k v = L ++ [(k, v)]
  | [], k, v, _ => rfl
  | (k', v') :: rest, k, v, h => by
    have h1 : k' ≠ k := by have := h (k', v') (by simp); simp at this; omega
    simp [dictSet, h1, dictSet_fresh rest k v (fun x hx => h x (by simp [hx]))]

/-- the `while stack and stack[-1][1] == 0: stack.pop()` loop -/
theorem popDone_whileM (c : List (Int × Int) → Option Bool) (body : List (Int × Int) → Option (Bool × List (Int × Int)))
    (hc0 : c [] = some false)
    (hc1 : ∀ S j r, c (S ++ [(j, r)]) = some (decide (r = 0)))
    (hb : ∀ S x, body (S ++ [x]) = some (true, S)) :
    ∀ (st : List (Nat × Nat)) (fuel : Nat), st.length + 1 ≤ fuel → whileM fuel (SP st) c body = some (SP (popDone st))
  | _, 0, h => by omega
  | [], fuel + 1, _ => by simp [whileM, SP_nil, hc0, popDone]
  | (j, 0) :: st, fuel + 1, h => by
    simp only [SP_cons, castP, whileM, hc1, popDone, hb]
    simp only [Int.natCast_zero, decide_true]
    exact popDone_whileM c body hc0 hc1 hb st fuel (by simp at h; omega)
  | (j, r + 1) :: st, fuel + 1, h => by
    simp only [SP_cons, castP, whileM, hc1, popDone]
    have : ¬ (((r : Int) + 1) = 0) := by omega
    simp [this]

/-- the `for i, node in enumerate(expr)` loop of `graph` -/
theorem graph_forM (F : Int × Node → List (Int × Int) × List (Int × Int) × Dict → Option (List (Int × Int) × List (Int × Int) × Dict))
    (hF : ∀ (i : Nat) (node : Node) (st : List (Nat × Nat)) (E : List (Int × Int)) (L : Dict), TopPos st →
      F ((i : Int), node) (SP st, E, L)
        = some (SP (popDone ((i, node.arity) :: decTop st)), E ++ (edgeTo st i).map castP, dictSet L (i : Int) (labelOf node))) :
    ∀ (l : List Prim) (i : Nat) (st : List (Nat × Nat)) (E : List (Int × Int)) (L : Dict), TopPos st → (∀ x ∈ L, x.1 < (i : Int)) →
      ∃ S', forM (enumFrom (i : Int) l) (SP st, E, L) F
        = some (S', E ++ (graphLoop l i st).map castP, L ++ enumFrom (i : Int) (l.map labelOf))
  | [], i, st, E, L, _, _ => ⟨SP st, by simp [forM, enumFrom, graphLoop]⟩
  | p :: rest, i, st, E, L, ht, hL => by
    simp only [enumFrom, forM, hF i p st E L ht, graphLoop, List.map_cons]
    rw [dictSet_fresh L i (labelOf p) hL]
    obtain ⟨S', h⟩ := graph_forM F hF rest (i + 1) (popDone ((i, p.arity) :: decTop st)) (E ++ (edgeTo st i).map castP)
      (L ++ [((i : Int), labelOf p)]) (popDone_topPos _) (by
        intro x hx
        rcases List.mem_append.1 hx with hx | hx
        · have := hL x hx; omega
        · simp at hx; subst hx; show (i : Int) < ((i + 1 : Nat) : Int); omega)
    refine ⟨S', ?_⟩
    have e : ((i : Int) + 1) = ((i + 1 : Nat) : Int) := by omega
    rw [e, h]
    simp [List.map_append, List.append_assoc]

end Gen11
