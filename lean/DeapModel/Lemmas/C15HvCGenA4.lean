import DeapModel.Lemmas.C15HvCGenA3
/-!
C15 — the general case of `hv_recursive` in `_hv.c`, first phase: the invariant through one deletion, through the whole
deletion loop, and `AfterDeletionsC_Statement`.
-/
namespace HvC
set_option linter.unusedVariables false
open Hypervolume
open HvSweep (GCtx Hj RL preSet pos ARv VOLv ids Shaped Seg)

section ctx
variable {C : Cargo} {R : List ℚ} {d n : ℕ} {O : ℕ → List ℕ}

/-- the invariant only depends on the node SET -/
theorem gA_inv_congr {S : St} {k : ℕ} {A B : List ℕ} (h : ∀ a, a ∈ A ↔ a ∈ B) (hnd : B.Nodup)
    (inv : InvC C R d n O S k A) : InvC C R d n O S k B :=
  { shape := inv.shape
    tsh := inv.tsh
    nodup := hnd
    sub := fun a ha => inv.sub a ((h a).mpr ha)
    good := fun a ha => inv.good a ((h a).mpr ha)
    lists := fun i h1 h2 => by rw [← HvSweep.RL_congr O i A B h]; exact inv.lists i h1 h2
    cv := by
      intro j hj1 hjK a ha b hb hlt
      obtain ⟨e1, e2⟩ := inv.cv j hj1 hjK a ((h a).mpr ha) b hb hlt
      rw [e1, e2]
      exact ⟨HvSweep.ARv_congr O j A B a (fun b0 _ => h b0), HvSweep.VOLv_congr O j A B a (fun b0 _ => h b0)⟩
    ig := by
      intro q hq hm
      obtain ⟨b, hb, hd⟩ := inv.ig q ((h q).mpr hq) hm
      exact ⟨b, (h b).mp hb, hd⟩
    igd := inv.igd
    dm := by
      intro a ha b hb hlt
      obtain ⟨d1, d2, d3⟩ := inv.dm a ((h a).mpr ha) b hb hlt
      refine ⟨d1, fun q hq => d2 q ((h q).mpr hq), fun hdr => ?_⟩
      obtain ⟨q, hq, r⟩ := d3 hdr
      exact ⟨q, (h q).mp hq, r⟩
    tree := inv.tree }

/-- the invariant of a level contains the invariant of the level below -/
theorem gA_inv_lower {S : St} {k : ℕ} {A : List ℕ} (inv : InvC C R d n O S (k + 1) A) : InvC C R d n O S k A :=
  { shape := inv.shape
    tsh := inv.tsh
    nodup := inv.nodup
    sub := inv.sub
    good := inv.good
    lists := fun i h1 h2 => inv.lists i h1 (by omega)
    cv := fun j hj1 hjK => inv.cv j hj1 (by omega)
    ig := inv.ig
    igd := inv.igd
    dm := inv.dm
    tree := inv.tree }

/-- **one deletion**: deleting the last node `x` of the list of level `j + 1` from the lists `2 .. j`
(`delete` if its mark is `0`, `delete_dom` if its mark is at least the level) leaves the level-`j` invariant for the
remaining nodes -/
theorem gA_delStep_inv (c : CCtx C R d n O) {j : ℕ} (hj2 : 2 ≤ j) (hjd : j + 1 < d) {S : St} {A : List ℕ}
    (inv : InvC C R d n O S j A) (zb : ∀ y ∈ A, ign S y = 0 ∨ ((j + 1 : ℕ) : ℤ) ≤ ign S y)
    (l : List ℕ) (x : ℕ) (hL : RL O (j + 1) A = l ++ [x]) (B : List ℕ) (hBnd : B.Nodup)
    (hB : ∀ a, a ∈ B ↔ a ∈ A ∧ a ≠ x) :
    InvC C R d n O (delStep C (j + 1) S x) j B := by
  obtain ⟨hxA, _, _⟩ := gA_last_pos c hjd inv.sub l x hL
  obtain ⟨hdat, hblen, _, _⟩ := gA_delStep_frame C (j + 1) S x
  have hLs : ∀ i, 2 ≤ i → i < j + 1 → DLc n S i (RL O i A) ∧ x ∈ RL O i A := fun i h1 h2 =>
    ⟨inv.lists i h1 (by omega), (gA_mem_RL c (by omega) inv.sub x).mpr hxA⟩
  obtain ⟨hsh, hlists⟩ := gA_delStep_lists C (j + 1) (by omega) S x (fun i => RL O i A) inv.shape hLs
  set T := delStep C (j + 1) S x with hT
  have hBA : ∀ a ∈ B, a ∈ A := fun a ha => ((hB a).mp ha).1
  -- the two kinds of deletion
  have hcases : (¬ ((j + 1 : ℕ) : ℤ) ≤ ign S x ∧
        ∀ i, 2 ≤ i → i < j + 1 → ∀ b', T.bound.getD i none = some b' →
          ∃ b, S.bound.getD i none = some b ∧ b' ≤ b ∧ b' ≤ cg C x i) ∨
      (T.bound = S.bound ∧ ∃ w m, j + 1 ≤ m ∧ w ∈ A ∧ DomC C O m w x) := by
    by_cases hmark : ((j + 1 : ℕ) : ℤ) ≤ ign S x
    · right
      obtain ⟨w, hwA, hdom⟩ := inv.ig x hxA (by omega)
      exact ⟨gA_delStep_bound_dom C (j + 1) S x hmark, w, (ign S x).toNat, by omega, hwA, hdom⟩
    · left
      exact ⟨hmark, gA_delStep_bound_delete C (j + 1) S x hmark⟩
  exact
    { shape := hsh
      tsh := ⟨by rw [hdat.2.1]; exact inv.tsh.area, by rw [hdat.2.2.1]; exact inv.tsh.vol,
        by rw [hdat.1]; exact inv.tsh.ign, by rw [hdat.2.2.2.1]; exact inv.tsh.domr, by rw [hblen]; exact inv.tsh.bound⟩
      nodup := hBnd
      sub := fun a ha => inv.sub a (hBA a ha)
      good := fun a ha => inv.good a (hBA a ha)
      lists := fun i h1 h2 => by
        rw [← gA_RL_erase c (by omega : i < d) A B x hB]
        exact hlists i h1 (by omega)
      cv := by
        rcases hcases with ⟨_, hbd⟩ | ⟨hbd, w, m, hm, hwA, hdom⟩
        · exact gA_cv_delete c hjd (inv.sub x hxA) inv.sub hB hdat hbd inv.cv
        · exact gA_cv_dom c hjd hm hxA hwA hdom inv.sub hB hdat hbd inv.cv
      ig := gA_ig_step c hj2 hjd inv.sub hL hB hdat zb inv.ig
      igd := by
        intro q hq
        rw [hdat.ign] at hq
        rw [hdat.dr]
        exact inv.igd q hq
      dm := by
        rcases hcases with ⟨_, hbd⟩ | ⟨hbd, w, m, hm, hwA, hdom⟩
        · exact gA_dm_delete hB hdat (hbd 2 (le_refl _) (by omega)) inv.dm
        · exact gA_dm_dom c (by omega) hxA hwA hdom inv.sub hB hdat hbd inv.dm
      tree := by rw [hdat.2.2.2.2.1]; exact inv.tree }

/-- **the whole deletion loop** -/
theorem gA_delSeq_inv (c : CCtx C R d n O) {j : ℕ} (hj2 : 2 ≤ j) (hjd : j + 1 < d) : ∀ (rs : List ℕ) (S : St) (A L0 : List ℕ),
    InvC C R d n O S j A → (∀ y ∈ A, ign S y = 0 ∨ ((j + 1 : ℕ) : ℤ) ≤ ign S y) →
    RL O (j + 1) A = L0 ++ rs.reverse →
    InvC C R d n O (delSeq C (j + 1) S rs) j (A.filter (fun a => decide (a ∉ rs)))
  | [], S, A, L0, inv, _, _ => by
    have : A.filter (fun a => decide (a ∉ ([] : List ℕ))) = A := by simp
    rw [this]
    exact inv
  | x :: rs, S, A, L0, inv, zb, hL => by
    have hL' : RL O (j + 1) A = (L0 ++ rs.reverse) ++ [x] := by rw [hL]; simp
    set B := A.filter (fun a => decide (a ≠ x)) with hBdef
    have hB : ∀ a, a ∈ B ↔ a ∈ A ∧ a ≠ x := by
      intro a; rw [hBdef, List.mem_filter]; simp
    have hBnd : B.Nodup := inv.nodup.filter _
    have inv1 := gA_delStep_inv c hj2 hjd inv zb (L0 ++ rs.reverse) x hL' B hBnd hB
    have hdat := (gA_delStep_frame C (j + 1) S x).1
    have zb1 : ∀ y ∈ B, ign (delStep C (j + 1) S x) y = 0 ∨ ((j + 1 : ℕ) : ℤ) ≤ ign (delStep C (j + 1) S x) y := by
      intro y hy
      rw [hdat.ign]
      exact zb y ((hB y).mp hy).1
    have hL1 : RL O (j + 1) B = L0 ++ rs.reverse := gA_RL_init c hjd inv.sub (L0 ++ rs.reverse) x hL' B hB
    have ih := gA_delSeq_inv c hj2 hjd rs (delStep C (j + 1) S x) B L0 inv1 zb1 hL1
    rw [gA_delSeq_cons]
    refine gA_inv_congr ?_ (inv.nodup.filter _) ih
    intro a
    simp only [List.mem_filter, List.mem_cons, decide_eq_true_eq, not_or, hB a]
    tauto

end ctx

/-- **after the deletions** -/
theorem afterDeletionsC : AfterDeletionsC_Statement := by
  intro C R d n O j A S₁ c hj2 hjd inv zb pre' q' rs hsplit
  have hLnd : (RL O (j + 1) A).Nodup := HvSweep.RL_nodup c.g hjd A
  have hLA : ∀ a, a ∈ RL O (j + 1) A ↔ a ∈ A := gA_mem_RL c hjd inv.sub
  have hsplit' : RL O (j + 1) A = (pre' ++ [q']) ++ rs.reverse := by rw [hsplit]; simp
  have hnd_split := List.nodup_append.mp (hsplit' ▸ hLnd)
  have hB : ∀ a, a ∈ pre' ++ [q'] ↔ a ∈ A ∧ a ∉ rs := by
    intro a
    rw [← hLA a]
    constructor
    · intro h
      exact ⟨by rw [hsplit']; exact List.mem_append_left _ h,
        fun h2 => hnd_split.2.2 a h a (List.mem_reverse.mpr h2) rfl⟩
    · rintro ⟨h1, h2⟩
      rw [hsplit'] at h1
      rcases List.mem_append.mp h1 with h | h
      · exact h
      · exact absurd (List.mem_reverse.mp h) h2
  have hinv := gA_delSeq_inv c hj2 hjd rs S₁ A (pre' ++ [q']) (gA_inv_lower inv) zb hsplit'
  obtain ⟨hdat, _, hbnd, hptr⟩ := gA_delSeq_frame C (j + 1) rs S₁
  refine ⟨?_, hB, hdat.1, hdat.2.1, hdat.2.2.1, hdat.2.2.2.1, hdat.2.2.2.2.1, hdat.2.2.2.2.2,
    fun i hi => hbnd i (Or.inr hi), fun i a hi => hptr i hi a⟩
  refine gA_inv_congr ?_ hnd_split.1 hinv
  intro a
  rw [List.mem_filter, hB a]
  simp

end HvC
