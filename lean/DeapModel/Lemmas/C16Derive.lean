/-
C16 — lemmas about creator classes derived from creator classes (`Core/HeapDerive.lean`): a sequence of
`setattr`s keeps the value set LAST under a name; the `__init__` chain only allocates.
-/
import DeapModel.Core.HeapDerive
import DeapModel.Lemmas.C16Defs
import DeapModel.Lemmas.C16Inst
import DeapModel.Lemmas.C16Pickle

namespace Heap

/-- The value of the last `setattr` under `name`. -/
def lastVal (name : Name) : List (Name × Val) → Option Val
  | [] => none
  | p :: r =>
    match lastVal name r with
    | some v => some v
    | none => if p.1 = name then some p.2 else none

theorem setAll_cons (p : Name × Val) (r acc : List (Name × Val)) :
    setAll (p :: r) acc = setAll r (dictSet p.1 p.2 acc) := rfl

theorem lookup_setAll (k : Name) (sets : List (Name × Val)) :
    ∀ acc, lookup k (setAll sets acc) =
      match lastVal k sets with
      | some v => some v
      | none => lookup k acc := by
  induction sets with
  | nil => intro acc; rfl
  | cons p r ih =>
    intro acc
    rw [setAll_cons, ih, lookup_dictSet]
    simp only [lastVal]
    cases h : lastVal k r with
    | some v => rfl
    | none =>
      by_cases hk : p.1 = k <;> simp [hk]

theorem mem_setAll {sets : List (Name × Val)} :
    ∀ {acc : List (Name × Val)} {q : Name × Val}, q ∈ setAll sets acc → q ∈ sets ∨ q ∈ acc := by
  induction sets with
  | nil => intro acc q h; exact Or.inr h
  | cons p r ih =>
    intro acc q h
    rw [setAll_cons] at h
    rcases ih h with h | h
    · exact Or.inl (List.mem_cons_of_mem _ h)
    · rcases mem_dictSet h with h | h
      · exact Or.inl (by rw [h]; exact List.mem_cons_self)
      · exact Or.inr h

theorem lastVal_mem {name : Name} {sets : List (Name × Val)} {v : Val}
    (h : lastVal name sets = some v) : (name, v) ∈ sets := by
  induction sets with
  | nil => cases h
  | cons p r ih =>
    simp only [lastVal] at h
    cases hr : lastVal name r with
    | some w =>
      rw [hr] at h
      cases h
      exact List.mem_cons_of_mem _ (ih hr)
    | none =>
      rw [hr] at h
      by_cases hk : p.1 = name
      · simp only [hk, if_true] at h
        cases h
        rw [← hk]
        exact List.mem_cons_self
      · simp [hk] at h

theorem lastVal_isSome_of_mem_keys {name : Name} {sets : List (Name × Val)}
    (h : name ∈ sets.map (·.1)) : ∃ v, lastVal name sets = some v := by
  induction sets with
  | nil => cases h
  | cons p r ih =>
    simp only [lastVal]
    cases hr : lastVal name r with
    | some w => exact ⟨w, rfl⟩
    | none =>
      simp only [List.map_cons, List.mem_cons] at h
      rcases h with h | h
      · exact ⟨p.2, by simp [h]⟩
      · obtain ⟨v, hv⟩ := ih h
        rw [hr] at hv
        cases hv

/-- The whole `__init__` chain, from success: it only allocates, and produces one reference to an object
allocated by this call per `setattr` step (for ANY list of steps: no assumption on the class table). -/
theorem instAttrs_of_eq_any (ct : ClassTable) (l : List (Name × ClsId)) (st st' : State)
    (attrs : List (Name × Val)) (hb : Bounded st) (h : instAttrs ct st l = some (st', attrs)) :
    Ext True st st' ∧ AttrsIn st'.objs st.next st'.next l attrs := by
  rw [instAttrs_eq] at h
  exact instLoop_of_eq ct ct.length
    (fun _ _ _ _ hbs hs => newInst_nil_of_eq ct hbs hs) l st st' attrs hb h

/-! ### Which declaration an instance keeps -/

/-- One step of the chain and what it produced: the name, and a reference to an object of the declared class. -/
def StepOf (objs : Oid → Option Obj) (p : Name × ClsId) (q : Name × Val) : Prop :=
  q.1 = p.1 ∧ ∃ y o, q.2 = Val.ref y ∧ objs y = some o ∧ o.cls = p.2

/-- Step list and produced attribute list, position by position. -/
inductive Steps (objs : Oid → Option Obj) : List (Name × ClsId) → List (Name × Val) → Prop where
  | nil : Steps objs [] []
  | cons {p : Name × ClsId} {q : Name × Val} {l : List (Name × ClsId)} {attrs : List (Name × Val)} :
      StepOf objs p q → Steps objs l attrs → Steps objs (p :: l) (q :: attrs)

/-- The attribute loop, from success: the `i`-th produced attribute is a reference to a new object of the
class of the `i`-th step. -/
theorem instLoop_cls (ct : ClassTable) (n : Nat) :
    ∀ (l : List (Name × ClsId)) (s s' : State) (attrs : List (Name × Val)), Bounded s →
      mapSt (instStep ct n) s l = some (s', attrs) → Steps s'.objs l attrs := by
  have hN : ∀ (s s' : State) (c' : ClsId) (y : Oid), Bounded s →
      newInst ct n s c' [] = some (s', y) →
      y = s.next ∧ Ext True s s' ∧ (s'.objs s.next).isSome = true :=
    fun _ _ _ _ hbs hs => newInst_nil_of_eq ct hbs hs
  intro l
  induction l with
  | nil =>
    intro s s' attrs _ h
    rw [mapSt_nil] at h
    cases h
    exact Steps.nil
  | cons p ps ih =>
    intro s s' attrs hb h
    obtain ⟨s1, b, bs, h1, h2, rfl⟩ := mapSt_cons_inv h
    unfold instStep at h1
    split at h1
    · cases h1
    · rename_i s1' y hrun
      cases h1
      obtain ⟨ci, sb, at0, _, rfl, hs1, hEb, _⟩ := newInst_of_eq ct n s s1 p.2 [] y hb hrun
      obtain ⟨_, hE1, _⟩ := hN _ _ _ _ hb hrun
      obtain ⟨hE2, _⟩ := instLoop_of_eq ct n hN ps _ _ _ hE1.bound h2
      refine Steps.cons ?_ (ih _ _ _ hE1.bound h2)
      refine ⟨rfl, s.next, ⟨p.2, [], dictUpdate at0 (baseInitAttrs ci.kind), ci.kind != .node⟩, rfl, ?_, rfl⟩
      · have hlt : s.next < s1.next := by
          rw [hs1]
          exact Nat.lt_of_lt_of_le (Nat.lt_succ_self _) hEb.le
        rw [hE2.old _ hlt, hs1]
        exact define_same _ _ _

theorem lastVal_lastDecl {objs : Oid → Option Obj} {name : Name} {l : List (Name × ClsId)}
    {attrs : List (Name × Val)} (h : Steps objs l attrs) :
    ∀ {c : ClsId}, lastDecl name l = some c →
      ∃ y o, lastVal name attrs = some (Val.ref y) ∧ objs y = some o ∧ o.cls = c := by
  induction h with
  | nil => intro c hc; cases hc
  | @cons p q l' attrs' hpq hrest ih =>
    intro c hc
    simp only [lastDecl] at hc
    simp only [lastVal]
    cases hr : lastDecl name l' with
    | some c' =>
      rw [hr] at hc
      cases hc
      obtain ⟨y, o, hv, ho, hcls⟩ := ih hr
      exact ⟨y, o, by rw [hv], ho, hcls⟩
    | none =>
      rw [hr] at hc
      have hnone : lastVal name attrs' = none := by
        cases hv : lastVal name attrs' with
        | none => rfl
        | some v =>
          exfalso
          clear ih hc
          induction hrest with
          | nil => cases hv
          | @cons p' q' l'' attrs'' hpq' _ ih' =>
            simp only [lastDecl] at hr
            simp only [lastVal] at hv
            cases hr' : lastDecl name l'' with
            | some c'' => rw [hr'] at hr; cases hr
            | none =>
              rw [hr'] at hr
              cases hv' : lastVal name attrs'' with
              | some w =>
                rw [hv'] at hv
                cases hv
                exact ih' hr' hv'
              | none =>
                rw [hv'] at hv
                by_cases hk : p'.1 = name
                · simp [hk] at hr
                · rw [hpq'.1] at hv
                  simp [hk] at hv
      rw [hnone]
      by_cases hk : p.1 = name
      · simp only [hk, if_true] at hc
        cases hc
        obtain ⟨hq1, y, o, hq2, ho, hcls⟩ := hpq
        refine ⟨y, o, ?_, ho, hcls⟩
        rw [hq1]
        simp [hk, hq2]
      · simp [hk] at hc

/-- The `__dict__` after the `setattr`s is a list of references into the slots of this call as well. -/
theorem AttrsIn.setAll {objs : Oid → Option Obj} {lo hi : Nat} {l : List (Name × ClsId)}
    {sets : List (Name × Val)} (hA : AttrsIn objs lo hi l sets) :
    AttrsIn objs lo hi ((setAll sets []).map (fun p => (p.1, 0))) (setAll sets []) := by
  refine ⟨by simp [List.map_map, Function.comp_def], ?_⟩
  intro p hp
  rcases mem_setAll hp with hp | hp
  · exact hA.2 p hp
  · cases hp

/-- `creator.<derived class>(items)`, from success. -/
theorem createD_of_eq (ct : ClassTable) (dt : DTable) (objs : Oid → Option Obj) (next : Nat)
    (memo : List (Oid × Oid)) (d : Nat) (items : List Val) (st' : State) (x : Oid)
    (hb : ∀ y, next ≤ y → objs y = none)
    (h : createD ct dt ⟨objs, next, memo⟩ d items = some (st', x)) :
    ∃ dc sb sets, dt[d]? = some dc ∧ x = next ∧
      st' = ⟨define sb.objs next
        ⟨clsOfD ct d, items, dictUpdate (setAll sets []) (baseInitAttrs dc.kind), dc.kind != .node⟩,
        sb.next, sb.memo⟩ ∧
      Ext True ⟨objs, next + 1, memo⟩ sb ∧
      AttrsIn sb.objs (next + 1) sb.next (mroDecl dt d) sets := by
  unfold createD at h
  split at h
  · cases h
  · rename_i dc hdc
    split at h
    · cases h
    · rename_i sb sets hrun
      cases h
      have hba : Bounded ⟨objs, next + 1, memo⟩ := fun y hy => hb y (Nat.le_of_succ_le hy)
      obtain ⟨hE, hA⟩ := instAttrs_of_eq_any ct _ _ _ _ hba hrun
      exact ⟨dc, sb, sets, hdc, rfl, rfl, hE, hA⟩

end Heap
