import DeapModel.Lemmas.C15HvC3d
/-!
C15 — the abstraction of `avl_search_closest`: on a staircase, the main loop of the 3-D sweep computes the same
result for EVERY admissible answer of the search (successor with `-1`, or predecessor with `+1`) as for the walk
`searchClosest` of the model.
-/
namespace HvC
set_option linter.unusedVariables false
open Hypervolume

/-- what a descent through a search tree over the ordered sequence may answer: whenever the sequence splits into
members that compare `+1` followed by members that compare `-1`, a neighbour of the split position with its side -/
def Admissible (C : Cargo) (search : St → ℚ × ℚ → ℕ × ℤ) : Prop :=
  ∀ (S : St) (it : ℚ × ℚ) (As B : List ℕ), S.tree = As ++ B → S.tree ≠ [] →
    (∀ e ∈ As, cmpTreeAscNeg it (item C e) = false) → (∀ e ∈ B, cmpTreeAscNeg it (item C e) = true) →
    (∃ b B', B = b :: B' ∧ search S it = (b, -1)) ∨ (∃ A' a, As = A' ++ [a] ∧ search S it = (a, 1))

theorem split_unique (p : ℕ → Bool) : ∀ (As As' B : List ℕ) (b : ℕ) (B'' : List ℕ), As ++ B = As' ++ b :: B'' →
    (∀ e ∈ As, p e = false) → (∀ e ∈ B, p e = true) → (∀ e ∈ As', p e = false) → p b = true →
    As = As' ∧ B = b :: B''
  | [], [], B, b, B'', h, _, _, _, _ => ⟨rfl, by simpa using h⟩
  | [], x :: As', B, b, B'', h, _, hB, hAs', _ => by
    simp only [List.nil_append, List.cons_append] at h
    have h1 := hAs' x (by simp)
    have h2 := hB x (by rw [h]; simp)
    rw [h2] at h1; cases h1
  | y :: As, [], B, b, B'', h, hAs, _, _, hb => by
    simp only [List.nil_append, List.cons_append, List.cons.injEq] at h
    have h1 := hAs y (by simp)
    rw [h.1, hb] at h1; cases h1
  | y :: As, x :: As', B, b, B'', h, hAs, hB, hAs', hb => by
    simp only [List.cons_append, List.cons.injEq] at h
    obtain ⟨e1, e2⟩ := split_unique p As As' B b B'' h.2 (fun e he => hAs e (by simp [he])) hB
      (fun e he => hAs' e (by simp [he])) hb
    exact ⟨by rw [h.1, e1], e2⟩

/-- the walk of the model is admissible -/
theorem admissible_searchClosest (C : Cargo) : Admissible C (searchClosest C) := by
  intro S it As B hT hne hAs hB
  unfold searchClosest
  obtain ⟨As', B', hT', hAs', hres⟩ := searchList_spec C it S.tree hne
  rcases hres with ⟨hBn, A'', a, hA'', hr⟩ | ⟨b, B'', hBc, hcb, hr⟩
  · -- no member compares -1: then B = []
    subst hBn
    simp only [List.append_nil] at hT'
    have hBnil : B = [] := by
      cases B with
      | nil => rfl
      | cons x B =>
        have h1 := hB x (by simp)
        have h2 := hAs' x (by rw [← hT', hT]; simp)
        rw [h1] at h2; cases h2
    subst hBnil
    simp only [List.append_nil] at hT
    exact Or.inr ⟨A'', a, by rw [← hT, hT', hA''], hr⟩
  · -- the first member that compares -1 is the head of B
    have hsplit : As = As' ∧ B = b :: B'' :=
      split_unique (fun e => cmpTreeAscNeg it (item C e)) As As' B b B'' (by rw [← hT, hT', hBc]) hAs hB hAs' hcb
    exact Or.inl ⟨b, B'', hsplit.2, hr⟩

/-- **the choice of the neighbour is not observable**: on a tree that is a staircase (and does not contain `pp`),
the body of the main loop gives the same result for every admissible search as for the walk of the model. -/
theorem sweepBodyWith_admissible (C : Cargo) (R : List ℚ) (search : St → ℚ × ℚ → ℕ × ℤ) (hadm : Admissible C search)
    (tfuel pp : ℕ) (hyperv hypera : ℚ) (S : St)
    (hne : S.tree ≠ []) (hnd : S.tree.Nodup) (h0 : 0 ∉ S.tree) (hppT : pp ∉ S.tree)
    (hst : Stair (S.tree.map (item C))) :
    sweepBodyWith search C R tfuel pp hyperv hypera S = sweepBody C R tfuel pp hyperv hypera S := by
  unfold sweepBody sweepBodyWith
  simp only
  set S0 := setVl S pp 2 hyperv with hS0
  have hT0 : S0.tree = S.tree := rfl
  by_cases hign : (2 : ℤ) ≤ ign S0 pp
  · rw [if_pos hign, if_pos hign]
  · rw [if_neg hign, if_neg hign]
    obtain ⟨As, B, hAB, hAs, hres⟩ := searchList_spec C (item C pp) S.tree hne
    have hsc : searchClosest C S0 (item C pp) = searchList C (item C pp) S.tree := rfl
    -- on a staircase every member after the first that compares -1 compares -1 as well
    have hBall : ∀ e ∈ B, cmpTreeAscNeg (item C pp) (item C e) = true := by
      rcases hres with ⟨hBn, _⟩ | ⟨b, B', hB, hcb, _⟩
      · rw [hBn]; intro e he; exact absurd he (List.not_mem_nil)
      · intro e he
        rw [hB] at he
        rcases List.mem_cons.mp he with rfl | he
        · exact hcb
        · have hpw := List.pairwise_map.mp hst
          rw [hAB, hB] at hpw
          have hlt := (List.pairwise_cons.mp (List.pairwise_append.mp hpw).2.1).1 e he
          rw [cmpNeg_true_iff] at hcb ⊢
          rcases hcb with h | ⟨h, _⟩
          · exact Or.inl (lt_trans hlt.2 h)
          · exact Or.inl (by rw [← h]; exact hlt.2)
    have hans := hadm S0 (item C pp) As B (by rw [hT0, hAB]) (by rw [hT0]; exact hne) hAs hBall
    rcases hres with ⟨hBn, A', a, hA', hr⟩ | ⟨b, B', hB, hcb, hr⟩
    · -- pp goes to the end: the only admissible answer is the last member with +1
      rcases hans with ⟨b, B', hB', _⟩ | ⟨A'', a', hA'', hr'⟩
      · rw [hBn] at hB'; cases hB'
      · have : a' = a := by
          have := List.append_inj' (hA''.symm.trans hA') rfl
          simp at this; exact this.2
        rw [hr', this, hsc, hr]
    · rcases hans with ⟨b', B'', hB', hr'⟩ | ⟨A', a, hA', hr'⟩
      · have : b' = b := by rw [hB] at hB'; simp at hB'; exact hB'.1.symm
        rw [hr', this, hsc, hr]
      · -- the search answered the predecessor `a` with +1, the walk the successor `b` with -1
        rw [hr', hsc, hr]
        simp only
        have h10 : ¬ ((1 : ℤ) ≤ 0) := by decide
        have hm10 : ((-1 : ℤ) ≤ 0) := by decide
        simp only [if_neg h10, if_pos hm10]
        have hT0' : S0.tree = A' ++ a :: (b :: B') := by rw [hT0, hAB, hA', hB]; simp
        have hnd0 : S0.tree.Nodup := hnd
        have htnx : tnx S0 a = b := by rw [tnx_mid S0 A' (b :: B') a hT0' hnd0]; rfl
        have hb0 : b ≠ 0 := fun e => h0 (by rw [hAB, hB, e]; simp)
        rw [htnx]
        simp only [ne_eq, hb0, not_false_eq_true, if_true]
        by_cases hdom : (item C b).1 ≤ cg C pp 0
        · rw [if_pos hdom, if_pos hdom]
        · rw [if_neg hdom, if_neg hdom]
          have haA' : a ∉ A' := by
            rw [hT0'] at hnd0
            intro hm
            exact (List.nodup_append.mp hnd0).2.2 a hm a (by simp) rfl
          have hbAs : b ∉ As := by
            have := hnd
            rw [hAB, hB] at this
            intro hm
            exact (List.nodup_append.mp this).2.2 b hm b (by simp) rfl
          have htree : insertAfter a pp S0.tree = insertBefore b pp S0.tree := by
            rw [hT0', insertAfter_mid a pp (b :: B') A' haA']
            have : A' ++ a :: (b :: B') = As ++ b :: B' := by rw [hA']; simp
            rw [this, insertBefore_mid b pp B' As hbAs, hA']; simp
          have hS1 : avlInsertAfter S0 a pp = avlInsertBefore S0 b pp := by
            unfold avlInsertAfter avlInsertBefore; rw [htree]
          rw [hS1]
          have hT1 : (avlInsertBefore S0 b pp).tree = As ++ pp :: B := by
            show insertBefore b pp S0.tree = _
            rw [hT0, hAB, hB, insertBefore_mid b pp B' As hbAs]
          have hnd1 : (avlInsertBefore S0 b pp).tree.Nodup := by
            rw [hT1]
            exact nodup_insert_mid (A := As) (D := []) (B := B) (by simpa [← hAB] using hnd) (by simpa [← hAB] using hppT)
          have htpv : tpv (avlInsertBefore S0 b pp) pp = a := by
            rw [tpv_mid _ As B pp hT1 hnd1, hA']; simp
          rw [htpv]

end HvC
