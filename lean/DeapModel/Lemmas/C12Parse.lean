/-
Helper lemmas for C12: the token loop of `from_string` is the tree recursion `reparse`; what
`reparse` preserves.
-/
import DeapModel.Core.GpCompile
import DeapModel.Lemmas.C11Basic

namespace GpCompile
open GpTree

mutual
theorem fromStringGo_tree (E : ParseEnv) : ∀ (t t' : Tree) (rt : List Nat) (rest : List Str),
    reparse E rt.head? t = some t' →
    fromStringGo E ((flatten t).map tok ++ rest) rt = (fromStringGo E rest rt.tail).map (flatten t' ++ ·)
  | .node p as, t', rt, rest, h => by
    simp only [reparse] at h
    split at h
    · simp at h
    · rename_i q hq
      split at h
      · simp at h
      · rename_i as' has
        simp at h; subst h
        simp only [flatten, List.map_cons, List.cons_append, fromStringGo, hq]
        by_cases hk : q.kind = .prim
        · simp only [hk, if_true] at has ⊢
          rw [fromStringGo_forest E as as' q.args rt.tail rest has]
          cases fromStringGo E rest rt.tail <;> simp
        · simp only [hk, if_false] at has ⊢
          have := fromStringGo_forest E as as' [] rt.tail rest has
          simp only [List.nil_append] at this
          rw [this]
          cases fromStringGo E rest rt.tail <;> simp
theorem fromStringGo_forest (E : ParseEnv) : ∀ (ts ts' : List Tree) (τs rt0 : List Nat) (rest : List Str),
    reparseF E τs ts = some ts' →
    fromStringGo E ((flattenF ts).map tok ++ rest) (τs ++ rt0) = (fromStringGo E rest rt0).map (flattenF ts' ++ ·)
  | [], ts', [], rt0, rest, h => by
    simp [reparseF] at h; subst h
    simp [flattenF]
  | t :: ts, ts', τ :: τs, rt0, rest, h => by
    simp only [reparseF] at h
    split at h
    · rename_i t1 ts1 h1 h2
      simp at h; subst h
      simp only [flattenF, List.map_append, List.append_assoc, List.cons_append]
      rw [fromStringGo_tree E t t1 (τ :: (τs ++ rt0)) _ (by simpa using h1)]
      simp only [List.tail_cons]
      rw [fromStringGo_forest E ts ts1 τs rt0 rest h2]
      cases fromStringGo E rest rt0 <;> simp
    · simp at h
  | [], _, _ :: _, _, _, h => by simp [reparseF] at h
  | _ :: _, _, [], _, _, h => by simp [reparseF] at h
end

/-- the node relation `from_string` establishes when it succeeds on printed text:
same arguments, same kind class, same printed text -/
def SameNode (p q : Prim) : Prop :=
  q.args = p.args ∧ (q.kind = .prim ↔ p.kind = .prim) ∧ (p.kind = .prim → q.name = p.name) ∧
  (p.kind ≠ .prim → q.text = p.text)

mutual
/-- same shape, related nodes -/
def SameTree : Tree → Tree → Prop
  | .node p as, .node q bs => SameNode p q ∧ SameForest as bs
def SameForest : List Tree → List Tree → Prop
  | [], [] => True
  | a :: as, b :: bs => SameTree a b ∧ SameForest as bs
  | _, _ => False
end

theorem sameNode_fmt {p q : Prim} (h : SameNode p q) (args : List Str) : fmt q args = fmt p args := by
  obtain ⟨_, hk, hn, ht⟩ := h
  unfold fmt
  by_cases hp : p.kind = .prim
  · simp [hp, hk.2 hp, hn hp]
  · have : ¬ q.kind = .prim := fun hq => hp (hk.1 hq)
    simp [hp, this, ht hp]

mutual
theorem sameTree_render : ∀ (t t' : Tree), SameTree t t' → render t' = render t
  | .node p as, .node q bs, h => by
    simp only [SameTree] at h
    simp only [render]
    rw [sameForest_render as bs h.2, sameNode_fmt h.1]
theorem sameForest_render : ∀ (ts ts' : List Tree), SameForest ts ts' → renderF ts' = renderF ts
  | [], [], _ => rfl
  | a :: as, b :: bs, h => by
    simp only [SameForest] at h
    simp only [renderF]
    rw [sameTree_render a b h.1, sameForest_render as bs h.2]
  | [], _ :: _, h => by simp [SameForest] at h
  | _ :: _, [], h => by simp [SameForest] at h
end

mutual
theorem sameTree_eval (env : Env) : ∀ (t t' : Tree), SameTree t t' → evalTree env t' = evalTree env t
  | .node p as, .node q bs, h => by
    simp only [SameTree] at h
    obtain ⟨⟨_, hk, hn, ht⟩, hf⟩ := h
    simp only [evalTree]
    rw [sameForest_eval env as bs hf]
    by_cases hp : p.kind = .prim
    · simp [hp, hk.2 hp, hn hp]
    · have : ¬ q.kind = .prim := fun hq => hp (hk.1 hq)
      simp [hp, this, ht hp]
theorem sameForest_eval (env : Env) : ∀ (ts ts' : List Tree), SameForest ts ts' → evalF env ts' = evalF env ts
  | [], [], _ => rfl
  | a :: as, b :: bs, h => by
    simp only [SameForest] at h
    simp only [evalF]
    rw [sameTree_eval env a b h.1, sameForest_eval env as bs h.2]
  | [], _ :: _, h => by simp [SameForest] at h
  | _ :: _, [], h => by simp [SameForest] at h
end

mutual
/-- node-by-node: same length and the same arities (argument lists) in prefix order -/
theorem sameTree_arities : ∀ (t t' : Tree), SameTree t t' → (flatten t').map (·.args) = (flatten t).map (·.args)
  | .node p as, .node q bs, h => by
    simp only [SameTree] at h
    simp only [flatten, List.map_cons]
    rw [sameForest_arities as bs h.2, h.1.1]
theorem sameForest_arities : ∀ (ts ts' : List Tree), SameForest ts ts' →
    (flattenF ts').map (·.args) = (flattenF ts).map (·.args)
  | [], [], _ => rfl
  | a :: as, b :: bs, h => by
    simp only [SameForest] at h
    simp only [flattenF, List.map_append]
    rw [sameTree_arities a b h.1, sameForest_arities as bs h.2]
  | [], _ :: _, h => by simp [SameForest] at h
  | _ :: _, [], h => by simp [SameForest] at h
end

mutual
theorem sameTree_wf : ∀ (t t' : Tree), SameTree t t' → wf t = true → wf t' = true
  | .node p as, .node q bs, h, hw => by
    simp only [SameTree] at h
    simp [wf] at hw ⊢
    refine ⟨?_, sameForest_wf as bs h.2 hw.2⟩
    rw [← sameForest_length as bs h.2, hw.1]; simp [Prim.arity, h.1.1]
theorem sameForest_wf : ∀ (ts ts' : List Tree), SameForest ts ts' → wfF ts = true → wfF ts' = true
  | [], [], _, _ => rfl
  | a :: as, b :: bs, h, hw => by
    simp only [SameForest] at h
    simp [wfF] at hw ⊢
    exact ⟨sameTree_wf a b h.1 hw.1, sameForest_wf as bs h.2 hw.2⟩
  | [], _ :: _, h, _ => by simp [SameForest] at h
  | _ :: _, [], h, _ => by simp [SameForest] at h
theorem sameForest_length : ∀ (ts ts' : List Tree), SameForest ts ts' → ts.length = ts'.length
  | [], [], _ => rfl
  | a :: as, b :: bs, h => by
    simp only [SameForest] at h
    simp [sameForest_length as bs h.2]
  | [], _ :: _, h => by simp [SameForest] at h
  | _ :: _, [], h => by simp [SameForest] at h
end

/-- how a node of the printed tree is known to `from_string`: it is registered in `pset.mapping`
under its printed text (primitives, arguments, named and constant terminals), or it is a terminal
whose printed text is mapped to another terminal printing the same text (an ephemeral whose value
coincides with a constant terminal), or a literal that `eval`s to a value of a compatible type
and prints back identically (ephemeral values, terminals created by an earlier `from_string`). -/
def Registered (E : ParseEnv) (p : Prim) : Prop :=
  E.mapping (tok p) = some p ∨
  (p.kind ≠ .prim ∧
    ((∃ q, E.mapping (tok p) = some q ∧ q.kind ≠ .prim ∧ q.args = [] ∧ q.text = p.text ∧ E.sub q.ret p.ret = true) ∨
     (E.mapping (tok p) = none ∧ ∃ ty, E.ev (tok p) = some (ty, tok p) ∧ E.sub ty p.ret = true)))

theorem reparseNode_ok (E : ParseEnv) (refl : ∀ a, E.sub a a = true)
    (trans : ∀ a b c, E.sub a b = true → E.sub b c = true → E.sub a c = true)
    {p : Prim} {exp : Option Nat} (hreg : Registered E p) (hargs : p.kind ≠ .prim → p.args = [])
    (hexp : ∀ σ, exp = some σ → E.sub p.ret σ = true) :
    ∃ q, reparseNode E exp (tok p) = some q ∧ SameNode p q := by
  rcases hreg with hself | ⟨hk, ⟨q, hq, hqk, hqa, hqt, hqs⟩ | ⟨hnone, ty, hev, hts⟩⟩
  · refine ⟨p, ?_, rfl, Iff.rfl, fun _ => rfl, fun _ => rfl⟩
    unfold reparseNode; rw [hself]
    cases exp with
    | none => rfl
    | some σ => simp [hexp σ rfl]
  · refine ⟨q, ?_, by rw [hqa, hargs hk], ⟨fun h => absurd h hqk, fun h => absurd h hk⟩, fun h => absurd h hk, fun _ => hqt⟩
    unfold reparseNode; rw [hq]
    cases exp with
    | none => rfl
    | some σ => simp [trans _ _ _ hqs (hexp σ rfl)]
  · have hsn : ∀ τ, SameNode p ⟨String.ofList (tok p), τ, [], .term, String.ofList (tok p)⟩ := by
      intro τ
      refine ⟨by simp [hargs hk], ⟨fun h => by simp at h, fun h => absurd h hk⟩, fun h => absurd h hk, fun _ => ?_⟩
      simp [tok, hk, String.ofList_toList]
    cases exp with
    | none =>
      exact ⟨_, by unfold reparseNode; rw [hnone, hev]; simp only [refl, if_true], hsn ty⟩
    | some σ =>
      have := trans _ _ _ hts (hexp σ rfl)
      exact ⟨_, by unfold reparseNode; rw [hnone, hev]; simp only [this, if_true], hsn σ⟩

mutual
theorem reparse_ok (E : ParseEnv) (refl : ∀ a, E.sub a a = true)
    (trans : ∀ a b c, E.sub a b = true → E.sub b c = true → E.sub a c = true) :
    ∀ (t : Tree) (exp : Option Nat), (∀ p ∈ flatten t, Registered E p ∧ (p.kind ≠ .prim → p.args = [])) →
      wt E.sub t.root.ret t = true → (∀ σ, exp = some σ → E.sub t.root.ret σ = true) →
      ∃ t', reparse E exp t = some t' ∧ SameTree t t'
  | .node p as, exp, hreg, hw, hexp => by
    obtain ⟨hp, hpa⟩ := hreg p (by simp [flatten])
    obtain ⟨q, hq, hsame⟩ := reparseNode_ok E refl trans hp hpa (by simpa [Tree.root] using hexp)
    simp [wt, Tree.root] at hw
    have hforest : ∃ as', reparseF E (if q.kind = .prim then q.args else []) as = some as' ∧ SameForest as as' := by
      by_cases hk : q.kind = .prim
      · simp only [hk, if_true, hsame.1]
        exact reparseF_ok E refl trans as p.args (fun x hx => hreg x (by simp [flatten, hx])) hw.2
      · have hpk : p.kind ≠ .prim := fun h => hk (hsame.2.1.2 h)
        simp only [hk, if_false]
        have := hw.2; rw [hpa hpk] at this
        cases as with
        | nil => exact ⟨[], by simp [reparseF], by simp [SameForest]⟩
        | cons a b => simp [wtF] at this
    obtain ⟨as', has, hsf⟩ := hforest
    exact ⟨.node q as', by simp [reparse, hq, has], by simp [SameTree, hsame, hsf]⟩
theorem reparseF_ok (E : ParseEnv) (refl : ∀ a, E.sub a a = true)
    (trans : ∀ a b c, E.sub a b = true → E.sub b c = true → E.sub a c = true) :
    ∀ (ts : List Tree) (τs : List Nat), (∀ p ∈ flattenF ts, Registered E p ∧ (p.kind ≠ .prim → p.args = [])) →
      wtF E.sub τs ts = true → ∃ ts', reparseF E τs ts = some ts' ∧ SameForest ts ts'
  | [], [], _, _ => ⟨[], by simp [reparseF], by simp [SameForest]⟩
  | t :: ts, τ :: τs, hreg, hw => by
    simp [wtF] at hw
    obtain ⟨t', h1, h2⟩ := reparse_ok E refl trans t (some τ) (fun p hp => hreg p (by simp [flattenF, hp]))
      (wt_mono hw.1 (refl _)) (by intro σ hσ; cases hσ; exact wt_root hw.1)
    obtain ⟨ts', h3, h4⟩ := reparseF_ok E refl trans ts τs (fun p hp => hreg p (by simp [flattenF, hp])) hw.2
    exact ⟨t' :: ts', by simp [reparseF, h1, h3], by simp [SameForest, h2, h4]⟩
  | [], _ :: _, _, hw => by simp [wtF] at hw
  | _ :: _, [], _, hw => by simp [wtF] at hw
end

end GpCompile
