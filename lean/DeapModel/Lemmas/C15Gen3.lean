import DeapModel.Lemmas.C15Gen2
/-!
C15 — level 1 of the sweep (the 2-D staircase) satisfies the level interface: value, ignore marks, frames.
-/
namespace HvSweep
open Hypervolume
set_option linter.unusedVariables false

section ctx
variable {C : Cargo} {dims n : ℕ} {O : ℕ → List ℕ} {pt : ℕ → List ℚ} {ref : List ℚ}

theorem ign_setIgn_self (S : St) (a v : ℕ) (h : a < S.ignore.length) : ign (setIgn S a v) a = v := by
  unfold ign setIgn; exact getD_set_self _ _ _ _ h

theorem ign_setIgn_ne (S : St) (a v b : ℕ) (h : b ≠ a) : ign (setIgn S a v) b = ign S b := by
  unfold ign setIgn; exact getD_set_ne _ _ _ _ _ h

/-- the 2-D loop keeps the ignore marks sound: a node is marked only when an earlier node of the list has a
smaller or equal first coordinate -/
theorem loop2d_ig (g : GCtx C dims n O pt ref) (h1d : 1 < dims) (A : List ℕ) (hA : ∀ a ∈ A, a ∈ ids n) :
    ∀ (l : List ℕ) (q : ℕ) (h hvol : ℚ) (S : St) (fuel : ℕ) (done : List ℕ),
      l.length ≤ fuel → Seg S 1 q l 0 → (∀ p ∈ l, p ≠ 0) → RL O 1 A = done ++ l →
      (∃ w ∈ done, cg C w 0 = h) → S.ignore.length = n + 1 → IG C O S A →
      ∃ S', loop2d C fuel (nx S 1 q) q h hvol S
          = some ((stairNodes C l q h hvol).1, (stairNodes C l q h hvol).2.1, (stairNodes C l q h hvol).2.2, S')
        ∧ IG C O S' A ∧ S'.ignore.length = n + 1
  | [], q, h, hvol, S, fuel, done, _, hs, _, _, _, hlen, hig => by
    have : nx S 1 q = 0 := hs.1
    rw [this]
    refine ⟨S, ?_, hig, hlen⟩
    cases fuel <;> simp [loop2d, stairNodes]
  | p :: l, q, h, hvol, S, fuel, done, hf, hs, hne, hL, hw, hlen, hig => by
    have hp : nx S 1 q = p := hs.1.1
    have hp0 : p ≠ 0 := hne p (by simp)
    obtain ⟨f, rfl⟩ : ∃ f, fuel = f + 1 := ⟨fuel - 1, by simp at hf; omega⟩
    have hL' : RL O 1 A = (done ++ [p]) ++ l := by rw [hL]; simp
    have hpL : p ∈ RL O 1 A := by rw [hL]; simp
    have hpA : p ∈ A := ((mem_RL O 1 A p).mp hpL).2
    have hpn : p ≤ n := ((mem_ids n p).mp (hA p hpA)).2
    rw [hp]
    unfold loop2d
    rw [if_neg hp0]
    simp only [stairNodes]
    by_cases hlt : cg C p 0 < h
    · rw [if_pos hlt, if_pos hlt]
      exact loop2d_ig g h1d A hA l p (cg C p 0) _ S f (done ++ [p]) (by simpa using hf) hs.2
        (fun x hx => hne x (by simp [hx])) hL' ⟨p, by simp, rfl⟩ hlen hig
    · rw [if_neg hlt, if_neg hlt]
      set S1 := (if ign S p = 0 then setIgn S p 1 else S) with hS1
      have hpe : PtrEq S S1 := by
        rw [hS1]; split
        · exact fun _ _ => ⟨rfl, rfl⟩
        · exact PtrEq.refl S
      have hlen1 : S1.ignore.length = n + 1 := by
        rw [hS1]; split
        · show (S.ignore.set p 1).length = _; rw [List.length_set]; exact hlen
        · exact hlen
      have hig1 : IG C O S1 A := by
        obtain ⟨w, hwd, hwh⟩ := hw
        intro y hy hm
        by_cases hyp : y = p
        · subst hyp
          by_cases h0 : ign S y = 0
          · have e : ign S1 y = 1 := by
              rw [hS1, if_pos h0]; exact ign_setIgn_self S y 1 (by rw [hlen]; omega)
            rw [e]
            have hwL : w ∈ RL O 1 A := by rw [hL]; exact List.mem_append_left _ hwd
            obtain ⟨hp1, _⟩ := pos_lt_of_split O 1 (g.nodup h1d) (RL O 1 A) done l y (RL_sublist O 1 A) hL
            refine ⟨w, ((mem_RL O 1 A w).mp hwL).2, ?_, ?_, ?_⟩
            · intro e'
              have := hp1 w hwd
              rw [e'] at this; omega
            · rw [hwh]; exact not_lt.mp hlt
            · intro j hj1 hj2
              have : j = 1 := by omega
              subst this
              exact hp1 w hwd
          · have e : ign S1 y = ign S y := by rw [hS1, if_neg h0]
            rw [e] at hm ⊢
            exact hig y hy hm
        · have e : ign S1 y = ign S y := by
            rw [hS1]; split
            · exact ign_setIgn_ne S p 1 y hyp
            · rfl
          rw [e] at hm ⊢
          exact hig y hy hm
      have hnx : nx S1 1 p = nx S 1 p := (hpe 1 p).1
      obtain ⟨S', e1, e2⟩ := loop2d_ig g h1d A hA l p h (hvol + h * (cg C q 1 - cg C p 1)) S1 f (done ++ [p])
        (by simpa using hf) (seg_congr (fun a => hpe 1 a) l p 0 hs.2) (fun x hx => hne x (by simp [hx])) hL'
        (by obtain ⟨w, hwd, hwh⟩ := hw; exact ⟨w, List.mem_append_left _ hwd, hwh⟩) hlen1 hig1
      exact ⟨S', e1, e2⟩

theorem take2_pt (p : List ℚ) (h : 2 ≤ p.length) : p.take 2 = toPt (p.getD 0 0, p.getD 1 0) := by
  match p, h with
  | a :: b :: t, _ => rfl

theorem take2_ref (r : List ℚ) (h : 2 ≤ r.length) : r.take 2 = [r.getD 0 0, r.getD 1 0] := by
  match r, h with
  | a :: b :: t, _ => rfl

/-- **level 1 meets the level interface** -/
theorem level1_ok (g : GCtx C dims n O pt ref) (h2 : 2 ≤ dims) (F : ℕ) (hF : n + 1 ≤ F) :
    LevelOK C dims n O pt ref F 1 := by
  intro S A inv hne
  have h1d : 1 < dims := by omega
  have hperm := RL_perm g h1d A inv.nodup inv.sub
  have hLne : RL O 1 A ≠ [] := by
    intro h; rw [h] at hperm; exact hne (List.perm_nil.mp hperm.symm |>.symm ▸ rfl) |> fun x => x
  have hlenA : A.length ≠ 0 := fun h => hne (List.length_eq_zero_iff.mp h)
  have hd1 := inv.lists 1 (le_refl _)
  have hLI : ∀ a ∈ RL O 1 A, a ∈ ids n := fun a ha => inv.sub a ((mem_RL O 1 A a).mp ha).2
  let XY : ℕ → ℚ × ℚ := fun a => ((pt a).getD 0 0, (pt a).getD 1 0)
  obtain ⟨S', hrun, hpe, hSh, hAr, hVo, hBo, hIgn⟩ := level1_value (dims := dims) (n := n) C (ref.getD 0 0) (ref.getD 1 0) XY F S
    (RL O 1 A) A.length hlenA inv.shape hd1 hLne (by have := dl_length_le hd1; omega)
    (fun a ha => ⟨g.cgv a (hLI a ha) 0 (by omega), g.cgv a (hLI a ha) 1 h1d⟩)
    (RL_sorted g h1d A)
    (fun a ha => ⟨g.le a (hLI a ha) 0 (by omega), g.le a (hLI a ha) 1 h1d⟩)
  -- the ignore marks: rerun the loop with the soundness invariant
  have hig : IG C O S' A ∧ S'.ignore.length = n + 1 := by
    cases hLc : RL O 1 A with
    | nil => exact absurd hLc hLne
    | cons a l =>
      have hd1' := hd1
      rw [hLc] at hd1'
      have hdT : DL n (tick S 1) 1 (a :: l) := dl_ptrEq (S := S) (fun _ _ => ⟨rfl, rfl⟩) hd1'
      have hnx0 : nx (tick S 1) 1 0 = a := hdT.1.1.1
      obtain ⟨S'', e1, e2, e3⟩ := loop2d_ig g h1d A inv.sub l a (cg C a 0) 0 (tick S 1) F [a]
        (by have := dl_length_le hd1'; simp at this; omega) hdT.1.2
        (fun p hp h0 => dl_zero_notMem hd1' (h0 ▸ List.mem_cons_of_mem _ hp))
        (by rw [hLc]; rfl) ⟨a, by simp, rfl⟩ inv.tshape.2.2
        (ig_frame (S := S) (fun _ _ => rfl) inv.ig)
      have hrun2 : hvRecursive C F 1 A.length S = some ((stairNodes C l a (cg C a 0) 0).1 +
          (stairNodes C l a (cg C a 0) 0).2.1 * cg C (stairNodes C l a (cg C a 0) 0).2.2 1, S'') := by
        unfold hvRecursive
        dsimp only
        rw [if_neg hlenA, hnx0, e1]
      rw [hrun] at hrun2
      have : S' = S'' := by
        have := Option.some.inj hrun2
        exact (Prod.mk.inj this).2
      rw [this]
      exact ⟨e2, e3⟩
  refine ⟨_, S', hrun, ?_⟩
  have hval : hvCells [ref.getD 0 0, ref.getD 1 0] (((RL O 1 A).map XY).map toPt) = Hj ref pt 1 A := by
    unfold Hj
    have hrl : 2 ≤ ref.length := by rw [g.hdims]; exact h2
    have ht := hvCells_take (ref.take (1 + 1)) (A.map pt)
    rw [← ht, take2_ref ref hrl]
    apply hvCells_of_mem_iff
    intro q
    simp only [List.mem_map]
    constructor
    · rintro ⟨x, ⟨a, ha, rfl⟩, rfl⟩
      have haA : a ∈ A := ((mem_RL O 1 A a).mp ha).2
      refine ⟨pt a, ⟨a, haA, rfl⟩, ?_⟩
      have : (pt a).length = dims := g.len a (inv.sub a haA)
      show (pt a).take 2 = _
      rw [take2_pt (pt a) (by omega)]
    · rintro ⟨x, ⟨a, ha, rfl⟩, rfl⟩
      have hL : a ∈ RL O 1 A := (mem_RL O 1 A a).mpr ⟨(g.mem h1d a).mpr (inv.sub a ha), ha⟩
      refine ⟨XY a, ⟨a, hL, rfl⟩, ?_⟩
      have : (pt a).length = dims := g.len a (inv.sub a ha)
      show _ = (pt a).take 2
      rw [take2_pt (pt a) (by omega)]
  exact
    { val := hval
      ptr := hpe
      inv :=
        { shape := hSh
          tshape := ⟨by rw [hAr]; exact inv.tshape.1, by rw [hVo]; exact inv.tshape.2.1, hig.2⟩
          nodup := inv.nodup
          sub := inv.sub
          lists := fun i hi => dl_ptrEq hpe (inv.lists i hi)
          cv := fun j hj1 hjK => by omega
          ig := hig.1 }
      ign_out := fun y hy hy0 => hIgn y (fun h => hy ((mem_RL O 1 A y).mp h).2) hy0
      cache_hi := fun a i _ => ⟨ar_of_area hAr a i, vl_of_volume hVo a i⟩
      bounds_hi := fun i _ => by rw [hBo] }

end ctx

end HvSweep
