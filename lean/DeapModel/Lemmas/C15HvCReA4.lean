import DeapModel.Lemmas.C15HvCReA3
/-!
C15 — the re-entered 3-D base case of `_hv.c`: the three branches of the body of the main loop l.899-989 deliver
`StepOut`, and the loop keeps `SLInv` (given the rich one-iteration spec `SweepBodyRe_Statement` of `C15HvCReA1`).
-/
namespace HvC
set_option linter.unusedVariables false
open Hypervolume
open HvSweep (GCtx Hj RL preSet pos ARv VOLv ids Shaped)

/-! ### tables -/

theorem tables_step {d n : ℕ} {S S' : St} {p : ℕ} {x y : ℚ} (hT : TSh d n S) (hp : p ≤ n) (h2d : 2 < d)
    (hvol : S'.vol = HvSweep.tset S.vol p 2 y) (harea : S'.area = HvSweep.tset S.area p 2 x)
    (hig : S'.ignore.length = S.ignore.length) (hdr : S'.domr.length = S.domr.length) (hb : S'.bound = S.bound) :
    TSh d n S' ∧ ar S' p 2 = x ∧ vl S' p 2 = y ∧
      ∀ a i, (a ≠ p ∨ i ≠ 2) → ar S' a i = ar S a i ∧ vl S' a i = vl S a i := by
  refine ⟨⟨by rw [harea]; exact HvSweep.shaped_tset hT.area _ _ _, by rw [hvol]; exact HvSweep.shaped_tset hT.vol _ _ _,
    by rw [hig]; exact hT.ign, by rw [hdr]; exact hT.domr, by rw [hb]; exact hT.bound⟩, ?_, ?_, ?_⟩
  · unfold ar; rw [harea]
    exact HvSweep.tget_tset_self _ _ _ _ _ (by rw [hT.area.1]; omega) (by rw [hT.area.2 p (by omega)]; exact h2d)
  · unfold vl; rw [hvol]
    exact HvSweep.tget_tset_self _ _ _ _ _ (by rw [hT.vol.1]; omega) (by rw [hT.vol.2 p (by omega)]; exact h2d)
  · intro a i hne
    constructor
    · unfold ar; rw [harea]; exact HvSweep.tget_tset_ne _ _ _ _ _ _ _ hne
    · unfold vl; rw [hvol]; exact HvSweep.tget_tset_ne _ _ _ _ _ _ _ hne

/-! ### the staircase is strict -/

theorem pairwise_or {α : Type} {r : α → α → Prop} : ∀ (l : List α), l.Pairwise r → ∀ a ∈ l, ∀ b ∈ l, a ≠ b → r a b ∨ r b a
  | [], _, a, ha, _, _, _ => by simp at ha
  | x :: l, h, a, ha, b, hb, hab => by
    have h' := List.pairwise_cons.mp h
    rcases List.mem_cons.mp ha with ea | ha'
    · rcases List.mem_cons.mp hb with eb | hb'
      · exact absurd (ea.trans eb.symm) hab
      · rw [ea]; exact Or.inl (h'.1 b hb')
    · rcases List.mem_cons.mp hb with eb | hb'
      · rw [eb]; exact Or.inr (h'.1 a ha')
      · exact pairwise_or l h'.2 a ha' b hb' hab

theorem stair_cases (C : Cargo) (T : List ℕ) (hst : Stair (T.map (item C))) (a b : ℕ) (ha : a ∈ T) (hb : b ∈ T) (hab : a ≠ b) :
    ((item C a).1 < (item C b).1 ∧ (item C b).2 < (item C a).2) ∨
      ((item C b).1 < (item C a).1 ∧ (item C a).2 < (item C b).2) := by
  have hpw := List.pairwise_map.mp hst
  exact pairwise_or T hpw a ha b hb hab

/-- a swept node weakly dominated by a tree member beats no tree member -/
theorem no_beat_tree {C : Cargo} {R : List ℚ} {d n : ℕ} {O : ℕ → List ℕ} {A : List ℕ} {S : St} {pre rest : List ℕ} {p : ℕ}
    {hyperv hypera : ℚ} (I : SLInv C R d n O A S pre (p :: rest) hyperv hypera) (F : SplitFacts C O A pre p rest)
    (t : ℕ) (ht : t ∈ S.tree) (htx : (item C t).1 ≤ (item C p).1) (hty : (item C t).2 ≤ (item C p).2) :
    ∀ a ∈ S.tree, ¬ Beats C O p a := by
  intro a ha hb
  obtain ⟨_, hx, hy, hpos⟩ := hb
  have hx' : (item C p).1 ≤ (item C a).1 := hx
  have hy' : (item C p).2 ≤ (item C a).2 := hy
  have hta : t = a := by
    by_contra hne
    rcases stair_cases C S.tree I.stair t a ht ha hne with h | h
    · linarith [h.2]
    · linarith [h.1]
  subst hta
  have hitem : item C p = item C t := Prod.ext (le_antisymm hx' htx) (le_antisymm hy' hty)
  have h1 := hpos hitem
  have h2 := F.pos1 t (I.tsub t ht)
  omega

/-! ### the three branches -/

/-- the static facts used by every branch -/
theorem step_static {C : Cargo} {R : List ℚ} {d n : ℕ} {O : ℕ → List ℕ} {A : List ℕ} {S : St} {pre rest : List ℕ} {p : ℕ}
    {hyperv hypera : ℚ} (c : CCtx C R d n O) (I : SLInv C R d n O A S pre (p :: rest) hyperv hypera) :
    SplitFacts C O A pre p rest ∧ p ∈ A ∧ p ≤ n ∧ 2 < d ∧ p ∉ S.tree ∧ p ≠ 0 ∧ 0 ≤ hgt C R S p ∧
      p < S.domr.length ∧ p < S.ignore.length ∧ 0 ∉ S.tree ∧ S.tree.length ≤ n := by
  have h2d : 2 < d := by have := c.hd; omega
  have F := splitFacts c I.asub I.split
  have hpA : p ∈ A := F.memA p (by simp)
  have hpn : p ≤ n := ((HvSweep.mem_ids n p).mp (I.asub p hpA)).2
  have hD : DLc n S 2 (pre ++ p :: rest) := by have := I.dl; rw [I.split] at this; exact this
  obtain ⟨hhgt, hnx, hp0⟩ := hgt_eq C R n S pre rest p hD
  have hh : 0 ≤ hgt C R S p := by
    rw [hhgt]
    cases rest with
    | nil => simp only [zOf]; linarith [I.agood p hpA 2 h2d]
    | cons q rest' => simp only [zOf]; linarith [F.zrest q (by simp)]
  have h0T : 0 ∉ S.tree := by
    intro hm
    have := (HvSweep.mem_ids n 0).mp (I.asub 0 (F.memA 0 (List.mem_append_left _ (I.tsub 0 hm))))
    omega
  have htlen : S.tree.length ≤ n := by
    have h1 : S.tree.length ≤ pre.length := by
      apply List.Subperm.length_le
      exact List.subperm_of_subset I.tnd (fun t ht => I.tsub t ht)
    have h2 : (pre ++ p :: rest).length ≤ n := HvSweep.dl_length_le hD
    simp at h2
    omega
  exact ⟨F, hpA, hpn, h2d, fun hm => F.ppre (I.tsub p hm), hp0, hh, by rw [I.tsh.domr]; omega, by rw [I.tsh.ign]; omega,
    h0T, htlen⟩

/-- **branch 1** (l.911-916): the node carries a mark `≥ 2` -/
theorem step_marked {C : Cargo} {R : List ℚ} {d n : ℕ} {O : ℕ → List ℕ} {A : List ℕ} {S : St} {pre rest : List ℕ} {p : ℕ}
    {hyperv hypera : ℚ} (c : CCtx C R d n O) (I : SLInv C R d n O A S pre (p :: rest) hyperv hypera) (tfuel : ℕ)
    (hm : (2 : ℤ) ≤ ign S p) :
    ∃ v' hypera' S', sweepBody C R tfuel p hyperv hypera S = some (v', hypera', S') ∧
      StepOut C R d n O A S pre p hyperv hypera S' v' hypera' := by
  obtain ⟨F, hpA, hpn, h2d, hpT, hp0, hh, hpd, hpi, h0T, htlen⟩ := step_static c I
  refine ⟨hyperv + hypera * hgt C R S p, hypera, setAr (setVl S p 2 hyperv) p 2 hypera, ?_, ?_⟩
  · unfold sweepBody sweepBodyWith
    simp only
    have hm' : (2 : ℤ) ≤ ign (setVl S p 2 hyperv) p := hm
    rw [if_pos hm']
    rfl
  · obtain ⟨t1, t2, t3, t4⟩ := tables_step (S' := setAr (setVl S p 2 hyperv) p 2 hypera) I.tsh hpn h2d rfl rfl rfl rfl rfl
    -- the witness of the mark
    obtain ⟨w, hwA, hwne, hwx, hwy, hwpos⟩ := I.ig p hpA hm
    have hwp : pos O 2 w < pos O 2 p := hwpos 2 (le_refl _) (by omega)
    have hwpre : w ∈ pre := by
      rcases List.mem_append.mp (F.ofA w hwA) with h | h
      · exact h
      · rcases List.mem_cons.mp h with h | h
        · exact absurd h hwne
        · have := F.pos2 w h; omega
    obtain ⟨t, ht, htd⟩ := I.cover w hwpre
    have htx : (item C t).1 ≤ (item C p).1 := le_trans htd.1 hwx
    have hty : (item C t).2 ≤ (item C p).2 := le_trans htd.2 hwy
    exact
      { ptr := ⟨rfl, rfl, rfl, rfl⟩
        tsh := t1
        arp := t2
        vlp := t3
        cfr := t4
        val := rfl
        ignfr := fun y _ => rfl
        tne := I.tne
        tnd := I.tnd
        tsub := fun t ht => Or.inr ht
        stair := I.stair
        area := I.area
        cover := by
          intro q hq
          rcases hq with rfl | hq
          · exact ⟨t, ht, htx, hty⟩
          · exact ⟨q, hq, le_refl _, le_refl _⟩
        d1 := fun y _ _ => rfl
        d2 := fun hin => absurd hin hpT
        d3 := fun _ => ⟨I.igd p hm, w, hwpre, hwne, hwx, hwy, fun _ => hwp⟩
        d4 := fun a h1 h2 => absurd h1 h2
        d5 := fun a ha _ => no_beat_tree I F t ht htx hty a ha
        i1 := Or.inl rfl }

/-- **branches 2 and 3** (l.919-987): the node is not marked -/
theorem step_unmarked (hbody : SweepBodyRe_Statement)
    {C : Cargo} {R : List ℚ} {d n : ℕ} {O : ℕ → List ℕ} {A : List ℕ} {S : St} {pre rest : List ℕ} {p : ℕ}
    {hyperv hypera : ℚ} (c : CCtx C R d n O) (I : SLInv C R d n O A S pre (p :: rest) hyperv hypera) (tfuel : ℕ)
    (htf : n < tfuel) (hm : ¬ (2 : ℤ) ≤ ign S p) :
    ∃ v' hypera' S', sweepBody C R tfuel p hyperv hypera S = some (v', hypera', S') ∧
      StepOut C R d n O A S pre p hyperv hypera S' v' hypera' := by
  obtain ⟨F, hpA, hpn, h2d, hpT, hp0, hh, hpd, hpi, h0T, htlen⟩ := step_static c I
  obtain ⟨r, hrun, hr1, hr2, hrF, hrne, hrnd, hrsub, hrst, hrcov, hrvol, hrarea, hbr⟩ :=
    hbody C R tfuel p hyperv hypera S I.tne I.tnd h0T hpT hp0 I.stair (I.agood p hpA 0 (by omega)) hm I.area
      (by omega) hh
  obtain ⟨v', hypera', S'⟩ := r
  simp only at hrun hr1 hr2 hrF hrne hrnd hrsub hrst hrcov hrvol hrarea hbr
  refine ⟨v', hypera', S', hrun, ?_⟩
  have hTn : ∀ a ∈ S.tree, a < S.domr.length := by
    intro a ha
    have := ((HvSweep.mem_ids n a).mp (I.asub a (F.memA a (List.mem_append_left _ (I.tsub a ha))))).2
    rw [I.tsh.domr]; omega
  rcases hbr with ⟨⟨b, hbT, hbx, hby⟩, hT', hig', hdr'⟩ | ⟨hig', hpT', hdrl, hnod, hdrp, hdrfr, hdrD⟩
  · -- branch 2: dominated by the tree successor
    obtain ⟨t1, t2, t3, t4⟩ := tables_step (S' := S') I.tsh hpn h2d hrvol hrarea (by rw [hig']; simp) (by rw [hdr']; simp)
      hrF.2.2.1
    have hbpre : b ∈ pre := I.tsub b hbT
    have hbne : b ≠ p := fun e => F.ppre (e ▸ hbpre)
    have hbpos := F.pos1 b hbpre
    have hpT' : p ∉ S'.tree := by rw [hT']; exact hpT
    have hignp : ign S' p = 2 := by
      unfold ign; rw [hig']; exact HvSweep.getD_set_self _ _ _ _ hpi
    have hdrp : dr S' p = cg C p 2 := by
      unfold dr; rw [hdr']; exact HvSweep.getD_set_self _ _ _ _ hpd
    exact
      { ptr := hrF
        tsh := t1
        arp := t2
        vlp := t3
        cfr := t4
        val := hr1
        ignfr := by
          intro y hy
          unfold ign; rw [hig']; exact HvSweep.getD_set_ne _ _ _ _ _ hy
        tne := hrne
        tnd := hrnd
        tsub := hrsub
        stair := hrst
        area := hr2
        cover := hrcov
        d1 := by
          intro y hy _
          unfold dr; rw [hdr']; exact HvSweep.getD_set_ne _ _ _ _ _ hy
        d2 := fun hin => absurd hin hpT'
        d3 := fun _ => ⟨hdrp, b, hbpre, hbne, hbx, hby, fun _ => hbpos⟩
        d4 := by
          intro a h1 h2
          rw [hT'] at h2
          exact absurd h1 h2
        d5 := by
          intro a ha _
          rw [hT'] at ha
          exact no_beat_tree I F b hbT hbx hby a ha
        i1 := Or.inr ⟨hignp, b, F.memA b (List.mem_append_left _ hbpre), hbne, hbx, hby, fun j h1 h2 => by
          have : j = 2 := by omega
          rw [this]; exact hbpos⟩ }
  · -- branch 3: inserted
    obtain ⟨t1, t2, t3, t4⟩ := tables_step (S' := S') I.tsh hpn h2d hrvol hrarea (by rw [hig']) hdrl hrF.2.2.1
    exact
      { ptr := hrF
        tsh := t1
        arp := t2
        vlp := t3
        cfr := t4
        val := hr1
        ignfr := by
          intro y hy
          unfold ign; rw [hig']
        tne := hrne
        tnd := hrnd
        tsub := hrsub
        stair := hrst
        area := hr2
        cover := hrcov
        d1 := hdrfr
        d2 := by
          intro _
          refine ⟨hdrp hpd, by unfold ign; rw [hig']; exact hm, ?_⟩
          intro q hq hb
          obtain ⟨t, ht, htd⟩ := I.cover q hq
          exact hnod t ht ⟨le_trans htd.1 hb.2.1, le_trans htd.2 hb.2.2.1⟩
        d3 := fun hnin => absurd hpT' hnin
        d4 := by
          intro a h1 h2
          obtain ⟨e1, e2, e3, e4⟩ := hdrD a h1 h2
          exact ⟨e1 (hTn a h1), e2, e3, e4⟩
        d5 := by
          intro a ha hne hb
          rcases stair_cases C S'.tree hrst a p ha hpT' hne with h | h
          · have : (item C p).1 ≤ (item C a).1 := hb.2.1
            linarith [h.1]
          · have : (item C p).2 ≤ (item C a).2 := hb.2.2.1
            linarith [h.2]
        i1 := Or.inl (by unfold ign; rw [hig']) }

/-! ### the loop -/

/-- **the main loop l.899-989 keeps `SLInv`**, given the rich one-iteration spec -/
theorem sweepLoopRe_of (hbody : SweepBodyRe_Statement) : SweepLoopRe_Statement := by
  intro C R d n O A tfuel fuel pre rest
  induction rest generalizing pre fuel with
  | nil =>
    intro hyperv hypera S c I hf htf
    refine ⟨hyperv, hypera, S, ?_, by rw [List.append_nil]; exact I, rfl, rfl, rfl, rfl, fun _ _ => rfl, fun _ _ => rfl,
      fun _ _ _ => ⟨rfl, rfl⟩⟩
    cases fuel <;> simp [sweepLoop]
  | cons p rest ih =>
    intro hyperv hypera S c I hf htf
    obtain ⟨f, rfl⟩ : ∃ f, fuel = f + 1 := ⟨fuel - 1, by simp at hf; omega⟩
    obtain ⟨F, hpA, hpn, h2d, hpT, hp0, hh, hpd, hpi, h0T, htlen⟩ := step_static c I
    have hD : DLc n S 2 (pre ++ p :: rest) := by have := I.dl; rw [I.split] at this; exact this
    obtain ⟨hhgt, hnx, _⟩ := hgt_eq C R n S pre rest p hD
    obtain ⟨v1, a1, S1, hrun, hstep⟩ : ∃ v' hypera' S', sweepBody C R tfuel p hyperv hypera S = some (v', hypera', S') ∧
        StepOut C R d n O A S pre p hyperv hypera S' v' hypera' := by
      by_cases hm : (2 : ℤ) ≤ ign S p
      · exact step_marked c I tfuel hm
      · exact step_unmarked hbody c I tfuel htf hm
    have I1 := slinv_step c I hstep
    obtain ⟨v, a', S', hfin, I', e1, e2, e3, e4, e5, e6, e7⟩ := ih f (pre ++ [p]) v1 a1 S1 c I1 (by simp at hf; omega) htf
    have hnx1 : nx S1 2 p = rest.headD 0 := by
      have : nx S1 2 p = nx S 2 p := by unfold nx; rw [hstep.ptr.1]
      rw [this, hnx]
    refine ⟨v, a', S', ?_, ?_, e1.trans hstep.ptr.1, e2.trans hstep.ptr.2.1, e3.trans hstep.ptr.2.2.1,
      e4.trans hstep.ptr.2.2.2, ?_, ?_, ?_⟩
    · unfold sweepLoop
      simp only [List.headD_cons, if_neg hp0, hrun]
      rw [hnx1, hfin]
    · have : pre ++ [p] ++ rest = pre ++ p :: rest := by simp
      rw [this] at I'
      exact I'
    · intro y hy
      have h1 : y ∉ rest := fun h => hy (List.mem_cons_of_mem _ h)
      have h2 : y ≠ p := fun h => hy (by rw [h]; simp)
      rw [e5 y h1, hstep.ignfr y h2]
    · intro y hy
      have h1 : y ∉ pre ++ [p] ++ rest := fun h => hy (by simpa using h)
      have h2 : y ≠ p := fun h => hy (by rw [h]; simp)
      have h3 : y ∉ S.tree := fun h => hy (List.mem_append_left _ (I.tsub y h))
      rw [e6 y h1, hstep.d1 y h2 (Or.inl h3)]
    · intro a i hai
      have h1 : i ≠ 2 ∨ a ∉ rest := by
        rcases hai with h | h
        · exact Or.inl h
        · exact Or.inr (fun hr => h (List.mem_cons_of_mem _ hr))
      have h2 : a ≠ p ∨ i ≠ 2 := by
        rcases hai with h | h
        · exact Or.inr h
        · exact Or.inl (fun e => h (by rw [e]; simp))
      rw [(e7 a i h1).1, (e7 a i h1).2]
      exact hstep.cfr a i h2

end HvC
