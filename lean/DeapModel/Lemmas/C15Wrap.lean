import DeapModel.Lemmas.C15Grid
/-!
C15 — lemmas for the low-dimensional formulas and the wrappers (`argmaxFirst`, `looValues`, `wobj`).
-/
namespace Hypervolume
set_option linter.unusedVariables false

/-! ### domination / boundary in coordinates -/

theorem getD_succ_eq' (p : Pt) (j : ℕ) : p.getD (j + 1) 0 = p.tail.getD j 0 := by
  cases p <;> simp

theorem getD_zero_eq' (p : Pt) : p.getD 0 0 = p.headD 0 := by
  cases p <;> simp

theorem dom_iff : ∀ (ref : List ℚ) (p q : Pt), Dom ref p q ↔ ∀ j < ref.length, p.getD j 0 ≤ q.getD j 0
  | [], _, _ => by simp [Dom]
  | r :: ref, p, q => by
    rw [Dom, dom_iff ref p.tail q.tail]
    constructor
    · rintro ⟨h0, h⟩ j hj
      cases j with
      | zero => rw [getD_zero_eq', getD_zero_eq']; exact h0
      | succ j => rw [getD_succ_eq', getD_succ_eq']; exact h j (by simpa using hj)
    · intro h
      refine ⟨?_, fun j hj => ?_⟩
      · have := h 0 (by simp); rwa [getD_zero_eq', getD_zero_eq'] at this
      · have := h (j + 1) (by simpa using hj); rwa [getD_succ_eq', getD_succ_eq'] at this

theorem onBoundary_iff : ∀ (ref : List ℚ) (q : Pt), OnBoundary ref q ↔ ∃ j < ref.length, ref.getD j 0 ≤ q.getD j 0
  | [], _ => by simp [OnBoundary]
  | r :: ref, q => by
    rw [OnBoundary, onBoundary_iff ref q.tail]
    constructor
    · rintro (h | ⟨j, hj, h⟩)
      · exact ⟨0, by simp, by rw [getD_zero_eq', getD_zero_eq']; exact h⟩
      · exact ⟨j + 1, by simpa using hj, by rw [getD_succ_eq']; simpa using h⟩
    · rintro ⟨j, hj, h⟩
      cases j with
      | zero => left; rw [getD_zero_eq', getD_zero_eq'] at h; exact h
      | succ j => right; exact ⟨j, by simpa using hj, by rw [getD_succ_eq'] at h; simpa using h⟩

/-! ### a point that dominates every other one -/

theorem hvCells_swap (ref : List ℚ) (a b : Pt) (S : List Pt) :
    hvCells ref (a :: b :: S) = hvCells ref (b :: a :: S) :=
  hvCells_of_mem_iff ref _ _ (fun p => by simp only [List.mem_cons]; tauto)

theorem hvCells_of_dominating (ref : List ℚ) (q : Pt) : ∀ (S : List Pt), (∀ s ∈ S, Dom ref q s) →
    hvCells ref (q :: S) = boxVol ref q
  | [], _ => hvCells_single ref q
  | s :: S, h => by
    rw [hvCells_swap, hvCells_dominated' ref (q :: S) q s (by simp) (h s (by simp))]
    exact hvCells_of_dominating ref q S (fun t ht => h t (by simp [ht]))

/-! ### one dimension -/

theorem foldr_min_le_init (r : ℚ) : ∀ xs : List ℚ, xs.foldr min r ≤ r
  | [] => le_refl _
  | x :: xs => le_trans (min_le_right _ _) (foldr_min_le_init r xs)

theorem foldr_min_le_mem (r : ℚ) : ∀ (xs : List ℚ) (y : ℚ), y ∈ xs → xs.foldr min r ≤ y
  | x :: xs, y, h => by
    rcases List.mem_cons.mp h with rfl | h
    · exact min_le_left _ _
    · exact le_trans (min_le_right _ _) (foldr_min_le_mem r xs y h)

theorem foldr_min_mem_or (r : ℚ) : ∀ xs : List ℚ, xs.foldr min r = r ∨ xs.foldr min r ∈ xs
  | [] => Or.inl rfl
  | x :: xs => by
    rw [List.foldr_cons]
    rcases le_total x (xs.foldr min r) with h | h
    · rw [min_eq_left h]; right; simp
    · rw [min_eq_right h]
      rcases foldr_min_mem_or r xs with h' | h'
      · left; exact h'
      · right; exact List.mem_cons_of_mem _ h'

/-- In one dimension the hypervolume is `ref − min` (capped at 0 when no point is below the reference). -/
theorem hvCells_1d (r : ℚ) : ∀ (S : List Pt), hvCells [r] S = r - (S.map (fun p => p.headD 0)).foldr min r
  | [] => by rw [hvCells_nil_pts]; simp
  | q :: S => by
    have ih := hvCells_1d r S
    rw [List.map_cons, List.foldr_cons]
    set m := (S.map (fun p => p.headD 0)).foldr min r with hm
    rcases lt_or_ge (q.headD 0) m with h | h
    · -- q dominates every other point
      rw [min_eq_left (le_of_lt h)]
      rw [hvCells_of_dominating [r] q S]
      · have hr : q.headD 0 < r := lt_of_lt_of_le h (foldr_min_le_init r _)
        rw [boxVol, boxVol, if_pos hr, mul_one]
      · intro s hs
        refine ⟨?_, trivial⟩
        exact le_trans (le_of_lt h) (foldr_min_le_mem r _ _ (List.mem_map_of_mem hs))
    · rw [min_eq_right h, ← ih]
      rcases foldr_min_mem_or r (S.map (fun p => p.headD 0)) with h' | h'
      · -- nothing below the reference, and q is on the boundary
        apply hvCells_boundary'
        left; rw [← h', ← hm]; exact h
      · obtain ⟨s, hs, hsm⟩ := List.mem_map.mp h'
        apply hvCells_dominated' [r] S s q hs
        refine ⟨?_, trivial⟩
        rw [hsm, ← hm]; exact h

/-! ### `numpy.argmax` -/

theorem argmaxFirst_spec : ∀ (l : List ℚ), l ≠ [] →
    argmaxFirst l < l.length ∧ (∀ k < l.length, l.getD k 0 ≤ l.getD (argmaxFirst l) 0) ∧
      (∀ k < argmaxFirst l, l.getD k 0 < l.getD (argmaxFirst l) 0)
  | [], h => absurd rfl h
  | [x], _ => by
    refine ⟨by simp [argmaxFirst], ?_, ?_⟩
    · intro k hk
      have : k = 0 := by simpa using hk
      subst this; simp [argmaxFirst]
    · intro k hk; simp [argmaxFirst] at hk
  | x :: y :: t, _ => by
    obtain ⟨h1, h2, h3⟩ := argmaxFirst_spec (y :: t) (by simp)
    rw [argmaxFirst]
    by_cases hx : x < (y :: t).getD (argmaxFirst (y :: t)) 0
    · simp only [hx, if_true]
      refine ⟨by simpa using h1, ?_, ?_⟩
      · intro k hk
        cases k with
        | zero => simpa using le_of_lt hx
        | succ k => simpa using h2 k (by simpa using hk)
      · intro k hk
        cases k with
        | zero => simpa using hx
        | succ k => simpa using h3 k (by omega)
    · simp only [hx, if_false]
      refine ⟨by simp, ?_, ?_⟩
      · intro k hk
        cases k with
        | zero => simp
        | succ k =>
          have := h2 k (by simpa using hk)
          simp only [List.getD_cons_succ, List.getD_cons_zero]
          exact le_trans this (not_lt.mp hx)
      · intro k hk; omega

theorem looValues_length (ref : List ℚ) (pts : List Pt) : (looValues ref pts).length = pts.length := by
  simp [looValues]

theorem looValues_getD (ref : List ℚ) (pts : List Pt) (k : ℕ) (hk : k < pts.length) :
    (looValues ref pts).getD k 0 = hvSlice ref (pts.eraseIdx k) := by
  unfold looValues
  rw [List.getD_eq_getElem?_getD, List.getElem?_map, List.getElem?_range hk]
  rfl

/-! ### sign handling of the wrappers -/

theorem wobj_coord (w v : List ℚ) (j : ℕ) :
    ((wvalues w v).map (fun x => x * (-1))).getD j 0 = -(v.getD j 0 * w.getD j 0) := by
  unfold wvalues
  induction v generalizing w j with
  | nil => simp
  | cons a v ih =>
    cases w with
    | nil => simp
    | cons b w =>
      cases j with
      | zero => simp
      | succ j => simpa using ih w j

/-! ### the default reference point `max + 1` -/

theorem zipWith_maxRat_getD : ∀ (a b : List ℚ) (j : ℕ), j < a.length → j < b.length →
    (List.zipWith maxRat a b).getD j 0 = maxRat (a.getD j 0) (b.getD j 0)
  | [], _, _, h, _ => by simp at h
  | _ :: _, [], _, _, h => by simp at h
  | x :: a, y :: b, 0, _, _ => by simp
  | x :: a, y :: b, j + 1, h1, h2 => by
    simpa using zipWith_maxRat_getD a b j (by simpa using h1) (by simpa using h2)

theorem le_maxRat_left (a b : ℚ) : a ≤ maxRat a b := by
  unfold maxRat; split <;> simp_all

theorem le_maxRat_right (a b : ℚ) : b ≤ maxRat a b := by
  unfold maxRat; split
  · exact le_refl _
  · rename_i h; exact le_of_lt (not_le.mp h)

theorem maxRat_eq_or (a b : ℚ) : maxRat a b = a ∨ maxRat a b = b := by
  unfold maxRat; split <;> simp

theorem colMax_spec (d : ℕ) : ∀ (ps : List Pt) (p : Pt), p.length = d → (∀ q ∈ ps, q.length = d) →
    (ps.foldl (fun acc q => List.zipWith maxRat acc q) p).length = d ∧
    ∀ j < d, (∀ q ∈ p :: ps, q.getD j 0 ≤ (ps.foldl (fun acc q => List.zipWith maxRat acc q) p).getD j 0) ∧
      (∃ q ∈ p :: ps, (ps.foldl (fun acc q => List.zipWith maxRat acc q) p).getD j 0 = q.getD j 0)
  | [], p, hp, _ => by
    refine ⟨hp, fun j _ => ⟨?_, ⟨p, by simp, rfl⟩⟩⟩
    intro q hq
    simp only [List.mem_singleton] at hq
    subst hq; exact le_refl _
  | s :: ps, p, hp, hps => by
    have hs : s.length = d := hps s (by simp)
    have hz : (List.zipWith maxRat p s).length = d := by simp [hp, hs]
    obtain ⟨hl, hj⟩ := colMax_spec d ps (List.zipWith maxRat p s) hz (fun q hq => hps q (by simp [hq]))
    refine ⟨hl, fun j hjd => ?_⟩
    obtain ⟨hle, q, hq, heq⟩ := hj j hjd
    have hzj := zipWith_maxRat_getD p s j (hp ▸ hjd) (hs ▸ hjd)
    refine ⟨?_, ?_⟩
    · intro t ht
      simp only [List.mem_cons] at ht
      have hz' := hle (List.zipWith maxRat p s) (by simp)
      rw [hzj] at hz'
      rcases ht with rfl | rfl | ht
      · exact le_trans (le_maxRat_left _ _) hz'
      · exact le_trans (le_maxRat_right _ _) hz'
      · exact hle t (by simp [ht])
    · simp only [List.mem_cons] at hq
      rcases hq with rfl | hq
      · rw [List.foldl_cons, heq, hzj]
        rcases maxRat_eq_or (p.getD j 0) (s.getD j 0) with h | h
        · exact ⟨p, by simp, h⟩
        · exact ⟨s, by simp, h⟩
      · exact ⟨q, by simp [hq], heq⟩

/-- The default reference point is, in every coordinate, the largest coordinate of the points plus one. -/
theorem defaultRef_spec (d : ℕ) (pts : List Pt) (hne : pts ≠ []) (hlen : ∀ q ∈ pts, q.length = d) :
    (defaultRef pts).length = d ∧
    ∀ j < d, (∀ q ∈ pts, q.getD j 0 + 1 ≤ (defaultRef pts).getD j 0) ∧
      (∃ q ∈ pts, (defaultRef pts).getD j 0 = q.getD j 0 + 1) := by
  cases pts with
  | nil => exact absurd rfl hne
  | cons p ps =>
    obtain ⟨hl, hj⟩ := colMax_spec d ps p (hlen p (by simp)) (fun q hq => hlen q (by simp [hq]))
    unfold defaultRef
    refine ⟨by simpa using hl, fun j hjd => ?_⟩
    obtain ⟨hle, q, hq, heq⟩ := hj j hjd
    have hget : ((ps.foldl (fun acc q => List.zipWith maxRat acc q) p).map (· + 1)).getD j 0
        = (ps.foldl (fun acc q => List.zipWith maxRat acc q) p).getD j 0 + 1 := by
      rw [List.getD_eq_getElem?_getD, List.getD_eq_getElem?_getD, List.getElem?_map,
        List.getElem?_eq_getElem (by rw [hl]; exact hjd)]
      rfl
    rw [hget]
    refine ⟨fun t ht => ?_, ⟨q, hq, by rw [heq]⟩⟩
    have := hle t ht
    linarith

end Hypervolume
